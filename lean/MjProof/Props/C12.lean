import MjProof.Lemmas.Constraint
import MjProof.Lemmas.MakeImpedance
/-
C12  The constraint cost has consistent derivatives.

`cost` of a row / cone block is the sum of the increments that `mj_constraintUpdate_impl` adds to its
accumulator `s` for that block (`RowOut.cost`, `(ellBlock …).terms.sum`); `update_cost_separable`
shows that the returned cost is the sum of these block costs and the returned force vector the
concatenation of the block forces, each block depending on its own residuals only — so the gradient
of the returned cost is obtained block by block from the theorems below.
-/
namespace MjProof.C12
open MjProof MjProof.Constraint

/-! ### scalar rows: force = −d cost / d jar at every residual, including the kink points -/

theorem eq_force_is_neg_deriv (D x0 : ℝ) :
    HasDerivAt (fun x => (eqRow D x).cost) (-(eqRow D x0).force) x0 := by
  have h : (fun x => (eqRow D x).cost) = fun x => 1 / 2 * D * x * x := by
    funext x; exact eqRow_cost D x
  rw [h, eqRow_force]
  have := ((hasDerivAt_id' x0).const_mul (1 / 2 * D)).fun_mul (hasDerivAt_id' x0)
  refine this.congr_deriv ?_
  ring

/-- friction-loss row (Huber cost with kinks at `jar = ±R·floss`) -/
theorem fric_force_is_neg_deriv (D R floss x0 : ℝ) (hD : 0 ≤ D) (hDR : D * R = 1) (hfl : 0 ≤ floss) :
    HasDerivAt (fun x => (fricRow D R floss x).cost) (-(fricRow D R floss x0).force) x0 := by
  have hb : 0 ≤ R * floss := mul_nonneg (R_pos_of hD hDR).le hfl
  have h : (fun x => (fricRow D R floss x).cost) = fun x => D * huber1 (R * floss) x := by
    funext x; exact fricRow_cost_eq hDR x
  rw [h, fricRow_force_eq hDR, neg_neg]
  exact hasDerivAt_scaled hD (fun x z => huber1_lower _ x z hb) (fun x z => huber1_upper _ x z hb) x0

/-- limit / frictionless contact / pyramidal edge (one-sided quadratic with a kink at `jar = 0`) -/
theorem nonneg_force_is_neg_deriv (D x0 : ℝ) (hD : 0 ≤ D) :
    HasDerivAt (fun x => (nonnegRow D x).cost) (-(nonnegRow D x0).force) x0 := by
  have h : (fun x => (nonnegRow D x).cost) = fun x => D * q1 x := by
    funext x; exact nonnegRow_cost_eq D x
  rw [h, nonnegRow_force_eq, neg_neg]
  exact hasDerivAt_scaled hD q1_lower q1_upper x0

/-- the three scalar laws together -/
theorem force_is_neg_grad_scalar (D R floss x0 : ℝ) (hD : 0 ≤ D) (hDR : D * R = 1) (hfl : 0 ≤ floss) :
    HasDerivAt (fun x => (eqRow D x).cost) (-(eqRow D x0).force) x0 ∧
    HasDerivAt (fun x => (fricRow D R floss x).cost) (-(fricRow D R floss x0).force) x0 ∧
    HasDerivAt (fun x => (nonnegRow D x).cost) (-(nonnegRow D x0).force) x0 :=
  ⟨eq_force_is_neg_deriv D x0, fric_force_is_neg_deriv D R floss x0 hD hDR hfl,
    nonneg_force_is_neg_deriv D x0 hD⟩

example : (0 : ℝ) ≤ 4 ∧ (4 : ℝ) * (1 / 4) = 1 ∧ (0 : ℝ) ≤ 1 / 2 := by norm_num

/-- C¹: the derivative (minus the force) is a continuous function of the residual -/
theorem cost_C1_scalar (D R floss : ℝ) (hD : 0 ≤ D) (hDR : D * R = 1) (hfl : 0 ≤ floss) :
    Continuous (fun x => (eqRow D x).force) ∧ Continuous (fun x => (fricRow D R floss x).force) ∧
    Continuous (fun x => (nonnegRow D x).force) := by
  have hb : 0 ≤ R * floss := mul_nonneg (R_pos_of hD hDR).le hfl
  refine ⟨?_, ?_, ?_⟩
  · have : (fun x => (eqRow D x).force) = fun x => -D * x := by funext x; exact eqRow_force D x
    rw [this]; fun_prop
  · have : (fun x => (fricRow D R floss x).force) = fun x => -(D * max (-(R * floss)) (min (R * floss) x)) := by
      funext x; rw [fricRow_force_eq hDR, huber1'_eq_clamp hb]
    rw [this]; fun_prop
  · have : (fun x => (nonnegRow D x).force) = fun x => -(D * min x 0) := by
      funext x; rw [nonnegRow_force_eq, q1'_eq_min]
    rw [this]; fun_prop

/-- convexity of the scalar costs -/
theorem cost_convex_scalar (D R floss : ℝ) (hD : 0 ≤ D) (hDR : D * R = 1) (hfl : 0 ≤ floss) :
    ConvexOn ℝ Set.univ (fun x => (eqRow D x).cost) ∧
    ConvexOn ℝ Set.univ (fun x => (fricRow D R floss x).cost) ∧
    ConvexOn ℝ Set.univ (fun x => (nonnegRow D x).cost) := by
  have hb : 0 ≤ R * floss := mul_nonneg (R_pos_of hD hDR).le hfl
  refine ⟨?_, ?_, ?_⟩
  · have h : (fun x => (eqRow D x).cost) = fun x => D * (1 / 2 * x * x) := by
      funext x; rw [eqRow_cost]; ring
    rw [h]
    exact convexOn_scaled (g1 := fun x => x) hD (fun x z => by nlinarith [sq_nonneg (x - z)])
  · have h : (fun x => (fricRow D R floss x).cost) = fun x => D * huber1 (R * floss) x := by
      funext x; exact fricRow_cost_eq hDR x
    rw [h]; exact convexOn_scaled hD (fun x z => huber1_lower _ x z hb)
  · have h : (fun x => (nonnegRow D x).cost) = fun x => D * q1 x := by
      funext x; exact nonnegRow_cost_eq D x
    rw [h]; exact convexOn_scaled hD q1_lower

/-! ### elliptic cone block -/
section elliptic
variable {n : ℕ} (D0 mu : ℝ) (D w : Fin n → ℝ)

/-- the model evaluates, according to its zone test, one of the three formulas `costZ`, `forceNZ`,
    `forceTZ` (top: zero; bottom: full quadratic; middle: squared distance to the cone) -/
theorem ellBlock_eq_zone_formulas (jar0 : ℝ) (jar : Fin n → ℝ) :
    ellCost D0 mu D w jar0 jar = costZ D0 mu D w (blkZone mu w jar0 jar) jar0 jar ∧
    (ellBlock D0 jar0 mu (tsOf D w jar)).force =
      forceNZ D0 mu w (blkZone mu w jar0 jar) jar0 jar ::
        List.ofFn (forceTZ D0 mu D w (blkZone mu w jar0 jar) jar0 jar) := by
  refine ⟨?_, ?_⟩
  · unfold ellCost; rw [ellBlock_terms_sum, blkCost_eq_costZ]
  · rw [ellBlock_force, blkForceN_eq_forceNZ]
    congr 1
    exact congrArg List.ofFn (funext fun i => blkForceT_eq_forceTZ D0 mu D w jar0 jar i)

/-- On the top/middle boundary `N = mu·T` the middle-zone cost and forces vanish like the top-zone
    ones: value and gradient agree (C¹ across the boundary), for any `D`. -/
theorem elliptic_zone_values_agree_top (jar0 : ℝ) (jar : Fin n → ℝ) (hb : jar0 * mu = mu * TT w jar) :
    costZ D0 mu D w Zone.middle jar0 jar = costZ D0 mu D w Zone.top jar0 jar ∧
    forceNZ D0 mu w Zone.middle jar0 jar = forceNZ D0 mu w Zone.top jar0 jar ∧
    ∀ i, forceTZ D0 mu D w Zone.middle jar0 jar i = forceTZ D0 mu D w Zone.top jar0 jar i :=
  zones_agree_top jar0 jar hb

/-- On the middle/bottom boundary `mu·N + T = 0` the middle-zone and bottom-zone cost and forces
    agree, under the impedance relation (C¹ across the boundary). -/
theorem elliptic_zone_values_agree_bottom (hmu : 0 < mu)
    (hrel : ∀ i, D i * (mu * mu) = D0 * (w i * w i)) (jar0 : ℝ) (jar : Fin n → ℝ)
    (hb : mu * (jar0 * mu) + TT w jar = 0) :
    costZ D0 mu D w Zone.middle jar0 jar = costZ D0 mu D w Zone.bottom jar0 jar ∧
    forceNZ D0 mu w Zone.middle jar0 jar = forceNZ D0 mu w Zone.bottom jar0 jar ∧
    (0 < TT w jar →
      ∀ i, forceTZ D0 mu D w Zone.middle jar0 jar i = forceTZ D0 mu D w Zone.bottom jar0 jar i) :=
  zones_agree_bottom hmu hrel jar0 jar hb

/-- force = −∇cost for the elliptic block, normal coordinate, at EVERY residual (zone interiors, both
    zone boundaries and the apex): the normal force is minus the partial derivative of the cost. -/
theorem elliptic_force_is_neg_grad_normal (hmu : 0 < mu) (hD0 : 0 ≤ D0)
    (hrel : ∀ i, D i * (mu * mu) = D0 * (w i * w i)) (jar0 : ℝ) (jar : Fin n → ℝ) :
    ∃ fN rest, (ellBlock D0 jar0 mu (tsOf D w jar)).force = fN :: rest ∧
      HasDerivAt (fun t => ellCost D0 mu D w t jar) (-fN) jar0 := by
  refine ⟨_, _, ellBlock_force D0 mu D w jar0 jar, ?_⟩
  have h : (fun t => ellCost D0 mu D w t jar) = fun t => blkCost D0 mu D w t jar := by
    funext t; exact ellBlock_terms_sum D0 mu D w t jar
  rw [h]; exact blk_hasDerivAt_normal hmu hD0 hrel jar0 jar

/-- force = −∇cost for the elliptic block, tangential coordinates, at EVERY residual. -/
theorem elliptic_force_is_neg_grad_tangent (hmu : 0 < mu) (hD0 : 0 ≤ D0)
    (hrel : ∀ i, D i * (mu * mu) = D0 * (w i * w i)) (jar0 : ℝ) (jar : Fin n → ℝ) :
    ∃ (fN : ℝ) (fT : Fin n → ℝ), (ellBlock D0 jar0 mu (tsOf D w jar)).force = fN :: List.ofFn fT ∧
      ∀ i, HasDerivAt (fun t => ellCost D0 mu D w jar0 (Function.update jar i t)) (-(fT i)) (jar i) := by
  refine ⟨_, _, ellBlock_force D0 mu D w jar0 jar, fun i => ?_⟩
  have h : (fun t => ellCost D0 mu D w jar0 (Function.update jar i t)) =
      fun t => blkCost D0 mu D w jar0 (Function.update jar i t) := by
    funext t; exact ellBlock_terms_sum D0 mu D w jar0 _
  rw [h]; exact blk_hasDerivAt_tangent hmu hD0 hrel jar0 jar i

/-- Without any relation between the `D` of the rows: in the INTERIOR of each zone (top: `N > mu·T`,
    bottom: `mu·N + T < 0`, middle: `state = CONE`, an open set) the returned forces are minus the
    partial derivatives of the cost (`Real.sqrt` is differentiated where `T ≠ 0`). -/
theorem elliptic_force_is_neg_grad_interior (hmu : 0 < mu) (jar0 : ℝ) (jar : Fin n → ℝ)
    (hint : (blkZone mu w jar0 jar = Zone.top → 0 < jar0 * mu - mu * TT w jar) ∧
            (blkZone mu w jar0 jar = Zone.bottom → mu * (jar0 * mu) + TT w jar < 0)) :
    ∃ (fN : ℝ) (fT : Fin n → ℝ), (ellBlock D0 jar0 mu (tsOf D w jar)).force = fN :: List.ofFn fT ∧
      HasDerivAt (fun t => ellCost D0 mu D w t jar) (-fN) jar0 ∧
      ∀ i, HasDerivAt (fun t => ellCost D0 mu D w jar0 (Function.update jar i t)) (-(fT i)) (jar i) := by
  refine ⟨_, _, ellBlock_force D0 mu D w jar0 jar, ?_, fun i => ?_⟩
  · have h : (fun t => ellCost D0 mu D w t jar) = fun t => blkCost D0 mu D w t jar := by
      funext t; exact ellBlock_terms_sum D0 mu D w t jar
    rw [h]; exact blk_interior_normal hmu jar0 jar hint
  · have h : (fun t => ellCost D0 mu D w jar0 (Function.update jar i t)) =
        fun t => blkCost D0 mu D w jar0 (Function.update jar i t) := by
      funext t; exact ellBlock_terms_sum D0 mu D w jar0 _
    rw [h]; exact blk_interior_tangent hmu jar0 jar i hint

example : ∃ (D0 mu : ℝ) (D w : Fin 2 → ℝ), 0 < mu ∧ 0 ≤ D0 ∧
    ∀ i, D i * (mu * mu) = D0 * (w i * w i) :=
  ⟨1, 1 / 2, ![4, 16], ![1, 2], by norm_num, by norm_num, by intro i; fin_cases i <;> norm_num⟩

/-- the supporting-hyperplane inequality behind both results: the first-order model built from the
    returned forces at `z` never exceeds the cost at any other residual `x` -/
theorem elliptic_gradient_inequality (hmu : 0 < mu) (hD0 : 0 ≤ D0)
    (hrel : ∀ i, D i * (mu * mu) = D0 * (w i * w i)) (x0 : ℝ) (x : Fin n → ℝ) (z0 : ℝ) (z : Fin n → ℝ) :
    ∃ (fN : ℝ) (fT : Fin n → ℝ), (ellBlock D0 z0 mu (tsOf D w z)).force = fN :: List.ofFn fT ∧
      ellCost D0 mu D w z0 z + (-fN) * (x0 - z0) + ∑ i, (-(fT i)) * (x i - z i) ≤ ellCost D0 mu D w x0 x := by
  refine ⟨_, _, ellBlock_force D0 mu D w z0 z, ?_⟩
  unfold ellCost; rw [ellBlock_terms_sum, ellBlock_terms_sum]
  exact blk_lower hmu hD0 hrel x0 x z0 z

/-- Convexity of the elliptic cost in the whole residual vector of the block. -/
theorem elliptic_convex (hmu : 0 < mu) (hD0 : 0 ≤ D0)
    (hrel : ∀ i, D i * (mu * mu) = D0 * (w i * w i)) :
    ConvexOn ℝ Set.univ (fun v : ℝ × (Fin n → ℝ) => ellCost D0 mu D w v.1 v.2) := by
  have h : (fun v : ℝ × (Fin n → ℝ) => ellCost D0 mu D w v.1 v.2) =
      fun v => blkCost D0 mu D w v.1 v.2 := by
    funext v; exact ellBlock_terms_sum D0 mu D w v.1 v.2
  rw [h]; exact blk_convex hmu hD0 hrel

/-- In the middle zone (`state = CONE`) with `flg_coneHessian`, the block written to `contact.H` is,
    row by row, `hessEntry` evaluated at the index objects of the rows … -/
theorem elliptic_hessian_block (jar0 : ℝ) (jar : Fin n → ℝ)
    (hst : (ellBlock D0 jar0 mu (tsOf D w jar)).state = stCone) :
    (ellBlock D0 jar0 mu (tsOf D w jar)).hess =
      some ((none :: List.ofFn (fun k => hIdxT w jar k)).flatMap (fun a =>
        (none :: List.ofFn (fun k => hIdxT w jar k)).map (fun b => blkHess D0 mu w jar0 jar a b))) :=
  ellBlock_hess D0 mu D w jar0 jar ((ellBlock_state_cone_iff D0 mu D w jar0 jar).mp hst)

/-- … and each of these entries is the derivative of minus the corresponding force component with
    respect to the corresponding residual (the Hessian of the cost = −d force / d jar), for the
    normal/normal, normal/tangent, tangent/normal and tangent/tangent pairs. -/
theorem elliptic_hessian_is_dforce (hmu : 0 < mu) (jar0 : ℝ) (jar : Fin n → ℝ)
    (hst : (ellBlock D0 jar0 mu (tsOf D w jar)).state = stCone) :
    HasDerivAt (fun t => -(blkForceN D0 mu w t jar)) (blkHess D0 mu w jar0 jar none none) jar0 ∧
    (∀ j, HasDerivAt (fun t => -(blkForceN D0 mu w jar0 (Function.update jar j t)))
      (blkHess D0 mu w jar0 jar none (hIdxT w jar j)) (jar j)) ∧
    (∀ k, HasDerivAt (fun t => -(blkForceT D0 mu D w t jar k))
      (blkHess D0 mu w jar0 jar (hIdxT w jar k) none) jar0) ∧
    (∀ k j, HasDerivAt (fun t => -(blkForceT D0 mu D w jar0 (Function.update jar j t) k))
      (blkHess D0 mu w jar0 jar (hIdxT w jar k) (hIdxT w jar j)) (jar j)) := by
  have hz := (ellBlock_state_cone_iff D0 mu D w jar0 jar).mp hst
  exact ⟨hess_nn hmu hz, fun j => hess_nt hmu hz j, fun k => hess_tn hmu hz k,
    fun k j => hess_tt hmu hz k j⟩

/-- `blkForceN`, `blkForceT` in the previous theorem are the components of the model's force vector -/
theorem elliptic_force_components (jar0 : ℝ) (jar : Fin n → ℝ) :
    (ellBlock D0 jar0 mu (tsOf D w jar)).force =
      blkForceN D0 mu w jar0 jar :: List.ofFn (blkForceT D0 mu D w jar0 jar) :=
  ellBlock_force D0 mu D w jar0 jar

end elliptic

/-! ### the parameters come from `mj_makeImpedance`

The elliptic theorems above assume the relation `D_j·mu² = D_0·friction_j²` between the regularisers
of the rows of a contact.  `mj_constraintUpdate_impl` receives `efc_D` and `contact.mu` from
`mj_makeImpedance`; the theorems below are about the model of that function (`impR`, `impEll`,
`makeImpedance` in Model/Constraint.lean, compared bit-for-bit with the compiled function on
assembled rows and on the constraint rows of generated scenes every run) and discharge the
assumption: with the parameters that `mj_makeImpedance` produces — for ANY `efc_diagA`, impedance,
`impratio` (also `≠ 1`) and any positive, possibly anisotropic, friction coefficients — the cost is
convex and the forces are minus its gradient at every residual. -/
section makeImpedance
variable (diagA imp impratio f0 : ℝ) (fr : List ℝ)

/-- Output of the contact loop of `mj_makeImpedance` for an elliptic contact of dimension
    `fr.length + 2` whose normal row has `R[i] = R0`: the rows get `R0 :: impRt …` and the contact
    `mu = impMu …`; with `R0 > 0` (the first loop clamps `R` at `mjMINVAL`: `impR_pos`) and positive
    friction coefficients, `mu > 0`, and `D = 1/R` satisfies the relation for EVERY tangential row. -/
theorem makeImpedance_elliptic_relation (hf0 : 0 < f0) (hfr : ∀ f ∈ fr, 0 < f) :
    let R0 := impR diagA imp
    let o := impEll R0 impratio f0 fr
    0 < R0 ∧ o.R = R0 :: List.ofFn (impRt R0 impratio f0 fr) ∧ 0 < o.mu ∧
      ∀ i, 1 / impRt R0 impratio f0 fr i * (o.mu * o.mu) = 1 / R0 * (impW f0 fr i * impW f0 fr i) := by
  intro R0 o
  have hR0 : 0 < R0 := impR_pos diagA imp
  exact ⟨hR0, impEll_R R0 impratio f0 fr, impMu_pos hR0 hf0 impratio,
    fun i => impEll_rel hR0 hf0 impratio fr hfr i⟩

example : ∃ (f0 : ℝ) (fr : List ℝ), 0 < f0 ∧ ∀ f ∈ fr, 0 < f :=
  ⟨1, [1 / 2, 1 / 200], by norm_num, by intro f hf; simp at hf; rcases hf with rfl | rfl <;> norm_num⟩

/-- The pyramidal branch assigns one common positive `R` to all `2(dim−1)` rows of the contact
    (those rows are one-sided quadratics: `nonneg_force_is_neg_deriv` applies with `D = 1/R ≥ 0`). -/
theorem makeImpedance_pyramidal_rows (dim : ℕ) (hf0 : 0 < f0) :
    let R0 := impR diagA imp
    ∃ Rpy : ℝ, 0 < Rpy ∧ (impPyr R0 impratio f0 dim).R = List.replicate (2 * (dim - 1)) Rpy := by
  intro R0
  have hR0 : 0 < R0 := impR_pos diagA imp
  have hmu := impMu_pos hR0 hf0 impratio
  refine ⟨2 * impMu R0 impratio f0 * impMu R0 impratio f0 * R0, by positivity, ?_⟩
  simp [impPyr, r_mul]

/-- force = −∇cost, supporting hyperplanes and convexity for the elliptic block run with the
    `efc_D = 1/efc_R` and `contact.mu` that `mj_makeImpedance` produces: no assumption relating the
    parameters is left. -/
theorem elliptic_derivatives_of_makeImpedance (hf0 : 0 < f0) (hfr : ∀ f ∈ fr, 0 < f) :
    let R0 := impR diagA imp
    let mu := (impEll R0 impratio f0 fr).mu
    let D0 := 1 / R0
    let D : Fin (fr.length + 1) → ℝ := fun i => 1 / impRt R0 impratio f0 fr i
    let w := impW f0 fr
    (∀ (jar0 : ℝ) (jar : Fin (fr.length + 1) → ℝ),
      ∃ (fN : ℝ) (fT : Fin (fr.length + 1) → ℝ),
        (ellBlock D0 jar0 mu (tsOf D w jar)).force = fN :: List.ofFn fT ∧
        HasDerivAt (fun t => ellCost D0 mu D w t jar) (-fN) jar0 ∧
        (∀ i, HasDerivAt (fun t => ellCost D0 mu D w jar0 (Function.update jar i t)) (-(fT i)) (jar i)) ∧
        ∀ (x0 : ℝ) (x : Fin (fr.length + 1) → ℝ),
          ellCost D0 mu D w jar0 jar + (-fN) * (x0 - jar0) + ∑ i, (-(fT i)) * (x i - jar i) ≤
            ellCost D0 mu D w x0 x) ∧
    ConvexOn ℝ Set.univ (fun v : ℝ × (Fin (fr.length + 1) → ℝ) => ellCost D0 mu D w v.1 v.2) := by
  intro R0 mu D0 D w
  have hR0 : 0 < R0 := impR_pos diagA imp
  have hmu : 0 < mu := impMu_pos hR0 hf0 impratio
  have hD0 : 0 ≤ D0 := (one_div_pos.mpr hR0).le
  have hrel : ∀ i, D i * (mu * mu) = D0 * (w i * w i) := fun i => impEll_rel hR0 hf0 impratio fr hfr i
  refine ⟨fun jar0 jar => ?_, elliptic_convex D0 mu D w hmu hD0 hrel⟩
  obtain ⟨fN, fT, hf, hT⟩ := elliptic_force_is_neg_grad_tangent D0 mu D w hmu hD0 hrel jar0 jar
  obtain ⟨fN', rest, hf', hN⟩ := elliptic_force_is_neg_grad_normal D0 mu D w hmu hD0 hrel jar0 jar
  have e1 : fN' = fN := by rw [hf] at hf'; exact ((List.cons.inj hf').1).symm
  refine ⟨fN, fT, hf, e1 ▸ hN, hT, fun x0 x => ?_⟩
  obtain ⟨gN, gT, hg, hG⟩ := elliptic_gradient_inequality D0 mu D w hmu hD0 hrel x0 x jar0 jar
  rw [hf] at hg
  have e2 : gN = fN := ((List.cons.inj hg).1).symm
  have e3 : gT = fT := (List.ofFn_injective ((List.cons.inj hg).2)).symm
  rw [e2, e3] at hG
  exact hG

/-- The row loop of the model (`impGo`, the second loop of `mj_makeImpedance`) meeting the first row of
    an elliptic contact with `R[i] = R0` writes exactly `(impEll R0 impratio friction[0] friction[1..dim-2]).R`
    to the `dim` rows of the contact and `impMu …` to `contact.mu`, and continues behind the block:
    the per-contact theorems above apply to every elliptic block of the array. -/
theorem makeImpedance_loop_elliptic_block (R0 : ℝ) (id : ℕ) (cons : List (Contact ℝ)) (rest : List (ℝ × ℕ × ℕ))
    (mus : List (Option ℝ)) (c : Contact ℝ) (ftail : List ℝ)
    (hc : cons[id]? = some c) (hf : c.friction = f0 :: ftail)
    (hok : ¬ (c.dim < 2 ∨ 6 < c.dim ∨ rest.length < c.dim - 1 ∨ ftail.length < c.dim - 2)) :
    impGo impratio cons ((R0, cnstrElliptic, id) :: rest) mus =
      (impGo impratio cons (rest.drop (c.dim - 1)) (setAt mus id (some (impMu R0 impratio f0)))).map
        (fun p => ((impEll R0 impratio f0 (ftail.take (c.dim - 2))).R ++ p.1, p.2)) :=
  impGo_elliptic_block impratio R0 id cons rest mus c f0 ftail hc hf hok

end makeImpedance

/-- Composition of rows: the cost returned by the update is the sum of the block costs, the force
    vector the concatenation of the block forces (blocks = `parse`), so the gradient of the returned
    cost is given block by block by the theorems above. -/
theorem update_cost_separable (ne nf : Nat) (flgH : Bool) (rows : List (Row ℝ)) (cons : List (Contact ℝ))
    (o : Out ℝ) (h : update ne nf flgH rows cons = some o) :
    ∃ bs, parse ne nf cons 0 rows = some bs ∧ o.cost = (bs.map Block.cost).sum ∧
      o.force = bs.flatMap Block.force ∧ o.state = bs.flatMap Block.states :=
  update_decomposes ne nf flgH rows cons o h

end MjProof.C12
