import MjProof.Model.Introspect
import MjProof.Gen.IntrospectHeaders
import MjProof.Gen.IntrospectPython
/-
C49 (table half, part: enum tables).  See Props/C49Gen.lean.  Split into several modules only so that lake
checks the kernel evaluations in parallel.
-/
namespace MjProof.C49
open MjProof.CType MjProof.Introspect
open MjProof.Gen

/-- Every enum of the API: same name, same declaration name, same constants with the same values in
    the same order, and the same enums in the same order, on both sides. -/
theorem enum_tables_equal : IntrospectPython.enums = IntrospectHeaders.enums := by decide +kernel

end MjProof.C49
