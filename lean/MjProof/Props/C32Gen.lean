import MjProof.Lemmas.XmlDefaults
import MjProof.Gen.McjfDefaults
/-
C32, statements about the tables regenerated from src/xml/generated/mjcf_read_table.inc and mjcf_map.h on every
run (kept apart from Props/C32.lean so that a source change breaking them shows up as exactly these obligations).
-/
namespace MjProof.C32
open MjProof.XmlDefaults MjProof.Gen.McjfDefaults

/-- what the generic theorems need from a row table: pairwise different attribute names, and no `required`
    attribute among the rows the table writer may elide -/
def tableOK (rows : List Row) : Bool :=
  decide ((rows.map (·.attr)).Nodup) &&
  rows.all fun r => !((r.kind.isNum || r.kind.isKey) && !r.handwrite) || !r.required

/-- every keyword map used by a generated row inverts on its own values: FindKey (FindValue c) = c, keyword
    non-empty, value non-negative (`mapOK`), so every listed enum value satisfies the hypothesis of the round trip -/
theorem generated_maps_ok : maps.all (fun m => mapOK m.2) = true := by decide +kernel

/-- every table used by both the writer and the reader has pairwise different attribute names and never pairs
    `required` with default elision -/
theorem generated_tables_ok : roundTripTables.all (fun t => tableOK t.2) = true := by decide +kernel

/-- the three generated files are what the tree's generators produce from mjcf.schema (evaluated by the translator) -/
theorem generated_tables_fresh : fresh = true := by decide

/-- The generic round trip instantiated on the generated tables: for every table used by both sides, every exact
    scalar structure, every typed object / default pair: reading back what the table writer wrote never fails and
    gives the object on the rows the table handles, the default on the others. -/
theorem generated_roundtrip {α : Type} (K : Kind → Scalar α)
    (hq : ∀ k a, (K k).quant a = a) (hs : ∀ k a b, (K k).same a b = true → a = b)
    (heq : ∀ k a b, (K k).eqb a b = true → (K k).same a b = true) (wd : Bool)
    (name : String) (rows : List Row) (hmem : (name, rows) ∈ roundTripTables)
    (vs ds : List (Val α)) (hwt : ElemWT K rows vs ds) :
    readElem wd (writeElem K wd rows vs ds) rows ds = .ok (merged wd rows vs ds) := by
  have h := generated_tables_ok
  rw [List.all_eq_true] at h
  have ht := h (name, rows) hmem
  simp only [tableOK, Bool.and_eq_true, decide_eq_true_eq] at ht
  obtain ⟨vs', h1, h2⟩ := readElem_writeElem K heq wd rows vs ds hwt ht.1
  rw [h1, ElemRT.eq_merged K wd hq hs h2]

end MjProof.C32
