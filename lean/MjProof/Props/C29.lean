/-
C29  Passive forces follow their physical laws (DESIGN.md §5.C29).

All statements are over the reals, about the hand model `MjProof.Passive` (Model/Passive.lean), which is built on the
translator-generated polynomial kernels (`Gen.mju_polyForce_*`, `Gen.mju_polyPotential_spring`) and compared bitwise
with the engine's qfrc_spring / qfrc_damper / qfrc_gravcomp / qfrc_passive by checks/c29.py.

* `polyForce_spring_eq`, `polyForce_damper_eq`, `polyPotential_spring_eq`: the generated kernels are the documented
  polynomials  k + p0 x + p1 x²,  b + p0 |v| + p1 |v|²,  k x²/2 + p0 x³/3 + p1 x⁴/4.
* `spring_force_eq_neg_k_deflection`: a linear slide / hinge spring produces −k (q − springref);
  `spring_force_poly`: in general −(k x + p0 x² + p1 x³), x = q − springref (also when the engine skips the joint).
* `spring_force_eq_neg_dV`: that force is minus the derivative (HasDerivAt) of the potential mj_energyPos reports.
* `tendon_spring_force_eq_neg_dV`: same for a tendon spring with its springlength deadband [lower, upper], at EVERY
  length including the two kinks (lower ≤ upper).
* `free_spring_force`: the translational spring of a free joint is −κ(r)·dif with r = |dif|, κ the same polynomial.
* `damper_power_nonpos`, `tendon_damper_power_nonpos`: with non-negative coefficients a dof damper and a tendon
  damper (mapped to the dofs through the Jacobian row, tendon velocity = J·qvel) never deliver positive power.
  The hypothesis is needed: the compiler accepts negative damping coefficients (checked by checks/c29.py and
  recorded in the evidence), for which the damper adds energy (`negative_damping_adds_energy`).
* `gravcomp_cancels_fraction`, `gravcomp_full_cancels`: the force applied at the body COM is −gravcomp·mass·gravity,
  so through any Jacobian column it contributes −gravcomp times what gravity contributes; gravcomp = 1 cancels
  gravity on that body exactly.
* `flgGravcomp_iff`, `gravcomp_gate_exact`, `no_gravcomp_only_if_zero`, `gravcomp_gate_open`: the tests that decide
  whether gravity compensation is computed at all (the model constant flg_gravcomp derived by setFixed, the entry test
  and body skip of mj_gravcomp, has_gravcomp in mj_passive) are exact — every body receives −gravcomp·mass·gravity,
  for non-negative coefficients (`negative_gravcomp_dropped` shows the hypothesis is needed); `gated_enabled`,
  `switches_remove_only_their_term`: what mjDSBL_SPRING / mjDSBL_DAMPER switch off.
* `rest_zero_passive`: zero velocity, every spring at its reference, every tendon inside its deadband ⇒ spring,
  damper and summed passive force are zero.
-/
import MjProof.Model.Passive
import MjProof.Lemmas.RealNum
import Mathlib.Analysis.Calculus.Deriv.Pow
import Mathlib.Analysis.Calculus.Deriv.Add
import Mathlib.Analysis.Calculus.Deriv.Mul
import Mathlib.Tactic.Ring
import Mathlib.Tactic.Linarith
import Mathlib.Tactic.NormNum
import Mathlib.Tactic.Positivity

namespace MjProof.C29
open MjProof MjProof.Gen MjProof.Passive

/-! ### the generated polynomial kernels -/

theorem polyForce_spring_eq (k p0 p1 x : ℝ) : mju_polyForce_spring k p0 p1 x = k + p0 * x + p1 * x ^ 2 := by
  simp only [mju_polyForce_spring, real_ofInt]; push_cast; ring

theorem polyForce_damper_eq (b p0 p1 v : ℝ) : mju_polyForce_damper b p0 p1 v = b + p0 * |v| + p1 * |v| ^ 2 := by
  simp only [mju_polyForce_damper, real_ofInt, real_abs]; push_cast; ring

theorem polyPotential_spring_eq (k p0 p1 x : ℝ) :
    mju_polyPotential_spring k p0 p1 x = k * x ^ 2 / 2 + p0 * x ^ 3 / 3 + p1 * x ^ 4 / 4 := by
  simp only [mju_polyPotential_spring, real_ofInt, real_ofSci]
  have h : (OfScientific.ofScientific 5 true 1 : ℝ) = 1 / 2 := by norm_num
  rw [h]; push_cast; ring

theorem allZero_iff (k p0 p1 : ℝ) : allZero k p0 p1 = true ↔ k = 0 ∧ p0 = 0 ∧ p1 = 0 := by
  simp [allZero, and_assoc]

/-! ### joint springs -/

/-- slide / hinge spring as coded = the documented polynomial law (also when the engine skips the joint) -/
theorem spring_force_poly (k p0 p1 q qs : ℝ) :
    jointSpring k p0 p1 q qs = -(k * (q - qs) + p0 * (q - qs) ^ 2 + p1 * (q - qs) ^ 3) := by
  unfold jointSpring
  split
  · next h => obtain ⟨rfl, rfl, rfl⟩ := (allZero_iff _ _ _).1 h; simp
  · simp only [polyForce_spring_eq]; ring

/-- linear spring: force = −stiffness × deflection from springref -/
theorem spring_force_eq_neg_k_deflection (k q qs : ℝ) : jointSpring k 0 0 q qs = -k * (q - qs) := by
  rw [spring_force_poly]; ring

theorem spring_energy_poly (k p0 p1 q qs : ℝ) :
    jointSpringEnergy k p0 p1 q qs = k * (q - qs) ^ 2 / 2 + p0 * (q - qs) ^ 3 / 3 + p1 * (q - qs) ^ 4 / 4 := by
  unfold jointSpringEnergy
  split
  · next h => obtain ⟨rfl, rfl, rfl⟩ := (allZero_iff _ _ _).1 h; simp
  · rw [polyPotential_spring_eq]

/-- derivative of the potential polynomial -/
theorem hasDerivAt_potential (k p0 p1 c x : ℝ) :
    HasDerivAt (fun y : ℝ => k * (y - c) ^ 2 / 2 + p0 * (y - c) ^ 3 / 3 + p1 * (y - c) ^ 4 / 4)
      (k * (x - c) + p0 * (x - c) ^ 2 + p1 * (x - c) ^ 3) x := by
  have hx : HasDerivAt (fun y : ℝ => y - c) 1 x := (hasDerivAt_id x).sub_const c
  have h2 := ((hx.pow 2).const_mul k).div_const 2
  have h3 := ((hx.pow 3).const_mul p0).div_const 3
  have h4 := ((hx.pow 4).const_mul p1).div_const 4
  have h := (h2.add h3).add h4
  have hd : k * ((2 : ℕ) * (x - c) ^ (2 - 1) * 1) / 2 + p0 * ((3 : ℕ) * (x - c) ^ (3 - 1) * 1) / 3 +
      p1 * ((4 : ℕ) * (x - c) ^ (4 - 1) * 1) / 4 = k * (x - c) + p0 * (x - c) ^ 2 + p1 * (x - c) ^ 3 := by
    norm_num; ring
  exact h.congr_deriv hd

/-- the spring force is minus the gradient of the reported potential (slide / hinge) -/
theorem spring_force_eq_neg_dV (k p0 p1 q qs : ℝ) :
    HasDerivAt (fun y => jointSpringEnergy k p0 p1 y qs) (-(jointSpring k p0 p1 q qs)) q := by
  have h := hasDerivAt_potential k p0 p1 qs q
  have he : (fun y => jointSpringEnergy k p0 p1 y qs) =
      fun y : ℝ => k * (y - qs) ^ 2 / 2 + p0 * (y - qs) ^ 3 / 3 + p1 * (y - qs) ^ 4 / 4 := by
    funext y; exact spring_energy_poly k p0 p1 y qs
  rw [he, spring_force_poly, neg_neg]
  exact h

example : jointSpring (2 : ℝ) 0 0 3 1 = -4 := by rw [spring_force_eq_neg_k_deflection]; norm_num

/-- translational spring of a free joint: −κ(r)·dif, r = |dif| -/
theorem free_spring_force (k p0 p1 : ℝ) (p ps : ℝ × ℝ × ℝ) :
    let dif := (p.1 - ps.1, p.2.1 - ps.2.1, p.2.2 - ps.2.2)
    let r := Real.sqrt (dif.1 * dif.1 + dif.2.1 * dif.2.1 + dif.2.2 * dif.2.2)
    let κ := k + p0 * r + p1 * r ^ 2
    freeLinSpring k p0 p1 p ps (0, 0, 0) = (-(κ * dif.1), -(κ * dif.2.1), -(κ * dif.2.2)) := by
  simp only [freeLinSpring, addToScl3, mju_norm3, real_sqrt, polyForce_spring_eq]
  refine Prod.ext ?_ (Prod.ext ?_ ?_) <;> simp <;> ring

/-! ### tendon springs -/

theorem tendonX_eq (l lo hi : ℝ) :
    tendonX l lo hi = if hi < l then l - hi else if l < lo then l - lo else 0 := by
  simp [tendonX, real_lt_iff]

theorem tendon_spring_poly (k p0 p1 l lo hi : ℝ) :
    tendonSpring k p0 p1 l lo hi =
      -(k * tendonX l lo hi + p0 * tendonX l lo hi ^ 2 + p1 * tendonX l lo hi ^ 3) := by
  simp only [tendonSpring, polyForce_spring_eq]; ring

theorem hasDerivAt_of_sides {f : ℝ → ℝ} {a f' : ℝ} (hl : HasDerivWithinAt f f' (Set.Iic a) a)
    (hr : HasDerivWithinAt f f' (Set.Ici a) a) : HasDerivAt f f' a := by
  have h := hl.union hr
  rw [Set.Iic_union_Ici] at h
  exact h.hasDerivAt Filter.univ_mem

/-- the tendon spring force is minus the derivative of the reported potential with respect to the tendon
    length, at every length (the potential is C¹ across the two ends of the deadband) -/
theorem tendon_spring_force_eq_neg_dV (k p0 p1 l lo hi : ℝ) (hlh : lo ≤ hi) :
    HasDerivAt (fun y => tendonEnergy k p0 p1 y lo hi) (-(tendonSpring k p0 p1 l lo hi)) l := by
  -- potential and force as explicit functions of the displacement
  set E : ℝ → ℝ := fun x => k * x ^ 2 / 2 + p0 * x ^ 3 / 3 + p1 * x ^ 4 / 4 with hE
  set F : ℝ → ℝ := fun x => k * x + p0 * x ^ 2 + p1 * x ^ 3 with hF
  have hfun : (fun y => tendonEnergy k p0 p1 y lo hi) = fun y => E (tendonX y lo hi) := by
    funext y; simp only [tendonEnergy, polyPotential_spring_eq, hE]
  have hforce : -(tendonSpring k p0 p1 l lo hi) = F (tendonX l lo hi) := by
    rw [tendon_spring_poly, neg_neg]
  rw [hfun, hforce]
  -- E ∘ (· - c) has derivative F (x - c); the constant E 0 has derivative F 0 = 0
  have hshift : ∀ c x : ℝ, HasDerivAt (fun y => E (y - c)) (F (x - c)) x := by
    intro c x
    have := hasDerivAt_potential k p0 p1 c x
    simpa [hE, hF] using this
  have hF0 : F 0 = 0 := by simp [hF]
  have hconst : ∀ x : ℝ, HasDerivAt (fun _ : ℝ => E 0) (F 0) x := by
    intro x; rw [hF0]; exact hasDerivAt_const x (E 0)
  apply hasDerivAt_of_sides
  · -- left side
    rcases lt_trichotomy l lo with h | h | h
    · -- l < lo: displacement is y - lo on (-∞, l]
      have hx : tendonX l lo hi = l - lo := by rw [tendonX_eq]; simp [not_lt.2 (by linarith : l ≤ hi), h]
      rw [hx]
      refine (hshift lo l).hasDerivWithinAt.congr ?_ ?_
      · intro y hy
        have hy' : y ≤ l := hy
        rw [tendonX_eq]; simp [not_lt.2 (by linarith : y ≤ hi), (by linarith : y < lo)]
      · rw [tendonX_eq]; simp [not_lt.2 (by linarith : l ≤ hi), h]
    · -- l = lo: displacement is y - lo on (-∞, lo] (0 at lo itself)
      subst h
      have hx : tendonX l l hi = l - l := by rw [tendonX_eq]; simp [not_lt.2 hlh]
      rw [hx]
      refine (hshift l l).hasDerivWithinAt.congr ?_ ?_
      · intro y hy
        have hy' : y ≤ l := hy
        rw [tendonX_eq]
        rcases lt_or_eq_of_le hy' with h1 | h1
        · simp [not_lt.2 (by linarith : y ≤ hi), h1]
        · subst h1; simp [not_lt.2 hlh]
      · rw [tendonX_eq]; simp [not_lt.2 hlh]
    · -- lo < l
      by_cases hh : l ≤ hi
      · -- inside the deadband (or at its upper end): displacement 0 on (lo, l]
        have hx : tendonX l lo hi = 0 := by rw [tendonX_eq]; simp [not_lt.2 hh, not_lt.2 (le_of_lt h)]
        rw [hx]
        refine (hconst l).hasDerivWithinAt.congr_of_eventuallyEq ?_ ?_
        · have : Set.Ioi lo ∈ nhdsWithin l (Set.Iic l) := mem_nhdsWithin_of_mem_nhds (Ioi_mem_nhds h)
          filter_upwards [this, self_mem_nhdsWithin] with y hy1 hy2
          have h1 : lo < y := hy1
          have h2 : y ≤ l := hy2
          rw [tendonX_eq]; simp [not_lt.2 (by linarith : y ≤ hi), not_lt.2 (le_of_lt h1)]
        · rw [tendonX_eq]; simp [not_lt.2 hh, not_lt.2 (le_of_lt h)]
      · -- l > hi: displacement y - hi near l
        have hh' : hi < l := not_le.1 hh
        have hx : tendonX l lo hi = l - hi := by rw [tendonX_eq]; simp [hh']
        rw [hx]
        refine (hshift hi l).hasDerivWithinAt.congr_of_eventuallyEq ?_ ?_
        · have : Set.Ioi hi ∈ nhdsWithin l (Set.Iic l) := mem_nhdsWithin_of_mem_nhds (Ioi_mem_nhds hh')
          filter_upwards [this] with y hy1
          have h1 : hi < y := hy1
          rw [tendonX_eq]; simp [h1]
        · rw [tendonX_eq]; simp [hh']
  · -- right side
    rcases lt_trichotomy l hi with h | h | h
    · by_cases hl : lo ≤ l
      · -- inside the deadband (or at its lower end): displacement 0 on [l, hi)
        have hx : tendonX l lo hi = 0 := by rw [tendonX_eq]; simp [not_lt.2 (le_of_lt h), not_lt.2 hl]
        rw [hx]
        refine (hconst l).hasDerivWithinAt.congr_of_eventuallyEq ?_ ?_
        · have : Set.Iio hi ∈ nhdsWithin l (Set.Ici l) := mem_nhdsWithin_of_mem_nhds (Iio_mem_nhds h)
          filter_upwards [this, self_mem_nhdsWithin] with y hy1 hy2
          have h1 : y < hi := hy1
          have h2 : l ≤ y := hy2
          rw [tendonX_eq]; simp [not_lt.2 (le_of_lt h1), not_lt.2 (by linarith : lo ≤ y)]
        · rw [tendonX_eq]; simp [not_lt.2 (le_of_lt h), not_lt.2 hl]
      · -- l < lo: displacement y - lo near l
        have hl' : l < lo := not_le.1 hl
        have hx : tendonX l lo hi = l - lo := by rw [tendonX_eq]; simp [not_lt.2 (le_of_lt h), hl']
        rw [hx]
        refine (hshift lo l).hasDerivWithinAt.congr_of_eventuallyEq ?_ ?_
        · have : Set.Iio lo ∈ nhdsWithin l (Set.Ici l) := mem_nhdsWithin_of_mem_nhds (Iio_mem_nhds hl')
          filter_upwards [this] with y hy1
          have h1 : y < lo := hy1
          rw [tendonX_eq]; simp [not_lt.2 (by linarith : y ≤ hi), h1]
        · rw [tendonX_eq]; simp [not_lt.2 (le_of_lt h), hl']
    · -- l = hi: displacement y - hi on [hi, ∞) (0 at hi itself)
      subst h
      have hx : tendonX l lo l = l - l := by rw [tendonX_eq]; simp [not_lt.2 hlh]
      rw [hx]
      refine (hshift l l).hasDerivWithinAt.congr ?_ ?_
      · intro y hy
        have hy' : l ≤ y := hy
        rw [tendonX_eq]
        rcases lt_or_eq_of_le hy' with h1 | h1
        · simp [h1]
        · subst h1; simp [not_lt.2 hlh]
      · rw [tendonX_eq]; simp [not_lt.2 hlh]
    · -- l > hi: displacement y - hi on [l, ∞)
      have hx : tendonX l lo hi = l - hi := by rw [tendonX_eq]; simp [h]
      rw [hx]
      refine (hshift hi l).hasDerivWithinAt.congr ?_ ?_
      · intro y hy
        have hy' : l ≤ y := hy
        rw [tendonX_eq]; simp [(by linarith : hi < y)]
      · rw [tendonX_eq]; simp [h]

example : tendonSpring (3 : ℝ) 0 0 2.5 1 2 = -1.5 := by
  rw [tendon_spring_poly, tendonX_eq]; norm_num

/-! ### dampers never add energy (non-negative coefficients) -/

theorem damper_force_poly (b p0 p1 v : ℝ) : dofDamper b p0 p1 v = -(v * (b + p0 * |v| + p1 * |v| ^ 2)) := by
  unfold dofDamper
  split
  · next h => obtain ⟨rfl, rfl, rfl⟩ := (allZero_iff _ _ _).1 h; simp
  · simp only [polyForce_damper_eq]; ring

/-- power of a dof damper: qvel · f ≤ 0 -/
theorem damper_power_nonpos (b p0 p1 v : ℝ) (hb : 0 ≤ b) (h0 : 0 ≤ p0) (h1 : 0 ≤ p1) :
    v * dofDamper b p0 p1 v ≤ 0 := by
  rw [damper_force_poly]
  have hc : 0 ≤ b + p0 * |v| + p1 * |v| ^ 2 := by positivity
  nlinarith [mul_nonneg (mul_self_nonneg v) hc]

example : (2 : ℝ) * dofDamper 1 0.5 0 2 ≤ 0 := damper_power_nonpos _ _ _ _ (by norm_num) (by norm_num) (by norm_num)

/-- the hypothesis matters: a negative linear coefficient makes the "damper" deliver positive power -/
theorem negative_damping_adds_energy : (1 : ℝ) * dofDamper (-1) 0 0 1 > 0 := by
  rw [damper_force_poly]; norm_num

/-- tendon velocity as the engine computes it: J · qvel (over the dofs of the row) -/
def dotJ : List ℝ → List ℝ → ℝ
  | j :: js, v :: vs => j * v + dotJ js vs
  | _, _ => 0

theorem power_map_mul (J qvel : List ℝ) (f : ℝ) (hlen : J.length = qvel.length) :
    power qvel (J.map (fun j => j * f)) = dotJ J qvel * f := by
  induction J generalizing qvel with
  | nil => cases qvel <;> simp [power, dotJ]
  | cons j js ih =>
    cases qvel with
    | nil => simp at hlen
    | cons v vs =>
      simp only [List.map_cons, power, dotJ]
      rw [ih vs (by simpa using hlen)]
      ring

theorem tendon_damper_force_poly (b d0 d1 v : ℝ) : tendonDamper b d0 d1 v = -(v * (b + d0 * |v| + d1 * |v| ^ 2)) := by
  simp only [tendonDamper, polyForce_damper_eq]; ring

/-- power of a tendon damper mapped to the dofs (qfrc_damper[k] += J[k]·frc): Σ qvel_k J_k frc = v_tendon·frc ≤ 0 -/
theorem tendon_damper_power_nonpos (b d0 d1 : ℝ) (J qvel : List ℝ) (hlen : J.length = qvel.length)
    (hb : 0 ≤ b) (h0 : 0 ≤ d0) (h1 : 0 ≤ d1) :
    power qvel (J.map (fun j => j * tendonDamper b d0 d1 (dotJ J qvel))) ≤ 0 := by
  rw [power_map_mul J qvel _ hlen, tendon_damper_force_poly]
  set v := dotJ J qvel
  have hc : 0 ≤ b + d0 * |v| + d1 * |v| ^ 2 := by positivity
  nlinarith [mul_nonneg (mul_self_nonneg v) hc]

example : power [1, 2] ([0.5, -1].map (fun j => j * tendonDamper (1 : ℝ) 0 0 (dotJ [0.5, -1] [1, 2]))) ≤ 0 :=
  tendon_damper_power_nonpos _ _ _ _ _ rfl (by norm_num) (by norm_num) (by norm_num)

/-! ### gravity compensation -/

/-- through any Jacobian column the compensation contributes −gravcomp × (what gravity contributes) -/
theorem gravcomp_cancels_fraction (g jac : ℝ × ℝ × ℝ) (mass gc : ℝ) :
    dot3 jac (gravcompForce g mass gc) = -gc * dot3 jac (g.1 * mass, g.2.1 * mass, g.2.2 * mass) := by
  simp only [dot3, gravcompForce]; ring

/-- gravcomp = 1: the applied force and the weight cancel exactly -/
theorem gravcomp_full_cancels (g : ℝ × ℝ × ℝ) (mass : ℝ) :
    let f := gravcompForce g mass 1
    f.1 + mass * g.1 = 0 ∧ f.2.1 + mass * g.2.1 = 0 ∧ f.2.2 + mass * g.2.2 = 0 := by
  simp only [gravcompForce]; refine ⟨?_, ?_, ?_⟩ <;> ring

/-! ### gating: the tests that decide whether a term is computed never drop a non-zero force

`setFixed` derives `flg_gravcomp` from `body_gravcomp` (`ngravcomp`, `flgGravcomp`), `mj_gravcomp` tests it together with
the gravity switch and `|gravity| == 0` (`gravcompEntry`), skips bodies with `gravcomp == 0` and reports `has_gravcomp`
(`gravcompStage`), which decides whether `mj_passive` adds `qfrc_gravcomp` to `qfrc_passive`.  The theorems say these
shortcuts are exact: what each body receives is always the law `-gravcomp·mass·gravity`. -/

theorem ngravcomp_pos_iff (gc : List ℝ) : 0 < ngravcomp gc ↔ ∃ c ∈ gc, 0 < c := by
  unfold ngravcomp
  rw [List.length_pos_iff_exists_mem]
  constructor
  · rintro ⟨c, hc⟩
    rw [List.mem_filter] at hc
    exact ⟨c, hc.1, by simpa [real_lt_iff] using hc.2⟩
  · rintro ⟨c, hc, hpos⟩
    exact ⟨c, List.mem_filter.2 ⟨hc, by simpa [real_lt_iff] using hpos⟩⟩

/-- the model constant `flg_gravcomp` is set exactly when some body (jointed or not, any depth) has gravcomp > 0 -/
theorem flgGravcomp_iff (gc : List ℝ) : flgGravcomp gc = true ↔ ∃ c ∈ gc, 0 < c := by
  unfold flgGravcomp
  rw [decide_eq_true_iff]
  exact ngravcomp_pos_iff gc

/-- `ngravcomp` counts every body with gravcomp > 0: inserting one more such body (anywhere) adds one -/
theorem ngravcomp_cons (c : ℝ) (gc : List ℝ) : ngravcomp (c :: gc) = ngravcomp gc + (if 0 < c then 1 else 0) := by
  unfold ngravcomp
  by_cases h : 0 < c
  · have h' : (decide (MjNum.ofInt 0 < c)) = true := by simpa [real_lt_iff] using h
    simp [h]
  · have h' : (decide (MjNum.ofInt 0 < c)) = false := by simpa [real_lt_iff] using h
    simp [h]

theorem norm3_eq_zero_iff (a b c : ℝ) : mju_norm3 a b c = 0 ↔ a = 0 ∧ b = 0 ∧ c = 0 := by
  simp only [mju_norm3, real_sqrt]
  rw [Real.sqrt_eq_zero']
  constructor
  · intro h
    have ha : a * a = 0 := by nlinarith [mul_self_nonneg a, mul_self_nonneg b, mul_self_nonneg c]
    have hb : b * b = 0 := by nlinarith [mul_self_nonneg a, mul_self_nonneg b, mul_self_nonneg c]
    have hc : c * c = 0 := by nlinarith [mul_self_nonneg a, mul_self_nonneg b, mul_self_nonneg c]
    exact ⟨mul_self_eq_zero.1 ha, mul_self_eq_zero.1 hb, mul_self_eq_zero.1 hc⟩
  · rintro ⟨rfl, rfl, rfl⟩; simp

theorem gravcompForce_zero_gc (g : ℝ × ℝ × ℝ) (mass : ℝ) : gravcompForce g mass 0 = (0, 0, 0) := by
  simp [gravcompForce]

theorem gravcompForce_zero_gravity (mass gc : ℝ) : gravcompForce ((0, 0, 0) : ℝ × ℝ × ℝ) mass gc = (0, 0, 0) := by
  simp [gravcompForce]

/-- when the entry test of `mj_gravcomp` fails (gravity switch on), no body has a non-zero compensation force
    (non-negative gravcomp coefficients, `flg_gravcomp` as `setFixed` computes it) -/
theorem gravcomp_entry_closed_zero (g : ℝ × ℝ × ℝ) (bodies : List (ℝ × ℝ)) (hnn : ∀ b ∈ bodies, 0 ≤ b.2)
    (hclosed : gravcompEntry (flgGravcomp (bodies.map (fun b => b.2))) false g = false) :
    ∀ b ∈ bodies, gravcompForce g b.1 b.2 = (0, 0, 0) := by
  intro b hb
  unfold gravcompEntry at hclosed
  by_cases hf : flgGravcomp (bodies.map (fun b => b.2)) = true
  · -- the flag is set, so the norm of gravity is zero
    have hn : mju_norm3 g.1 g.2.1 g.2.2 = 0 := by
      simpa [hf] using hclosed
    obtain ⟨h1, h2, h3⟩ := (norm3_eq_zero_iff _ _ _).1 hn
    have hg : g = (0, 0, 0) := Prod.ext h1 (Prod.ext h2 h3)
    rw [hg]; exact gravcompForce_zero_gravity _ _
  · -- the flag is clear: no body has gravcomp > 0
    have hnone : ¬ ∃ c ∈ bodies.map (fun b => b.2), 0 < c := fun h => hf ((flgGravcomp_iff _).2 h)
    have hle : b.2 ≤ 0 := by
      by_contra hpos
      exact hnone ⟨b.2, List.mem_map.2 ⟨b, hb, rfl⟩, not_le.1 hpos⟩
    have h0 : b.2 = 0 := le_antisymm hle (hnn b hb)
    rw [h0]; exact gravcompForce_zero_gc _ _

/-- **the gates of gravity compensation are exact**: with the gravity switch on and non-negative coefficients, every
    body 1.. receives exactly `-gravcomp·mass·gravity`, whether `mj_gravcomp` ran its loop, skipped the body
    (`gravcomp == 0`) or returned at its entry test (`flg_gravcomp` clear or `|gravity| == 0`) -/
theorem gravcomp_gate_exact (g : ℝ × ℝ × ℝ) (bodies : List (ℝ × ℝ)) (hnn : ∀ b ∈ bodies, 0 ≤ b.2) :
    (gravcompStage (flgGravcomp (bodies.map (fun b => b.2))) false g bodies).2.map appliedForce =
      (bodies.drop 1).map (fun b => gravcompForce g b.1 b.2) := by
  unfold gravcompStage
  split
  · simp only [List.map_map]
    apply List.map_congr_left
    intro b _
    simp only [Function.comp, gravcompBody, real_beq, real_ofInt]
    by_cases h0 : b.2 = 0
    · simp [h0, appliedForce, gravcompForce]
    · simp [h0, appliedForce]
  · next hclosed =>
    have hz := gravcomp_entry_closed_zero g bodies hnn (by simpa using hclosed)
    simp only [List.map_map]
    apply List.map_congr_left
    intro b hb
    simp only [Function.comp, appliedForce, real_ofInt]
    rw [hz b (List.mem_of_mem_drop hb)]
    simp

/-- `has_gravcomp = 0` (mj_passive then leaves `qfrc_gravcomp` out of `qfrc_passive`) only when every compensation
    force is zero -/
theorem no_gravcomp_only_if_zero (g : ℝ × ℝ × ℝ) (bodies : List (ℝ × ℝ)) (hnn : ∀ b ∈ bodies, 0 ≤ b.2)
    (hno : (gravcompStage (flgGravcomp (bodies.map (fun b => b.2))) false g bodies).1 = false) :
    ∀ b ∈ bodies.drop 1, gravcompForce g b.1 b.2 = (0, 0, 0) := by
  intro b hb
  unfold gravcompStage at hno
  split at hno
  · simp only [List.any_map, List.any_eq_false] at hno
    have := hno b hb
    simp only [Function.comp, gravcompBody, real_beq, real_ofInt] at this
    by_cases h0 : b.2 = 0
    · rw [h0]; exact gravcompForce_zero_gc _ _
    · simp [h0] at this
  · next hclosed =>
    exact gravcomp_entry_closed_zero g bodies hnn (by simpa using hclosed) b (List.mem_of_mem_drop hb)

/-- non-vacuity of the hypotheses of the three theorems above: a jointless payload (mass 1, gravcomp 0.5) next to an
    uncompensated body; in the last two the entry test is closed because gravity is zero -/
example : (gravcompStage (flgGravcomp ([(0, 0), (2, 0), (1, 0.5)].map (fun b : ℝ × ℝ => b.2))) false
      ((0, 0, -9.81) : ℝ × ℝ × ℝ) [(0, 0), (2, 0), (1, 0.5)]).2.map appliedForce =
    ([(0, 0), (2, 0), (1, 0.5)].drop 1).map (fun b : ℝ × ℝ => gravcompForce ((0, 0, -9.81) : ℝ × ℝ × ℝ) b.1 b.2) :=
  gravcomp_gate_exact _ _ (by
    intro b hb
    simp only [List.mem_cons, List.not_mem_nil, or_false] at hb
    rcases hb with rfl | rfl | rfl <;> norm_num)

example : ∀ b ∈ ([(0, 0), (1, 0.5)] : List (ℝ × ℝ)).drop 1, gravcompForce ((0, 0, 0) : ℝ × ℝ × ℝ) b.1 b.2 = (0, 0, 0) :=
  no_gravcomp_only_if_zero _ _ (by
    intro b hb
    simp only [List.mem_cons, List.not_mem_nil, or_false] at hb
    rcases hb with rfl | rfl <;> norm_num) (by simp [gravcompStage, gravcompEntry, mju_norm3])

example : ∀ b ∈ ([(0, 0), (1, 0.5)] : List (ℝ × ℝ)), gravcompForce ((0, 0, 0) : ℝ × ℝ × ℝ) b.1 b.2 = (0, 0, 0) :=
  gravcomp_entry_closed_zero _ _ (by
    intro b hb
    simp only [List.mem_cons, List.not_mem_nil, or_false] at hb
    rcases hb with rfl | rfl <;> norm_num) (by simp [gravcompEntry, mju_norm3])

/-- a body (other than the world) with positive gravcomp under non-zero enabled gravity always opens the gates:
    `flg_gravcomp` is set, the entry test passes and `has_gravcomp = 1` — independently of whether that body owns
    joints, of its depth in the tree and of the other bodies -/
theorem gravcomp_gate_open (g : ℝ × ℝ × ℝ) (bodies : List (ℝ × ℝ)) (b : ℝ × ℝ) (hb : b ∈ bodies.drop 1)
    (hpos : 0 < b.2) (hg : g ≠ (0, 0, 0)) :
    (gravcompStage (flgGravcomp (bodies.map (fun b => b.2))) false g bodies).1 = true := by
  have hf : flgGravcomp (bodies.map (fun b => b.2)) = true :=
    (flgGravcomp_iff _).2 ⟨b.2, List.mem_map.2 ⟨b, List.mem_of_mem_drop hb, rfl⟩, hpos⟩
  have hn : mju_norm3 g.1 g.2.1 g.2.2 ≠ 0 := by
    intro h
    obtain ⟨h1, h2, h3⟩ := (norm3_eq_zero_iff _ _ _).1 h
    exact hg (Prod.ext h1 (Prod.ext h2 h3))
  have he : gravcompEntry (flgGravcomp (bodies.map (fun b => b.2))) false g = true := by
    simp [gravcompEntry, hf, hn]
  unfold gravcompStage
  rw [if_pos he]
  simp only [List.any_map, List.any_eq_true]
  refine ⟨b, hb, ?_⟩
  simp [Function.comp, gravcompBody, ne_of_gt hpos]

example : (gravcompStage (flgGravcomp ([(0, 0), (2, 0), (1, 0.5)].map (fun b : ℝ × ℝ => b.2))) false
    ((0, 0, -9.81) : ℝ × ℝ × ℝ) [(0, 0), (2, 0), (1, 0.5)]).1 = true :=
  gravcomp_gate_open _ _ (1, 0.5) (by simp) (by norm_num) (by norm_num)

/-- the hypothesis `0 ≤ gravcomp` matters: `setFixed` counts `gravcomp > 0` while the body loop tests `gravcomp != 0`,
    so a model whose only compensated bodies have a NEGATIVE coefficient gets no force at all (the compiler accepts
    negative gravcomp; recorded by checks/c29.py as a finding) -/
theorem negative_gravcomp_dropped :
    gravcompStage (flgGravcomp ([0, -1] : List ℝ)) false ((0, 0, -1) : ℝ × ℝ × ℝ) [(0, 0), (1, -1)] = (false, [none]) ∧
    gravcompForce ((0, 0, -1) : ℝ × ℝ × ℝ) 1 (-1) ≠ (0, 0, 0) := by
  constructor
  · have hf : flgGravcomp ([0, -1] : List ℝ) = false := by
      rw [Bool.eq_false_iff, Ne, flgGravcomp_iff]
      rintro ⟨c, hc, hpos⟩
      simp only [List.mem_cons, List.not_mem_nil, or_false] at hc
      rcases hc with rfl | rfl <;> norm_num at hpos
    rw [hf]
    simp [gravcompStage, gravcompEntry]
  · simp [gravcompForce]

/-- with no switch set the gated definitions are the plain ones (to which the law theorems above apply) -/
theorem gated_enabled (k p0 p1 q qs b d0 d1 v l lo hi s d : ℝ) (gcv : Option ℝ) :
    jointSpringGated false false k p0 p1 q qs = jointSpring k p0 p1 q qs ∧
    dofDamperGated false false b d0 d1 v = dofDamper b d0 d1 v ∧
    tendonForcesGated false false k p0 p1 b d0 d1 l lo hi v = tendonForces k p0 p1 b d0 d1 l lo hi v ∧
    passiveSumGated false false s d gcv = passiveSum s d gcv := by
  refine ⟨?_, ?_, ?_, ?_⟩
  · simp [jointSpringGated, springOn, passiveEntry]
  · simp [dofDamperGated, damperOn, passiveEntry]
  · simp [tendonForcesGated, tendonForces, passiveEntry, allZero, Bool.and_assoc]
  · simp [passiveSumGated, passiveEntry]

/-- mjDSBL_SPRING alone removes the joint and tendon spring terms and nothing else; mjDSBL_DAMPER alone the damper
    terms; both together everything (documented: "when both flags are set, all passive forces are disabled") -/
theorem switches_remove_only_their_term (k p0 p1 q qs b d0 d1 v s d : ℝ) (gcv : Option ℝ) :
    jointSpringGated true false k p0 p1 q qs = 0 ∧ dofDamperGated true false b d0 d1 v = dofDamper b d0 d1 v ∧
    jointSpringGated false true k p0 p1 q qs = jointSpring k p0 p1 q qs ∧ dofDamperGated false true b d0 d1 v = 0 ∧
    passiveSumGated true false s d gcv = passiveSum s d gcv ∧ passiveSumGated false true s d gcv = passiveSum s d gcv ∧
    passiveSumGated true true s d gcv = 0 := by
  simp [jointSpringGated, dofDamperGated, passiveSumGated, springOn, damperOn, passiveEntry]

/-! ### rest -/

/-- at rest with all springs at their reference nothing pushes -/
theorem rest_zero_passive (k p0 p1 b d0 d1 qs l lo hi : ℝ) (hl : lo ≤ l) (hh : l ≤ hi) :
    jointSpring k p0 p1 qs qs = 0 ∧ dofDamper b d0 d1 0 = 0 ∧
    tendonSpring k p0 p1 l lo hi = 0 ∧ tendonDamper b d0 d1 0 = 0 ∧
    passiveSum (jointSpring k p0 p1 qs qs) (dofDamper b d0 d1 0) none = 0 := by
  have h1 : jointSpring k p0 p1 qs qs = 0 := by rw [spring_force_poly]; simp
  have h2 : dofDamper b d0 d1 0 = 0 := by rw [damper_force_poly]; simp
  have h3 : tendonSpring k p0 p1 l lo hi = 0 := by
    rw [tendon_spring_poly, tendonX_eq]; simp [not_lt.2 hh, not_lt.2 hl]
  have h4 : tendonDamper b d0 d1 0 = 0 := by rw [tendon_damper_force_poly]; simp
  refine ⟨h1, h2, h3, h4, ?_⟩
  rw [h1, h2]; simp [passiveSum]

/-- free / ball joints at their reference: the displacement vector is zero, so is the force (any stiffness) -/
theorem rest_zero_free (k p0 p1 : ℝ) (p : ℝ × ℝ × ℝ) : freeLinSpring k p0 p1 p p (0, 0, 0) = (0, 0, 0) := by
  simp [freeLinSpring, addToScl3]

end MjProof.C29
