/-
C29  Passive forces follow their physical laws (DESIGN.md §5.C29).

All statements are over the reals, about the hand model `MjProof.Passive` (Model/Passive.lean), which is built on the
translator-generated polynomial kernels (`Gen.mju_polyForce_*`, `Gen.mju_polyPotential_spring`) and compared bitwise
with the engine's qfrc_spring / qfrc_damper / qfrc_gravcomp / qfrc_passive by checks/c29.py.

* `polyForce_spring_eq`, `polyForce_damper_eq`, `polyPotential_spring_eq`: the generated kernels are the documented
  polynomials  k + p0 x + p1 x²,  b + p0 |v| + p1 |v|²,  k x²/2 + p0 x³/3 + p1 x⁴/4.
* `spring_force_eq_neg_k_deflection`: a linear slide / hinge spring produces −k (q − springref);
  `spring_force_poly`: in general −(k x + p0 x² + p1 x³), x = q − springref (also when the engine skips the joint).
* `spring_force_eq_neg_dV`: that force is minus the derivative (HasDerivAt) of the potential mj_energyPos reports.
* `tendon_spring_force_eq_neg_dV`: same for a tendon spring with its springlength deadband [lower, upper], at EVERY
  length including the two kinks (lower ≤ upper).
* `free_spring_force`: the translational spring of a free joint is −κ(r)·dif with r = |dif|, κ the same polynomial.
* `damper_power_nonpos`, `tendon_damper_power_nonpos`: with non-negative coefficients a dof damper and a tendon
  damper (mapped to the dofs through the Jacobian row, tendon velocity = J·qvel) never deliver positive power.
  The hypothesis is needed: the compiler accepts negative damping coefficients (checked by checks/c29.py and
  recorded in the evidence), for which the damper adds energy (`negative_damping_adds_energy`).
* `gravcomp_cancels_fraction`, `gravcomp_full_cancels`: the force applied at the body COM is −gravcomp·mass·gravity,
  so through any Jacobian column it contributes −gravcomp times what gravity contributes; gravcomp = 1 cancels
  gravity on that body exactly.
* `rest_zero_passive`: zero velocity, every spring at its reference, every tendon inside its deadband ⇒ spring,
  damper and summed passive force are zero.
-/
import MjProof.Model.Passive
import MjProof.Lemmas.RealNum
import Mathlib.Analysis.Calculus.Deriv.Pow
import Mathlib.Analysis.Calculus.Deriv.Add
import Mathlib.Analysis.Calculus.Deriv.Mul
import Mathlib.Tactic.Ring
import Mathlib.Tactic.Linarith
import Mathlib.Tactic.NormNum
import Mathlib.Tactic.Positivity

namespace MjProof.C29
open MjProof MjProof.Gen MjProof.Passive

/-! ### the generated polynomial kernels -/

theorem polyForce_spring_eq (k p0 p1 x : ℝ) : mju_polyForce_spring k p0 p1 x = k + p0 * x + p1 * x ^ 2 := by
  simp only [mju_polyForce_spring, real_ofInt]; push_cast; ring

theorem polyForce_damper_eq (b p0 p1 v : ℝ) : mju_polyForce_damper b p0 p1 v = b + p0 * |v| + p1 * |v| ^ 2 := by
  simp only [mju_polyForce_damper, real_ofInt, real_abs]; push_cast; ring

theorem polyPotential_spring_eq (k p0 p1 x : ℝ) :
    mju_polyPotential_spring k p0 p1 x = k * x ^ 2 / 2 + p0 * x ^ 3 / 3 + p1 * x ^ 4 / 4 := by
  simp only [mju_polyPotential_spring, real_ofInt, real_ofSci]
  have h : (OfScientific.ofScientific 5 true 1 : ℝ) = 1 / 2 := by norm_num
  rw [h]; push_cast; ring

theorem allZero_iff (k p0 p1 : ℝ) : allZero k p0 p1 = true ↔ k = 0 ∧ p0 = 0 ∧ p1 = 0 := by
  simp [allZero, and_assoc]

/-! ### joint springs -/

/-- slide / hinge spring as coded = the documented polynomial law (also when the engine skips the joint) -/
theorem spring_force_poly (k p0 p1 q qs : ℝ) :
    jointSpring k p0 p1 q qs = -(k * (q - qs) + p0 * (q - qs) ^ 2 + p1 * (q - qs) ^ 3) := by
  unfold jointSpring
  split
  · next h => obtain ⟨rfl, rfl, rfl⟩ := (allZero_iff _ _ _).1 h; simp
  · simp only [polyForce_spring_eq]; ring

/-- linear spring: force = −stiffness × deflection from springref -/
theorem spring_force_eq_neg_k_deflection (k q qs : ℝ) : jointSpring k 0 0 q qs = -k * (q - qs) := by
  rw [spring_force_poly]; ring

theorem spring_energy_poly (k p0 p1 q qs : ℝ) :
    jointSpringEnergy k p0 p1 q qs = k * (q - qs) ^ 2 / 2 + p0 * (q - qs) ^ 3 / 3 + p1 * (q - qs) ^ 4 / 4 := by
  unfold jointSpringEnergy
  split
  · next h => obtain ⟨rfl, rfl, rfl⟩ := (allZero_iff _ _ _).1 h; simp
  · rw [polyPotential_spring_eq]

/-- derivative of the potential polynomial -/
theorem hasDerivAt_potential (k p0 p1 c x : ℝ) :
    HasDerivAt (fun y : ℝ => k * (y - c) ^ 2 / 2 + p0 * (y - c) ^ 3 / 3 + p1 * (y - c) ^ 4 / 4)
      (k * (x - c) + p0 * (x - c) ^ 2 + p1 * (x - c) ^ 3) x := by
  have hx : HasDerivAt (fun y : ℝ => y - c) 1 x := (hasDerivAt_id x).sub_const c
  have h2 := ((hx.pow 2).const_mul k).div_const 2
  have h3 := ((hx.pow 3).const_mul p0).div_const 3
  have h4 := ((hx.pow 4).const_mul p1).div_const 4
  have h := (h2.add h3).add h4
  have hd : k * ((2 : ℕ) * (x - c) ^ (2 - 1) * 1) / 2 + p0 * ((3 : ℕ) * (x - c) ^ (3 - 1) * 1) / 3 +
      p1 * ((4 : ℕ) * (x - c) ^ (4 - 1) * 1) / 4 = k * (x - c) + p0 * (x - c) ^ 2 + p1 * (x - c) ^ 3 := by
    norm_num; ring
  exact h.congr_deriv hd

/-- the spring force is minus the gradient of the reported potential (slide / hinge) -/
theorem spring_force_eq_neg_dV (k p0 p1 q qs : ℝ) :
    HasDerivAt (fun y => jointSpringEnergy k p0 p1 y qs) (-(jointSpring k p0 p1 q qs)) q := by
  have h := hasDerivAt_potential k p0 p1 qs q
  have he : (fun y => jointSpringEnergy k p0 p1 y qs) =
      fun y : ℝ => k * (y - qs) ^ 2 / 2 + p0 * (y - qs) ^ 3 / 3 + p1 * (y - qs) ^ 4 / 4 := by
    funext y; exact spring_energy_poly k p0 p1 y qs
  rw [he, spring_force_poly, neg_neg]
  exact h

example : jointSpring (2 : ℝ) 0 0 3 1 = -4 := by rw [spring_force_eq_neg_k_deflection]; norm_num

/-- translational spring of a free joint: −κ(r)·dif, r = |dif| -/
theorem free_spring_force (k p0 p1 : ℝ) (p ps : ℝ × ℝ × ℝ) :
    let dif := (p.1 - ps.1, p.2.1 - ps.2.1, p.2.2 - ps.2.2)
    let r := Real.sqrt (dif.1 * dif.1 + dif.2.1 * dif.2.1 + dif.2.2 * dif.2.2)
    let κ := k + p0 * r + p1 * r ^ 2
    freeLinSpring k p0 p1 p ps (0, 0, 0) = (-(κ * dif.1), -(κ * dif.2.1), -(κ * dif.2.2)) := by
  simp only [freeLinSpring, addToScl3, mju_norm3, real_sqrt, polyForce_spring_eq]
  refine Prod.ext ?_ (Prod.ext ?_ ?_) <;> simp <;> ring

/-! ### tendon springs -/

theorem tendonX_eq (l lo hi : ℝ) :
    tendonX l lo hi = if hi < l then l - hi else if l < lo then l - lo else 0 := by
  simp [tendonX, real_lt_iff]

theorem tendon_spring_poly (k p0 p1 l lo hi : ℝ) :
    tendonSpring k p0 p1 l lo hi =
      -(k * tendonX l lo hi + p0 * tendonX l lo hi ^ 2 + p1 * tendonX l lo hi ^ 3) := by
  simp only [tendonSpring, polyForce_spring_eq]; ring

theorem hasDerivAt_of_sides {f : ℝ → ℝ} {a f' : ℝ} (hl : HasDerivWithinAt f f' (Set.Iic a) a)
    (hr : HasDerivWithinAt f f' (Set.Ici a) a) : HasDerivAt f f' a := by
  have h := hl.union hr
  rw [Set.Iic_union_Ici] at h
  exact h.hasDerivAt Filter.univ_mem

/-- the tendon spring force is minus the derivative of the reported potential with respect to the tendon
    length, at every length (the potential is C¹ across the two ends of the deadband) -/
theorem tendon_spring_force_eq_neg_dV (k p0 p1 l lo hi : ℝ) (hlh : lo ≤ hi) :
    HasDerivAt (fun y => tendonEnergy k p0 p1 y lo hi) (-(tendonSpring k p0 p1 l lo hi)) l := by
  -- potential and force as explicit functions of the displacement
  set E : ℝ → ℝ := fun x => k * x ^ 2 / 2 + p0 * x ^ 3 / 3 + p1 * x ^ 4 / 4 with hE
  set F : ℝ → ℝ := fun x => k * x + p0 * x ^ 2 + p1 * x ^ 3 with hF
  have hfun : (fun y => tendonEnergy k p0 p1 y lo hi) = fun y => E (tendonX y lo hi) := by
    funext y; simp only [tendonEnergy, polyPotential_spring_eq, hE]
  have hforce : -(tendonSpring k p0 p1 l lo hi) = F (tendonX l lo hi) := by
    rw [tendon_spring_poly, neg_neg]
  rw [hfun, hforce]
  -- E ∘ (· - c) has derivative F (x - c); the constant E 0 has derivative F 0 = 0
  have hshift : ∀ c x : ℝ, HasDerivAt (fun y => E (y - c)) (F (x - c)) x := by
    intro c x
    have := hasDerivAt_potential k p0 p1 c x
    simpa [hE, hF] using this
  have hF0 : F 0 = 0 := by simp [hF]
  have hconst : ∀ x : ℝ, HasDerivAt (fun _ : ℝ => E 0) (F 0) x := by
    intro x; rw [hF0]; exact hasDerivAt_const x (E 0)
  apply hasDerivAt_of_sides
  · -- left side
    rcases lt_trichotomy l lo with h | h | h
    · -- l < lo: displacement is y - lo on (-∞, l]
      have hx : tendonX l lo hi = l - lo := by rw [tendonX_eq]; simp [not_lt.2 (by linarith : l ≤ hi), h]
      rw [hx]
      refine (hshift lo l).hasDerivWithinAt.congr ?_ ?_
      · intro y hy
        have hy' : y ≤ l := hy
        rw [tendonX_eq]; simp [not_lt.2 (by linarith : y ≤ hi), (by linarith : y < lo)]
      · rw [tendonX_eq]; simp [not_lt.2 (by linarith : l ≤ hi), h]
    · -- l = lo: displacement is y - lo on (-∞, lo] (0 at lo itself)
      subst h
      have hx : tendonX l l hi = l - l := by rw [tendonX_eq]; simp [not_lt.2 hlh]
      rw [hx]
      refine (hshift l l).hasDerivWithinAt.congr ?_ ?_
      · intro y hy
        have hy' : y ≤ l := hy
        rw [tendonX_eq]
        rcases lt_or_eq_of_le hy' with h1 | h1
        · simp [not_lt.2 (by linarith : y ≤ hi), h1]
        · subst h1; simp [not_lt.2 hlh]
      · rw [tendonX_eq]; simp [not_lt.2 hlh]
    · -- lo < l
      by_cases hh : l ≤ hi
      · -- inside the deadband (or at its upper end): displacement 0 on (lo, l]
        have hx : tendonX l lo hi = 0 := by rw [tendonX_eq]; simp [not_lt.2 hh, not_lt.2 (le_of_lt h)]
        rw [hx]
        refine (hconst l).hasDerivWithinAt.congr_of_eventuallyEq ?_ ?_
        · have : Set.Ioi lo ∈ nhdsWithin l (Set.Iic l) := mem_nhdsWithin_of_mem_nhds (Ioi_mem_nhds h)
          filter_upwards [this, self_mem_nhdsWithin] with y hy1 hy2
          have h1 : lo < y := hy1
          have h2 : y ≤ l := hy2
          rw [tendonX_eq]; simp [not_lt.2 (by linarith : y ≤ hi), not_lt.2 (le_of_lt h1)]
        · rw [tendonX_eq]; simp [not_lt.2 hh, not_lt.2 (le_of_lt h)]
      · -- l > hi: displacement y - hi near l
        have hh' : hi < l := not_le.1 hh
        have hx : tendonX l lo hi = l - hi := by rw [tendonX_eq]; simp [hh']
        rw [hx]
        refine (hshift hi l).hasDerivWithinAt.congr_of_eventuallyEq ?_ ?_
        · have : Set.Ioi hi ∈ nhdsWithin l (Set.Iic l) := mem_nhdsWithin_of_mem_nhds (Ioi_mem_nhds hh')
          filter_upwards [this] with y hy1
          have h1 : hi < y := hy1
          rw [tendonX_eq]; simp [h1]
        · rw [tendonX_eq]; simp [hh']
  · -- right side
    rcases lt_trichotomy l hi with h | h | h
    · by_cases hl : lo ≤ l
      · -- inside the deadband (or at its lower end): displacement 0 on [l, hi)
        have hx : tendonX l lo hi = 0 := by rw [tendonX_eq]; simp [not_lt.2 (le_of_lt h), not_lt.2 hl]
        rw [hx]
        refine (hconst l).hasDerivWithinAt.congr_of_eventuallyEq ?_ ?_
        · have : Set.Iio hi ∈ nhdsWithin l (Set.Ici l) := mem_nhdsWithin_of_mem_nhds (Iio_mem_nhds h)
          filter_upwards [this, self_mem_nhdsWithin] with y hy1 hy2
          have h1 : y < hi := hy1
          have h2 : l ≤ y := hy2
          rw [tendonX_eq]; simp [not_lt.2 (le_of_lt h1), not_lt.2 (by linarith : lo ≤ y)]
        · rw [tendonX_eq]; simp [not_lt.2 (le_of_lt h), not_lt.2 hl]
      · -- l < lo: displacement y - lo near l
        have hl' : l < lo := not_le.1 hl
        have hx : tendonX l lo hi = l - lo := by rw [tendonX_eq]; simp [not_lt.2 (le_of_lt h), hl']
        rw [hx]
        refine (hshift lo l).hasDerivWithinAt.congr_of_eventuallyEq ?_ ?_
        · have : Set.Iio lo ∈ nhdsWithin l (Set.Ici l) := mem_nhdsWithin_of_mem_nhds (Iio_mem_nhds hl')
          filter_upwards [this] with y hy1
          have h1 : y < lo := hy1
          rw [tendonX_eq]; simp [not_lt.2 (by linarith : y ≤ hi), h1]
        · rw [tendonX_eq]; simp [not_lt.2 (le_of_lt h), hl']
    · -- l = hi: displacement y - hi on [hi, ∞) (0 at hi itself)
      subst h
      have hx : tendonX l lo l = l - l := by rw [tendonX_eq]; simp [not_lt.2 hlh]
      rw [hx]
      refine (hshift l l).hasDerivWithinAt.congr ?_ ?_
      · intro y hy
        have hy' : l ≤ y := hy
        rw [tendonX_eq]
        rcases lt_or_eq_of_le hy' with h1 | h1
        · simp [h1]
        · subst h1; simp [not_lt.2 hlh]
      · rw [tendonX_eq]; simp [not_lt.2 hlh]
    · -- l > hi: displacement y - hi on [l, ∞)
      have hx : tendonX l lo hi = l - hi := by rw [tendonX_eq]; simp [h]
      rw [hx]
      refine (hshift hi l).hasDerivWithinAt.congr ?_ ?_
      · intro y hy
        have hy' : l ≤ y := hy
        rw [tendonX_eq]; simp [(by linarith : hi < y)]
      · rw [tendonX_eq]; simp [h]

example : tendonSpring (3 : ℝ) 0 0 2.5 1 2 = -1.5 := by
  rw [tendon_spring_poly, tendonX_eq]; norm_num

/-! ### dampers never add energy (non-negative coefficients) -/

theorem damper_force_poly (b p0 p1 v : ℝ) : dofDamper b p0 p1 v = -(v * (b + p0 * |v| + p1 * |v| ^ 2)) := by
  unfold dofDamper
  split
  · next h => obtain ⟨rfl, rfl, rfl⟩ := (allZero_iff _ _ _).1 h; simp
  · simp only [polyForce_damper_eq]; ring

/-- power of a dof damper: qvel · f ≤ 0 -/
theorem damper_power_nonpos (b p0 p1 v : ℝ) (hb : 0 ≤ b) (h0 : 0 ≤ p0) (h1 : 0 ≤ p1) :
    v * dofDamper b p0 p1 v ≤ 0 := by
  rw [damper_force_poly]
  have hc : 0 ≤ b + p0 * |v| + p1 * |v| ^ 2 := by positivity
  nlinarith [mul_nonneg (mul_self_nonneg v) hc]

example : (2 : ℝ) * dofDamper 1 0.5 0 2 ≤ 0 := damper_power_nonpos _ _ _ _ (by norm_num) (by norm_num) (by norm_num)

/-- the hypothesis matters: a negative linear coefficient makes the "damper" deliver positive power -/
theorem negative_damping_adds_energy : (1 : ℝ) * dofDamper (-1) 0 0 1 > 0 := by
  rw [damper_force_poly]; norm_num

/-- tendon velocity as the engine computes it: J · qvel (over the dofs of the row) -/
def dotJ : List ℝ → List ℝ → ℝ
  | j :: js, v :: vs => j * v + dotJ js vs
  | _, _ => 0

theorem power_map_mul (J qvel : List ℝ) (f : ℝ) (hlen : J.length = qvel.length) :
    power qvel (J.map (fun j => j * f)) = dotJ J qvel * f := by
  induction J generalizing qvel with
  | nil => cases qvel <;> simp [power, dotJ]
  | cons j js ih =>
    cases qvel with
    | nil => simp at hlen
    | cons v vs =>
      simp only [List.map_cons, power, dotJ]
      rw [ih vs (by simpa using hlen)]
      ring

theorem tendon_damper_force_poly (b d0 d1 v : ℝ) : tendonDamper b d0 d1 v = -(v * (b + d0 * |v| + d1 * |v| ^ 2)) := by
  simp only [tendonDamper, polyForce_damper_eq]; ring

/-- power of a tendon damper mapped to the dofs (qfrc_damper[k] += J[k]·frc): Σ qvel_k J_k frc = v_tendon·frc ≤ 0 -/
theorem tendon_damper_power_nonpos (b d0 d1 : ℝ) (J qvel : List ℝ) (hlen : J.length = qvel.length)
    (hb : 0 ≤ b) (h0 : 0 ≤ d0) (h1 : 0 ≤ d1) :
    power qvel (J.map (fun j => j * tendonDamper b d0 d1 (dotJ J qvel))) ≤ 0 := by
  rw [power_map_mul J qvel _ hlen, tendon_damper_force_poly]
  set v := dotJ J qvel
  have hc : 0 ≤ b + d0 * |v| + d1 * |v| ^ 2 := by positivity
  nlinarith [mul_nonneg (mul_self_nonneg v) hc]

example : power [1, 2] ([0.5, -1].map (fun j => j * tendonDamper (1 : ℝ) 0 0 (dotJ [0.5, -1] [1, 2]))) ≤ 0 :=
  tendon_damper_power_nonpos _ _ _ _ _ rfl (by norm_num) (by norm_num) (by norm_num)

/-! ### gravity compensation -/

/-- through any Jacobian column the compensation contributes −gravcomp × (what gravity contributes) -/
theorem gravcomp_cancels_fraction (g jac : ℝ × ℝ × ℝ) (mass gc : ℝ) :
    dot3 jac (gravcompForce g mass gc) = -gc * dot3 jac (g.1 * mass, g.2.1 * mass, g.2.2 * mass) := by
  simp only [dot3, gravcompForce]; ring

/-- gravcomp = 1: the applied force and the weight cancel exactly -/
theorem gravcomp_full_cancels (g : ℝ × ℝ × ℝ) (mass : ℝ) :
    let f := gravcompForce g mass 1
    f.1 + mass * g.1 = 0 ∧ f.2.1 + mass * g.2.1 = 0 ∧ f.2.2 + mass * g.2.2 = 0 := by
  simp only [gravcompForce]; refine ⟨?_, ?_, ?_⟩ <;> ring

/-! ### rest -/

/-- at rest with all springs at their reference nothing pushes -/
theorem rest_zero_passive (k p0 p1 b d0 d1 qs l lo hi : ℝ) (hl : lo ≤ l) (hh : l ≤ hi) :
    jointSpring k p0 p1 qs qs = 0 ∧ dofDamper b d0 d1 0 = 0 ∧
    tendonSpring k p0 p1 l lo hi = 0 ∧ tendonDamper b d0 d1 0 = 0 ∧
    passiveSum (jointSpring k p0 p1 qs qs) (dofDamper b d0 d1 0) none = 0 := by
  have h1 : jointSpring k p0 p1 qs qs = 0 := by rw [spring_force_poly]; simp
  have h2 : dofDamper b d0 d1 0 = 0 := by rw [damper_force_poly]; simp
  have h3 : tendonSpring k p0 p1 l lo hi = 0 := by
    rw [tendon_spring_poly, tendonX_eq]; simp [not_lt.2 hh, not_lt.2 hl]
  have h4 : tendonDamper b d0 d1 0 = 0 := by rw [tendon_damper_force_poly]; simp
  refine ⟨h1, h2, h3, h4, ?_⟩
  rw [h1, h2]; simp [passiveSum]

/-- free / ball joints at their reference: the displacement vector is zero, so is the force (any stiffness) -/
theorem rest_zero_free (k p0 p1 : ℝ) (p : ℝ × ℝ × ℝ) : freeLinSpring k p0 p1 p p (0, 0, 0) = (0, 0, 0) := by
  simp [freeLinSpring, addToScl3]

end MjProof.C29
