import MjProof.Lemmas.XmlDefaults
/-
C32  Saved MJCF recompiles to the same model -- TABLE LEVEL ONLY (`_partial` with respect to the property:
what is proved concerns the generated-table attribute writer/reader pair; the hand-written parts of the writer
(`OneX` remnants, `writing=custom` rows), the compiler and the XML text layer are covered by the round-trip
oracle of checks/c32.py, not by a theorem).

Model: `MjProof/Model/XmlDefaults.lean` (`writeRow`/`writeElem` = mjXWriter::WriteAttrTable + WriteAttr + WriteAttrKey,
`readRow`/`readElem` = mjXReader::ReadAttrTableCore + ReadAttr + MapValue).  All statements are for every row table,
every default object, every object, every setting of writingdefaults/readingdefaults, and every scalar structure
(`Scalar α`: the component test of SameVector, C `==`, isnan, and the print-then-parse map `quant`).
-/
namespace MjProof.C32
open MjProof.XmlDefaults

variable {α : Type}

/-- One row, general scalars.  After `write` then `read` (the reader starts from the default the writer compared
    with) a row the table handles holds, component by component, either the re-read printed value `quant x`
    (written components) or a value that the writer's test `same` identifies with `x` (elided / trimmed components);
    a row the table skips (`handwrite`, or `nodefault` inside a default class) holds the default. -/
theorem read_write_row (K : Kind → Scalar α)
    (heq : ∀ k a b, (K k).eqb a b = true → (K k).same a b = true)
    (wd : Bool) (r : Row) (v d : Val α) (hwt : WT K r v d)
    (hreq : (r.kind.isNum || r.kind.isKey) = true → r.required = false) :
    ∃ v', readRow wd r d (writeRow K wd r v d) = .ok v' ∧
      (if handled wd r then RowRT (K r.kind) v v' else v' = d) :=
  readRow_writeRow K heq wd r v d hwt hreq

/-- Whole element, general scalars: the reader never fails on what the writer produced and every row satisfies the
    statement of `read_write_row`.  Needs pairwise different attribute names in the table. -/
theorem read_write_elem (K : Kind → Scalar α)
    (heq : ∀ k a b, (K k).eqb a b = true → (K k).same a b = true) (wd : Bool)
    (rs : List Row) (vs ds : List (Val α)) (hwt : ElemWT K rs vs ds) (hnd : (rs.map (·.attr)).Nodup) :
    ∃ vs', readElem wd (writeElem K wd rs vs ds) rs ds = .ok vs' ∧ ElemRT K wd rs vs ds vs' :=
  readElem_writeElem K heq wd rs vs ds hwt hnd

/-- `read (write x) = x`: when the writer's closeness test is equality and printing is exact (full precision, no
    `isint` rounding) the element read back is the object on every row the table handles (and the default on the
    rows it leaves to hand-written code). -/
theorem read_write_elem_exact (K : Kind → Scalar α)
    (hq : ∀ k a, (K k).quant a = a) (hs : ∀ k a b, (K k).same a b = true → a = b)
    (heq : ∀ k a b, (K k).eqb a b = true → (K k).same a b = true) (wd : Bool)
    (rs : List Row) (vs ds : List (Val α)) (hwt : ElemWT K rs vs ds) (hnd : (rs.map (·.attr)).Nodup) :
    readElem wd (writeElem K wd rs vs ds) rs ds = .ok (merged wd rs vs ds) := by
  obtain ⟨vs', h1, h2⟩ := readElem_writeElem K heq wd rs vs ds hwt hnd
  rw [h1, ElemRT.eq_merged K wd hq hs h2]

theorem merged_eq_self (wd : Bool) : ∀ (rs : List Row) (vs ds : List (Val α)),
    rs.length = vs.length → vs.length = ds.length → (∀ r ∈ rs, handled wd r = true) → merged wd rs vs ds = vs
  | [], [], [], _, _, _ => rfl
  | r :: rs, v :: vs, d :: ds, h1, h2, h => by
    have hr : handled wd r = true := h r (by simp)
    simp only [merged, hr, if_true]
    rw [merged_eq_self wd rs vs ds (by simpa using h1) (by simpa using h2) (fun r' hr' => h r' (by simp [hr']))]
  | [], _ :: _, _, h, _, _ => by simp at h
  | _ :: _, [], _, h, _, _ => by simp at h
  | _ :: _, _ :: _, [], _, h, _ => by simp at h
  | [], [], _ :: _, _, h, _ => by simp at h

/-- ... and it is the object itself when the table handles every row. -/
theorem read_write_eq_self (K : Kind → Scalar α)
    (hq : ∀ k a, (K k).quant a = a) (hs : ∀ k a b, (K k).same a b = true → a = b)
    (heq : ∀ k a b, (K k).eqb a b = true → (K k).same a b = true) (wd : Bool)
    (rs : List Row) (vs ds : List (Val α)) (hwt : ElemWT K rs vs ds) (hnd : (rs.map (·.attr)).Nodup)
    (hall : ∀ r ∈ rs, handled wd r = true) (hl1 : rs.length = vs.length) (hl2 : vs.length = ds.length) :
    readElem wd (writeElem K wd rs vs ds) rs ds = .ok vs := by
  rw [read_write_elem_exact K hq hs heq wd rs vs ds hwt hnd, merged_eq_self wd rs vs ds hl1 hl2 hall]

/-- keyword maps: the executable check `mapOK` gives the hypothesis `KeyOK` of `WT.key` for every listed value -/
theorem keyOK_of_mapOK' (keys : List (String × Int)) (h : mapOK keys = true) (k : String) (c : Int)
    (hm : (k, c) ∈ keys) : KeyOK keys c := keyOK_of_mapOK keys h k c hm

/-! ### why the exactness hypotheses are needed (the writer's test is NOT equality in the C code) -/

/-- integers with the closeness test "differ by at most 1" -/
def coarse : Kind → Scalar Int := fun _ =>
  { same := fun a b => decide ((a - b).natAbs ≤ 1), eqb := fun a b => a == b, isNaN := fun _ => false, quant := id }

def exRow : Row := ⟨"x", .double, 1, true, false, false, false, []⟩

/-- With a closeness test coarser than equality a value close to (but different from) the default is elided and
    read back as the default: the analogue of SameVector's epsilon in the C code. -/
theorem elision_loses_near_default :
    readRow (α := Int) false exRow (.vec [0]) (writeRow coarse false exRow (.vec [1]) (.vec [0])) = .ok (.vec [0]) := by
  rfl

/-! ### non-vacuity of the hypotheses -/

/-- exact integer scalars satisfy all three scalar hypotheses -/
def exact : Kind → Scalar Int := fun _ =>
  { same := fun a b => a == b, eqb := fun a b => a == b, isNaN := fun _ => false, quant := id }

example : ∀ k a, (exact k).quant a = a := fun _ _ => rfl
example : ∀ k a b, (exact k).same a b = true → a = b := fun _ a b h => by simpa [exact] using h
example : ElemWT exact [exRow] [.vec [5]] [.vec [0]] :=
  .cons (.num [5] [0] rfl rfl rfl rfl) (fun _ => rfl) .nil
example : readElem false (writeElem exact false [exRow] [.vec [5]] [.vec [0]]) [exRow] [.vec [0]] = .ok [.vec [5]] :=
  read_write_eq_self exact (fun _ _ => rfl) (fun _ a b h => by simpa [exact] using h) (fun _ _ _ h => h) false
    [exRow] [.vec [5]] [.vec [0]] (.cons (.num [5] [0] rfl rfl rfl rfl) (fun _ => rfl) .nil) (by decide)
    (by decide) rfl rfl

end MjProof.C32
