import MjProof.Model.Introspect
import MjProof.Gen.IntrospectHeaders
import MjProof.Gen.IntrospectPython
/-
C49 (table half, part: struct tables).  See Props/C49Gen.lean.  Split into several modules only so that lake
checks the kernel evaluations in parallel.
-/
namespace MjProof.C49
open MjProof.CType MjProof.Introspect
open MjProof.Gen

/-- Every struct of the API: same members with the same types (ASTs), array extents and order,
    anonymous struct/union nesting included. -/
theorem struct_tables_equal :
    mapMOpt (resolveStruct IntrospectHeaders.typeTable) IntrospectHeaders.structs = some IntrospectPython.structs := by
  decide +kernel

end MjProof.C49
