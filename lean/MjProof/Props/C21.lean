import MjProof.Model.AllocProtocol
/-
C21  Allocation failure never causes undefined behaviour.

Property theorems only, over the protocol model `Model/AllocProtocol.lean` (tied to the tree by
`checks/c21.py`: the real alloc / free / handler trace of every scenario, with every single allocation and
seeded sets of allocations failing, under a longjmp-ing and under a returning error handler, is compared
event by event with the model's trace; the sizes are the real ones).

The model also tracks initialisation (a block's contents are indeterminate until written; reading a field
the delete functions need before it was written is the fault `uninitRead`) and which variables of a frame
that survives the longjmp hold the object (`publish` = `*dest = v`), and contains mj_compile of a plain
model with the catch block of mjCModel::Compile (`compile_*` theorems at the end).  Second tie:
`translate/c21_protocol.py` extracts the ordered alloc / null-test / field-store / `*dest =` / free /
field-read skeleton of mj_makeModel, mj_makeRawData, mj_deleteModel, mj_deleteData, TryCompile and the catch
block from the C / C++ text; it must equal the skeleton `drv_c21` prints from these very programs.

Every theorem quantifies over *all* fault oracles `fails : Nat → Bool` (single faults and every
multi-fault sequence alike) and all positive block sizes.

What the tree does (variant `.asIs`, `mju_malloc` raises `mju_error` by itself):
  * with a longjmp handler – the supported way to survive an error – nothing is dereferenced or freed
    twice and the failure always reaches the handler (`longjmp_never_faults`, `failure_surfaces`), but the
    explicit clean-up blocks of the callers are dead code: every block allocated earlier in the same
    function is leaked.  `asIs_longjmp_live_exact` gives the leaked set exactly; `no_leak_partial` is the
    part of "no leak" that holds (only the first allocation of the scenario fails); the `*_leak_witness`
    theorems exhibit the leaks.
  * with a handler that returns (documented as undefined behaviour) the code runs on with the NULL / freed
    pointer: `returning_handler_faults`.
Variant `.tryMalloc` (proposed fix: the life-cycle functions allocate without raising and keep their
explicit clean-up; mju_writeResource tests its mjVFS): `tryMalloc_longjmp_clean` proves no fault, no leak,
no double free and a reported failure for every oracle.
-/
namespace MjProof.C21
open MjProof.AllocProtocol
set_option linter.unusedSimpArgs false
set_option linter.unusedVariables false

inductive Scen where
  | makeData | copyData | copyModel | loadModel | saveModel
  deriving DecidableEq, Repr

/-- the scenario programs; `s1 s2 s3` are the block sizes in allocation order (`s3` only for mjData). -/
def Scen.get (vt : Variant) (s1 s2 s3 : Nat) : Scen → Scenario
  | .makeData => AllocProtocol.makeData vt s1 s2 s3
  | .copyData => AllocProtocol.copyData vt s1 s2 s3
  | .copyModel => AllocProtocol.copyModel vt s1 s2
  | .loadModel => AllocProtocol.loadModel vt s1 s2
  | .saveModel => AllocProtocol.saveModel vt s1 s2

def isFault : Out → Bool
  | .fault _ => true
  | _ => false

def failedSome (h : H) : Bool := h.trace.any (fun e => match e with | .x _ => true | _ => false)
def reported (h : H) : Bool := h.trace.any (fun e => e == .E || e == .W)

/-- evaluates a scenario for the eight combinations of the first three oracle answers. -/
local macro "eval_cases" f:ident : tactic =>
  `(tactic| (cases h0 : $f 0 <;> cases h1 : $f 1 <;> cases h2 : $f 2 <;>
      simp_all [exec, run, raise, deref, freeVar, freeVars, lookup, H.init, Scen.get, makeData, copyData, copyModel,
        loadModel, saveModel, makeRawDataBody, makeModelBody, deleteData, deleteModel, deleteDataOf, deleteModelOf,
        block, lookupFld, Variant.raising, isFault, failedSome, reported, Nat.ne_of_gt]))

/-! ### longjmp handler: no undefined behaviour, the failure is reported -/

/-- **No dereference of a failed allocation, no use after free, no double free** with a longjmp
    handler: every scenario, both variants, every fault oracle. -/
theorem longjmp_never_faults (sc : Scen) (vt : Variant) (s1 s2 s3 : Nat) (p1 : 0 < s1) (p2 : 0 < s2) (p3 : 0 < s3)
    (fails : Nat → Bool) : isFault (exec .longjmp fails (sc.get vt s1 s2 s3)).1 = false := by
  cases sc <;> cases vt <;> eval_cases fails

/-- **The failure surfaces**: whenever an allocation failed, the error or warning handler was invoked
    and no object was handed to the caller. -/
theorem failure_surfaces (sc : Scen) (vt : Variant) (s1 s2 s3 : Nat) (p1 : 0 < s1) (p2 : 0 < s2) (p3 : 0 < s3)
    (fails : Nat → Bool) :
    let r := exec .longjmp fails (sc.get vt s1 s2 s3)
    failedSome r.2 = true → reported r.2 = true ∧ (r.1 = .jumped ∨ r.1 = .returned none) := by
  cases sc <;> cases vt <;> eval_cases fails

/-- without a failing allocation every scenario runs to completion and frees everything it allocated. -/
theorem fault_free_run_clean (sc : Scen) (vt : Variant) (r : Regime) (s1 s2 s3 : Nat) (p1 : 0 < s1) (p2 : 0 < s2)
    (p3 : 0 < s3) (fails : Nat → Bool) (hf : ∀ k, fails k = false) :
    (exec r fails (sc.get vt s1 s2 s3)).1 = .returned none ∧ (exec r fails (sc.get vt s1 s2 s3)).2.live = [] := by
  have h0 := hf 0; have h1 := hf 1; have h2 := hf 2
  cases sc <;> cases vt <;> cases r <;>
    simp_all [exec, run, raise, deref, freeVar, freeVars, lookup, H.init, Scen.get, makeData, copyData, copyModel,
      loadModel, saveModel, makeRawDataBody, makeModelBody, deleteData, deleteModel, deleteDataOf, deleteModelOf,
      block, lookupFld, Variant.raising, Nat.ne_of_gt]

/-! ### the tree (`.asIs`) with a longjmp handler: what is leaked, exactly -/

/-- blocks still allocated when control is back at the caller: the blocks the function had allocated
    before the failing `mju_malloc` (ids are 1-based call indices). -/
def expectedLeak (sc : Scen) (fails : Nat → Bool) : List Nat :=
  if fails 0 then [] else
  if fails 1 then [1] else
  match sc with
  | .makeData | .copyData => if fails 2 then [2, 1] else []
  | _ => []

/-- **Exact leak set of the tree** under a longjmp handler, for every oracle. -/
theorem asIs_longjmp_live_exact (sc : Scen) (s1 s2 s3 : Nat) (p1 : 0 < s1) (p2 : 0 < s2) (p3 : 0 < s3)
    (fails : Nat → Bool) : (exec .longjmp fails (sc.get .asIs s1 s2 s3)).2.live = expectedLeak sc fails := by
  cases sc <;> (simp only [expectedLeak]; eval_cases fails)

/-- **no_leak_partial**: the part of "no memory is leaked" that holds of the tree – when only the first
    allocation of the scenario can fail.  (Missing for the full property: a failure of the second or
    third allocation leaks the earlier blocks, see the witnesses below.) -/
theorem no_leak_partial (sc : Scen) (s1 s2 s3 : Nat) (p1 : 0 < s1) (p2 : 0 < s2) (p3 : 0 < s3)
    (fails : Nat → Bool) (h : ∀ k, 1 ≤ k → fails k = false) :
    (exec .longjmp fails (sc.get .asIs s1 s2 s3)).2.live = [] := by
  rw [asIs_longjmp_live_exact sc s1 s2 s3 p1 p2 p3]
  cases sc <;> simp [expectedLeak, h 1 (by omega), h 2 (by omega)]

example : ∀ k, 1 ≤ k → (fun k => k == 0) k = false := by intro k hk; simp; omega

/-- mj_makeData, second allocation (`d->buffer`) fails: the mjData struct is leaked. -/
theorem makeData_leak_witness :
    (exec .longjmp (fun k => k == 1) (makeData .asIs 161952 45520 1048576)).2.live = [1] ∧
    (exec .longjmp (fun k => k == 1) (makeData .asIs 161952 45520 1048576)).1 = .jumped := by decide

/-- mj_makeData, third allocation (`d->arena`) fails: struct and buffer are leaked. -/
theorem makeData_arena_leak_witness :
    (exec .longjmp (fun k => k == 2) (makeData .asIs 161952 45520 1048576)).2.live = [2, 1] := by decide

/-- mj_copyModel / mj_loadModelBuffer, buffer allocation fails: the mjModel struct is leaked. -/
theorem makeModel_leak_witness :
    (exec .longjmp (fun k => k == 1) (copyModel .asIs 5688 38288)).2.live = [1] ∧
    (exec .longjmp (fun k => k == 1) (loadModel .asIs 5688 38288)).2.live = [1] := by decide

/-- mj_saveModel to a file, mju_writeResource's mjVFS allocation fails: the serialisation buffer is leaked. -/
theorem saveModel_leak_witness :
    (exec .longjmp (fun k => k == 1) (saveModel .asIs 37494 8)).2.live = [1] := by decide

/-- a zero-size arena (`m->narena = 0`, no injected fault): `mju_malloc(0)` returns NULL without raising,
    the explicit clean-up of mj_makeRawData runs, the error is raised and nothing is leaked. -/
theorem makeData_zero_arena (vt : Variant) (s1 s2 : Nat) (p1 : 0 < s1) (p2 : 0 < s2) :
    let r := exec .longjmp (fun _ => false) (makeData vt s1 s2 0)
    r.1 = .jumped ∧ r.2.live = [] ∧ reported r.2 = true := by
  cases vt <;>
    simp_all [exec, run, raise, deref, freeVar, freeVars, lookup, H.init, makeData, makeRawDataBody, deleteData,
      deleteDataOf, block, lookupFld, Variant.raising, reported, Nat.ne_of_gt]

/-! ### the proposed fix (`.tryMalloc`): the whole property, for every oracle -/

/-- **With non-raising allocations in the life-cycle functions**: for every scenario and every fault
    oracle, under a longjmp handler: no fault, nothing leaked, and the outcome is the raised error
    (or the warning + plain return of mj_saveModel / mj_loadModelBuffer) exactly when an allocation failed. -/
theorem tryMalloc_longjmp_clean (sc : Scen) (s1 s2 s3 : Nat) (p1 : 0 < s1) (p2 : 0 < s2) (p3 : 0 < s3)
    (fails : Nat → Bool) :
    let r := exec .longjmp fails (sc.get .tryMalloc s1 s2 s3)
    isFault r.1 = false ∧ r.2.live = [] ∧ (failedSome r.2 = reported r.2) := by
  cases sc <;> eval_cases fails

/-! ### a handler that returns (documented as undefined behaviour): the code runs on -/

/-- the object pointer of a scenario (`d` for mjData, `m` for mjModel). -/
def Scen.obj : Scen → Var
  | .makeData | .copyData => .d
  | .copyModel | .loadModel => .m
  | .saveModel => .tmp

/-- first block of the scenario refused and the handler returns: the NULL pointer is dereferenced
    (`d->timer…` in mj_makeRawData, `memset(m, …)` in mj_makeModel) – in both variants; the only
    exception is mj_saveModel, whose first allocation is followed by a real test. -/
theorem returning_handler_faults (sc : Scen) (vt : Variant) (s1 s2 s3 : Nat) (p1 : 0 < s1) (p2 : 0 < s2) (p3 : 0 < s3)
    (fails : Nat → Bool) (h0 : fails 0 = true) (hsc : sc ≠ .saveModel) :
    (exec .returning fails (sc.get vt s1 s2 s3)).1 = .fault (.nullDeref sc.obj) := by
  cases sc <;> cases vt <;>
    first
    | exact absurd rfl hsc
    | simp_all [exec, run, raise, deref, freeVar, freeVars, lookup, H.init, Scen.get, Scen.obj, makeData, copyData,
        copyModel, loadModel, makeRawDataBody, makeModelBody, block, lookupFld, Variant.raising, Nat.ne_of_gt]

/-- second block refused and the handler returns: the tree frees the first block in its clean-up branch
    and then keeps using it (use after free); mj_saveModel passes the NULL mjVFS on. -/
theorem returning_handler_faults_second (sc : Scen) (s1 s2 s3 : Nat) (p1 : 0 < s1) (p2 : 0 < s2) (p3 : 0 < s3)
    (fails : Nat → Bool) (h0 : fails 0 = false) (h1 : fails 1 = true) :
    isFault (exec .returning fails (sc.get .asIs s1 s2 s3)).1 = true := by
  cases sc <;> cases h2 : fails 2 <;>
    simp_all [exec, run, raise, deref, freeVar, freeVars, lookup, H.init, Scen.get, makeData, copyData, copyModel,
      loadModel, saveModel, makeRawDataBody, makeModelBody, block, lookupFld, Variant.raising, isFault, Nat.ne_of_gt]

/-- in no regime, variant, scenario or oracle is a block freed twice (the first fault of a run is always
    a NULL dereference or a use after free, never a double free). -/
theorem never_double_free (sc : Scen) (vt : Variant) (r : Regime) (s1 s2 s3 : Nat) (p1 : 0 < s1) (p2 : 0 < s2)
    (p3 : 0 < s3) (fails : Nat → Bool) (v : Var) :
    (exec r fails (sc.get vt s1 s2 s3)).1 ≠ .fault (.doubleFree v) := by
  cases sc <;> cases vt <;> cases r <;> eval_cases fails

/-! ### mj_compile: the data life-cycle of TryCompile under the compiler's own handler and catch block

Sizes `s1 … s5` = sizeof(mjModel), model buffer, sizeof(mjData), data buffer, arena; eight `mju_malloc` calls
(model 0-1, partial mjData 2-4, complete mjData 5-7).  The oracle is split call by call: once a call fails the
run ends in the catch block, so nine leaves cover every `fails : Nat → Bool`. -/

local macro "compile_simp" : tactic =>
  `(tactic| simp_all [exec, runCatch, run, raise, deref, freeVar, freeVars, lookup, H.init, compile, compileWith,
      compileNoClear, makeRawDataBody, makeRawDataPublishFirst, makeModelBody, deleteDataOf, deleteModelOf, block,
      lookupFld, Variant.raising, isFault, failedSome, reported, Nat.ne_of_gt])

local macro "compile_cases" f:ident : tactic =>
  `(tactic| (
      cases h0 : $f 0; rotate_left; compile_simp
      cases h1 : $f 1; rotate_left; compile_simp
      cases h2 : $f 2; rotate_left; compile_simp
      cases h3 : $f 3; rotate_left; compile_simp
      cases h4 : $f 4; rotate_left; compile_simp
      cases h5 : $f 5; rotate_left; compile_simp
      cases h6 : $f 6; rotate_left; compile_simp
      cases h7 : $f 7 <;> compile_simp))

/-- **mj_compile never dereferences NULL, a freed block or an indeterminate field, and frees nothing twice**
    – neither on the way nor in the catch block that deletes `model` and `data` after an engine error: both
    variants, every fault oracle.  (The catch block only ever sees structs whose `buffer`, `arena`,
    `threadpool`, `nplugin` were written, because mj_makeModel / mj_makeRawData store into `*dest` last and
    TryCompile resets `d` right after deleting it.) -/
theorem compile_never_faults (vt : Variant) (s1 s2 s3 s4 s5 : Nat) (p1 : 0 < s1) (p2 : 0 < s2) (p3 : 0 < s3)
    (p4 : 0 < s4) (p5 : 0 < s5) (fails : Nat → Bool) :
    isFault (exec .longjmp fails (compile vt s1 s2 s3 s4 s5)).1 = false := by
  cases vt <;> compile_cases fails

/-- **The failure surfaces**: mj_compile ends in its catch block (returns NULL with the error recorded)
    exactly when an allocation failed; otherwise the model is returned, deleted by the caller, and nothing
    stays allocated. -/
theorem compile_failure_surfaces (vt : Variant) (s1 s2 s3 s4 s5 : Nat) (p1 : 0 < s1) (p2 : 0 < s2) (p3 : 0 < s3)
    (p4 : 0 < s4) (p5 : 0 < s5) (fails : Nat → Bool) :
    let r := exec .longjmp fails (compile vt s1 s2 s3 s4 s5)
    (failedSome r.2 = true → r.1 = .caught ∧ reported r.2 = true) ∧
    (failedSome r.2 = false → r.1 = .returned none ∧ r.2.live = []) := by
  cases vt <;> compile_cases fails

/-- what mj_compile of the tree leaves allocated: the struct (and buffer) of the mjData under construction
    when its buffer (arena) allocation fails – the catch block cannot see them, `*dest` is stored last – and
    the mjModel struct when its buffer allocation fails. -/
def expectedLeakCompile (fails : Nat → Bool) : List Nat :=
  if fails 0 then [] else if fails 1 then [1] else if fails 2 then [] else
  if fails 3 then [3] else if fails 4 then [4, 3] else if fails 5 then [] else
  if fails 6 then [6] else if fails 7 then [7, 6] else []

/-- **Exact leak set of mj_compile in the tree**, for every oracle (the same call sites as
    `asIs_longjmp_live_exact`, reached through TryCompile). -/
theorem compile_asIs_live_exact (s1 s2 s3 s4 s5 : Nat) (p1 : 0 < s1) (p2 : 0 < s2) (p3 : 0 < s3)
    (p4 : 0 < s4) (p5 : 0 < s5) (fails : Nat → Bool) :
    (exec .longjmp fails (compile .asIs s1 s2 s3 s4 s5)).2.live = expectedLeakCompile fails := by
  simp only [expectedLeakCompile]
  compile_cases fails

/-- with non-raising allocations in mj_makeModel / mj_makeRawData, mj_compile leaks nothing, for every oracle. -/
theorem compile_tryMalloc_clean (s1 s2 s3 s4 s5 : Nat) (p1 : 0 < s1) (p2 : 0 < s2) (p3 : 0 < s3)
    (p4 : 0 < s4) (p5 : 0 < s5) (fails : Nat → Bool) :
    let r := exec .longjmp fails (compile .tryMalloc s1 s2 s3 s4 s5)
    isFault r.1 = false ∧ r.2.live = [] := by
  compile_cases fails

/-- the model is not blind to the order of `*dest = d`: were mj_makeRawData to publish the struct before its
    buffer / arena allocations (and before `d->threadpool`, `d->nplugin` are written), a failure of either
    allocation would make the catch block's mj_deleteData read an indeterminate `threadpool` – for all sizes
    and whatever the oracle says about the other calls. -/
theorem compile_publish_first_faults (s1 s2 s3 s4 s5 : Nat) (p1 : 0 < s1) (p2 : 0 < s2) (p3 : 0 < s3)
    (p4 : 0 < s4) (p5 : 0 < s5) (fails : Nat → Bool) (h0 : fails 0 = false) (h1 : fails 1 = false)
    (h2 : fails 2 = false) (h34 : fails 3 = true ∨ fails 4 = true) :
    (exec .longjmp fails (compileWith (makeModelBody .asIs s1 s2 .cm) (makeRawDataPublishFirst .asIs s3 s4 s5 .cd)
      (makeRawDataBody .asIs s3 s4 s5 .loc))).1 = .fault (.uninitRead .cd .threadpool) := by
  cases h3 : fails 3 <;> cases h4 : fails 4 <;> compile_simp

example : (fun k => k == 4) 0 = false ∧ (fun k => k == 4) 1 = false ∧ (fun k => k == 4) 2 = false ∧
    ((fun k => k == 4) 3 = true ∨ (fun k => k == 4) 4 = true) := by decide

/-- … nor to a stale `data`: without the `d = nullptr` after the first mj_deleteData(d), a failure of the
    next allocation makes the catch block delete the freed struct again. -/
theorem compile_stale_pointer_faults (s1 s2 s3 s4 s5 : Nat) (p1 : 0 < s1) (p2 : 0 < s2) (p3 : 0 < s3)
    (p4 : 0 < s4) (p5 : 0 < s5) (fails : Nat → Bool) (h : ∀ k, k < 5 → fails k = false) (h5 : fails 5 = true) :
    (exec .longjmp fails (compileNoClear .asIs s1 s2 s3 s4 s5)).1 = .fault (.useAfterFree .cd) := by
  have h0 := h 0 (by omega); have h1 := h 1 (by omega); have h2 := h 2 (by omega)
  have h3 := h 3 (by omega); have h4 := h 4 (by omega)
  compile_simp

example : (∀ k, k < 5 → (fun k => k == 5) k = false) ∧ (fun k => k == 5) 5 = true := by
  refine ⟨?_, by decide⟩; intro k hk; simp; omega

end MjProof.C21
