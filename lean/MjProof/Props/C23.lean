import MjProof.Lemmas.LinAlg
import MjProof.Lemmas.LinAlgChol
import MjProof.Lemmas.LinAlgCholUpd
import MjProof.Lemmas.LinAlgBand
import MjProof.Lemmas.Sparse
import MjProof.Lemmas.SparseD2S
import MjProof.Lemmas.SparseCompress
import MjProof.Lemmas.SparseTranspose
import MjProof.Lemmas.SparseSuper
import MjProof.Lemmas.SparseCombine
import MjProof.Lemmas.SparseSym
import MjProof.Lemmas.LinAlgDense
import MjProof.Lemmas.LinAlgCert
/-
C23  Linear algebra routines agree with their definitions.

The theorems are about the hand models of `Model/LinAlg.lean` / `Model/Sparse.lean` (which mirror the loops of
engine_util_blas.c, engine_util_solve.c, engine_util_sparse.[ch] and are tied to the compiled code by the
differential correspondence of checks/c23.py), instantiated at `α := ℝ`.  `vget` / `mget` are the total
read-outs of a vector / flat row-major matrix (0 outside the index range).
-/
namespace MjProof.C23
open MjProof.LinAlg MjProof.Sparse MjNum Finset

/-! ### dense products -/

/-- `mju_dot` (4-accumulator unrolling + remainder group) is the sum of the products. -/
theorem dot_eq_sum {n : Nat} (x y : Vector ℝ n) : dot x y = ∑ k ∈ range n, vget x k * vget y k := by
  unfold dot
  exact dotFn_congr_range n _ (fun k => vget x k * vget y k) (by intro k; simp [getElem_eq_vget])

/-- `mju_mulMatVec` is the matrix–vector product. -/
theorem mulMatVec_eq {nr nc : Nat} (M : Vector ℝ (nr * nc)) (v : Vector ℝ nc) (r : Nat) (hr : r < nr) :
    vget (mulMatVec M v) r = ∑ c ∈ range nc, mget M r c * vget v c := by
  unfold mulMatVec
  rw [← getElem_eq_vget _ r hr, Vector.getElem_ofFn]
  exact dotFn_congr_range nc _ (fun c => mget M r c * vget v c)
    (by intro k; simp [at2_eq_mget, getElem_eq_vget])

/-- `mju_mulMatTVec` (rows with a zero multiplier skipped, accumulation by `mju_addToScl`) is the transposed
matrix–vector product. -/
theorem mulMatTVec_eq {nr nc : Nat} (M : Vector ℝ (nr * nc)) (v : Vector ℝ nr) (c : Nat) (hc : c < nc) :
    vget (mulMatTVec M v) c = ∑ r ∈ range nr, mget M r c * vget v r :=
  mulMatTVec_spec M v c hc

/-- `mju_sqrMatTD` (lower triangle accumulated row by row with zero entries skipped, then mirrored) is
`Mᵀ · diag · M` — the dense counterpart of `mju_sqrMatTDSparse`. -/
theorem sqrMatTD_eq {nr nc : Nat} (M : Vector ℝ (nr * nc)) (d : Vector ℝ nr) (a b : Nat) (ha : a < nc) (hb : b < nc) :
    mget (sqrMatTD M d) a b = ∑ j ∈ range nr, mget M j a * vget d j * mget M j b :=
  sqrMatTD_spec M d a b ha hb

/-! ### Cholesky -/

/-- **cholSolve_correct.**  For every `n`, every matrix whose diagonal is non-zero (in particular a Cholesky
factor with positive diagonal) and every right-hand side, `mju_cholSolve` returns the solution of
`(L Lᵀ) x = b`, where `L` is the lower triangle of `mat` (the strict upper triangle is ignored, as in C). -/
theorem cholSolve_correct (n : Nat) (mat : Vector ℝ (n * n)) (b : Vector ℝ n)
    (hd : ∀ i < n, mget mat i i ≠ 0) :
    ∀ i < n, ∑ j ∈ range n, (∑ k ∈ range n, lower mat i k * lower mat j k) * vget (cholSolve n mat b) j
      = vget b i :=
  cholSolve_solves n mat b hd

example : ∃ mat : Vector ℝ (2 * 2), (∀ i < 2, mget mat i i ≠ 0) ∧ mget mat 1 0 ≠ 0 :=
  ⟨#v[2, 7, 1, 3], by
    intro i hi
    have : i = 0 ∨ i = 1 := by omega
    rcases this with rfl | rfl <;> simp [mget, at2], by simp [mget, at2]⟩

/-- **cholFactor_reconstructs_partial.**  For every `n`, every input matrix `A` and every threshold
`mindiag > 0`: if `mju_cholFactor` reports full rank (return value `n`, i.e. no pivot fell below `mindiag`),
then the lower triangle `L` of the overwritten matrix has a positive diagonal and satisfies
`(L Lᵀ)_{ij} = A_{ij}` for all `j ≤ i < n` (only the lower triangle of `A` is read), and the strict upper
triangle is left untouched.
*Partial*: what is not proved is that an SPD input (with `mindiag` below its smallest pivot) always takes this
full-rank path; the deficiency branch (pivot replaced by `mindiag`, column cleared) is covered by the
correspondence only. -/
theorem cholFactor_reconstructs_partial (n : Nat) (A : Vector ℝ (n * n)) (mindiag : ℝ) (hmin : 0 < mindiag)
    (hrank : (cholFactor n A mindiag).2 = n) :
    (∀ c < n, 0 < mget (cholFactor n A mindiag).1 c c) ∧
    (∀ i j, j ≤ i → i < n →
      ∑ k ∈ range n, lower (cholFactor n A mindiag).1 i k * lower (cholFactor n A mindiag).1 j k = mget A i j) ∧
    (∀ i j, i < j → mget (cholFactor n A mindiag).1 i j = mget A i j) := by
  have F := cholFactor_facts A mindiag hmin hrank
  refine ⟨F.pos, ?_, fun i j h => F.same i j (Or.inr h)⟩
  intro i j hji hi
  rw [lower_gram _ i j hji hi]
  exact F.col j (by omega) i hji hi

/-- Factor + solve: if `mju_cholFactor` reports full rank on a symmetric `A`, then `mju_cholSolve` with the
returned factor solves `A x = b`. -/
theorem cholFactor_cholSolve_solves (n : Nat) (A : Vector ℝ (n * n)) (mindiag : ℝ) (hmin : 0 < mindiag)
    (hsym : ∀ i j, mget A i j = mget A j i) (hrank : (cholFactor n A mindiag).2 = n) (b : Vector ℝ n) :
    ∀ i < n, ∑ j ∈ range n, mget A i j * vget (cholSolve n (cholFactor n A mindiag).1 b) j = vget b i := by
  obtain ⟨hpos, hgram, -⟩ := cholFactor_reconstructs_partial n A mindiag hmin hrank
  intro i hi
  have hs := cholSolve_correct n (cholFactor n A mindiag).1 b (fun i hi => (hpos i hi).ne') i hi
  rw [← hs]
  apply Finset.sum_congr rfl
  intro j hj
  simp at hj
  congr 1
  rcases le_total j i with h | h
  · exact (hgram i j h hi).symm
  · rw [hsym i j, ← hgram j i h hj]
    apply Finset.sum_congr rfl; intro k _; ring

/-- non-vacuity: the 1×1 matrix `[4]` with `mindiag = 1` is factorised with full rank -/
example : (cholFactor 1 (#v[(4 : ℝ)] : Vector ℝ (1 * 1)) 1).2 = 1 := by
  simp [cholFactor, Nat.fold, cholStep, at2, set2, cholColumn, forRange]

/-- **cholUpdate_eq_refactor_partial.**  For every `n`, every matrix `L` with non-zero diagonal, every vector `x`
and both signs: if `mju_cholUpdate` reports rank `n` (no pivot `Lkk² ± xk²` fell below `mjMINVAL = 1e-15`), the lower
triangle `L'` of the overwritten matrix satisfies `L' L'ᵀ = L Lᵀ ± x xᵀ` — it is a Cholesky factor of the updated
matrix, i.e. what a refactorisation would have to reproduce.
*Partial*: equality with the factor computed by `mju_cholFactor` additionally needs uniqueness of the Cholesky
factor with positive diagonal (not proved); the rank-loss branch is covered by the correspondence only. -/
theorem cholUpdate_eq_refactor_partial (n : Nat) (L : Vector ℝ (n * n)) (x : Vector ℝ n) (plus : Bool)
    (hdiag : ∀ c < n, mget L c c ≠ 0) (hrank : (cholUpdate n L x plus).2.2 = n)
    (i j : Nat) (hi : i < n) (hj : j < n) :
    ∑ c ∈ range n, lower (cholUpdate n L x plus).1 i c * lower (cholUpdate n L x plus).1 j c
      = ∑ c ∈ range n, lower L i c * lower L j c + (if plus then 1 else -1) * (vget x i * vget x j) :=
  cholUpdate_gram L x plus hdiag hrank i j hi hj

/-- non-vacuity: updating the 1×1 factor `[2]` with `x = [1]` keeps rank 1 -/
example : (cholUpdate 1 (#v[(2 : ℝ)] : Vector ℝ (1 * 1)) #v[1] true).2.2 = 1 := by
  simp [cholUpdate, Nat.fold, cholUpdStep, at2, set2, cholUpdCol, cholUpdX, forRange]
  norm_num

/-! ### band-dense storage -/

/-- **band_dense_roundtrip.**  For all `ntotal`, `nband ≥ 1`, `ndense ≤ ntotal`, every dense matrix `A`, every
initial content of the band buffer and both values of `flg_sym`: `mju_band2Dense (mju_dense2Band A)` reproduces
`A` on every band-admissible entry of the lower triangle (`j ≤ i`, and `i - j < nband` unless `i` is one of the
last `ndense` rows), is `0` on the other entries of the lower triangle, and its strict upper triangle is `0`
(`flg_sym = 0`) or the mirror image of the lower triangle (`flg_sym = 1`). -/
theorem band_dense_roundtrip (ntotal nband ndense : Nat) (hb : 1 ≤ nband) (hd : ndense ≤ ntotal)
    (A : Vector ℝ (ntotal * ntotal)) (buf : Vector ℝ (bandSize ntotal nband ndense)) (sym : Bool)
    (i j : Nat) (hi : i < ntotal) (hj : j < ntotal) :
    mget (band2Dense ntotal nband ndense hb hd (dense2Band ntotal nband ndense hb hd buf A) sym) i j =
      if sym = true ∧ i < j then (if bandAdm ntotal nband ndense j i then mget A j i else 0)
      else (if bandAdm ntotal nband ndense i j then mget A i j else 0) := by
  have low : ∀ i j, i < ntotal → j < ntotal →
      mget (band2DenseLower ntotal nband ndense hb hd (dense2Band ntotal nband ndense hb hd buf A)) i j =
        if bandAdm ntotal nband ndense i j then mget A i j else 0 := by
    intro i j hi hj
    rw [band2DenseLower_spec ntotal nband ndense hb hd _ i j hi hj]
    by_cases h : bandAdm ntotal nband ndense i j
    · rw [if_pos h, if_pos h, dense2Band_spec ntotal nband ndense hb hd buf A i j hi h]
    · rw [if_neg h, if_neg h]
  unfold band2Dense
  cases sym
  · simp only [Bool.false_eq_true, false_and, if_false]
    exact low i j hi hj
  · simp only [true_and, if_true]
    rw [mirrorLower_spec]
    by_cases h : i < j
    · rw [if_pos h, if_pos h, low j i hj hi]
    · rw [if_neg h, if_neg h, low i j hi hj]

/-- the address map is injective on admissible entries: `mju_bandDiag` is the address of `(i, i)` -/
theorem bandDiag_eq_addr (ntotal nband ndense i : Nat) (hb : 1 ≤ nband) :
    bandDiag i ntotal nband ndense = bandAddr ntotal nband ndense i i := by
  unfold bandDiag bandAddr
  split
  · have : (i + 1) * nband = i * nband + nband := Nat.succ_mul i nband
    omega
  · rfl

example : bandAdm 5 2 1 3 2 ∧ ¬ bandAdm 5 2 1 3 1 ∧ bandAdm 5 2 1 4 0 := by decide

/-! ### sparse routines against the dense matrix they represent

`denseOf p mat r c` is the dense matrix represented by the CSR-style arrays `(mat, rownnz, rowadr, colind)`:
the sum of the stored entries of row `r` whose column index is `c` (a single entry when the column indices of
a row are distinct).  `Pat` only requires the row extents to lie inside the buffers and the stored column
indices to be `< nc`: rows may be empty, unsorted, stored in any order and with gaps (uncompressed layout). -/

/-- `mju_dotSparse` is the sum of `vec1[k] * vec2[ind1[k]]`, i.e. the dense dot product of `vec2` with the
scatter of `vec1`. -/
theorem dotSparse_eq_dense {nnz n : Nat} (vec1 : Vector ℝ nnz) (ind1 : Vector Nat nnz) (vec2 : Vector ℝ n)
    (hind : ∀ k (h : k < nnz), ind1[k] < n) :
    dotSparse vec1 ind1 vec2 hind
      = ∑ c ∈ range n, (∑ k ∈ range nnz, if nget ind1 k = c then vget vec1 k else 0) * vget vec2 c := by
  unfold dotSparse
  rw [dotSpSum_ofFn _ _ (fun k => vget vec1 k * vget vec2 (nget ind1 k))
    (by intro k; simp only [Fin.getElem_fin, getElem_eq_vget, getElem_eq_nget])]
  simp_rw [Finset.sum_mul]
  rw [Finset.sum_comm]
  apply Finset.sum_congr rfl
  intro k hk; simp at hk
  have hc : nget ind1 k < n := by rw [← getElem_eq_nget _ k hk]; exact hind k hk
  simp_rw [ite_mul, zero_mul]
  rw [Finset.sum_ite_eq]
  simp [hc]

/-- `mju_mulMatVecSparse` = dense matrix–vector product, on any pattern. -/
theorem mulMatVecSparse_eq_dense {nr nc cap : Nat} (p : Pat nr nc cap) (mat : Vector ℝ cap) (vec : Vector ℝ nc)
    (r : Nat) (hr : r < nr) :
    vget (mulMatVecSparse p mat vec) r = ∑ c ∈ range nc, denseOf p mat r c * vget vec c := by
  unfold mulMatVecSparse
  rw [← getElem_eq_vget _ r hr, Vector.getElem_ofFn]
  exact rowDot_eq p mat vec r hr

/-- `mju_mulMatTVecSparse` = dense transposed product, on any pattern (rows with a zero multiplier are skipped
by the code, which does not change the sum). -/
theorem mulMatTVecSparse_eq_dense {nr nc cap : Nat} (p : Pat nr nc cap) (mat : Vector ℝ cap) (vec : Vector ℝ nr)
    (c : Nat) :
    vget (mulMatTVecSparse p mat vec) c = ∑ r ∈ range nr, denseOf p mat r c * vget vec r :=
  mulMatTVecSparse_eq p mat vec c

/-- `mju_addToSymSparse` adds the represented matrix to the dense one, and with `flg_upper` also mirrors every
stored entry below the diagonal into the upper triangle. -/
theorem addToSymSparse_eq_dense {n cap : Nat} (p : Pat n n cap) (mat : Vector ℝ cap) (res : Vector ℝ (n * n))
    (upper : Bool) (a b : Nat) :
    mget (addToSymSparse p mat res upper) a b =
      mget res a b + denseOf p mat a b + (if upper = true ∧ a < b then denseOf p mat b a else 0) :=
  addToSymSparse_eq p mat res upper a b

/-- `mju_sparse2dense` writes the represented matrix (rows with pairwise distinct column indices). -/
theorem sparse2dense_eq_dense {nr nc cap : Nat} (p : Pat nr nc cap) (hnd : NodupRows p) (mat : Vector ℝ cap)
    (a b : Nat) : mget (sparse2dense p mat) a b = denseOf p mat a b :=
  sparse2dense_eq p hnd mat a b

/-- **sparse2dense ∘ dense2sparse = id** (given enough capacity: at least one slot and at least as many slots as
non-zeros): `mju_dense2sparse` does not take its overflow exit, its outputs form a valid pattern with distinct
(increasing) columns per row, and `mju_sparse2dense` of them is the input matrix. -/
theorem sparse2dense_dense2sparse {nr nc nnz : Nat} (M : Vector ℝ (nr * nc)) (hnnz : nnz ≠ 0)
    (hcap : nzBefore M nr ≤ nnz) (init : D2S ℝ nr nnz) :
    (dense2sparse M init).full = false ∧
    ∃ p : Pat nr nc nnz, p.rownnz = (dense2sparse M init).rownnz ∧ p.rowadr = (dense2sparse M init).rowadr ∧
      p.colind = (dense2sparse M init).colind ∧
      ∀ a b, a < nr → b < nc → mget (sparse2dense p (dense2sparse M init).res) a b = mget M a b := by
  refine ⟨(dense2sparse_spec M hnnz hcap init).1, ?_⟩
  obtain ⟨p, h1, h2, h3, hnd, hrep⟩ := dense2sparse_pat M hnnz hcap init
  exact ⟨p, h1, h2, h3, fun a b ha hb => by rw [sparse2dense_eq p hnd, hrep a b ha hb]⟩

/-- **dense2sparse ∘ sparse2dense** preserves the represented matrix: converting a sparse matrix (distinct
columns per row, any layout) to dense and back yields arrays that represent the same matrix (the arrays
themselves are the compressed, column-sorted form without explicit zeros, so they need not coincide with the
input arrays). -/
theorem dense2sparse_sparse2dense {nr nc cap nnz : Nat} (p : Pat nr nc cap) (hnd : NodupRows p) (mat : Vector ℝ cap)
    (hnnz : nnz ≠ 0) (hcap : nzBefore (sparse2dense p mat) nr ≤ nnz) (init : D2S ℝ nr nnz) :
    ∃ q : Pat nr nc nnz, q.rownnz = (dense2sparse (sparse2dense p mat) init).rownnz ∧
      q.rowadr = (dense2sparse (sparse2dense p mat) init).rowadr ∧
      q.colind = (dense2sparse (sparse2dense p mat) init).colind ∧
      ∀ a b, a < nr → b < nc →
        denseOf q (dense2sparse (sparse2dense p mat) init).res a b = denseOf p mat a b := by
  obtain ⟨q, h1, h2, h3, -, hrep⟩ := dense2sparse_pat (sparse2dense p mat) hnnz hcap init
  exact ⟨q, h1, h2, h3, fun a b ha hb => by rw [hrep a b ha hb, sparse2dense_eq p hnd]⟩

/-- `mju_mulSymVecSparse` on symmetric lower-triangular storage (every row non-empty, its last entry on the
diagonal, the others strictly below it): no out-of-range access and
`res = (D + strict_lower(D)ᵀ) · vec`, `D` the represented lower-triangular matrix. -/
theorem mulSymVecSparse_eq_dense {n cap : Nat} (p : Pat n n cap) (hs : SymStore p) (mat : Vector ℝ cap)
    (vec : Vector ℝ n) :
    ∃ res, mulSymVecSparse p mat vec = some res ∧ ∀ a, a < n →
      vget res a = ∑ c ∈ range n, denseOf p mat a c * vget vec c
        + ∑ r ∈ Ico (a + 1) n, denseOf p mat r a * vget vec r :=
  mulSymVecSparse_spec p hs mat vec

/-- symmetric lower-triangular storage of a 2×2 matrix: rows `{0}` and `{0,1}` -/
def exSym : Pat 2 2 3 where
  rownnz := #v[1, 2]
  rowadr := #v[0, 1]
  colind := #v[0, 0, 1]
  hrow := by decide
  hcol := by decide

example : SymStore exSym := by
  refine ⟨?_, ?_, ?_⟩
  · intro i hi
    have : i = 0 ∨ i = 1 := by omega
    rcases this with rfl | rfl <;> decide
  · intro i hi
    have : i = 0 ∨ i = 1 := by omega
    rcases this with rfl | rfl <;> decide
  · intro i hi k hk
    have : i = 0 ∨ i = 1 := by omega
    rcases this with rfl | rfl
    · have h1 : nget exSym.rownnz 0 = 1 := by decide
      rw [h1] at hk; omega
    · have h1 : nget exSym.rownnz 1 = 2 := by decide
      rw [h1] at hk
      have : k = 0 := by omega
      subst this; decide

/-- `mju_combineSparseCount` on strictly increasing index arrays is the size of the union: the two lengths minus
the number of common indices. -/
theorem combineSparseCount_eq {na nb : Nat} (a : Vector Nat na) (b : Vector Nat nb)
    (ha : SortedUpto a na) (hb : SortedUpto b nb) :
    combineSparseCount a b = na + nb - pairCount a b na nb := by
  unfold combineSparseCount
  rw [commonCount_full a b na nb le_rfl le_rfl ha hb]

/-- **combineSparse = a·dst + b·src.**  For strictly increasing index arrays (`dst` uses the first `dn` of its
`cap` slots) whose union fits into the `cap` slots: `mju_combineSparse` performs only in-range accesses (although
it merges backwards *in place*), returns `nnz` = size of the union, the resulting index array is strictly
increasing and the represented sparse vector is `a·dst + b·src` (`vecSeg ind val 0 n j` is the value at index `j`).
Covers the identical-pattern fast path, the backward merge and the `a == 1` shortcut. -/
theorem combineSparse_eq_dense {cap ns : Nat} (a b : ℝ) (dn : Nat) (ind : Vector Nat cap) (dst : Vector ℝ cap)
    (src : Vector ℝ ns) (srcInd : Vector Nat ns) (hA : SortedUpto ind dn) (hB : SortedUpto srcInd ns) (hdn : dn ≤ cap)
    (hfit : dn + ns - pairCount ind srcInd dn ns ≤ cap) :
    ∃ out nnz, combineSparse a b dn { dst := dst, ind := ind } src srcInd = some (out, nnz) ∧
      nnz + pairCount ind srcInd dn ns = dn + ns ∧ SortedUpto out.ind nnz ∧
      ∀ j, vecSeg out.ind out.dst 0 nnz j = a * vecSeg ind dst 0 dn j + b * vecSeg srcInd src 0 ns j :=
  combineSparse_spec a b dn ind dst src srcInd hA hB hdn hfit

/-- non-vacuity: `dst = {1, 4}` (capacity 3), `src = {4, 7}`: sorted, one common index, union of size 3 fits -/
example : SortedUpto (#v[1, 4, 0] : Vector Nat 3) 2 ∧ SortedUpto (#v[4, 7] : Vector Nat 2) 2 ∧
    2 + 2 - pairCount (#v[1, 4, 0] : Vector Nat 3) (#v[4, 7] : Vector Nat 2) 2 2 ≤ 3 := by
  refine ⟨?_, ?_, by decide⟩
  · intro k k' h1 h2
    have : k = 0 ∧ k' = 1 := by omega
    rw [this.1, this.2]; decide
  · intro k k' h1 h2
    have : k = 0 ∧ k' = 1 := by omega
    rw [this.1, this.2]; decide

/-- **compressSparse preserves the represented matrix.**  For a pattern whose rows are stored in increasing
address order without overlap (`rowadr[r] + rownnz[r] ≤ rowadr[r+1]`; gaps allowed — e.g. the uncompressed layout)
and `nr > 0`: `mju_compressSparse` performs only in-range accesses (the model returns `some`), the new rows are
contiguous from address 0 (`rowadr[r] = Σ_{r'<r} rownnz[r']`), the return value is the total count, and every row
represents exactly its kept entries: all entries when `minval < 0`, the entries with `|v| > minval` otherwise. -/
theorem compressSparse_preserves {nr nc cap : Nat} (p : Pat nr nc cap) (mat : Vector ℝ cap) (minval : ℝ)
    (hord : ∀ r, r + 1 < nr → nget p.rowadr r + nget p.rownnz r ≤ nget p.rowadr (r + 1)) (hnr : 0 < nr) :
    ∃ out ret, compressSparse { mat := mat, rownnz := p.rownnz, rowadr := p.rowadr, colind := p.colind } minval
        = some (out, ret) ∧
      ret = ∑ r ∈ range nr, nget out.rownnz r ∧
      ∀ r, r < nr →
        nget out.rowadr r = ∑ r' ∈ range r, nget out.rownnz r' ∧
        ∀ c, denseRaw out.rownnz out.rowadr out.colind out.mat r c
          = ∑ k ∈ range (nget p.rownnz r),
              if nget p.colind (nget p.rowadr r + k) = c ∧ ¬ (0 ≤ minval ∧ |vget mat (nget p.rowadr r + k)| ≤ minval)
              then vget mat (nget p.rowadr r + k) else 0 := by
  obtain ⟨out, ret, h1, h2, h3⟩ := compressSparse_spec (decide ((MjNum.lit 0 : ℝ) ≤ minval)) minval p mat hord hnr rfl
  have hsum : ∀ m, m ≤ nr → newAdr (decide ((MjNum.lit 0 : ℝ) ≤ minval)) minval p mat m
      = ∑ r' ∈ range m, nget out.rownnz r' := by
    intro m hm
    unfold newAdr
    apply Finset.sum_congr rfl
    intro r' hr'; simp at hr'
    exact ((h3 r' (by omega)).2.1).symm
  refine ⟨out, ret, h1, by rw [h2, hsum nr le_rfl], ?_⟩
  intro r hr
  obtain ⟨a1, _, a3⟩ := h3 r hr
  refine ⟨by rw [a1, hsum r (by omega)], ?_⟩
  intro c
  rw [a3 c]
  unfold denseKept keptPart keepEntry
  apply Finset.sum_congr rfl
  intro k _
  have e : ((decide ((MjNum.lit 0 : ℝ) ≤ minval)) = true) = (0 ≤ minval) := by simp [MjNum.lit]
  simp only [e]

/-- **transposeSparse = dense transpose.**  For a pattern addressed from `rowadr[0] = 0` (the routine addresses
`mat` / `colind` relative to `rowadr[0]`), `nr, nc > 0` and an output capacity of at least the number of stored
entries: `mju_transposeSparse` performs only in-range accesses, its output rows are contiguous from address 0,
row `c` of the output represents column `c` of the input (`denseRaw out c r = denseOf p mat r c`), and the column
indices of every output row are valid (`< nr`) and in non-decreasing order (increasing when the input rows have
distinct columns). -/
theorem transposeSparse_eq_dense {nr nc cap capT : Nat} (p : Pat nr nc cap) (mat : Vector ℝ cap)
    (hnr : 0 < nr) (hnc : 0 < nc) (hoff : nget p.rowadr 0 = 0)
    (hcapT : ∑ r ∈ range nr, nget p.rownnz r ≤ capT) (out : TrOut ℝ nc capT) :
    ∃ out', transposeSparse mat p.rownnz p.rowadr p.colind nc out = some out' ∧
      ∀ c, c < nc →
        nget out'.rowadr c = ∑ c' ∈ range c, nget out'.rownnz c' ∧
        (∀ r, r < nr → denseRaw out'.rownnz out'.rowadr out'.colind out'.res c r = denseOf p mat r c) ∧
        (∀ k, k < nget out'.rownnz c → nget out'.colind (nget out'.rowadr c + k) < nr) ∧
        (∀ k k', k < k' → k' < nget out'.rownnz c →
          nget out'.colind (nget out'.rowadr c + k) ≤ nget out'.colind (nget out'.rowadr c + k')) := by
  obtain ⟨out', h1, h2⟩ := transposeSparse_spec p mat hnr hnc hoff hcapT out
  refine ⟨out', h1, ?_⟩
  intro c hc
  obtain ⟨a1, a2, a3, a4, a5, _⟩ := h2 c hc
  refine ⟨?_, ?_, ?_, ?_⟩
  · rw [a2]
    unfold trStart
    apply Finset.sum_congr rfl
    intro c' hc'; simp at hc'
    exact ((h2 c' (by omega)).1).symm
  · intro r hr; rw [a3 r, if_pos hr]
  · intro k hk; rw [a2]; exact a4 k (by rw [← a1]; exact hk)
  · intro k k' hkk hk'; rw [a2]; exact a5 k k' hkk (by rw [← a1]; exact hk')

/-- non-vacuity of the pattern hypotheses (`Pat`, `rowadr[0] = 0`, address order, distinct columns, capacity) -/
def exPat : Pat 2 2 4 where
  rownnz := #v[2, 1]
  rowadr := #v[0, 3]
  colind := #v[0, 1, 7, 1]
  hrow := by decide
  hcol := by decide

example : nget exPat.rowadr 0 = 0 ∧
    (∀ r, r + 1 < 2 → nget exPat.rowadr r + nget exPat.rownnz r ≤ nget exPat.rowadr (r + 1)) ∧
    NodupRows exPat ∧ ∑ r ∈ range 2, nget exPat.rownnz r ≤ 3 := by
  refine ⟨by decide, ?_, ?_, by decide⟩
  · intro r hr
    have : r = 0 := by omega
    subst this; decide
  · intro r k k' hk hk' h
    have hr : r = 0 ∨ r = 1 ∨ 2 ≤ r := by omega
    rcases hr with rfl | rfl | hr
    · have h1 : nget exPat.rownnz 0 = 2 := by decide
      rw [h1] at hk hk'
      have : (k = 0 ∨ k = 1) ∧ (k' = 0 ∨ k' = 1) := by omega
      rcases this with ⟨rfl | rfl, rfl | rfl⟩ <;> first | rfl | (exfalso; revert h; decide)
    · have h1 : nget exPat.rownnz 1 = 1 := by decide
      rw [h1] at hk hk'
      omega
    · have h1 : nget exPat.rownnz r = 0 := by unfold nget; simp [show ¬ r < 2 by omega]
      rw [h1] at hk; omega

/-- **transposeSparse, row supernodes.**  Under the hypotheses of `transposeSparse_eq_dense`, calling
`mju_transposeSparse` with `res_rowsuper != NULL` (model `transposeSparseS`: the marking statements interleaved
with the placement loop, `c_prev` reset at the start of every input row) performs only in-range accesses, leaves
the other outputs exactly as with `res_rowsuper = NULL`, and for every result row `c`:
`res_rowsuper[c]` stays inside the matrix; **soundness, any pattern** (unsorted and duplicate columns included): the
rows `c, c+1, …, c + res_rowsuper[c]` of the result have the same number of entries and the same column indices in
the same order — which is what `mju_sqrMatTDSparse*` (through `rowsuperT`) and the AVX `mju_mulMatVecSparse` rely on
when they read only the first row's `colind`; the entries form run lengths (`res_rowsuper[c] > 0` implies
`res_rowsuper[c+1] = res_rowsuper[c] - 1`); **exactness, input rows with increasing columns**: the run is maximal,
the next result row differs. -/
theorem transposeSparse_rowsuper {nr nc cap capT : Nat} (p : Pat nr nc cap) (mat : Vector ℝ cap)
    (hnr : 0 < nr) (hnc : 0 < nc) (hoff : nget p.rowadr 0 = 0)
    (hcapT : ∑ r ∈ range nr, nget p.rownnz r ≤ capT) (out : TrOut ℝ nc capT) (sup0 : Vector Nat nc) :
    ∃ out' sup, transposeSparse mat p.rownnz p.rowadr p.colind nc out = some out' ∧
      transposeSparseS mat p.rownnz p.rowadr p.colind nc out sup0 = some (out', sup) ∧
      ∀ c, c < nc →
        c + nget sup c < nc ∧
        (∀ j, j ≤ nget sup c → SameRow out'.rownnz out'.rowadr out'.colind c (c + j)) ∧
        (0 < nget sup c → nget sup (c + 1) + 1 = nget sup c) ∧
        (SortedRows p → c + nget sup c + 1 < nc →
          ¬ SameRow out'.rownnz out'.rowadr out'.colind (c + nget sup c) (c + nget sup c + 1)) := by
  obtain ⟨out', sup, h1, h2, hrun, hsound, hexact⟩ := transposeSparseS_spec p mat hnr hnc hoff hcapT out sup0
  refine ⟨out', sup, h1, h2, ?_⟩
  intro c hc
  have R := hrun c hc
  refine ⟨?_, ?_, ?_, ?_⟩
  · by_cases h0 : nget sup c = 0
    · omega
    · have := (hsound _ (R.1 (nget sup c - 1) (by omega))).1
      omega
  · exact R.chain (SameRow.refl _ _ _) (fun _ _ _ => SameRow.trans) (fun i hi => (hsound i hi).2)
  · intro hpos
    have hc1 : c + 1 < nc := by
      have := (hsound _ (R.1 0 hpos)).1
      omega
    obtain ⟨s, hs⟩ : ∃ s, nget sup c = s + 1 := ⟨nget sup c - 1, by omega⟩
    rw [hs] at R
    have := RunIs.unique R.tail (hrun (c + 1) hc1)
    omega
  · intro hs hlt hsame
    exact hexact hs _ hlt hsame R.2

/-- the extra hypothesis of the exactness clause is satisfiable: the example pattern has increasing rows -/
example : SortedRows exPat := by
  intro r k k' hkk hk'
  have hr : r = 0 ∨ r = 1 ∨ 2 ≤ r := by omega
  rcases hr with rfl | rfl | hr
  · have h1 : nget exPat.rownnz 0 = 2 := by decide
    rw [h1] at hk'
    have : k = 0 ∧ k' = 1 := by omega
    obtain ⟨rfl, rfl⟩ := this
    decide
  · have h1 : nget exPat.rownnz 1 = 1 := by decide
    rw [h1] at hk'; omega
  · have h1 : nget exPat.rownnz r = 0 := by unfold nget; simp [show ¬ r < 2 by omega]
    rw [h1] at hk'; omega

/-- **superSparse is exact on any pattern** (rows in any order and layout, unsorted and duplicate columns): every
access is in range and `rowsuper[r]` is exactly the number of rows following row `r` that are identical to it (same
`rownnz`, same `colind` sequence), consecutively: the rows `r … r + rowsuper[r]` are identical and the next one, if
any, differs. -/
theorem superSparse_exact {nr nc cap : Nat} (p : Pat nr nc cap) (hnr : 0 < nr) (sup0 : Vector Nat nr) :
    ∃ sup, superSparse p sup0 = some sup ∧
      ∀ r, r < nr →
        r + nget sup r < nr ∧
        (∀ j, j ≤ nget sup r → SameRow p.rownnz p.rowadr p.colind r (r + j)) ∧
        (r + nget sup r + 1 < nr →
          ¬ SameRow p.rownnz p.rowadr p.colind (r + nget sup r) (r + nget sup r + 1)) := by
  obtain ⟨sup, h1, hrun⟩ := superSparse_spec p hnr sup0
  refine ⟨sup, h1, ?_⟩
  intro r hr
  have R := hrun r hr
  have hflag : ∀ i, flagS p i ≠ 0 → i + 1 < nr ∧ SameRow p.rownnz p.rowadr p.colind i (i + 1) := by
    intro i hi
    unfold flagS at hi
    by_contra hh
    rw [if_neg hh] at hi
    exact hi rfl
  refine ⟨?_, ?_, ?_⟩
  · by_cases h0 : nget sup r = 0
    · omega
    · have := (hflag _ (R.1 (nget sup r - 1) (by omega))).1
      omega
  · exact R.chain (SameRow.refl _ _ _) (fun _ _ _ => SameRow.trans) (fun i hi => (hflag i hi).2)
  · intro hlt hsame
    have := R.2
    unfold flagS at this
    rw [if_pos ⟨hlt, hsame⟩] at this
    omega

/-! ### certificate theorems for the iterative routines

`mju_eig3`, `mju_boxQP` and `mju_QCQP*` iterate to a tolerance; they are not modelled.  The oracle of
checks/c23.py evaluates the following certificates on their real outputs (up to a stated residual); the theorems
say that a point which satisfies a certificate exactly has the documented property. -/

/-- **eig3 certificate.**  If `A V = V Λ` and `Vᵀ V = I` then `(Λ, V)` is an orthonormal eigendecomposition of
`A`: `A = V Λ Vᵀ`, `V Vᵀ = I`, and every column of `V` is an eigenvector for the corresponding entry of `Λ`
(any size; `mju_eig3` is the case `n = 3`, where the oracle additionally checks `det V = 1`). -/
theorem eig3_certificate {n : ℕ} (A V : Matrix (Fin n) (Fin n) ℝ) (lam : Fin n → ℝ)
    (h1 : A * V = V * Matrix.diagonal lam) (h2 : V.transpose * V = 1) :
    A = V * Matrix.diagonal lam * V.transpose ∧ V * V.transpose = 1 ∧
      ∀ j, A.mulVec (fun i => V i j) = lam j • (fun i => V i j) :=
  eig_cert A V lam h1 h2

example : ∃ (A V : Matrix (Fin 2) (Fin 2) ℝ) (lam : Fin 2 → ℝ),
    A * V = V * Matrix.diagonal lam ∧ V.transpose * V = 1 ∧ lam 0 ≠ lam 1 :=
  ⟨Matrix.diagonal ![2, 3], 1, ![2, 3], by simp, by simp, by simp⟩

/-- **boxQP certificate.**  For a symmetric positive semidefinite `H` (in particular `H ≻ 0`), a feasible point
satisfying the KKT sign conditions (gradient `≤ 0` wherever the lower bound is inactive, `≥ 0` wherever the upper
bound is inactive) is a global minimiser of `½ xᵀHx + gᵀx` over the box. -/
theorem boxQP_certificate {n : ℕ} (H : Matrix (Fin n) (Fin n) ℝ) (hsym : H.transpose = H)
    (hpsd : ∀ z, 0 ≤ dotProduct z (H.mulVec z))
    (g lo hi x : Fin n → ℝ) (hx : ∀ i, lo i ≤ x i ∧ x i ≤ hi i)
    (hkkt : ∀ i, (lo i < x i → (H.mulVec x + g) i ≤ 0) ∧ (x i < hi i → 0 ≤ (H.mulVec x + g) i))
    (y : Fin n → ℝ) (hy : ∀ i, lo i ≤ y i ∧ y i ≤ hi i) : qobj H g x ≤ qobj H g y :=
  boxqp_cert H hsym hpsd g lo hi x hx hkkt y hy

/-- non-vacuity: `H = I`, `g = (1, -5)`, box `[0,1]²`: the KKT point is `(0, 1)` (one coordinate at each kind of
bound) -/
example : ∃ (x : Fin 2 → ℝ), (∀ i, (![0, 0] : Fin 2 → ℝ) i ≤ x i ∧ x i ≤ (![1, 1] : Fin 2 → ℝ) i) ∧
    ∀ i, ((![0, 0] : Fin 2 → ℝ) i < x i → ((1 : Matrix (Fin 2) (Fin 2) ℝ).mulVec x + (![1, -5] : Fin 2 → ℝ) : Fin 2 → ℝ) i ≤ 0) ∧
         (x i < (![1, 1] : Fin 2 → ℝ) i → 0 ≤ ((1 : Matrix (Fin 2) (Fin 2) ℝ).mulVec x + (![1, -5] : Fin 2 → ℝ) : Fin 2 → ℝ) i) := by
  refine ⟨![0, 1], ?_, ?_⟩
  · intro i; fin_cases i <;> simp
  · intro i; fin_cases i <;> simp <;> norm_num

/-- **QCQP certificate** (`mju_QCQP2`, `mju_QCQP3`, `mju_QCQP`; any `n`).  For symmetric positive semidefinite `A`:
a point `x` with a multiplier `la ≥ 0`, stationarity `A x + b + la·x/d² = 0` and complementary slackness
`la·(Σ (x_i/d_i)² − r²) = 0` minimises `½ xᵀAx + bᵀx` over `{Σ (y_i/d_i)² ≤ r²}`. -/
theorem QCQP_certificate {n : ℕ} (A : Matrix (Fin n) (Fin n) ℝ) (hsym : A.transpose = A)
    (hpsd : ∀ z, 0 ≤ dotProduct z (A.mulVec z))
    (b d x : Fin n → ℝ) (r la : ℝ) (hla : 0 ≤ la)
    (hstat : ∀ i, (A.mulVec x + b) i + la * (x i / d i ^ 2) = 0)
    (hcomp : la * (ellip d x - r ^ 2) = 0)
    (y : Fin n → ℝ) (hy : ellip d y ≤ r ^ 2) : qobj A b x ≤ qobj A b y :=
  qcqp_cert A hsym hpsd b d x r la hla hstat hcomp y hy

/-- non-vacuity: `A = I`, `b = (-2, 0)`, `d = (1, 1)`, `r = 1`: active constraint, `x = (1, 0)`, `la = 1` -/
example : ∃ (x : Fin 2 → ℝ) (la : ℝ), 0 < la ∧
    (∀ i, ((1 : Matrix (Fin 2) (Fin 2) ℝ).mulVec x + (![-2, 0] : Fin 2 → ℝ) : Fin 2 → ℝ) i + la * (x i / (![1, 1] : Fin 2 → ℝ) i ^ 2) = 0) ∧
    la * (ellip ![1, 1] x - 1 ^ 2) = 0 := by
  refine ⟨![1, 0], 1, by norm_num, ?_, ?_⟩
  · intro i; fin_cases i <;> simp <;> norm_num
  · simp [ellip, Fin.sum_univ_two]

end MjProof.C23
