import MjProof.Lemmas.GlobalTable
/-
C40  Extension registries stay consistent under concurrent use.

Property theorems only.  The model is the transition system of `MjProof/Model/GlobalTable.lean`
(`GlobalTable<T>` of src/engine/engine_global_table.h: blocks of `blockSize` cells, `count` published
after the copy, writers serialised by the re-entrant lock, lock-free readers), under sequentially
consistent interleaving.  `Reachable eqv s` = `s` is reachable from the empty table by ANY schedule of
ANY number of threads running ANY programs of register / count / get-by-slot / get-by-key /
LockExclusively operations, with allocation and copy failures injected anywhere; `eqv` is the
`ObjectEqual` of the instantiation (arbitrary).  All statements are unbounded (any number of blocks).
Proof method: invariant induction over traces (`reachable_inv`, `reachable_linInv`).
-/
namespace MjProof.C40
open MjProof.GlobalTable

variable {eqv : ObjEq} {s : Sys}

/-- the `count` value a reader in progress has obtained from `count_.load(acquire)` -/
def loadedCount : Pc → Option Nat
  | .rRead _ n => some n
  | .kScan _ n _ => some n
  | _ => none

/-- (a) No partially registered object is ever exposed: in every reachable state, a reader that has
    loaded `n = count` finds in every slot `m < n` a completely copied object (both fields written,
    by one and the same registration), namely the `m`-th registered object. -/
theorem reader_sees_complete (h : Reachable eqv s) (t n : Nat) (hl : loadedCount (s.thr t).pc = some n)
    (m : Nat) (hm : m < n) :
    ∃ o, cellAt s.mem m = some (Cell.full o) ∧ (Cell.full o).complete = true ∧ s.tbl[m]? = some o := by
  have hi := reachable_inv h
  have hp := hi.pcs t
  have hn : n ≤ s.count := by
    cases hpc : (s.thr t).pc <;> rw [hpc] at hl hp <;> simp only [loadedCount] at hl <;> try (cases hl)
    all_goals (simp only [PcInv] at hp)
    · exact hp
    · exact hp.1
  obtain ⟨o, ho, hc⟩ := tbl_cell hi (i := m) (by omega)
  exact ⟨o, hc, rfl, ho⟩

/-- (a) for completed reads: whatever `GetAtSlot` returned is a complete registered object that is
    (still) stored in that slot. -/
theorem getSlot_never_torn (h : Reachable eqv s) (t : Nat) (i : Int) (n : Nat) (c : Cell)
    (hd : (Op.getSlot i, Res.atSlot n (some c)) ∈ (s.thr t).done) :
    0 ≤ i ∧ i.toNat < n ∧ n ≤ s.count ∧ ∃ o, c = Cell.full o ∧ c.complete = true ∧ cellAt s.mem i.toNat = some c := by
  have hi := reachable_inv h
  have hr := hi.logs t _ _ hd
  simp only [ResOK] at hr
  obtain ⟨hn, hc⟩ := hr
  cases hat : Spec.atSlot (s.tbl.take n) i with
  | none => rw [hat] at hc; cases hc
  | some o =>
    rw [hat] at hc
    simp only [Option.map_some, Option.some.injEq] at hc
    obtain ⟨h0, hget, _⟩ := Spec.atSlot_some hat
    obtain ⟨hlt, ho⟩ := getElem?_take_some hget
    refine ⟨h0, hlt, by rw [← hi.len]; exact hn, o, hc, by rw [hc]; rfl, ?_⟩
    rw [hc]; exact hi.cells _ _ ho

/-- (a)+(f) for completed key lookups: `GetByKey` returns a complete registered object stored in the
    returned slot, whose key matches the query. -/
theorem getKey_never_torn (h : Reachable eqv s) (t : Nat) (k : String) (n j : Nat) (c : Cell)
    (hd : (Op.getKey k, Res.byKey n (some (j, c))) ∈ (s.thr t).done) :
    j < n ∧ n ≤ s.count ∧ ∃ o, c = Cell.full o ∧ c.complete = true ∧ cellAt s.mem j = some c ∧
      keyEq o.key k = true := by
  have hi := reachable_inv h
  have hr := hi.logs t _ _ hd
  simp only [ResOK] at hr
  obtain ⟨hn, hc⟩ := hr
  cases hlk : Spec.lookup (s.tbl.take n) k with
  | none => rw [hlk] at hc; cases hc
  | some p =>
    obtain ⟨j', o⟩ := p
    rw [hlk] at hc
    simp only [Option.map_some, Option.some.injEq, Prod.mk.injEq] at hc
    obtain ⟨rfl, rfl⟩ := hc
    obtain ⟨_, hget, hk, _⟩ := Spec.lookup_some hlk
    obtain ⟨hjn, ho⟩ := getElem?_take_some hget
    exact ⟨hjn, by rw [← hi.len]; exact hn, o, rfl, rfl, hi.cells _ _ ho, hk⟩

/-- (b) Keys are unique (case-insensitively) among the registered slots — stated on the concrete memory. -/
theorem keys_unique (h : Reachable eqv s) (i j : Nat) (hi : i < s.count) (hj : j < s.count) (ci cj : Cell)
    (hci : cellAt s.mem i = some ci) (hcj : cellAt s.mem j = some cj)
    (hk : keyEq ci.keyStr cj.keyStr = true) : i = j := by
  have hv := reachable_inv h
  obtain ⟨oi, hoi, hci'⟩ := tbl_cell hv hi
  obtain ⟨oj, hoj, hcj'⟩ := tbl_cell hv hj
  rw [hci] at hci'; rw [hcj] at hcj'
  cases hci'; cases hcj'
  exact hv.uniq i j oi oj hoi hoj hk

/-- (e) Slots are dense: every slot `0 … count-1` holds a completely copied object (and the blocks that
    contain them exist: the block walk never dereferences a null `next`). -/
theorem slots_dense (h : Reachable eqv s) (i : Nat) (hi : i < s.count) :
    ∃ o, cellAt s.mem i = some (Cell.full o) ∧ s.tbl[i]? = some o := by
  obtain ⟨o, ho, hc⟩ := tbl_cell (reachable_inv h) hi
  exact ⟨o, hc, ho⟩

/-- the ghost table is exactly the published prefix of the memory -/
theorem table_length (h : Reachable eqv s) : s.tbl.length = s.count := (reachable_inv h).len

/-- memory safety of the writer's block walk: the null-dereference state is unreachable -/
theorem no_fault (h : Reachable eqv s) (t : Nat) : (s.thr t).pc ≠ Pc.fault := by
  intro hp
  have := (reachable_inv h).pcs t
  rw [hp] at this
  exact this

/-- mutual exclusion of writers (the re-entrant lock): two threads inside `AppendIfUnique`'s critical
    section are the same thread. -/
theorem writers_exclusive (h : Reachable eqv s) (t u : Nat) (ht : 0 < (s.thr t).depth) (hu : 0 < (s.thr u).depth) :
    t = u := by
  have hi := reachable_inv h
  have a := (hi.lockD t).1 ht
  have b := (hi.lockD u).1 hu
  rw [a] at b; cases b; rfl

/-- (e) Slots are stable: along every continuation of the execution `count` never decreases and a
    registered slot never moves or changes. -/
theorem slots_stable (h : Reachable eqv s) (sched : List Nat) :
    s.count ≤ (run eqv s sched).count ∧ ∀ i, i < s.count → cellAt (run eqv s sched).mem i = cellAt s.mem i := by
  induction sched generalizing s with
  | nil => exact ⟨Nat.le_refl _, fun _ _ => rfl⟩
  | cons t ts ih =>
    have hs' : Reachable eqv (step eqv s t) := Reachable.step t h
    obtain ⟨h1, h2⟩ := ih hs'
    have hi := reachable_inv h
    have hi' := reachable_inv hs'
    have hstep : s.count ≤ (step eqv s t).count ∧ ∀ i, i < s.count → cellAt (step eqv s t).mem i = cellAt s.mem i := by
      rcases step_tbl eqv s t with ⟨e1, e2⟩ | ⟨r, cnt, hp, e1, e2⟩
      · refine ⟨by omega, fun i hlt => ?_⟩
        obtain ⟨o, ho, hc⟩ := tbl_cell hi hlt
        rw [hc]; exact hi'.cells i o (by rw [e1]; exact ho)
      · have hp' := hi.pcs t
        rw [hp] at hp'; simp only [PcInv] at hp'
        refine ⟨by omega, fun i hlt => ?_⟩
        obtain ⟨o, ho, hc⟩ := tbl_cell hi hlt
        rw [hc]; exact hi'.cells i o (by rw [e1]; exact getElem?_append_of_some ho)
    refine ⟨by simp only [run]; omega, fun i hlt => ?_⟩
    simp only [run]
    rw [h2 i (by omega)]; exact hstep.2 i hlt

/-- (c)/(d) The published table changes only by appending, at slot `count`, an object whose key matches
    no registered key; so a registration whose key is already present (identical or conflicting) can
    never change the table. -/
theorem table_changes_only_by_new_key (h : Reachable eqv s) (t : Nat) :
    ((step eqv s t).tbl = s.tbl ∧ (step eqv s t).count = s.count) ∨
    ∃ r, (s.thr t).pc = Pc.wPublish r s.count ∧
      (∀ (i : Nat) (e : Obj), s.tbl[i]? = some e → keyEq r.obj.key e.key = false) ∧
      (step eqv s t).tbl = s.tbl ++ [r.obj] ∧ (step eqv s t).count = s.count + 1 := by
  rcases step_tbl eqv s t with h1 | ⟨r, cnt, hp, e1, e2⟩
  · exact Or.inl h1
  · have hp' := (reachable_inv h).pcs t
    rw [hp] at hp'; simp only [PcInv] at hp'
    obtain ⟨_, rfl, hf, _⟩ := hp'
    exact Or.inr ⟨r, hp, Spec.findKey_none hf, e1, e2⟩

/-- (c) A registration that returned slot `i`: slot `i` holds a complete object with a matching key
    which is either the very object registered or one `ObjectEqual` to it. -/
theorem reg_slot_sound (h : Reachable eqv s) (t : Nat) (r : RegOp) (i : Nat)
    (hd : (Op.reg r, Res.slot i) ∈ (s.thr t).done) :
    i < s.count ∧ ∃ e, cellAt s.mem i = some (Cell.full e) ∧ keyEq r.obj.key e.key = true ∧
      (e = r.obj ∨ eqv r.obj e = true) := by
  have hi := reachable_inv h
  obtain ⟨e, h1, h2, h3⟩ := hi.logs t _ _ hd
  exact ⟨by rw [← hi.len]; exact lt_of_getElem?_some h1, e, hi.cells _ _ h1, h2, h3⟩

/-- (d) A registration that failed with "already registered": some slot holds an object with the same
    key (case-insensitively) that is not `ObjectEqual` to it. -/
theorem reg_conflict_sound (h : Reachable eqv s) (t : Nat) (r : RegOp) (i : Nat)
    (hd : (Op.reg r, Res.conflict i) ∈ (s.thr t).done) :
    i < s.count ∧ ∃ e, cellAt s.mem i = some (Cell.full e) ∧ keyEq r.obj.key e.key = true ∧
      eqv r.obj e = false := by
  have hi := reachable_inv h
  obtain ⟨e, h1, h2, h3⟩ := hi.logs t _ _ hd
  exact ⟨by rw [← hi.len]; exact lt_of_getElem?_some h1, e, hi.cells _ _ h1, h2, h3⟩

/-- Linearisability: the registrations of all threads, in the order of their linearisation points
    (`lin`), replayed one after the other through the sequential specification `Spec.register`,
    reproduce every returned value and produce exactly the published table; and `lin` restricted to a
    thread is that thread's own sequence of registration results, in program order. -/
theorem linearizable (h : Reachable eqv s) :
    Spec.replay eqv s.lin [] = some s.tbl ∧
    ∀ t, linOf s.lin t = (regsOf (s.thr t).done).reverse ++ pending (s.thr t).pc :=
  ⟨(reachable_inv h).lin, reachable_linInv h⟩

/-- (c)/(d), concurrent form.  Take any registration event `e` of the linearisation and let `T` be the table
    built by the events before it (a prefix of the current table, with unique keys).  If `T` already holds,
    at slot `i`, an object with the same key (case-insensitively), then: if it is `ObjectEqual` to the one
    being registered, the call returned exactly slot `i`; otherwise it failed as a conflict with slot `i`;
    and in both cases the table after the call is still `T`. -/
theorem reregistration_linearised (h : Reachable eqv s) (pre post : List LinEv) (e : LinEv)
    (hl : s.lin = pre ++ e :: post) :
    ∃ T, Spec.replay eqv pre [] = some T ∧ Spec.KeysUnique T ∧ (∃ x, s.tbl = T ++ x) ∧
      ∀ (i : Nat) (x : Obj), T[i]? = some x → keyEq e.op.obj.key x.key = true →
        (eqv e.op.obj x = true → e.res = Res.slot i ∧ Spec.replay eqv (pre ++ [e]) [] = some T) ∧
        (eqv e.op.obj x = false → e.res = Res.conflict i ∧ Spec.replay eqv (pre ++ [e]) [] = some T) := by
  have hlin := (reachable_inv h).lin
  rw [hl] at hlin
  obtain ⟨T, hpre, hu, hr, x, hx⟩ := Spec.replay_split hlin
  obtain ⟨y, hy⟩ := Spec.register_prefix eqv T e.op.obj (Spec.injOf e.res)
  refine ⟨T, hpre, hu, ⟨y ++ x, by rw [hx, hy, List.append_assoc]⟩, ?_⟩
  intro i o hi hk
  constructor
  · intro he
    have hreg := Spec.register_identical (Spec.injOf e.res) hu hi hk he
    rw [hreg] at hr
    exact ⟨hr.symm, Spec.replay_snoc hpre (by rw [hreg, ← hr])⟩
  · intro he
    have hreg := Spec.register_conflict (Spec.injOf e.res) hu hi hk he
    rw [hreg] at hr
    exact ⟨hr.symm, Spec.replay_snoc hpre (by rw [hreg, ← hr])⟩

/-! Sequential specification: what each linearised call does (these transfer to every concurrent
execution through `linearizable`). -/

/-- (b) uniqueness is preserved by every call -/
theorem spec_register_unique (T : List Obj) (o : Obj) (inj : Option Res) (hu : Spec.KeysUnique T) :
    Spec.KeysUnique (Spec.register eqv T o inj).1 := Spec.register_keysUnique o inj hu

/-- (c) re-registering an identical object returns its existing slot and changes nothing -/
theorem spec_reregister_identical (T : List Obj) (o e : Obj) (i : Nat) (inj : Option Res)
    (hu : Spec.KeysUnique T) (hi : T[i]? = some e) (hk : keyEq o.key e.key = true) (he : eqv o e = true) :
    Spec.register eqv T o inj = (T, Res.slot i) := Spec.register_identical inj hu hi hk he

/-- (d) a conflicting re-registration fails without changing the table -/
theorem spec_reregister_conflict (T : List Obj) (o e : Obj) (i : Nat) (inj : Option Res)
    (hu : Spec.KeysUnique T) (hi : T[i]? = some e) (hk : keyEq o.key e.key = true) (he : eqv o e = false) :
    Spec.register eqv T o inj = (T, Res.conflict i) := Spec.register_conflict inj hu hi hk he

/-- a new key is appended at slot `count` -/
theorem spec_register_new (T : List Obj) (o : Obj)
    (hn : ∀ (i : Nat) (e : Obj), T[i]? = some e → keyEq o.key e.key = false) :
    Spec.register eqv T o none = (T ++ [o], Res.slot T.length) := Spec.register_new hn

/-- (e) dense and stable: the table only grows at the end -/
theorem spec_register_prefix (T : List Obj) (o : Obj) (inj : Option Res) :
    ∃ x, (Spec.register eqv T o inj).1 = T ++ x := Spec.register_prefix eqv T o inj

/-- (f) lookup by key and by slot agree (sequential form): what `GetByKey` finds is what `GetAtSlot`
    returns for the reported slot, and every stored object is found under its own key at its own slot. -/
theorem spec_lookup_agree (T : List Obj) (hu : Spec.KeysUnique T)
    (hne : ∀ (i : Nat) (e : Obj), T[i]? = some e → e.key ≠ "") :
    (∀ k j o, Spec.lookup T k = some (j, o) → Spec.atSlot T (j : Int) = some o ∧ keyEq o.key k = true) ∧
    (∀ j o, T[j]? = some o → Spec.lookup T o.key = some (j, o) ∧ Spec.atSlot T (j : Int) = some o) :=
  ⟨fun _ _ _ h => ⟨(Spec.lookup_atSlot h).1, (Spec.lookup_atSlot h).2.1⟩,
   fun _ _ h => Spec.atSlot_lookup hu hne h⟩

/-- (f) lookup by key and by slot agree, concurrently: if some thread's `GetByKey` returned slot `j`
    and object `c`, any thread's `GetAtSlot(j)` that saw `j < n'` returned the same object `c`. -/
theorem lookup_agree (h : Reachable eqv s) (t t' : Nat) (k : String) (n j n' : Nat) (c : Cell) (c' : Option Cell)
    (hk : (Op.getKey k, Res.byKey n (some (j, c))) ∈ (s.thr t).done)
    (hs : (Op.getSlot (j : Int), Res.atSlot n' c') ∈ (s.thr t').done) (hj : j < n') : c' = some c := by
  obtain ⟨_, _, o, rfl, _, hc, hko⟩ := getKey_never_torn h t k n j c hk
  have hi := reachable_inv h
  have hr := hi.logs t' _ _ hs
  simp only [ResOK] at hr
  obtain ⟨hn', hc'⟩ := hr
  have hlt : j < s.tbl.length := by omega
  obtain ⟨o', ho'⟩ := getElem?_of_lt hlt
  have hoo := hi.cells j o' ho'
  rw [hc] at hoo
  have hoo' : o = o' := Cell.full_inj (Option.some.inj hoo)
  subst hoo'
  -- the key of a found object is not empty
  have hne : o.key ≠ "" := by
    have hr2 := hi.logs t _ _ hk
    simp only [ResOK] at hr2
    obtain ⟨_, hc2⟩ := hr2
    cases hlk : Spec.lookup (s.tbl.take n) k with
    | none => rw [hlk] at hc2; cases hc2
    | some p =>
      obtain ⟨j2, o2⟩ := p
      rw [hlk] at hc2
      simp only [Option.map_some, Option.some.injEq, Prod.mk.injEq] at hc2
      obtain ⟨rfl, hcc⟩ := hc2
      have e2 : o = o2 := Cell.full_inj hcc
      subst e2
      exact (Spec.lookup_some hlk).2.2.2
  rw [hc']
  simp [Spec.atSlot, hj, ho', hne]

/-! ### non-vacuity: concrete executions (checked by kernel evaluation of the model) -/
section Examples
def exEqv : ObjEq := fun a b => a == b
def exProgs : Nat → List Op
  | 0 => [.reg { obj := ⟨"Ab", 1⟩ }, .reg { obj := ⟨"aB", 1⟩ }, .reg { obj := ⟨"Ab", 1⟩ }]
  | 1 => [.getSlot 0, .getKey "AB"]
  | _ => []
def exSched : List Nat := List.replicate 12 0 ++ [1, 1] ++ List.replicate 16 0 ++ [1, 1, 1, 1, 1]
def exState : Sys := run exEqv (init exProgs) exSched

theorem exReach : Reachable exEqv exState := reachable_run (Reachable.init exProgs) exSched

-- the hypotheses of the theorems above are satisfied by this execution
example : exState.count = 1 := by decide
example : (Op.reg { obj := ⟨"Ab", 1⟩ }, Res.slot 0) ∈ (exState.thr 0).done := by decide
example : (Op.reg { obj := ⟨"aB", 1⟩ }, Res.conflict 0) ∈ (exState.thr 0).done := by decide
example : (Op.getSlot 0, Res.atSlot 1 (some (Cell.full ⟨"Ab", 1⟩))) ∈ (exState.thr 1).done := by decide
example : (Op.getKey "AB", Res.byKey 1 (some (0, Cell.full ⟨"Ab", 1⟩))) ∈ (exState.thr 1).done := by decide
example : loadedCount ((run exEqv (init exProgs) (List.replicate 12 0 ++ [1, 1])).thr 1).pc = some 1 := by decide
example : (exState.lin.map (·.res)) = [Res.slot 0, Res.conflict 0, Res.slot 0] := by decide
example : ∃ pre post e, exState.lin = pre ++ e :: post ∧ e.res = Res.conflict 0 :=
  ⟨[⟨0, { obj := ⟨"Ab", 1⟩ }, .slot 0⟩], [⟨0, { obj := ⟨"Ab", 1⟩ }, .slot 0⟩], ⟨0, { obj := ⟨"aB", 1⟩ }, .conflict 0⟩,
    by decide, rfl⟩
example : Spec.KeysUnique [⟨"Ab", 1⟩, ⟨"c", 2⟩] := by
  intro i j oi oj hi hj hk
  match i, j with
  | 0, 0 => rfl
  | 1, 1 => rfl
  | 0, 1 => simp at hi hj; subst hi hj; revert hk; decide
  | 1, 0 => simp at hi hj; subst hi hj; revert hk; decide
  | i + 2, _ => simp at hi
  | 0, j + 2 => simp at hj
  | 1, j + 2 => simp at hj
end Examples

end MjProof.C40
