import MjProof.Lemmas.LeastSquares
/-
C46  Bounded least squares respects bounds and never gets worse (DESIGN.md §5.C46).

Property theorems only.  The model is `MjProof/Model/LeastSquares.lean` (`least_squares` and `jacobian_fd` of
`python/mujoco/minimize.py`, with the residual function, the `Norm` object and `mujoco.mju_boxQP` as
parameters), tied to the tree by the replay correspondence of `checks/c46.py`: the model, executed on `Float`
with the three oracles answering from the log of a real run, must reproduce the real run bit for bit (every
evaluation point, the trace, the regulariser, the status).

The theorems are over ℝ — for *every* residual function, `Norm` object, start point, scaling `D` and every
box-QP oracle — except `clipped_candidate_in_box_any_carrier`, which is over an arbitrary carrier.
  * Bounds theorems: since the fix "least_squares clips the candidate point to the bounds" the candidate is
    `clip(x + D·dx)`, so they need nothing from the box-QP answer but its length (no `D > 0`, no feasibility
    `dlower ≤ dx ≤ dupper`).  `candidate_in_bounds` / `candidate_in_box` (exact arithmetic: the *unclipped*
    candidate is already inside) are kept: they say the clip is the identity over ℝ.
  * `clipped_candidate_in_box_any_carrier`: on ANY carrier whose order is reflexive and total (`ClipOrder`: the
    reals, IEEE doubles without NaN) the clipped candidate is inside the box with no hypothesis on how
    `x + D·dx` was computed — this is what makes the property hold in floating point, where the unclipped
    candidate did leave the box by rounding (former finding `c46:candidate-outside-bounds-by-rounding`, fixed;
    the oracle key and the two reproduction inputs stay in `checks/c46.py` as regressions).
  * Monotonicity theorems: the box-QP answers must be descent directions `g·dx ≤ 0` (`least_squares` never
    checks it — see `accept_needs_descent`).
"Bounds wider than the finite-difference step" is made precise as: every side of the box is at least
**twice** the step `eps·max(1,|t|)` taken at any point `t` of that side (`fd_width_of_corners` gives the
checkable corner form); `fd_probe_escapes_narrow_box` shows that a box wider than one step but narrower than
two does let a probe point escape, so the factor 2 is what the code needs.
-/
namespace MjProof.C46
open MjProof MjProof.LeastSquares

/-! ### finite-difference probe points -/

/-- One coordinate: the probe `x + e` of `jacobian_fd` (backward above the mid point of the box, forward
    otherwise) stays in `[lo, hi]` if the side is at least twice the step. -/
theorem fd_probe_coordinate_in_bounds (eps lo hi x : ℝ) (heps : 0 ≤ eps) (h1 : lo ≤ x) (h2 : x ≤ hi)
    (hw : 2 * (eps * max 1 |x|) ≤ hi - lo) :
    lo ≤ x + fdStep eps (some (lo, hi)) x ∧ x + fdStep eps (some (lo, hi)) x ≤ hi :=
  fdStep_in_bounds eps lo hi x heps h1 h2 hw

example : (0 : ℝ) ≤ 1 / 100 ∧ (0 : ℝ) ≤ 9 / 10 ∧ (9 / 10 : ℝ) ≤ 1 ∧
    2 * ((1 / 100 : ℝ) * max 1 |(9 / 10 : ℝ)|) ≤ 1 - 0 := by
  refine ⟨by norm_num, by norm_num, by norm_num, ?_⟩
  rw [max_eq_left (by rw [abs_of_nonneg] <;> norm_num)]; norm_num

/-- All `n` probe points of `jacobian_fd` (the columns of `x + diag(eps_vec)`) lie in the box. -/
theorem fd_probes_in_bounds (eps : ℝ) (lo hi x : List ℝ) (hlen : lo.length = hi.length) (heps : 0 ≤ eps)
    (hx : InBox lo hi x)
    (hw : ∀ i (hl : i < lo.length) (hh : i < hi.length) (t : ℝ), lo[i] ≤ t → t ≤ hi[i] →
      2 * (eps * max 1 |t|) ≤ hi[i] - lo[i]) :
    ∀ p ∈ fdProbes x (fdSteps eps (some (lo, hi)) x), InBox lo hi p :=
  fdProbes_inBox eps lo hi x hlen heps hx hw

/-- The width hypothesis follows from a test at the two corners of each side. -/
theorem fd_width_of_corners (eps lo hi : ℝ) (heps : 0 ≤ eps)
    (h : 2 * (eps * max 1 (max |lo| |hi|)) ≤ hi - lo) (t : ℝ) (h1 : lo ≤ t) (h2 : t ≤ hi) :
    2 * (eps * max 1 |t|) ≤ hi - lo := by
  have ht : |t| ≤ max |lo| |hi| := by
    rcases abs_cases t with ⟨e, _⟩ | ⟨e, _⟩ <;> rw [e]
    · exact le_trans (le_trans h2 (le_abs_self hi)) (le_max_right _ _)
    · exact le_trans (le_trans (by linarith) (neg_le_abs lo)) (le_max_left _ _)
  have : max 1 |t| ≤ max 1 (max |lo| |hi|) := max_le_max le_rfl ht
  nlinarith [mul_le_mul_of_nonneg_left this heps]

/-- A box wider than one step but narrower than two lets a probe escape (`eps = 1`, box `[0, 3/2]`,
    `x = 7/10` is below the mid point `3/4`, the forward probe is `17/10 > 3/2`). -/
theorem fd_probe_escapes_narrow_box :
    ∃ eps lo hi x : ℝ, lo ≤ x ∧ x ≤ hi ∧ eps * max 1 |x| < hi - lo ∧ hi < x + fdStep eps (some (lo, hi)) x := by
  refine ⟨1, 0, 3 / 2, 7 / 10, by norm_num, by norm_num, ?_, ?_⟩
  · rw [max_eq_left (by rw [abs_of_nonneg] <;> norm_num)]; norm_num
  · rw [fdStep_bounded, max_eq_left (by rw [abs_of_nonneg] <;> norm_num)]
    norm_num

/-! ### the candidate -/

/-- `dlower ≤ dx ≤ dupper` with `dlower = (lo − x)/D`, `dupper = (hi − x)/D`, `D > 0` ⇒ `lo ≤ x + D·dx ≤ hi`. -/
theorem candidate_in_bounds (lo hi x D dx : ℝ) (hD : 0 < D)
    (h1 : (lo - x) / D ≤ dx) (h2 : dx ≤ (hi - x) / D) : lo ≤ x + D * dx ∧ x + D * dx ≤ hi :=
  candidate1_in_bounds lo hi x D dx hD h1 h2

example : (0 : ℝ) < 2 ∧ ((0 : ℝ) - 1) / 2 ≤ -1 / 4 ∧ (-1 / 4 : ℝ) ≤ (3 - 1) / 2 := by norm_num

/-- vector form, on the model's `dBound` and `candidate` -/
theorem candidate_in_box (lo hi x D dx : List ℝ) (hlen : lo.length = hi.length) (hDl : D.length = lo.length)
    (hD : ∀ i (h : i < D.length), 0 < D[i]) (hx : x.length = lo.length)
    (hf : Feasible (dBound lo x D) (dBound hi x D) dx) : InBox lo hi (candidate x D dx) :=
  candidate_inBox lo hi x D dx hlen hDl hD hx hf

/-- **No exact-arithmetic hypothesis.**  On any carrier `α` (any `MjNum α`, e.g. `Float`) whose order is reflexive
    and total in the sense of `ClipOrder`, the candidate as `least_squares` now computes it —
    `clip(x + D*dx, lo, hi)` — lies in the box for *every* `x`, `D`, `dx` of the right length: nothing is assumed
    about `+`, `*`, `/`, about `D > 0` or about `dx` being feasible. -/
theorem clipped_candidate_in_box_any_carrier {α : Type} [MjNum α] (O : ClipOrder α) (lo hi x D dx : List α)
    (hlen : lo.length = hi.length) (hx : x.length = lo.length) (hD : D.length = lo.length)
    (hdx : dx.length = lo.length)
    (hle : ∀ i (hl : i < lo.length) (hh : i < hi.length), lo[i] ≤ hi[i]) :
    InBoxG lo hi (clipStart (some (lo, hi)) (candidate x D dx)) :=
  clipStart_inBoxG O lo hi _ hlen (candidate_length x D dx _ hx hD hdx) hle

/-- the reals satisfy the order laws (so do IEEE doubles on non-NaN values) -/
theorem clip_order_real : ClipOrder ℝ := clipOrder_real

/-- Over ℝ the clip of the candidate is the identity when the box-QP answer is feasible and `D > 0`. -/
theorem candidate_clip_identity (lo hi x D dx : List ℝ) (hlen : lo.length = hi.length) (hDl : D.length = lo.length)
    (hD : ∀ i (h : i < D.length), 0 < D[i]) (hx : x.length = lo.length)
    (hf : Feasible (dBound lo x D) (dBound hi x D) dx) :
    clipStart (some (lo, hi)) (candidate x D dx) = candidate x D dx :=
  clipStart_of_inBox lo hi _ hlen (candidate_inBox lo hi x D dx hlen hDl hD hx hf)

/-! ### the accept rule -/

/-- The accept rule as coded (`armijo = reduction + c1·(grad·dx)`, accepted iff not `armijo < 0`): every
    accepted candidate has objective ≤ the old one, provided `c1 ≥ 0` and `grad·dx ≤ 0`. -/
theorem accept_monotone (c1 y ynew gdx : ℝ) (hc : 0 ≤ c1) (hg : gdx ≤ 0)
    (h : armijoReject c1 (y - ynew) gdx = false) : ynew ≤ y :=
  accept_monotone_scalar c1 y ynew gdx hc hg h

example : armijoReject (1 / 100 : ℝ) (1 - 1 / 2) (-1) = false := by
  simp only [armijoReject, zero_real, real_lt_iff, decide_eq_false_iff_not, not_lt]; norm_num

/-- The descent hypothesis is needed: with `grad·dx > 0` the rule as coded accepts an *increase*. -/
theorem accept_needs_descent :
    ∃ c1 y ynew gdx : ℝ, 0 ≤ c1 ∧ armijoReject c1 (y - ynew) gdx = false ∧ y < ynew := by
  refine ⟨1 / 100, 0, 1 / 200, 1, by norm_num, ?_, by norm_num⟩
  simp only [armijoReject, zero_real, real_lt_iff, decide_eq_false_iff_not, not_lt]; norm_num

/-! ### the whole run -/

/-- Every point at which `least_squares` evaluates the residual (the clipped start, all finite-difference
    probes, all clipped candidates — accepted or rejected) lies in the box; nothing is assumed about the box-QP
    answers except their length. -/
theorem residual_calls_in_bounds {Q : Problem ℝ} {lo hi : List ℝ} (B : BoxProblem Q lo hi) (x0 : List ℝ)
    (hx0 : x0.length = lo.length) : ∀ p ∈ (leastSquares Q x0).calls, InBox lo hi p :=
  (leastSquares_bounds B x0 hx0).2

/-- The returned point lies in the box (whatever the termination status). -/
theorem result_in_bounds {Q : Problem ℝ} {lo hi : List ℝ} (B : BoxProblem Q lo hi) (x0 : List ℝ)
    (hx0 : x0.length = lo.length) : InBox lo hi (leastSquares Q x0).x :=
  (leastSquares_bounds B x0 hx0).1

/-- The objectives logged in the trace (one entry per accepted step plus the final entry) are non-increasing. -/
theorem trace_nonincreasing {Q : Problem ℝ} (M : DescentProblem Q) (x0 r0 : List ℝ) (y0 : ℝ)
    (hr : Q.residual (clipStart Q.bounds x0) = some r0) (hy : Q.norm.value r0 = some y0) :
    List.Pairwise (· ≥ ·) ((leastSquares Q x0).trace.map (·.objective)) :=
  (leastSquares_mono M x0 r0 y0 hr hy).2.2.2

/-- The returned `x` comes with its residual, and its objective — like every objective in the trace — is no
    larger than the objective `y0` at the clipped start point. -/
theorem result_objective_le_start {Q : Problem ℝ} (M : DescentProblem Q) (x0 r0 : List ℝ) (y0 : ℝ)
    (hr : Q.residual (clipStart Q.bounds x0) = some r0) (hy : Q.norm.value r0 = some y0) :
    Q.residual (leastSquares Q x0).x = some (leastSquares Q x0).r ∧
    (∀ yf, Q.norm.value (leastSquares Q x0).r = some yf → yf ≤ y0) ∧
    (∀ e ∈ (leastSquares Q x0).trace, e.objective ≤ y0) :=
  let h := leastSquares_mono M x0 r0 y0 hr hy
  ⟨h.1, h.2.2.1, h.2.1⟩

/-- A start point inside the box is not moved by the clipping. -/
theorem clip_identity_inside (lo hi x0 : List ℝ) (hlen : lo.length = hi.length) (h : InBox lo hi x0) :
    clipStart (some (lo, hi)) x0 = x0 :=
  clipStart_of_inBox lo hi x0 hlen h

/-! ### non-vacuity: a concrete problem satisfying `BoxProblem` and `DescentProblem` -/

section example_problem
open Classical

/-- one variable in `[0, 1]`, residual `x ↦ x − 2`, quadratic norm, and a (crude but contract-abiding) box-QP
    oracle that answers `dx = 0` when 0 is feasible -/
noncomputable def exQ : Problem ℝ where
  P := { eps := 1 / 100, muMin := 1 / 1000000, muMax := 100000000, muFactor := 2, xtol := 0, gtol := 0,
         c1 := 1 / 100, maxIter := 3, innerFuel := 10, dmu := fun n => (1 / 2) ^ (2 ^ n) }
  bounds := some ([0], [1])
  D := [1]
  residual := fun x => some (x.map (· - 2))
  norm := { value := fun r => some (1 / 2 * dot r r),
            gradHess := fun r proj => some (proj.map (fun row => dot row r), [[1]]) }
  boxQP := fun w _ _ db =>
    match db with
    | some ([dl], [du]) => if dl ≤ 0 ∧ 0 ≤ du then some (.ok [0]) else some (.failed w)
    | _ => some (.failed w)

theorem exQ_box : BoxProblem exQ [0] [1] where
  bounds := rfl
  hlen := rfl
  hDl := rfl
  hle := by intro i hl _; simp only [List.length_singleton, Nat.lt_one_iff] at hl; subst hl; simp
  heps := by simp [exQ]
  hw := by
    intro i hl _ t h1 h2
    simp only [List.length_singleton, Nat.lt_one_iff] at hl; subst hl
    simp only [List.getElem_cons_zero] at h1 h2 ⊢
    rw [max_eq_left (by rw [abs_of_nonneg h1]; exact h2)]
    simp [exQ]; norm_num
  qp_len := by
    intro w H g dl du dx h
    simp only [exQ] at h
    match dl, du, h with
    | [a], [b], h =>
      simp only at h
      split_ifs at h with hc
      · simp only [Option.some.injEq, QPResult.ok.injEq] at h; subst h; rfl
      · simp at h
    | [], _, h => simp at h
    | _ :: _ :: _, _, h => simp at h
    | [_], [], h => simp at h
    | [_], _ :: _ :: _, h => simp at h

theorem exQ_descent : DescentProblem exQ where
  hc1 := by simp [exQ]
  descent := by
    intro w H g db dx h
    simp only [exQ] at h
    split at h
    · split_ifs at h
      · simp only [Option.some.injEq, QPResult.ok.injEq] at h; subst h
        cases g with
        | nil => simp [dot]
        | cons a t => simp [dot]
      · simp at h
    · simp at h

example : ∀ p ∈ (leastSquares exQ [5]).calls, InBox [0] [1] p :=
  residual_calls_in_bounds exQ_box [5] rfl

end example_problem

/-! ### linear residuals -/

/-- **Partial.**  If the run stops with status `G_TOL` at tolerance `gtol ≤ 0`, and the objective `f` lies above
    the linearisation built from the gradient that the code computes (finite-difference Jacobian, scaled by
    `D`, through the `Norm` object) — which is the case for a linear residual with the quadratic norm: finite
    differences are exact for affine maps and `½‖Ax − b‖²` is convex — then the returned point minimises `f`
    over the whole box (the code's stopping test *is* the KKT condition of the box-constrained problem).
    What is missing for the full claim "for linear residuals it reaches the bounded global minimum":
    (i) that the run does reach such a stop (convergence of the regularised Gauss–Newton iteration, and the
    box-QP solver actually solving its subproblem) is not proved — it is sampled against
    `scipy.optimize.lsq_linear` by the check; (ii) with the default `gtol = 1e-8` the conclusion is only
    approximate; (iii) the linearisation hypothesis is assumed, not derived from a matrix `A`. -/
theorem linear_reaches_bounded_min_partial {Q : Problem ℝ} {lo hi : List ℝ} (B : BoxProblem Q lo hi)
    (x0 : List ℝ) (hx0 : x0.length = lo.length) (hD : ∀ i (h : i < Q.D.length), 0 < Q.D[i])
    (f : List ℝ → ℝ) (hgtol : Q.P.gtol ≤ 0)
    (hstat : (leastSquares Q x0).status = .gTol)
    (hconv : ∀ x r grad, InBox lo hi x → GradAt Q x r grad →
      grad.length = lo.length ∧ ∀ z, InBox lo hi z →
        f x + dot (List.zipWith (· / ·) grad Q.D) (List.zipWith (· - ·) z x) ≤ f z) :
    ∀ z, InBox lo hi z → f (leastSquares Q x0).x ≤ f z := by
  obtain ⟨grad, hga, hstop⟩ := leastSquares_gTol Q x0 hstat
  have hx := result_in_bounds B x0 hx0
  obtain ⟨hgl, hc⟩ := hconv _ _ grad hx hga
  rw [B.bounds] at hstop
  exact kkt_global_min lo hi _ grad Q.D f B.hlen hgl B.hDl hD hx (le_trans hstop hgtol) hc

end MjProof.C46
