import MjProof.Lemmas.State
/-
C26  The state vector API is a faithful serialization.

Property theorems only.  Model: `MjProof/Model/State.lean` (generic over any table of state
elements); the concrete table `Gen.stateTable` is regenerated from `engine_support.c`, `mjtype.h`,
`mjxmacro.h` and `mjdata.h` by `translate/c26_tables.py` on every run.

All theorems are stated for an arbitrary table `t`, arbitrary model sizes `sz`, arbitrary data and an
ARBITRARY signature `sig : Int` (no enumeration of signatures): the guards `sig < 0`,
`sig ≥ 2^mjNSTATE` and the `default:` branch of the switches are part of the model and the equations
below hold on those error branches too.

`generated_table_wf` (in `Props/C26Gen.lean`, kept apart so that a source change that breaks the
table's well-formedness does not also take down the generic theorems) discharges the hypothesis `WF`
for the table of the current source tree; the comparison "size expression = allocated dimension" is syntactic on normal forms (coefficient and
multiset of size names, `SizeExpr.equiv`), which implies equality of the values for every assignment
of the model sizes (`SizeExpr.equiv_sound`) — no evaluation on sample sizes is involved.
-/
namespace MjProof.C26
open List MjProof.State

section
variable {σ φ α : Type} [DecidableEq φ] {t : Table σ φ} {sz : σ}

/-- `e` is an element of the table whose bit is set in the (valid) signature `sig` -/
def InSig (t : Table σ φ) (sig : Int) (e : Elem σ φ) : Prop :=
  e ∈ t.elems ∧ sig.toNat.testBit e.bit = true

theorem checkSig_ok {sig : Int} {s : Nat} (h : checkSig t sig = .ok s) :
    0 ≤ sig ∧ sig < 2 ^ t.nstate ∧ s = sig.toNat := by
  unfold checkSig at h
  by_cases h1 : sig < 0
  · simp [h1] at h
  · by_cases h2 : sig ≥ 2 ^ t.nstate
    · simp [h1, h2] at h
    · simp only [h1, h2, ↓reduceIte] at h
      cases h
      exact ⟨by omega, by omega, rfl⟩

theorem checkSig_of_range {sig : Int} (h0 : 0 ≤ sig) (h1 : sig < 2 ^ t.nstate) :
    checkSig t sig = .ok sig.toNat := by
  unfold checkSig
  have : ¬ sig < 0 := by omega
  have : ¬ sig ≥ 2 ^ t.nstate := by omega
  simp [*]

private theorem sel_inSig {s : Nat} {e : Elem σ φ} (h : Sel t s (List.range t.nstate) e) :
    e ∈ t.elems ∧ s.testBit e.bit = true := by
  obtain ⟨i, _, hb, hl⟩ := h
  obtain ⟨he, hbit⟩ := lookup_mem hl
  exact ⟨he, hbit ▸ hb⟩

private theorem inSig_sel (hwf : WF t) {s : Nat} {e : Elem σ φ} (he : e ∈ t.elems)
    (hb : s.testBit e.bit = true) : Sel t s (List.range t.nstate) e :=
  ⟨e.bit, List.mem_range.mpr (hwf.bits_lt e he), hb, lookup_of_mem hwf.bits_nodup he⟩

/-- **`mj_stateSize` equals the length `mj_getState` writes** — as an equation between the two
    outcomes, so it also says that both raise `mju_error` for exactly the same signatures. -/
theorem size_eq_length_getState (hwf : WF t) {d : Data φ α} (hd : Shaped t sz d) (sig : Int) :
    stateSize t sz sig = (getState t sz d sig).map List.length := by
  unfold stateSize getState
  cases checkSig t sig with
  | error x => rfl
  | ok s => exact sizeLoop_eq hwf hd s _

/-- the successful case spelled out -/
theorem size_eq_length_getState_ok (hwf : WF t) {d : Data φ α} (hd : Shaped t sz d) (sig : Int)
    {v : List α} (h : getState t sz d sig = .ok v) : stateSize t sz sig = .ok v.length := by
  rw [size_eq_length_getState hwf hd, h]; rfl

/-- **`mj_setState` after `mj_getState`**: writing the vector read from `d` into any `d'` succeeds,
    makes every component of the signature equal to that of `d`, and leaves every field that is not
    a component of the signature as it was in `d'`. -/
theorem set_get_id (hwf : WF t) (cast : α → α) {d d' : Data φ α} (hd : Shaped t sz d)
    (hd' : Shaped t sz d') (hbool : BoolOK t cast d) (sig : Int) {v : List α}
    (hg : getState t sz d sig = .ok v) :
    ∃ d'', setState t sz cast v sig d' = .ok d'' ∧
      (∀ e, InSig t sig e → d'' e.field = d e.field) ∧
      (∀ f, (∀ e, InSig t sig e → e.field ≠ f) → d'' f = d' f) := by
  unfold getState at hg
  unfold setState
  cases hc : checkSig t sig with
  | error x => rw [hc] at hg; cases hg
  | ok s =>
    rw [hc] at hg
    obtain ⟨_, _, hs⟩ := checkSig_ok hc
    obtain ⟨d'', hset, _, hsel, hfr⟩ :=
      setLoop_getLoop hwf cast hd hbool s _ List.nodup_range v d' hd' hg
    refine ⟨d'', hset, ?_, ?_⟩
    · intro e ⟨he, hb⟩
      exact hsel e (inSig_sel hwf he (hs ▸ hb))
    · intro f hf
      refine hfr f (fun e hse => ?_)
      obtain ⟨he, hb⟩ := sel_inSig hse
      exact hf e ⟨he, hs ▸ hb⟩

/-- restoring a state into the data it was read from changes nothing -/
theorem set_get_self (hwf : WF t) (cast : α → α) {d : Data φ α} (hd : Shaped t sz d)
    (hbool : BoolOK t cast d) (sig : Int) {v : List α} (hg : getState t sz d sig = .ok v) :
    setState t sz cast v sig d = .ok d := by
  obtain ⟨d'', hset, hsel, hfr⟩ := set_get_id hwf cast hd hd hbool sig hg
  rw [hset]
  congr 1
  funext f
  by_cases h : ∃ e, InSig t sig e ∧ e.field = f
  · obtain ⟨e, he, rfl⟩ := h
    exact hsel e he
  · exact hfr f (fun e he hc => h ⟨e, he, hc⟩)

/-- **frame of `mj_setState`** (any state vector, not only one produced by get):
    (1) for ANY table, a field that is not the field of a component in the signature is untouched —
        in particular every `mjData` field outside the table;
    (2) for a well-formed table, every component whose bit is NOT in the signature is untouched. -/
theorem get_set_frame (cast : α → α) (st : List α) (sig : Int) {d d' : Data φ α}
    (h : setState t sz cast st sig d = .ok d') :
    (∀ f, (∀ e, InSig t sig e → e.field ≠ f) → d' f = d f) ∧
    (WF t → ∀ e, e ∈ t.elems → sig.toNat.testBit e.bit = false → d' e.field = d e.field) := by
  unfold setState at h
  cases hc : checkSig t sig with
  | error x => rw [hc] at h; cases h
  | ok s =>
    rw [hc] at h
    obtain ⟨_, _, hs⟩ := checkSig_ok hc
    have h1 : ∀ f, (∀ e, InSig t sig e → e.field ≠ f) → d' f = d f := by
      intro f hf
      refine setLoop_frame cast s _ st d d' h f (fun e hse => ?_)
      obtain ⟨he, hb⟩ := sel_inSig hse
      exact hf e ⟨he, hs ▸ hb⟩
    refine ⟨h1, fun hwf e he hb => h1 e.field (fun e' ⟨he', hb'⟩ hc' => ?_)⟩
    have := eq_of_nodup_map (fun e => e.field) hwf.fields_nodup he' he hc'
    subst this
    rw [hb] at hb'; cases hb'

/-- consequence of the frame: reading any signature disjoint from the one that was set gives the
    same vector before and after the set -/
theorem get_after_set_disjoint (hwf : WF t) (cast : α → α) (st : List α) (sig sig' : Int)
    {d d' : Data φ α} (h : setState t sz cast st sig d = .ok d')
    (hdis : ∀ i, ¬ (sig.toNat.testBit i = true ∧ sig'.toNat.testBit i = true)) :
    getState t sz d' sig' = getState t sz d sig' := by
  have hfr := (get_set_frame cast st sig h).2 hwf
  unfold getState
  cases hc : checkSig t sig' with
  | error x => rfl
  | ok s =>
    obtain ⟨_, _, hs⟩ := checkSig_ok hc
    show getLoop t sz d' s _ = getLoop t sz d s _
    generalize List.range t.nstate = is
    induction is with
    | nil => rfl
    | cons i is ih =>
      unfold getLoop
      by_cases hb : s.testBit i = true
      · simp only [hb, ↓reduceIte]
        cases hl : t.lookup i with
        | none => rfl
        | some e =>
          obtain ⟨he, hbit⟩ := lookup_mem hl
          have : sig.toNat.testBit e.bit = false := by
            cases hx : sig.toNat.testBit e.bit with
            | false => rfl
            | true => exact absurd ⟨hx, by rw [← hs, hbit]; exact hb⟩ (hdis e.bit)
          simp only [hfr e he this, ih]
      · simp only [hb, Bool.false_eq_true, ↓reduceIte]
        exact ih

/-- **`mj_extractState` equals `mj_getState` with the sub-signature**, for `dstsig ⊆ srcsig`
    (the precondition the real function enforces). -/
theorem extract_eq_get_sub (hwf : WF t) {d : Data φ α} (hd : Shaped t sz d) (srcsig dstsig : Int)
    {v : List α} (hg : getState t sz d srcsig = .ok v) (h0 : 0 ≤ dstsig)
    (hsub : srcsig.toNat &&& dstsig.toNat = dstsig.toNat) :
    extractState t sz v srcsig dstsig = getState t sz d dstsig := by
  unfold getState at hg
  unfold extractState getState
  cases hc : checkSig t srcsig with
  | error x => rw [hc] at hg; cases hg
  | ok s =>
    rw [hc] at hg
    obtain ⟨hs0, hs1, hs⟩ := checkSig_ok hc
    subst hs
    have hlt : dstsig < 2 ^ t.nstate := by
      have h1 : dstsig.toNat ≤ srcsig.toNat := hsub ▸ Nat.and_le_left
      have h2 : (srcsig.toNat : Int) = srcsig := Int.toNat_of_nonneg hs0
      have h3 : (dstsig.toNat : Int) = dstsig := Int.toNat_of_nonneg h0
      omega
    rw [checkSig_of_range h0 hlt]
    have hneg : ¬ dstsig < 0 := by omega
    show (if dstsig < 0 then _ else if srcsig.toNat &&& dstsig.toNat ≠ dstsig.toNat then _
          else extractLoop t sz srcsig.toNat dstsig.toNat v _) = getLoop t sz d dstsig.toNat _
    simp only [hneg, ↓reduceIte, hsub, ne_eq, not_true_eq_false]
    refine extractLoop_getLoop hwf hd _ _ (fun i hi => ?_) _ v hg
    rw [← hsub, Nat.testBit_and] at hi
    exact (Bool.and_eq_true _ _ ▸ hi).1

/-- the other branch of the subset guard: `mju_error("dstsig is not a subset of srcsig")` -/
theorem extract_not_subset (v : List α) (srcsig dstsig : Int) {s : Nat}
    (hc : checkSig t srcsig = .ok s) (h : dstsig < 0 ∨ s &&& dstsig.toNat ≠ dstsig.toNat) :
    extractState t sz v srcsig dstsig = .error .notSubset := by
  unfold extractState
  rw [hc]
  show (if dstsig < 0 then _ else if s &&& dstsig.toNat ≠ dstsig.toNat then _ else _) = _
  by_cases hneg : dstsig < 0
  · simp only [hneg, ↓reduceIte]
  · rcases h with h | h
    · exact absurd h hneg
    · simp only [hneg, ↓reduceIte, ne_eq, h, not_false_eq_true]

/-- **`mj_copyState` equals get followed by set**, as an equation between outcomes (so the error
    branches coincide as well). -/
theorem copy_eq_set_get (hwf : WF t) (cast : α → α) {src dst : Data φ α} (hs : Shaped t sz src)
    (hdst : Shaped t sz dst) (hbool : BoolOK t cast src) (sig : Int) :
    copyState t sz src dst sig
      = (getState t sz src sig >>= fun v => setState t sz cast v sig dst) := by
  unfold copyState getState setState
  cases hc : checkSig t sig with
  | error x => rfl
  | ok s =>
    show copyLoop t sz src s dst _ = (getLoop t sz src s _ >>= fun v => _)
    rw [copyLoop_eq hwf cast hs hbool s _ dst hdst]
    cases getLoop t sz src s (List.range t.nstate) with
    | error x => rfl
    | ok v => rfl

/-! ### signatures with bits outside the table, negative or too large: `mju_error` -/

theorem sig_negative_error (cast : α → α) (d d' : Data φ α) (v : List α) (sig dstsig : Int)
    (h : sig < 0) :
    stateSize t sz sig = .error .sigNeg ∧ getState t sz d sig = .error .sigNeg ∧
    setState t sz cast v sig d = .error .sigNeg ∧ copyState t sz d d' sig = .error .sigNeg ∧
    extractState t sz v sig dstsig = .error .sigNeg := by
  have hc : checkSig t sig = .error .sigNeg := by unfold checkSig; simp [h]
  unfold stateSize getState setState copyState extractState
  rw [hc]
  exact ⟨rfl, rfl, rfl, rfl, rfl⟩

theorem sig_too_large_error (cast : α → α) (d d' : Data φ α) (v : List α) (sig dstsig : Int)
    (h : 2 ^ t.nstate ≤ sig) :
    stateSize t sz sig = .error .sigRange ∧ getState t sz d sig = .error .sigRange ∧
    setState t sz cast v sig d = .error .sigRange ∧ copyState t sz d d' sig = .error .sigRange ∧
    extractState t sz v sig dstsig = .error .sigRange := by
  have h0 : ¬ sig < 0 := by
    have : (0 : Int) < 2 ^ t.nstate := Int.pow_pos (by decide)
    omega
  have hc : checkSig t sig = .error .sigRange := by unfold checkSig; simp [h0, h]
  unfold stateSize getState setState copyState extractState
  rw [hc]
  exact ⟨rfl, rfl, rfl, rfl, rfl⟩

/-- a signature inside `[0, 2^mjNSTATE)` that has a bit without a `case` in the switch (possible
    only for a table that is not `WF`): every function ends in `mju_error` (the model never
    continues with a default size or pointer). -/
theorem sig_outside_table_error (cast : α → α) (d d' : Data φ α) (v : List α) (sig dstsig : Int)
    (h0 : 0 ≤ sig) (h1 : sig < 2 ^ t.nstate)
    (h : ∃ i, i < t.nstate ∧ sig.toNat.testBit i = true ∧ t.lookup i = none) :
    (∃ x, stateSize t sz sig = .error x) ∧ (∃ x, getState t sz d sig = .error x) ∧
    (∃ x, setState t sz cast v sig d = .error x) ∧ (∃ x, copyState t sz d d' sig = .error x) ∧
    (∃ x, extractState t sz v sig dstsig = .error x) := by
  have hc := checkSig_of_range (t := t) h0 h1
  obtain ⟨i, hi, hb, hl⟩ := h
  have hex : ∃ i, i ∈ List.range t.nstate ∧ sig.toNat.testBit i = true ∧ t.lookup i = none :=
    ⟨i, List.mem_range.mpr hi, hb, hl⟩
  unfold stateSize getState setState copyState extractState
  rw [hc]
  refine ⟨sizeLoop_badElem hex, getLoop_badElem hex, setLoop_badElem cast _ _ hex,
    copyLoop_badElem _ hex, ?_⟩
  show ∃ x, (if dstsig < 0 then _ else if sig.toNat &&& dstsig.toNat ≠ dstsig.toNat then _
      else extractLoop t sz sig.toNat dstsig.toNat v _) = Except.error x
  by_cases hneg : dstsig < 0
  · simp only [hneg, ↓reduceIte]; exact ⟨_, rfl⟩
  · simp only [hneg, ↓reduceIte]
    by_cases hs : sig.toNat &&& dstsig.toNat ≠ dstsig.toNat
    · rw [if_pos hs]; exact ⟨_, rfl⟩
    · rw [if_neg hs]; exact extractLoop_badElem _ hex

/-- for a well-formed table every signature in `[0, 2^mjNSTATE)` is served (no error branch) -/
theorem getState_total (hwf : WF t) {d : Data φ α} (hd : Shaped t sz d) (sig : Int)
    (h0 : 0 ≤ sig) (h1 : sig < 2 ^ t.nstate) : ∃ v, getState t sz d sig = .ok v := by
  unfold getState
  rw [checkSig_of_range h0 h1]
  exact getLoop_ok hwf hd _ _ (fun i hi => List.mem_range.mp hi)

end

/-! ### non-vacuity: a concrete hand-made instance satisfying every hypothesis
(the instance for the generated table is in `Props/C26Gen.lean`) -/

inductive ExSize | n | k deriving DecidableEq
inductive ExField | t | a | b | flags deriving DecidableEq

/-- a scalar, an `n`-vector, an `n×3` array addressed as `3*n`, and an `mjtBool` array -/
def exSym : SymTable ExSize ExField where
  nstate := 4
  elems := [
    { name := "T", bit := 0, size := [.const 1], field := .t, special := none },
    { name := "A", bit := 1, size := [.var .n], field := .a, special := none },
    { name := "B", bit := 2, size := [.const 3, .var .n], field := .b, special := none },
    { name := "F", bit := 3, size := [.var .k], field := .flags, special := some [.var .k] } ]
  alloc := fun | .t => [.const 1] | .a => [.var .n, .const 1] | .b => [.var .n, .const 3] | .flags => [.var .k, .const 1]
  isBool := fun | .flags => true | _ => false

def exTable := exSym.toTable
def exSz : ExSize → Nat := fun | .n => 2 | .k => 3
/-- `mjtNum → mjtBool → mjtNum` on integer values -/
def castInt (x : Int) : Int := if x = 0 then 0 else 1
def exD : Data ExField Int := fun | .t => [7] | .a => [10, 11] | .b => [20, 21, 22, 23, 24, 25] | .flags => [1, 0, 1]
def exD' : Data ExField Int := fun f => List.replicate (exTable.alloc f exSz) 5

example : WF exTable := SymTable.wf_sound exSym (by decide)
example : Shaped exTable exSz exD := fun f => by cases f <;> rfl
example : Shaped exTable exSz exD' := fun f => by simp [exD']
example : BoolOK exTable castInt exD := by
  intro e he hs x hx
  simp only [exTable, SymTable.toTable, exSym, List.map_cons, List.map_nil, List.mem_cons,
    List.not_mem_nil, or_false] at he
  rcases he with rfl | rfl | rfl | rfl <;> simp [SymElem.toElem] at hs
  simp [SymElem.toElem, exD] at hx
  rcases hx with rfl | rfl | rfl <;> rfl
/-- signature `A|F` (2+8): served, 5 entries, in bit order -/
example : getState exTable exSz exD 10 = .ok [10, 11, 1, 0, 1] := by rfl
example : stateSize exTable exSz 10 = .ok 5 := by rfl
/-- `srcsig = 14`, `dstsig = 10` satisfies the subset hypothesis of `extract_eq_get_sub` -/
example : (14 : Int).toNat &&& (10 : Int).toNat = (10 : Int).toNat := by decide
example : extractState exTable exSz [10, 11, 20, 21, 22, 23, 24, 25, 1, 0, 1] 14 10 = .ok [10, 11, 1, 0, 1] := by rfl
/-- the error branches are reachable -/
example : stateSize exTable exSz 16 = .error .sigRange := by rfl
example : stateSize exTable exSz (-1) = .error .sigNeg := by rfl
/-- a non-well-formed table (two elements on one field), so `WF` is a real hypothesis … -/
def badTable : Table Unit Unit :=
  { nstate := 2, alloc := fun _ _ => 1, isBool := fun _ => false,
    elems := [⟨0, fun _ => 1, (), none⟩, ⟨1, fun _ => 1, (), none⟩] }
example : ¬ WF badTable := by
  intro h; have := h.fields_nodup; simp [badTable] at this
/-- … and on it the frame property really fails: setting bit 0 changes the component of bit 1 -/
example : (setState badTable () castInt [9] 1 (fun _ => [0]) >>= fun d => getState badTable () d 2)
    = .ok [9] := by rfl

end MjProof.C26
