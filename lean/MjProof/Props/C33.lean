import MjProof.Lemmas.UserPoolStep
import MjProof.Lemmas.UserPoolRank
import MjProof.Lemmas.SpecCopy
import MjProof.Lemmas.LRSlices
/-
C33  Compilation is deterministic and copy-invariant — the asset thread pool.

Theorems about the transition-system model `Model/UserPool.lean` of `src/user/user_threadpool.{h,cc}` in the usage
pattern of the compiler (`ThreadPool pool(N); Schedule × T; WaitCount(T); ~ThreadPool()`), for every number of
workers `N ≥ 1`, every number of tasks `T` and every interleaving (`Reach`: with spurious condition-variable
wake-ups, adversarial choice of the thread woken by `notify_one`).  The compiler itself (what the mesh / texture
tasks compute) is NOT modelled: `asset_tasks_schedule_independent` is about abstract tasks that write only their
own slot.

Second part (end of the file): which elements survive the deep copy behind `mj_copySpec`
(`Model/SpecCopy.lean`: the sequence of `CopyList` calls of `mjCModel::operator+=`, each of which silently skips an
element whose references do not resolve yet).  `copy_lossless`: when the order of the `CopyList` calls is a topological
order of the reference edges between element kinds (`kindOK`, evaluated by the check on the order and the edges
extracted from the source of the tree on every run), no element is lost.

Third part: the work partition of the threaded branch of `mjCModel::LengthRange` (`Model/LRSlices.lean`): the slices of
the workers cover every actuator index exactly once (`lr_slices_partition`), so the threaded compile calls
`mj_setLengthRange` for exactly the actuators the serial loop visits.
-/
set_option linter.unusedVariables false
set_option linter.unusedSimpArgs false
namespace MjProof.C33
open MjProof.UserPool

/-- `WaitCount(T)` has returned -/
def waitReturned (m : MPc) : Prop := m = .dtor ∨ (∃ k, m = .join k) ∨ m = .done

/-- **exactly once**: in every reachable state no task body has run twice and no unscheduled task has run; once
    `WaitCount(T)` has returned (and from then on, through the destructor) every one of the `T` scheduled tasks has
    run exactly once, to completion, on exactly one worker thread `1..N` (the one that popped it). -/
theorem pool_exactly_once (N T : Nat) (hN : 1 ≤ N) (s : State) (h : Reach N T s) :
    (∀ t, s.execCnt t ≤ 1) ∧ (∀ t, s.nsched ≤ t → s.execCnt t = 0) ∧
    (waitReturned s.mpc → ∀ t, t < s.T →
        s.execCnt t = 1 ∧ s.finished t = true ∧ 1 ≤ s.execBy t ∧ s.execBy t ≤ s.N ∧ s.execBy t = s.takenBy t) := by
  have hi := (inv_reach N T hN s h).core
  refine ⟨?_, ?_, ?_⟩
  · intro t
    by_cases ht : t < s.npop
    · obtain ⟨_, hst, _⟩ := hi.task_st t ht
      rcases hst with ⟨_, h2, _⟩ | ⟨_, h2, _⟩ | ⟨_, h2⟩ <;> omega
    · have := (hi.untouched t (by omega)).1; omega
  · intro t ht
    have := hi.pop_le
    exact (hi.untouched t (by omega)).1
  · intro hw t ht
    have hp : s.mpc = .dtor ∨ postDtor s.mpc := by
      rcases hw with hw | hw | hw
      · exact Or.inl hw
      · exact Or.inr (Or.inl hw)
      · exact Or.inr (Or.inr hw)
    obtain ⟨hnp, hall⟩ := hi.past_wait hp
    have hf := hall t ht
    obtain ⟨hr, hst, hby⟩ := hi.task_st t (by omega)
    have hex : s.execCnt t = 1 := by
      rcases hst with ⟨_, _, h3⟩ | ⟨_, _, h3⟩ | ⟨_, h3⟩
      · rw [hf] at h3; simp at h3
      · rw [hf] at h3; simp at h3
      · exact h3
    have hb := hby hex
    exact ⟨hex, hf, by omega, by omega, hb⟩

example : Reach 2 3 (init 2 3) := Reach.init

/-- the state is consistent with the source-level counter: `ctr_` counts finished tasks plus exited workers, and
    `WaitCount(T)` cannot return before `T` tasks have finished -/
theorem pool_counter (N T : Nat) (hN : 1 ≤ N) (s : State) (h : Reach N T s) :
    s.ctr = s.nfin + s.nexit ∧ s.nfin ≤ s.npop ∧ s.npop ≤ s.nsched ∧ s.nsched ≤ s.T ∧
    (waitReturned s.mpc → s.npop = s.T) := by
  have hi := (inv_reach N T hN s h).core
  refine ⟨hi.ctr_eq, ?_, hi.pop_le, hi.sched_le, ?_⟩
  · rw [hi.nfin_eq]; exact sumTo_le _ _ (fun t _ => b2n_le _)
  · intro hw
    have hp : s.mpc = .dtor ∨ postDtor s.mpc := by
      rcases hw with hw | hw | hw
      · exact Or.inl hw
      · exact Or.inr (Or.inl hw)
      · exact Or.inr (Or.inr hw)
    exact (hi.past_wait hp).1

/-! ### deadlock freedom -/

theorem worker_enabled (s : State) (i : Nat) (pick : Option Nat) (hr : 1 ≤ i ∧ i ≤ s.N)
    (hw : s.w i ≠ .blocked ∧ s.w i ≠ .exited) : ∃ r, stepWorker s i pick = some r := by
  simp only [stepWorker, if_neg (fun hn : ¬ (1 ≤ i ∧ i ≤ s.N) => hn hr)]
  cases hwi : s.w i with
  | fetch =>
    cases hq : s.queue with
    | nil => exact ⟨_, rfl⟩
    | cons item rest => cases item <;> exact ⟨_, rfl⟩
  | woken =>
    cases hq : s.queue with
    | nil => exact ⟨_, rfl⟩
    | cons item rest => cases item <;> exact ⟨_, rfl⟩
  | blocked => exact absurd hwi hw.1
  | run t => exact ⟨_, rfl⟩
  | fin t => exact ⟨_, rfl⟩
  | exitInc => exact ⟨_, rfl⟩
  | exited => exact absurd hwi hw.2

/-- **deadlock freedom** (without relying on spurious wake-ups, and whichever waiter each `notify_one` wakes): until
    the destructor has returned (`done`) some thread can take a step.  In particular `WaitCount(T)` cannot block
    forever and every `join` eventually becomes enabled. -/
theorem pool_deadlock_free (N T : Nat) (hN : 1 ≤ N) (s : State) (h : ReachNS N T s) (hnd : s.mpc ≠ .done) :
    ∃ s', StepNS s s' := by
  have hinv := inv_reach N T hN s (reach_of_reachNS N T s h)
  have hi := hinv.core
  have mainStep : (∃ r, stepMain s none = some r) → ∃ s', StepNS s s' := by
    rintro ⟨r, hr⟩
    exact ⟨r.1, .main, none, r.2, Or.inl rfl, by simp [step, hr]⟩
  have workerStep : ∀ i, 1 ≤ i ∧ i ≤ s.N → s.w i ≠ .blocked ∧ s.w i ≠ .exited → ∃ s', StepNS s s' := by
    intro i hr hw
    obtain ⟨r, hr'⟩ := worker_enabled s i none hr hw
    exact ⟨r.1, .worker i, none, r.2, Or.inr ⟨i, rfl⟩, by simp [step, hr']⟩
  cases hm : s.mpc with
  | sched i => exact mainStep (by simp [stepMain, hm])
  | wait => exact mainStep (by simp only [stepMain, hm]; split <;> exact ⟨_, rfl⟩)
  | waitWoken => exact mainStep (by simp only [stepMain, hm]; split <;> exact ⟨_, rfl⟩)
  | dtor => exact mainStep (by simp [stepMain, hm])
  | done => exact absurd hm hnd
  | join k =>
    obtain ⟨hkN, _⟩ := hi.joined k hm
    by_cases hex : s.w (k + 1) = .exited
    · exact mainStep (by simp [stepMain, hm, hex])
    · have hp : postDtor s.mpc := by rw [hm]; exact post_join k
      exact workerStep (k + 1) ⟨by omega, by omega⟩ ⟨hi.post_noblock hp (k + 1) (by omega) (by omega), hex⟩
  | waitBlocked =>
    have hnp : ¬ postDtor s.mpc := by rw [hm]; exact not_post_waitBlocked
    obtain ⟨hnexit, hpre⟩ := hi.pre hnp
    -- some worker is not blocked: otherwise the queue is empty, all tasks are finished and `ctr_ ≥ T`
    by_cases hall : ∀ i, 1 ≤ i → i ≤ s.N → s.w i = .blocked
    · exfalso
      have hqe : s.queue = [] := by
        apply Classical.byContradiction
        intro hq
        obtain ⟨i, h1, h2, ha⟩ := hinv.wake hnp hq
        rw [hall i h1 h2] at ha
        rcases ha with ha | ha | ⟨t, ha⟩ | ⟨t, ha⟩ <;> simp at ha
      obtain ⟨j, hq, h0, _⟩ := hi.queue_eq
      have hj := h0 hnp
      subst hj
      rw [hqe] at hq
      have hlen := congrArg List.length hq
      simp at hlen
      have hns : s.nsched = s.T := hi.mpc_rest (by intro i hi'; rw [hm] at hi'; simp at hi')
      have hpl := hi.pop_le
      have hnpop : s.npop = s.T := by omega
      -- every popped task is finished because no worker holds one
      have hfin : ∀ t, t < s.npop → b2n (s.finished t) = 1 := by
        intro t ht
        obtain ⟨hr, hst, _⟩ := hi.task_st t ht
        rw [hall _ hr.1 hr.2] at hst
        rcases hst with ⟨h1, _⟩ | ⟨h1, _⟩ | ⟨h3, _⟩
        · simp at h1
        · simp at h1
        · simp [b2n, h3]
      have hsum : sumTo (fun t => b2n (s.finished t)) s.npop = s.npop := by
        have := sumTo_congr (fun t => b2n (s.finished t)) (fun _ => 1) s.npop hfin
        rw [this]
        clear this hfin
        generalize s.npop = n
        induction n with
        | zero => rfl
        | succ n ih => simp [sumTo, ih]
      have hctr := hi.blocked_ctr hm
      have := hi.ctr_eq
      have := hi.nfin_eq
      omega
    · have : ∃ i, 1 ≤ i ∧ i ≤ s.N ∧ s.w i ≠ .blocked := by
        apply Classical.byContradiction
        intro hne
        apply hall
        intro i h1 h2
        apply Classical.byContradiction
        intro hb
        exact hne ⟨i, h1, h2, hb⟩
      obtain ⟨i, h1, h2, hb⟩ := this
      exact workerStep i ⟨h1, h2⟩ ⟨hb, (hpre i).2⟩

example : ReachNS 2 3 (init 2 3) ∧ (init 2 3).mpc ≠ .done := ⟨ReachNS.init, by simp [init]⟩

/-- when the destructor has returned every worker thread has exited and the queue is empty -/
theorem pool_done_clean (N T : Nat) (hN : 1 ≤ N) (s : State) (h : Reach N T s) (hd : s.mpc = .done) :
    (∀ i, 1 ≤ i → i ≤ s.N → s.w i = .exited) ∧ s.queue = [] := by
  have hi := (inv_reach N T hN s h).core
  have hex := hi.alldone hd
  refine ⟨hex, ?_⟩
  have hp : postDtor s.mpc := by rw [hd]; exact post_done
  obtain ⟨j, hq, _, h1⟩ := hi.queue_eq
  have hj := h1 hp
  obtain ⟨hnp, _⟩ := hi.past_wait (Or.inr hp)
  have hns : s.nsched = s.T := hi.mpc_rest (by intro i hi'; rw [hd] at hi'; simp at hi')
  have hz : cntLive s.w s.N = 0 := by
    have : cntLive s.w s.N = cntLive (fun _ => WPc.exited) s.N :=
      cntLive_congr _ _ _ (fun i h1 h2 => by rw [hex i h1 h2])
    rw [this]
    generalize s.N = n
    induction n with
    | zero => rfl
    | succ n ih => simp [cntLive, ih, live, b2n]
  rw [hq, hj, hz]
  have : s.nsched - s.npop = 0 := by omega
  simp [this]

/-- **bounded runs** (ranking function): without spurious wake-ups every transition strictly decreases
    `rank = weight(scheduler pc) + Σ weight(worker pc) + 5·(queued tasks) + 3·(queued sentinels)`, so a run of `n` transitions from
    the initial state has `n ≤ rank (init N T) = 5N + 4 + 7T + N` — no schedule can keep the pool busy forever -/
theorem pool_bounded_runs (N T : Nat) (hN : 1 ≤ N) (n : Nat) (s : State) (h : RunNS (init N T) n s) :
    n + rank s ≤ rank (init N T) ∧ rank (init N T) ≤ 6 * N + 7 * T + 4 := by
  refine ⟨run_bound N T hN n s h, ?_⟩
  have hw : ∀ n, sumW (fun _ => WPc.fetch) n = n := by
    intro n; induction n with
    | zero => rfl
    | succ n ih => simp [sumW, ih, wcost]
  simp only [rank, init, qcost, hw]
  split
  · simp only [mcost]; omega
  · simp only [mcost]; omega

/-- **termination**: every maximal run without spurious wake-ups (one that can no longer be extended) has reached the end of
    the destructor, and there all `T` tasks have run exactly once and all workers have exited -/
theorem pool_terminates (N T : Nat) (hN : 1 ≤ N) (n : Nat) (s : State) (h : RunNS (init N T) n s)
    (hmax : ¬ ∃ s', StepNS s s') :
    s.mpc = .done ∧ (∀ t, t < s.T → s.execCnt t = 1) ∧ (∀ i, 1 ≤ i → i ≤ s.N → s.w i = .exited) := by
  have hr := reachNS_of_run N T n s h
  have hd : s.mpc = .done := by
    apply Classical.byContradiction
    intro hnd
    exact hmax (pool_deadlock_free N T hN s hr hnd)
  have hreach := reach_of_reachNS N T s hr
  refine ⟨hd, ?_, (pool_done_clean N T hN s hreach hd).1⟩
  intro t ht
  exact ((pool_exactly_once N T hN s hreach).2.2 (Or.inr (Or.inr hd)) t ht).1

example : RunNS (init 2 3) 0 (init 2 3) := RunNS.refl

/-! ### tasks that write only their own asset commute -/

theorem runTasks_swap {α : Type} (f : Nat → α → α) (i j : Nat) (l : List Nat) (a : Nat → α) :
    runTasks f (i :: j :: l) a = runTasks f (j :: i :: l) a := by
  simp only [runTasks]
  congr 1
  funext k
  by_cases hij : i = j
  · subst hij; rfl
  · by_cases hki : k = i
    · subst hki
      have : ¬ k = j := hij
      simp [this]
    · by_cases hkj : k = j
      · subst hkj
        have : ¬ k = i := hki
        have hji : ¬ i = k := fun e => hki e.symm
        simp [this, hji]
      · simp [hki, hkj]

/-- **schedule independence of asset tasks**: if task `i` only replaces slot `i` of the asset array (by a function of
    the old slot), then any two execution orders that are permutations of each other produce the same array -/
theorem asset_tasks_schedule_independent {α : Type} (f : Nat → α → α) (o₁ o₂ : List Nat) (hp : o₁.Perm o₂) (a : Nat → α) :
    runTasks f o₁ a = runTasks f o₂ a := by
  induction hp generalizing a with
  | nil => rfl
  | cons x _ ih => simp only [runTasks]; exact ih _
  | swap x y l => exact runTasks_swap f y x l a
  | trans _ _ ih1 ih2 => exact (ih1 a).trans (ih2 a)

theorem runTasks_not_mem {α : Type} (f : Nat → α → α) (o : List Nat) (a : Nat → α) (k : Nat) (hk : k ∉ o) :
    runTasks f o a k = a k := by
  induction o generalizing a with
  | nil => rfl
  | cons i rest ih =>
    simp only [runTasks]
    rw [ih _ (fun h => hk (List.mem_cons_of_mem _ h))]
    have : k ≠ i := fun e => hk (e ▸ List.mem_cons_self)
    simp [this]

theorem runTasks_mem_nodup {α : Type} (f : Nat → α → α) (o : List Nat) (hnd : o.Nodup) (a : Nat → α) (k : Nat)
    (hk : k ∈ o) : runTasks f o a k = f k (a k) := by
  induction o generalizing a with
  | nil => simp at hk
  | cons i rest ih =>
    simp only [runTasks]
    have hi_not : i ∉ rest := (List.nodup_cons.mp hnd).1
    have hnd' := (List.nodup_cons.mp hnd).2
    by_cases hki : k = i
    · subst hki
      rw [runTasks_not_mem f rest _ k hi_not]
      simp
    · have hkr : k ∈ rest := by
        rcases List.mem_cons.mp hk with h | h
        · exact absurd h hki
        · exact h
      rw [ih hnd' _ hkr]
      simp [hki]

/-- the result of any order in which every task `< T` runs exactly once: slot `i < T` is `f i` of the old slot, the
    other slots are untouched — whatever the schedule of the pool was -/
theorem asset_result_exactly_once {α : Type} (f : Nat → α → α) (o : List Nat) (T : Nat) (hnd : o.Nodup)
    (hmem : ∀ t, t ∈ o ↔ t < T) (a : Nat → α) :
    runTasks f o a = fun i => if i < T then f i (a i) else a i := by
  funext k
  by_cases hk : k ∈ o
  · rw [runTasks_mem_nodup f o hnd a k hk]
    simp [(hmem k).mp hk]
  · rw [runTasks_not_mem f o a k hk]
    have : ¬ k < T := fun h => hk ((hmem k).mpr h)
    simp [this]

example : ([2, 0, 1] : List Nat).Nodup ∧ ∀ t, t ∈ ([2, 0, 1] : List Nat) ↔ t < 3 := by
  refine ⟨by decide, fun t => ?_⟩
  simp only [List.mem_cons, List.mem_nil_iff, or_false]
  omega

/-! ### the deep copy behind `mj_copySpec` loses no element -/
section SpecCopy
open MjProof.SpecCopy

/-- what the theorem assumes about the source spec: its references use only the edges of the table, every reference
    to another kind names an element of the source, and a reference to the element's own kind names an *earlier*
    element of the same list -/
structure CopyWF (edges : List (Nat × Nat)) (src : List Elem) : Prop where
  conforms : ∀ e ∈ src, ∀ r ∈ e.refs, (e.kind, r.1) ∈ edges
  resolved : ∀ e ∈ src, ∀ r ∈ e.refs, r.1 ≠ e.kind → ∃ e' ∈ src, e'.key = r
  backward : ∀ k pre e post, ofKind src k = pre ++ e :: post → ∀ r ∈ e.refs, r.1 = k → r ∈ pre.map Elem.key

theorem copy_lossless_aux (order tree : List Nat) (edges : List (Nat × Nat)) (src : List Elem)
    (hk : kindOK order tree edges = true) (hwf : CopyWF edges src) :
    ∀ (rest done : List Nat), order = done ++ rest →
      rest.foldl (fun d k => copyList src k d) (full tree src done) = full tree src (done ++ rest) := by
  intro rest
  induction rest with
  | nil => intro done _; simp
  | cons k rest ih =>
    intro done hord
    have hstep : copyList src k (full tree src done) = full tree src (done ++ [k]) := by
      rw [full_snoc]
      unfold copyList keysOf
      apply foldl_copyElem_all
      intro pre e post hl r hr
      have hein : e ∈ ofKind src k := by rw [hl]; simp
      obtain ⟨hes, hek⟩ := mem_ofKind.mp hein
      by_cases hrk : r.1 = k
      · exact Or.inr (hwf.backward k pre e post hl r hr hrk)
      · left
        have hedge := hwf.conforms e hes r hr
        have hok := List.all_eq_true.mp hk _ hedge
        obtain ⟨e', he's, hkey⟩ := hwf.resolved e hes r hr (by rw [hek]; exact hrk)
        have hk' : e'.kind = r.1 := by rw [← hkey]; rfl
        simp only [Bool.or_eq_true] at hok
        rcases hok with (h1 | h1) | h1
        · exfalso
          apply hrk
          have : e.kind = r.1 := by simpa using h1
          rw [← this, hek]
        · have : e'.kind ∈ tree := by rw [hk']; simpa using h1
          rw [← hkey]
          exact mem_full_of_tree he's this
        · unfold before at h1
          have hb : r.1 ∈ order.takeWhile (fun x => x != e.kind) := by simpa using h1
          rw [hek, hord] at hb
          have hd := mem_takeWhile_prefix k r.1 rest done hb
          rw [← hkey]
          exact mem_full_of_done he's (by rw [hk']; exact hd)
    rw [List.foldl_cons, hstep, ih (done ++ [k]) (by simp [hord])]
    simp

/-- **the deep copy is lossless** when the `CopyList` calls are in a topological order of the reference edges between
    kinds: the destination then holds the tree elements followed by every source list, whole and in order — for every
    source spec that is well formed w.r.t. the edge table. -/
theorem copy_lossless (order tree : List Nat) (edges : List (Nat × Nat)) (src : List Elem)
    (hk : kindOK order tree edges = true) (hwf : CopyWF edges src) :
    copySpec order tree src = treeKeys tree src ++ order.flatMap (fun k => (ofKind src k).map Elem.key) := by
  have := copy_lossless_aux order tree edges src hk hwf order [] (by simp)
  unfold copySpec
  unfold full at this
  simp only [List.flatMap_nil, List.append_nil, List.nil_append] at this
  exact this

/-- every element of a copied kind is in the copy -/
theorem copy_keeps_every_element (order tree : List Nat) (edges : List (Nat × Nat)) (src : List Elem)
    (hk : kindOK order tree edges = true) (hwf : CopyWF edges src) (e : Elem) (he : e ∈ src)
    (hkind : e.kind ∈ tree ∨ e.kind ∈ order) : e.key ∈ copySpec order tree src := by
  have hfull : copySpec order tree src = full tree src order := by
    rw [copy_lossless order tree edges src hk hwf]; rfl
  rw [hfull]
  rcases hkind with h | h
  · exact mem_full_of_tree he h
  · exact mem_full_of_done he h

/-- a reference to a kind that is copied later (and is not a tree kind) makes `CopyList` drop the element: the
    condition `kindOK` is not only sufficient — this is the loss the check looks for in the real code -/
theorem copy_drops_unresolved (d : List Key) (e : Elem) (r : Key) (hr : r ∈ e.refs) (hn : r ∉ d) :
    copyElem d e = d := copyElem_drop d e r hr hn

-- non-vacuity: kinds 17 = equality, 18 = tendon, 3 = joint (tree); a tendon equality after its tendons is kept ...
example : kindOK [18, 17] [3] [(18, 3), (17, 18)] = true := by decide
example : CopyWF [(18, 3), (17, 18)] [⟨3, 1, []⟩, ⟨18, 1, [(3, 1)]⟩, ⟨17, 1, [(18, 1)]⟩] := by
  refine ⟨by decide, by decide, ?_⟩
  intro k pre e post h r hr hrk
  have hein : e ∈ ofKind [⟨3, 1, []⟩, ⟨18, 1, [(3, 1)]⟩, ⟨17, 1, [(18, 1)]⟩] k := by rw [h]; simp
  obtain ⟨hes, hek⟩ := mem_ofKind.mp hein
  simp only [List.mem_cons, List.mem_nil_iff, or_false] at hes
  rcases hes with rfl | rfl | rfl
  · simp at hr
  · simp at hr; subst hr; simp at hrk hek; omega
  · simp at hr; subst hr; simp at hrk hek; omega
example : copySpec [18, 17] [3] [⟨3, 1, []⟩, ⟨18, 1, [(3, 1)]⟩, ⟨17, 1, [(18, 1)]⟩] = [(3, 1), (18, 1), (17, 1)] := by decide
-- ... and dropped when the equalities are copied before the tendons
example : kindOK [17, 18] [3] [(18, 3), (17, 18)] = false := by decide
example : copySpec [17, 18] [3] [⟨3, 1, []⟩, ⟨18, 1, [(3, 1)]⟩, ⟨17, 1, [(18, 1)]⟩] = [(3, 1), (18, 1)] := by decide

end SpecCopy


/-! ### the threaded LengthRange visits every actuator exactly once -/
section LRSlices
open MjProof.LRSlices

/-- the per-thread count computed by the `while` loop is enough for all `n` actuators -/
theorem lr_per_thread_covers (n t : Nat) (ht : 1 ≤ t) : n ≤ perThread n t * t := by
  unfold perThread
  apply numLoop_ge
  have h1 : n + 1 ≤ n / t + (n + 1) := Nat.le_add_left _ _
  have h2 : (n + 1) * 1 ≤ (n / t + (n + 1)) * t := Nat.mul_le_mul h1 ht
  omega

/-- **partition**: for every number of actuators `n` and every number of workers `t ≥ 1`, every actuator index `j < n`
    lies in the slice of exactly one worker `i < t`; and no worker visits an index `≥ n`. -/
theorem lr_slices_partition (n t : Nat) (ht : 1 ≤ t) :
    (∀ j, j < n → ∃ i, (i < t ∧ j ∈ slice n (perThread n t) i) ∧
        ∀ i', i' < t ∧ j ∈ slice n (perThread n t) i' → i' = i) ∧
    (∀ i j, j ∈ slice n (perThread n t) i → j < n) := by
  have hcov := lr_per_thread_covers n t ht
  refine ⟨?_, ?_⟩
  · intro j hj
    have hnum : 0 < perThread n t := by
      rcases Nat.eq_zero_or_pos (perThread n t) with h | h
      · rw [h] at hcov; omega
      · exact h
    refine ⟨j / perThread n t, ⟨?_, ?_⟩, ?_⟩
    · apply Nat.div_lt_of_lt_mul
      calc j < n := hj
        _ ≤ perThread n t * t := hcov
    · rw [mem_slice]
      have h1 := Nat.div_add_mod j (perThread n t)
      have h2 := Nat.mod_lt j hnum
      have h3 : j / perThread n t * perThread n t = perThread n t * (j / perThread n t) := Nat.mul_comm _ _
      refine ⟨by omega, by omega, hj⟩
    · rintro i' ⟨_, hmem⟩
      rw [mem_slice] at hmem
      obtain ⟨h1, h2, _⟩ := hmem
      symm
      apply Nat.div_eq_of_lt_le
      · exact h1
      · have : (i' + 1) * perThread n t = i' * perThread n t + perThread n t := by
          rw [Nat.add_mul, Nat.one_mul]
        omega
  · intro i j h
    exact ((mem_slice n _ i j).mp h).2.2

example : slices 6 2 = [[0, 1, 2], [3, 4, 5]] := by decide
example : slices 7 3 = [[0, 1, 2], [3, 4, 5], [6]] := by decide
-- the partition from the count of actuators that NEED work (2 of 6) instead of from all 6 would stop at index 1:
example : (List.range 2).map (slice 6 ((2 + 2 - 1) / 2)) = [[0], [1]] := by decide

end LRSlices


end MjProof.C33
