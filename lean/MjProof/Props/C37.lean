import MjProof.Lemmas.XmlSchema
/-
C37  Model loading enforces the schema  (structure level: tags, attribute names, presence constraints,
cardinalities; the clause "never crashes / no UB for any byte string" is NOT addressed by any theorem here).

`check aliasRec s level x` is the model of `mjXSchema::Check` (Model/XmlSchema.lean, tied to src/xml/xml_util.cc and
the generated table by the differential run of checks/c37.py); `Conforms aliasRec s level x` is the declarative
conformance relation (Spec/Conform.lean).  `aliasRec = true`: children admitted by a recursive node under its name
rule (`frame`, `replicate` in a `body`) are validated against that node -- the grammar.  `aliasRec = false`: only
children whose tag equals the node's name are -- the code as it stands.  All statements are for every grammar tree,
every nesting level and every element tree.
-/
namespace MjProof.C37
open MjProof.XmlSchema

/-- The validator accepts exactly the conforming documents (variant that validates alias tags). -/
theorem check_iff_conforms (s : Node) (level : Nat) (x : Xml) :
    check true s level x = .ok () ↔ Conforms true s level x :=
  check_ok_iff_conforms true x s level

/-- The code as it stands accepts exactly the documents conforming to the weaker relation in which `frame` /
    `replicate` children are admitted without being validated. -/
theorem check_current_iff_conforms_weak (s : Node) (level : Nat) (x : Xml) :
    check false s level x = .ok () ↔ Conforms false s level x :=
  check_ok_iff_conforms false x s level

theorem recSel_mono (sname : String) (level : Nat) (k : Xml) :
    recSel false sname level k = true → recSel true sname level k = true := by
  unfold recSel
  simp only [Bool.false_eq_true, if_false, if_true, beq_iff_eq]
  intro h
  unfold nameMatch
  simp [h]

/-- The grammar implies the weaker relation: a conforming document is never rejected by the code as it stands
    ("documents that conform are not rejected for schema reasons", structure level). -/
theorem conforms_mono (x : Xml) : ∀ (s : Node) (level : Nat), Conforms true s level x → Conforms false s level x := by
  induction x using Xml.ind with
  | h name line attrs kids ih =>
    intro s level h
    cases h with
    | mk _ _ _ _ _ _ hn hat hc hrec hsub hnone hcard =>
      refine Conforms.mk s level name line attrs kids hn hat hc ?_ ?_ hnone hcard
      · intro hR k hk hsel
        exact ih k hk s (level + 1) (hrec hR k hk (recSel_mono _ _ _ hsel))
      · intro k hk sub hs
        exact ih k hk sub (level + 1) (hsub k hk sub hs)

theorem conforming_accepted_by_current_code (s : Node) (level : Nat) (x : Xml)
    (h : Conforms true s level x) : check false s level x = .ok () :=
  (check_current_iff_conforms_weak s level x).2 (conforms_mono x s level h)

/-- `x` does not exercise the hole: every child that a recursive node admits under its name rule carries the
    node's own tag (so it is validated), recursively along the validated paths. -/
inductive HoleFree : Node → Nat → Xml → Prop
  | mk (s : Node) (level : Nat) (name : String) (line : Nat) (attrs : List (String × String)) (kids : List Xml)
      (hown : s.type = 'R' → ∀ k ∈ kids, nameMatch s.name k.name (level + 1) = true → k.name = s.name)
      (hrec : s.type = 'R' → ∀ k ∈ kids, k.name = s.name → HoleFree s (level + 1) k)
      (hsub : ∀ k ∈ kids, ∀ sub, assign s.subs k.name level = some sub → HoleFree sub (level + 1) k) :
      HoleFree s level (.mk name line attrs kids)

/-- Soundness of the code as it stands, away from the hole: on documents that do not use `frame` / `replicate`
    (more precisely: `HoleFree`) it accepts exactly the conforming documents. -/
theorem check_current_iff_conforms_of_holeFree (x : Xml) :
    ∀ (s : Node) (level : Nat), HoleFree s level x →
      (check false s level x = .ok () ↔ Conforms true s level x) := by
  intro s level hf
  rw [check_current_iff_conforms_weak]
  refine ⟨?_, conforms_mono x s level⟩
  revert s level
  induction x using Xml.ind with
  | h name line attrs kids ih =>
    intro s level hf h
    cases hf with
    | mk _ _ _ _ _ _ hown hfrec hfsub =>
    cases h with
    | mk _ _ _ _ _ _ hn hat hc hrec hsub hnone hcard =>
      refine Conforms.mk s level name line attrs kids hn hat hc ?_ ?_ hnone hcard
      · intro hR k hk hsel
        have hnm : nameMatch s.name k.name (level + 1) = true := by
          simpa [recSel] using hsel
        have hname : k.name = s.name := hown hR k hk hnm
        have hsel' : recSel false s.name level k = true := by simp [recSel, hname]
        exact ih k hk s (level + 1) (hfrec hR k hk hname) (hrec hR k hk hsel')
      · intro k hk sub hs
        exact ih k hk sub (level + 1) (hfsub k hk sub hs) (hsub k hk sub hs)

/-- tags other than the three aliases are admitted by a node only under its own name -/
theorem nameMatch_eq_of_not_alias (sname ename : String) (level : Nat)
    (h : ename ≠ "worldbody" ∧ ename ≠ "frame" ∧ ename ≠ "replicate")
    (hm : nameMatch sname ename level = true) : ename = sname := by
  unfold nameMatch at hm
  simp only [Bool.or_eq_true, Bool.and_eq_true, beq_iff_eq, bne_iff_ne, ne_eq, decide_eq_true_eq] at hm
  rcases hm with ⟨hb, h1 | h2⟩ | h3
  · rcases h1 with (⟨_, hw⟩ | ⟨_, hb2⟩) | ⟨_, hf⟩
    · exact absurd hw h.1
    · rw [hb2, hb]
    · exact absurd hf h.2.1
  · exact absurd h2.2 h.2.2
  · exact h3.symm

/-! ### the hole, as a theorem: a document the code as it stands accepts although it does not conform -/

def exGeom : Node := .mk "geom" '*' ["size"] [] []
def exBody : Node := .mk "body" 'R' ["name"] [] [exGeom]
/-- `<body><frame bogus=".."><geom bogus=".."/></frame></body>` -/
def exDoc : Xml := .mk "body" 1 [] [.mk "frame" 2 [("bogus", "1")] [.mk "geom" 3 [("bogus", "2")] []]]

def accepts (r : Res) : Bool := match r with | .ok _ => true | .error _ => false

theorem accepts_iff (r : Res) : accepts r = true ↔ r = .ok () := by
  cases r with
  | error e => simp [accepts]
  | ok u => cases u; simp [accepts]

/-- Without the `HoleFree` hypothesis soundness fails: the code as it stands accepts a `frame` with an undeclared
    attribute around a `geom` with an undeclared attribute, which does not conform. -/
theorem current_code_accepts_nonconforming :
    ∃ (s : Node) (level : Nat) (x : Xml), check false s level x = .ok () ∧ ¬ Conforms true s level x := by
  refine ⟨exBody, 2, exDoc, ?_, ?_⟩
  · exact (accepts_iff _).1 (by decide)
  · rw [← check_iff_conforms, ← accepts_iff]
    decide

/-- the sub-schema lookup of the child loop is "the first child node, in grammar order, that admits the tag" -/
theorem assignIdx_iff_licenses (subs : List Node) (level : Nat) (k : Xml) (i : Nat) :
    assignIdx subs k.name level = some i ↔ Licenses subs level k i := by
  unfold assignIdx Licenses
  rw [List.findIdx?_eq_some_iff_getElem]
  constructor
  · rintro ⟨h, h1, h2⟩
    exact ⟨h, h1, fun j _ hji => by simpa using h2 j hji⟩
  · rintro ⟨h, h1, h2⟩
    exact ⟨h, h1, fun j hji => by simpa using h2 j (by omega) hji⟩

/-- presence constraints: the counting code of `CheckConstraints` decides the logical statement -/
theorem constraint_check_iff (attrs : List (String × String)) (c : Con) :
    conError attrs c = none ↔ ConHolds attrs c := conError_none_iff attrs c

/-- cardinalities: the reference-count loop decides `CardOk` for every child node -/
theorem cardinality_check_iff (subs : List Node) (level : Nat) (kids : List Xml) :
    cardError subs level kids = none ↔
      ∀ i (h : i < subs.length), CardOk subs[i].type (refcnt subs level kids i) :=
  cardError_none_iff subs level kids

/-! ### non-vacuity -/

/-- a document satisfying `HoleFree` and `Conforms true` for the example grammar -/
example : HoleFree exBody 2 (.mk "body" 1 [("name", "a")] [.mk "geom" 2 [("size", "1")] []]) := by
  refine HoleFree.mk _ _ _ _ _ _ ?_ ?_ ?_
  · intro _ k hk hm
    simp only [List.mem_singleton] at hk
    subst hk
    exact absurd hm (by decide)
  · intro _ k hk hn
    simp only [List.mem_singleton] at hk
    subst hk
    exact absurd hn (by decide)
  · intro k hk sub hs
    simp only [List.mem_singleton] at hk
    subst hk
    have : sub = exGeom := by
      have h2 : assign exBody.subs (Xml.mk "geom" 2 [("size", "1")] []).name 2 = some exGeom := by rfl
      rw [h2] at hs; exact (Option.some.inj hs).symm
    subst this
    exact HoleFree.mk _ _ _ _ _ _ (fun h => absurd h (by decide)) (fun h => absurd h (by decide))
      (fun k hk => by cases hk)

example : check false exBody 2 (.mk "body" 1 [("name", "a")] [.mk "geom" 2 [("size", "1")] []]) = .ok () :=
  (accepts_iff _).1 (by decide)

end MjProof.C37
