import MjProof.Lemmas.CTypeWf
import MjProof.Lemmas.CTypeSpell
/-
C49 (parser half): `parse_type` and `decl()` of python/mujoco/introspect, as modelled in
`Model/CType.lean` at character level (strings are lists of code points, `Str = List Nat`).

  * `parse_decl_roundtrip`   parse_type(str(t)) == t for every well-formed AST `t`
  * `parse_result_wf`        every AST that parse_type returns is well formed (or the special one)
  * `decl_parse_equiv`       for *every* string: if parse_type(s) = t then str(t) parses to t again,
                             i.e. printing a parsed declaration yields an equivalent declaration
  * `special_roundtrip`      the one special-cased function-pointer type round-trips
  * `decl_injective_on_wf`   two well-formed ASTs with the same printed form are equal

`WF` (Model/CType.lean) is exactly what the Python parser can produce: value-type names are
single-spaced words passing the `ValueType.__init__` check, none of which is `const`/`volatile`;
pointers are not `nullable` (the printer emits the word `nullable`, which the parser rejects);
arrays have at least one extent and do not directly contain an array (the printer would merge the
extents).  Extents are arbitrary integers (Python's `int()` accepts a sign).
The table half (shipped metadata = headers) is in `Props/C49Gen.lean`.
-/
namespace MjProof.C49
open MjProof.CType

/-- Printing a well-formed type and parsing the text gives the type back. -/
theorem parse_decl_roundtrip (t : CType) (h : WF t = true) : parseType (decl t) = some t := by
  obtain ⟨name, c, v, fs, rfl, hn, hok⟩ := wf_frames t h
  exact roundtrip_frames hn c v fs hok

/-- non-vacuity: `const unsigned long long (* const *[9])[3][4]`-like type is well formed -/
example : WF (.array (.pointer (.pointer (.array (.value (kw "unsigned long long") true true) [3, 4])
    false true false true) false false false false) [9]) = true := by decide

/-- The special-cased `void *(*)(void *)` value type round-trips as well. -/
theorem special_roundtrip : parseType (decl specialType) = some specialType := by decide

/-- Whatever `parse_type` returns is well formed, or is the special function-pointer type. -/
theorem parse_result_wf (s : Str) (t : CType) (h : parseType s = some t) : WF t = true ∨ t = specialType :=
  parseType_wf h

/-- For every input string: if it parses to `t`, the printed form of `t` parses to `t` again
    ("parsing any declared C type string and printing it back yields an equivalent declaration"). -/
theorem decl_parse_equiv (s : Str) (t : CType) (h : parseType s = some t) : parseType (decl t) = some t := by
  rcases parseType_wf h with hw | rfl
  · exact parse_decl_roundtrip t hw
  · exact special_roundtrip

/-- non-vacuity: a string with west const, nested parentheses and a multi-dimensional array parses -/
example : parseType (kw "int unsigned volatile long const long(**const(*const restrict*[9])[7])[3][4]") =
    some (.array (.pointer (.pointer (.array (.pointer (.pointer (.array
      (.value (kw "int unsigned long long") true true) [3, 4]) false false false false) false true false false) [7])
      false true false true) false false false false) [9]) := by decide

/-- The printer is injective on well-formed types (consequence of the round trip). -/
theorem decl_injective_on_wf (t u : CType) (ht : WF t = true) (hu : WF u = true) (h : decl t = decl u) : t = u := by
  have h1 := parse_decl_roundtrip t ht
  have h2 := parse_decl_roundtrip u hu
  rw [h] at h1
  rw [h1] at h2
  exact Option.some.inj h2

/-- Printing is idempotent through the parser: print ∘ parse ∘ print = print on accepted strings. -/
theorem decl_parse_decl (s : Str) (t u : CType) (h : parseType s = some t) (h2 : parseType (decl t) = some u) :
    decl u = decl t := by
  rw [decl_parse_equiv s t h] at h2
  rw [← Option.some.inj h2]

end MjProof.C49
