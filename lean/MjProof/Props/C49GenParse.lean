import MjProof.Model.Introspect
import MjProof.Gen.IntrospectHeaders
/-
C49 (table half, part: type spellings).  See Props/C49Gen.lean.  Split into several modules only so that lake
checks the kernel evaluations in parallel.
-/
namespace MjProof.C49
open MjProof.CType MjProof.Introspect
open MjProof.Gen

/-- Every type spelling of the headers (as clang prints it; array parameters as the header text spells
    them) parses, with the model of `type_parsing.parse_type`, to the AST the translator computed. -/
theorem header_type_strings_parse : tableParses IntrospectHeaders.typeTable = true := by decide +kernel

end MjProof.C49
