import MjProof.Lemmas.SchemaGen
import MjProof.Model.SchemaGen2
/-
C42  Schema generators faithfully translate any valid schema.

Stage-1 generators (`generate_mjcf_map`, `generate_mjcf_table`, `generate_default_table`): the model produces the bytes
in two layers -- *rows* computed from the parsed schema by recursion over its declarations (no text), then *render*.
The theorems below show that the extraction functions (parsers of the artefacts, `Model/SchemaGenExtract.lean`) recover
exactly the rows from the bytes: nothing missing, nothing extra, order, names, cardinalities, constants, default values,
kinds, lengths preserved -- for every schema, under the lexical well-formedness of the names/values that appear in the
rows (`MapWF`, `TableWF`, `DefaultWF`: no quote / newline / separator character inside an identifier or value).
Further theorems tie the rows to the declarations (`row_lists_expanded_attrs`, `kids_are_declared_children`,
`map_rows_are_declarations`, `default_values_*`).

What is NOT proved (hence `_partial`): that `parseString text = .ok s` implies the lexical well-formedness (it follows
from the token classes of the lexer -- identifiers are `[A-Za-z_][A-Za-z0-9_]*`, quoted strings contain neither `"` nor
a newline -- but the implication through the C41 parser is not formalised; the compiled driver's `xgen` op evaluates
`extract (generate s) = rows s` itself on every schema of the differential run).  The stage-2 generators (`generate_read_table`, `generate_xsd`,
`generate_dmcontrol`) are modelled byte-exactly (`Model/SchemaGen2.lean`) and tied by the differential run, but have no
extraction theorem; `generate_schema.py` (the .rst) is covered by the Python oracle only.
-/
namespace MjProof.C42
open MjProof.Schema MjProof.SchemaGen

variable {N : Nat}

/-! ## determinism: the generators are functions of the parsed schema (and of the parsed headers) -/

/-- Determinism is functional purity: equal inputs give equal bytes (or the same exception class), for all six
    modelled generators. -/
theorem generators_deterministic (s₁ s₂ : Schema N) (st₁ st₂ : Structs) (d₁ d₂ : List (Txt × Nat)) (c₁ c₂ : ReadCfg)
    (hs : s₁ = s₂) (hst : st₁ = st₂) (hd : d₁ = d₂) (hc : c₁ = c₂) :
    genMap s₁ = genMap s₂ ∧ genTable s₁ = genTable s₂ ∧ genDefault s₁ st₁ = genDefault s₂ st₂ ∧
    genRead s₁ st₁ c₁ = genRead s₂ st₂ c₂ ∧ genXsd s₁ d₁ = genXsd s₂ d₂ ∧ genDmcontrol s₁ d₁ = genDmcontrol s₂ d₂ := by
  subst hs hst hd hc
  exact ⟨rfl, rfl, rfl, rfl, rfl, rfl⟩

/-! ## `mjcf_map.h` -/

/-- The rows of the keyword-map header are the enum declarations: every enum, in declaration order, with every
    `(keyword, constant)` pair in declaration order. -/
theorem map_rows_are_declarations (s : Schema N) :
    mapRows s = s.enums.map fun e => (e.name.toList, e.items.map fun kv => (kv.1.toList, kv.2.toList)) := rfl

/-- `extract (generate s) = facts s` for `generate_mjcf_map`: parsing the generated header back yields exactly the
    declared enums with their keyword -> constant pairs (and each emitted `_sz` constant equals the number of pairs).
    Partial: the lexical hypothesis `MapWF` is assumed, not derived from `parseString`. -/
theorem map_extract_generate_partial (s : Schema N) (t : Txt) (hg : genMap s = .ok t) (hwf : MapWF (mapRows s)) :
    extractMap t = some (mapRows s) := by
  unfold genMap at hg
  split at hg
  · cases hg
  · cases hg; exact extractMap_renderMap hwf

example : MapWF [(L "coordinate", [(L "local", L "0"), (L "2d", L "mjC_2D")])] := by
  intro e he
  simp only [List.mem_cons, List.not_mem_nil, or_false] at he
  subst he
  refine ⟨by simp [L], by simp [L], ?_⟩
  intro kv hkv
  simp only [List.mem_cons, List.not_mem_nil, or_false] at hkv
  rcases hkv with rfl | rfl <;> simp [L]

/-! ## `mjcf_table.inc` -/

theorem flatNode_lines_ne_nil (i : Nat) (t : TNode) : (flatNode i t).flatMap itemLines ≠ [] := by
  cases t with
  | mk xml card attrs cons kids =>
    unfold flatNode
    rw [List.flatMap_cons]
    simp only [itemLines, List.map_cons, wrapRow]
    intro h
    exact wrapGo_ne_nil _ _ _ (List.append_eq_nil_iff.1 h).1

/-- `extract (generate s) = facts s` for `generate_mjcf_table`: scanning the generated `MJCF[]` initialisers (whatever
    the line wrapping) and the constraint array yields exactly the rows of the element walk -- `{name, cardinality,
    attributes...}`, the nesting markers, and the `(row index, kind, bundles)` triples.
    Partial: the lexical hypothesis `TableWF` is assumed, not derived from `parseString`. -/
theorem table_extract_generate_partial (s : Schema N) (t : Txt) (hg : genTable s = .ok t) :
    ∃ tree, tableTree s = .ok tree ∧
      (TableWF (flatNode 0 tree) → extractTable t = some (tableFacts (flatNode 0 tree))) := by
  unfold genTable at hg
  split at hg
  · cases hg
  · rename_i tree htree
    cases hg
    exact ⟨tree, htree, fun hwf => extractTable_renderTable hwf (flatNode_lines_ne_nil 0 tree)⟩

/-- Every row of the walk lists exactly the element's expanded attributes, in declaration order (nothing missing,
    nothing extra); in default context exactly those that survive the projection; under the element's XML tag and the
    cardinality declared by the parent. -/
theorem row_lists_expanded_attrs (s : Schema N) (name : String) (card : Txt) (project : Bool)
    (stack : List (String × Bool)) (xml c : Txt) (attrs : List Txt) (cons : List (Char × Txt)) (kids : List TNode)
    (h : visitNode s name card project stack = .ok (.mk xml c attrs cons kids)) :
    ∃ e, findElement s name = some e ∧ xml = xmlName e ∧ c = card ∧
      attrs = attrNames (if project then projectAttrs (expandedAttrs s e.members) else expandedAttrs s e.members) := by
  rw [visitNode] at h
  split at h
  · cases h
  · split at h
    · cases h
    · rename_i e he
      refine ⟨e, he, ?_⟩
      simp only at h
      split at h
      · cases h
      · split at h
        · cases h
        · split at h
          · cases h
          · cases h; exact ⟨rfl, rfl, rfl⟩

/-- Two lists related element by element. -/
inductive Pointwise {α β : Type} (R : α → β → Prop) : List α → List β → Prop where
  | nil : Pointwise R [] []
  | cons {a b as bs} : R a b → Pointwise R as bs → Pointwise R (a :: as) (b :: bs)

/-- The rows nested under a row are the walks of the listed children, one per child, in declaration order, each with
    its declared cardinality. -/
theorem kids_are_declared_children (s : Schema N) (name : String) (isDefault project : Bool)
    (stack : List (String × Bool)) (cs : List (Child N)) (ns : List TNode)
    (h : visitKids s name isDefault project stack cs = .ok ns) :
    Pointwise (fun c n =>
      visitNode s c.name (cardStr c.card) (project || (isDefault && !(startsWith c.name.toList (L "default_"))))
        (stack ++ [(name, project)]) = .ok n) cs ns := by
  induction cs generalizing ns with
  | nil =>
    rw [visitKids] at h
    cases h; exact Pointwise.nil
  | cons c cs ih =>
    rw [visitKids] at h
    split at h
    · cases h
    · rename_i n hn
      split at h
      · cases h
      · rename_i ns' hns
        cases h
        exact Pointwise.cons hn (ih ns' hns)

example : TableWF [.row 0 [L "mujoco", L "!", L "model"] [('e', L "a b|c")], .opn 0, .row 4 [L "option", L "*"] [], .blank, .cls 0] := by
  intro it hit
  simp only [List.mem_cons, List.not_mem_nil, or_false] at hit
  rcases hit with rfl | rfl | rfl | rfl | rfl <;> simp [L]

/-! ## `mjcf_default_table.inc` -/

/-- `extract (generate s) = facts s` for `generate_default_table`: parsing the generated file back yields, per emitted
    array (sorted by struct key), its name, the struct named by its index row, and its rows
    `{attr, offsetof(struct, field), kind, len, ndecl, unset, values}` exactly as collected from the schema
    (`ndecl` is checked to equal the number of values).
    Partial: the lexical hypothesis `DefaultWF` is assumed, not derived from `parseString` / the header parser. -/
theorem default_extract_generate_partial (s : Schema N) (structs : Structs) (t : Txt)
    (hg : genDefault s structs = .ok t) :
    ∃ ts, defaultTables s structs = .ok ts ∧
      (DefaultWF (sortedTables ts) → extractDefault t = some (defaultFacts ts)) := by
  unfold genDefault at hg
  split at hg
  · cases hg
  · rename_i ts hts
    cases hg
    exact ⟨ts, hts, fun hwf => extractDefault_renderDefault hwf⟩

/-- An enum default is emitted as the C constant declared for its keyword. -/
theorem default_values_enum (s : Schema N) (a : Attr N) (k : String) (e : Enum N) (kv : String × String)
    (hty : a.type = .enum) (he : a.target.bind (findEnum s) = some e) (hk : e.items.find? (fun kv => kv.1 = k) = some kv) :
    defaultValues s a (.str k) = .ok [L "(double)" ++ kv.2.toList] := by
  simp [defaultValues, hty, he, hk]

/-- A numeric vector default is emitted value by value (`repr` of each), so `ndecl` is the declared number of values. -/
theorem default_values_vec (s : Schema N) (a : Attr N) (ds : List Dbl)
    (hty : a.type = .double ∨ a.type = .float ∨ a.type = .int) :
    defaultValues s a (.vec ds) = .ok (ds.map pyRepr) ∧ (ds.map pyRepr).length = ds.length := by
  rcases hty with h | h | h <;> simp [defaultValues, h]

/-- An attribute without a declared default contributes no value: it leaves the tables unchanged or appends a row
    with `ndecl = 0` (in particular a `required` attribute, for which the validator rejects a default, never gets one). -/
theorem no_default_no_values (s : Schema N) (spec key pfx : Txt) (fields : List (Txt × Txt × Option Txt)) (st st' : DState)
    (a : Attr N) (hd : a.default = none) (h : collectAttr s spec key pfx fields st a = .ok st') :
    st'.tables = st.tables ∨
      ∃ row : DRow, row.attr = a.name.toList ∧ row.values = [] ∧ row.ndecl = 0 ∧ st'.tables = tablesAppend st.tables key row := by
  unfold collectAttr at h
  simp only [hd, Option.isNone_none, Option.isSome_none] at h
  repeat' split at h
  all_goals first
    | (cases h; exact Or.inl rfl)
    | cases h
    | skip
  · rename_i hcontra
    simp at hcontra
  · exact Or.inr ⟨_, rfl, rfl, rfl, rfl⟩

example : DefaultWF [(L "mjsGeom", [⟨L "size", L "mjsGeom", L "size", 0, L "3", false, [L "0.005", L "1.0"]⟩])] := by
  intro e he
  simp only [List.mem_cons, List.not_mem_nil, or_false] at he
  subst he
  refine ⟨by simp [L], by simp [L], by simp [L], ?_⟩
  intro r hr
  simp only [List.mem_cons, List.not_mem_nil, or_false] at hr
  subst hr
  simp [DRowWF, L]

end MjProof.C42
