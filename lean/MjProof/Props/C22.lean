import MjProof.Lemmas.Sort
import MjProof.Lemmas.SortHeap
/-
C22  Sorting and selection utilities are correct and stable.

Property theorems only.  The model is `MjProof/Model/Sort.lean` (tied to `engine_sort.h` by the
differential run of `checks/c22.py`).  All statements hold for every list length and every
comparator that is a total preorder in the C convention.
-/
namespace MjProof.C22
open List MjProof.Sort

variable {α : Type}

/-- `mjSORT` returns a permutation of its input (for *any* comparator). -/
theorem mjSort_perm (cmp : α → α → Int) (l : List α) : mjSort cmp l ~ l := by
  unfold mjSort
  have h1 : ∀ rs : List (List α), (mergePasses cmp rs).flatten ~ rs.flatten := by
    intro rs
    induction rs using mergePasses.induct cmp with
    | case1 rs hlen ih =>
      rw [mergePasses]; simp only [hlen, ↓reduceDIte]
      exact ih.trans (mergePairs_perm cmp rs)
    | case2 rs hlen => rw [mergePasses]; simp only [hlen, ↓reduceDIte]; exact Perm.refl _
  refine (h1 _).trans ?_
  have h2 : ∀ rs : List (List α), (rs.map (insertionSort cmp)).flatten ~ rs.flatten := by
    intro rs
    induction rs with
    | nil => simp
    | cons r rs ih =>
      simp only [map_cons, flatten_cons]
      refine Perm.append ?_ ih
      have e : insertionSort cmp r = (insFold cmp r []).reverse := rfl
      rw [e]
      exact (reverse_perm _).trans ((insFold_perm cmp r []).trans (by simp))
  exact (h2 _).trans (by rw [runs_flatten])

/-- Full statement: `mjSORT` is a *stable sort* — a permutation, in non-decreasing order, that keeps
    every already-ordered subsequence (in particular every pair of equal elements) in its original
    relative order.  Unbounded in the length of `l`. -/
theorem mjSort_stableSorted {cmp : α → α → Int} (h : TotalPreorder cmp) (l : List α) :
    StableSorted cmp l (mjSort cmp l) := by
  unfold mjSort
  have hi := map_insertionSort_inv h (runs l)
  rw [runs_flatten] at hi
  obtain ⟨⟨hs, hperm, hst⟩, hlen⟩ := mergePasses_inv h l _ hi
  refine ⟨hperm, ?_, hst⟩
  -- at most one run is left, and it is sorted
  match hm : mergePasses cmp ((runs l).map (insertionSort cmp)), hlen with
  | [], _ => simp
  | [r], _ =>
    have := hs r (by rw [hm]; simp)
    simpa using this
  | _ :: _ :: _, hl => simp at hl

theorem mjSort_sorted {cmp : α → α → Int} (h : TotalPreorder cmp) (l : List α) :
    (mjSort cmp l).Pairwise (fun a b => cmp a b ≤ 0) := (mjSort_stableSorted h l).2.1

/-- Equal elements keep their original order: if `a` occurs before `b` in the input and they
    compare equal-or-ordered, then `a` occurs before `b` in the output. -/
theorem mjSort_stable_pair {cmp : α → α → Int} (h : TotalPreorder cmp) (l : List α) (a b : α)
    (hab : cmp a b ≤ 0) (hsub : [a, b] <+ l) : [a, b] <+ mjSort cmp l :=
  (mjSort_stableSorted h l).2.2 [a, b] hsub (by simp [Le, hab])

/-- `_mjINSERTION_SORT` / `mju_insertionSort` / `mju_insertionSortInt`: stable sort of any array. -/
theorem insertionSort_stableSorted {cmp : α → α → Int} (h : TotalPreorder cmp) (l : List α) :
    StableSorted cmp l (insertionSort cmp l) := Sort.insertionSort_stableSorted h l

/-- The comparator `list[j] > x` of `mju_insertionSortInt` is a total preorder. -/
theorem cmpInt_totalPreorder : TotalPreorder (fun a b : Int => if a > b then 1 else 0) := by
  constructor
  · intro a b; by_cases h : a > b <;> by_cases h' : b > a <;> simp [h, h'] <;> omega
  · intro a b c; by_cases h1 : a > b <;> by_cases h2 : b > c <;> by_cases h3 : a > c <;> simp [h1, h2, h3] <;> omega

/-- `mju_insertionSortInt` returns the sorted permutation of any int array. -/
theorem insertionSortInt_sorted (l : List Int) :
    (insertionSort (fun a b : Int => if a > b then 1 else 0) l).Pairwise (· ≤ ·) ∧
    insertionSort (fun a b : Int => if a > b then 1 else 0) l ~ l := by
  obtain ⟨hp, hs, _⟩ := Sort.insertionSort_stableSorted cmpInt_totalPreorder l
  refine ⟨hs.imp ?_, hp⟩
  intro a b hab
  simp only [Le] at hab
  by_cases h : a > b
  · simp [h] at hab
  · omega

/-- `mjPARTIAL_SORT` does nothing when `k` is out of range (`k ≤ 0` or `n < k`), as the macro's guard says. -/
theorem partialSort_noop (cmp : α → α → Int) (l : List α) (k : Int) (hk : k ≤ 0 ∨ (l.length : Int) < k) :
    partialSort cmp l k = l := by
  unfold partialSort
  simp [hk]

/-- `mjPARTIAL_SORT` (heap of size `k`, scan, final insertion sort): for every array and every
    `1 ≤ k ≤ n` the first `k` outputs are the `k` smallest elements in sorted order — they are sorted,
    together with some `rest` they form a permutation of the input, and every element of `rest` is at
    least as large as each of them; the tail of the array is untouched.  Unbounded in `n` and `k`. -/
theorem partialSort_k_smallest {cmp : α → α → Int} (h : HeapCmp cmp) (l : List α) (k : Int)
    (hk1 : 1 ≤ k) (hkn : k ≤ (l.length : Int)) :
    (partialSort cmp l k).length = l.length ∧
    (partialSort cmp l k).drop k.toNat = l.drop k.toNat ∧
    ((partialSort cmp l k).take k.toNat).Pairwise (Le cmp) ∧
    ∃ rest, ((partialSort cmp l k).take k.toNat ++ rest) ~ l ∧
      ∀ x ∈ (partialSort cmp l k).take k.toNat, ∀ y ∈ rest, Le cmp x y := by
  have hcond : ¬ (k ≤ 0 ∨ (l.length : Int) < k) := by omega
  obtain ⟨kn, rfl⟩ : ∃ kn : Nat, k = (kn : Int) := ⟨k.toNat, by omega⟩
  have hkn' : kn ≤ l.length := by omega
  have hk1' : 1 ≤ kn := by omega
  simp only [Int.toNat_natCast]
  unfold partialSort
  simp only [hcond, ↓reduceIte, Int.toNat_natCast]
  -- the heap after heapify
  let b0 := (l.take kn).toArray
  have hb0 : b0.size = kn := by simp [b0, hkn']
  let start := if kn ≥ 2 then (kn - 2) / 2 + 1 else 1
  let b1 := heapify cmp b0 kn start
  have hb1 : b1.size = kn := by simp [b1, heapify_size, hb0]
  have hheap1 : Heap cmp b1 kn := by
    apply heapify_heap h kn start b0 (by omega)
    intro i hi c hc hib hcn hcc
    simp only [start] at hi
    split at hi <;> omega
  have inv0 : ScanInv cmp kn b1 (l.take kn) [] := by
    refine ⟨hb1, hheap1, ?_, by simp⟩
    simpa [b1, b0] using heapify_perm cmp kn start b0
  obtain ⟨disc, inv⟩ := scan_inv h kn (by omega) (l.drop kn) b1 (l.take kn) [] inv0
  rw [take_append_drop] at inv
  -- name the final heap
  show (insertionSort cmp (scan cmp kn b1 (l.drop kn)).toList ++ l.drop kn).length = _ ∧ _
  generalize hbf : scan cmp kn b1 (l.drop kn) = bf at inv
  obtain ⟨hp, hs, _⟩ := Sort.insertionSort_stableSorted h.toTotalPreorder bf.toList
  have hlen : (insertionSort cmp bf.toList).length = kn := by
    rw [hp.length_eq]; simpa using inv.size
  refine ⟨?_, ?_, ?_, disc, ?_, ?_⟩
  · simp [hlen]; omega
  · rw [drop_append_of_le_length (by omega)]
    simp [hlen]
  · rw [take_append_of_le_length (by omega), take_of_length_le (by omega)]
    exact hs
  · rw [take_append_of_le_length (by omega), take_of_length_le (by omega)]
    exact (hp.append_right disc).trans inv.perm
  · rw [take_append_of_le_length (by omega), take_of_length_le (by omega)]
    intro x hx y hy
    exact inv.dom y hy x (hp.mem_iff.mp hx)

/-! Non-vacuity: the key comparator used by the correspondence harness is a total preorder, and a
the theorem instantiates on it (concrete runs through the merge phase, n > 32, are executed by the
correspondence driver, where `mjSort` is compiled code). -/

def cmpKey (a b : Int × Nat) : Int := if a.1 < b.1 then -1 else if a.1 > b.1 then 1 else 0

theorem cmpKey_totalPreorder : TotalPreorder cmpKey := by
  constructor
  · intro a b; unfold cmpKey; split <;> split <;> (try split) <;> (try split) <;> omega
  · intro a b c; unfold cmpKey; intro h1 h2
    split at h1 <;> split at h2 <;> (try split at h1) <;> (try split at h2) <;> split <;> (try split) <;> omega

theorem cmpKey_heapCmp : HeapCmp cmpKey := by
  refine { toTotalPreorder := cmpKey_totalPreorder, antisym := ?_ }
  intro a b; unfold cmpKey
  split <;> split <;> (try split) <;> (try split) <;> omega

example (l : List (Int × Nat)) (k : Int) (h1 : 1 ≤ k) (h2 : k ≤ l.length) :
    ((partialSort cmpKey l k).take k.toNat).Pairwise (Le cmpKey) :=
  (partialSort_k_smallest cmpKey_heapCmp l k h1 h2).2.2.1

/-- the hypotheses are satisfiable: the theorem applies to the harness comparator on every list -/
example (l : List (Int × Nat)) : StableSorted cmpKey l (mjSort cmpKey l) :=
  mjSort_stableSorted cmpKey_totalPreorder l

end MjProof.C22
