import MjProof.Lemmas.Sort
/-
C22  Sorting and selection utilities are correct and stable.

Property theorems only.  The model is `MjProof/Model/Sort.lean` (tied to `engine_sort.h` by the
differential run of `checks/c22.py`).  All statements hold for every list length and every
comparator that is a total preorder in the C convention.
-/
namespace MjProof.C22
open List MjProof.Sort

variable {α : Type}

/-- `mjSORT` returns a permutation of its input (for *any* comparator). -/
theorem mjSort_perm (cmp : α → α → Int) (l : List α) : mjSort cmp l ~ l := by
  unfold mjSort
  have h1 : ∀ rs : List (List α), (mergePasses cmp rs).flatten ~ rs.flatten := by
    intro rs
    induction rs using mergePasses.induct cmp with
    | case1 rs hlen ih =>
      rw [mergePasses]; simp only [hlen, ↓reduceDIte]
      exact ih.trans (mergePairs_perm cmp rs)
    | case2 rs hlen => rw [mergePasses]; simp only [hlen, ↓reduceDIte]; exact Perm.refl _
  refine (h1 _).trans ?_
  have h2 : ∀ rs : List (List α), (rs.map (insertionSort cmp)).flatten ~ rs.flatten := by
    intro rs
    induction rs with
    | nil => simp
    | cons r rs ih =>
      simp only [map_cons, flatten_cons]
      refine Perm.append ?_ ih
      have e : insertionSort cmp r = (insFold cmp r []).reverse := rfl
      rw [e]
      exact (reverse_perm _).trans ((insFold_perm cmp r []).trans (by simp))
  exact (h2 _).trans (by rw [runs_flatten])

/-- Full statement: `mjSORT` is a *stable sort* — a permutation, in non-decreasing order, that keeps
    every already-ordered subsequence (in particular every pair of equal elements) in its original
    relative order.  Unbounded in the length of `l`. -/
theorem mjSort_stableSorted {cmp : α → α → Int} (h : TotalPreorder cmp) (l : List α) :
    StableSorted cmp l (mjSort cmp l) := by
  unfold mjSort
  have hi := map_insertionSort_inv h (runs l)
  rw [runs_flatten] at hi
  obtain ⟨⟨hs, hperm, hst⟩, hlen⟩ := mergePasses_inv h l _ hi
  refine ⟨hperm, ?_, hst⟩
  -- at most one run is left, and it is sorted
  match hm : mergePasses cmp ((runs l).map (insertionSort cmp)), hlen with
  | [], _ => simp
  | [r], _ =>
    have := hs r (by rw [hm]; simp)
    simpa using this
  | _ :: _ :: _, hl => simp at hl

theorem mjSort_sorted {cmp : α → α → Int} (h : TotalPreorder cmp) (l : List α) :
    (mjSort cmp l).Pairwise (fun a b => cmp a b ≤ 0) := (mjSort_stableSorted h l).2.1

/-- Equal elements keep their original order: if `a` occurs before `b` in the input and they
    compare equal-or-ordered, then `a` occurs before `b` in the output. -/
theorem mjSort_stable_pair {cmp : α → α → Int} (h : TotalPreorder cmp) (l : List α) (a b : α)
    (hab : cmp a b ≤ 0) (hsub : [a, b] <+ l) : [a, b] <+ mjSort cmp l :=
  (mjSort_stableSorted h l).2.2 [a, b] hsub (by simp [Le, hab])

/-- `_mjINSERTION_SORT` / `mju_insertionSort` / `mju_insertionSortInt`: stable sort of any array. -/
theorem insertionSort_stableSorted {cmp : α → α → Int} (h : TotalPreorder cmp) (l : List α) :
    StableSorted cmp l (insertionSort cmp l) := Sort.insertionSort_stableSorted h l

/-- The comparator `list[j] > x` of `mju_insertionSortInt` is a total preorder. -/
theorem cmpInt_totalPreorder : TotalPreorder (fun a b : Int => if a > b then 1 else 0) := by
  constructor
  · intro a b; by_cases h : a > b <;> by_cases h' : b > a <;> simp [h, h'] <;> omega
  · intro a b c; by_cases h1 : a > b <;> by_cases h2 : b > c <;> by_cases h3 : a > c <;> simp [h1, h2, h3] <;> omega

/-- `mju_insertionSortInt` returns the sorted permutation of any int array. -/
theorem insertionSortInt_sorted (l : List Int) :
    (insertionSort (fun a b : Int => if a > b then 1 else 0) l).Pairwise (· ≤ ·) ∧
    insertionSort (fun a b : Int => if a > b then 1 else 0) l ~ l := by
  obtain ⟨hp, hs, _⟩ := Sort.insertionSort_stableSorted cmpInt_totalPreorder l
  refine ⟨hs.imp ?_, hp⟩
  intro a b hab
  simp only [Le] at hab
  by_cases h : a > b
  · simp [h] at hab
  · omega

/-! Non-vacuity: the key comparator used by the correspondence harness is a total preorder, and a
the theorem instantiates on it (concrete runs through the merge phase, n > 32, are executed by the
correspondence driver, where `mjSort` is compiled code). -/

def cmpKey (a b : Int × Nat) : Int := if a.1 < b.1 then -1 else if a.1 > b.1 then 1 else 0

theorem cmpKey_totalPreorder : TotalPreorder cmpKey := by
  constructor
  · intro a b; unfold cmpKey; split <;> split <;> (try split) <;> (try split) <;> omega
  · intro a b c; unfold cmpKey; intro h1 h2
    split at h1 <;> split at h2 <;> (try split at h1) <;> (try split at h2) <;> split <;> (try split) <;> omega

/-- the hypotheses are satisfiable: the theorem applies to the harness comparator on every list -/
example (l : List (Int × Nat)) : StableSorted cmpKey l (mjSort cmpKey l) :=
  mjSort_stableSorted cmpKey_totalPreorder l

end MjProof.C22
