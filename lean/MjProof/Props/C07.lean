import MjProof.Model.Kinematics
import MjProof.Lemmas.DofChain
import MjProof.Lemmas.Spatial
import MjProof.Props.C24
import Mathlib.Analysis.SpecialFunctions.Trigonometric.Deriv
import Mathlib.Tactic.LinearCombination
import Mathlib.Tactic.FieldSimp
/-
C07 — Kinematics and Jacobians are consistent with positions (DESIGN.md §5.C07).

Property theorems, over ℝ, about the executable forward-kinematics model (`MjProof/Model/Kinematics.lean`, assembled
from the quaternion kernels generated from the C sources; tied to `mj_kinematics` by the bitwise differential of
checks/c07.py):
  * `quat2Mat_proper`, `fk_frames_proper`, `local2Global_proper` — every body frame produced from unit joint
    quaternions (any tree, any joint stack, any configuration) has a unit quaternion, its matrix is the matrix of
    that quaternion and a proper rotation; the same for inertial / geom / site / camera frames of `mj_local2Global`;
  * `hinge_column_is_derivative`, `slide_column_is_derivative` — the single-joint Jacobian columns are the derivatives
    of the position of a body-fixed point with respect to the joint coordinate (`HasDerivAt`), with exactly the
    `xaxis` / `xanchor` that `mj_kinematics` stores;
  * `differentiate_integrate_*` — `mj_differentiatePos` inverts `mj_integratePos` (slide / hinge exactly; ball / free
    `_partial` under the no-wrap conditions of `C24.subQuat_quatIntegrate`).
  * `local2Global_shortcut_exact` — in each of the five `mjtSameFrame` classes, in the position and in the orientation
    switch, the shortcut taken by `mj_local2Global` returns exactly `xpos + xmat * pos` and the matrix of `xquat * quat`
    whenever the class is legitimate for the object;
  * `mergeChain_sorted`, `mergeChain_mem`, `mergeChain_skipcommon_mem`, `bodyChain_mem` — the sparse dof chains of
    `mj_mergeChain` / `mj_bodyChain` (`MjProof/Model/DofChain.lean`, tied to the C functions by exact integer
    correspondence) are strictly increasing and contain exactly the dofs that move either body, resp. with
    `flg_skipcommon` exactly the dofs that move one body and not the other; `common_dof_column_difference` — on a dof
    shared by both bodies the two point-Jacobian columns of `mj_jacSparse` differ by `ω × (pos2 − pos1)`, i.e. dropping the
    shared dofs from a sparse row is lossless exactly when the two points coincide (contacts) or the dof is translational;
Not proved here (decided by the oracle of checks/c07.py on the real engine): the whole-tree chain rule (every
Jacobian entry point = derivative along `mj_integratePos`), `cvel = J qvel`, `mj_jacDot`.
-/
set_option linter.unusedSimpArgs false
set_option linter.unusedVariables false
open MjProof MjProof.Gen MjProof.Kinematics MjProof.Spatial

namespace MjProof.C07


/-- proper rotation: orthogonal with determinant 1 (row-major 3×3) -/
def IsRot (m : M9 ℝ) : Prop := matMul m (matT m) = matOne ∧ matMul (matT m) m = matOne ∧ matDet m = 1

theorem quat2Mat_proper (q : Q4 ℝ) (h : normSq4 q = 1) : IsRot (Kinematics.quat2Mat q) := by
  obtain ⟨q0, q1, q2, q3⟩ := q
  simp only [normSq4] at h
  simp only [IsRot, Kinematics.quat2Mat, mju_quat2Mat_eq, matF, matMul, matT, matDet, matOne, Prod.mk.injEq]
  refine ⟨⟨?_, ?_, ?_, ?_, ?_, ?_, ?_, ?_, ?_⟩, ⟨?_, ?_, ?_, ?_, ?_, ?_, ?_, ?_, ?_⟩, ?_⟩
  all_goals first
    | linear_combination (q0*q0 + q1*q1 + q2*q2 + q3*q3 + 1) * h
    | linear_combination (0 : ℝ) * h
    | linear_combination ((q0*q0 + q1*q1 + q2*q2 + q3*q3)^2 + (q0*q0 + q1*q1 + q2*q2 + q3*q3) + 1) * h

theorem mulQuat_normSq (a b : Q4 ℝ) : normSq4 (Kinematics.mulQuat a b) = normSq4 a * normSq4 b := by
  obtain ⟨a0, a1, a2, a3⟩ := a; obtain ⟨b0, b1, b2, b3⟩ := b
  simp only [Kinematics.mulQuat, mju_mulQuat_eq, normSq4]; ring

theorem normalize4_unit (q : Q4 ℝ) (h : normSq4 q = 1) : Kinematics.normalize4 q = q := by
  obtain ⟨q0, q1, q2, q3⟩ := q
  simp only [normSq4] at h
  simp only [Kinematics.normalize4, mju_normalize4_of_unit q0 q1 q2 q3 h]

theorem axisAngle2Quat_unit (ax : V3 ℝ) (t : ℝ) (h : normSq3 ax = 1) :
    normSq4 (Kinematics.axisAngle2Quat ax t) = 1 := by
  obtain ⟨x0, x1, x2⟩ := ax
  simp only [normSq3] at h
  simp only [Kinematics.axisAngle2Quat, mju_axisAngle2Quat_eq, normSq4]
  have := Real.sin_sq_add_cos_sq (t * (1/2))
  linear_combination (Real.sin (t * (1/2)))^2 * h + this


/-! ### forward kinematics produces proper frames -/

/-- hypotheses on the data: unit joint quaternions (free / ball), unit hinge axes -/
def JointWF (j : Joint ℝ) : Prop :=
  match j.jq with
  | .free _ q => normSq4 q = 1
  | .ball q => normSq4 q = 1
  | .hinge _ _ => normSq3 j.axis = 1
  | .slide _ _ => True

/-- … and a unit body (or mocap) quaternion -/
def BodyWF (b : Body ℝ) : Prop := normSq4 b.quat = 1 ∧ ∀ j ∈ b.joints, JointWF j

/-- a frame is good when its quaternion is unit and its matrix is the matrix of its quaternion -/
def Good (f : Frame ℝ) : Prop := normSq4 f.quat = 1 ∧ f.mat = Kinematics.quat2Mat f.quat

theorem Good.isRot {f : Frame ℝ} (h : Good f) : IsRot f.mat := by
  rw [h.2]; exact quat2Mat_proper _ h.1

theorem jointStep_unit (xpos : V3 ℝ) (xquat : Q4 ℝ) (j : Joint ℝ) (hq : normSq4 xquat = 1) (hj : JointWF j)
    (r : (V3 ℝ × Q4 ℝ) × (V3 ℝ × V3 ℝ)) (h : jointStep xpos xquat j = some r) : normSq4 r.1.2 = 1 := by
  unfold jointStep at h
  unfold JointWF at hj
  cases hjq : j.jq with
  | free p q => simp [hjq] at h
  | ball q =>
    simp only [hjq] at h hj
    simp only [Option.some.injEq] at h
    subst h
    simp only []
    rw [mulQuat_normSq, hq, normalize4_unit q hj, hj]; norm_num
  | slide x x0 =>
    simp only [hjq, Option.some.injEq] at h
    subst h; exact hq
  | hinge x x0 =>
    simp only [hjq] at h hj
    simp only [Option.some.injEq] at h
    subst h
    simp only []
    rw [mulQuat_normSq, hq, axisAngle2Quat_unit _ _ hj]; norm_num

theorem jointLoop_unit : ∀ (js : List (Joint ℝ)) (xpos : V3 ℝ) (xquat : Q4 ℝ), normSq4 xquat = 1 →
    (∀ j ∈ js, JointWF j) → ∀ r, jointLoop xpos xquat js = some r → normSq4 r.1.2 = 1 := by
  intro js
  induction js with
  | nil =>
    intro xpos xquat hq _ r h
    simp only [jointLoop, Option.some.injEq] at h
    subst h; exact hq
  | cons j js ih =>
    intro xpos xquat hq hw r h
    simp only [jointLoop] at h
    cases h1 : jointStep xpos xquat j with
    | none => simp [h1] at h
    | some s1 =>
      obtain ⟨pq, a⟩ := s1
      simp only [h1, Option.bind_eq_bind, Option.bind_some] at h
      cases h2 : jointLoop pq.1 pq.2 js with
      | none => simp [h2] at h
      | some s2 =>
        obtain ⟨pq', as⟩ := s2
        simp only [h2, Option.bind_some, Option.pure_def, Option.some.injEq] at h
        subst h
        have hu := jointStep_unit xpos xquat j hq (hw j (List.mem_cons_self ..)) _ h1
        exact ih pq.1 pq.2 hu (fun j' hj' => hw j' (List.mem_cons_of_mem _ hj')) (pq', as) h2

theorem startPose_unit (frames : Array (Frame ℝ)) (b : Body ℝ) (hf : ∀ f ∈ frames, Good f) (hb : normSq4 b.quat = 1)
    (s : V3 ℝ × Q4 ℝ) (h : startPose frames b = some s) : normSq4 s.2 = 1 := by
  have hbq : normSq4 (if b.mocap then Kinematics.normalize4 b.quat else b.quat) = 1 := by
    split
    · rw [normalize4_unit _ hb]; exact hb
    · exact hb
  unfold startPose at h
  simp only [] at h
  split at h
  · simp only [Option.some.injEq] at h
    subst h; exact hbq
  · cases hp : frames[b.parent]? with
    | none => simp [hp] at h
    | some pf =>
      simp only [hp, Option.map_some, Option.some.injEq] at h
      subst h
      simp only []
      rw [mulQuat_normSq, hbq, (hf pf (Array.mem_of_getElem? hp)).1]; norm_num

theorem regularBody_good (frames : Array (Frame ℝ)) (b : Body ℝ) (hf : ∀ f ∈ frames, Good f) (hb : BodyWF b)
    (o : BodyOut ℝ) (h : regularBody frames b = some o) : Good o.frame := by
  unfold regularBody at h
  simp only [Option.bind_eq_bind, Option.pure_def] at h
  cases h0 : startPose frames b with
  | none => simp [h0] at h
  | some s =>
    simp only [h0, Option.bind_some] at h
    cases h1 : jointLoop s.1 s.2 b.joints with
    | none => simp [h1] at h
    | some r =>
      simp only [h1, Option.bind_some, Option.some.injEq] at h
      subst h
      have hu := jointLoop_unit b.joints s.1 s.2 (startPose_unit frames b hf hb.1 s h0) hb.2 r h1
      refine ⟨?_, ?_⟩
      · simp only []; rw [normalize4_unit _ hu]; exact hu
      · rfl

theorem bodyFK_good (frames : Array (Frame ℝ)) (b : Body ℝ) (hf : ∀ f ∈ frames, Good f) (hb : BodyWF b)
    (o : BodyOut ℝ) (h : bodyFK frames b = some o) : Good o.frame := by
  unfold bodyFK at h
  split at h
  · rename_i ps ax p q hjs
    simp only [Option.some.injEq] at h
    subst h
    have hq : normSq4 q = 1 := by
      have := hb.2 _ (by rw [hjs]; exact List.mem_singleton_self _)
      simpa [JointWF] using this
    refine ⟨?_, rfl⟩
    simp only [freeBody]
    rw [normalize4_unit q hq, normalize4_unit q hq]; exact hq
  · exact regularBody_good frames b hf hb o h

theorem fkLoop_good : ∀ (bs : List (Body ℝ)) (frames : Array (Frame ℝ)), (∀ f ∈ frames, Good f) →
    (∀ b ∈ bs, BodyWF b) → ∀ outs, fkLoop frames bs = some outs → ∀ o ∈ outs, Good o.frame := by
  intro bs
  induction bs with
  | nil =>
    intro frames _ _ outs h o ho
    simp only [fkLoop, Option.some.injEq] at h
    subst h; simp at ho
  | cons b bs ih =>
    intro frames hf hb outs h o ho
    simp only [fkLoop, Option.bind_eq_bind, Option.pure_def] at h
    cases h1 : bodyFK frames b with
    | none => simp [h1] at h
    | some o1 =>
      simp only [h1, Option.bind_some] at h
      cases h2 : fkLoop (frames.push o1.frame) bs with
      | none => simp [h2] at h
      | some rest =>
        simp only [h2, Option.bind_some, Option.some.injEq] at h
        subst h
        have g1 := bodyFK_good frames b hf (hb b (List.mem_cons_self ..)) o1 h1
        rcases List.mem_cons.1 ho with rfl | ho
        · exact g1
        · refine ih (frames.push o1.frame) ?_ (fun b' hb' => hb b' (List.mem_cons_of_mem _ hb')) rest h2 o ho
          intro f hf'
          rcases Array.mem_push.1 hf' with hf' | rfl
          · exact hf f hf'
          · exact g1

theorem worldFrame_good : Good (worldFrame : Frame ℝ) := by
  simp only [Good, worldFrame, unit4, eye9, normSq4, Kinematics.quat2Mat, mju_quat2Mat_eq, matF, real_ofInt]
  norm_num

/-- **every frame produced by forward kinematics from unit joint quaternions is a proper rotation equal to its
quaternion** -/
theorem fk_frames_proper (bodies : List (Body ℝ)) (hb : ∀ b ∈ bodies, BodyWF b) (outs : List (BodyOut ℝ))
    (h : fk bodies = some outs) :
    ∀ o ∈ outs, normSq4 o.frame.quat = 1 ∧ o.frame.mat = Kinematics.quat2Mat o.frame.quat ∧ IsRot o.frame.mat := by
  intro o ho
  have g : Good o.frame := by
    refine fkLoop_good bodies #[worldFrame] ?_ hb outs h o ho
    intro f hf
    have : f = worldFrame := by simpa using hf
    rw [this]; exact worldFrame_good
  exact ⟨g.1, g.2, g.isRot⟩


/-! ### single-joint Jacobian columns are derivatives -/


def cross3 (a b : V3 ℝ) : V3 ℝ := (a.2.1 * b.2.2 - a.2.2 * b.2.1, a.2.2 * b.1 - a.1 * b.2.2, a.1 * b.2.1 - a.2.1 * b.1)

/-- for a unit quaternion `mju_rotVecQuat` is multiplication by `mju_quat2Mat` -/
theorem rot_eq_mat (v : V3 ℝ) (q : Q4 ℝ) (h : normSq4 q = 1) :
    Kinematics.rotVecQuat v q = Kinematics.mulMatVec3 (Kinematics.quat2Mat q) v := by
  obtain ⟨v0, v1, v2⟩ := v; obtain ⟨q0, q1, q2, q3⟩ := q
  simp only [normSq4] at h
  simp only [Kinematics.rotVecQuat, Kinematics.mulMatVec3, Kinematics.quat2Mat, mju_rotVecQuat_eq, rotF,
    mju_quat2Mat_eq, matF, mju_mulMatVec3_eq, Prod.mk.injEq]
  refine ⟨?_, ?_, ?_⟩
  · linear_combination (-v0) * h
  · linear_combination (-v1) * h
  · linear_combination (-v2) * h

/-- the matrix of a product is the product of the matrices, applied to a vector -/
theorem mat_mulQuat_vec (a b : Q4 ℝ) (v : V3 ℝ) :
    Kinematics.mulMatVec3 (Kinematics.quat2Mat (Kinematics.mulQuat a b)) v =
      Kinematics.mulMatVec3 (Kinematics.quat2Mat a) (Kinematics.mulMatVec3 (Kinematics.quat2Mat b) v) := by
  obtain ⟨v0, v1, v2⟩ := v; obtain ⟨a0, a1, a2, a3⟩ := a; obtain ⟨b0, b1, b2, b3⟩ := b
  simp only [Kinematics.mulMatVec3, Kinematics.quat2Mat, Kinematics.mulQuat, mju_quat2Mat_eq, matF, mju_mulQuat_eq,
    mju_mulMatVec3_eq, Prod.mk.injEq]
  refine ⟨?_, ?_, ?_⟩ <;> ring

/-- derivative of a quadratic form in `cos(φ/2), sin(φ/2)`, `φ = t - x0` -/
theorem hasDerivAt_quad (A B C x0 θ : ℝ) :
    HasDerivAt (fun t => A * Real.cos ((t - x0) * (1/2)) ^ 2 + B * (Real.cos ((t - x0) * (1/2)) * Real.sin ((t - x0) * (1/2)))
        + C * Real.sin ((t - x0) * (1/2)) ^ 2)
      (-A * (Real.cos ((θ - x0) * (1/2)) * Real.sin ((θ - x0) * (1/2)))
        + B * ((Real.cos ((θ - x0) * (1/2)) ^ 2 - Real.sin ((θ - x0) * (1/2)) ^ 2) * (1/2))
        + C * (Real.cos ((θ - x0) * (1/2)) * Real.sin ((θ - x0) * (1/2)))) θ := by
  have hφ : HasDerivAt (fun t : ℝ => (t - x0) * (1/2)) (1/2) θ := by
    have := ((hasDerivAt_id θ).sub_const x0).mul_const (1/2 : ℝ)
    simpa using this
  have hc := hφ.cos
  have hs := hφ.sin
  have h := (((hc.pow 2).const_mul A).add ((hc.mul hs).const_mul B)).add ((hs.pow 2).const_mul C)
  have h2 : HasDerivAt (fun t => A * Real.cos ((t - x0) * (1/2)) ^ 2 + B * (Real.cos ((t - x0) * (1/2)) * Real.sin ((t - x0) * (1/2)))
        + C * Real.sin ((t - x0) * (1/2)) ^ 2) _ θ := h
  refine h2.congr_deriv ?_
  norm_num
  ring


/-- rotation matrices of unit quaternions preserve the cross product; for every quaternion:
`(R x) × (R y) = |q|² R (x × y)` -/
theorem cross_mat (q : Q4 ℝ) (x y : V3 ℝ) :
    cross3 (Kinematics.mulMatVec3 (Kinematics.quat2Mat q) x) (Kinematics.mulMatVec3 (Kinematics.quat2Mat q) y) =
      Kinematics.mulMatVec3 (Kinematics.quat2Mat q)
        (normSq4 q * (cross3 x y).1, normSq4 q * (cross3 x y).2.1, normSq4 q * (cross3 x y).2.2) := by
  obtain ⟨q0, q1, q2, q3⟩ := q; obtain ⟨x0, x1, x2⟩ := x; obtain ⟨y0, y1, y2⟩ := y
  simp only [cross3, Kinematics.mulMatVec3, Kinematics.quat2Mat, mju_quat2Mat_eq, matF, mju_mulMatVec3_eq, normSq4,
    Prod.mk.injEq]
  refine ⟨?_, ?_, ?_⟩ <;> ring

/-- `R(axisAngle(ax, t - x0)) w`, written as quadratic forms in `c = cos((t-x0)/2)`, `s = sin((t-x0)/2)` -/
noncomputable def uvec (ax w : V3 ℝ) (x0 t : ℝ) : V3 ℝ :=
  let c := Real.cos ((t - x0) * (1/2)); let s := Real.sin ((t - x0) * (1/2))
  (w.1 * c ^ 2 + (2 * (ax.2.1 * w.2.2 - ax.2.2 * w.2.1)) * (c * s)
      + ((ax.1^2 - ax.2.1^2 - ax.2.2^2) * w.1 + 2 * ax.1 * ax.2.1 * w.2.1 + 2 * ax.1 * ax.2.2 * w.2.2) * s ^ 2,
   w.2.1 * c ^ 2 + (2 * (ax.2.2 * w.1 - ax.1 * w.2.2)) * (c * s)
      + (2 * ax.1 * ax.2.1 * w.1 + (-ax.1^2 + ax.2.1^2 - ax.2.2^2) * w.2.1 + 2 * ax.2.1 * ax.2.2 * w.2.2) * s ^ 2,
   w.2.2 * c ^ 2 + (2 * (ax.1 * w.2.1 - ax.2.1 * w.1)) * (c * s)
      + (2 * ax.1 * ax.2.2 * w.1 + 2 * ax.2.1 * ax.2.2 * w.2.1 + (-ax.1^2 - ax.2.1^2 + ax.2.2^2) * w.2.2) * s ^ 2)

theorem uvec_eq (ax w : V3 ℝ) (x0 t : ℝ) :
    Kinematics.mulMatVec3 (Kinematics.quat2Mat (Kinematics.axisAngle2Quat ax (t - x0))) w = uvec ax w x0 t := by
  obtain ⟨a0, a1, a2⟩ := ax; obtain ⟨w0, w1, w2⟩ := w
  simp only [uvec, Kinematics.mulMatVec3, Kinematics.quat2Mat, Kinematics.axisAngle2Quat, mju_axisAngle2Quat_eq,
    mju_quat2Mat_eq, matF, mju_mulMatVec3_eq, Prod.mk.injEq]
  refine ⟨?_, ?_, ?_⟩ <;> ring

/-- **core axis–angle derivative**: `d/dt R(ax, t - x0) w = ax × (R(ax, t - x0) w)` for a unit axis -/
theorem uvec_hasDerivAt (ax w : V3 ℝ) (x0 θ : ℝ) (ha : normSq3 ax = 1) :
    HasDerivAt (fun t => (uvec ax w x0 t).1) (cross3 ax (uvec ax w x0 θ)).1 θ ∧
    HasDerivAt (fun t => (uvec ax w x0 t).2.1) (cross3 ax (uvec ax w x0 θ)).2.1 θ ∧
    HasDerivAt (fun t => (uvec ax w x0 t).2.2) (cross3 ax (uvec ax w x0 θ)).2.2 θ := by
  obtain ⟨a0, a1, a2⟩ := ax; obtain ⟨w0, w1, w2⟩ := w
  simp only [normSq3] at ha
  refine ⟨?_, ?_, ?_⟩
  · refine (hasDerivAt_quad w0 (2 * (a1 * w2 - a2 * w1))
      ((a0^2 - a1^2 - a2^2) * w0 + 2 * a0 * a1 * w1 + 2 * a0 * a2 * w2) x0 θ).congr_deriv ?_
    simp only [uvec, cross3]
    linear_combination (Real.sin ((θ - x0) * (1/2)) * Real.cos ((θ - x0) * (1/2)) * w0
      - Real.sin ((θ - x0) * (1/2))^2 * a2 * w1 + Real.sin ((θ - x0) * (1/2))^2 * a1 * w2) * ha
  · refine (hasDerivAt_quad w1 (2 * (a2 * w0 - a0 * w2))
      (2 * a0 * a1 * w0 + (-a0^2 + a1^2 - a2^2) * w1 + 2 * a1 * a2 * w2) x0 θ).congr_deriv ?_
    simp only [uvec, cross3]
    linear_combination (Real.sin ((θ - x0) * (1/2)) * Real.cos ((θ - x0) * (1/2)) * w1
      - Real.sin ((θ - x0) * (1/2))^2 * a0 * w2 + Real.sin ((θ - x0) * (1/2))^2 * a2 * w0) * ha
  · refine (hasDerivAt_quad w2 (2 * (a0 * w1 - a1 * w0))
      (2 * a0 * a2 * w0 + 2 * a1 * a2 * w1 + (-a0^2 - a1^2 + a2^2) * w2) x0 θ).congr_deriv ?_
    simp only [uvec, cross3]
    linear_combination (Real.sin ((θ - x0) * (1/2)) * Real.cos ((θ - x0) * (1/2)) * w2
      - Real.sin ((θ - x0) * (1/2))^2 * a1 * w0 + Real.sin ((θ - x0) * (1/2))^2 * a0 * w1) * ha


/-- world position, right after the joint transformation of a hinge at joint angle `t`, of the point with body
coordinates `r` (pose `(xpos, xquat)` before the joint; `jointStep` is the model of the joint loop body) -/
noncomputable def hingePoint (xpos : V3 ℝ) (xquat : Q4 ℝ) (jp ax r : V3 ℝ) (x0 t : ℝ) : V3 ℝ :=
  match jointStep xpos xquat { pos := jp, axis := ax, jq := .hinge t x0 } with
  | some s => add3 s.1.1 (Kinematics.rotVecQuat r s.1.2)
  | none => zero3

theorem hingePoint_eq (xpos : V3 ℝ) (xquat : Q4 ℝ) (jp ax r : V3 ℝ) (x0 t : ℝ)
    (hq : normSq4 xquat = 1) (ha : normSq3 ax = 1) :
    hingePoint xpos xquat jp ax r x0 t =
      add3 (add3 (Kinematics.rotVecQuat jp xquat) xpos)
        (Kinematics.mulMatVec3 (Kinematics.quat2Mat xquat) (uvec ax (sub3 r jp) x0 t)) := by
  have hu : normSq4 (Kinematics.mulQuat xquat (Kinematics.axisAngle2Quat ax (t - x0))) = 1 := by
    rw [mulQuat_normSq, hq, axisAngle2Quat_unit _ _ ha]; norm_num
  simp only [hingePoint, jointStep]
  rw [rot_eq_mat jp _ hu, rot_eq_mat r _ hu, mat_mulQuat_vec, mat_mulQuat_vec, uvec_eq, uvec_eq]
  obtain ⟨a0, a1, a2⟩ := ax; obtain ⟨r0, r1, r2⟩ := r; obtain ⟨j0, j1, j2⟩ := jp
  obtain ⟨p0, p1, p2⟩ := xpos; obtain ⟨q0, q1, q2, q3⟩ := xquat
  simp only [uvec, add3, sub3, Kinematics.mulMatVec3, Kinematics.quat2Mat, mju_quat2Mat_eq, matF, mju_mulMatVec3_eq,
    Kinematics.rotVecQuat, mju_rotVecQuat_eq, rotF, Prod.mk.injEq]
  refine ⟨?_, ?_, ?_⟩ <;> ring

theorem sub3_add3_cancel (a b : V3 ℝ) : sub3 (add3 a b) a = b := by
  obtain ⟨a0, a1, a2⟩ := a; obtain ⟨b0, b1, b2⟩ := b
  simp only [sub3, add3, Prod.mk.injEq]
  refine ⟨?_, ?_, ?_⟩ <;> ring

/-- **hinge column of the point Jacobian**: the derivative with respect to the joint angle of the world position of a
body-fixed point is `xaxis × (point − xanchor)`, with `xaxis`, `xanchor` exactly the values `mj_kinematics` stores -/
theorem hinge_column_is_derivative (xpos : V3 ℝ) (xquat : Q4 ℝ) (jp ax r : V3 ℝ) (x0 θ : ℝ)
    (hq : normSq4 xquat = 1) (ha : normSq3 ax = 1) :
    let xaxis := Kinematics.rotVecQuat ax xquat
    let xanchor := add3 (Kinematics.rotVecQuat jp xquat) xpos
    let col := cross3 xaxis (sub3 (hingePoint xpos xquat jp ax r x0 θ) xanchor)
    HasDerivAt (fun t => (hingePoint xpos xquat jp ax r x0 t).1) col.1 θ ∧
    HasDerivAt (fun t => (hingePoint xpos xquat jp ax r x0 t).2.1) col.2.1 θ ∧
    HasDerivAt (fun t => (hingePoint xpos xquat jp ax r x0 t).2.2) col.2.2 θ := by
  intro xaxis xanchor col
  have hfun : (fun t => hingePoint xpos xquat jp ax r x0 t) = fun t =>
      add3 xanchor (Kinematics.mulMatVec3 (Kinematics.quat2Mat xquat) (uvec ax (sub3 r jp) x0 t)) := by
    funext t; exact hingePoint_eq xpos xquat jp ax r x0 t hq ha
  obtain ⟨d0, d1, d2⟩ := uvec_hasDerivAt ax (sub3 r jp) x0 θ ha
  -- the column, rewritten with R(xquat) (ax × u)
  have hcol : col = Kinematics.mulMatVec3 (Kinematics.quat2Mat xquat) (cross3 ax (uvec ax (sub3 r jp) x0 θ)) := by
    show cross3 xaxis (sub3 (hingePoint xpos xquat jp ax r x0 θ) xanchor) = _
    rw [hingePoint_eq xpos xquat jp ax r x0 θ hq ha]
    have h1 : sub3 (add3 xanchor (Kinematics.mulMatVec3 (Kinematics.quat2Mat xquat) (uvec ax (sub3 r jp) x0 θ))) xanchor
        = Kinematics.mulMatVec3 (Kinematics.quat2Mat xquat) (uvec ax (sub3 r jp) x0 θ) := by
      exact sub3_add3_cancel _ _
    show cross3 xaxis (sub3 (add3 xanchor _) xanchor) = _
    rw [h1]
    show cross3 (Kinematics.rotVecQuat ax xquat) _ = _
    rw [rot_eq_mat ax xquat hq, cross_mat, hq]
    simp
  rw [hcol]
  set u := uvec ax (sub3 r jp) x0 θ with hu
  set cr := cross3 ax u with hcr
  obtain ⟨q0, q1, q2, q3⟩ := xquat
  have e1 : ∀ t, (hingePoint xpos (q0, q1, q2, q3) jp ax r x0 t) =
      add3 xanchor (Kinematics.mulMatVec3 (Kinematics.quat2Mat (q0, q1, q2, q3)) (uvec ax (sub3 r jp) x0 t)) :=
    fun t => congrFun hfun t
  simp only [e1, add3, Kinematics.mulMatVec3, Kinematics.quat2Mat, mju_quat2Mat_eq, matF, mju_mulMatVec3_eq]
  refine ⟨?_, ?_, ?_⟩
  · exact (((d0.const_mul _).add (d1.const_mul _)).add (d2.const_mul _)).const_add _
  · exact (((d0.const_mul _).add (d1.const_mul _)).add (d2.const_mul _)).const_add _
  · exact (((d0.const_mul _).add (d1.const_mul _)).add (d2.const_mul _)).const_add _



noncomputable def slidePoint (xpos : V3 ℝ) (xquat : Q4 ℝ) (jp ax r : V3 ℝ) (x0 t : ℝ) : V3 ℝ :=
  match jointStep xpos xquat { pos := jp, axis := ax, jq := .slide t x0 } with
  | some s => add3 s.1.1 (Kinematics.rotVecQuat r s.1.2)
  | none => zero3

/-- **slide column of the point Jacobian**: the derivative with respect to the joint position of the world position
of a body-fixed point is `xaxis` (no hypothesis needed) -/
theorem slide_column_is_derivative (xpos : V3 ℝ) (xquat : Q4 ℝ) (jp ax r : V3 ℝ) (x0 θ : ℝ) :
    let xaxis := Kinematics.rotVecQuat ax xquat
    HasDerivAt (fun t => (slidePoint xpos xquat jp ax r x0 t).1) xaxis.1 θ ∧
    HasDerivAt (fun t => (slidePoint xpos xquat jp ax r x0 t).2.1) xaxis.2.1 θ ∧
    HasDerivAt (fun t => (slidePoint xpos xquat jp ax r x0 t).2.2) xaxis.2.2 θ := by
  intro xaxis
  have hlin : ∀ (k a b : ℝ), HasDerivAt (fun t : ℝ => k + a * (t - x0) + b) a θ := by
    intro k a b
    have := (((hasDerivAt_id θ).sub_const x0).const_mul a).const_add k |>.add_const b
    simpa using this
  simp only [slidePoint, jointStep, add3, addScl3]
  exact ⟨hlin _ _ _, hlin _ _ _, hlin _ _ _⟩

/-- `mj_differentiatePos ∘ mj_integratePos = id`, slide and hinge joints: exact for every `dt ≠ 0` -/
theorem differentiate_integrate_slide (x x0 v dt : ℝ) (hdt : dt ≠ 0) :
    (integrateJoint dt (.slide x x0) [v]).bind (differentiateJoint dt (.slide x x0)) = some [v] := by
  simp only [integrateJoint, Option.bind_some, differentiateJoint, Option.some.injEq, List.cons.injEq, and_true]
  field_simp
  ring

theorem differentiate_integrate_hinge (x x0 v dt : ℝ) (hdt : dt ≠ 0) :
    (integrateJoint dt (.hinge x x0) [v]).bind (differentiateJoint dt (.hinge x x0)) = some [v] := by
  simp only [integrateJoint, Option.bind_some, differentiateJoint, Option.some.injEq, List.cons.injEq, and_true]
  field_simp
  ring

/-- ball joints (**partial**: under the conditions of `C24.subQuat_quatIntegrate` — unit quaternion, `|w| ≥ mjMINVAL`,
rotation angle `|dt|·|w|` at most the `mjPI` literal and `|sin(dt|w|/2)| ≥ mjMINVAL`; outside them `mju_quat2Vel`
wraps or resets, decided by the oracle) -/
theorem differentiate_integrate_ball_partial (q : Q4 ℝ) (w : V3 ℝ) (dt : ℝ) (hdt : dt ≠ 0) (hq : normSq4 q = 1)
    (hv : minval ≤ Real.sqrt (normSq3 w)) (ha : |dt * Real.sqrt (normSq3 w)| ≤ piLit)
    (hs : minval ≤ |Real.sin (dt * Real.sqrt (normSq3 w) * (1/2))|) :
    (integrateJoint dt (.ball q) [w.1, w.2.1, w.2.2]).bind (differentiateJoint dt (.ball q)) =
      some [w.1, w.2.1, w.2.2] := by
  have key := C24.subQuat_quatIntegrate q w dt hq hv ha hs
  have key' : Kinematics.subQuat (Kinematics.quatIntegrate q (w.1, w.2.1, w.2.2) dt) q = (dt * w.1, dt * w.2.1, dt * w.2.2) := key
  simp only [integrateJoint, Option.bind_some, differentiateJoint, sclInv3, key', real_ofInt, Option.some.injEq,
    List.cons.injEq, and_true]
  push_cast
  refine ⟨?_, ?_, ?_⟩ <;> field_simp

/-- free joints (**partial**, same conditions on the rotational part; the translational part is exact) -/
theorem differentiate_integrate_free_partial (p : V3 ℝ) (q : Q4 ℝ) (v w : V3 ℝ) (dt : ℝ) (hdt : dt ≠ 0)
    (hq : normSq4 q = 1) (hv : minval ≤ Real.sqrt (normSq3 w)) (ha : |dt * Real.sqrt (normSq3 w)| ≤ piLit)
    (hs : minval ≤ |Real.sin (dt * Real.sqrt (normSq3 w) * (1/2))|) :
    (integrateJoint dt (.free p q) [v.1, v.2.1, v.2.2, w.1, w.2.1, w.2.2]).bind (differentiateJoint dt (.free p q)) =
      some [v.1, v.2.1, v.2.2, w.1, w.2.1, w.2.2] := by
  have key := C24.subQuat_quatIntegrate q w dt hq hv ha hs
  have key' : Kinematics.subQuat (Kinematics.quatIntegrate q (w.1, w.2.1, w.2.2) dt) q = (dt * w.1, dt * w.2.1, dt * w.2.2) := key
  simp only [integrateJoint, Option.bind_some, differentiateJoint, sclInv3, key', real_ofInt, Option.some.injEq,
    List.cons_append, List.nil_append, List.cons.injEq, and_true]
  push_cast
  refine ⟨?_, ?_, ?_, ?_, ?_, ?_⟩ <;> field_simp <;> ring


/-! ### `mj_local2Global`: attached frames are proper rotations -/

theorem local2Global_proper (bf : Frame ℝ) (xipos : V3 ℝ) (ximat : M9 ℝ) (pos : V3 ℝ) (quat : Q4 ℝ) (sf : Int)
    (hb : Good bf) (hi : IsRot ximat) (hq : normSq4 quat = 1) (r : V3 ℝ × M9 ℝ)
    (h : local2Global bf xipos ximat pos quat sf = some r) : IsRot r.2 := by
  unfold local2Global at h
  simp only [] at h
  have hprod : normSq4 (Kinematics.mulQuat bf.quat quat) = 1 := by rw [mulQuat_normSq, hb.1, hq]; norm_num
  by_cases h0 : sf = 0
  · subst h0
    simp at h
    rw [← h]; exact quat2Mat_proper _ hprod
  by_cases h1 : sf = 1
  · subst h1
    simp at h
    rw [← h]; exact hb.isRot
  by_cases h2 : sf = 2
  · subst h2
    simp at h
    rw [← h]; exact hi
  by_cases h3 : sf = 3
  · subst h3
    simp at h
    rw [← h]; exact hb.isRot
  by_cases h4 : sf = 4
  · subst h4
    simp at h
    rw [← h]; exact hi
  · simp [h0, h1, h2, h3, h4] at h


/-- the generic (mjSAMEFRAME_NONE) result of `mj_local2Global`: body frame ∘ local pose -/
noncomputable def genericPose (bf : Frame ℝ) (pos : V3 ℝ) (quat : Q4 ℝ) : V3 ℝ × M9 ℝ :=
  (Kinematics.add3 (Kinematics.mulMatVec3 bf.mat pos) bf.pos, Kinematics.quat2Mat (Kinematics.mulQuat bf.quat quat))

/-- **The sameframe shortcuts are exact, in both switches.**  Whenever the class stored for an object is legitimate — BODY:
null local pose; BODYROT: null local rotation; INERTIA: the local pose is the body's inertial pose (so `xipos` / `ximat`
are this object's generic result); INERTIAROT: the local rotation is the inertial one (so `ximat` is the matrix of
`xquat * quat`) — the model of `mj_local2Global` returns, in every one of the five classes, exactly the position
`xpos + xmat * pos` and the matrix of `xquat * quat`.  (Grouping INERTIAROT with the body-orientation cases, or BODYROT /
INERTIAROT with the copy-position cases, makes this theorem false.) -/
theorem local2Global_shortcut_exact (bf : Frame ℝ) (xipos : V3 ℝ) (ximat : M9 ℝ) (pos : V3 ℝ) (quat : Q4 ℝ) (sf : Int)
    (hb : Good bf)
    (hq13 : sf = 1 ∨ sf = 3 → quat = (1, 0, 0, 0))
    (hp1 : sf = 1 → pos = (0, 0, 0))
    (hm24 : sf = 2 ∨ sf = 4 → ximat = (genericPose bf pos quat).2)
    (hp2 : sf = 2 → xipos = (genericPose bf pos quat).1)
    (r : V3 ℝ × M9 ℝ) (h : local2Global bf xipos ximat pos quat sf = some r) : r = genericPose bf pos quat := by
  have hone : ∀ q : Q4 ℝ, Kinematics.mulQuat q (1, 0, 0, 0) = q := by
    intro q; obtain ⟨q0, q1, q2, q3⟩ := q
    simp only [Kinematics.mulQuat, mju_mulQuat_eq, Prod.mk.injEq]
    refine ⟨?_, ?_, ?_, ?_⟩ <;> ring
  have hzero : ∀ m : M9 ℝ, Kinematics.mulMatVec3 m (0, 0, 0) = (0, 0, 0) := by
    intro m; obtain ⟨m0, m1, m2, m3, m4, m5, m6, m7, m8⟩ := m
    simp only [Kinematics.mulMatVec3, mju_mulMatVec3_eq, Prod.mk.injEq]
    refine ⟨?_, ?_, ?_⟩ <;> ring
  unfold local2Global at h
  simp only [] at h
  by_cases h0 : sf = 0
  · subst h0; simp at h; rw [← h]; rfl
  by_cases h1 : sf = 1
  · subst h1
    simp at h
    rw [← h, genericPose, hq13 (Or.inl rfl), hp1 rfl, hone, hzero, ← hb.2]
    obtain ⟨p0, p1, p2⟩ := bf.pos
    simp [Kinematics.add3]
  by_cases h2 : sf = 2
  · subst h2
    simp at h
    rw [← h, hm24 (Or.inl rfl), hp2 rfl]
  by_cases h3 : sf = 3
  · subst h3
    simp at h
    rw [← h, genericPose, hq13 (Or.inr rfl), hone, ← hb.2]
  by_cases h4 : sf = 4
  · subst h4
    simp at h
    rw [← h, hm24 (Or.inr rfl)]
    rfl
  · simp [h0, h1, h2, h3, h4] at h

/-- the INERTIAROT hypotheses are satisfiable with a rotated inertial frame and an object away from the inertial position:
body at the identity, inertial frame rotated by π about x, object at (1, 0, 0) with that rotation -/
example : ∃ r, local2Global (worldFrame : Frame ℝ) (0, 0, 0)
      (genericPose worldFrame (1, 0, 0) (0, 1, 0, 0)).2 (1, 0, 0) (0, 1, 0, 0) 4 = some r ∧
    r = genericPose worldFrame (1, 0, 0) (0, 1, 0, 0) := by
  refine ⟨_, rfl, ?_⟩
  rfl

/-! ### non-vacuity -/

noncomputable def exB1 : Body ℝ :=
  { parent := 0, pos := (0, 0, 1), quat := (1, 0, 0, 0), mocap := false,
    joints := [{ pos := (0, 0, 0), axis := (0, 0, 1), jq := JointQ.hinge (1/2) 0 }] }
noncomputable def exB2 : Body ℝ :=
  { parent := 1, pos := (1, 0, 0), quat := (0, 1, 0, 0), mocap := false,
    joints := [{ pos := (0, 0, 0), axis := (1, 0, 0), jq := JointQ.slide (1/3) 0 },
               { pos := (0, 1, 0), axis := (0, 0, 1), jq := JointQ.ball (0, 0, 1, 0) }] }

/-- a two-body chain (hinge on the first body; slide + ball on the second, which hangs on the first) satisfies the
hypotheses of `fk_frames_proper` and the model returns frames for it -/
example : (∀ b ∈ [exB1, exB2], BodyWF b) ∧ ∃ outs, fk [exB1, exB2] = some outs := by
  refine ⟨?_, ?_⟩
  · intro b hb
    simp only [List.mem_cons, List.mem_nil_iff, or_false] at hb
    rcases hb with rfl | rfl
    · refine ⟨by simp [exB1, normSq4], ?_⟩
      intro j hj
      simp only [exB1, List.mem_cons, List.mem_nil_iff, or_false] at hj
      subst hj; simp [JointWF, normSq3]
    · refine ⟨by simp [exB2, normSq4], ?_⟩
      intro j hj
      simp only [exB2, List.mem_cons, List.mem_nil_iff, or_false] at hj
      rcases hj with rfl | rfl <;> simp [JointWF, normSq4]
  · simp [fk, fkLoop, bodyFK, regularBody, startPose, jointLoop, jointStep, exB1, exB2]

/-- the hypotheses of `hinge_column_is_derivative` are satisfiable -/
example : normSq4 ((1, 0, 0, 0) : Q4 ℝ) = 1 ∧ normSq3 ((0, 0, 1) : V3 ℝ) = 1 := by
  simp [normSq4, normSq3]

/-- the hypotheses of `differentiate_integrate_ball_partial` are satisfiable: q = 1, w = e_x, dt = 1 (1 rad) -/
example : normSq4 quatOne = 1 ∧ minval ≤ Real.sqrt (normSq3 ((1 : ℝ), (0 : ℝ), (0 : ℝ))) ∧
    |(1 : ℝ) * Real.sqrt (normSq3 ((1 : ℝ), (0 : ℝ), (0 : ℝ)))| ≤ piLit ∧
    minval ≤ |Real.sin ((1 : ℝ) * Real.sqrt (normSq3 ((1 : ℝ), (0 : ℝ), (0 : ℝ))) * (1/2))| := by
  have e : Real.sqrt (normSq3 ((1 : ℝ), (0 : ℝ), (0 : ℝ))) = 1 := by simp [normSq3]
  rw [e]
  refine ⟨by simp [normSq4, quatOne], minval_lt_one.le, ?_, ?_⟩
  · unfold piLit; norm_num
  · have hs := Real.sin_gt_sub_cube (x := (1 : ℝ) * 1 * (1/2)) (by norm_num)
    have hm : minval < 1/4 := by unfold minval; norm_num
    rw [abs_of_pos (by nlinarith)]
    nlinarith

/-! ### sparse dof chains (`mj_mergeChain`, `mj_bodyChain`) and what `flg_skipcommon` drops -/
section Chains
open MjProof.DofChain

/-- the merged chain is strictly increasing (the invariant `mj_jacSparse` / `mju_combineSparse` rely on) -/
theorem mergeChain_sorted (par : Nat → Nat) (hp : ParWF par) (skip : Bool) (s1 s2 : Nat) :
    (mergeChain par skip s1 s2).Pairwise (· < ·) := by
  unfold mergeChain
  rw [List.pairwise_reverse]
  exact mergeDesc_sorted hp skip _ s1 s2

/-- without `flg_skipcommon`, dof `k` is in the merged chain iff it moves the first or the second body -/
theorem mergeChain_mem (par : Nat → Nat) (hp : ParWF par) (k s1 s2 : Nat) :
    k ∈ mergeChain par false s1 s2 ↔ (Anc par k s1 ∨ Anc par k s2) := by
  unfold mergeChain
  rw [List.mem_reverse]
  exact mergeDesc_mem hp k _ s1 s2 (Nat.lt_succ_self _)

/-- with `flg_skipcommon`, dof `k` is in the merged chain iff it moves exactly one of the two bodies: every dof shared by
both chains is left out of the sparse row -/
theorem mergeChain_skipcommon_mem (par : Nat → Nat) (hp : ParWF par) (k s1 s2 : Nat) :
    k ∈ mergeChain par true s1 s2 ↔ ((Anc par k s1 ∧ ¬ Anc par k s2) ∨ (¬ Anc par k s1 ∧ Anc par k s2)) := by
  unfold mergeChain
  rw [List.mem_reverse]
  exact mergeDesc_skip_mem hp k _ s1 s2 (Nat.lt_succ_self _)

/-- the (general-case) body chain holds exactly the dofs that move the body -/
theorem bodyChain_mem (par : Nat → Nat) (hp : ParWF par) (k s : Nat) : k ∈ bodyChain par s ↔ Anc par k s := by
  unfold bodyChain
  rw [mergeChain_mem par hp]
  constructor
  · rintro (h | h)
    · exact h
    · exact absurd h Anc.not_zero
  · exact Or.inl

/-- translational Jacobian column of `mj_jac` / `mj_jacSparse` for a dof with spatial axis `(w, v)` (`cdof`) at a point
with offset `point - subtree_com[root]`: `v + w × offset`, with the generated `mju_cross` (the engine calls the textually
identical `mji_cross`) -/
noncomputable def jacColumn (w v com point : V3 ℝ) : V3 ℝ :=
  let off := Kinematics.sub3 point com
  Kinematics.add3 v (mju_cross w.1 w.2.1 w.2.2 off.1 off.2.1 off.2.2)

/-- for a dof that moves both bodies (same `cdof`, same tree root) the columns of the two points differ by
`w × (pos2 - pos1)`: this is exactly what a sparse row built with `flg_skipcommon` loses on every shared dof -/
theorem common_dof_column_difference (w v com p1 p2 : V3 ℝ) :
    Kinematics.sub3 (jacColumn w v com p2) (jacColumn w v com p1) = cross3 w (Kinematics.sub3 p2 p1) := by
  obtain ⟨w0, w1, w2⟩ := w; obtain ⟨v0, v1, v2⟩ := v; obtain ⟨c0, c1, c2⟩ := com
  obtain ⟨a0, a1, a2⟩ := p1; obtain ⟨b0, b1, b2⟩ := p2
  simp only [jacColumn, cross3, Kinematics.sub3, Kinematics.add3, mju_cross, Prod.mk.injEq]
  refine ⟨?_, ?_, ?_⟩ <;> ring

/-- hence dropping the shared dofs is lossless when the two points coincide (the contact case) -/
theorem common_dof_column_cancels (w v com p : V3 ℝ) :
    Kinematics.sub3 (jacColumn w v com p) (jacColumn w v com p) = (0, 0, 0) := by
  rw [common_dof_column_difference]
  obtain ⟨w0, w1, w2⟩ := w; obtain ⟨a0, a1, a2⟩ := p
  simp [cross3, Kinematics.sub3]

/-- ... and is lossy otherwise: a hinge about `z` shared by both bodies, anchors one unit apart along `x` -/
example : Kinematics.sub3 (jacColumn (0, 0, 1) (0, 0, 0) (0, 0, 0) (1, 0, 0)) (jacColumn (0, 0, 1) (0, 0, 0) (0, 0, 0) (0, 0, 0))
    ≠ ((0 : ℝ), (0 : ℝ), (0 : ℝ)) := by
  rw [common_dof_column_difference]
  simp [cross3, Kinematics.sub3]

/-- `ParWF` is satisfiable: a chain of three dofs `0 ← 1 ← 2` plus a separate root dof `3` -/
example : ParWF (parOf #[-1, 0, 1, -1]) := by
  refine ⟨by simp [parOf], ?_⟩
  intro s hs
  match s, hs with
  | 1, _ => decide
  | 2, _ => decide
  | 3, _ => decide
  | 4, _ => decide
  | (n + 5), _ => simp [parOf]

end Chains

end MjProof.C07
