import MjProof.Lemmas.Constraint
import MjProof.Lemmas.FwdConstraint
/-
C11  Constraint forces are admissible.

All statements are about the executable model of Model/Constraint.lean evaluated on ℝ (the same
functions that run on IEEE doubles in the correspondence with `mj_constraintUpdate_impl`,
`mju_mulMatTVec`, `mju_decodePyramid`, `projectCone`).  Every theorem quantifies over all residuals
and all parameters in the stated ranges.
-/
namespace MjProof.C11
open MjProof MjProof.Constraint

/-- Friction-loss rows (dof and tendon): for every residual the returned force is bounded by the
    friction loss.  `D·R = 1` is how `mj_makeImpedance` sets `efc_D`. -/
theorem friction_force_bounded (D R floss jar : ℝ) (hD : 0 ≤ D) (hDR : D * R = 1) (hfl : 0 ≤ floss) :
    |(fricRow D R floss jar).force| ≤ floss :=
  fricRow_force_abs_le hD hDR hfl jar

example : (0 : ℝ) ≤ 2 ∧ (2 : ℝ) * (1 / 2) = 1 ∧ (0 : ℝ) ≤ 3 := by norm_num

/-- Limit, frictionless-contact and pyramidal-edge rows: the returned force is non-negative. -/
theorem nonneg_force_nonneg (D jar : ℝ) (hD : 0 ≤ D) : 0 ≤ (nonnegRow D jar).force :=
  nonnegRow_force_nonneg hD jar

/-- Equality rows are unconstrained: the force is the linear law `−D·jar`. -/
theorem equality_force_linear (D jar : ℝ) : (eqRow D jar).force = -D * jar := eqRow_force D jar

/-- Elliptic contact, every zone: the normal force is non-negative (no relation between the `D` of
    the rows is needed for this part). -/
theorem elliptic_normal_nonneg {n : ℕ} (D0 mu : ℝ) (D w : Fin n → ℝ) (jar0 : ℝ) (jar : Fin n → ℝ)
    (hmu : 0 < mu) (hD0 : 0 ≤ D0) :
    ∃ fN rest, (ellBlock D0 jar0 mu (tsOf D w jar)).force = fN :: rest ∧ 0 ≤ fN :=
  ⟨_, _, ellBlock_force D0 mu D w jar0 jar, blkForceN_nonneg hmu hD0 jar0 jar⟩

/-- Elliptic contact, every zone (top: zero force; bottom: full quadratic; middle: cone surface):
    the returned force `(fN, fT₁ … fTₙ)` satisfies `fN ≥ 0` and `√(Σ (fTᵢ/frictionᵢ)²) ≤ fN`.
    `hrel` is the relation between the regularisers of the friction rows and of the normal row that
    `mj_makeImpedance` establishes (`impedance_relation` below); without it the bottom-zone force
    `−Dᵢ jarᵢ` is not in the cone in general. -/
theorem elliptic_in_cone {n : ℕ} (D0 mu : ℝ) (D w : Fin n → ℝ) (jar0 : ℝ) (jar : Fin n → ℝ)
    (hmu : 0 < mu) (hD0 : 0 ≤ D0) (hw : ∀ i, 0 < w i)
    (hrel : ∀ i, D i * (mu * mu) = D0 * (w i * w i)) :
    ∃ (fN : ℝ) (fT : Fin n → ℝ), (ellBlock D0 jar0 mu (tsOf D w jar)).force = fN :: List.ofFn fT ∧
      0 ≤ fN ∧ Real.sqrt (∑ i, (fT i / w i) ^ 2) ≤ fN :=
  ⟨_, _, ellBlock_force D0 mu D w jar0 jar, blkForceN_nonneg hmu hD0 jar0 jar,
    blk_in_cone hmu hD0 hw hrel jar0 jar⟩

/-- a concrete instance of the hypotheses (condim 3, mu = 1/2, friction (1, 2)) -/
example : ∃ (D0 mu : ℝ) (D w : Fin 2 → ℝ), 0 < mu ∧ 0 ≤ D0 ∧ (∀ i, 0 < w i) ∧
    ∀ i, D i * (mu * mu) = D0 * (w i * w i) :=
  ⟨1, 1 / 2, ![4, 16], ![1, 2], by norm_num, by norm_num,
    by intro i; fin_cases i <;> simp, by intro i; fin_cases i <;> norm_num⟩

/-- Elliptic contact, middle zone (`state = CONE`): the force lies exactly on the cone surface,
    whatever the `D` of the friction rows. -/
theorem elliptic_middle_on_cone_surface {n : ℕ} (D0 mu : ℝ) (D w : Fin n → ℝ) (jar0 : ℝ)
    (jar : Fin n → ℝ) (hmu : 0 < mu) (hD0 : 0 ≤ D0) (hw : ∀ i, 0 < w i)
    (hst : (ellBlock D0 jar0 mu (tsOf D w jar)).state = stCone) :
    ∃ (fN : ℝ) (fT : Fin n → ℝ), (ellBlock D0 jar0 mu (tsOf D w jar)).force = fN :: List.ofFn fT ∧
      Real.sqrt (∑ i, (fT i / w i) ^ 2) = fN :=
  ⟨_, _, ellBlock_force D0 mu D w jar0 jar,
    blk_middle_on_surface D0 mu D w hmu hD0 hw jar0 jar ((ellBlock_state_cone_iff D0 mu D w jar0 jar).mp hst)⟩

/-- The relation assumed by `elliptic_in_cone`, derived from the assignments of `mj_makeImpedance`
    for an elliptic contact (`R[i+1] = R[i]/impratio`, `mu = friction[0]·√(R[i+1]/R[i])`,
    `R[i+j+1] = R[i+1]·friction[0]²/friction[j]²`, `D = 1/R`).  The oracle re-checks it on the
    engine's `efc_D` / `contact.mu` / `contact.friction` every run. -/
theorem impedance_relation (R0 impratio f0 fj : ℝ) (hR0 : 0 < R0) (himp : 0 < impratio) (hf0 : 0 < f0)
    (hfj : 0 < fj) :
    let R1 := R0 / impratio
    let mu := f0 * Real.sqrt (R1 / R0)
    let Rj := R1 * f0 * f0 / (fj * fj)
    1 / R1 * (mu * mu) = 1 / R0 * (f0 * f0) ∧ 1 / Rj * (mu * mu) = 1 / R0 * (fj * fj) :=
  impedance_rel R0 impratio f0 fj hR0 himp hf0 hfj

/-- The whole update: if `mj_constraintUpdate_impl` (model `update`) returns, its force vector is the
    concatenation of the forces of the blocks into which the row loop groups the rows (`parse`), and
    every block whose parameters are in range (`Block.WF`: `D ≥ 0`, `D·R = 1`, `floss ≥ 0`; for a
    cone `D0 ≥ 0`, `mu > 0`, `friction > 0` and the impedance relation) has admissible forces
    (`Block.Admissible`: `|f| ≤ floss`, `f ≥ 0`, cone membership). -/
theorem update_rows_admissible (ne nf : Nat) (flgH : Bool) (rows : List (Row ℝ)) (cons : List (Contact ℝ))
    (o : Out ℝ) (h : update ne nf flgH rows cons = some o) :
    ∃ bs, parse ne nf cons 0 rows = some bs ∧ o.force = bs.flatMap Block.force ∧
      ∀ b ∈ bs, b.WF → b.Admissible := by
  obtain ⟨bs, hp, _, hf, _⟩ := update_decomposes ne nf flgH rows cons o h
  exact ⟨bs, hp, hf, fun b _ hb => b.admissible_of_WF hb⟩

/-- PGS `projectCone` on an elliptic block: the output has a non-negative normal component whose
    square bounds `Σ fⱼ²/muⱼ²` (for any input, any `mu`). -/
theorem projectCone_in_cone (f0 : ℝ) (ft mu : List ℝ) :
    ∃ g0 gt, projectCone (f0 :: ft) mu true = g0 :: gt ∧ 0 ≤ g0 ∧
      (List.zipWith (fun f m => f * f / (m * m)) gt mu).sum ≤ g0 * g0 ∧ gt.length = ft.length :=
  projectCone_elliptic_in f0 ft mu

/-- PGS `projectCone` on a scalar / pyramidal row: clamps to non-negative. -/
theorem projectCone_scalar_nonneg (f0 : ℝ) (ft mu : List ℝ) :
    ∃ g0, projectCone (f0 :: ft) mu false = g0 :: ft ∧ 0 ≤ g0 := by
  refine ⟨_, projectCone_scalar f0 ft mu, ?_⟩
  split_ifs with h
  · exact le_rfl
  · exact not_lt.mp h

/-- `mju_mulMatTVec` (the dense branch of `mj_mulJacTVec`, which computes `qfrc_constraint` from
    `efc_force`): entry `c` of the result is `Σ_r mat[r][c]·vec[r]`, i.e. the result is `Jᵀ f`. -/
theorem mulMatTVec_eq_transpose_mul (nc : ℕ) (mat : List (List ℝ)) (vec : List ℝ) (c : ℕ) (hc : c < nc)
    (hrows : ∀ row ∈ mat, row.length = nc) :
    (mulMatTVec nc mat vec)[c]? =
      some ((List.zipWith (fun (row : List ℝ) v => row.getD c 0 * v) mat vec).sum) :=
  mulMatTVec_getElem? nc mat vec c hc hrows

/-- `mju_decodePyramid`, `dim ≥ 2`: the decoded normal force is the sum of the `2(dim−1)` edge forces. -/
theorem decodePyramid_normal_eq_sum (pyr mu : List ℝ) (dim : ℕ) (h2 : 2 ≤ dim)
    (hp : 2 * (dim - 1) ≤ pyr.length) (hm : dim - 1 ≤ mu.length) :
    ∃ ft, decodePyramid pyr mu dim = some ((pyr.take (2 * (dim - 1))).sum :: ft) :=
  ⟨_, decodePyramid_real pyr mu dim h2 hp hm⟩

/-- … hence non-negative when the edge forces are (which `nonneg_force_nonneg` guarantees). -/
theorem decodePyramid_normal_nonneg (pyr mu : List ℝ) (dim : ℕ) (h2 : 2 ≤ dim)
    (hp : 2 * (dim - 1) ≤ pyr.length) (hm : dim - 1 ≤ mu.length) (hpos : ∀ e ∈ pyr, 0 ≤ e) :
    ∃ f0 ft, decodePyramid pyr mu dim = some (f0 :: ft) ∧ 0 ≤ f0 :=
  ⟨_, _, decodePyramid_real pyr mu dim h2 hp hm,
    List.sum_nonneg fun e he => hpos e (List.mem_of_mem_take he)⟩

/-- … and the decoded friction lies in the friction pyramid: `Σ |fᵢ|/muᵢ ≤ f₀`. -/
theorem decodePyramid_in_pyramid (pyr mu : List ℝ) (dim : ℕ) (h2 : 2 ≤ dim)
    (hp : 2 * (dim - 1) ≤ pyr.length) (hm : dim - 1 ≤ mu.length) (hpos : ∀ e ∈ pyr, 0 ≤ e)
    (hmu : ∀ m ∈ mu, 0 < m) :
    ∃ f0 ft, decodePyramid pyr mu dim = some (f0 :: ft) ∧
      (List.zipWith (fun f m => |f| / m) ft (mu.take (dim - 1))).sum ≤ f0 :=
  ⟨_, _, decodePyramid_real pyr mu dim h2 hp hm,
    decodeTangent_in_pyramid _ _ (fun e he => hpos e (List.mem_of_mem_take he))
      (fun m hm' => hmu m (List.mem_of_mem_take hm'))⟩

/-- `dim = 1` (frictionless): the force is the single edge. -/
theorem decodePyramid_dim1 (p : ℝ) (rest mu : List ℝ) : decodePyramid (p :: rest) mu 1 = some [p] := by
  simp [decodePyramid]

/-! ### `qfrc_constraint = J' efc_force` after every call, whatever the mjData held before

`mj_fwdConstraint` as the statement list `FwdConstraint.mjFwdConstraint` (tied to the C text of the tree by
translate/c11_fwdskel.py on every run).  The state `s` at entry is universally quantified: `qfrc_constraint`,
`ifrc_constraint`, `efc_force`, `iefc_force` may hold anything (the leftovers of any earlier call on the same
mjData: constraints that have since disappeared, another solver, other flags). -/
section FwdConstraint
open MjProof.FwdConstraint
variable {φ α : Type}

/-- The static `warmstart` is its body: with the warm start enabled `mj_constraintUpdate` leaves
    `qfrc_constraint = J' efc_force` (PGS: both are zeroed when the zero force is better); the cold start
    zeroes `efc_force` and does NOT write `qfrc_constraint` — whatever the other conditions evaluate to. -/
theorem warmstart_refines (L : Leaves φ α) (e : Env) (s : St φ α) :
    exec L e warmstartBody s = Prim.warmstart.eff L e s := by
  obtain ⟨nr, isl, sol, ns, wm, zb, orc⟩ := e
  cases wm <;> cases sol <;> cases zb <;>
    simp [exec, run, step, warmstartBody, G.holds, Prim.eff, warmF, warmQ]

/-- `efc_force` at the end of a call that starts with `f0` in `efc_force`: untouched when there are no
    rows (the array is empty), otherwise warm start → solver (islands or monolithic) → optional noslip. -/
def finalForce (L : Leaves φ α) (e : Env) (f0 : φ) : φ :=
  if e.noRows then f0 else
    let f1 := if e.islands then L.isl e.solver (warmF L e) else L.mono e.solver (warmF L e)
    if e.noslip then L.noslip f1 else f1

/-- Full specification of one call on the tracked arrays, for any content `s` at entry. -/
theorem fwdConstraint_spec (L : Leaves φ α) (e : Env) (s : St φ α) (h : L.WF e) :
    ∃ s', exec L e mjFwdConstraint s = some s' ∧ s'.force = finalForce L e s.force ∧
      s'.qfrc = L.jtf s'.force := by
  obtain ⟨nr, isl, sol, ns, wm, zb, orc⟩ := e
  cases nr
  · cases isl
    · cases sol <;> cases ns <;>
        simp [exec, run, step, mjFwdConstraint, G.holds, Prim.eff, Arr.tracked, finalForce]
    · cases sol
      · cases ns <;> simp [exec, run, step, mjFwdConstraint, G.holds, Prim.eff, Arr.tracked, finalForce]
      · obtain ⟨hq, hz⟩ := warmQ_zero_outside L _ h rfl
        obtain ⟨v, w, hv, hw, hs⟩ := island_roundtrip L _ h rfl _ hq hz (L.isl .cg (warmF L ⟨false, true, .cg, ns, wm, zb, orc⟩))
        cases ns <;>
          simp [exec, run, step, mjFwdConstraint, G.holds, Prim.eff, Arr.tracked, finalForce, hv, hw, hs]
      · obtain ⟨hq, hz⟩ := warmQ_zero_outside L _ h rfl
        obtain ⟨v, w, hv, hw, hs⟩ := island_roundtrip L _ h rfl _ hq hz (L.isl .newton (warmF L ⟨false, true, .newton, ns, wm, zb, orc⟩))
        cases ns <;>
          simp [exec, run, step, mjFwdConstraint, G.holds, Prim.eff, Arr.tracked, finalForce, hv, hw, hs]
  · have he := h.empty rfl
    cases isl <;> cases sol <;> cases ns <;>
      simp [exec, run, step, mjFwdConstraint, G.holds, Prim.eff, Arr.tracked, finalForce, he]

/-- Every call returns (for a valid solver) with `qfrc_constraint = J' efc_force`: for each of
    nefc = 0 / > 0, islands or monolithic, PGS / CG / Newton, with or without the noslip pass. -/
theorem fwdConstraint_qfrc_eq_JTf (L : Leaves φ α) (e : Env) (s : St φ α) (h : L.WF e) :
    ∃ s', exec L e mjFwdConstraint s = some s' ∧ s'.qfrc = L.jtf s'.force := by
  obtain ⟨s', h1, _, h3⟩ := fwdConstraint_spec L e s h
  exact ⟨s', h1, h3⟩

/-- The result does not depend on what the tracked arrays held at entry (history independence):
    two calls in the same configuration from any two contents end with the same `qfrc_constraint`
    and, when there are constraint rows, the same `efc_force`. -/
theorem fwdConstraint_history_independent (L : Leaves φ α) (e : Env) (s₁ s₂ : St φ α) (h : L.WF e) :
    ∃ r₁ r₂, exec L e mjFwdConstraint s₁ = some r₁ ∧ exec L e mjFwdConstraint s₂ = some r₂ ∧
      r₁.qfrc = r₂.qfrc ∧ (e.noRows = false → r₁.force = r₂.force) := by
  obtain ⟨r₁, h1, f1, q1⟩ := fwdConstraint_spec L e s₁ h
  obtain ⟨r₂, h2, f2, q2⟩ := fwdConstraint_spec L e s₂ h
  refine ⟨r₁, r₂, h1, h2, ?_, ?_⟩
  · cases hn : e.noRows
    · rw [q1, q2, f1, f2]; simp [finalForce, hn]
    · rw [q1, q2, h.empty hn, h.empty hn]
  · intro hn
    rw [f1, f2]; simp [finalForce, hn]

/-- `mj_dualFinish` is its body: the wrapper calls the static `dualFinish`, whose first statement is
    `mj_mulJacTVec(m, d, d->qfrc_constraint, d->efc_force)` and whose other statements do not write a
    tracked array — the leaf semantics used for the call in `mjFwdConstraint`. -/
theorem dualFinish_refines (L : Leaves φ α) (e : Env) (s : St φ α) :
    exec L e mjDualFinishBody s = Prim.dualFinish.eff L e s ∧
    exec L e dualFinishBody s = Prim.dualFinishStatic.eff L e s := by
  constructor <;> simp [exec, run, step, mjDualFinishBody, dualFinishBody, Prim.eff, Arr.tracked]

/-- `mj_constraintUpdate` (last step of every primal iteration and of the warm start) leaves
    `qfrc_constraint = J' efc_force` for the force it has just written. -/
theorem constraintUpdate_qfrc_eq_JTf (L : Leaves φ α) (e : Env) (s : St φ α) :
    ∃ s', exec L e mjConstraintUpdate s = some s' ∧ s'.force = L.upd ∧ s'.qfrc = L.jtf s'.force := by
  simp [exec, run, step, mjConstraintUpdate, Prim.eff]

/-- the hypotheses are satisfiable with non-trivial data: nv = 3, one island over dofs 0 and 2,
    `J' f = (f, 0, 2 f)`; the island / CG run from stale content returns `J' f` of the final force. -/
example : ∃ (L : Leaves Int Int), L.WF ⟨false, true, .cg, false, true, false, fun _ => false⟩ ∧
    (exec L ⟨false, true, .cg, false, true, false, fun _ => false⟩ mjFwdConstraint ⟨[7, 7, 7], [9, 9], 5, 5⟩).map (·.qfrc)
      = some [4, 0, 8] := by
  refine ⟨{ z := 0, nv := 3, map := [0, 2], jtf := fun f => [f, 0, 2 * f], updW := 2, updS := 1, zeroF := 0,
            mono := fun _ f => f, isl := fun _ f => f + 3, noslip := id, upd := 0 },
          ⟨by simp, by simp, ?_, by simp⟩, by decide⟩
  intro _ f k hk hlt
  simp at hk hlt
  have : k = 1 := by omega
  subst this; rfl

end FwdConstraint

end MjProof.C11
