import MjProof.Lemmas.Constraint
/-
C11  Constraint forces are admissible.

All statements are about the executable model of Model/Constraint.lean evaluated on ℝ (the same
functions that run on IEEE doubles in the correspondence with `mj_constraintUpdate_impl`,
`mju_mulMatTVec`, `mju_decodePyramid`, `projectCone`).  Every theorem quantifies over all residuals
and all parameters in the stated ranges.
-/
namespace MjProof.C11
open MjProof MjProof.Constraint

/-- Friction-loss rows (dof and tendon): for every residual the returned force is bounded by the
    friction loss.  `D·R = 1` is how `mj_makeImpedance` sets `efc_D`. -/
theorem friction_force_bounded (D R floss jar : ℝ) (hD : 0 ≤ D) (hDR : D * R = 1) (hfl : 0 ≤ floss) :
    |(fricRow D R floss jar).force| ≤ floss :=
  fricRow_force_abs_le hD hDR hfl jar

example : (0 : ℝ) ≤ 2 ∧ (2 : ℝ) * (1 / 2) = 1 ∧ (0 : ℝ) ≤ 3 := by norm_num

/-- Limit, frictionless-contact and pyramidal-edge rows: the returned force is non-negative. -/
theorem nonneg_force_nonneg (D jar : ℝ) (hD : 0 ≤ D) : 0 ≤ (nonnegRow D jar).force :=
  nonnegRow_force_nonneg hD jar

/-- Equality rows are unconstrained: the force is the linear law `−D·jar`. -/
theorem equality_force_linear (D jar : ℝ) : (eqRow D jar).force = -D * jar := eqRow_force D jar

/-- Elliptic contact, every zone: the normal force is non-negative (no relation between the `D` of
    the rows is needed for this part). -/
theorem elliptic_normal_nonneg {n : ℕ} (D0 mu : ℝ) (D w : Fin n → ℝ) (jar0 : ℝ) (jar : Fin n → ℝ)
    (hmu : 0 < mu) (hD0 : 0 ≤ D0) :
    ∃ fN rest, (ellBlock D0 jar0 mu (tsOf D w jar)).force = fN :: rest ∧ 0 ≤ fN :=
  ⟨_, _, ellBlock_force D0 mu D w jar0 jar, blkForceN_nonneg hmu hD0 jar0 jar⟩

/-- Elliptic contact, every zone (top: zero force; bottom: full quadratic; middle: cone surface):
    the returned force `(fN, fT₁ … fTₙ)` satisfies `fN ≥ 0` and `√(Σ (fTᵢ/frictionᵢ)²) ≤ fN`.
    `hrel` is the relation between the regularisers of the friction rows and of the normal row that
    `mj_makeImpedance` establishes (`impedance_relation` below); without it the bottom-zone force
    `−Dᵢ jarᵢ` is not in the cone in general. -/
theorem elliptic_in_cone {n : ℕ} (D0 mu : ℝ) (D w : Fin n → ℝ) (jar0 : ℝ) (jar : Fin n → ℝ)
    (hmu : 0 < mu) (hD0 : 0 ≤ D0) (hw : ∀ i, 0 < w i)
    (hrel : ∀ i, D i * (mu * mu) = D0 * (w i * w i)) :
    ∃ (fN : ℝ) (fT : Fin n → ℝ), (ellBlock D0 jar0 mu (tsOf D w jar)).force = fN :: List.ofFn fT ∧
      0 ≤ fN ∧ Real.sqrt (∑ i, (fT i / w i) ^ 2) ≤ fN :=
  ⟨_, _, ellBlock_force D0 mu D w jar0 jar, blkForceN_nonneg hmu hD0 jar0 jar,
    blk_in_cone hmu hD0 hw hrel jar0 jar⟩

/-- a concrete instance of the hypotheses (condim 3, mu = 1/2, friction (1, 2)) -/
example : ∃ (D0 mu : ℝ) (D w : Fin 2 → ℝ), 0 < mu ∧ 0 ≤ D0 ∧ (∀ i, 0 < w i) ∧
    ∀ i, D i * (mu * mu) = D0 * (w i * w i) :=
  ⟨1, 1 / 2, ![4, 16], ![1, 2], by norm_num, by norm_num,
    by intro i; fin_cases i <;> simp, by intro i; fin_cases i <;> norm_num⟩

/-- Elliptic contact, middle zone (`state = CONE`): the force lies exactly on the cone surface,
    whatever the `D` of the friction rows. -/
theorem elliptic_middle_on_cone_surface {n : ℕ} (D0 mu : ℝ) (D w : Fin n → ℝ) (jar0 : ℝ)
    (jar : Fin n → ℝ) (hmu : 0 < mu) (hD0 : 0 ≤ D0) (hw : ∀ i, 0 < w i)
    (hst : (ellBlock D0 jar0 mu (tsOf D w jar)).state = stCone) :
    ∃ (fN : ℝ) (fT : Fin n → ℝ), (ellBlock D0 jar0 mu (tsOf D w jar)).force = fN :: List.ofFn fT ∧
      Real.sqrt (∑ i, (fT i / w i) ^ 2) = fN :=
  ⟨_, _, ellBlock_force D0 mu D w jar0 jar,
    blk_middle_on_surface D0 mu D w hmu hD0 hw jar0 jar ((ellBlock_state_cone_iff D0 mu D w jar0 jar).mp hst)⟩

/-- The relation assumed by `elliptic_in_cone`, derived from the assignments of `mj_makeImpedance`
    for an elliptic contact (`R[i+1] = R[i]/impratio`, `mu = friction[0]·√(R[i+1]/R[i])`,
    `R[i+j+1] = R[i+1]·friction[0]²/friction[j]²`, `D = 1/R`).  The oracle re-checks it on the
    engine's `efc_D` / `contact.mu` / `contact.friction` every run. -/
theorem impedance_relation (R0 impratio f0 fj : ℝ) (hR0 : 0 < R0) (himp : 0 < impratio) (hf0 : 0 < f0)
    (hfj : 0 < fj) :
    let R1 := R0 / impratio
    let mu := f0 * Real.sqrt (R1 / R0)
    let Rj := R1 * f0 * f0 / (fj * fj)
    1 / R1 * (mu * mu) = 1 / R0 * (f0 * f0) ∧ 1 / Rj * (mu * mu) = 1 / R0 * (fj * fj) :=
  impedance_rel R0 impratio f0 fj hR0 himp hf0 hfj

/-- The whole update: if `mj_constraintUpdate_impl` (model `update`) returns, its force vector is the
    concatenation of the forces of the blocks into which the row loop groups the rows (`parse`), and
    every block whose parameters are in range (`Block.WF`: `D ≥ 0`, `D·R = 1`, `floss ≥ 0`; for a
    cone `D0 ≥ 0`, `mu > 0`, `friction > 0` and the impedance relation) has admissible forces
    (`Block.Admissible`: `|f| ≤ floss`, `f ≥ 0`, cone membership). -/
theorem update_rows_admissible (ne nf : Nat) (flgH : Bool) (rows : List (Row ℝ)) (cons : List (Contact ℝ))
    (o : Out ℝ) (h : update ne nf flgH rows cons = some o) :
    ∃ bs, parse ne nf cons 0 rows = some bs ∧ o.force = bs.flatMap Block.force ∧
      ∀ b ∈ bs, b.WF → b.Admissible := by
  obtain ⟨bs, hp, _, hf, _⟩ := update_decomposes ne nf flgH rows cons o h
  exact ⟨bs, hp, hf, fun b _ hb => b.admissible_of_WF hb⟩

/-- PGS `projectCone` on an elliptic block: the output has a non-negative normal component whose
    square bounds `Σ fⱼ²/muⱼ²` (for any input, any `mu`). -/
theorem projectCone_in_cone (f0 : ℝ) (ft mu : List ℝ) :
    ∃ g0 gt, projectCone (f0 :: ft) mu true = g0 :: gt ∧ 0 ≤ g0 ∧
      (List.zipWith (fun f m => f * f / (m * m)) gt mu).sum ≤ g0 * g0 ∧ gt.length = ft.length :=
  projectCone_elliptic_in f0 ft mu

/-- PGS `projectCone` on a scalar / pyramidal row: clamps to non-negative. -/
theorem projectCone_scalar_nonneg (f0 : ℝ) (ft mu : List ℝ) :
    ∃ g0, projectCone (f0 :: ft) mu false = g0 :: ft ∧ 0 ≤ g0 := by
  refine ⟨_, projectCone_scalar f0 ft mu, ?_⟩
  split_ifs with h
  · exact le_rfl
  · exact not_lt.mp h

/-- `mju_mulMatTVec` (the dense branch of `mj_mulJacTVec`, which computes `qfrc_constraint` from
    `efc_force`): entry `c` of the result is `Σ_r mat[r][c]·vec[r]`, i.e. the result is `Jᵀ f`. -/
theorem mulMatTVec_eq_transpose_mul (nc : ℕ) (mat : List (List ℝ)) (vec : List ℝ) (c : ℕ) (hc : c < nc)
    (hrows : ∀ row ∈ mat, row.length = nc) :
    (mulMatTVec nc mat vec)[c]? =
      some ((List.zipWith (fun (row : List ℝ) v => row.getD c 0 * v) mat vec).sum) :=
  mulMatTVec_getElem? nc mat vec c hc hrows

/-- `mju_decodePyramid`, `dim ≥ 2`: the decoded normal force is the sum of the `2(dim−1)` edge forces. -/
theorem decodePyramid_normal_eq_sum (pyr mu : List ℝ) (dim : ℕ) (h2 : 2 ≤ dim)
    (hp : 2 * (dim - 1) ≤ pyr.length) (hm : dim - 1 ≤ mu.length) :
    ∃ ft, decodePyramid pyr mu dim = some ((pyr.take (2 * (dim - 1))).sum :: ft) :=
  ⟨_, decodePyramid_real pyr mu dim h2 hp hm⟩

/-- … hence non-negative when the edge forces are (which `nonneg_force_nonneg` guarantees). -/
theorem decodePyramid_normal_nonneg (pyr mu : List ℝ) (dim : ℕ) (h2 : 2 ≤ dim)
    (hp : 2 * (dim - 1) ≤ pyr.length) (hm : dim - 1 ≤ mu.length) (hpos : ∀ e ∈ pyr, 0 ≤ e) :
    ∃ f0 ft, decodePyramid pyr mu dim = some (f0 :: ft) ∧ 0 ≤ f0 :=
  ⟨_, _, decodePyramid_real pyr mu dim h2 hp hm,
    List.sum_nonneg fun e he => hpos e (List.mem_of_mem_take he)⟩

/-- … and the decoded friction lies in the friction pyramid: `Σ |fᵢ|/muᵢ ≤ f₀`. -/
theorem decodePyramid_in_pyramid (pyr mu : List ℝ) (dim : ℕ) (h2 : 2 ≤ dim)
    (hp : 2 * (dim - 1) ≤ pyr.length) (hm : dim - 1 ≤ mu.length) (hpos : ∀ e ∈ pyr, 0 ≤ e)
    (hmu : ∀ m ∈ mu, 0 < m) :
    ∃ f0 ft, decodePyramid pyr mu dim = some (f0 :: ft) ∧
      (List.zipWith (fun f m => |f| / m) ft (mu.take (dim - 1))).sum ≤ f0 :=
  ⟨_, _, decodePyramid_real pyr mu dim h2 hp hm,
    decodeTangent_in_pyramid _ _ (fun e he => hpos e (List.mem_of_mem_take he))
      (fun m hm' => hmu m (List.mem_of_mem_take hm'))⟩

/-- `dim = 1` (frictionless): the force is the single edge. -/
theorem decodePyramid_dim1 (p : ℝ) (rest mu : List ℝ) : decodePyramid (p :: rest) mu 1 = some [p] := by
  simp [decodePyramid]

end MjProof.C11
