import MjProof.Lemmas.LinAlg
/-
C23: forward / backward substitution of `mju_cholSolve` and the column recurrence of `mju_cholFactor` over ℝ.
-/
namespace MjProof.LinAlg
open MjNum Finset

/-- lower triangle (incl. diagonal) of a flat square matrix -/
noncomputable def lower {n : Nat} (m : Vector ℝ (n * n)) (i k : Nat) : ℝ := if k ≤ i then mget m i k else 0

theorem cholFwd_spec (n : Nat) (mat : Vector ℝ (n * n)) (b : Vector ℝ n) (hd : ∀ i < n, mget mat i i ≠ 0) :
    ∀ i < n, ∑ k ∈ range i, mget mat i k * vget (cholFwd n mat b) k + mget mat i i * vget (cholFwd n mat b) i
      = vget b i := by
  have key := fold_inv (n := n) (s := b)
    (body := fun i hi (res : Vector ℝ n) =>
      let x := if i ≠ 0 then res[i] - dotFn i (fun k => at2 mat i k hi (by omega) * res[k.1]'(by omega)) else res[i]
      res.set i (x / at2 mat i i hi hi))
    (fun m res => (∀ i < m, ∑ k ∈ range i, mget mat i k * vget res k + mget mat i i * vget res i = vget b i)
      ∧ ∀ i, m ≤ i → vget res i = vget b i)
    ⟨by intro i hi; omega, fun _ _ => rfl⟩
    (by
      intro m hm res ⟨h1, h2⟩
      have hx : (if m ≠ 0 then res[m] - dotFn m (fun k => at2 mat m k hm (by omega) * res[k.1]'(by omega)) else res[m])
          = vget res m - ∑ k ∈ range m, mget mat m k * vget res k := by
        by_cases h0 : m = 0
        · subst h0; simp [getElem_eq_vget]
        · simp only [ne_eq, h0, not_false_eq_true, if_true]
          rw [dotFn_congr_range m _ (fun k => mget mat m k * vget res k)
            (by intro k; simp [at2_eq_mget, getElem_eq_vget]), getElem_eq_vget]
      dsimp only
      rw [hx, at2_eq_mget]
      refine ⟨?_, ?_⟩
      · intro i hi
        rcases Nat.lt_succ_iff_lt_or_eq.mp hi with hlt | rfl
        · have : ∀ k ∈ range i, vget (res.set m ((vget res m - ∑ k ∈ range m, mget mat m k * vget res k) / mget mat m m) hm) k = vget res k := by
            intro k hk; rw [vget_set]; simp at hk; simp [show k ≠ m by omega]
          rw [Finset.sum_congr rfl (fun k hk => by rw [this k hk])]
          rw [vget_set]; simp [show i ≠ m by omega]
          exact h1 i hlt
        · have : ∀ k ∈ range i, vget (res.set i ((vget res i - ∑ k ∈ range i, mget mat i k * vget res k) / mget mat i i) hm) k = vget res k := by
            intro k hk; rw [vget_set]; simp at hk; simp [show k ≠ i by omega]
          rw [Finset.sum_congr rfl (fun k hk => by rw [this k hk])]
          rw [vget_set]; simp
          have := hd i hm
          rw [h2 i (le_refl _)]
          field_simp
          ring
      · intro i hi
        rw [vget_set]; simp [show i ≠ m by omega]
        exact h2 i (by omega))
  exact key.1

theorem forRange_congr {σ : Type} {lo hi : Nat} {f g : (i : Nat) → lo ≤ i → i < hi → σ → σ} (s : σ)
    (h : ∀ i h1 h2 s, f i h1 h2 s = g i h1 h2 s) : forRange lo hi f s = forRange lo hi g s := by
  have : f = g := by funext i h1 h2 s; exact h i h1 h2 s
  rw [this]

theorem cholBwd_spec (n : Nat) (mat : Vector ℝ (n * n)) (y : Vector ℝ n) (hd : ∀ i < n, mget mat i i ≠ 0) :
    ∀ i < n, mget mat i i * vget (cholBwd n mat y) i
        + ∑ j ∈ Ico (i + 1) n, mget mat j i * vget (cholBwd n mat y) j = vget y i := by
  have key := forRangeRev_inv (lo := 0) (hi := n) (Nat.zero_le n) (s := y)
    (body := fun i _ hi (res : Vector ℝ n) =>
      let x := forRange (i + 1) n (fun j _ hj acc => acc - at2 mat j i hj hi * res[j]) res[i]
      res.set i (x / at2 mat i i hi hi))
    (fun m res => (∀ i, m ≤ i → i < n →
        mget mat i i * vget res i + ∑ j ∈ Ico (i + 1) n, mget mat j i * vget res j = vget y i)
      ∧ ∀ i < m, vget res i = vget y i)
    ⟨by intro i h1 h2; omega, fun _ _ => rfl⟩
    (by
      intro m _ hm res ⟨h1, h2⟩
      have hx : forRange (m + 1) n (fun j _ hj acc => acc - at2 mat j m hj hm * res[j]) res[m]
          = vget res m - ∑ j ∈ Ico (m + 1) n, mget mat j m * vget res j := by
        rw [← forRange_sub (by omega) (fun j => mget mat j m * vget res j), getElem_eq_vget]
        apply forRange_congr
        intro j h1 h2 s
        simp [at2_eq_mget, getElem_eq_vget]
      dsimp only
      rw [hx, at2_eq_mget]
      have hset : ∀ k, k ≠ m → vget (res.set m ((vget res m - ∑ j ∈ Ico (m + 1) n, mget mat j m * vget res j) / mget mat m m) hm) k = vget res k := by
        intro k hk; rw [vget_set]; simp [hk]
      refine ⟨?_, ?_⟩
      · intro i hi hin
        have hsum : ∑ j ∈ Ico (i + 1) n, mget mat j i * vget (res.set m ((vget res m - ∑ j ∈ Ico (m + 1) n, mget mat j m * vget res j) / mget mat m m) hm) j
            = ∑ j ∈ Ico (i + 1) n, mget mat j i * vget res j := by
          apply Finset.sum_congr rfl
          intro j hj; simp at hj
          rw [hset j (by omega)]
        rw [hsum]
        rcases Nat.eq_or_lt_of_le hi with rfl | hlt
        · rw [vget_set]; simp
          have := hd m hm
          rw [← h2 m (by omega)]
          field_simp
          ring
        · rw [hset i (by omega)]
          exact h1 i (by omega) hin
      · intro i hi
        rw [hset i (by omega)]
        exact h2 i (by omega))
  intro i hi
  exact key.1 i (Nat.zero_le i) hi

theorem lower_sum_col {n : Nat} (m : Vector ℝ (n * n)) (x : Nat → ℝ) (k : Nat) (hk : k < n) :
    ∑ j ∈ range n, lower m j k * x j = mget m k k * x k + ∑ j ∈ Ico (k + 1) n, mget m j k * x j := by
  have : ∑ j ∈ range n, lower m j k * x j = ∑ j ∈ Ico k n, mget m j k * x j := by
    rw [Finset.range_eq_Ico, ← Finset.sum_Ico_consecutive _ (Nat.zero_le k) (le_of_lt hk)]
    have h0 : ∑ j ∈ Ico 0 k, lower m j k * x j = 0 := by
      apply Finset.sum_eq_zero; intro j hj; simp at hj
      simp [lower, show ¬ k ≤ j by omega]
    rw [h0, zero_add]
    apply Finset.sum_congr rfl; intro j hj; simp at hj
    simp [lower, hj.1]
  rw [this, Finset.sum_eq_sum_Ico_succ_bot hk]

theorem lower_sum_row {n : Nat} (m : Vector ℝ (n * n)) (y : Nat → ℝ) (i : Nat) (hi : i < n) :
    ∑ k ∈ range n, lower m i k * y k = ∑ k ∈ range i, mget m i k * y k + mget m i i * y i := by
  have : ∑ k ∈ range n, lower m i k * y k = ∑ k ∈ range (i + 1), mget m i k * y k := by
    simp only [Finset.range_eq_Ico]
    rw [← Finset.sum_Ico_consecutive _ (Nat.zero_le (i + 1)) (by omega : i + 1 ≤ n)]
    have h0 : ∑ k ∈ Ico (i + 1) n, lower m i k * y k = 0 := by
      apply Finset.sum_eq_zero; intro k hk; simp at hk
      simp [lower, show ¬ k ≤ i by omega]
    rw [h0, add_zero]
    apply Finset.sum_congr rfl; intro k hk; simp at hk
    simp [lower, show k ≤ i by omega]
  rw [this, Finset.sum_range_succ]

/-- `mju_cholSolve` solves `(L Lᵀ) x = b`, `L` = lower triangle of `mat` with non-zero diagonal -/
theorem cholSolve_solves (n : Nat) (mat : Vector ℝ (n * n)) (b : Vector ℝ n) (hd : ∀ i < n, mget mat i i ≠ 0) :
    ∀ i < n, ∑ j ∈ range n, (∑ k ∈ range n, lower mat i k * lower mat j k) * vget (cholSolve n mat b) j
      = vget b i := by
  intro i hi
  unfold cholSolve
  set y := cholFwd n mat b
  set x := cholBwd n mat y
  calc ∑ j ∈ range n, (∑ k ∈ range n, lower mat i k * lower mat j k) * vget x j
      = ∑ k ∈ range n, lower mat i k * ∑ j ∈ range n, lower mat j k * vget x j := by
        simp_rw [Finset.sum_mul, Finset.mul_sum]
        rw [Finset.sum_comm]
        apply Finset.sum_congr rfl; intro k _; apply Finset.sum_congr rfl; intro j _; ring
    _ = ∑ k ∈ range n, lower mat i k * vget y k := by
        apply Finset.sum_congr rfl; intro k hk; simp at hk
        rw [lower_sum_col mat (vget x) k hk, cholBwd_spec n mat y hd k hk]
    _ = vget b i := by
        rw [lower_sum_row mat (vget y) i hi, cholFwd_spec n mat b hd i hi]

theorem cholColumn_spec (n j : Nat) (hj : j < n) (m : Vector ℝ (n * n)) (tmp : ℝ) (r c : Nat) :
    mget (cholColumn n j hj m tmp) r c =
      if c = j ∧ j < r ∧ r < n then (mget m r j - ∑ k ∈ range j, mget m r k * mget m j k) * tmp
      else mget m r c := by
  have key := forRange_inv (lo := j + 1) (hi := n) (by omega) (s := m)
    (body := fun i _ hi m =>
      set2 m i j hi hj
        ((at2 m i j hi hj - dotFn j (fun k => at2 m i k hi (by omega) * at2 m j k hj (by omega))) * tmp))
    (fun i' mm => ∀ r c, mget mm r c =
      if c = j ∧ j < r ∧ r < i' then (mget m r j - ∑ k ∈ range j, mget m r k * mget m j k) * tmp
      else mget m r c)
    (by intro r c; have : ¬ (c = j ∧ j < r ∧ r < j + 1) := by omega
        rw [if_neg this])
    (by
      intro i h1 h2 mm Q r c
      have hval : (at2 mm i j h2 hj - dotFn j (fun k => at2 mm i k h2 (by omega) * at2 mm j k hj (by omega))) * tmp
          = (mget m i j - ∑ k ∈ range j, mget m i k * mget m j k) * tmp := by
        rw [dotFn_congr_range j _ (fun k => mget m i k * mget m j k)
          (by intro k
              have hk := k.2
              simp only [at2_eq_mget]
              rw [Q i k, Q j k]
              have e1 : ¬ ((k : ℕ) = j ∧ j < i ∧ i < i) := by omega
              have e2 : ¬ ((k : ℕ) = j ∧ j < j ∧ j < i) := by omega
              rw [if_neg e1, if_neg e2]),
          at2_eq_mget, Q i j]
        have e1 : ¬ (j = j ∧ j < i ∧ i < i) := by omega
        rw [if_neg e1]
      rw [hval, mget_set2, Q r c]
      by_cases hrc : r = i ∧ c = j
      · obtain ⟨rfl, rfl⟩ := hrc
        have : c = c ∧ c < r ∧ r < r + 1 := by omega
        rw [if_pos ⟨rfl, rfl⟩, if_pos this]
      · rw [if_neg hrc]
        by_cases hc : c = j ∧ j < r ∧ r < i
        · have : c = j ∧ j < r ∧ r < i + 1 := by omega
          rw [if_pos hc, if_pos this]
        · have : ¬ (c = j ∧ j < r ∧ r < i + 1) := by
            intro h; apply hrc; omega
          rw [if_neg hc, if_neg this])
  exact key r c

/-- the pivot value `tmp` of column `j` before thresholding -/
noncomputable def cholPivot {n : Nat} (m : Vector ℝ (n * n)) (j : Nat) : ℝ :=
  mget m j j - ∑ k ∈ range j, mget m j k * mget m j k

theorem cholStep_rank_le (n : Nat) (mindiag : ℝ) (j : Nat) (hj : j < n) (st : Vector ℝ (n * n) × Nat) :
    (cholStep n mindiag j hj st).2 ≤ st.2 := by
  unfold cholStep
  dsimp only
  split <;> simp <;> split <;> omega

theorem cholStep_tmp1 (n : Nat) (j : Nat) (hj : j < n) (m : Vector ℝ (n * n)) :
    (if j ≠ 0 then at2 m j j hj hj - dotFn j (fun k => at2 m j k hj (by omega) * at2 m j k hj (by omega))
      else at2 m j j hj hj) = cholPivot m j := by
  unfold cholPivot
  by_cases h0 : j = 0
  · subst h0; simp [at2_eq_mget]
  · simp only [ne_eq, h0, not_false_eq_true, if_true]
    rw [dotFn_congr_range j _ (fun k => mget m j k * mget m j k) (by intro k; simp [at2_eq_mget]), at2_eq_mget]

theorem cholStep_full (n : Nat) (mindiag : ℝ) (j : Nat) (hj : j < n) (st : Vector ℝ (n * n) × Nat)
    (h : ¬ cholPivot st.1 j < mindiag) :
    cholStep n mindiag j hj st =
      (cholColumn n j hj (set2 st.1 j j hj hj (Real.sqrt (cholPivot st.1 j))) (1 / Real.sqrt (cholPivot st.1 j)),
       st.2) := by
  unfold cholStep
  dsimp only
  rw [cholStep_tmp1]
  have hd : decide (cholPivot st.1 j < mindiag) = false := by simpa using h
  simp only [hd, Bool.false_eq_true, if_false]
  congr 2
  simp [at2, set2]

theorem cholStep_deficient (n : Nat) (mindiag : ℝ) (j : Nat) (hj : j < n) (st : Vector ℝ (n * n) × Nat)
    (h : cholPivot st.1 j < mindiag) : (cholStep n mindiag j hj st).2 = st.2 - 1 := by
  unfold cholStep
  dsimp only
  rw [cholStep_tmp1]
  have hd : decide (cholPivot st.1 j < mindiag) = true := by simpa using h
  simp [hd]


/-- facts about the partially factorised matrix after the columns `< j` have been processed without a
deficiency -/
structure CholFacts {n : Nat} (A m : Vector ℝ (n * n)) (j : Nat) : Prop where
  pos : ∀ c < j, 0 < mget m c c
  col : ∀ c < j, ∀ i, c ≤ i → i < n →
    ∑ k ∈ range c, mget m i k * mget m c k + mget m i c * mget m c c = mget A i c
  same : ∀ r c, (j ≤ c ∨ r < c) → mget m r c = mget A r c

theorem cholStep_facts {n : Nat} (A : Vector ℝ (n * n)) (mindiag : ℝ) (hmin : 0 < mindiag) (j : Nat) (hj : j < n)
    (st : Vector ℝ (n * n) × Nat) (hF : CholFacts A st.1 j) (hp : ¬ cholPivot st.1 j < mindiag) :
    CholFacts A (cholStep n mindiag j hj st).1 (j + 1) := by
  rw [cholStep_full n mindiag j hj st hp]
  set m := st.1
  set p := cholPivot m j with hpdef
  have hp0 : 0 < p := lt_of_lt_of_le hmin (not_lt.mp hp)
  set d := Real.sqrt p
  have hd0 : 0 < d := Real.sqrt_pos.mpr hp0
  have hdd : d * d = p := Real.mul_self_sqrt hp0.le
  -- entries of the new matrix
  have hM : ∀ r c, mget (cholColumn n j hj (set2 m j j hj hj d) (1 / d)) r c =
      if c = j ∧ j < r ∧ r < n then (mget m r j - ∑ k ∈ range j, mget m r k * mget m j k) * (1 / d)
      else if r = j ∧ c = j then d else mget m r c := by
    intro r c
    rw [cholColumn_spec]
    by_cases h : c = j ∧ j < r ∧ r < n
    · rw [if_pos h, if_pos h]
      obtain ⟨rfl, h2, h3⟩ := h
      rw [mget_set2, if_neg (by omega)]
      congr 2
      apply Finset.sum_congr rfl
      intro k hk; simp at hk
      rw [mget_set2, mget_set2, if_neg (by omega), if_neg (by omega)]
    · rw [if_neg h, if_neg h, mget_set2]
  dsimp only
  refine ⟨?_, ?_, ?_⟩
  · intro c hc
    rw [hM]
    rcases Nat.lt_succ_iff_lt_or_eq.mp hc with hlt | rfl
    · rw [if_neg (by omega), if_neg (by omega)]; exact hF.pos c hlt
    · rw [if_neg (by omega), if_pos ⟨rfl, rfl⟩]; exact hd0
  · intro c hc i hci hin
    rcases Nat.lt_succ_iff_lt_or_eq.mp hc with hlt | rfl
    · have e : ∀ r k, k ≤ c → mget (cholColumn n j hj (set2 m j j hj hj d) (1 / d)) r k = mget m r k := by
        intro r k hk; rw [hM, if_neg (by omega), if_neg (by omega)]
      rw [e i c le_rfl, e c c le_rfl]
      rw [Finset.sum_congr rfl (fun k hk => by
        simp at hk; rw [e i k (by omega), e c k (by omega)])]
      exact hF.col c hlt i hci hin
    · have e : ∀ r k, k < c → mget (cholColumn n c hj (set2 m c c hj hj d) (1 / d)) r k = mget m r k := by
        intro r k hk; rw [hM, if_neg (by omega), if_neg (by omega)]
      rw [Finset.sum_congr rfl (fun k hk => by
        simp at hk; rw [e i k hk, e c k hk])]
      have hcc : mget (cholColumn n c hj (set2 m c c hj hj d) (1 / d)) c c = d := by
        rw [hM, if_neg (by omega), if_pos ⟨rfl, rfl⟩]
      rw [hcc]
      rcases Nat.eq_or_lt_of_le hci with rfl | hlt
      · rw [hcc, hdd, hpdef]
        unfold cholPivot
        rw [hF.same c c (Or.inl le_rfl)]
        ring
      · rw [hM, if_pos ⟨rfl, hlt, hin⟩, hF.same i c (Or.inl le_rfl)]
        field_simp
        ring
  · intro r c hrc
    rw [hM, if_neg (by omega), if_neg (by omega)]
    exact hF.same r c (by omega)

theorem cholFactor_facts {n : Nat} (A : Vector ℝ (n * n)) (mindiag : ℝ) (hmin : 0 < mindiag)
    (hrank : (cholFactor n A mindiag).2 = n) : CholFacts A (cholFactor n A mindiag).1 n := by
  have key := fold_inv (n := n) (s := (A, n))
    (body := fun j hj st => cholStep n mindiag j hj st)
    (fun j st => st.2 ≤ n ∧ (st.2 = n → CholFacts A st.1 j))
    ⟨le_rfl, fun _ => ⟨by intro c hc; omega, by intro c hc; omega, fun _ _ _ => rfl⟩⟩
    (by
      intro j hj st ⟨h1, h2⟩
      have hle := cholStep_rank_le n mindiag j hj st
      refine ⟨by omega, ?_⟩
      intro hn
      have hst : st.2 = n := by omega
      have hp : ¬ cholPivot st.1 j < mindiag := by
        intro hlt
        have := cholStep_deficient n mindiag j hj st hlt
        omega
      exact cholStep_facts A mindiag hmin j hj st (h2 hst) hp)
  exact key.2 hrank



theorem lower_gram {n : Nat} (m : Vector ℝ (n * n)) (i j : Nat) (hji : j ≤ i) (hi : i < n) :
    ∑ k ∈ range n, lower m i k * lower m j k = ∑ k ∈ range j, mget m i k * mget m j k + mget m i j * mget m j j := by
  have : ∑ k ∈ range n, lower m i k * lower m j k = ∑ k ∈ range (j + 1), mget m i k * mget m j k := by
    simp only [Finset.range_eq_Ico]
    rw [← Finset.sum_Ico_consecutive _ (Nat.zero_le (j + 1)) (by omega : j + 1 ≤ n)]
    have h0 : ∑ k ∈ Ico (j + 1) n, lower m i k * lower m j k = 0 := by
      apply Finset.sum_eq_zero; intro k hk; simp at hk
      simp [lower, show ¬ k ≤ j by omega]
    rw [h0, add_zero]
    apply Finset.sum_congr rfl; intro k hk; simp at hk
    simp [lower, show k ≤ i by omega, show k ≤ j by omega]
  rw [this, Finset.sum_range_succ]

end MjProof.LinAlg
