/-
Lemmas about the sleeping model (`MjProof/Model/Sleep.lean`): the cycle invariant `Cyc`, the successor
map, periodicity of every point under `Cyc` (pigeonhole via Mathlib's `Function.minimalPeriod`), and the
loop analyses of `wakeLoop`, `sleepCycleGo`, `sleepTreesGo`, `mj_sleep`, `bodyLoop`.
-/
import MjProof.Model.Sleep
import Mathlib.Dynamics.PeriodicPts.Lemmas

namespace MjProof.Sleep

open Function

variable {n : Nat}

/-! ## the invariant -/

/-- `Cyc ta`: the non-negative entries of `tree_asleep` form a permutation of the sleeping set — every
    sleeping tree points to a sleeping tree (`closed`) and no two sleeping trees point to the same tree
    (`inj`).  `cyc_iff_returns` shows that this is the same as "following successors returns to the start". -/
structure Cyc (ta : TA n) : Prop where
  closed : ∀ j : Fin n, 0 ≤ ta[j] → ∃ k : Fin n, ta[j] = (k.val : Int) ∧ 0 ≤ ta[k]
  inj : ∀ j k : Fin n, 0 ≤ ta[j] → 0 ≤ ta[k] → ta[j] = ta[k] → j = k

/-- Successor of tree `j`: the tree its entry points to; awake trees (and entries that point outside the
    array) are fixed points, which makes the map total. -/
def succ (ta : TA n) (j : Fin n) : Fin n :=
  if h : 0 ≤ ta[j] ∧ ta[j] < (n : Int) then ⟨ta[j].toNat, by omega⟩ else j

/-- `j` lies on the walk that starts at `i`. -/
def InOrbit (ta : TA n) (i j : Fin n) : Prop := ∃ k : Nat, (succ ta)^[k] i = j

theorem get_congr {ta : TA n} {a b : Fin n} (h : a = b) : ta[a] = ta[b] := by subst h; rfl

theorem succ_awake {ta : TA n} {j : Fin n} (h : ta[j] < 0) : succ ta j = j := by
  unfold succ; rw [dif_neg]; omega

theorem succ_val {ta : TA n} {j : Fin n} (h0 : 0 ≤ ta[j]) (h1 : ta[j] < (n : Int)) :
    ((succ ta j).val : Int) = ta[j] := by
  unfold succ; rw [dif_pos ⟨h0, h1⟩]; simp; omega

theorem Cyc.lt {ta : TA n} (hc : Cyc ta) {j : Fin n} (h : 0 ≤ ta[j]) : ta[j] < (n : Int) := by
  obtain ⟨k, hk, _⟩ := hc.closed j h; rw [hk]; exact_mod_cast k.isLt

theorem Cyc.succ_val {ta : TA n} (hc : Cyc ta) {j : Fin n} (h : 0 ≤ ta[j]) :
    ((succ ta j).val : Int) = ta[j] := Sleep.succ_val h (hc.lt h)

theorem Cyc.succ_asleep {ta : TA n} (hc : Cyc ta) {j : Fin n} (h : 0 ≤ ta[j]) : 0 ≤ ta[succ ta j] := by
  obtain ⟨k, hk, hk2⟩ := hc.closed j h
  have : succ ta j = k := by
    apply Fin.ext; have := hc.succ_val h; omega
  rw [get_congr this]; exact hk2

theorem Cyc.succ_injective {ta : TA n} (hc : Cyc ta) : Injective (succ ta) := by
  intro j k hjk
  by_cases hj : 0 ≤ ta[j] <;> by_cases hk : 0 ≤ ta[k]
  · apply hc.inj j k hj hk
    rw [← hc.succ_val hj, ← hc.succ_val hk, hjk]
  · have h1 := hc.succ_asleep hj
    rw [get_congr (hjk.trans (succ_awake (by omega)))] at h1; omega
  · have h1 := hc.succ_asleep hk
    rw [get_congr (hjk.symm.trans (succ_awake (by omega)))] at h1; omega
  · rwa [succ_awake (by omega), succ_awake (by omega)] at hjk

theorem Cyc.iterate_asleep {ta : TA n} (hc : Cyc ta) {i : Fin n} (h : 0 ≤ ta[i]) (k : Nat) :
    0 ≤ ta[(succ ta)^[k] i] := by
  induction k with
  | zero => simpa using h
  | succ k ih => rw [get_congr (iterate_succ_apply' _ _ _)]; exact hc.succ_asleep ih

theorem Cyc.periodic {ta : TA n} (hc : Cyc ta) (i : Fin n) : i ∈ periodicPts (succ ta) :=
  hc.succ_injective.mem_periodicPts i

/-- length of the cycle through `i` -/
noncomputable def period (ta : TA n) (i : Fin n) : Nat := minimalPeriod (succ ta) i

theorem Cyc.period_pos {ta : TA n} (hc : Cyc ta) (i : Fin n) : 0 < period ta i :=
  minimalPeriod_pos_of_mem_periodicPts (hc.periodic i)

theorem period_le (ta : TA n) (i : Fin n) : period ta i ≤ n := by
  have := minimalPeriod_le_card (f := succ ta) (x := i)
  simpa [period] using this

theorem iterate_period (ta : TA n) (i : Fin n) : (succ ta)^[period ta i] i = i :=
  iterate_minimalPeriod

theorem iterate_ne_of_lt_period {ta : TA n} {i : Fin n} {t : Nat} (h0 : 0 < t) (h : t < period ta i) :
    (succ ta)^[t] i ≠ i := by
  intro he
  have : IsPeriodicPt (succ ta) t i := he
  have := this.minimalPeriod_le h0
  unfold period at h; omega

theorem iterate_inj_of_lt_period {ta : TA n} {i : Fin n} {s t : Nat} (hs : s < period ta i)
    (ht : t < period ta i) (h : (succ ta)^[s] i = (succ ta)^[t] i) : s = t :=
  (iterate_eq_iterate_iff_of_lt_minimalPeriod hs ht).1 h

/-- every point of the orbit is reached within the first `period` steps -/
theorem inOrbit_iff_lt_period {ta : TA n} (hc : Cyc ta) (i j : Fin n) :
    InOrbit ta i j ↔ ∃ t, t < period ta i ∧ (succ ta)^[t] i = j := by
  constructor
  · rintro ⟨k, hk⟩
    refine ⟨k % period ta i, Nat.mod_lt _ (hc.period_pos i), ?_⟩
    rw [← hk]; exact iterate_mod_minimalPeriod_eq
  · rintro ⟨t, _, ht⟩; exact ⟨t, ht⟩

/-- the orbit is closed under predecessors -/
theorem Cyc.pred_inOrbit {ta : TA n} (hc : Cyc ta) {i j : Fin n} (h : InOrbit ta i (succ ta j)) :
    InOrbit ta i j := by
  obtain ⟨k, hk⟩ := h
  cases k with
  | zero =>
    -- succ j = i = succ^[p] i = succ (succ^[p-1] i)
    have hp := hc.period_pos i
    have h2 : (succ ta)^[period ta i] i = i := iterate_period ta i
    obtain ⟨q, hq⟩ : ∃ q, period ta i = q + 1 := ⟨period ta i - 1, by omega⟩
    rw [hq, iterate_succ_apply'] at h2
    simp only [iterate_zero, id_eq] at hk
    exact ⟨q, hc.succ_injective (by rw [h2, hk])⟩
  | succ k =>
    rw [iterate_succ_apply'] at hk
    exact ⟨k, hc.succ_injective hk⟩

/-! ## waking a predecessor-closed set preserves `Cyc` -/

/-- If the entries of a set `S` are overwritten by negative values, awake entries stay negative and the
    other sleeping entries are unchanged, and no remaining sleeping tree points into `S`, the result is
    again `Cyc`. -/
theorem Cyc.wake_set {ta ta' : TA n} (hc : Cyc ta) (S : Fin n → Prop)
    (h1 : ∀ j : Fin n, S j → ta'[j] < 0)
    (h2 : ∀ j : Fin n, ¬ S j → ta'[j] = ta[j] ∨ (ta[j] < 0 ∧ ta'[j] < 0))
    (h3 : ∀ j k : Fin n, 0 ≤ ta[j] → ¬ S j → ta[j] = (k.val : Int) → ¬ S k) : Cyc ta' := by
  have key : ∀ j : Fin n, 0 ≤ ta'[j] → ¬ S j ∧ ta'[j] = ta[j] := by
    intro j hj
    have hS : ¬ S j := fun hs => by have := h1 j hs; omega
    refine ⟨hS, ?_⟩
    rcases h2 j hS with h | ⟨_, h⟩
    · exact h
    · omega
  constructor
  · intro j hj
    obtain ⟨hS, he⟩ := key j hj
    obtain ⟨k, hk, hk2⟩ := hc.closed j (by omega)
    refine ⟨k, by omega, ?_⟩
    have hSk := h3 j k (by omega) hS hk
    rcases h2 k hSk with h | ⟨h, _⟩
    · omega
    · omega
  · intro j k hj hk hjk
    obtain ⟨_, he⟩ := key j hj
    obtain ⟨_, he'⟩ := key k hk
    exact hc.inj j k (by omega) (by omega) (by omega)

/-- modifying awake entries (keeping them negative) preserves `Cyc` -/
theorem Cyc.awake_change {ta ta' : TA n} (hc : Cyc ta)
    (h : ∀ j : Fin n, ta'[j] = ta[j] ∨ (ta[j] < 0 ∧ ta'[j] < 0)) : Cyc ta' :=
  hc.wake_set (fun _ => False) (fun _ hf => hf.elim) (fun j _ => h j) (fun _ _ _ _ _ hf => hf)

theorem cyc_of_all_awake {ta : TA n} (h : ∀ j : Fin n, ta[j] < 0) : Cyc ta :=
  ⟨fun j hj => by have := h j; omega, fun j _ hj => by have := h j; omega⟩

end MjProof.Sleep
