/-
Lemmas about the sleeping model (`MjProof/Model/Sleep.lean`): the cycle invariant `Cyc`, the successor
map, periodicity of every point under `Cyc` (pigeonhole via Mathlib's `Function.minimalPeriod`), and the
loop analyses of `wakeLoop`, `sleepCycleGo`, `sleepTreesGo`, `mj_sleep`, `bodyLoop`.
-/
import MjProof.Model.Sleep
import Mathlib.Dynamics.PeriodicPts.Lemmas
import Mathlib.Data.List.Nodup

namespace MjProof.Sleep

open Function

variable {n : Nat}

/-! ## the invariant -/

/-- `Cyc ta`: the non-negative entries of `tree_asleep` form a permutation of the sleeping set — every
    sleeping tree points to a sleeping tree (`closed`) and no two sleeping trees point to the same tree
    (`inj`).  `cyc_iff_returns` shows that this is the same as "following successors returns to the start". -/
structure Cyc (ta : TA n) : Prop where
  closed : ∀ j : Fin n, 0 ≤ ta[j] → ∃ k : Fin n, ta[j] = (k.val : Int) ∧ 0 ≤ ta[k]
  inj : ∀ j k : Fin n, 0 ≤ ta[j] → 0 ≤ ta[k] → ta[j] = ta[k] → j = k

/-- Successor of tree `j`: the tree its entry points to; awake trees (and entries that point outside the
    array) are fixed points, which makes the map total. -/
def succ (ta : TA n) (j : Fin n) : Fin n :=
  if h : 0 ≤ ta[j] ∧ ta[j] < (n : Int) then ⟨ta[j].toNat, by omega⟩ else j

/-- `j` lies on the walk that starts at `i`. -/
def InOrbit (ta : TA n) (i j : Fin n) : Prop := ∃ k : Nat, (succ ta)^[k] i = j

theorem get_congr {ta : TA n} {a b : Fin n} (h : a = b) : ta[a] = ta[b] := by subst h; rfl

theorem succ_awake {ta : TA n} {j : Fin n} (h : ta[j] < 0) : succ ta j = j := by
  unfold succ; rw [dif_neg]; omega

theorem succ_val {ta : TA n} {j : Fin n} (h0 : 0 ≤ ta[j]) (h1 : ta[j] < (n : Int)) :
    ((succ ta j).val : Int) = ta[j] := by
  unfold succ; rw [dif_pos ⟨h0, h1⟩]; simp; omega

theorem Cyc.lt {ta : TA n} (hc : Cyc ta) {j : Fin n} (h : 0 ≤ ta[j]) : ta[j] < (n : Int) := by
  obtain ⟨k, hk, _⟩ := hc.closed j h; rw [hk]; exact_mod_cast k.isLt

theorem Cyc.succ_val {ta : TA n} (hc : Cyc ta) {j : Fin n} (h : 0 ≤ ta[j]) :
    ((succ ta j).val : Int) = ta[j] := Sleep.succ_val h (hc.lt h)

theorem Cyc.succ_asleep {ta : TA n} (hc : Cyc ta) {j : Fin n} (h : 0 ≤ ta[j]) : 0 ≤ ta[succ ta j] := by
  obtain ⟨k, hk, hk2⟩ := hc.closed j h
  have : succ ta j = k := by
    apply Fin.ext; have := hc.succ_val h; omega
  rw [get_congr this]; exact hk2

theorem Cyc.succ_injective {ta : TA n} (hc : Cyc ta) : Injective (succ ta) := by
  intro j k hjk
  by_cases hj : 0 ≤ ta[j] <;> by_cases hk : 0 ≤ ta[k]
  · apply hc.inj j k hj hk
    rw [← hc.succ_val hj, ← hc.succ_val hk, hjk]
  · have h1 := hc.succ_asleep hj
    rw [get_congr (hjk.trans (succ_awake (by omega)))] at h1; omega
  · have h1 := hc.succ_asleep hk
    rw [get_congr (hjk.symm.trans (succ_awake (by omega)))] at h1; omega
  · rwa [succ_awake (by omega), succ_awake (by omega)] at hjk

theorem Cyc.iterate_asleep {ta : TA n} (hc : Cyc ta) {i : Fin n} (h : 0 ≤ ta[i]) (k : Nat) :
    0 ≤ ta[(succ ta)^[k] i] := by
  induction k with
  | zero => simpa using h
  | succ k ih => rw [get_congr (iterate_succ_apply' _ _ _)]; exact hc.succ_asleep ih

theorem Cyc.periodic {ta : TA n} (hc : Cyc ta) (i : Fin n) : i ∈ periodicPts (succ ta) :=
  hc.succ_injective.mem_periodicPts i

/-- length of the cycle through `i` -/
noncomputable def period (ta : TA n) (i : Fin n) : Nat := minimalPeriod (succ ta) i

theorem Cyc.period_pos {ta : TA n} (hc : Cyc ta) (i : Fin n) : 0 < period ta i :=
  minimalPeriod_pos_of_mem_periodicPts (hc.periodic i)

theorem period_le (ta : TA n) (i : Fin n) : period ta i ≤ n := by
  have := minimalPeriod_le_card (f := succ ta) (x := i)
  simpa [period] using this

theorem iterate_period (ta : TA n) (i : Fin n) : (succ ta)^[period ta i] i = i :=
  iterate_minimalPeriod

theorem iterate_ne_of_lt_period {ta : TA n} {i : Fin n} {t : Nat} (h0 : 0 < t) (h : t < period ta i) :
    (succ ta)^[t] i ≠ i := by
  intro he
  have : IsPeriodicPt (succ ta) t i := he
  have := this.minimalPeriod_le h0
  unfold period at h; omega

theorem iterate_inj_of_lt_period {ta : TA n} {i : Fin n} {s t : Nat} (hs : s < period ta i)
    (ht : t < period ta i) (h : (succ ta)^[s] i = (succ ta)^[t] i) : s = t :=
  (iterate_eq_iterate_iff_of_lt_minimalPeriod hs ht).1 h

/-- every point of the orbit is reached within the first `period` steps -/
theorem inOrbit_iff_lt_period {ta : TA n} (hc : Cyc ta) (i j : Fin n) :
    InOrbit ta i j ↔ ∃ t, t < period ta i ∧ (succ ta)^[t] i = j := by
  constructor
  · rintro ⟨k, hk⟩
    refine ⟨k % period ta i, Nat.mod_lt _ (hc.period_pos i), ?_⟩
    rw [← hk]; exact iterate_mod_minimalPeriod_eq
  · rintro ⟨t, _, ht⟩; exact ⟨t, ht⟩

/-- the orbit is closed under predecessors -/
theorem Cyc.pred_inOrbit {ta : TA n} (hc : Cyc ta) {i j : Fin n} (h : InOrbit ta i (succ ta j)) :
    InOrbit ta i j := by
  obtain ⟨k, hk⟩ := h
  cases k with
  | zero =>
    -- succ j = i = succ^[p] i = succ (succ^[p-1] i)
    have hp := hc.period_pos i
    have h2 : (succ ta)^[period ta i] i = i := iterate_period ta i
    obtain ⟨q, hq⟩ : ∃ q, period ta i = q + 1 := ⟨period ta i - 1, by omega⟩
    rw [hq, iterate_succ_apply'] at h2
    simp only [iterate_zero, id_eq] at hk
    exact ⟨q, hc.succ_injective (by rw [h2, hk])⟩
  | succ k =>
    rw [iterate_succ_apply'] at hk
    exact ⟨k, hc.succ_injective hk⟩

/-! ## waking a predecessor-closed set preserves `Cyc` -/

/-- If the entries of a set `S` are overwritten by negative values, awake entries stay negative and the
    other sleeping entries are unchanged, and no remaining sleeping tree points into `S`, the result is
    again `Cyc`. -/
theorem Cyc.wake_set {ta ta' : TA n} (hc : Cyc ta) (S : Fin n → Prop)
    (h1 : ∀ j : Fin n, S j → ta'[j] < 0)
    (h2 : ∀ j : Fin n, ¬ S j → ta'[j] = ta[j] ∨ (ta[j] < 0 ∧ ta'[j] < 0))
    (h3 : ∀ j k : Fin n, 0 ≤ ta[j] → ¬ S j → ta[j] = (k.val : Int) → ¬ S k) : Cyc ta' := by
  have key : ∀ j : Fin n, 0 ≤ ta'[j] → ¬ S j ∧ ta'[j] = ta[j] := by
    intro j hj
    have hS : ¬ S j := fun hs => by have := h1 j hs; omega
    refine ⟨hS, ?_⟩
    rcases h2 j hS with h | ⟨_, h⟩
    · exact h
    · omega
  constructor
  · intro j hj
    obtain ⟨hS, he⟩ := key j hj
    obtain ⟨k, hk, hk2⟩ := hc.closed j (by omega)
    refine ⟨k, by omega, ?_⟩
    have hSk := h3 j k (by omega) hS hk
    rcases h2 k hSk with h | ⟨h, _⟩
    · omega
    · omega
  · intro j k hj hk hjk
    obtain ⟨_, he⟩ := key j hj
    obtain ⟨_, he'⟩ := key k hk
    exact hc.inj j k (by omega) (by omega) (by omega)

/-- modifying awake entries (keeping them negative) preserves `Cyc` -/
theorem Cyc.awake_change {ta ta' : TA n} (hc : Cyc ta)
    (h : ∀ j : Fin n, ta'[j] = ta[j] ∨ (ta[j] < 0 ∧ ta'[j] < 0)) : Cyc ta' :=
  hc.wake_set (fun _ => False) (fun _ hf => hf.elim) (fun j _ => h j) (fun _ _ _ _ _ hf => hf)

theorem cyc_of_all_awake {ta : TA n} (h : ∀ j : Fin n, ta[j] < 0) : Cyc ta :=
  ⟨fun j hj => by have := h j; omega, fun j _ hj => by have := h j; omega⟩

/-! ## mj_wakeIsland -/

open Classical in
/-- the array after the first `t` iterations of the walk from `i` -/
noncomputable def wokeUpTo (ta : TA n) (i : Fin n) (w : Int) (t : Nat) : TA n :=
  Vector.ofFn fun j => if ∃ s, s < t ∧ (succ ta)^[s] i = j then w else ta[j]

theorem wokeUpTo_get (ta : TA n) (i : Fin n) (w : Int) (t : Nat) (j : Fin n) :
    (wokeUpTo ta i w t)[j] = if ∃ s, s < t ∧ (succ ta)^[s] i = j then w else ta[j] := by
  simp [wokeUpTo]

theorem wokeUpTo_zero (ta : TA n) (i : Fin n) (w : Int) : wokeUpTo ta i w 0 = ta := by
  apply Vector.ext; intro j hj
  have := wokeUpTo_get ta i w 0 ⟨j, hj⟩
  simpa using this

theorem wakeLoop_step (start : Nat) (w : Int) (ta : TA n) (cur : Fin n) (k : Nat)
    (h : 0 ≤ ta[cur] ∧ ta[cur] < (n : Int)) :
    wakeLoop start w ta cur k =
      if (ta[cur].toNat ≠ start ∧ k + 1 < n) then
        wakeLoop start w (ta.set cur w) ⟨ta[cur].toNat, by omega⟩ (k + 1)
      else if ta[cur].toNat ≠ start then (ta.set cur w, .err .notCycle)
      else (ta.set cur w, .ok (k + 1)) := by
  rw [wakeLoop]; simp only [dif_pos h]

theorem wakeLoop_spec {ta : TA n} (hc : Cyc ta) {i : Fin n} (hi : 0 ≤ ta[i]) (w : Int) :
    ∀ (d t : Nat), t + d + 1 = period ta i →
      wakeLoop i.val w (wokeUpTo ta i w t) ((succ ta)^[t] i) t =
        (wokeUpTo ta i w (period ta i), .ok (period ta i)) := by
  intro d
  induction d with
  | zero =>
    intro t ht
    have hcur : (wokeUpTo ta i w t)[(succ ta)^[t] i] = ta[(succ ta)^[t] i] := by
      rw [wokeUpTo_get, if_neg]
      rintro ⟨s, hs, he⟩
      have := iterate_inj_of_lt_period (by omega) (by omega) he; omega
    have has := hc.iterate_asleep hi t
    have hlt := hc.lt has
    rw [wakeLoop_step _ _ _ _ _ (by rw [hcur]; exact ⟨has, hlt⟩)]
    have hnx : (wokeUpTo ta i w t)[(succ ta)^[t] i].toNat = i.val := by
      rw [hcur]
      have h1 := hc.succ_val has
      have h2 : (succ ta)^[t + 1] i = i := by rw [ht]; exact iterate_period ta i
      rw [iterate_succ_apply'] at h2
      rw [h2] at h1; omega
    rw [if_neg (by omega), if_neg (by omega)]
    congr 1
    · apply Vector.ext; intro j hj
      rw [Vector.getElem_set]
      have e1 := wokeUpTo_get ta i w t ⟨j, hj⟩
      have e2 := wokeUpTo_get ta i w (period ta i) ⟨j, hj⟩
      simp only [Fin.getElem_fin] at e1 e2
      rw [e1, e2]
      by_cases hj2 : ((succ ta)^[t] i).val = j
      · rw [if_pos hj2, if_pos]
        exact ⟨t, by omega, Fin.ext hj2⟩
      · rw [if_neg hj2]
        congr 1
        apply propext
        constructor
        · rintro ⟨s, hs, he⟩; exact ⟨s, by omega, he⟩
        · rintro ⟨s, hs, he⟩
          refine ⟨s, ?_, he⟩
          by_contra hh
          have : s = t := by omega
          subst this
          exact hj2 (by rw [he])
    · rw [← ht]
  | succ d ih =>
    intro t ht
    have hcur : (wokeUpTo ta i w t)[(succ ta)^[t] i] = ta[(succ ta)^[t] i] := by
      rw [wokeUpTo_get, if_neg]
      rintro ⟨s, hs, he⟩
      have := iterate_inj_of_lt_period (by omega) (by omega) he; omega
    have has := hc.iterate_asleep hi t
    have hlt := hc.lt has
    rw [wakeLoop_step _ _ _ _ _ (by rw [hcur]; exact ⟨has, hlt⟩)]
    have hnx : (⟨(wokeUpTo ta i w t)[(succ ta)^[t] i].toNat, by rw [hcur]; omega⟩ : Fin n) = (succ ta)^[t + 1] i := by
      apply Fin.ext
      simp only
      rw [hcur, iterate_succ_apply']
      have h1 := hc.succ_val has
      omega
    have hne : (wokeUpTo ta i w t)[(succ ta)^[t] i].toNat ≠ i.val := by
      have h1 := congrArg Fin.val hnx
      simp only at h1
      rw [h1]
      intro he
      exact iterate_ne_of_lt_period (by omega) (by omega) (Fin.ext he)
    have hpn := period_le ta i
    rw [if_pos ⟨hne, by omega⟩]
    have hset : (wokeUpTo ta i w t).set ((succ ta)^[t] i) w = wokeUpTo ta i w (t + 1) := by
      apply Vector.ext; intro j hj
      rw [Vector.getElem_set]
      have e1 := wokeUpTo_get ta i w t ⟨j, hj⟩
      have e2 := wokeUpTo_get ta i w (t + 1) ⟨j, hj⟩
      simp only [Fin.getElem_fin] at e1 e2
      rw [e1, e2]
      by_cases hj2 : ((succ ta)^[t] i).val = j
      · rw [if_pos hj2, if_pos]
        exact ⟨t, by omega, Fin.ext hj2⟩
      · rw [if_neg hj2]
        congr 1
        apply propext
        constructor
        · rintro ⟨s, hs, he⟩; exact ⟨s, by omega, he⟩
        · rintro ⟨s, hs, he⟩
          refine ⟨s, ?_, he⟩
          by_contra hh
          have : s = t := by omega
          subst this
          exact hj2 (by rw [he])
    have := ih (t + 1) (by omega)
    rw [← this]
    congr 1

theorem wokeUpTo_period {ta : TA n} (hc : Cyc ta) (i : Fin n) (w : Int) (j : Fin n) :
    (wokeUpTo ta i w (period ta i))[j] = (open Classical in if InOrbit ta i j then w else ta[j]) := by
  rw [wokeUpTo_get]
  have := inOrbit_iff_lt_period hc i j
  by_cases h : InOrbit ta i j
  · rw [if_pos h, if_pos (this.1 h)]
  · rw [if_neg h, if_neg (fun hh => h (this.2 hh))]

theorem wakeIsland_fin (ta : TA n) (i : Fin n) (w : Int) :
    wakeIsland ta (i.val : Int) w =
      if ta[i] < 0 then (ta.set i (if w < ta[i] then w else ta[i]), .ok 0) else wakeLoop i.val w ta i 0 := by
  have hr : 0 ≤ ((i.val : Nat) : Int) ∧ ((i.val : Nat) : Int) < (n : Int) := ⟨by omega, by exact_mod_cast i.isLt⟩
  unfold wakeIsland
  rw [dif_pos hr]
  simp only [Int.toNat_natCast, Fin.eta]

/-- `mj_wakeIsland` on a sleeping tree of a well-formed array: no error exit, the whole cycle is overwritten. -/
theorem wakeIsland_asleep {ta : TA n} (hc : Cyc ta) (i : Fin n) (hi : 0 ≤ ta[i]) (w : Int) :
    wakeIsland ta (i.val : Int) w = (wokeUpTo ta i w (period ta i), .ok (period ta i)) := by
  rw [wakeIsland_fin, if_neg (by omega)]
  have hp := hc.period_pos i
  have := wakeLoop_spec hc hi w (period ta i - 1) 0 (by omega)
  rw [wokeUpTo_zero] at this
  simpa using this

theorem wakeIsland_awake (ta : TA n) (i : Fin n) (hi : ta[i] < 0) (w : Int) :
    wakeIsland ta (i.val : Int) w = (ta.set i (if w < ta[i] then w else ta[i]), .ok 0) := by
  rw [wakeIsland_fin, if_pos hi]

theorem wakeIsland_oob (ta : TA n) (i : Int) (hi : ¬ (0 ≤ i ∧ i < (n : Int))) (w : Int) :
    wakeIsland ta i w = (ta, .err .invalidTree) := by
  unfold wakeIsland; rw [dif_neg hi]

theorem int_cases_fin (i : Int) : (∃ f : Fin n, i = (f.val : Int)) ∨ ¬ (0 ≤ i ∧ i < (n : Int)) := by
  by_cases h : 0 ≤ i ∧ i < (n : Int)
  · left; exact ⟨⟨i.toNat, by omega⟩, by simp; omega⟩
  · right; exact h

/-- `mj_wakeIsland` preserves the cycle invariant (any index, any negative wake value). -/
theorem wakeIsland_cyc {ta : TA n} (hc : Cyc ta) (i : Int) {w : Int} (hw : w < 0) :
    Cyc (wakeIsland ta i w).1 := by
  rcases int_cases_fin (n := n) i with ⟨f, rfl⟩ | ho
  · by_cases hf : 0 ≤ ta[f]
    · rw [wakeIsland_asleep hc f hf w]
      apply hc.wake_set (fun j => InOrbit ta f j)
      · intro j hj; simp only; rw [wokeUpTo_period hc, if_pos hj]; exact hw
      · intro j hj; left; simp only; rw [wokeUpTo_period hc, if_neg hj]
      · intro j k hj hnj hjk hk
        apply hnj
        apply hc.pred_inOrbit
        have : succ ta j = k := by
          apply Fin.ext; have := hc.succ_val hj; omega
        rw [this]; exact hk
    · rw [wakeIsland_awake ta f (by omega) w]
      apply hc.awake_change
      intro j
      simp only
      by_cases hjf : f = j
      · subst hjf
        right
        refine ⟨by omega, ?_⟩
        rw [Fin.getElem_fin, Vector.getElem_set_self]
        split <;> omega
      · left
        rw [Fin.getElem_fin, Vector.getElem_set_ne]
        · rfl
        · intro h; exact hjf (Fin.ext h)
  · rw [wakeIsland_oob ta i ho w]; exact hc

/-- awake trees stay awake through `mj_wakeIsland` (negative wake value) -/
theorem wakeIsland_awake_mono {ta : TA n} (hc : Cyc ta) (i : Int) {w : Int} (hw : w < 0) (j : Fin n)
    (hj : ta[j] < 0) : (wakeIsland ta i w).1[j] < 0 := by
  rcases int_cases_fin (n := n) i with ⟨f, rfl⟩ | ho
  · by_cases hf : 0 ≤ ta[f]
    · rw [wakeIsland_asleep hc f hf w]
      simp only; rw [wokeUpTo_period hc]
      split <;> omega
    · rw [wakeIsland_awake ta f (by omega) w]
      simp only
      by_cases hjf : f = j
      · subst hjf
        rw [Fin.getElem_fin, Vector.getElem_set_self]
        split <;> omega
      · rw [Fin.getElem_fin, Vector.getElem_set_ne]
        · exact hj
        · intro h; exact hjf (Fin.ext h)
  · rw [wakeIsland_oob ta i ho w]; exact hj

/-! ## mj_sleepCycle -/

theorem sleepCycleGo_step (ta : TA n) (i sm : Nat) (cur : Fin n) (count : Nat) (hcount : ¬ count > n)
    (h : 0 ≤ ta[cur] ∧ ta[cur] < (n : Int)) :
    sleepCycleGo ta i sm cur count =
      if ta[cur].toNat ≠ i then
        sleepCycleGo ta i (if ta[cur].toNat < sm then ta[cur].toNat else sm) ⟨ta[cur].toNat, by omega⟩ (count + 1)
      else (((if ta[cur].toNat < sm then ta[cur].toNat else sm) : Nat) : Int) := by
  rw [sleepCycleGo]; simp only [if_neg hcount, dif_pos h]

theorem sleepCycleGo_spec {ta : TA n} (hc : Cyc ta) {i : Fin n} (hi : 0 ≤ ta[i]) :
    ∀ (d t sm : Nat), t + d + 1 = period ta i →
      ∃ r : Nat, sleepCycleGo ta i.val sm ((succ ta)^[t] i) t = (r : Int) ∧
        (r = sm ∨ ∃ s, t < s ∧ s ≤ period ta i ∧ r = ((succ ta)^[s] i).val) ∧
        r ≤ sm ∧ ∀ s, t < s → s ≤ period ta i → r ≤ ((succ ta)^[s] i).val := by
  intro d
  induction d with
  | zero =>
    intro t sm ht
    have has := hc.iterate_asleep hi t
    have hlt := hc.lt has
    have hpn := period_le ta i
    rw [sleepCycleGo_step _ _ _ _ _ (by omega) ⟨has, hlt⟩]
    have h2 : (succ ta)^[t + 1] i = i := by rw [ht]; exact iterate_period ta i
    have hnx : ta[(succ ta)^[t] i].toNat = i.val := by
      have h1 := hc.succ_val has
      rw [iterate_succ_apply'] at h2
      rw [h2] at h1; omega
    rw [if_neg (by omega)]
    refine ⟨_, rfl, ?_, ?_, ?_⟩
    · rw [hnx]
      by_cases hlt2 : i.val < sm
      · right; refine ⟨t + 1, by omega, by omega, ?_⟩; rw [if_pos hlt2, h2]
      · left; rw [if_neg hlt2]
    · split <;> omega
    · intro s hs1 hs2
      have : s = t + 1 := by omega
      subst this
      rw [h2, hnx]; split <;> omega
  | succ d ih =>
    intro t sm ht
    have has := hc.iterate_asleep hi t
    have hlt := hc.lt has
    have hpn := period_le ta i
    rw [sleepCycleGo_step _ _ _ _ _ (by omega) ⟨has, hlt⟩]
    have hnx : (⟨ta[(succ ta)^[t] i].toNat, by omega⟩ : Fin n) = (succ ta)^[t + 1] i := by
      apply Fin.ext
      simp only
      rw [iterate_succ_apply']
      have h1 := hc.succ_val has
      omega
    have hne : ta[(succ ta)^[t] i].toNat ≠ i.val := by
      have h1 := congrArg Fin.val hnx
      simp only at h1
      rw [h1]
      intro he
      exact iterate_ne_of_lt_period (by omega) (by omega) (Fin.ext he)
    rw [if_pos hne, hnx]
    have hv : ta[(succ ta)^[t] i].toNat = ((succ ta)^[t + 1] i).val := congrArg Fin.val hnx
    obtain ⟨r, hr, hmem, hle, hall⟩ := ih (t + 1) (if ta[(succ ta)^[t] i].toNat < sm then ta[(succ ta)^[t] i].toNat else sm) (by omega)
    refine ⟨r, hr, ?_, ?_, ?_⟩
    · rcases hmem with h | ⟨s, hs1, hs2, hs3⟩
      · by_cases hlt2 : ta[(succ ta)^[t] i].toNat < sm
        · right; refine ⟨t + 1, by omega, by omega, ?_⟩; rw [h, if_pos hlt2, hv]
        · left; rw [h, if_neg hlt2]
      · right; exact ⟨s, by omega, hs2, hs3⟩
    · have : (if ta[(succ ta)^[t] i].toNat < sm then ta[(succ ta)^[t] i].toNat else sm) ≤ sm := by split <;> omega
      omega
    · intro s hs1 hs2
      by_cases hst : s = t + 1
      · subst hst
        have : (if ta[(succ ta)^[t] i].toNat < sm then ta[(succ ta)^[t] i].toNat else sm) ≤ ta[(succ ta)^[t] i].toNat := by
          split <;> omega
        omega
      · exact hall s (by omega) hs2

/-- `mj_sleepCycle` on a sleeping tree of a well-formed array returns the smallest index of its cycle. -/
theorem sleepCycle_spec {ta : TA n} (hc : Cyc ta) (i : Fin n) (hi : 0 ≤ ta[i]) :
    ∃ m : Fin n, sleepCycle ta (i.val : Int) = (m.val : Int) ∧ InOrbit ta i m ∧
      ∀ j, InOrbit ta i j → m.val ≤ j.val := by
  have hr : 0 ≤ ((i.val : Nat) : Int) ∧ ((i.val : Nat) : Int) < (n : Int) := ⟨by omega, by exact_mod_cast i.isLt⟩
  have hp := hc.period_pos i
  obtain ⟨r, hr1, hmem, hle, hall⟩ := sleepCycleGo_spec hc hi (period ta i - 1) 0 i.val (by omega)
  have hrn : r < n := by omega
  refine ⟨⟨r, hrn⟩, ?_, ?_, ?_⟩
  · unfold sleepCycle
    rw [dif_pos hr]
    simp only [Int.toNat_natCast, Fin.eta]
    simpa using hr1
  · rcases hmem with h | ⟨s, _, _, hs⟩
    · exact ⟨0, Fin.ext (by simp [h])⟩
    · exact ⟨s, Fin.ext (by simp [hs])⟩
  · intro j hj
    obtain ⟨t, ht, he⟩ := (inOrbit_iff_lt_period hc i j).1 hj
    simp only
    by_cases h0 : t = 0
    · subst h0; simp at he; rw [← he]; exact hle
    · rw [← he]; exact hall t (by omega) (by omega)

/-! ## mj_sleepTrees -/

variable {nv : Nat} {V : Type}

theorem zeroRange_get (zero : V) (v : Vector V nv) (adr num : Nat) (i : Fin nv) :
    (zeroRange zero v adr num)[i] = if adr ≤ i.val ∧ i.val < adr + num then zero else v[i] := by
  simp [zeroRange]

theorem set_get_fin (ta : TA n) (c j : Fin n) (x : Int) :
    (ta.set c x)[j] = if c = j then x else ta[j] := by
  by_cases h : c = j
  · subst h; simp
  · rw [if_neg h, Fin.getElem_fin, Vector.getElem_set_ne]
    · rfl
    · intro hh; exact h (Fin.ext hh)

/-- The loop of `mj_sleepTrees`, when it completes without error: the trees were distinct and ready, the
    entries outside the list are untouched, and entry `k` of the list points to entry `k+1` (the last one to
    `first`). -/
theorem sleepTreesGo_spec (zero : V) (td : TreeDofs n nv) (first : Fin n) :
    ∀ (l : List (Fin n)) (s s' : St n nv V), sleepTreesGo zero td first l s = (s', none) →
      l.Nodup ∧ (∀ t ∈ l, s.ta[t] = -1) ∧ (∀ j : Fin n, j ∉ l → s'.ta[j] = s.ta[j]) ∧
      (∀ k (hk : k < l.length),
        s'.ta[l[k]] = (((if h : k + 1 < l.length then l[k + 1] else first) : Fin n).val : Int)) := by
  intro l
  induction l with
  | nil =>
    intro s s' h
    simp only [sleepTreesGo, Prod.mk.injEq, and_true] at h
    subst h
    exact ⟨List.nodup_nil, by simp, fun _ _ => rfl, fun k hk => by simp at hk⟩
  | cons cur rest ih =>
    intro s s' h
    simp only [sleepTreesGo] at h
    by_cases hready : s.ta[cur] = -1
    · rw [if_pos hready] at h
      obtain ⟨hnd, hrd, hout, hlink⟩ := ih _ _ h
      simp only at hrd hout hlink
      have hcur : cur ∉ rest := by
        intro hm
        have := hrd cur hm
        rw [set_get_fin, if_pos rfl] at this
        split at this <;> omega
      refine ⟨List.nodup_cons.2 ⟨hcur, hnd⟩, ?_, ?_, ?_⟩
      · intro t ht
        rcases List.mem_cons.1 ht with rfl | ht
        · exact hready
        · have := hrd t ht
          rw [set_get_fin] at this
          by_cases hct : cur = t
          · subst hct; exact (hcur ht).elim
          · rwa [if_neg hct] at this
      · intro j hj
        have hj1 : j ≠ cur := fun e => hj (e ▸ List.mem_cons_self)
        have hj2 : j ∉ rest := fun e => hj (List.mem_cons_of_mem _ e)
        rw [hout j hj2, set_get_fin, if_neg (fun e => hj1 e.symm)]
      · intro k hk
        cases k with
        | zero =>
          simp only [List.getElem_cons_zero]
          rw [hout cur hcur, set_get_fin, if_pos rfl]
          cases rest with
          | nil => simp
          | cons nx more => simp
        | succ k =>
          have hk' : k < rest.length := by simpa using hk
          have := hlink k hk'
          simp only [List.getElem_cons_succ, List.length_cons]
          rw [this]
          by_cases hk2 : k + 1 < rest.length
          · rw [dif_pos hk2, dif_pos (by omega)]
          · rw [dif_neg hk2, dif_neg (by omega)]
    · rw [if_neg hready] at h
      split at h <;> simp at h

/-- successor index inside the list: `k+1`, wrapping to `0` -/
def nextIdx (len k : Nat) : Nat := if k + 1 < len then k + 1 else 0

theorem nextIdx_lt {len k : Nat} (h : k < len) : nextIdx len k < len := by
  unfold nextIdx; split <;> omega

theorem nextIdx_inj {len a b : Nat} (ha : a < len) (hb : b < len) (h : nextIdx len a = nextIdx len b) : a = b := by
  unfold nextIdx at h; split at h <;> split at h <;> omega

/-- `mj_sleepTrees` completing without error: entry `k` points to entry `(k+1) mod len`. -/
theorem sleepTrees_spec (zero : V) (td : TreeDofs n nv) (l : List (Fin n)) (s s' : St n nv V)
    (h : sleepTrees zero td l s = (s', none)) :
    l.Nodup ∧ (∀ t ∈ l, s.ta[t] = -1) ∧ (∀ j : Fin n, j ∉ l → s'.ta[j] = s.ta[j]) ∧
    (∀ k (hk : k < l.length), s'.ta[l[k]] = ((l[nextIdx l.length k]'(nextIdx_lt hk)).val : Int)) := by
  cases l with
  | nil =>
    simp only [sleepTrees, Prod.mk.injEq, and_true] at h
    subst h
    exact ⟨List.nodup_nil, by simp, fun _ _ => rfl, fun k hk => by simp at hk⟩
  | cons first rest =>
    simp only [sleepTrees] at h
    obtain ⟨h1, h2, h3, h4⟩ := sleepTreesGo_spec zero td first _ _ _ h
    refine ⟨h1, h2, h3, ?_⟩
    intro k hk
    rw [h4 k hk]
    unfold nextIdx
    by_cases hk2 : k + 1 < (first :: rest).length
    · simp only [dif_pos hk2, if_pos hk2]
    · simp only [dif_neg hk2, if_neg hk2, List.getElem_cons_zero]

/-- `mj_sleepTrees` preserves the cycle invariant whenever it completes. -/
theorem sleepTrees_cyc (zero : V) (td : TreeDofs n nv) (l : List (Fin n)) (s s' : St n nv V)
    (hc : Cyc s.ta) (h : sleepTrees zero td l s = (s', none)) : Cyc s'.ta := by
  obtain ⟨hnd, hrd, hout, hlink⟩ := sleepTrees_spec zero td l s s' h
  have hin : ∀ j ∈ l, ∃ e ∈ l, s'.ta[j] = (e.val : Int) ∧
      ∀ j' ∈ l, s'.ta[j'] = (e.val : Int) → j' = j := by
    intro j hj
    obtain ⟨k, hk, rfl⟩ := List.getElem_of_mem hj
    refine ⟨l[nextIdx l.length k]'(nextIdx_lt hk), List.getElem_mem _, hlink k hk, ?_⟩
    intro j' hj' he
    obtain ⟨k', hk', rfl⟩ := List.getElem_of_mem hj'
    rw [hlink k' hk'] at he
    have he2 : l[nextIdx l.length k']'(nextIdx_lt hk') = l[nextIdx l.length k]'(nextIdx_lt hk) := by
      apply Fin.ext; omega
    have := (hnd.getElem_inj_iff).1 he2
    have := nextIdx_inj hk' hk this
    subst this; rfl
  have hval : ∀ j ∈ l, 0 ≤ s'.ta[j] := by
    intro j hj
    obtain ⟨e, _, he, _⟩ := hin j hj
    rw [he]; omega
  have hasleep_notin : ∀ k : Fin n, 0 ≤ s.ta[k] → k ∉ l := by
    intro k hk hm; have := hrd k hm; omega
  constructor
  · intro j hj
    by_cases hjl : j ∈ l
    · obtain ⟨e, hel, he, _⟩ := hin j hjl
      exact ⟨e, he, hval e hel⟩
    · rw [hout j hjl] at hj ⊢
      obtain ⟨k, hk, hk2⟩ := hc.closed j hj
      exact ⟨k, hk, by rw [hout k (hasleep_notin k hk2)]; exact hk2⟩
  · intro j k hj hk hjk
    by_cases hjl : j ∈ l <;> by_cases hkl : k ∈ l
    · obtain ⟨e, _, he, huniq⟩ := hin j hjl
      exact (huniq k hkl (by rw [← hjk, he])).symm
    · obtain ⟨e, hel, he, _⟩ := hin j hjl
      rw [hout k hkl] at hk hjk
      obtain ⟨k', hk', hk2'⟩ := hc.closed k hk
      have : e = k' := by apply Fin.ext; omega
      exact ((hasleep_notin k' hk2') (this ▸ hel)).elim
    · obtain ⟨e, hel, he, _⟩ := hin k hkl
      rw [hout j hjl] at hj hjk
      obtain ⟨j', hj', hj2'⟩ := hc.closed j hj
      have : e = j' := by apply Fin.ext; omega
      exact ((hasleep_notin j' hj2') (this ▸ hel)).elim
    · rw [hout j hjl] at hj hjk
      rw [hout k hkl] at hk hjk
      exact hc.inj j k hj hk hjk

/-! ## zero velocity of sleeping trees -/

/-- every dof in the dof range of a sleeping tree has zero velocity -/
def ZInv (zero : V) (td : TreeDofs n nv) (s : St n nv V) : Prop :=
  ∀ (t : Fin n) (i : Fin nv), 0 ≤ s.ta[t] → td.adr[t] ≤ i.val → i.val < td.adr[t] + td.num[t] → s.qvel[i] = zero

theorem sleepTreesGo_zinv (zero : V) (td : TreeDofs n nv) (first : Fin n) :
    ∀ (l : List (Fin n)) (s : St n nv V), ZInv zero td s → ZInv zero td (sleepTreesGo zero td first l s).1 := by
  intro l
  induction l with
  | nil => intro s h; simpa [sleepTreesGo] using h
  | cons cur rest ih =>
    intro s h
    simp only [sleepTreesGo]
    by_cases hready : s.ta[cur] = -1
    · rw [if_pos hready]
      apply ih
      intro t i ht h1 h2
      simp only at ht ⊢
      rw [zeroRange_get]
      by_cases hr : td.adr[cur] ≤ i.val ∧ i.val < td.adr[cur] + td.num[cur]
      · rw [if_pos hr]
      · rw [if_neg hr]
        rw [set_get_fin] at ht
        by_cases hct : cur = t
        · subst hct; exact (hr ⟨h1, h2⟩).elim
        · rw [if_neg hct] at ht; exact h t i ht h1 h2
    · rw [if_neg hready]
      split <;> exact h

theorem sleepTrees_zinv (zero : V) (td : TreeDofs n nv) (l : List (Fin n)) (s : St n nv V)
    (h : ZInv zero td s) : ZInv zero td (sleepTrees zero td l s).1 := by
  cases l with
  | nil => simpa [sleepTrees] using h
  | cons f r => simpa [sleepTrees] using sleepTreesGo_zinv zero td f (f :: r) s h

/-! ## mj_sleep -/

theorem countdown_get (can : Vector Bool n) (ta : TA n) (j : Fin n) :
    (countdown can ta)[j] =
      if ta[j] ≥ 0 then ta[j] else if can[j] then (if ta[j] < -1 then ta[j] + 1 else ta[j]) else kAwake := by
  simp [countdown]

theorem countdown_asleep (can : Vector Bool n) (ta : TA n) (j : Fin n) (h : 0 ≤ ta[j]) :
    (countdown can ta)[j] = ta[j] := by
  rw [countdown_get, if_pos h]

theorem countdown_awake (can : Vector Bool n) (ta : TA n) (j : Fin n) (h : ta[j] < 0) :
    (countdown can ta)[j] < 0 := by
  rw [countdown_get, if_neg (by omega)]
  unfold kAwake minAwake
  split
  · split <;> omega
  · omega

theorem countdown_cyc {ta : TA n} (can : Vector Bool n) (hc : Cyc ta) : Cyc (countdown can ta) := by
  apply hc.awake_change
  intro j
  by_cases h : 0 ≤ ta[j]
  · left; exact countdown_asleep can ta j h
  · right; exact ⟨by omega, countdown_awake can ta j (by omega)⟩

theorem sleepTrees_nil (zero : V) (td : TreeDofs n nv) (s : St n nv V) : sleepTrees zero td [] s = (s, none) := rfl

theorem sleepIslands_cyc (zero : V) (td : TreeDofs n nv) :
    ∀ (isls : List (List (Fin n))) (s s' : St n nv V) (k k' : Nat), Cyc s.ta →
      sleepIslands zero td isls s k = (s', k', none) → Cyc s'.ta := by
  intro isls
  induction isls with
  | nil => intro s s' k k' hc h; simp only [sleepIslands, Prod.mk.injEq, and_true] at h; rw [← h.1]; exact hc
  | cons isl more ih =>
    intro s s' k k' hc h
    simp only [sleepIslands] at h
    cases hcan : islandCanSleep s.ta isl with
    | none => rw [hcan] at h; simp at h
    | some b =>
      rw [hcan] at h
      cases b with
      | false => exact ih _ _ _ _ hc h
      | true =>
        simp only at h
        cases hres : sleepTrees zero td isl s with
        | mk s1 e =>
          rw [hres] at h
          cases e with
          | some e => simp at h
          | none => exact ih _ _ _ _ (sleepTrees_cyc zero td isl s s1 hc hres) h

theorem sleepSingles_cyc (zero : V) (td : TreeDofs n nv) :
    ∀ (l : List (Fin n)) (s s' : St n nv V) (k k' : Nat), Cyc s.ta →
      sleepSingles zero td l s k = (s', k', none) → Cyc s'.ta := by
  intro l
  induction l with
  | nil => intro s s' k k' hc h; simp only [sleepSingles, Prod.mk.injEq, and_true] at h; rw [← h.1]; exact hc
  | cons t more ih =>
    intro s s' k k' hc h
    simp only [sleepSingles] at h
    by_cases hr : s.ta[t] = -1
    · rw [if_pos hr] at h
      cases hres : sleepTrees zero td [t] s with
      | mk s1 e =>
        rw [hres] at h
        cases e with
        | some e => simp at h
        | none => exact ih _ _ _ _ (sleepTrees_cyc zero td [t] s s1 hc hres) h
    · rw [if_neg hr] at h; exact ih _ _ _ _ hc h

/-- `mj_sleep` preserves the cycle invariant whenever it completes. -/
theorem sleep_cyc (zero : V) (td : TreeDofs n nv) (inp : SleepIn n) (s s' : St n nv V) (k : Nat)
    (hc : Cyc s.ta) (h : sleep zero td inp s = (s', k, none)) : Cyc s'.ta := by
  unfold sleep at h
  by_cases h1 : (!inp.enabled) = true
  · rw [if_pos h1] at h; simp only [Prod.mk.injEq, and_true] at h; rw [← h.1]; exact hc
  · rw [if_neg h1] at h
    by_cases h2 : inp.nefc ≠ 0 ∧ inp.islands.isEmpty = true
    · rw [if_pos h2] at h; simp only [Prod.mk.injEq, and_true] at h; rw [← h.1]; exact hc
    · rw [if_neg h2] at h
      simp only at h
      cases hres : sleepIslands zero td inp.islands { s with ta := countdown inp.can s.ta } 0 with
      | mk s2 r =>
        obtain ⟨k2, e⟩ := r
        rw [hres] at h
        cases e with
        | some e => simp at h
        | none =>
          simp only at h
          have hc2 := sleepIslands_cyc zero td _ _ _ _ _ (countdown_cyc inp.can hc) hres
          exact sleepSingles_cyc zero td _ _ _ _ _ hc2 h

theorem sleepIslands_zinv (zero : V) (td : TreeDofs n nv) :
    ∀ (isls : List (List (Fin n))) (s : St n nv V) (k : Nat), ZInv zero td s →
      ZInv zero td (sleepIslands zero td isls s k).1 := by
  intro isls
  induction isls with
  | nil => intro s k h; simpa [sleepIslands] using h
  | cons isl more ih =>
    intro s k h
    simp only [sleepIslands]
    cases hcan : islandCanSleep s.ta isl with
    | none => exact h
    | some b =>
      cases b with
      | false => exact ih _ _ h
      | true =>
        simp only
        have hz := sleepTrees_zinv zero td isl s h
        cases hres : sleepTrees zero td isl s with
        | mk s1 e =>
          rw [hres] at hz
          cases e with
          | some e => exact hz
          | none => exact ih _ _ hz

theorem sleepSingles_zinv (zero : V) (td : TreeDofs n nv) :
    ∀ (l : List (Fin n)) (s : St n nv V) (k : Nat), ZInv zero td s →
      ZInv zero td (sleepSingles zero td l s k).1 := by
  intro l
  induction l with
  | nil => intro s k h; simpa [sleepSingles] using h
  | cons t more ih =>
    intro s k h
    simp only [sleepSingles]
    by_cases hr : s.ta[t] = -1
    · rw [if_pos hr]
      have hz := sleepTrees_zinv zero td [t] s h
      cases hres : sleepTrees zero td [t] s with
      | mk s1 e =>
        rw [hres] at hz
        cases e with
        | some e => exact hz
        | none => exact ih _ _ hz
    · rw [if_neg hr]; exact ih _ _ h

/-- `mj_sleep` keeps "sleeping trees have zero velocity" (on every exit). -/
theorem sleep_zinv (zero : V) (td : TreeDofs n nv) (inp : SleepIn n) (s : St n nv V)
    (h : ZInv zero td s) : ZInv zero td (sleep zero td inp s).1 := by
  unfold sleep
  by_cases h1 : (!inp.enabled) = true
  · rw [if_pos h1]; exact h
  · rw [if_neg h1]
    by_cases h2 : inp.nefc ≠ 0 ∧ inp.islands.isEmpty = true
    · rw [if_pos h2]; exact h
    · rw [if_neg h2]
      simp only
      have h0 : ZInv zero td ({ s with ta := countdown inp.can s.ta } : St n nv V) := by
        intro t i ht a b
        simp only at ht ⊢
        have hs : 0 ≤ s.ta[t] := by
          by_contra hh
          have := countdown_awake inp.can s.ta t (by omega); omega
        exact h t i hs a b
      have hz := sleepIslands_zinv zero td inp.islands _ 0 h0
      cases hres : sleepIslands zero td inp.islands { s with ta := countdown inp.can s.ta } 0 with
      | mk s2 r =>
        obtain ⟨k2, e⟩ := r
        rw [hres] at hz
        cases e with
        | some e => exact hz
        | none => exact sleepSingles_zinv zero td _ _ _ hz

/-! ## mj_wake, mj_wakeCollision -/

theorem kAwake_neg : kAwake < 0 := by unfold kAwake minAwake; omega

theorem wakeSweep_cyc (flag : Vector Bool n) :
    ∀ (l : List (Fin n)) (ta : TA n) (k : Nat), Cyc ta → Cyc (wakeSweep flag l ta k).1 := by
  intro l
  induction l with
  | nil => intro ta k hc; simpa [wakeSweep] using hc
  | cons i more ih =>
    intro ta k hc
    simp only [wakeSweep]
    split
    · have hc' := wakeIsland_cyc hc (i.val : Int) kAwake_neg
      cases hres : wakeIsland ta (i.val : Int) kAwake with
      | mk ta' r =>
        rw [hres] at hc'
        cases r with
        | ok w => exact ih _ _ hc'
        | err e => exact hc'
    · exact ih _ _ hc

/-- `mj_wake` preserves the cycle invariant. -/
theorem wake_cyc {ta : TA n} (enabled : Bool) (nta : Nat) (flag : Vector Bool n) (hc : Cyc ta) :
    Cyc (wake enabled nta flag ta).1 := by
  unfold wake
  split
  · simp only
    split
    · apply cyc_of_all_awake; intro j; simp [kAwake_neg]
    · exact hc
  · exact wakeSweep_cyc flag _ _ _ hc

/-- the stale `tree_awake` array only claims "awake" for trees that are awake -/
def StaleOk (stale : Vector Bool n) (ta : TA n) : Prop := ∀ t : Fin n, stale[t] = true → ta[t] < 0

theorem wakeIsland_staleOk {ta : TA n} {stale : Vector Bool n} (hc : Cyc ta) (hs : StaleOk stale ta) (i : Int)
    {w : Int} (hw : w < 0) : StaleOk stale (wakeIsland ta i w).1 :=
  fun t ht => wakeIsland_awake_mono hc i hw t (hs t ht)

theorem wakeContact_cyc {ta : TA n} {stale : Vector Bool n} (hc : Cyc ta) (hs : StaleOk stale ta) (c : Contact n) :
    Cyc (wakeContact stale ta c).1 ∧ StaleOk stale (wakeContact stale ta c).1 := by
  unfold wakeContact
  split
  · exact ⟨hc, hs⟩
  · split
    · exact ⟨wakeIsland_cyc hc _ kAwake_neg, wakeIsland_staleOk hc hs _ kAwake_neg⟩
    · exact ⟨hc, hs⟩
  · split
    · exact ⟨wakeIsland_cyc hc _ kAwake_neg, wakeIsland_staleOk hc hs _ kAwake_neg⟩
    · exact ⟨hc, hs⟩
  · rename_i t1 t2 _ _
    split
    · exact ⟨hc, hs⟩
    · split
      · exact ⟨hc, hs⟩
      · split
        · rename_i h1
          have hw : ta[t1] < 0 := hs t1 h1
          exact ⟨wakeIsland_cyc hc _ hw, wakeIsland_staleOk hc hs _ hw⟩
        · rename_i hnn h1
          have h2 : stale[t2] = true := by
            by_contra h2
            apply hnn
            simp only [Bool.not_eq_true] at h1 h2
            simp [h1, h2]
          have hw : ta[t2] < 0 := hs t2 h2
          exact ⟨wakeIsland_cyc hc _ hw, wakeIsland_staleOk hc hs _ hw⟩

theorem wakeCollisionGo_cyc (stale : Vector Bool n) :
    ∀ (cs : List (Contact n)) (ta : TA n) (k : Nat), Cyc ta → StaleOk stale ta →
      Cyc (wakeCollisionGo stale cs ta k).1 := by
  intro cs
  induction cs with
  | nil => intro ta k hc _; simpa [wakeCollisionGo] using hc
  | cons c more ih =>
    intro ta k hc hs
    simp only [wakeCollisionGo]
    obtain ⟨h1, h2⟩ := wakeContact_cyc hc hs c
    cases hres : wakeContact stale ta c with
    | mk ta' r =>
      rw [hres] at h1 h2
      cases r with
      | ok w => exact ih _ _ h1 h2
      | err e => exact h1

/-- `mj_wakeCollision` preserves the cycle invariant. -/
theorem wakeCollision_cyc {ta : TA n} (enabled : Bool) (stale : Vector Bool n) (cs : List (Contact n))
    (hc : Cyc ta) (hs : StaleOk stale ta) : Cyc (wakeCollision enabled stale cs ta).1 := by
  unfold wakeCollision
  split
  · exact hc
  · exact wakeCollisionGo_cyc stale cs ta 0 hc hs

theorem wakeIsland_self {ta : TA n} (hc : Cyc ta) (i : Fin n) {w : Int} (hw : w < 0) :
    (wakeIsland ta (i.val : Int) w).1[i] < 0 := by
  by_cases hi : 0 ≤ ta[i]
  · rw [wakeIsland_asleep hc i hi w]
    simp only; rw [wokeUpTo_period hc, if_pos ⟨0, rfl⟩]; exact hw
  · exact wakeIsland_awake_mono hc _ hw i (by omega)

theorem wakeContact_mono {ta : TA n} {stale : Vector Bool n} (hc : Cyc ta) (hs : StaleOk stale ta) (c : Contact n)
    (j : Fin n) (hj : ta[j] < 0) : (wakeContact stale ta c).1[j] < 0 := by
  unfold wakeContact
  split
  · exact hj
  · split
    · exact wakeIsland_awake_mono hc _ kAwake_neg j hj
    · exact hj
  · split
    · exact wakeIsland_awake_mono hc _ kAwake_neg j hj
    · exact hj
  · rename_i t1 t2 _ _
    split
    · exact hj
    · split
      · exact hj
      · split
        · rename_i h1
          exact wakeIsland_awake_mono hc _ (hs t1 h1) j hj
        · rename_i hnn h1
          have h2 : stale[t2] = true := by
            by_contra h2
            apply hnn
            simp only [Bool.not_eq_true] at h1 h2
            simp [h1, h2]
          exact wakeIsland_awake_mono hc _ (hs t2 h2) j hj

/-- awake trees of `ta` are awake in `ta'` -/
def AwakeSub (ta ta' : TA n) : Prop := ∀ j : Fin n, ta[j] < 0 → ta'[j] < 0

theorem wakeCollisionGo_mono (stale : Vector Bool n) :
    ∀ (cs : List (Contact n)) (ta : TA n) (k : Nat), Cyc ta → StaleOk stale ta →
      AwakeSub ta (wakeCollisionGo stale cs ta k).1 := by
  intro cs
  induction cs with
  | nil => intro ta k _ _ j hj; simpa [wakeCollisionGo] using hj
  | cons c more ih =>
    intro ta k hc hs
    simp only [wakeCollisionGo]
    obtain ⟨h1, h2⟩ := wakeContact_cyc hc hs c
    have h3 : AwakeSub ta (wakeContact stale ta c).1 := fun j hj => wakeContact_mono hc hs c j hj
    cases hres : wakeContact stale ta c with
    | mk ta' r =>
      rw [hres] at h1 h2 h3
      cases r with
      | ok w => exact fun j hj => ih _ _ h1 h2 j (h3 j hj)
      | err e => exact h3

/-- both trees awake -/
def BothAwake (ta : TA n) (t1 t2 : Fin n) : Prop := ta[t1] < 0 ∧ ta[t2] < 0

theorem wakeContact_wakes {ta : TA n} {stale : Vector Bool n} (hc : Cyc ta) (hs : StaleOk stale ta) (c : Contact n)
    (t1 t2 : Fin n) (h1 : c.tree1 = some t1) (h2 : c.tree2 = some t2)
    (hst : stale[t1] = true ∨ stale[t2] = true) :
    BothAwake (wakeContact stale ta c).1 t1 t2 := by
  unfold BothAwake
  unfold wakeContact
  simp only [h1, h2]
  split
  · rename_i hb; exact ⟨hs t1 hb.1, hs t2 hb.2⟩
  · split
    · rename_i hn hb
      rcases hst with h | h
      · simp [h] at hb
      · simp [h] at hb
    · split
      · rename_i hb
        exact ⟨wakeIsland_awake_mono hc _ (hs t1 hb) t1 (hs t1 hb), wakeIsland_self hc t2 (hs t1 hb)⟩
      · rename_i hb
        have hb2 : stale[t2] = true := by
          rcases hst with h | h
          · exact (hb h).elim
          · exact h
        exact ⟨wakeIsland_self hc t1 (hs t2 hb2), wakeIsland_awake_mono hc _ (hs t2 hb2) t2 (hs t2 hb2)⟩

/-- After a completed `mj_wakeCollision` every contact between two trees of which the (stale) `tree_awake`
    array reports at least one as awake has both trees awake. -/
theorem wakeCollisionGo_wakes (stale : Vector Bool n) :
    ∀ (cs : List (Contact n)) (ta : TA n) (k : Nat), Cyc ta → StaleOk stale ta →
      ∀ (ta' : TA n) (k' : Nat), wakeCollisionGo stale cs ta k = (ta', .ok k') →
      ∀ c ∈ cs, ∀ t1 t2 : Fin n, c.tree1 = some t1 → c.tree2 = some t2 →
        (stale[t1] = true ∨ stale[t2] = true) → ta'[t1] < 0 ∧ ta'[t2] < 0 := by
  intro cs
  induction cs with
  | nil => intro ta k _ _ ta' k' _ c hc; simp at hc
  | cons c0 more ih =>
    intro ta k hc hs ta' k' hres c hcm t1 t2 h1 h2 hst
    simp only [wakeCollisionGo] at hres
    obtain ⟨g1, g2⟩ := wakeContact_cyc hc hs c0
    cases hr : wakeContact stale ta c0 with
    | mk ta1 r =>
      rw [hr] at hres g1 g2
      cases r with
      | err e => simp at hres
      | ok w =>
        simp only at hres
        rcases List.mem_cons.1 hcm with rfl | hcm
        · have hw := wakeContact_wakes hc hs c t1 t2 h1 h2 hst
          rw [hr] at hw
          have hm := wakeCollisionGo_mono stale more ta1 (k + w) g1 g2
          rw [hres] at hm
          exact ⟨hm t1 hw.1, hm t2 hw.2⟩
        · exact ih ta1 (k + w) g1 g2 ta' k' hres c hcm t1 t2 h1 h2 hst

/-! ## `mj_sleep` returning 0 changed nothing but the countdowns -/

theorem sleepIslands_mono (zero : V) (td : TreeDofs n nv) :
    ∀ (isls : List (List (Fin n))) (s s' : St n nv V) (k k' : Nat),
      sleepIslands zero td isls s k = (s', k', none) → k ≤ k' ∧ (k' = k → s' = s) := by
  intro isls
  induction isls with
  | nil =>
    intro s s' k k' h
    simp only [sleepIslands, Prod.mk.injEq, and_true] at h
    exact ⟨by omega, fun _ => h.1.symm⟩
  | cons isl more ih =>
    intro s s' k k' h
    simp only [sleepIslands] at h
    cases hcan : islandCanSleep s.ta isl with
    | none => rw [hcan] at h; simp at h
    | some b =>
      rw [hcan] at h
      cases b with
      | false => exact ih _ _ _ _ h
      | true =>
        simp only at h
        cases hres : sleepTrees zero td isl s with
        | mk s1 e =>
          rw [hres] at h
          cases e with
          | some e => simp at h
          | none =>
            simp only at h
            obtain ⟨h1, h2⟩ := ih _ _ _ _ h
            refine ⟨by omega, fun hk => ?_⟩
            have hl : isl.length = 0 := by omega
            have : isl = [] := List.length_eq_zero_iff.1 hl
            subst this
            rw [sleepTrees_nil] at hres
            have hs1 : s1 = s := by injection hres with a _; exact a.symm
            rw [h2 (by simp at hk ⊢; omega), hs1]

theorem sleepSingles_mono (zero : V) (td : TreeDofs n nv) :
    ∀ (l : List (Fin n)) (s s' : St n nv V) (k k' : Nat),
      sleepSingles zero td l s k = (s', k', none) → k ≤ k' ∧ (k' = k → s' = s) := by
  intro l
  induction l with
  | nil =>
    intro s s' k k' h
    simp only [sleepSingles, Prod.mk.injEq, and_true] at h
    exact ⟨by omega, fun _ => h.1.symm⟩
  | cons t more ih =>
    intro s s' k k' h
    simp only [sleepSingles] at h
    by_cases hr : s.ta[t] = -1
    · rw [if_pos hr] at h
      cases hres : sleepTrees zero td [t] s with
      | mk s1 e =>
        rw [hres] at h
        cases e with
        | some e => simp at h
        | none =>
          simp only at h
          obtain ⟨h1, _⟩ := ih _ _ _ _ h
          exact ⟨by omega, fun hk => by omega⟩
    · rw [if_neg hr] at h; exact ih _ _ _ _ h

theorem sleep_zero (zero : V) (td : TreeDofs n nv) (inp : SleepIn n) (s s' : St n nv V)
    (h : sleep zero td inp s = (s', 0, none)) :
    (∀ t : Fin n, s'.ta[t] < 0 ↔ s.ta[t] < 0) ∧ s'.qvel = s.qvel := by
  unfold sleep at h
  by_cases h1 : (!inp.enabled) = true
  · rw [if_pos h1] at h; simp only [Prod.mk.injEq, and_true] at h; rw [← h]; exact ⟨fun _ => Iff.rfl, rfl⟩
  · rw [if_neg h1] at h
    by_cases h2 : inp.nefc ≠ 0 ∧ inp.islands.isEmpty = true
    · rw [if_pos h2] at h; simp only [Prod.mk.injEq, and_true] at h; rw [← h]; exact ⟨fun _ => Iff.rfl, rfl⟩
    · rw [if_neg h2] at h
      simp only at h
      cases hres : sleepIslands zero td inp.islands { s with ta := countdown inp.can s.ta } 0 with
      | mk s2 r =>
        obtain ⟨k2, e⟩ := r
        rw [hres] at h
        cases e with
        | some e => simp at h
        | none =>
          simp only at h
          obtain ⟨a1, a2⟩ := sleepIslands_mono zero td _ _ _ _ _ hres
          obtain ⟨b1, b2⟩ := sleepSingles_mono zero td _ _ _ _ _ h
          have hk2 : k2 = 0 := by omega
          have e2 := a2 hk2
          have e1 := b2 (by omega)
          rw [e1, e2]
          refine ⟨fun t => ?_, rfl⟩
          simp only
          constructor
          · intro hh
            by_contra hn
            rw [countdown_asleep _ _ _ (by omega)] at hh; omega
          · intro hh; exact countdown_awake _ _ _ hh

/-! ## mj_updateSleepInit -/

variable {nbody : Nat}

theorem finRange_lt_mem_pre {m : Nat} {pre more : List (Fin m)} {i j : Fin m}
    (h : List.finRange m = pre ++ i :: more) (hj : j.val < i.val) : j ∈ pre := by
  have hm : j ∈ List.finRange m := List.mem_finRange j
  rw [h] at hm
  rcases List.mem_append.1 hm with hp | hp
  · exact hp
  · exfalso
    rcases List.mem_cons.1 hp with rfl | hp
    · omega
    · have hpw := List.pairwise_lt_finRange m
      rw [h, List.pairwise_append] at hpw
      have := (List.pairwise_cons.1 hpw.2.1).1 j hp
      rw [Fin.lt_def] at this; omega

theorem filter_snoc_reverse {α : Type} (p : α → Bool) (pre : List α) (i : α) :
    ((pre ++ [i]).filter p).reverse = if p i = true then i :: (pre.filter p).reverse else (pre.filter p).reverse := by
  rw [List.filter_append, List.reverse_append]
  by_cases h : p i = true
  · rw [if_pos h]; simp [List.filter_cons, h]
  · rw [if_neg h]; simp [List.filter_cons, h]

theorem bodyLoop_spec (flg : Bool) (ta : TA n) (tp : BodyTopo n nbody nv)
    (hpar : ∀ i : Fin nbody, i.val ≠ 0 → (tp.parentid[i]).val < i.val) :
    ∀ (l pre : List (Fin nbody)) (ba : Vector Int nbody) (bi pi : List (Fin nbody)),
      List.finRange nbody = pre ++ l →
      (∀ j ∈ pre, ba[j] = bodyState flg ta tp j) →
      bi = (pre.filter fun j => decide (bodyState flg ta tp j ≠ sAsleep)).reverse →
      pi = (pre.filter fun j => decide (j.val ≠ 0 ∧ bodyState flg ta tp tp.parentid[j] ≠ sAsleep)).reverse →
      (∀ j : Fin nbody, (bodyLoop flg ta tp l ba bi pi).1[j] = bodyState flg ta tp j) ∧
      (bodyLoop flg ta tp l ba bi pi).2.1 =
        (List.finRange nbody).filter (fun j => decide (bodyState flg ta tp j ≠ sAsleep)) ∧
      (bodyLoop flg ta tp l ba bi pi).2.2 =
        (List.finRange nbody).filter (fun j => decide (j.val ≠ 0 ∧ bodyState flg ta tp tp.parentid[j] ≠ sAsleep)) := by
  intro l
  induction l with
  | nil =>
    intro pre ba bi pi hfr hba hbi hpi
    simp only [List.append_nil] at hfr
    simp only [bodyLoop]
    refine ⟨fun j => hba j (hfr ▸ List.mem_finRange j), ?_, ?_⟩
    · rw [hbi, List.reverse_reverse, hfr]
    · rw [hpi, List.reverse_reverse, hfr]
  | cons i more ih =>
    intro pre ba bi pi hfr hba hbi hpi
    simp only [bodyLoop]
    have hi_notin : i ∉ pre := by
      intro hm
      have hnd := List.nodup_finRange nbody
      rw [hfr] at hnd
      have := (List.nodup_append.1 hnd).2.2 i hm i List.mem_cons_self
      exact this rfl
    have hself : (ba.set i (bodyState flg ta tp i))[i] = bodyState flg ta tp i := by
      rw [set_get_fin, if_pos rfl]
    have hparent : i.val ≠ 0 → (ba.set i (bodyState flg ta tp i))[tp.parentid[i]] = bodyState flg ta tp tp.parentid[i] := by
      intro h0
      have hlt := hpar i h0
      rw [set_get_fin, if_neg (by intro e; rw [← e] at hlt; omega)]
      exact hba _ (finRange_lt_mem_pre hfr hlt)
    apply ih (pre ++ [i])
    · rw [hfr]; simp
    · intro j hj
      rcases List.mem_append.1 hj with hj | hj
      · rw [set_get_fin, if_neg (by intro e; exact hi_notin (e ▸ hj))]
        exact hba j hj
      · have : j = i := by simpa using hj
        subst this; exact hself
    · rw [hself, filter_snoc_reverse, hbi]
      by_cases hp : bodyState flg ta tp i ≠ sAsleep
      · rw [if_pos hp, if_pos (decide_eq_true hp)]
      · rw [if_neg hp, if_neg (by rw [decide_eq_true_iff]; exact hp)]
    · rw [filter_snoc_reverse, hpi]
      by_cases h0 : i.val ≠ 0
      · rw [hparent h0]
        by_cases hp : bodyState flg ta tp tp.parentid[i] ≠ sAsleep
        · rw [if_pos ⟨h0, hp⟩, if_pos (decide_eq_true ⟨h0, hp⟩)]
        · rw [if_neg (fun h => hp h.2), if_neg (by rw [decide_eq_true_iff]; exact fun h => hp h.2)]
      · rw [if_neg (fun h => h0 h.1), if_neg (by rw [decide_eq_true_iff]; exact fun h => h0 h.1)]

/-- what the derived arrays are, as filtered index lists -/
structure DerivedSpec (tp : BodyTopo n nbody nv) (flg : Bool) (ta : TA n) (der : Derived n nbody nv) : Prop where
  treeAwake : ∀ t : Fin n, der.treeAwake[t] = if ta[t] < 0 then 1 else 0
  ntree : der.ntreeAwake = ((List.finRange n).filter fun t => decide (ta[t] < 0)).length
  bodyAwake : ∀ b : Fin nbody, der.bodyAwake[b] = bodyState flg ta tp b
  bodyInd : der.bodyAwakeInd = (List.finRange nbody).filter fun b => decide (bodyState flg ta tp b ≠ sAsleep)
  parentInd : der.parentAwakeInd =
    (List.finRange nbody).filter fun b => decide (b.val ≠ 0 ∧ bodyState flg ta tp tp.parentid[b] ≠ sAsleep)
  dofInd : der.dofAwakeInd = (List.finRange nv).filter fun i =>
    decide ((tp.treeid[tp.dofBody[i]]).isSome ∧ bodyState flg ta tp tp.dofBody[i] = sAwake)

theorem updateSleepInit_spec (flg : Bool) (ta : TA n) (tp : BodyTopo n nbody nv) (old : Vector Int nbody)
    (hpar : ∀ i : Fin nbody, i.val ≠ 0 → (tp.parentid[i]).val < i.val) :
    DerivedSpec tp flg ta (updateSleepInit flg ta tp old) := by
  obtain ⟨h1, h2, h3⟩ := bodyLoop_spec flg ta tp hpar (List.finRange nbody) [] old [] []
    (by simp) (by simp) (by simp) (by simp)
  unfold updateSleepInit
  cases hres : bodyLoop flg ta tp (List.finRange nbody) old [] [] with
  | mk ba r =>
    obtain ⟨bi, pi⟩ := r
    rw [hres] at h1 h2 h3
    simp only at h1 h2 h3 ⊢
    constructor
    · intro t; simp
    · rfl
    · exact h1
    · exact h2
    · exact h3
    · simp only
      apply List.filter_congr
      intro i _
      rw [h1]

theorem bodyState_congr (flg : Bool) {ta ta' : TA n} (tp : BodyTopo n nbody nv)
    (h : ∀ t : Fin n, ta'[t] < 0 ↔ ta[t] < 0) (b : Fin nbody) :
    bodyState flg ta' tp b = bodyState flg ta tp b := by
  unfold bodyState
  split
  · rfl
  · rename_i t _
    by_cases ht : ta[t] < 0
    · rw [if_pos ht, if_pos ((h t).2 ht)]
    · rw [if_neg ht, if_neg (fun hh => ht ((h t).1 hh))]

theorem DerivedSpec.congr {tp : BodyTopo n nbody nv} {flg : Bool} {ta ta' : TA n} {der : Derived n nbody nv}
    (hd : DerivedSpec tp flg ta der) (h : ∀ t : Fin n, ta'[t] < 0 ↔ ta[t] < 0) : DerivedSpec tp flg ta' der := by
  have hb := bodyState_congr flg tp h
  constructor
  · intro t; rw [hd.treeAwake t]
    by_cases ht : ta[t] < 0
    · rw [if_pos ht, if_pos ((h t).2 ht)]
    · rw [if_neg ht, if_neg (fun hh => ht ((h t).1 hh))]
  · rw [hd.ntree]; congr 1; apply List.filter_congr; intro t _; rw [decide_eq_decide]; exact (h t).symm
  · intro b; rw [hd.bodyAwake b, hb]
  · rw [hd.bodyInd]; apply List.filter_congr; intro b _; rw [hb]
  · rw [hd.parentInd]; apply List.filter_congr; intro b _; rw [hb]
  · rw [hd.dofInd]; apply List.filter_congr; intro i _; rw [hb]

/-! ## mj_advance -/

variable {njnt : Nat} {P : Type}

theorem addToSclInd_notin (addScl : V → V → V) (qacc : Vector V nv) :
    ∀ (L : List (Fin nv)) (v : Vector V nv) (i : Fin nv), i ∉ L → (addToSclInd addScl qacc L v)[i] = v[i] := by
  intro L
  induction L with
  | nil => intro v i _; rfl
  | cons a more ih =>
    intro v i hi
    simp only [addToSclInd]
    rw [ih _ i (fun h => hi (List.mem_cons_of_mem _ h))]
    rw [Fin.getElem_fin, Vector.getElem_set_ne]
    · rfl
    · intro e; exact hi (by rw [show i = a from (Fin.ext e).symm]; exact List.mem_cons_self)

theorem foldl_set_notin (f : Fin njnt → Vector P njnt → P) :
    ∀ (js : List (Fin njnt)) (q : Vector P njnt) (j : Fin njnt), j ∉ js →
      (js.foldl (fun (q : Vector P njnt) (j' : Fin njnt) => q.set j' (f j' q)) q)[j] = q[j] := by
  intro js
  induction js with
  | nil => intro q j _; rfl
  | cons a more ih =>
    intro q j hj
    simp only [List.foldl_cons]
    rw [ih _ j (fun h => hj (List.mem_cons_of_mem _ h))]
    rw [Fin.getElem_fin, Vector.getElem_set_ne]
    · rfl
    · intro e; exact hj (by rw [show j = a from (Fin.ext e).symm]; exact List.mem_cons_self)

theorem integratePosInd_notin (bj : BodyJnts nbody njnt) (integ : Fin njnt → P → Vector V nv → P)
    (qvel : Vector V nv) :
    ∀ (bodies : List (Fin nbody)) (q : Vector P njnt) (j : Fin njnt),
      (∀ b ∈ bodies, j ∉ bj.joints b) → (integratePosInd bj integ qvel bodies q)[j] = q[j] := by
  intro bodies
  induction bodies with
  | nil => intro q j _; rfl
  | cons b more ih =>
    intro q j hj
    simp only [integratePosInd]
    rw [ih _ j (fun b' hb' => hj b' (List.mem_cons_of_mem _ hb'))]
    exact foldl_set_notin (fun j' q => integ j' q[j'] qvel) _ q j (hj b List.mem_cons_self)

end MjProof.Sleep
