import MjProof.Lemmas.SupportShapes
import Mathlib.Algebra.Order.Archimedean.Real.Basic
import Mathlib.Order.ConditionallyCompleteLattice.Basic
/-
C15 helper lemmas, part 3: from the per-shape facts to the statements about sets of points —

* the support function in the world frame (`support_in`, `support_ge`);
* shrinking a point of the `k`-scaled shape into the shape (`mem_scaled`, `shrink_dist`);
* distance between two geoms (`setDist`), separation by a translation (`Separates`), penetration depth (`penDepth`);
* the two certificate facts: a unit direction bounds the distance from below / the depth from above.
-/
set_option linter.unusedVariables false
set_option linter.unusedSimpArgs false
namespace MjProof.SupportLemmas
open MjProof MjProof.Support

/-! ### the support function in the world frame -/
theorem mem_l2g (g : Geom ℝ) (h : IsRot g.mat) (s : V3 ℝ) :
    mem g (localToGlobal g.mat s g.pos) = memLocal g.kind g.size s := by
  unfold mem toLocal; rw [mulT_l2g h]

theorem unit_local {m : M3 ℝ} (h : IsRot m) {d : V3 ℝ} (hd : V3.dot d d = 1) :
    V3.dot (mulMatTVec3 m d) (mulMatTVec3 m d) = 1 := by rw [dot_mulT h, hd]

/-- the support point lies in the shape -/
theorem support_in (g : Geom ℝ) (h : WF g) (d : V3 ℝ) (hd : V3.dot d d = 1) : InGeom g (support g d) := by
  unfold InGeom
  rw [support_eq g h.rot, mem_l2g g h.rot]
  exact localSupp_mem g.kind g.size _ h.size (unit_local h.rot hd)

/-- the support point maximises `⟨d, ·⟩` over the shape (up to `degSlack`) -/
theorem support_ge (g : Geom ℝ) (h : WF g) (d : V3 ℝ) (hd : V3.dot d d = 1) (y : V3 ℝ) (hy : InGeom g y) :
    V3.dot d y ≤ V3.dot d (support g d) + degSlack g d := by
  have hl := localSupp_max g.kind g.size (mulMatTVec3 g.mat d) (toLocal g y) h.size (unit_local h.rot hd) hy
  rw [slackLocal_eq] at hl
  rw [support_eq g h.rot, dot_l2g, dot_eq_local h.rot d y g.pos]
  unfold toLocal at hl
  linarith

/-! ### shrinking the scaled shape -/
theorem clampSym_div (z l k : ℝ) (hk : 0 < k) : clampSym (z / k) l = clampSym z (k * l) / k := by
  rw [clampSym_real, clampSym_real]
  have e1 : (l < z / k) ↔ (k * l < z) := by rw [lt_div_iff₀ hk, mul_comm]
  have e2 : (z / k < -l) ↔ (z < -(k * l)) := by rw [div_lt_iff₀ hk]; constructor <;> intro h <;> linarith
  by_cases h1 : k * l < z
  · simp only [e1, h1, if_true]; field_simp
  · simp only [e1, h1, if_false]
    by_cases h2 : z < -(k * l)
    · simp only [e2, h2, if_true]; field_simp
    · simp only [e2, h2, if_false]

theorem memLocal_scaled (kind : Kind) (size q : V3 ℝ) (k : ℝ) (hk : 0 < k)
    (h : memLocal kind (V3.scale k size) q = true) : memLocal kind size (V3.divs q k) = true := by
  have hk0 : k ≠ 0 := hk.ne'
  have hkk : 0 < k * k := mul_pos hk hk
  cases kind <;> simp only [memLocal] at h ⊢ <;> real_ops_at h <;> real_ops <;>
    simp only [scale_x, scale_y, scale_z, divs_x, divs_y, divs_z, dot_real] at h ⊢
  · -- sphere
    have e : q.x / k * (q.x / k) + q.y / k * (q.y / k) + q.z / k * (q.z / k)
        = (q.x * q.x + q.y * q.y + q.z * q.z) / (k * k) := by field_simp
    rw [e, div_le_iff₀ hkk]; nlinarith
  · -- capsule
    rw [clampSym_div _ _ _ hk]
    have e : q.x / k * (q.x / k) + q.y / k * (q.y / k)
        + (q.z / k - clampSym q.z (k * size.y) / k) * (q.z / k - clampSym q.z (k * size.y) / k)
        = (q.x * q.x + q.y * q.y + (q.z - clampSym q.z (k * size.y)) * (q.z - clampSym q.z (k * size.y))) / (k * k) := by
      field_simp
    rw [e, div_le_iff₀ hkk]; nlinarith
  · -- ellipsoid
    have e1 : q.x / k / size.x = q.x / (k * size.x) := by rw [div_div]
    have e2 : q.y / k / size.y = q.y / (k * size.y) := by rw [div_div]
    have e3 : q.z / k / size.z = q.z / (k * size.z) := by rw [div_div]
    rw [e1, e2, e3]; exact h
  · -- cylinder
    obtain ⟨⟨h1, h2⟩, h3⟩ := h
    refine ⟨⟨?_, ?_⟩, ?_⟩
    · have e : q.x / k * (q.x / k) + q.y / k * (q.y / k) = (q.x * q.x + q.y * q.y) / (k * k) := by field_simp
      rw [e, div_le_iff₀ hkk]; nlinarith
    · rw [le_div_iff₀ hk]; nlinarith
    · rw [div_le_iff₀ hk]; nlinarith
  · -- box
    obtain ⟨⟨⟨⟨⟨a1, a2⟩, b1⟩, b2⟩, c1⟩, c2⟩ := h
    refine ⟨⟨⟨⟨⟨?_, ?_⟩, ?_⟩, ?_⟩, ?_⟩, ?_⟩
    · rw [le_div_iff₀ hk]; nlinarith
    · rw [div_le_iff₀ hk]; nlinarith
    · rw [le_div_iff₀ hk]; nlinarith
    · rw [div_le_iff₀ hk]; nlinarith
    · rw [le_div_iff₀ hk]; nlinarith
    · rw [div_le_iff₀ hk]; nlinarith
  · -- point
    have e : q.x / k * (q.x / k) + q.y / k * (q.y / k) + q.z / k * (q.z / k)
        = (q.x * q.x + q.y * q.y + q.z * q.z) / (k * k) := by field_simp
    rw [e, div_le_iff₀ hkk]; nlinarith
  · -- line
    obtain ⟨⟨h1, h2⟩, h3⟩ := h
    refine ⟨⟨?_, ?_⟩, ?_⟩
    · have e : q.x / k * (q.x / k) + q.y / k * (q.y / k) = (q.x * q.x + q.y * q.y) / (k * k) := by field_simp
      rw [e, div_le_iff₀ hkk]; nlinarith
    · rw [le_div_iff₀ hk]; nlinarith
    · rw [div_le_iff₀ hk]; nlinarith

/-- the point `pos + (x − pos)/k` -/
noncomputable def shrink (g : Geom ℝ) (k : ℝ) (x : V3 ℝ) : V3 ℝ := V3.add g.pos (V3.divs (V3.sub x g.pos) k)

theorem toLocal_shrink (g : Geom ℝ) (k : ℝ) (x : V3 ℝ) : toLocal g (shrink g k x) = V3.divs (toLocal g x) k := by
  unfold toLocal shrink
  apply V3.ext' <;> simp only [mulT_x, mulT_y, mulT_z, sub_x, sub_y, sub_z, add_x, add_y, add_z, divs_x, divs_y, divs_z] <;>
    ring

/-- a point of the `k`-scaled shape shrinks into the shape -/
theorem mem_scaled (g : Geom ℝ) (k : ℝ) (hk : 0 < k) (x : V3 ℝ) (h : mem (scaled g k) x = true) :
    InGeom g (shrink g k x) := by
  unfold InGeom mem
  rw [toLocal_shrink]
  exact memLocal_scaled g.kind g.size _ k hk h

/-- … and moves by at most `(k − 1) ‖x − pos‖` -/
theorem shrink_dist (g : Geom ℝ) (k : ℝ) (hk : 1 ≤ k) (x : V3 ℝ) :
    V3.norm (V3.sub x (shrink g k x)) ≤ (k - 1) * V3.norm (V3.sub x g.pos) := by
  have hk0 : 0 < k := by linarith
  have e : V3.sub x (shrink g k x) = V3.scale (1 - 1 / k) (V3.sub x g.pos) := by
    unfold shrink
    apply V3.ext' <;> simp only [sub_x, sub_y, sub_z, add_x, add_y, add_z, divs_x, divs_y, divs_z, scale_x, scale_y, scale_z] <;>
      field_simp <;> ring
  rw [e, norm_scale]
  have h1 : 0 ≤ 1 - 1 / k := by rw [sub_nonneg, div_le_one hk0]; exact hk
  rw [abs_of_nonneg h1]
  apply mul_le_mul_of_nonneg_right _ (norm_nonneg _)
  have : 1 - 1 / k = (k - 1) / k := by field_simp
  rw [this, div_le_iff₀ hk0]; nlinarith

/-! ### distance between two geoms -/
/-- the set of distances between a point of `A` and a point of `B` -/
def distSet (A B : Geom ℝ) : Set ℝ := {r | ∃ a b, InGeom A a ∧ InGeom B b ∧ r = V3.norm (V3.sub b a)}

/-- the distance between the two shapes -/
noncomputable def setDist (A B : Geom ℝ) : ℝ := sInf (distSet A B)

theorem distSet_bdd (A B : Geom ℝ) : BddBelow (distSet A B) :=
  ⟨0, fun r ⟨a, b, _, _, hr⟩ => hr ▸ norm_nonneg _⟩

theorem setDist_le {A B : Geom ℝ} {a b : V3 ℝ} (ha : InGeom A a) (hb : InGeom B b) :
    setDist A B ≤ V3.norm (V3.sub b a) :=
  csInf_le (distSet_bdd A B) ⟨a, b, ha, hb, rfl⟩

theorem le_setDist {A B : Geom ℝ} {a0 b0 : V3 ℝ} (ha0 : InGeom A a0) (hb0 : InGeom B b0) (L : ℝ)
    (h : ∀ a b, InGeom A a → InGeom B b → L ≤ V3.norm (V3.sub b a)) : L ≤ setDist A B :=
  le_csInf ⟨_, a0, b0, ha0, hb0, rfl⟩ (fun r ⟨a, b, ha, hb, hr⟩ => hr ▸ h a b ha hb)

theorem distSet_comm (A B : Geom ℝ) : distSet A B = distSet B A := by
  ext r; constructor
  · rintro ⟨a, b, ha, hb, hr⟩; exact ⟨b, a, hb, ha, by rw [hr, norm_sub_comm]⟩
  · rintro ⟨a, b, ha, hb, hr⟩; exact ⟨b, a, hb, ha, by rw [hr, norm_sub_comm]⟩

theorem setDist_comm (A B : Geom ℝ) : setDist A B = setDist B A := by
  unfold setDist; rw [distSet_comm]

/-- `h_A(n) + h_B(−n)` through the support points, for a unit vector `n` -/
noncomputable def overlapUnit (A B : Geom ℝ) (n : V3 ℝ) : ℝ :=
  V3.dot n (V3.sub (support A n) (support B (V3.neg n)))

theorem overlapAlong_eq (A B : Geom ℝ) (w : V3 ℝ) :
    overlapAlong A B w = overlapUnit A B (V3.divs w (V3.norm w)) := rfl

/-- total degenerate-branch slack of the pair along `n` -/
noncomputable def pairSlack (A B : Geom ℝ) (n : V3 ℝ) : ℝ := degSlack A n + degSlack B (V3.neg n)

theorem pairSlack_nonneg (A B : Geom ℝ) (hA : WF A) (hB : WF B) (n : V3 ℝ) : 0 ≤ pairSlack A B n :=
  add_nonneg (degSlack_nonneg A hA n) (degSlack_nonneg B hB _)

/-- every pair of points of `A` and `B` is at least `−overlap` apart along the unit vector `n` -/
theorem sep_along (A B : Geom ℝ) (hA : WF A) (hB : WF B) (n : V3 ℝ) (hn : V3.dot n n = 1)
    (a b : V3 ℝ) (ha : InGeom A a) (hb : InGeom B b) :
    -(overlapUnit A B n) - pairSlack A B n ≤ V3.dot n (V3.sub b a) := by
  have h1 := support_ge A hA n hn a ha
  have hn' : V3.dot (V3.neg n) (V3.neg n) = 1 := by rw [dot_neg_neg, hn]
  have h2 := support_ge B hB (V3.neg n) hn' b hb
  rw [dot_neg_left, dot_neg_left] at h2
  unfold overlapUnit pairSlack
  rw [dot_sub_right, dot_sub_right]
  linarith

theorem sep_lower (A B : Geom ℝ) (hA : WF A) (hB : WF B) (n : V3 ℝ) (hn : V3.dot n n = 1)
    (a b : V3 ℝ) (ha : InGeom A a) (hb : InGeom B b) :
    -(overlapUnit A B n) - pairSlack A B n ≤ V3.norm (V3.sub b a) := by
  have h := sep_along A B hA hB n hn a b ha hb
  have h2 := dot_le_norm_mul n (V3.sub b a)
  rw [norm_of_unit hn, one_mul] at h2
  linarith

/-! ### separation by translation, penetration depth -/
/-- translating `A` by `t` makes it disjoint from `B` -/
def Separates (A B : Geom ℝ) (t : V3 ℝ) : Prop := ∀ a b, InGeom A a → InGeom B b → V3.add a t ≠ b

/-- lengths of separating translations -/
def sepSet (A B : Geom ℝ) : Set ℝ := {r | ∃ t, Separates A B t ∧ r = V3.norm t}

/-- penetration depth: the infimum of the lengths of the translations of `A` that make it disjoint from `B`
    (0 when the shapes are disjoint) -/
noncomputable def penDepth (A B : Geom ℝ) : ℝ := sInf (sepSet A B)

theorem sepSet_bdd (A B : Geom ℝ) : BddBelow (sepSet A B) :=
  ⟨0, fun r ⟨t, _, hr⟩ => hr ▸ norm_nonneg _⟩

/-- translating `A` against the unit vector `n` by more than the overlap separates -/
theorem pen_separates (A B : Geom ℝ) (hA : WF A) (hB : WF B) (n : V3 ℝ) (hn : V3.dot n n = 1) (s : ℝ)
    (hs : overlapUnit A B n + pairSlack A B n < s) : Separates A B (V3.scale (-s) n) := by
  intro a b ha hb hab
  have h := sep_along A B hA hB n hn a b ha hb
  have e : V3.dot n (V3.sub b a) = -s := by
    rw [← hab]
    simp only [dot_real, sub_x, sub_y, sub_z, add_x, add_y, add_z, scale_x, scale_y, scale_z]
    rw [dot_real] at hn
    linear_combination (-s) * hn
  linarith

theorem penDepth_le (A B : Geom ℝ) (hA : WF A) (hB : WF B) (n : V3 ℝ) (hn : V3.dot n n = 1) :
    penDepth A B ≤ max 0 (overlapUnit A B n + pairSlack A B n) := by
  apply le_of_forall_pos_le_add
  intro η hη
  set s := max 0 (overlapUnit A B n + pairSlack A B n) + η with hs
  have h0 : 0 < s := by have := le_max_left 0 (overlapUnit A B n + pairSlack A B n); linarith
  have h1 : overlapUnit A B n + pairSlack A B n < s := by
    have := le_max_right 0 (overlapUnit A B n + pairSlack A B n); linarith
  have hsep := pen_separates A B hA hB n hn s h1
  have hnorm : V3.norm (V3.scale (-s) n) = s := by
    rw [norm_scale, norm_of_unit hn, mul_one, abs_neg, abs_of_pos h0]
  exact csInf_le (sepSet_bdd A B) ⟨_, hsep, hnorm.symm⟩

/-! ### real forms of the certificate fields -/
theorem sepCert_slack (A B : Geom ℝ) (x1 x2 w : V3 ℝ) (k : ℝ) :
    (sepCert A B x1 x2 w k).slack = (k - 1) * (V3.norm (V3.sub x1 A.pos) + V3.norm (V3.sub x2 B.pos)) := by
  simp only [sepCert, r_mul, r_sub, r_add, one_real]

theorem penCert_slack (A B : Geom ℝ) (x1 x2 w : V3 ℝ) (k : ℝ) :
    (penCert A B x1 x2 w k).slack = (k - 1) * (V3.norm (V3.sub x1 A.pos) + V3.norm (V3.sub x2 B.pos)) := by
  simp only [penCert, r_mul, r_sub, r_add, one_real]

/-! ### the swap lemma -/
/-- if every pair of points is at least `ℓ − ε` apart along the unit vector `n`, a pair `(a', b')` at distance
    `≤ ρ` has its difference vector within `√(ρ² − ℓ² + 2ℓε)` of `ℓ n` -/
theorem witness_vector_close (n u : V3 ℝ) (hn : V3.dot n n = 1) (ℓ ε ρ : ℝ) (hℓ : 0 ≤ ℓ)
    (hL : ℓ - ε ≤ V3.dot n u) (hρ : V3.norm u ≤ ρ) :
    V3.dot (V3.sub (V3.scale ℓ n) u) (V3.sub (V3.scale ℓ n) u) ≤ ρ * ρ - ℓ * ℓ + 2 * ℓ * ε := by
  have e : V3.dot (V3.sub (V3.scale ℓ n) u) (V3.sub (V3.scale ℓ n) u)
      = ℓ * ℓ * V3.dot n n - 2 * ℓ * V3.dot n u + V3.dot u u := by
    simp only [dot_real, sub_x, sub_y, sub_z, scale_x, scale_y, scale_z]; ring
  have hu : V3.dot u u ≤ ρ * ρ := by
    rw [← norm_sq]; exact mul_self_le_mul_self (norm_nonneg u) hρ
  rw [e, hn]
  nlinarith

end MjProof.SupportLemmas
