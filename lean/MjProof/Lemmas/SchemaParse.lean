import MjProof.Spec.SchemaWF
import Lean.Elab.Tactic
/-
C41 helper lemmas: everything `_Parser.parse` returns satisfies the parse-level rules `ParseWF`.
One lemma per parser function: "if it returns a value, the value is well-formed".
-/
namespace MjProof.Schema

variable {N : Nat}

open Lean Elab Tactic Meta in
/-- Adds `x.property` for every local hypothesis `x` whose type is a subtype (the position-progress
    facts carried by `Adv` / `AdvLe`), so that `omega` can use them. -/
elab "subtype_props" : tactic => withMainContext do
  let lctx ← getLCtx
  for d in lctx do
    if d.isImplementationDetail then continue
    let ty ← whnfR (← instantiateMVars d.type)
    if ty.isAppOf ``Subtype then
      let prf ← mkAppM ``Subtype.property #[d.toExpr]
      let t := (← instantiateMVars (← inferType prf)).headBeta
      liftMetaTactic fun g => do
        let g' ← g.assert (← mkFreshUserName `hp) t prf
        let (_, g'') ← g'.intro1P
        return [g'']

/-- Case-split every `match`/`if` of a hypothesis `h : f ... = .ok _`, discarding the error branches. -/
macro "ok_cases" h:ident : tactic =>
  `(tactic| repeat' (first
      | contradiction
      | (split at $h:ident)))

theorem parseArityBody_wf {c : PCtx N} {p : Nat} {ar : Arity} {q : Adv c p}
    (h : parseArityBody c p = .ok (ar, q)) : ar.WF := by
  unfold parseArityBody at h
  ok_cases h
  all_goals
    simp only [Except.ok.injEq, Prod.mk.injEq] at h
    obtain ⟨rfl, _⟩ := h
    intro k hk
    simp only [Hi.num.injEq, reduceCtorEq] at hk
  all_goals (dsimp only; omega)

theorem targetType?_hasTarget {v : String} {ty : Ty} (h : targetType? v = some ty) : ty.hasTarget = true := by
  unfold targetType? at h
  split at h <;> first | (cases h; rfl) | contradiction

theorem scalarType?_noTarget {v : String} {ty : Ty} (h : scalarType? v = some ty) : ty.hasTarget = false := by
  unfold scalarType? at h
  split at h <;> first | (cases h; rfl) | contradiction

theorem Arity.scalar_wf : (⟨1, .num 1⟩ : Arity).WF := by
  intro k hk; simp only [Hi.num.injEq] at hk; dsimp only; omega

theorem parseType_wf {c : PCtx N} {p : Nat} {ty : Ty} {tg : Option String} {ar : Arity} {q : Adv c p}
    (h : parseType c p = .ok ((ty, tg, ar), q)) :
    ar.WF ∧ (ty.hasTarget = true → tg.isSome ∧ ar = ⟨1, .num 1⟩) ∧ (ty.hasTarget = false → tg = none) := by
  unfold parseType at h
  ok_cases h
  all_goals
    simp only [Except.ok.injEq, Prod.mk.injEq] at h
    obtain ⟨⟨rfl, rfl, rfl⟩, _⟩ := h
  all_goals first
    | (have ht := targetType?_hasTarget ‹_›; simp [ht, Arity.scalar_wf])
    | (have hs := scalarType?_noTarget ‹_›
       first
         | (have hb := parseArityBody_wf ‹_›; simp [hs, hb])
         | simp [hs, Arity.scalar_wf])

theorem FacetsWF.snoc {known : List String} {acc : Facets} {k : String} (v : FacetVal)
    (hacc : FacetsWF known acc) (hk : ¬¬ k ∈ known) (hd : ¬ k ∈ acc.map (·.1)) :
    FacetsWF known (acc ++ [(k, v)]) := by
  refine ⟨?_, ?_⟩
  · intro e he
    rcases List.mem_append.mp he with he | he
    · exact hacc.1 e he
    · rw [List.mem_singleton.mp he]; exact Decidable.not_not.mp hk
  · rw [List.map_append, List.nodup_append]
    refine ⟨hacc.2, by simp, ?_⟩
    intro a ha b hb
    simp only [List.map_cons, List.map_nil, List.mem_singleton] at hb
    rw [hb]; rintro rfl; exact hd ha

theorem FacetsWF.nil {known : List String} : FacetsWF known [] := ⟨by simp, by simp⟩

theorem parseFacets_wf {c : PCtx N} {known : List String} {p : Nat} {acc fs : Facets} {q : Adv c p}
    (h : parseFacets c known p acc = .ok (fs, q)) (hacc : FacetsWF known acc) : FacetsWF known fs := by
  unfold parseFacets at h
  ok_cases h
  all_goals
    simp only [Except.ok.injEq, Prod.mk.injEq] at h
    obtain ⟨rfl, _⟩ := h
    have hstep := fun v => FacetsWF.snoc v hacc (by assumption) (by assumption)
  · exact hstep _
  · exact parseFacets_wf ‹_› (hstep _)
termination_by c.toks.size - p
decreasing_by all_goals (subtype_props; omega)

theorem parseOptFacets_wf {c : PCtx N} {known : List String} {p : Nat} {fs : Facets} {q : AdvLe c p}
    (h : parseOptFacets c known p = .ok (fs, q)) : FacetsWF known fs := by
  unfold parseOptFacets at h
  ok_cases h
  all_goals
    simp only [Except.ok.injEq, Prod.mk.injEq] at h
    obtain ⟨rfl, _⟩ := h
  · exact FacetsWF.nil
  · exact parseFacets_wf ‹_› FacetsWF.nil

theorem parseAttr_wf {c : PCtx N} {t : Token N} {p : Nat} {a : Attr N} {q : Adv c p}
    (h : parseAttr c t p = .ok (a, q)) : AttrParseWF a := by
  unfold parseAttr at h
  ok_cases h
  simp only [Except.ok.injEq, Prod.mk.injEq] at h
  obtain ⟨rfl, _⟩ := h
  have ht := parseType_wf ‹_›
  have hf := parseOptFacets_wf ‹_›
  exact ⟨ht.1, hf, ht.2.1, ht.2.2⟩

theorem parseBundleLoop_ne {c : PCtx N} {p : Nat} {acc b : List String} {q : AdvLe c p}
    (h : parseBundleLoop c p acc = .ok (b, q)) (hacc : acc ≠ []) : b ≠ [] := by
  unfold parseBundleLoop at h
  ok_cases h
  all_goals
    simp only [Except.ok.injEq, Prod.mk.injEq] at h
    obtain ⟨rfl, _⟩ := h
  · simpa using hacc
  · exact parseBundleLoop_ne ‹_› (by simp)
termination_by c.toks.size - p
decreasing_by all_goals (subtype_props; omega)

theorem parseBundles_wf {c : PCtx N} {line : Line N} {p : Nat} {acc bs : List (List String)} {q : AdvLe c p}
    (h : parseBundles c line p acc = .ok (bs, q)) (hacc : ∀ b ∈ acc, b ≠ []) : ∀ b ∈ bs, b ≠ [] := by
  unfold parseBundles at h
  ok_cases h
  all_goals
    simp only [Except.ok.injEq, Prod.mk.injEq] at h
    obtain ⟨rfl, _⟩ := h
  · simpa using hacc
  · refine parseBundles_wf ‹_› ?_
    intro b hb
    rcases List.mem_cons.mp hb with rfl | hb
    · exact parseBundleLoop_ne ‹_› (by simp)
    · exact hacc b hb
  · simpa using hacc
termination_by c.toks.size - p
decreasing_by all_goals (subtype_props; omega)

theorem parseMember_wf {c : PCtx N} {allow : Bool} {p : Nat} {m : Member N} {q : Adv c p}
    (h : parseMember c allow p = .ok (m, q)) : MemberParseWF allow m := by
  unfold parseMember at h
  ok_cases h
  all_goals
    simp only [Except.ok.injEq, Prod.mk.injEq] at h
    obtain ⟨rfl, _⟩ := h
  · trivial
  · refine ⟨by dsimp only; omega, parseBundles_wf ‹_› (by simp)⟩
  · show allow = true
    simpa using ‹¬ ¬ allow = true›
  · show allow = true
    simpa using ‹¬ ¬ allow = true›
  · exact parseAttr_wf ‹_›

theorem parseMembers_wf {c : PCtx N} {allow : Bool} {p : Nat} {acc ms : List (Member N)} {q : Adv c p}
    (h : parseMembers c allow p acc = .ok (ms, q)) (hacc : ∀ m ∈ acc, MemberParseWF allow m) :
    ∀ m ∈ ms, MemberParseWF allow m := by
  unfold parseMembers at h
  ok_cases h
  all_goals
    simp only [Except.ok.injEq, Prod.mk.injEq] at h
    obtain ⟨rfl, _⟩ := h
  · simpa using hacc
  · refine parseMembers_wf ‹_› ?_
    intro m hm
    rcases List.mem_cons.mp hm with rfl | hm
    · exact parseMember_wf ‹_›
    · exact hacc m hm
termination_by c.toks.size - p
decreasing_by all_goals (subtype_props; omega)

theorem parseEnumItems_wf {c : PCtx N} {p : Nat} {acc items : List (String × String)} {q : Adv c p}
    (h : parseEnumItems c p acc = .ok (items, q)) (hacc : (acc.map (·.1)).Nodup) :
    (items.map (·.1)).Nodup := by
  unfold parseEnumItems at h
  ok_cases h
  all_goals
    simp only [Except.ok.injEq, Prod.mk.injEq] at h
    obtain ⟨rfl, _⟩ := h
  · rw [List.map_reverse]; exact (List.reverse_perm _).nodup_iff.mpr hacc
  · refine parseEnumItems_wf ‹_› ?_
    simp only [List.map_cons, List.nodup_cons]
    exact ⟨by assumption, hacc⟩
termination_by c.toks.size - p
decreasing_by all_goals (subtype_props; omega)

theorem parseEnum_wf {c : PCtx N} {line : Line N} {p : Nat} {e : Enum N} {q : Adv c p}
    (h : parseEnum c line p = .ok (e, q)) : EnumParseWF e := by
  unfold parseEnum at h
  ok_cases h
  simp only [Except.ok.injEq, Prod.mk.injEq] at h
  obtain ⟨rfl, _⟩ := h
  exact ⟨by assumption, parseEnumItems_wf ‹_› (by simp)⟩

theorem parseGroup_wf {c : PCtx N} {line : Line N} {p : Nat} {g : Group N} {q : Adv c p}
    (h : parseGroup c line p = .ok (g, q)) : GroupParseWF g := by
  unfold parseGroup at h
  ok_cases h
  simp only [Except.ok.injEq, Prod.mk.injEq] at h
  obtain ⟨rfl, _⟩ := h
  exact ⟨by assumption, parseMembers_wf ‹_› (by simp)⟩

theorem parseElement_wf {c : PCtx N} {line : Line N} {p : Nat} {e : Element N} {q : Adv c p}
    (h : parseElement c line p = .ok (e, q)) : ElementParseWF e := by
  unfold parseElement at h
  ok_cases h
  simp only [Except.ok.injEq, Prod.mk.injEq] at h
  obtain ⟨rfl, _⟩ := h
  exact ⟨parseOptFacets_wf ‹_›, parseMembers_wf ‹_› (by simp)⟩

/-- Invariant of the declaration loop (the accumulators are in reverse declaration order). -/
structure DeclsInv (es : List (Enum N)) (gs : List (Group N)) (ls : List (Element N)) : Prop where
  eu : (es.map (·.name)).Nodup
  gu : (gs.map (·.name)).Nodup
  lu : (ls.map (·.name)).Nodup
  ew : ∀ e ∈ es, EnumParseWF e
  gw : ∀ g ∈ gs, GroupParseWF g
  lw : ∀ e ∈ ls, ElementParseWF e

theorem nodup_map_reverse {α β : Type} (f : α → β) (l : List α) (h : (l.map f).Nodup) :
    (l.reverse.map f).Nodup := by
  rw [List.map_reverse]; exact (List.reverse_perm _).nodup_iff.mpr h

theorem parseDecls_wf {c : PCtx N} {p : Nat} {es : List (Enum N)} {gs : List (Group N)} {ls : List (Element N)}
    {s : Schema N} (h : parseDecls c p es gs ls = .ok s) (inv : DeclsInv es gs ls) : ParseWF s := by
  unfold parseDecls at h
  ok_cases h
  · simp only [Except.ok.injEq] at h
    subst h
    exact ⟨nodup_map_reverse _ _ inv.eu, nodup_map_reverse _ _ inv.gu, nodup_map_reverse _ _ inv.lu,
      fun e he => inv.ew e (List.mem_reverse.mp he), fun e he => inv.gw e (List.mem_reverse.mp he),
      fun e he => inv.lw e (List.mem_reverse.mp he)⟩
  · refine parseDecls_wf h ⟨?_, inv.gu, inv.lu, ?_, inv.gw, inv.lw⟩
    · simp only [List.map_cons, List.nodup_cons]; exact ⟨by assumption, inv.eu⟩
    · intro e he
      rcases List.mem_cons.mp he with rfl | he
      · exact parseEnum_wf ‹_›
      · exact inv.ew e he
  · refine parseDecls_wf h ⟨inv.eu, ?_, inv.lu, inv.ew, ?_, inv.lw⟩
    · simp only [List.map_cons, List.nodup_cons]; exact ⟨by assumption, inv.gu⟩
    · intro e he
      rcases List.mem_cons.mp he with rfl | he
      · exact parseGroup_wf ‹_›
      · exact inv.gw e he
  · refine parseDecls_wf h ⟨inv.eu, inv.gu, ?_, inv.ew, inv.gw, ?_⟩
    · simp only [List.map_cons, List.nodup_cons]; exact ⟨by assumption, inv.lu⟩
    · intro e he
      rcases List.mem_cons.mp he with rfl | he
      · exact parseElement_wf ‹_›
      · exact inv.lw e he
termination_by c.toks.size - p
decreasing_by all_goals (subtype_props; omega)

/-- Everything the parser returns satisfies the parse-level rules. -/
theorem parseText_wf {text : List Char} {s : Schema (nlines text)} (h : parseText text = .ok s) : ParseWF s := by
  unfold parseText at h
  ok_cases h
  exact parseDecls_wf h ⟨by simp, by simp, by simp, by simp, by simp, by simp⟩

end MjProof.Schema
