import MjProof.Spec.SchemaWF
/-
C41 helper lemmas: everything `_Parser.parse` returns satisfies the parse-level rules `ParseWF`.
One lemma per parser function: "if it returns a value, the value is well-formed".
-/
namespace MjProof.Schema

variable {N : Nat}

/-- Case-split every `match`/`if` of a hypothesis `h : f ... = .ok _`, discarding the error branches. -/
macro "ok_cases" h:ident : tactic =>
  `(tactic| repeat' (first
      | contradiction
      | (split at $h:ident)))

theorem parseArityBody_wf {c : PCtx N} {p : Nat} {ar : Arity} {q : Adv c p}
    (h : parseArityBody c p = .ok (ar, q)) : ar.WF := by
  unfold parseArityBody at h
  ok_cases h
  all_goals
    simp only [Except.ok.injEq, Prod.mk.injEq] at h
    obtain ⟨rfl, _⟩ := h
    intro k hk
    simp only [Hi.num.injEq, reduceCtorEq] at hk
  all_goals (dsimp only; omega)
