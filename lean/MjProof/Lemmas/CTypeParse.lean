import MjProof.Lemmas.CTypeInt
/-
C49 helper lemmas: decomposition of a well-formed type into a value type and a list of frames
(pointer / array constructors, from the value outwards), the declarator text of a frame list,
and the main induction: `parseNest` on `L ++ sep (declarator)` rebuilds the frames.
-/
namespace MjProof.CType

/-! ### frames -/

inductive Frame where
  | ptr (c v r : Bool)
  | arr (exts : List Int)

def Frame.apply : Frame → CType → CType
  | .ptr c v r, t => .pointer t false c v r
  | .arr e, t => .array t e

def Frame.isArr : Frame → Bool
  | .arr _ => true
  | _ => false

/-- apply the frames from the value outwards -/
def build (t : CType) : List Frame → CType
  | [] => t
  | f :: fs => build (f.apply t) fs

/-- no array directly inside an array (`a`: the thing being wrapped is an array), no empty extents -/
def okFrames : Bool → List Frame → Bool
  | _, [] => true
  | _, .ptr _ _ _ :: fs => okFrames false fs
  | a, .arr e :: fs => !a && !e.isEmpty && okFrames true fs

theorem build_append (t : CType) (fs gs : List Frame) : build t (fs ++ gs) = build (build t fs) gs := by
  induction fs generalizing t with
  | nil => rfl
  | cons f fs ih => simp [build, ih]

theorem okFrames_append_ptr (a : Bool) (fs : List Frame) (c v r : Bool) (h : okFrames a fs = true) :
    okFrames a (fs ++ [.ptr c v r]) = true := by
  induction fs generalizing a with
  | nil => simp [okFrames]
  | cons f fs ih =>
    cases f with
    | ptr c' v' r' => simp only [List.cons_append, okFrames] at h ⊢; exact ih false h
    | arr e =>
      simp only [List.cons_append, okFrames, Bool.and_eq_true] at h ⊢
      exact ⟨h.1, ih true h.2⟩

theorem okFrames_append_arr (t : CType) (fs : List Frame) (e : List Int) (h : okFrames t.isArray fs = true)
    (hn : (build t fs).isArray = false) (he : e.isEmpty = false) :
    okFrames t.isArray (fs ++ [.arr e]) = true := by
  induction fs generalizing t with
  | nil =>
    simp only [build] at hn
    simp [okFrames, hn, he]
  | cons f fs ih =>
    cases f with
    | ptr c' v' r' =>
      simp only [List.cons_append, okFrames, build] at h hn ⊢
      exact ih (Frame.apply (.ptr c' v' r') t) h hn
    | arr e' =>
      simp only [List.cons_append, okFrames, Bool.and_eq_true, build] at h hn ⊢
      exact ⟨h.1, ih (Frame.apply (.arr e') t) h.2 hn⟩

/-- every well-formed type is a value type wrapped in admissible frames -/
theorem wf_frames : ∀ t : CType, WF t = true →
    ∃ name c v fs, t = build (.value name c v) fs ∧ wfName name = true ∧ okFrames false fs = true := by
  intro t
  induction t with
  | value name c v => intro h; exact ⟨name, c, v, [], rfl, h, rfl⟩
  | pointer inner n c v r ih =>
    intro h
    simp only [WF, Bool.and_eq_true, Bool.not_eq_true'] at h
    obtain ⟨name, c0, v0, fs, rfl, hn, hok⟩ := ih h.2
    refine ⟨name, c0, v0, fs ++ [.ptr c v r], ?_, hn, okFrames_append_ptr _ _ _ _ _ hok⟩
    rw [build_append]; simp [build, Frame.apply, h.1]
  | array inner e ih =>
    intro h
    simp only [WF, Bool.and_eq_true, Bool.not_eq_true'] at h
    obtain ⟨name, c0, v0, fs, rfl, hn, hok⟩ := ih h.2
    refine ⟨name, c0, v0, fs ++ [.arr e], ?_, hn, ?_⟩
    · rw [build_append]; simp [build, Frame.apply]
    · exact okFrames_append_arr (.value name c0 v0) fs e hok h.1.2 h.1.1

/-! ### the declarator of a frame list -/

def sep (x : Str) : Str := if x.isEmpty then [] else 32 :: x

/-- the three pointer qualifiers as printed after the star -/
def ptrQualWords (c v r : Bool) : List Str := qualWords c v ++ (if r then [kRestrict] else [])

/-- declarator text of the frames around something (`a`: that something is an array), with `d` in
    the innermost position -/
def declFrames : List Frame → Bool → Str → Str
  | [], _, d => d
  | .ptr c v r :: fs, a, d =>
    let p := 42 :: (spWords (ptrQualWords c v r) ++ sep (declFrames fs false d))
    if a then 40 :: (p ++ [41]) else p
  | .arr e :: fs, _, d => declFrames fs true d ++ extentsStr e

theorem joinSp_star (ws : List Str) (x : Str) :
    joinSp ([[42]] ++ ws ++ (if x.isEmpty then [] else [x])) = 42 :: (spWords ws ++ sep x) := by
  by_cases hx : x.isEmpty = true
  · simp [hx, sep, joinSp_cons]
  · simp [hx, sep, joinSp_cons, spWords_append, spWords]

theorem declWith_pointer (t : CType) (c v r : Bool) (d : Str) :
    declWith (.pointer t false c v r) d =
      declWith t (if t.isArray then 40 :: ((42 :: (spWords (ptrQualWords c v r) ++ sep d)) ++ [41])
                  else 42 :: (spWords (ptrQualWords c v r) ++ sep d)) := by
  have h : joinSp ([[42]] ++ (if false = true then [kNullable] else []) ++ qualWords c v ++
      (if r = true then [kRestrict] else []) ++ (if d.isEmpty = true then [] else [d])) =
      42 :: (spWords (ptrQualWords c v r) ++ sep d) := by
    have := joinSp_star (ptrQualWords c v r) d
    simpa [ptrQualWords, List.append_assoc] using this
  simp only [declWith, h]

theorem declWith_build (t : CType) (fs : List Frame) (d : Str) :
    declWith (build t fs) d = declWith t (declFrames fs t.isArray d) := by
  induction fs generalizing t with
  | nil => rfl
  | cons f fs ih =>
    cases f with
    | ptr c v r =>
      simp only [build, Frame.apply]
      rw [ih, declWith_pointer]
      simp [declFrames, CType.isArray]
    | arr e =>
      simp only [build, Frame.apply]
      rw [ih]
      simp [declWith, CType.isArray, declFrames]

/-- value prefix: qualifiers and name -/
def valPrefix (name : Str) (c v : Bool) : Str := joinSp (qualWords c v ++ [name])

theorem declWith_value (name : Str) (c v : Bool) (d : Str) :
    declWith (.value name c v) d = valPrefix name c v ++ sep d := by
  by_cases hd : d.isEmpty = true
  · simp [declWith, valPrefix, sep, hd]
  · simp only [declWith, valPrefix, sep, hd]
    cases c <;> cases v <;> simp [qualWords, joinSp_cons, spWords]

/-! ### fuel -/

theorem parsePtrAux_mono : ∀ f s inn t, parsePtrAux f s inn = some t → ∀ f', f ≤ f' →
    parsePtrAux f' s inn = some t := by
  intro f
  induction f with
  | zero => intro s inn t h; simp [parsePtrAux] at h
  | succ f ih =>
    intro s inn t h f' hf
    cases f' with
    | zero => omega
    | succ f' =>
      simp only [parsePtrAux] at h ⊢
      split
      · rename_i hs; simp only [hs, if_true] at h; exact h
      · rename_i hs
        simp only [hs, if_false] at h
        split
        · rename_i pre post hsl
          simp only [hsl] at h
          split
          · rename_i hq; simp [hq] at h
          · rename_i c v r hq
            simp only [hq] at h
            by_cases he : (strip pre).isEmpty = true
            · simp only [he, if_true] at h ⊢; exact h
            · simp only [he] at h ⊢
              cases hr : parsePtrAux f (strip pre) inn with
              | none => simp [hr] at h
              | some inner =>
                simp only [hr] at h
                rw [ih _ _ _ hr f' (by omega)]
                exact h
        · rename_i hsl
          simp only [hsl] at h
          exact h

/-! ### one level -/

/-- a level prefix: no brackets or parentheses, no blanks at the ends -/
structure GoodL (L : Str) : Prop where
  noParen : 40 ∉ L ∧ 41 ∉ L ∧ 91 ∉ L ∧ 93 ∉ L
  edge : NoEdgeWs L

theorem special_mem : 40 ∈ special := by decide

theorem ne_special_of_no_paren {s : Str} (h : 40 ∉ s) : s ≠ special := by
  intro e; subst e; exact h special_mem

theorem ne_special_of_bracket {s : Str} (h : 91 ∈ s) : s ≠ special := by
  intro e; subst e; revert h; decide

theorem ptrQualWords_facts (c v r : Bool) :
    ptrQuals (splitWs (spWords (ptrQualWords c v r))) = some (c, v, r) ∧
    42 ∉ spWords (ptrQualWords c v r) ∧ 40 ∉ spWords (ptrQualWords c v r) ∧
    41 ∉ spWords (ptrQualWords c v r) ∧ 91 ∉ spWords (ptrQualWords c v r) ∧
    93 ∉ spWords (ptrQualWords c v r) ∧
    (∀ b l, (42 :: spWords (ptrQualWords c v r)).reverse = b :: l → isWs b = false) := by
  have h : ptrQuals (splitWs (spWords (ptrQualWords c v r))) = some (c, v, r) ∧
      42 ∉ spWords (ptrQualWords c v r) ∧ 40 ∉ spWords (ptrQualWords c v r) ∧
      41 ∉ spWords (ptrQualWords c v r) ∧ 91 ∉ spWords (ptrQualWords c v r) ∧
      93 ∉ spWords (ptrQualWords c v r) ∧
      ((42 :: spWords (ptrQualWords c v r)).reverse.head?.map isWs = some false) := by
    cases c <;> cases v <;> cases r <;> decide
  obtain ⟨h1, h2, h3, h4, h5, h6, h7⟩ := h
  refine ⟨h1, h2, h3, h4, h5, h6, ?_⟩
  intro b l hb
  rw [hb] at h7
  simpa using h7

theorem not_mem_sp_star {c : Nat} {L q : Str} (h1 : c ∉ L) (h2 : c ≠ 32) (h3 : c ≠ 42) (h4 : c ∉ q) :
    c ∉ L ++ 32 :: 42 :: q := by
  intro h
  rcases List.mem_append.mp h with h | h
  · exact h1 h
  · rcases List.mem_cons.mp h with h | h
    · exact h2 h
    · rcases List.mem_cons.mp h with h | h
      · exact h3 h
      · exact h4 h

theorem not_mem_star {c : Nat} {q : Str} (h3 : c ≠ 42) (h4 : c ∉ q) : c ∉ 42 :: q := by
  intro h
  rcases List.mem_cons.mp h with h | h
  · exact h3 h
  · exact h4 h

/-- a pointer added to a level prefix -/
theorem parsePtr_step {L : Str} (hL : GoodL L) {inn : Option CType} {base : CType}
    (h : parsePtr L inn = some base) (c v r : Bool) :
    parsePtr (L ++ 32 :: 42 :: spWords (ptrQualWords c v r)) inn = some (.pointer base false c v r) := by
  obtain ⟨hq, hstar, hop, _, _, _, _⟩ := ptrQualWords_facts c v r
  have hns : L ++ 32 :: 42 :: spWords (ptrQualWords c v r) ≠ special := by
    apply ne_special_of_no_paren
    exact not_mem_sp_star hL.noParen.1 (by decide) (by decide) hop
  have hsl : splitLast 42 (L ++ 32 :: 42 :: spWords (ptrQualWords c v r)) =
      some (L ++ [32], spWords (ptrQualWords c v r)) := by
    have := splitLast_append hstar (L ++ [32])
    simpa using this
  have hne : L.isEmpty = false := by
    have := noEdge_ne_nil hL.edge
    cases L with
    | nil => exact absurd rfl this
    | cons _ _ => rfl
  have hm := parsePtrAux_mono _ _ _ _ h ((L ++ 32 :: 42 :: spWords (ptrQualWords c v r)).length) (by
    simp only [List.length_append, List.length_cons]; omega)
  unfold parsePtr
  simp only [parsePtrAux, hns, if_false, hsl, hq, strip_append_space hL.edge, hne, Bool.false_eq_true, hm]

/-- the first pointer of an inner level takes the result of the outer level -/
theorem parsePtr_start (acc : CType) (c v r : Bool) :
    parsePtr (42 :: spWords (ptrQualWords c v r)) (some acc) = some (.pointer acc false c v r) := by
  obtain ⟨hq, hstar, hop, _, _, _, _⟩ := ptrQualWords_facts c v r
  have hns : 42 :: spWords (ptrQualWords c v r) ≠ special := by
    apply ne_special_of_no_paren
    exact not_mem_star (by decide) hop
  have hsl : splitLast 42 (42 :: spWords (ptrQualWords c v r)) = some ([], spWords (ptrQualWords c v r)) := by
    have := splitLast_append hstar []
    simpa using this
  unfold parsePtr
  simp only [parsePtrAux, hns, if_false, hsl, hq]
  simp [strip, lstrip, rstrip]

theorem goodL_step {L : Str} (hL : GoodL L) (c v r : Bool) :
    GoodL (L ++ 32 :: 42 :: spWords (ptrQualWords c v r)) := by
  obtain ⟨_, _, hop, hcl, hob, hcb, hedge⟩ := ptrQualWords_facts c v r
  obtain ⟨⟨a, l, rfl, ha⟩, _⟩ := hL.edge
  constructor
  · exact ⟨not_mem_sp_star hL.noParen.1 (by decide) (by decide) hop,
      not_mem_sp_star hL.noParen.2.1 (by decide) (by decide) hcl,
      not_mem_sp_star hL.noParen.2.2.1 (by decide) (by decide) hob,
      not_mem_sp_star hL.noParen.2.2.2 (by decide) (by decide) hcb⟩
  · refine ⟨⟨a, l ++ 32 :: 42 :: spWords (ptrQualWords c v r), by simp, ha⟩, ?_⟩
    cases hr : (42 :: spWords (ptrQualWords c v r)).reverse with
    | nil => simp at hr
    | cons b l' =>
      refine ⟨b, l' ++ (32 :: (a :: l).reverse), ?_, hedge b l' hr⟩
      have : (a :: l ++ 32 :: 42 :: spWords (ptrQualWords c v r)).reverse =
          (42 :: spWords (ptrQualWords c v r)).reverse ++ (32 :: (a :: l).reverse) := by
        simp
      rw [this, hr]; simp

theorem goodL_start (c v r : Bool) : GoodL (42 :: spWords (ptrQualWords c v r)) := by
  obtain ⟨_, _, hop, hcl, hob, hcb, hedge⟩ := ptrQualWords_facts c v r
  constructor
  · exact ⟨not_mem_star (by decide) hop, not_mem_star (by decide) hcl, not_mem_star (by decide) hob,
      not_mem_star (by decide) hcb⟩
  · refine ⟨⟨42, _, rfl, by decide⟩, ?_⟩
    cases hr : (42 :: spWords (ptrQualWords c v r)).reverse with
    | nil => simp at hr
    | cons b l' => exact ⟨b, l', rfl, hedge b l' hr⟩

/-- a level without array suffix -/
theorem parseLevel_plain {L : Str} (hL : GoodL L) (inn : Option CType) : parseLevel L inn = parsePtr L inn := by
  simp [parseLevel, findArr_none hL.noParen.2.2.1]

/-- a level with array suffix -/
theorem parseLevel_arr {L : Str} (hL : GoodL L) {inn : Option CType} {base : CType}
    (h : parsePtr L inn = some base) (e : List Int) (he : e ≠ []) :
    parseLevel (L ++ 32 :: extentsStr e) inn = some (.array base e) := by
  have hpre : 91 ∉ L ++ [32] := by
    simp only [List.mem_append, List.mem_singleton, not_or]
    exact ⟨hL.noParen.2.2.1, by decide⟩
  have := findArr_append hpre e he
  have hs : L ++ 32 :: extentsStr e = (L ++ [32]) ++ extentsStr e := by simp
  simp only [parseLevel, hs, this, mapMOpt_parseInt, strip_append_space hL.edge, h]

/-! ### the main induction -/

theorem mem_of_mem_sep {c : Nat} {x : Str} (h : c ∈ sep x) : c = 32 ∨ c ∈ x := by
  unfold sep at h
  split at h
  · simp at h
  · simpa using h

theorem parseNest_frames : ∀ (fs : List Frame) (L : Str) (inn : Option CType) (base : CType) (f : Nat),
    GoodL L → parsePtr L inn = some base → okFrames false fs = true →
    (L ++ sep (declFrames fs false [])).length < f →
    parseNest f (L ++ sep (declFrames fs false [])) inn = some (build base fs)
  | [], L, inn, base, f, hL, hp, _, hf => by
    cases f with
    | zero => omega
    | succ f =>
      have hs : L ++ sep (declFrames [] false []) = L := by simp [declFrames, sep]
      rw [hs]
      have hc : L.contains 41 = false := by
        simp only [List.contains_eq_mem, decide_eq_false_iff_not]; exact hL.noParen.2.1
      simp only [parseNest, ne_special_of_no_paren hL.noParen.1, if_false, splitFirst_none hL.noParen.1, hc,
        Bool.false_eq_true, parseLevel_plain hL, hp, build]
  | .ptr c v r :: fs, L, inn, base, f, hL, hp, hok, hf => by
    have hs : L ++ sep (declFrames (.ptr c v r :: fs) false []) =
        (L ++ 32 :: 42 :: spWords (ptrQualWords c v r)) ++ sep (declFrames fs false []) := by
      simp [declFrames, sep]
    rw [hs] at hf ⊢
    simp only [okFrames] at hok
    exact parseNest_frames fs _ inn _ f (goodL_step hL c v r) (parsePtr_step hL hp c v r) hok hf
  | [.arr e], L, inn, base, f, hL, hp, hok, hf => by
    cases f with
    | zero => omega
    | succ f =>
      simp only [okFrames, Bool.and_eq_true, Bool.not_eq_true'] at hok
      have he : e ≠ [] := by
        intro h; subst h; simp at hok
      have hne : (extentsStr e).isEmpty = false := by
        cases e with
        | nil => exact absurd rfl he
        | cons _ _ => simp [extentsStr]
      have hs : L ++ sep (declFrames [.arr e] false []) = L ++ 32 :: extentsStr e := by
        simp [declFrames, sep, hne]
      rw [hs]
      obtain ⟨h1, h2, _⟩ := extentsStr_no_paren e
      have hop : 40 ∉ L ++ 32 :: extentsStr e := by
        simp only [List.mem_append, List.mem_cons, not_or]; exact ⟨hL.noParen.1, by decide, h1⟩
      have hcl : (L ++ 32 :: extentsStr e).contains 41 = false := by
        simp only [List.contains_eq_mem, decide_eq_false_iff_not, List.mem_append, List.mem_cons, not_or]
        exact ⟨hL.noParen.2.1, by decide, h2⟩
      simp only [parseNest, ne_special_of_no_paren hop, if_false, splitFirst_none hop, hcl, Bool.false_eq_true,
        parseLevel_arr hL hp e he, build, Frame.apply]
  | .arr e :: .ptr c v r :: fs, L, inn, base, f, hL, hp, hok, hf => by
    cases f with
    | zero => omega
    | succ f =>
      simp only [okFrames, Bool.and_eq_true, Bool.not_eq_true'] at hok
      have he : e ≠ [] := by
        intro h; subst h; simp at hok
      obtain ⟨h1, h2, _⟩ := extentsStr_no_paren e
      let P : Str := (42 :: spWords (ptrQualWords c v r)) ++ sep (declFrames fs false [])
      have hs : L ++ sep (declFrames (.arr e :: .ptr c v r :: fs) false []) =
          (L ++ [32]) ++ 40 :: (P ++ 41 :: extentsStr e) := by
        simp [declFrames, sep, P]
      rw [hs] at hf ⊢
      have hpre : 40 ∉ L ++ [32] := by
        simp only [List.mem_append, List.mem_singleton, not_or]; exact ⟨hL.noParen.1, by decide⟩
      have hsf := splitFirst_append hpre (P ++ 41 :: extentsStr e)
      have hsl := splitLast_append h2 P
      have hbr : 91 ∈ (L ++ [32]) ++ 40 :: (P ++ 41 :: extentsStr e) := by
        cases e with
        | nil => exact absurd rfl he
        | cons n r' => simp [extentsStr]
      have hlev : parseLevel ((L ++ [32]) ++ extentsStr e) inn = some (.array base e) := by
        have := parseLevel_arr hL hp e he
        simpa using this
      simp only [parseNest, ne_special_of_bracket hbr, if_false, hsf, hsl, hlev]
      have hlen : P.length < f := by
        simp only [List.length_append, List.length_cons] at hf
        omega
      have := parseNest_frames fs (42 :: spWords (ptrQualWords c v r)) (some (.array base e))
        (.pointer (.array base e) false c v r) f (goodL_start c v r) (parsePtr_start _ c v r) hok.2 hlen
      simp only [build, Frame.apply]
      exact this
  | .arr e :: .arr e' :: fs, L, inn, base, f, hL, hp, hok, hf => by
    simp [okFrames] at hok

end MjProof.CType
