import MjProof.Model.State
/-
Helper lemmas for C26 (state-vector API).  Core Lean only.
-/
namespace MjProof.State
open List

/-! ### size expressions -/
namespace SizeExpr
variable {ν : Type}

theorem eval_cons (sz : ν → Nat) (f : Factor ν) (e : SizeExpr ν) :
    eval sz (f :: e) = Factor.eval sz f * eval sz e := rfl

/-- product of the variables of an expression -/
def varProd (sz : ν → Nat) (l : List ν) : Nat := l.foldr (fun v acc => sz v * acc) 1

theorem eval_eq_coef_mul (sz : ν → Nat) (e : SizeExpr ν) :
    eval sz e = coef e * varProd sz (vars e) := by
  induction e with
  | nil => simp [eval, coef, vars, varProd]
  | cons f r ih =>
    cases f with
    | const n => rw [eval_cons, ih]; simp [Factor.eval, coef, vars, Nat.mul_assoc]
    | var v =>
      rw [eval_cons, ih]
      simp only [Factor.eval, coef, vars, varProd, List.foldr_cons]
      rw [Nat.mul_left_comm]

theorem varProd_perm (sz : ν → Nat) {a b : List ν} (h : a ~ b) : varProd sz a = varProd sz b := by
  unfold varProd
  apply Perm.foldr_eq' h
  intro x _ y _ z
  exact Nat.mul_left_comm _ _ _

/-- syntactic equality of normal forms implies equal value for EVERY assignment of model sizes -/
theorem equiv_sound [DecidableEq ν] {a b : SizeExpr ν} (h : equiv a b = true) (sz : ν → Nat) :
    eval sz a = eval sz b := by
  unfold equiv at h
  rw [Bool.and_eq_true] at h
  obtain ⟨hc, hp⟩ := h
  rw [eval_eq_coef_mul, eval_eq_coef_mul, varProd_perm sz (isPerm_iff.mp hp)]
  rw [eq_of_beq hc]

end SizeExpr

/-! ### generic list facts -/

theorem eq_of_nodup_map {β γ : Type} (f : β → γ) : ∀ {l : List β}, (l.map f).Nodup →
    ∀ {a b : β}, a ∈ l → b ∈ l → f a = f b → a = b := by
  intro l
  induction l with
  | nil => intro _ a b ha; cases ha
  | cons x xs ih =>
    intro hnd a b ha hb hab
    rw [map_cons, nodup_cons] at hnd
    obtain ⟨hx, hxs⟩ := hnd
    rcases mem_cons.mp ha with rfl | ha'
    · rcases mem_cons.mp hb with rfl | hb'
      · rfl
      · exact absurd (hab ▸ mem_map_of_mem hb') hx
    · rcases mem_cons.mp hb with rfl | hb'
      · exact absurd (hab ▸ mem_map_of_mem ha') hx
      · exact ih hxs ha' hb' hab

set_option linter.unusedSectionVars false

section
variable {σ φ α : Type} [DecidableEq φ]

theorem upd_same (d : Data φ α) (f : φ) (v : List α) : upd d f v f = v := by simp [upd]

theorem upd_other (d : Data φ α) {f g : φ} (v : List α) (h : g ≠ f) : upd d f v g = d g := by
  simp [upd, h]

theorem lookup_mem {t : Table σ φ} {i : Nat} {e : Elem σ φ} (h : t.lookup i = some e) :
    e ∈ t.elems ∧ e.bit = i := by
  unfold Table.lookup at h
  refine ⟨mem_of_find?_eq_some h, ?_⟩
  have := find?_some h
  simpa using this

theorem lookup_of_mem {t : Table σ φ} (hnd : (t.elems.map (fun e => e.bit)).Nodup) {e : Elem σ φ}
    (he : e ∈ t.elems) : t.lookup e.bit = some e := by
  unfold Table.lookup
  cases h : t.elems.find? (fun x => x.bit == e.bit) with
  | none =>
    rw [find?_eq_none] at h
    exact absurd (by simp) (h e he)
  | some e' =>
    have hm := mem_of_find?_eq_some h
    have hb : e'.bit = e.bit := by simpa using find?_some h
    rw [eq_of_nodup_map (fun e => e.bit) hnd hm he hb]

/-- data in which every field has exactly its allocated length -/
def Shaped (t : Table σ φ) (sz : σ) (d : Data φ α) : Prop := ∀ f, (d f).length = t.alloc f sz

/-- fields stored as `mjtBool` hold values that the `mjtNum → mjtBool` conversion leaves alone -/
def BoolOK (t : Table σ φ) (cast : α → α) (d : Data φ α) : Prop :=
  ∀ e, e ∈ t.elems → e.special.isSome = true → ∀ x, x ∈ d e.field → cast x = x

/-- the element selected for bit `i` of signature `sig` -/
def Sel (t : Table σ φ) (sig : Nat) (is : List Nat) (e : Elem σ φ) : Prop :=
  ∃ i, i ∈ is ∧ sig.testBit i = true ∧ t.lookup i = some e

theorem Sel.tail {t : Table σ φ} {sig : Nat} {i : Nat} {is : List Nat} {e : Elem σ φ}
    (h : Sel t sig is e) : Sel t sig (i :: is) e := by
  obtain ⟨j, hj, hb, hl⟩ := h
  exact ⟨j, mem_cons_of_mem _ hj, hb, hl⟩

theorem readN_full {l : List α} {n : Nat} (h : l.length = n) : readN l n = .ok l := by
  unfold readN
  subst h
  simp

theorem writeN_full {dst src : List α} {n : Nat} (hd : dst.length = n) (hs : n ≤ src.length) :
    writeN dst src n = .ok (src.take n) := by
  unfold writeN
  subst hd
  simp [hs]

theorem map_id_of_forall {cast : α → α} {l : List α} (h : ∀ x, x ∈ l → cast x = x) : l.map cast = l := by
  induction l with
  | nil => rfl
  | cons x xs ih =>
    simp only [map_cons]
    rw [h x (by simp), ih (fun y hy => h y (by simp [hy]))]

/-- what the set loop takes from a vector that starts with the (conversion-stable) field `x` -/
theorem src_take (cast : α → α) (b : Bool) (x r : List α) {n : Nat} (hx : x.length = n)
    (hc : b = true → x.map cast = x) :
    (if b = true then (x ++ r).map cast else x ++ r).take n = x
    ∧ n ≤ (if b = true then (x ++ r).map cast else x ++ r).length := by
  subst hx
  cases b with
  | false => simp
  | true => simp [hc rfl]

variable {t : Table σ φ} {sz : σ}

theorem elem_len (hwf : WF t) {d : Data φ α} (hd : Shaped t sz d) {e : Elem σ φ} (he : e ∈ t.elems) :
    (d e.field).length = e.cnt sz ∧ e.cnt sz = e.size sz := by
  refine ⟨?_, hwf.cnt_size e he sz⟩
  rw [hd, hwf.cnt_size e he sz, hwf.size_alloc e he sz]

theorem shaped_upd {d : Data φ α} (hd : Shaped t sz d) {f : φ} {v : List α}
    (hv : v.length = t.alloc f sz) : Shaped t sz (upd d f v) := by
  intro g
  by_cases h : g = f
  · subst h; rw [upd_same]; exact hv
  · rw [upd_other _ _ h]; exact hd g

/-! ### loops -/

theorem setLoop_cons (cast : α → α) (sig : Nat) (st : List α) (d : Data φ α) (i : Nat) (is : List Nat) :
    setLoop t sz cast sig st d (i :: is) =
      if sig.testBit i then
        match t.lookup i with
        | none => .error (.badElem i)
        | some e => do
          let f ← writeN (d e.field) (if e.special.isSome then st.map cast else st) (e.cnt sz)
          setLoop t sz cast sig (st.drop (e.cnt sz)) (upd d e.field f) is
      else setLoop t sz cast sig st d is := by
  rw [setLoop]
  rfl

/-- `mj_stateSize` agrees with the length `mj_getState` writes, on every branch. -/
theorem sizeLoop_eq (hwf : WF t) {d : Data φ α} (hd : Shaped t sz d) (sig : Nat) (is : List Nat) :
    sizeLoop t sz sig is = (getLoop t sz d sig is).map List.length := by
  induction is with
  | nil => rfl
  | cons i is ih =>
    unfold sizeLoop getLoop
    by_cases hb : sig.testBit i = true
    · simp only [hb, ↓reduceIte]
      cases hl : t.lookup i with
      | none => rfl
      | some e =>
        obtain ⟨he, _⟩ := lookup_mem hl
        obtain ⟨h1, h2⟩ := elem_len hwf hd he
        simp only [readN_full h1, ih]
        cases getLoop t sz d sig is with
        | error x => rfl
        | ok r =>
          show Except.ok _ = Except.ok _
          rw [length_append, h1, h2]
    · simp only [hb, Bool.false_eq_true, ↓reduceIte]
      exact ih

/-- without any hypothesis on the table: `mj_setState` leaves every field alone that is not the
    field of a selected element -/
theorem setLoop_frame (cast : α → α) (sig : Nat) :
    ∀ (is : List Nat) (st : List α) (d d' : Data φ α), setLoop t sz cast sig st d is = .ok d' →
      ∀ f, (∀ e, Sel t sig is e → e.field ≠ f) → d' f = d f := by
  intro is
  induction is with
  | nil =>
    intro st d d' h f _
    unfold setLoop at h
    cases h; rfl
  | cons i is ih =>
    intro st d d' h f hf
    unfold setLoop at h
    by_cases hb : sig.testBit i = true
    · simp only [hb, ↓reduceIte] at h
      cases hl : t.lookup i with
      | none => rw [hl] at h; cases h
      | some e =>
        rw [hl] at h
        simp only [] at h
        cases hw : writeN (d e.field) (if e.special.isSome = true then st.map cast else st) (e.cnt sz) with
        | error x => rw [hw] at h; cases h
        | ok v =>
          rw [hw] at h
          have := ih _ _ _ h f (fun e' he' => hf e' he'.tail)
          rw [this, upd_other]
          exact fun hc => hf e ⟨i, by simp, hb, hl⟩ hc.symm
    · simp only [hb, Bool.false_eq_true, ↓reduceIte] at h
      exact ih _ _ _ h f (fun e' he' => hf e' he'.tail)

/-- distinct bits select elements with distinct fields -/
theorem sel_field_ne (hwf : WF t) {sig : Nat} {i : Nat} {is : List Nat} (hni : i ∉ is)
    {e e' : Elem σ φ} (hl : t.lookup i = some e) (hs : Sel t sig is e') : e'.field ≠ e.field := by
  obtain ⟨j, hj, _, hl'⟩ := hs
  obtain ⟨he, hbi⟩ := lookup_mem hl
  obtain ⟨he', hbj⟩ := lookup_mem hl'
  intro hc
  have := eq_of_nodup_map (fun e => e.field) hwf.fields_nodup he' he hc
  subst this
  exact hni (by rw [← hbi, hbj]; exact hj)

/-- set after get: succeeds, restores the selected fields of `d`, leaves all other fields of `d'` -/
theorem setLoop_getLoop (hwf : WF t) (cast : α → α) {d : Data φ α} (hd : Shaped t sz d)
    (hbool : BoolOK t cast d) (sig : Nat) :
    ∀ (is : List Nat), is.Nodup → ∀ (v : List α) (d' : Data φ α), Shaped t sz d' →
      getLoop t sz d sig is = .ok v →
      ∃ d'', setLoop t sz cast sig v d' is = .ok d'' ∧ Shaped t sz d'' ∧
        (∀ e, Sel t sig is e → d'' e.field = d e.field) ∧
        (∀ f, (∀ e, Sel t sig is e → e.field ≠ f) → d'' f = d' f) := by
  intro is
  induction is with
  | nil =>
    intro _ v d' hd' _
    refine ⟨d', rfl, hd', ?_, fun _ _ => rfl⟩
    intro e ⟨i, hi, _⟩; cases hi
  | cons i is ih =>
    intro hnd v d' hd' hg
    rw [nodup_cons] at hnd
    obtain ⟨hni, hnd'⟩ := hnd
    unfold getLoop at hg
    unfold setLoop
    by_cases hb : sig.testBit i = true
    · simp only [hb, ↓reduceIte] at hg ⊢
      cases hl : t.lookup i with
      | none => rw [hl] at hg; cases hg
      | some e =>
        rw [hl] at hg
        simp only [] at hg ⊢
        obtain ⟨he, _⟩ := lookup_mem hl
        obtain ⟨h1, h2⟩ := elem_len hwf hd he
        obtain ⟨h1', _⟩ := elem_len hwf hd' he
        rw [readN_full h1] at hg
        cases hr : getLoop t sz d sig is with
        | error x => rw [hr] at hg; cases hg
        | ok r =>
          rw [hr] at hg
          have hv : v = d e.field ++ r := by cases hg; rfl
          subst hv
          obtain ⟨htk, hle⟩ := src_take cast e.special.isSome (d e.field) r h1
            (fun hs => map_id_of_forall (hbool e he hs))
          have hw : writeN (d' e.field)
              (if e.special.isSome = true then (d e.field ++ r).map cast else d e.field ++ r) (e.cnt sz)
              = .ok (d e.field) := by
            rw [writeN_full h1' hle, htk]
          rw [hw]
          have hdrop : (d e.field ++ r).drop (e.cnt sz) = r := by rw [← h1]; simp
          rw [hdrop]
          have hd1 : Shaped t sz (upd d' e.field (d e.field)) := shaped_upd hd' (hd e.field)
          obtain ⟨d'', hset, hsh, hsel, hfr⟩ := ih hnd' r _ hd1 hr
          refine ⟨d'', hset, hsh, ?_, ?_⟩
          · intro e' ⟨j, hj, hbj, hlj⟩
            rcases mem_cons.mp hj with rfl | hj'
            · rw [hl] at hlj; cases hlj
              rw [hfr e.field (fun e'' hs'' => sel_field_ne hwf hni hl hs''), upd_same]
            · exact hsel e' ⟨j, hj', hbj, hlj⟩
          · intro f hf
            rw [hfr f (fun e' he' => hf e' he'.tail), upd_other]
            exact fun hc => hf e ⟨i, by simp, hb, hl⟩ hc.symm
    · simp only [hb, Bool.false_eq_true, ↓reduceIte] at hg ⊢
      obtain ⟨d'', hset, hsh, hsel, hfr⟩ := ih hnd' v d' hd' hg
      refine ⟨d'', hset, hsh, ?_, fun f hf => hfr f (fun e' he' => hf e' he'.tail)⟩
      intro e' ⟨j, hj, hbj, hlj⟩
      rcases mem_cons.mp hj with rfl | hj'
      · rw [hbj] at hb; exact absurd rfl hb
      · exact hsel e' ⟨j, hj', hbj, hlj⟩

/-- extract = get with the sub-signature -/
theorem extractLoop_getLoop (hwf : WF t) {d : Data φ α} (hd : Shaped t sz d) (src dst : Nat)
    (hsub : ∀ i, dst.testBit i = true → src.testBit i = true) :
    ∀ (is : List Nat) (v : List α), getLoop t sz d src is = .ok v →
      extractLoop t sz src dst v is = getLoop t sz d dst is := by
  intro is
  induction is with
  | nil => intro v _; rfl
  | cons i is ih =>
    intro v hg
    unfold getLoop at hg
    unfold extractLoop
    rw [getLoop]
    by_cases hb : src.testBit i = true
    · simp only [hb, ↓reduceIte] at hg ⊢
      cases hl : t.lookup i with
      | none => rw [hl] at hg; cases hg
      | some e =>
        rw [hl] at hg
        simp only [] at hg ⊢
        obtain ⟨he, _⟩ := lookup_mem hl
        obtain ⟨h1, h2⟩ := elem_len hwf hd he
        rw [readN_full h1] at hg
        cases hr : getLoop t sz d src is with
        | error x => rw [hr] at hg; cases hg
        | ok r =>
          rw [hr] at hg
          have hv : v = d e.field ++ r := by cases hg; rfl
          subst hv
          have hrd : readN (d e.field ++ r) (e.size sz) = .ok (d e.field) := by
            unfold readN
            rw [← h2, ← h1]; simp
          have hdrop : (d e.field ++ r).drop (e.size sz) = r := by rw [← h2, ← h1]; simp
          rw [hrd, hdrop, ih r hr]
          by_cases hbd : dst.testBit i = true
          · simp only [hbd, ↓reduceIte, readN_full h1]
          · simp only [hbd, Bool.false_eq_true, ↓reduceIte]
            cases getLoop t sz d dst is <;> rfl
    · have hbd : ¬ dst.testBit i = true := fun h => hb (hsub i h)
      simp only [hb, hbd, Bool.false_eq_true, ↓reduceIte] at hg ⊢
      exact ih v hg

/-- copy = get followed by set, on every branch -/
theorem copyLoop_eq (hwf : WF t) (cast : α → α) {src : Data φ α} (hs : Shaped t sz src)
    (hbool : BoolOK t cast src) (sig : Nat) :
    ∀ (is : List Nat) (dst : Data φ α), Shaped t sz dst →
      copyLoop t sz src sig dst is
        = (getLoop t sz src sig is >>= fun v => setLoop t sz cast sig v dst is) := by
  intro is
  induction is with
  | nil => intro dst _; rfl
  | cons i is ih =>
    intro dst hdst
    unfold copyLoop getLoop
    by_cases hb : sig.testBit i = true
    · simp only [hb, ↓reduceIte]
      cases hl : t.lookup i with
      | none => rfl
      | some e =>
        simp only []
        obtain ⟨he, _⟩ := lookup_mem hl
        obtain ⟨h1, h2⟩ := elem_len hwf hs he
        obtain ⟨h1', _⟩ := elem_len hwf hdst he
        rw [readN_full h1, writeN_full h1' (by omega)]
        have htk : (src e.field).take (e.cnt sz) = src e.field := by rw [← h1]; simp
        rw [htk]
        have hd1 : Shaped t sz (upd dst e.field (src e.field)) := shaped_upd hdst (hs e.field)
        have hih := ih (upd dst e.field (src e.field)) hd1
        show copyLoop t sz src sig (upd dst e.field (src e.field)) is = _
        rw [hih]
        cases hr : getLoop t sz src sig is with
        | error x => rfl
        | ok r =>
          show setLoop t sz cast sig r (upd dst e.field (src e.field)) is
             = setLoop t sz cast sig (src e.field ++ r) dst (i :: is)
          rw [setLoop_cons]
          simp only [hb, ↓reduceIte, hl]
          obtain ⟨htk', hle⟩ := src_take cast e.special.isSome (src e.field) r h1
            (fun hsp => map_id_of_forall (hbool e he hsp))
          have hw : writeN (dst e.field)
              (if e.special.isSome = true then (src e.field ++ r).map cast else src e.field ++ r) (e.cnt sz)
              = .ok (src e.field) := by
            rw [writeN_full h1' hle, htk']
          have hdrop : (src e.field ++ r).drop (e.cnt sz) = r := by rw [← h1]; simp
          rw [hw, hdrop]
          rfl
    · simp only [hb, Bool.false_eq_true, ↓reduceIte]
      rw [ih dst hdst]
      cases hr : getLoop t sz src sig is with
      | error x => rfl
      | ok r =>
        show _ = setLoop t sz cast sig r dst (i :: is)
        rw [setLoop_cons]
        simp only [hb, Bool.false_eq_true, ↓reduceIte]
        rfl

/-- a signature with a set bit that has no `case` makes every loop raise `mju_error` -/
theorem getLoop_badElem {d : Data φ α} {sig : Nat} :
    ∀ {is : List Nat}, (∃ i, i ∈ is ∧ sig.testBit i = true ∧ t.lookup i = none) →
      ∃ x, getLoop t sz d sig is = .error x := by
  intro is
  induction is with
  | nil => intro ⟨i, hi, _⟩; cases hi
  | cons j is ih =>
    intro ⟨i, hi, hb, hl⟩
    unfold getLoop
    by_cases hbj : sig.testBit j = true
    · simp only [hbj, ↓reduceIte]
      cases hlj : t.lookup j with
      | none => exact ⟨_, rfl⟩
      | some e =>
        simp only []
        rcases mem_cons.mp hi with rfl | hi'
        · rw [hl] at hlj; cases hlj
        · obtain ⟨x, hx⟩ := ih ⟨i, hi', hb, hl⟩
          cases hrd : readN (d e.field) (e.cnt sz) with
          | error y => exact ⟨y, rfl⟩
          | ok v => rw [hx]; exact ⟨x, rfl⟩
    · simp only [hbj, Bool.false_eq_true, ↓reduceIte]
      rcases mem_cons.mp hi with rfl | hi'
      · exact absurd hb hbj
      · exact ih ⟨i, hi', hb, hl⟩

theorem sizeLoop_badElem {sig : Nat} :
    ∀ {is : List Nat}, (∃ i, i ∈ is ∧ sig.testBit i = true ∧ t.lookup i = none) →
      ∃ x, sizeLoop t sz sig is = .error x := by
  intro is
  induction is with
  | nil => intro ⟨i, hi, _⟩; cases hi
  | cons j is ih =>
    intro ⟨i, hi, hb, hl⟩
    unfold sizeLoop
    by_cases hbj : sig.testBit j = true
    · simp only [hbj, ↓reduceIte]
      cases hlj : t.lookup j with
      | none => exact ⟨_, rfl⟩
      | some e =>
        simp only []
        rcases mem_cons.mp hi with rfl | hi'
        · rw [hl] at hlj; cases hlj
        · obtain ⟨x, hx⟩ := ih ⟨i, hi', hb, hl⟩
          rw [hx]; exact ⟨x, rfl⟩
    · simp only [hbj, Bool.false_eq_true, ↓reduceIte]
      rcases mem_cons.mp hi with rfl | hi'
      · exact absurd hb hbj
      · exact ih ⟨i, hi', hb, hl⟩

theorem setLoop_badElem (cast : α → α) {sig : Nat} :
    ∀ {is : List Nat} (st : List α) (d : Data φ α),
      (∃ i, i ∈ is ∧ sig.testBit i = true ∧ t.lookup i = none) →
      ∃ x, setLoop t sz cast sig st d is = .error x := by
  intro is
  induction is with
  | nil => intro _ _ ⟨i, hi, _⟩; cases hi
  | cons j is ih =>
    intro st d ⟨i, hi, hb, hl⟩
    unfold setLoop
    by_cases hbj : sig.testBit j = true
    · simp only [hbj, ↓reduceIte]
      cases hlj : t.lookup j with
      | none => exact ⟨_, rfl⟩
      | some e =>
        simp only []
        rcases mem_cons.mp hi with rfl | hi'
        · rw [hl] at hlj; cases hlj
        · cases hw : writeN (d e.field) (if e.special.isSome = true then st.map cast else st) (e.cnt sz) with
          | error y => exact ⟨y, rfl⟩
          | ok v => exact ih _ _ ⟨i, hi', hb, hl⟩
    · simp only [hbj, Bool.false_eq_true, ↓reduceIte]
      rcases mem_cons.mp hi with rfl | hi'
      · exact absurd hb hbj
      · exact ih _ _ ⟨i, hi', hb, hl⟩

theorem copyLoop_badElem {src : Data φ α} {sig : Nat} :
    ∀ {is : List Nat} (d : Data φ α),
      (∃ i, i ∈ is ∧ sig.testBit i = true ∧ t.lookup i = none) →
      ∃ x, copyLoop t sz src sig d is = .error x := by
  intro is
  induction is with
  | nil => intro _ ⟨i, hi, _⟩; cases hi
  | cons j is ih =>
    intro d ⟨i, hi, hb, hl⟩
    unfold copyLoop
    by_cases hbj : sig.testBit j = true
    · simp only [hbj, ↓reduceIte]
      cases hlj : t.lookup j with
      | none => exact ⟨_, rfl⟩
      | some e =>
        simp only []
        rcases mem_cons.mp hi with rfl | hi'
        · rw [hl] at hlj; cases hlj
        · cases hw : writeN (d e.field) (src e.field) (e.cnt sz) with
          | error y => exact ⟨y, rfl⟩
          | ok v => exact ih _ ⟨i, hi', hb, hl⟩
    · simp only [hbj, Bool.false_eq_true, ↓reduceIte]
      rcases mem_cons.mp hi with rfl | hi'
      · exact absurd hb hbj
      · exact ih _ ⟨i, hi', hb, hl⟩

theorem extractLoop_badElem {srcsig dstsig : Nat} :
    ∀ {is : List Nat} (v : List α),
      (∃ i, i ∈ is ∧ srcsig.testBit i = true ∧ t.lookup i = none) →
      ∃ x, extractLoop t sz srcsig dstsig v is = .error x := by
  intro is
  induction is with
  | nil => intro _ ⟨i, hi, _⟩; cases hi
  | cons j is ih =>
    intro v ⟨i, hi, hb, hl⟩
    unfold extractLoop
    by_cases hbj : srcsig.testBit j = true
    · simp only [hbj, ↓reduceIte]
      cases hlj : t.lookup j with
      | none => exact ⟨_, rfl⟩
      | some e =>
        simp only []
        rcases mem_cons.mp hi with rfl | hi'
        · rw [hl] at hlj; cases hlj
        · cases hw : readN v (e.size sz) with
          | error y => exact ⟨y, rfl⟩
          | ok w =>
            obtain ⟨x, hx⟩ := ih (v.drop (e.size sz)) ⟨i, hi', hb, hl⟩
            rw [hx]; exact ⟨x, rfl⟩
    · simp only [hbj, Bool.false_eq_true, ↓reduceIte]
      rcases mem_cons.mp hi with rfl | hi'
      · exact absurd hb hbj
      · exact ih _ ⟨i, hi', hb, hl⟩

/-- with a complete table and shaped data the get loop never fails -/
theorem getLoop_ok (hwf : WF t) {d : Data φ α} (hd : Shaped t sz d) (sig : Nat) :
    ∀ (is : List Nat), (∀ i, i ∈ is → i < t.nstate) → ∃ v, getLoop t sz d sig is = .ok v := by
  intro is
  induction is with
  | nil => intro _; exact ⟨[], rfl⟩
  | cons i is ih =>
    intro hlt
    obtain ⟨r, hr⟩ := ih (fun j hj => hlt j (mem_cons_of_mem _ hj))
    unfold getLoop
    by_cases hb : sig.testBit i = true
    · simp only [hb, ↓reduceIte]
      obtain ⟨e, he, hbit⟩ := hwf.complete i (hlt i (by simp))
      have hl : t.lookup i = some e := hbit ▸ lookup_of_mem hwf.bits_nodup he
      rw [hl]
      simp only []
      obtain ⟨h1, _⟩ := elem_len hwf hd he
      rw [readN_full h1, hr]
      exact ⟨_, rfl⟩
    · simp only [hb, Bool.false_eq_true, ↓reduceIte]
      exact ⟨r, hr⟩

end

/-! ### symbolic tables -/

theorem SymTable.wf_sound {ν φ : Type} [DecidableEq ν] [DecidableEq φ] (s : SymTable ν φ)
    (h : s.wfCheck = true) : WF s.toTable := by
  unfold SymTable.wfCheck at h
  simp only [Bool.and_eq_true, decide_eq_true_eq, List.all_eq_true, List.any_eq_true] at h
  obtain ⟨⟨⟨⟨⟨h1, h2⟩, h3⟩, h4⟩, h5⟩, h6⟩ := h
  have hmem : ∀ e, e ∈ s.toTable.elems → ∃ se, se ∈ s.elems ∧ e = se.toElem := by
    intro e he
    simp only [SymTable.toTable, List.mem_map] at he
    obtain ⟨se, hse, rfl⟩ := he
    exact ⟨se, hse, rfl⟩
  refine ⟨h1, ?_, ?_, ?_, ?_, ?_, ?_, ?_⟩
  · intro i hi
    obtain ⟨se, hse, hb⟩ := h2 i (List.mem_range.mpr hi)
    refine ⟨se.toElem, ?_, ?_⟩
    · simp only [SymTable.toTable, List.mem_map]; exact ⟨se, hse, rfl⟩
    · simpa [SymElem.toElem] using hb
  · intro e he
    obtain ⟨se, hse, rfl⟩ := hmem e he
    exact h3 se hse
  · simpa [SymTable.toTable, List.map_map, Function.comp_def, SymElem.toElem] using h4
  · simpa [SymTable.toTable, List.map_map, Function.comp_def, SymElem.toElem] using h5
  · intro e he sz
    obtain ⟨se, hse, rfl⟩ := hmem e he
    exact SizeExpr.equiv_sound (h6 se hse).1.1 sz
  · intro e he sz
    obtain ⟨se, hse, rfl⟩ := hmem e he
    have := (h6 se hse).1.2
    unfold Elem.cnt SymElem.toElem
    cases hsp : se.special with
    | none => simp
    | some n =>
      rw [hsp] at this
      simp only [Option.map_some]
      exact SizeExpr.equiv_sound this sz
  · intro e he
    obtain ⟨se, hse, rfl⟩ := hmem e he
    have := (h6 se hse).2
    simp only [SymElem.toElem, SymTable.toTable, Option.isSome_map]
    exact eq_of_beq this

end MjProof.State
