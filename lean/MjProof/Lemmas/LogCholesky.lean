import MjProof.Model.LogCholesky
import MjProof.Lemmas.RealNum
import Mathlib.Tactic.Ring
import Mathlib.Tactic.Linarith
import Mathlib.Tactic.NormNum
import Mathlib.Tactic.Positivity
import Mathlib.Tactic.FieldSimp
import Mathlib.Tactic.LinearCombination
import Mathlib.Tactic.FinCases
import Mathlib.LinearAlgebra.Matrix.SemiringInverse
import Mathlib.LinearAlgebra.Matrix.Notation
/-
Lemmas about the log-Cholesky model over `ℝ`: quadratic forms, `J = U Uᵀ` is a sum of squares, the explicit
reverse Cholesky recurrence inverts `U ↦ U Uᵀ` on upper-triangular matrices with positive diagonal,
orthonormal frames of `ℝ³` are complete, and the frame identities behind the triangle inequalities.
-/
namespace MjProof.LogChol

/-! ### specification vocabulary -/

/-- `xᵀ J x` for `x = (x0,x1,x2,x3)` (all 16 entries of `J` are used). -/
def quad4 (J : Mat4 ℝ) (x0 x1 x2 x3 : ℝ) : ℝ :=
  x0 * (J.j00 * x0 + J.j01 * x1 + J.j02 * x2 + J.j03 * x3) +
  x1 * (J.j10 * x0 + J.j11 * x1 + J.j12 * x2 + J.j13 * x3) +
  x2 * (J.j20 * x0 + J.j21 * x1 + J.j22 * x2 + J.j23 * x3) +
  x3 * (J.j30 * x0 + J.j31 * x1 + J.j32 * x2 + J.j33 * x3)

/-- `aᵀ M a` for `a = (a0,a1,a2)` (all 9 entries of `M` are used). -/
def quad3 (M : Mat3 ℝ) (a0 a1 a2 : ℝ) : ℝ :=
  a0 * (M.m00 * a0 + M.m01 * a1 + M.m02 * a2) +
  a1 * (M.m10 * a0 + M.m11 * a1 + M.m12 * a2) +
  a2 * (M.m20 * a0 + M.m21 * a1 + M.m22 * a2)

/-- the `sigma = J[:3,:3]` block -/
def sigma (J : Mat4 ℝ) : Mat3 ℝ :=
  { m00 := J.j00, m01 := J.j01, m02 := J.j02, m10 := J.j10, m11 := J.j11, m12 := J.j12,
    m20 := J.j20, m21 := J.j21, m22 := J.j22 }

def Mat4.Symm (J : Mat4 ℝ) : Prop :=
  J.j10 = J.j01 ∧ J.j20 = J.j02 ∧ J.j30 = J.j03 ∧ J.j21 = J.j12 ∧ J.j31 = J.j13 ∧ J.j32 = J.j23

def Mat3.Symm (M : Mat3 ℝ) : Prop := M.m10 = M.m01 ∧ M.m20 = M.m02 ∧ M.m21 = M.m12

/-- positive definiteness, spelled out: `xᵀJx > 0` for every `x ≠ 0` -/
def Mat4.PosDef (J : Mat4 ℝ) : Prop :=
  ∀ x0 x1 x2 x3 : ℝ, (x0 ≠ 0 ∨ x1 ≠ 0 ∨ x2 ≠ 0 ∨ x3 ≠ 0) → 0 < quad4 J x0 x1 x2 x3

def Mat3.PosDef (M : Mat3 ℝ) : Prop :=
  ∀ a0 a1 a2 : ℝ, (a0 ≠ 0 ∨ a1 ≠ 0 ∨ a2 ≠ 0) → 0 < quad3 M a0 a1 a2

/-- upper-triangular with positive diagonal -/
def Upper.PosDiag (U : Upper ℝ) : Prop := 0 < U.u00 ∧ 0 < U.u11 ∧ 0 < U.u22 ∧ 0 < U.u33

/-- `(a, b, c)` is an orthonormal frame of `ℝ³` -/
structure Orthonormal3 (a0 a1 a2 b0 b1 b2 c0 c1 c2 : ℝ) : Prop where
  aa : a0 * a0 + a1 * a1 + a2 * a2 = 1
  bb : b0 * b0 + b1 * b1 + b2 * b2 = 1
  cc : c0 * c0 + c1 * c1 + c2 * c2 = 1
  ab : a0 * b0 + a1 * b1 + a2 * b2 = 0
  ac : a0 * c0 + a1 * c1 + a2 * c2 = 0
  bc : b0 * c0 + b1 * c1 + b2 * c2 = 0

/-- the symmetric quadratic form of the 6-vector `fullinertia = [xx, yy, zz, xy, xz, yz]` -/
def quadFull (B : BodyInertial ℝ) (a0 a1 a2 : ℝ) : ℝ :=
  B.fxx * a0 * a0 + B.fyy * a1 * a1 + B.fzz * a2 * a2 +
  2 * B.fxy * a0 * a1 + 2 * B.fxz * a0 * a2 + 2 * B.fyz * a1 * a2

/-! ### `J = U Uᵀ` -/

/-- the pseudo-inertia `J = U Uᵀ` built inside `pi_from_theta` -/
noncomputable def pseudo (θ : Theta ℝ) : Mat4 ℝ := mulTranspose (upperOfTheta θ)


theorem upperOfTheta_posDiag (θ : Theta ℝ) : (upperOfTheta θ).PosDiag := by
  simp only [Upper.PosDiag, upperOfTheta, real_exp, MjNum.lit, real_ofInt, Int.cast_one, one_mul]
  refine ⟨?_, ?_, ?_, ?_⟩ <;> positivity

theorem mulTranspose_symm (U : Upper ℝ) : (mulTranspose U).Symm := by
  simp [Mat4.Symm, mulTranspose]

theorem quad4_mulTranspose (U : Upper ℝ) (x0 x1 x2 x3 : ℝ) :
    quad4 (mulTranspose U) x0 x1 x2 x3 =
      (U.u00 * x0) ^ 2 + (U.u01 * x0 + U.u11 * x1) ^ 2 + (U.u02 * x0 + U.u12 * x1 + U.u22 * x2) ^ 2 +
      (U.u03 * x0 + U.u13 * x1 + U.u23 * x2 + U.u33 * x3) ^ 2 := by
  simp only [quad4, mulTranspose]
  ring

theorem mulTranspose_posDef (U : Upper ℝ) (h : U.PosDiag) : (mulTranspose U).PosDef := by
  obtain ⟨h0, h1, h2, h3⟩ := h
  intro x0 x1 x2 x3 hx
  rw [quad4_mulTranspose]
  by_cases e0 : x0 = 0
  · subst e0
    by_cases e1 : x1 = 0
    · subst e1
      by_cases e2 : x2 = 0
      · subst e2
        have e3 : x3 ≠ 0 := by simpa using hx
        have : 0 < (U.u33 * x3) ^ 2 := by positivity
        simpa using this
      · have : 0 < (U.u22 * x2) ^ 2 := by positivity
        have : 0 ≤ (U.u23 * x2 + U.u33 * x3) ^ 2 := sq_nonneg _
        simp only [mul_zero, zero_add]
        nlinarith
    · have : 0 < (U.u11 * x1) ^ 2 := by positivity
      have := sq_nonneg (U.u12 * x1 + U.u22 * x2)
      have := sq_nonneg (U.u13 * x1 + U.u23 * x2 + U.u33 * x3)
      simp only [mul_zero, zero_add]
      nlinarith
  · have : 0 < (U.u00 * x0) ^ 2 := by positivity
    have := sq_nonneg (U.u01 * x0 + U.u11 * x1)
    have := sq_nonneg (U.u02 * x0 + U.u12 * x1 + U.u22 * x2)
    have := sq_nonneg (U.u03 * x0 + U.u13 * x1 + U.u23 * x2 + U.u33 * x3)
    nlinarith

/-! ### the reverse Cholesky recurrence inverts `U ↦ U Uᵀ` -/

theorem pivot?_sq {a p : ℝ} (ha : 0 < a) (hp : p = a * a) : pivot? p = some a := by
  subst hp
  have hpos : 0 < a * a := by positivity
  simp only [pivot?, MjNum.lit, real_ofInt, Int.cast_zero, real_isNaN, real_sqrt]
  rw [if_neg (not_le.mpr hpos)]
  simp [Real.sqrt_mul_self ha.le]

/-- **Uniqueness of the Cholesky factor, for the explicit recurrence**: on `J = U Uᵀ` with `U`
    upper-triangular with positive diagonal, `cholUpper` succeeds and returns exactly `U`. -/
theorem cholUpper_mulTranspose (U : Upper ℝ) (h : U.PosDiag) : cholUpper (mulTranspose U) = some U := by
  obtain ⟨h0, h1, h2, h3⟩ := h
  have e3 : ∀ a b : ℝ, a + b - b = a := by intros; ring
  cases U with
  | mk u00 u01 u02 u03 u11 u12 u13 u22 u23 u33 =>
  simp only at h0 h1 h2 h3
  simp only [cholUpper, mulTranspose]
  rw [pivot?_sq h3 rfl]
  simp only [mul_div_cancel_right₀ _ h3.ne']
  rw [pivot?_sq h2 (e3 _ _)]
  simp only [e3, mul_div_cancel_right₀ _ h2.ne']
  rw [pivot?_sq h1 rfl]
  simp only [e3, mul_div_cancel_right₀ _ h1.ne']
  rw [pivot?_sq h0 rfl]

theorem thetaOfUpper_upperOfTheta (θ : Theta ℝ) : thetaOfUpper (upperOfTheta θ) = θ := by
  cases θ with
  | mk alpha d1 d2 d3 s12 s23 s13 t1 t2 t3 =>
  have hea : Real.exp alpha ≠ 0 := (Real.exp_pos alpha).ne'
  simp only [thetaOfUpper, upperOfTheta, real_exp, real_log, MjNum.lit, real_ofInt, Int.cast_one, one_mul,
    mul_div_cancel_right₀ _ hea, Real.log_exp]

/-- `pseudoinertia_from_pi` inverts the tail of `pi_from_theta` on symmetric matrices. -/
theorem pseudoFromPi_piOfPseudo (J : Mat4 ℝ) (hs : J.Symm) : pseudoFromPi (piOfPseudo J) = J := by
  obtain ⟨-, -, h30, -, h31, h32⟩ := hs
  cases J with
  | mk j00 j01 j02 j03 j10 j11 j12 j13 j20 j21 j22 j23 j30 j31 j32 j33 =>
  simp only at h30 h31 h32
  subst h30 h31 h32
  have half : (OfScientific.ofScientific 5 true 1 : ℝ) = 1 / 2 := by norm_num
  simp only [pseudoFromPi, piOfPseudo, MjNum.lit, real_ofInt, real_ofSci, half, Int.cast_zero, Mat4.mk.injEq]
  refine ⟨?_, ?_, ?_, ?_, ?_, ?_, ?_, ?_, ?_, ?_, ?_, ?_, ?_, ?_, ?_, ?_⟩  <;> first | trivial | ring


/-! ### orthonormal frames of `ℝ³` are complete -/

/-- For an orthonormal frame `(a,b,c)`: `a aᵀ + b bᵀ + c cᵀ = 1` (left inverse of a square matrix is a
    right inverse). -/
theorem Orthonormal3.complete {a0 a1 a2 b0 b1 b2 c0 c1 c2 : ℝ}
    (h : Orthonormal3 a0 a1 a2 b0 b1 b2 c0 c1 c2) :
    (a0 * a0 + b0 * b0 + c0 * c0 = 1 ∧ a1 * a1 + b1 * b1 + c1 * c1 = 1 ∧ a2 * a2 + b2 * b2 + c2 * c2 = 1) ∧
    (a0 * a1 + b0 * b1 + c0 * c1 = 0 ∧ a0 * a2 + b0 * b2 + c0 * c2 = 0 ∧ a1 * a2 + b1 * b2 + c1 * c2 = 0) := by
  obtain ⟨aa, bb, cc, ab, ac, bc⟩ := h
  let R : Matrix (Fin 3) (Fin 3) ℝ := !![a0, a1, a2; b0, b1, b2; c0, c1, c2]
  have hR : R * R.transpose = 1 := by
    ext i j
    fin_cases i <;> fin_cases j <;>
      simp [R, Matrix.mul_apply, Fin.sum_univ_three] <;> linarith
  have hL : R.transpose * R = 1 := mul_eq_one_comm.mp hR
  have e := fun i j => congrFun (congrFun hL i) j
  have e00 := e 0 0
  have e11 := e 1 1
  have e22 := e 2 2
  have e01 := e 0 1
  have e02 := e 0 2
  have e12 := e 1 2
  simp [R, Matrix.mul_apply, Fin.sum_univ_three] at e00 e11 e22 e01 e02 e12
  exact ⟨⟨e00, e11, e22⟩, e01, e02, e12⟩

/-- cyclic permutation of a frame -/
theorem Orthonormal3.rotate {a0 a1 a2 b0 b1 b2 c0 c1 c2 : ℝ}
    (h : Orthonormal3 a0 a1 a2 b0 b1 b2 c0 c1 c2) : Orthonormal3 b0 b1 b2 c0 c1 c2 a0 a1 a2 := by
  obtain ⟨aa, bb, cc, ab, ac, bc⟩ := h
  exact ⟨bb, cc, aa, bc, by linarith, by linarith⟩

/-- Trace identity: the three diagonal entries of a symmetric form in an orthonormal frame add up to
    its trace. -/
theorem Orthonormal3.sum_form {a0 a1 a2 b0 b1 b2 c0 c1 c2 : ℝ}
    (h : Orthonormal3 a0 a1 a2 b0 b1 b2 c0 c1 c2) (s00 s11 s22 s01 s02 s12 : ℝ) :
    (s00 * a0 * a0 + s11 * a1 * a1 + s22 * a2 * a2 + s01 * a0 * a1 + s02 * a0 * a2 + s12 * a1 * a2) +
    (s00 * b0 * b0 + s11 * b1 * b1 + s22 * b2 * b2 + s01 * b0 * b1 + s02 * b0 * b2 + s12 * b1 * b2) +
    (s00 * c0 * c0 + s11 * c1 * c1 + s22 * c2 * c2 + s01 * c0 * c1 + s02 * c0 * c2 + s12 * c1 * c2) =
    s00 + s11 + s22 := by
  obtain ⟨⟨d0, d1, d2⟩, o01, o02, o12⟩ := h.complete
  linear_combination s00 * d0 + s11 * d1 + s22 * d2 + s01 * o01 + s02 * o02 + s12 * o12

/-! ### the rotational inertia `I = tr(Σ)·1 − Σ` -/

/-- In any orthonormal frame the moments of `I_bar = tr(Σ)1 − Σ` satisfy `I_a + I_b − I_c = 2 cᵀΣc`. -/
theorem triangle_identity (J : Mat4 ℝ) {a0 a1 a2 b0 b1 b2 c0 c1 c2 : ℝ}
    (h : Orthonormal3 a0 a1 a2 b0 b1 b2 c0 c1 c2) :
    quad3 (piOfPseudo J).I a0 a1 a2 + quad3 (piOfPseudo J).I b0 b1 b2 - quad3 (piOfPseudo J).I c0 c1 c2 =
      2 * quad3 (sigma J) c0 c1 c2 := by
  have hs := h.sum_form J.j00 J.j11 J.j22 (J.j01 + J.j10) (J.j02 + J.j20) (J.j12 + J.j21)
  obtain ⟨aa, bb, cc, -, -, -⟩ := h
  simp only [quad3, piOfPseudo, sigma, MjNum.lit, real_ofInt, Int.cast_zero]
  linear_combination (J.j00 + J.j11 + J.j22) * (aa + bb - cc) - hs

theorem quad3_sigma (J : Mat4 ℝ) (a0 a1 a2 : ℝ) : quad3 (sigma J) a0 a1 a2 = quad4 J a0 a1 a2 0 := by
  simp only [quad3, sigma, quad4]; ring

theorem sigma_posDef (J : Mat4 ℝ) (hJ : J.PosDef) : (sigma J).PosDef := by
  intro a0 a1 a2 ha
  rw [quad3_sigma]
  exact hJ a0 a1 a2 0 (by tauto)

theorem Orthonormal3.c_ne {a0 a1 a2 b0 b1 b2 c0 c1 c2 : ℝ}
    (h : Orthonormal3 a0 a1 a2 b0 b1 b2 c0 c1 c2) : c0 ≠ 0 ∨ c1 ≠ 0 ∨ c2 ≠ 0 := by
  by_contra hc
  push Not at hc
  obtain ⟨r0, r1, r2⟩ := hc
  have := h.cc
  subst r0 r1 r2
  norm_num at this

/-! ### the central inertia written by `apply_body_theta_inertia` -/

/-- Schur complement: `cᵀ(Σ − h hᵀ/m)c = xᵀJx` at `x = (c, −(h·c)/m)`. -/
theorem schur_quad (J : Mat4 ℝ) (hs : J.Symm) (hm : J.j33 ≠ 0) (c0 c1 c2 : ℝ) :
    quad3 (sigma J) c0 c1 c2 - (J.j03 * c0 + J.j13 * c1 + J.j23 * c2) ^ 2 / J.j33 =
      quad4 J c0 c1 c2 (-(J.j03 * c0 + J.j13 * c1 + J.j23 * c2) / J.j33) := by
  obtain ⟨-, -, h30, -, h31, h32⟩ := hs
  simp only [quad3, sigma, quad4, h30, h31, h32]
  field_simp
  ring

/-- In any orthonormal frame the moments of the central inertia `F = I_bar + m·skew(c)²`, `c = h/m`,
    satisfy `F_a + F_b − F_c = 2 cᵀ(Σ − h hᵀ/m)c`. -/
theorem central_triangle_identity (J : Mat4 ℝ) (hs : J.Symm) (hm : J.j33 ≠ 0)
    {a0 a1 a2 b0 b1 b2 c0 c1 c2 : ℝ} (h : Orthonormal3 a0 a1 a2 b0 b1 b2 c0 c1 c2) :
    quadFull (bodyOfPi (piOfPseudo J)) a0 a1 a2 + quadFull (bodyOfPi (piOfPseudo J)) b0 b1 b2 -
        quadFull (bodyOfPi (piOfPseudo J)) c0 c1 c2 =
      2 * (quad3 (sigma J) c0 c1 c2 - (J.j03 * c0 + J.j13 * c1 + J.j23 * c2) ^ 2 / J.j33) := by
  obtain ⟨h10, h20, -, h21, -, -⟩ := hs
  have hs1 := h.sum_form J.j00 J.j11 J.j22 (2 * J.j01) (2 * J.j02) (2 * J.j12)
  have hs2 := h.sum_form (J.j03 * J.j03) (J.j13 * J.j13) (J.j23 * J.j23) (2 * J.j03 * J.j13)
    (2 * J.j03 * J.j23) (2 * J.j13 * J.j23)
  obtain ⟨aa, bb, cc, -, -, -⟩ := h
  simp only [quadFull, bodyOfPi, piOfPseudo, quad3, sigma, MjNum.lit, real_ofInt, Int.cast_zero, h10, h20, h21]
  field_simp
  linear_combination (J.j33 * (J.j00 + J.j11 + J.j22) - (J.j03 ^ 2 + J.j13 ^ 2 + J.j23 ^ 2)) * (aa + bb - cc)
    - J.j33 * hs1 + hs2


end MjProof.LogChol
