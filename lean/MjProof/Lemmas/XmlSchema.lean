import MjProof.Spec.Conform
/-
Lemmas for C37: the pieces of `check` (model of mjXSchema::Check) characterised one by one, and the equivalence of
the executable check with the declarative conformance relation of `Spec/Conform.lean`, for both settings of `aliasRec`.
-/
namespace MjProof.XmlSchema


theorem consError_none_iff (attrs : List (String × String)) (cs : List Con) :
    consError attrs cs = none ↔ ∀ c ∈ cs, conError attrs c = none := by
  induction cs with
  | nil => simp [consError]
  | cons c cs ih =>
    simp only [consError, List.mem_cons, forall_eq_or_imp]
    cases h : conError attrs c <;> simp [ih]

theorem checkRec_ok_iff (a : Bool) (s : Node) (l : Nat) (kids : List Xml) :
    checkRec a s l kids = .ok () ↔ ∀ k ∈ kids, recSel a s.name l k = true → check a s (l + 1) k = .ok () := by
  induction kids with
  | nil => simp [checkRec]
  | cons k ks ih =>
    rw [checkRec]
    simp only [List.mem_cons, forall_eq_or_imp]
    by_cases hs : recSel a s.name l k = true
    · simp only [hs, if_true, forall_const]
      cases hc : check a s (l + 1) k with
      | error e => simp
      | ok u => cases u; simp [ih]
    · simp [hs, ih]

theorem checkKids_ok_iff (a : Bool) (s : Node) (l : Nat) (kids : List Xml) :
    checkKids a s l kids = .ok () ↔
      ∀ k ∈ kids, (∀ sub, assign s.subs k.name l = some sub → check a sub (l + 1) k = .ok ()) ∧
        (assign s.subs k.name l = none → s.type = 'R' ∧ nameMatch s.name k.name (l + 1) = true) := by
  induction kids with
  | nil => simp [checkKids]
  | cons k ks ih =>
    rw [checkKids]
    simp only [List.mem_cons, forall_eq_or_imp]
    cases hA : assign s.subs k.name l with
    | some sub =>
      simp only [Option.some.injEq, forall_eq', reduceCtorEq, false_implies, and_true]
      cases hc : check a sub (l + 1) k with
      | error e => simp
      | ok u => cases u; simp [ih]
    | none =>
      simp only [reduceCtorEq, false_implies, implies_true, true_and, forall_const]
      by_cases hR : (s.type == 'R' && nameMatch s.name k.name (l + 1)) = true
      · simp only [hR, if_true, ih]
        simp only [Bool.and_eq_true, beq_iff_eq] at hR
        simp [hR]
      · simp only [hR, Bool.false_eq_true, if_false, reduceCtorEq, false_iff]
        simp only [Bool.and_eq_true, beq_iff_eq] at hR
        intro h; exact hR h.1



theorem cardMsg_none_iff (sub : Node) (n : Nat) : cardMsg sub n = none ↔ CardOk sub.type n := by
  unfold cardMsg CardOk
  by_cases h1 : sub.type = '!'
  · simp only [h1, beq_self_eq_true, if_true]
    by_cases h2 : n > 1
    · simp [h2] <;> omega
    · by_cases h3 : n < 1
      · simp [h2, h3] <;> omega
      · simp [h2, h3] <;> omega
  · have h1' : (sub.type == '!') = false := by simpa using h1
    simp only [h1', Bool.false_eq_true, if_false, h1]
    by_cases h4 : sub.type = '?'
    · simp only [h4, beq_self_eq_true, if_true]
      by_cases h2 : n > 1
      · simp [h2] <;> omega
      · simp [h2] <;> omega
    · have h4' : (sub.type == '?') = false := by simpa using h4
      simp [h4', h4]

theorem cardError_none_iff (subs : List Node) (l : Nat) (kids : List Xml) :
    cardError subs l kids = none ↔ ∀ i (h : i < subs.length), CardOk subs[i].type (refcnt subs l kids i) := by
  unfold cardError
  rw [List.getLast?_eq_none_iff, List.filterMap_eq_nil_iff]
  constructor
  · intro h i hi
    have := h (subs[i], i) (by
      rw [List.mem_zipIdx_iff_getElem?]; simp [hi])
    exact (cardMsg_none_iff _ _).1 this
  · intro h p hp
    obtain ⟨sub, i⟩ := p
    rw [List.mem_zipIdx_iff_getElem?] at hp
    simp only at hp
    obtain ⟨hi, rfl⟩ := List.getElem?_eq_some_iff.1 hp
    exact (cardMsg_none_iff _ _).2 (h i hi)



theorem filter_len_le_one_iff {α} (p : α → Bool) (l : List α) :
    (l.filter p).length ≤ 1 ↔ l.Pairwise (fun a b => ¬ (p a = true ∧ p b = true)) := by
  induction l with
  | nil => simp
  | cons x xs ih =>
    rw [List.pairwise_cons]
    by_cases hx : p x = true
    · simp only [List.filter_cons, hx, if_true, List.length_cons, true_and]
      constructor
      · intro h
        have h0 : xs.filter p = [] := List.eq_nil_of_length_eq_zero (by omega)
        rw [List.filter_eq_nil_iff] at h0
        refine ⟨fun y hy hpy => h0 y hy hpy, ?_⟩
        rw [List.pairwise_iff_forall_sublist]
        intro a b hab hc
        have : a ∈ xs := hab.subset (by simp)
        exact h0 a this hc.1
      · intro ⟨h1, _⟩
        have : xs.filter p = [] := by
          rw [List.filter_eq_nil_iff]; exact fun y hy hpy => h1 y hy hpy
        simp [this]
    · simp only [List.filter_cons, hx, Bool.false_eq_true, if_false, false_and, not_false_eq_true, implies_true, true_and]
      exact ih



theorem any_present_iff (attrs : List (String × String)) (b : List String) :
    b.any (present attrs) = true ↔ touched attrs b := by
  simp [touched, List.any_eq_true]

theorem all_present_iff (attrs : List (String × String)) (b : List String) :
    b.all (present attrs) = true ↔ complete attrs b := by
  simp [complete, List.all_eq_true]

theorem nPresent_eq (attrs : List (String × String)) (bs : List (List String)) :
    nPresent attrs bs = (bs.flatten.filter (present attrs)).length := by
  unfold nPresent
  induction bs with
  | nil => simp
  | cons b bs ih => simp [List.filter_append, ih]

theorem nAttr_eq (bs : List (List String)) : nAttr bs = bs.flatten.length := by
  unfold nAttr; simp [List.length_flatten]

theorem conError_none_iff (attrs : List (String × String)) (c : Con) :
    conError attrs c = none ↔ ConHolds attrs c := by
  unfold conError ConHolds
  by_cases he : c.kind = 'e'
  · simp only [he, beq_self_eq_true, if_true]
    have := filter_len_le_one_iff (fun b => b.any (present attrs)) c.bundles
    simp only [any_present_iff] at this
    rw [← this]
    unfold nAny
    by_cases h : (c.bundles.filter fun b => b.any (present attrs)).length > 1
    · simp [h] <;> omega
    · simp [h] <;> omega
  have he' : (c.kind == 'e') = false := by simpa using he
  simp only [he', Bool.false_eq_true, if_false, he]
  by_cases ht : c.kind = 't'
  · simp only [ht, beq_self_eq_true, if_true]
    rw [nPresent_eq, nAttr_eq]
    have hall : (∀ b ∈ c.bundles, ∀ a ∈ b, present attrs a = true) ↔
        (c.bundles.flatten.filter (present attrs)).length = c.bundles.flatten.length := by
      rw [List.length_filter_eq_length_iff]; simp [List.mem_flatten]; 
      constructor
      · intro h a b hb ha; exact h b hb a ha
      · intro h b hb a ha; exact h a b hb ha
    have hnone : (∀ b ∈ c.bundles, ∀ a ∈ b, present attrs a = false) ↔
        (c.bundles.flatten.filter (present attrs)).length = 0 := by
      rw [List.length_eq_zero_iff, List.filter_eq_nil_iff]; simp [List.mem_flatten]
      constructor
      · intro h a b hb ha; exact h b hb a ha
      · intro h b hb a ha; exact h a b hb ha
    rw [hall, hnone]
    generalize (c.bundles.flatten.filter (present attrs)).length = n
    generalize c.bundles.flatten.length = m
    by_cases h1 : n = 0 <;> by_cases h2 : n = m <;> simp [h1, h2] <;> omega
  have ht' : (c.kind == 't') = false := by simpa using ht
  simp only [ht', Bool.false_eq_true, if_false, ht]
  by_cases hr : c.kind = 'r'
  · simp only [hr, beq_self_eq_true, if_true]
    match hb : c.bundles with
    | [] => simp
    | [] :: _ => simp
    | [(_ :: _)] => simp
    | (_ :: _) :: [] :: _ => simp
    | (a :: ra) :: (b :: rb) :: rest =>
      constructor
      · intro hn
        refine ⟨a, ra, b, rb, rest, rfl, fun ha => ?_⟩
        cases hb' : present attrs b with
        | true => rfl
        | false => simp [ha, hb'] at hn
      · rintro ⟨a', ra', b', rb', rest', heq, himp⟩
        simp only [List.cons.injEq] at heq
        obtain ⟨⟨rfl, rfl⟩, ⟨rfl, rfl⟩, rfl⟩ := heq
        by_cases h : (present attrs a && !present attrs b) = true
        · simp only [Bool.and_eq_true, Bool.not_eq_true'] at h
          have := himp h.1; simp [h.2] at this
        · simp [h]
  have hr' : (c.kind == 'r') = false := by simpa using hr
  simp only [hr', Bool.false_eq_true, if_false, hr]
  by_cases ho : c.kind = 'o'
  · simp only [ho, beq_self_eq_true, if_true]
    unfold nAll
    by_cases h : (c.bundles.filter fun b => b.all (present attrs)).length = 0
    · simp only [h, beq_self_eq_true, if_true, reduceCtorEq, false_iff]
      rw [List.length_eq_zero_iff, List.filter_eq_nil_iff] at h
      rintro ⟨b, hb, hc⟩
      exact h b hb ((all_present_iff attrs b).2 hc)
    · have h' : ((c.bundles.filter fun b => b.all (present attrs)).length == 0) = false := by simpa using h
      simp only [h', Bool.false_eq_true, if_false, true_iff]
      have : (c.bundles.filter fun b => b.all (present attrs)) ≠ [] := by
        intro hn; simp [hn] at h
      obtain ⟨b, hb⟩ := List.exists_mem_of_ne_nil _ this
      rw [List.mem_filter] at hb
      exact ⟨b, hb.1, (all_present_iff attrs b).1 hb.2⟩
  have ho' : (c.kind == 'o') = false := by simpa using ho
  simp [ho', ho]



theorem Xml.ind {P : Xml → Prop}
    (h : ∀ name line attrs kids, (∀ k ∈ kids, P k) → P (.mk name line attrs kids)) (x : Xml) : P x := by
  refine Xml.rec (motive_1 := P) (motive_2 := fun l => ∀ k ∈ l, P k) ?_ ?_ ?_ x
  · intro name line attrs kids ih; exact h name line attrs kids ih
  · intro k hk; cases hk
  · intro hd tl h1 h2 k hk
    rcases List.mem_cons.1 hk with rfl | hk
    · exact h1
    · exact h2 k hk

theorem check_ok_iff (a : Bool) (s : Node) (l : Nat) (name : String) (line : Nat)
    (attrs : List (String × String)) (kids : List Xml) :
    check a s l (.mk name line attrs kids) = .ok () ↔
      nameMatch s.name name l = true ∧ (∀ q ∈ attrs, q.1 ∈ s.attrs) ∧ (∀ c ∈ s.cons, conError attrs c = none) ∧
      (s.type = 'R' → checkRec a s l kids = .ok ()) ∧ checkKids a s l kids = .ok () ∧
      cardError s.subs l kids = none := by
  rw [check]
  by_cases hn : nameMatch s.name name l = true
  case neg => simp [hn]
  simp only [hn, Bool.not_true, Bool.false_eq_true, if_false, true_and]
  cases hf : attrs.find? (fun q => !s.attrs.contains q.1) with
  | some q =>
    have := List.find?_some hf
    have hm := List.mem_of_find?_eq_some hf
    simp only [reduceCtorEq, false_iff, not_and]
    intro h; exfalso
    have := h q hm
    simp_all
  | none =>
    rw [List.find?_eq_none] at hf
    have hattrs : ∀ q ∈ attrs, q.1 ∈ s.attrs := by
      intro q hat; have := hf q hat; simpa using this
    cases hc : consError attrs s.cons with
    | some m =>
      have : ¬ ∀ c ∈ s.cons, conError attrs c = none := by
        rw [← consError_none_iff, hc]; simp
      simp [this]
    | none =>
      rw [consError_none_iff] at hc
      by_cases hR : s.type = 'R'
      · simp only [hR, beq_self_eq_true, if_true, forall_const]
        cases hrec : checkRec a s l kids with
        | error e => simp
        | ok u =>
          cases u
          simp only [true_and]
          cases hk : checkKids a s l kids with
          | error e => simp
          | ok u =>
            cases u
            cases hcard : cardError s.subs l kids with
            | some m => simp
            | none => simp; exact ⟨fun a b h => hattrs (a, b) h, hc⟩
      · have hR' : (s.type == 'R') = false := by simpa using hR
        simp only [hR', Bool.false_eq_true, if_false, hR, false_implies, true_and]
        cases hk : checkKids a s l kids with
        | error e => simp
        | ok u =>
          cases u
          cases hcard : cardError s.subs l kids with
          | some m => simp
          | none => simp; exact ⟨fun a b h => hattrs (a, b) h, hc⟩

theorem check_ok_iff_conforms (a : Bool) (x : Xml) : ∀ (s : Node) (l : Nat),
    check a s l x = .ok () ↔ Conforms a s l x := by
  induction x using Xml.ind with
  | h name line attrs kids ih =>
    intro s l
    rw [check_ok_iff, checkRec_ok_iff, checkKids_ok_iff, cardError_none_iff]
    constructor
    · rintro ⟨hn, hat, hc, hrec, hk, hcard⟩
      refine Conforms.mk s l name line attrs kids hn hat (fun c hcm => (conError_none_iff _ _).1 (hc c hcm)) ?_ ?_ ?_ hcard
      · intro hR k hkm hsel
        exact (ih k hkm s (l + 1)).1 (hrec hR k hkm hsel)
      · intro k hkm sub hsub
        exact (ih k hkm sub (l + 1)).1 ((hk k hkm).1 sub hsub)
      · intro k hkm hnone
        exact (hk k hkm).2 hnone
    · intro h
      cases h with
      | mk _ _ _ _ _ _ hn hat hc hrec hsub hnone hcard =>
        refine ⟨hn, hat, fun c hcm => (conError_none_iff _ _).2 (hc c hcm), ?_, ?_, hcard⟩
        · intro hR k hkm hsel
          exact (ih k hkm s (l + 1)).2 (hrec hR k hkm hsel)
        · intro k hkm
          exact ⟨fun sub hs => (ih k hkm sub (l + 1)).2 (hsub k hkm sub hs), hnone k hkm⟩

end MjProof.XmlSchema
