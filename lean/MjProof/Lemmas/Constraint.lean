import MjProof.Model.Constraint
import MjProof.Lemmas.RealNum
import Mathlib.Analysis.SpecialFunctions.Sqrt
import Mathlib.Analysis.Calculus.Deriv.Basic
import Mathlib.Analysis.Calculus.Deriv.Add
import Mathlib.Analysis.Calculus.Deriv.Mul
import Mathlib.Analysis.Calculus.Deriv.Pow
import Mathlib.Analysis.Calculus.Deriv.Comp
import Mathlib.Tactic.Ring
import Mathlib.Tactic.Linarith
import Mathlib.Tactic.NormNum
import Mathlib.Tactic.Positivity
import Mathlib.Tactic.FieldSimp
/-
Real-number reading of the constraint-update model (Model/Constraint.lean) and the helper lemmas used
by Props/C11.lean and Props/C12.lean.
-/
namespace MjProof.Constraint
open MjProof

/-! ### the operations of `MjNum ℝ` are the field operations of `ℝ` -/
theorem r_mul (a b : ℝ) : @HMul.hMul ℝ ℝ ℝ (@instHMul ℝ (MjNum.toMul)) a b = a * b := rfl
theorem r_add (a b : ℝ) : @HAdd.hAdd ℝ ℝ ℝ (@instHAdd ℝ (MjNum.toAdd)) a b = a + b := rfl
theorem r_sub (a b : ℝ) : @HSub.hSub ℝ ℝ ℝ (@instHSub ℝ (MjNum.toSub)) a b = a - b := rfl
theorem r_div (a b : ℝ) : @HDiv.hDiv ℝ ℝ ℝ (@instHDiv ℝ (MjNum.toDiv)) a b = a / b := rfl
theorem r_neg (a : ℝ) : @Neg.neg ℝ (MjNum.toNeg) a = -a := rfl
theorem r_lt (a b : ℝ) : @LT.lt ℝ (MjNum.toLT) a b ↔ a < b := Iff.rfl
theorem r_le (a b : ℝ) : @LE.le ℝ (MjNum.toLE) a b ↔ a ≤ b := Iff.rfl
theorem zero_real : (zero : ℝ) = 0 := by simp [zero]
theorem one_real : (one : ℝ) = 1 := by simp [one]
theorem half_real : (half : ℝ) = 1 / 2 := by simp [half]; norm_num
theorem minval_real : (minval : ℝ) = 1 / 10 ^ 15 := by simp [minval]; norm_num

/-- rewrite the generic operations at `ℝ` into the standard ones -/
macro "real_ops" : tactic =>
  `(tactic| simp only [r_mul, r_add, r_sub, r_div, r_neg, r_lt, r_le, zero_real, one_real, half_real,
      real_sqrt])
macro "real_ops_at" h:ident : tactic =>
  `(tactic| simp only [r_mul, r_add, r_sub, r_div, r_neg, r_lt, r_le, zero_real, one_real, half_real,
      real_sqrt] at $h:ident)

/-! ### sums of squares -/
/-- Σ xᵢ² -/
def sqSum (v : List ℝ) : ℝ := (v.map (fun x => x * x)).sum

theorem sqSum_nil : sqSum [] = 0 := rfl
theorem sqSum_cons (a : ℝ) (v : List ℝ) : sqSum (a :: v) = a * a + sqSum v := by simp [sqSum]
theorem sqSum_nonneg (v : List ℝ) : 0 ≤ sqSum v := by
  induction v with
  | nil => simp [sqSum]
  | cons a v ih => rw [sqSum_cons]; nlinarith [mul_self_nonneg a]

theorem sumsqAcc_real (r0 r1 r2 r3 : ℝ) (v : List ℝ) :
    sumsqAcc r0 r1 r2 r3 v = r0 + r1 + r2 + r3 + sqSum v := by
  fun_induction sumsqAcc r0 r1 r2 r3 v with
  | case1 r0 r1 r2 r3 a0 a1 a2 a3 rest ih =>
    rw [ih]; real_ops; simp only [sqSum_cons]; ring
  | case2 r0 r1 r2 r3 a0 a1 a2 => real_ops; simp only [sqSum_cons, sqSum_nil]; ring
  | case3 r0 r1 r2 r3 a0 a1 => real_ops; simp only [sqSum_cons, sqSum_nil]; ring
  | case4 r0 r1 r2 r3 a0 => real_ops; simp only [sqSum_cons, sqSum_nil]; ring
  | case5 r0 r1 r2 r3 => real_ops; simp only [sqSum_nil]; ring

theorem sumsq_real (v : List ℝ) : sumsq v = sqSum v := by
  unfold sumsq; rw [sumsqAcc_real]; real_ops; ring

theorem norm_real (v : List ℝ) : norm v = Real.sqrt (sqSum v) := by
  unfold norm; rw [sumsq_real]; rfl


theorem addTerms_real (s : ℝ) (ts : List ℝ) : addTerms s ts = s + ts.sum := by
  unfold addTerms
  induction ts generalizing s with
  | nil => simp
  | cons t ts ih => simp only [List.foldl_cons, List.sum_cons, ih]; real_ops; ring

/-! ### scalar rows on ℝ -/
/-- the cost contributed by a row: the sum of its increments -/
def RowOut.cost (o : RowOut ℝ) : ℝ := o.terms.sum

theorem eqRow_cost (D x : ℝ) : (eqRow D x).cost = 1 / 2 * D * x * x := by
  simp only [eqRow, RowOut.cost, List.sum_cons, List.sum_nil, add_zero, r_mul, half_real]
theorem eqRow_force (D x : ℝ) : (eqRow D x).force = -D * x := by
  simp only [eqRow, r_mul, r_neg]

theorem fricRow_real (D R fl x : ℝ) :
    fricRow D R fl x =
      if x ≤ -R * fl then ⟨[-(1 / 2) * R * fl * fl - fl * x], fl, 2⟩
      else if R * fl ≤ x then ⟨[-(1 / 2) * R * fl * fl + fl * x], -fl, 3⟩
      else ⟨[1 / 2 * D * x * x], -D * x, 1⟩ := by
  unfold fricRow
  simp only [r_mul, r_add, r_sub, r_neg, r_le, half_real, stLinearNeg, stLinearPos, stQuadratic]

theorem fricRow_cost (D R fl x : ℝ) :
    (fricRow D R fl x).cost =
      if x ≤ -R * fl then -(1 / 2) * R * fl * fl - fl * x
      else if R * fl ≤ x then -(1 / 2) * R * fl * fl + fl * x
      else 1 / 2 * D * x * x := by
  rw [fricRow_real]; split_ifs <;> simp [RowOut.cost]

theorem fricRow_force (D R fl x : ℝ) :
    (fricRow D R fl x).force =
      if x ≤ -R * fl then fl else if R * fl ≤ x then -fl else -D * x := by
  rw [fricRow_real]; split_ifs <;> rfl

theorem nonnegRow_real (D x : ℝ) :
    nonnegRow D x = if 0 ≤ x then ⟨[], 0, 0⟩ else ⟨[1 / 2 * D * x * x], -D * x, 1⟩ := by
  unfold nonnegRow
  simp only [r_mul, r_neg, r_le, half_real, zero_real, stSatisfied, stQuadratic]

theorem nonnegRow_cost (D x : ℝ) :
    (nonnegRow D x).cost = if 0 ≤ x then 0 else 1 / 2 * D * x * x := by
  rw [nonnegRow_real]; split_ifs <;> simp [RowOut.cost]

theorem nonnegRow_force (D x : ℝ) :
    (nonnegRow D x).force = if 0 ≤ x then 0 else -D * x := by
  rw [nonnegRow_real]; split_ifs <;> rfl

/-! ### gluing derivatives of piecewise functions -/
/-- if `h` coincides with `f` on the left of `a` and with `g` on the right of `a`, and `f`, `g` have
    the same derivative at `a`, then `h` has that derivative at `a` (the kink points of the costs) -/
theorem hasDerivAt_glue {f g h : ℝ → ℝ} {a f' : ℝ}
    (hl : ∀ x, x ≤ a → h x = f x) (hr : ∀ x, a ≤ x → h x = g x)
    (hf : HasDerivAt f f' a) (hg : HasDerivAt g f' a) : HasDerivAt h f' a := by
  have h1 : HasDerivWithinAt h f' (Set.Iic a) a :=
    hf.hasDerivWithinAt.congr (fun x hx => hl x hx) (hl a le_rfl)
  have h2 : HasDerivWithinAt h f' (Set.Ici a) a :=
    hg.hasDerivWithinAt.congr (fun x hx => hr x hx) (hr a le_rfl)
  have h3 := h1.union h2
  rwa [Set.Iic_union_Ici, hasDerivWithinAt_univ] at h3

/-- `h` coincides with `f` on an open interval around `a` -/
theorem hasDerivAt_of_eq_on_Ioo {f h : ℝ → ℝ} {a f' l u : ℝ} (hla : l < a) (hau : a < u)
    (he : ∀ x, l < x → x < u → h x = f x) (hf : HasDerivAt f f' a) : HasDerivAt h f' a := by
  refine hf.congr_of_eventuallyEq ?_
  filter_upwards [Ioo_mem_nhds hla hau] with x hx
  exact he x hx.1 hx.2

theorem hasDerivAt_of_eq_on_Iio {f h : ℝ → ℝ} {a f' u : ℝ} (hau : a < u)
    (he : ∀ x, x < u → h x = f x) (hf : HasDerivAt f f' a) : HasDerivAt h f' a := by
  refine hf.congr_of_eventuallyEq ?_
  filter_upwards [Iio_mem_nhds hau] with x hx
  exact he x hx

theorem hasDerivAt_of_eq_on_Ioi {f h : ℝ → ℝ} {a f' l : ℝ} (hla : l < a)
    (he : ∀ x, l < x → h x = f x) (hf : HasDerivAt f f' a) : HasDerivAt h f' a := by
  refine hf.congr_of_eventuallyEq ?_
  filter_upwards [Ioi_mem_nhds hla] with x hx
  exact he x hx

end MjProof.Constraint
