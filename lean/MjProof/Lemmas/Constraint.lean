import MjProof.Model.Constraint
import MjProof.Lemmas.RealNum
import Mathlib.Analysis.SpecialFunctions.Sqrt
import Mathlib.Analysis.Calculus.Deriv.Basic
import Mathlib.Analysis.Calculus.Deriv.Add
import Mathlib.Analysis.Calculus.Deriv.Mul
import Mathlib.Analysis.Calculus.Deriv.Pow
import Mathlib.Analysis.Calculus.Deriv.Comp
import Mathlib.Analysis.Calculus.Deriv.Inv
import Mathlib.Tactic.Ring
import Mathlib.Tactic.Linarith
import Mathlib.Tactic.NormNum
import Mathlib.Tactic.Positivity
import Mathlib.Tactic.FieldSimp
import Mathlib.Tactic.LinearCombination
import Mathlib.Algebra.BigOperators.Fin
import Mathlib.Algebra.Order.BigOperators.Ring.Finset
import Mathlib.Analysis.Convex.Function
/-
Real-number reading of the constraint-update model (Model/Constraint.lean) and the helper lemmas used
by Props/C11.lean and Props/C12.lean.
-/
namespace MjProof.Constraint
open MjProof Asymptotics Filter Topology

/-! ### the operations of `MjNum ℝ` are the field operations of `ℝ` -/
theorem r_mul (a b : ℝ) : @HMul.hMul ℝ ℝ ℝ (@instHMul ℝ (MjNum.toMul)) a b = a * b := rfl
theorem r_add (a b : ℝ) : @HAdd.hAdd ℝ ℝ ℝ (@instHAdd ℝ (MjNum.toAdd)) a b = a + b := rfl
theorem r_sub (a b : ℝ) : @HSub.hSub ℝ ℝ ℝ (@instHSub ℝ (MjNum.toSub)) a b = a - b := rfl
theorem r_div (a b : ℝ) : @HDiv.hDiv ℝ ℝ ℝ (@instHDiv ℝ (MjNum.toDiv)) a b = a / b := rfl
theorem r_neg (a : ℝ) : @Neg.neg ℝ (MjNum.toNeg) a = -a := rfl
theorem r_lt (a b : ℝ) : @LT.lt ℝ (MjNum.toLT) a b ↔ a < b := Iff.rfl
theorem r_le (a b : ℝ) : @LE.le ℝ (MjNum.toLE) a b ↔ a ≤ b := Iff.rfl
theorem zero_real : (zero : ℝ) = 0 := by simp [zero]
theorem one_real : (one : ℝ) = 1 := by simp [one]
theorem half_real : (half : ℝ) = 1 / 2 := by simp [half]; norm_num
theorem minval_real : (minval : ℝ) = 1 / 10 ^ 15 := by simp [minval]; norm_num

/-- rewrite the generic operations at `ℝ` into the standard ones -/
macro "real_ops" : tactic =>
  `(tactic| simp only [r_mul, r_add, r_sub, r_div, r_neg, r_lt, r_le, zero_real, one_real, half_real,
      real_sqrt])
macro "real_ops_at" h:ident : tactic =>
  `(tactic| simp only [r_mul, r_add, r_sub, r_div, r_neg, r_lt, r_le, zero_real, one_real, half_real,
      real_sqrt] at $h:ident)

/-! ### sums of squares -/
/-- Σ xᵢ² -/
def sqSum (v : List ℝ) : ℝ := (v.map (fun x => x * x)).sum

theorem sqSum_nil : sqSum [] = 0 := rfl
theorem sqSum_cons (a : ℝ) (v : List ℝ) : sqSum (a :: v) = a * a + sqSum v := by simp [sqSum]
theorem sqSum_nonneg (v : List ℝ) : 0 ≤ sqSum v := by
  induction v with
  | nil => simp [sqSum]
  | cons a v ih => rw [sqSum_cons]; nlinarith [mul_self_nonneg a]

theorem sumsqAcc_real (r0 r1 r2 r3 : ℝ) (v : List ℝ) :
    sumsqAcc r0 r1 r2 r3 v = r0 + r1 + r2 + r3 + sqSum v := by
  fun_induction sumsqAcc r0 r1 r2 r3 v with
  | case1 r0 r1 r2 r3 a0 a1 a2 a3 rest ih =>
    rw [ih]; real_ops; simp only [sqSum_cons]; ring
  | case2 r0 r1 r2 r3 a0 a1 a2 => real_ops; simp only [sqSum_cons, sqSum_nil]; ring
  | case3 r0 r1 r2 r3 a0 a1 => real_ops; simp only [sqSum_cons, sqSum_nil]; ring
  | case4 r0 r1 r2 r3 a0 => real_ops; simp only [sqSum_cons, sqSum_nil]; ring
  | case5 r0 r1 r2 r3 => real_ops; simp only [sqSum_nil]; ring

theorem sumsq_real (v : List ℝ) : sumsq v = sqSum v := by
  unfold sumsq; rw [sumsqAcc_real]; real_ops; ring

theorem norm_real (v : List ℝ) : norm v = Real.sqrt (sqSum v) := by
  unfold norm; rw [sumsq_real]; rfl


theorem addTerms_real (s : ℝ) (ts : List ℝ) : addTerms s ts = s + ts.sum := by
  unfold addTerms
  induction ts generalizing s with
  | nil => simp
  | cons t ts ih => simp only [List.foldl_cons, List.sum_cons, ih]; real_ops; ring

/-! ### scalar rows on ℝ -/
/-- the cost contributed by a row: the sum of its increments -/
def RowOut.cost (o : RowOut ℝ) : ℝ := o.terms.sum

theorem eqRow_cost (D x : ℝ) : (eqRow D x).cost = 1 / 2 * D * x * x := by
  simp only [eqRow, RowOut.cost, List.sum_cons, List.sum_nil, add_zero, r_mul, half_real]
theorem eqRow_force (D x : ℝ) : (eqRow D x).force = -D * x := by
  simp only [eqRow, r_mul, r_neg]

theorem fricRow_real (D R fl x : ℝ) :
    fricRow D R fl x =
      if x ≤ -R * fl then ⟨[-(1 / 2) * R * fl * fl - fl * x], fl, 2⟩
      else if R * fl ≤ x then ⟨[-(1 / 2) * R * fl * fl + fl * x], -fl, 3⟩
      else ⟨[1 / 2 * D * x * x], -D * x, 1⟩ := by
  unfold fricRow
  simp only [r_mul, r_add, r_sub, r_neg, r_le, half_real, stLinearNeg, stLinearPos, stQuadratic]

theorem fricRow_cost (D R fl x : ℝ) :
    (fricRow D R fl x).cost =
      if x ≤ -R * fl then -(1 / 2) * R * fl * fl - fl * x
      else if R * fl ≤ x then -(1 / 2) * R * fl * fl + fl * x
      else 1 / 2 * D * x * x := by
  rw [fricRow_real]; split_ifs <;> simp [RowOut.cost]

theorem fricRow_force (D R fl x : ℝ) :
    (fricRow D R fl x).force =
      if x ≤ -R * fl then fl else if R * fl ≤ x then -fl else -D * x := by
  rw [fricRow_real]; split_ifs <;> rfl

theorem nonnegRow_real (D x : ℝ) :
    nonnegRow D x = if 0 ≤ x then ⟨[], 0, 0⟩ else ⟨[1 / 2 * D * x * x], -D * x, 1⟩ := by
  unfold nonnegRow
  simp only [r_mul, r_neg, r_le, half_real, zero_real, stSatisfied, stQuadratic]

theorem nonnegRow_cost (D x : ℝ) :
    (nonnegRow D x).cost = if 0 ≤ x then 0 else 1 / 2 * D * x * x := by
  rw [nonnegRow_real]; split_ifs <;> simp [RowOut.cost]

theorem nonnegRow_force (D x : ℝ) :
    (nonnegRow D x).force = if 0 ≤ x then 0 else -D * x := by
  rw [nonnegRow_real]; split_ifs <;> rfl

/-! ### gluing derivatives of piecewise functions -/
/-- if `h` coincides with `f` on the left of `a` and with `g` on the right of `a`, and `f`, `g` have
    the same derivative at `a`, then `h` has that derivative at `a` (the kink points of the costs) -/
theorem hasDerivAt_glue {f g h : ℝ → ℝ} {a f' : ℝ}
    (hl : ∀ x, x ≤ a → h x = f x) (hr : ∀ x, a ≤ x → h x = g x)
    (hf : HasDerivAt f f' a) (hg : HasDerivAt g f' a) : HasDerivAt h f' a := by
  have h1 : HasDerivWithinAt h f' (Set.Iic a) a :=
    hf.hasDerivWithinAt.congr (fun x hx => hl x hx) (hl a le_rfl)
  have h2 : HasDerivWithinAt h f' (Set.Ici a) a :=
    hg.hasDerivWithinAt.congr (fun x hx => hr x hx) (hr a le_rfl)
  have h3 := h1.union h2
  rwa [Set.Iic_union_Ici, hasDerivWithinAt_univ] at h3

/-- `h` coincides with `f` on an open interval around `a` -/
theorem hasDerivAt_of_eq_on_Ioo {f h : ℝ → ℝ} {a f' l u : ℝ} (hla : l < a) (hau : a < u)
    (he : ∀ x, l < x → x < u → h x = f x) (hf : HasDerivAt f f' a) : HasDerivAt h f' a := by
  refine hf.congr_of_eventuallyEq ?_
  filter_upwards [Ioo_mem_nhds hla hau] with x hx
  exact he x hx.1 hx.2

theorem hasDerivAt_of_eq_on_Iio {f h : ℝ → ℝ} {a f' u : ℝ} (hau : a < u)
    (he : ∀ x, x < u → h x = f x) (hf : HasDerivAt f f' a) : HasDerivAt h f' a := by
  refine hf.congr_of_eventuallyEq ?_
  filter_upwards [Iio_mem_nhds hau] with x hx
  exact he x hx

theorem hasDerivAt_of_eq_on_Ioi {f h : ℝ → ℝ} {a f' l : ℝ} (hla : l < a)
    (he : ∀ x, l < x → h x = f x) (hf : HasDerivAt f f' a) : HasDerivAt h f' a := by
  refine hf.congr_of_eventuallyEq ?_
  filter_upwards [Ioi_mem_nhds hla] with x hx
  exact he x hx


/-! ### derivative from a two-sided quadratic sandwich; convexity from supporting lines -/
theorem hasDerivAt_of_sandwich {c : ℝ → ℝ} {g x0 L : ℝ}
    (hlo : ∀ x, c x0 + g * (x - x0) ≤ c x)
    (hup : ∀ x, c x ≤ c x0 + g * (x - x0) + L * (x - x0) ^ 2) : HasDerivAt c g x0 := by
  rw [hasDerivAt_iff_isLittleO]
  have hO : (fun x => c x - c x0 - (x - x0) • g) =O[𝓝 x0] (fun x => ‖x - x0‖ ^ 2) := by
    refine IsBigO.of_bound |L| (Eventually.of_forall fun x => ?_)
    have h1 := hlo x
    have h2 := hup x
    have e0 : 0 ≤ c x - c x0 - (x - x0) • g := by rw [smul_eq_mul]; linarith
    rw [Real.norm_eq_abs, abs_of_nonneg e0, Real.norm_eq_abs, Real.norm_eq_abs, abs_pow, abs_abs,
      smul_eq_mul, ← abs_pow, abs_of_nonneg (sq_nonneg (x - x0))]
    have : L * (x - x0) ^ 2 ≤ |L| * (x - x0) ^ 2 :=
      mul_le_mul_of_nonneg_right (le_abs_self L) (sq_nonneg _)
    linarith
  exact hO.trans_isLittleO (isLittleO_pow_sub_sub x0 one_lt_two)

theorem convexOn_of_subgradient {c g : ℝ → ℝ}
    (hsub : ∀ x y, c y + g y * (x - y) ≤ c x) : ConvexOn ℝ Set.univ c := by
  refine ⟨convex_univ, fun x _ y _ a b ha hb hab => ?_⟩
  have h1 := hsub x (a • x + b • y)
  have h2 := hsub y (a • x + b • y)
  simp only [smul_eq_mul] at *
  have hb' : b = 1 - a := by linarith
  subst hb'
  nlinarith [mul_le_mul_of_nonneg_left h1 ha, mul_le_mul_of_nonneg_left h2 hb]

/-! ### Huber function -/
/-- Huber cost with unit curvature and threshold `b` -/
noncomputable def huber1 (b x : ℝ) : ℝ :=
  if x ≤ -b then -(1 / 2) * b * b - b * x
  else if b ≤ x then -(1 / 2) * b * b + b * x
  else 1 / 2 * x * x
/-- its derivative -/
noncomputable def huber1' (b x : ℝ) : ℝ :=
  if x ≤ -b then -b else if b ≤ x then b else x

theorem huber1_lower (b x y : ℝ) (hb : 0 ≤ b) :
    huber1 b y + huber1' b y * (x - y) ≤ huber1 b x := by
  unfold huber1 huber1'
  split_ifs with h1 h2 h3 h4 h5 h6 h7 h8 <;> try push Not at *
  all_goals nlinarith [sq_nonneg (x - y), sq_nonneg (x + b), sq_nonneg (x - b), sq_nonneg (y + b), sq_nonneg (y - b)]

theorem huber1_upper (b x y : ℝ) (hb : 0 ≤ b) :
    huber1 b x ≤ huber1 b y + huber1' b y * (x - y) + 1 / 2 * (x - y) ^ 2 := by
  unfold huber1 huber1'
  split_ifs with h1 h2 h3 h4 h5 h6 h7 h8 <;> try push Not at *
  all_goals nlinarith [sq_nonneg (x - y), sq_nonneg (x + b), sq_nonneg (x - b), sq_nonneg (y + b), sq_nonneg (y - b)]

/-! ### elliptic cone block on ℝ -/

/-- rows of a cone block given by coordinate functions -/
def tsOf {n : ℕ} (D w jar : Fin n → ℝ) : List (TRow ℝ) := List.ofFn fun i => ⟨D i, jar i, w i⟩

/-- Σ (jarᵢ wᵢ)² -/
def SS {n : ℕ} (w jar : Fin n → ℝ) : ℝ := ∑ i, (jar i * w i) ^ 2
/-- `T` -/
noncomputable def TT {n : ℕ} (w jar : Fin n → ℝ) : ℝ := Real.sqrt (SS w jar)

theorem SS_nonneg {n : ℕ} (w jar : Fin n → ℝ) : 0 ≤ SS w jar :=
  Finset.sum_nonneg fun _ _ => sq_nonneg _
theorem TT_nonneg {n : ℕ} (w jar : Fin n → ℝ) : 0 ≤ TT w jar := Real.sqrt_nonneg _
theorem TT_sq {n : ℕ} (w jar : Fin n → ℝ) : TT w jar * TT w jar = SS w jar :=
  Real.mul_self_sqrt (SS_nonneg w jar)

theorem sqSum_ofFn {n : ℕ} (f : Fin n → ℝ) : sqSum (List.ofFn f) = ∑ i, f i ^ 2 := by
  unfold sqSum
  rw [List.map_ofFn, List.sum_ofFn]
  exact Finset.sum_congr rfl fun i _ => by simp [sq]

theorem norm_tsOf {n : ℕ} (D w jar : Fin n → ℝ) : norm (ellUt (tsOf D w jar)) = TT w jar := by
  rw [norm_real]
  unfold ellUt tsOf TT SS
  rw [List.map_ofFn, sqSum_ofFn]
  congr 1

theorem ellZone_real (mu N T : ℝ) :
    ellZone mu N T =
      if mu * T ≤ N ∨ (T ≤ 0 ∧ 0 ≤ N) then Zone.top
      else if mu * N + T ≤ 0 ∨ (T ≤ 0 ∧ N < 0) then Zone.bottom else Zone.middle := by
  unfold ellZone
  simp only [r_mul, r_add, r_le, r_lt, zero_real]

/-- for `mu > 0`, `T ≥ 0` the zone only depends on the signs of `s = N − mu T` and `q = mu N + T` -/
theorem ellZone_of_nonneg {mu N T : ℝ} (hmu : 0 < mu) (hT : 0 ≤ T) :
    ellZone mu N T =
      if 0 ≤ N - mu * T then Zone.top else if mu * N + T ≤ 0 then Zone.bottom else Zone.middle := by
  rw [ellZone_real]
  have h1 : (mu * T ≤ N ∨ (T ≤ 0 ∧ 0 ≤ N)) ↔ 0 ≤ N - mu * T := by
    constructor
    · rintro (h | ⟨h1, h2⟩)
      · linarith
      · have : T = 0 := le_antisymm h1 hT
        subst this; simpa using h2
    · intro h; left; linarith
  have h2 : (mu * N + T ≤ 0 ∨ (T ≤ 0 ∧ N < 0)) ↔ mu * N + T ≤ 0 := by
    constructor
    · rintro (h | ⟨h1, h2⟩)
      · exact h
      · have : T = 0 := le_antisymm h1 hT
        subst this; nlinarith
    · intro h; left; exact h
  simp only [h1, h2]


theorem ellDm_real (D0 mu : ℝ) : ellDm D0 mu = D0 / (mu * mu * (1 + mu * mu)) := by
  unfold ellDm; simp only [r_mul, r_add, r_div, one_real]

section block
variable {n : ℕ} (D0 mu : ℝ) (D w : Fin n → ℝ)

/-- zone of the block at residual `(j0, jar)` -/
noncomputable def blkZone (j0 : ℝ) (jar : Fin n → ℝ) : Zone := ellZone mu (j0 * mu) (TT w jar)

/-- cost of the block (sum of the increments the code adds to `s`) in closed form -/
noncomputable def blkCost (j0 : ℝ) (jar : Fin n → ℝ) : ℝ :=
  match blkZone mu w j0 jar with
  | Zone.top => 0
  | Zone.bottom => 1 / 2 * D0 * j0 * j0 + ∑ i, 1 / 2 * D i * jar i * jar i
  | Zone.middle =>
    1 / 2 * ellDm D0 mu * (j0 * mu - mu * TT w jar) * (j0 * mu - mu * TT w jar)

/-- normal force of the block in closed form -/
noncomputable def blkForceN (j0 : ℝ) (jar : Fin n → ℝ) : ℝ :=
  match blkZone mu w j0 jar with
  | Zone.top => 0
  | Zone.bottom => -D0 * j0
  | Zone.middle => -ellDm D0 mu * (j0 * mu - mu * TT w jar) * mu

/-- tangential forces of the block in closed form -/
noncomputable def blkForceT (j0 : ℝ) (jar : Fin n → ℝ) (i : Fin n) : ℝ :=
  match blkZone mu w j0 jar with
  | Zone.top => 0
  | Zone.bottom => -D i * jar i
  | Zone.middle => -(blkForceN D0 mu w j0 jar) / TT w jar * (jar i * w i) * w i

theorem ellBlock_terms_sum (j0 : ℝ) (jar : Fin n → ℝ) :
    ((ellBlock D0 j0 mu (tsOf D w jar)).terms).sum = blkCost D0 mu D w j0 jar := by
  unfold ellBlock blkCost blkZone
  simp only [norm_tsOf, r_mul, r_sub, r_neg, half_real]
  cases ellZone mu (j0 * mu) (TT w jar) with
  | top => simp
  | bottom =>
    simp only [List.sum_cons, tsOf, List.map_ofFn, List.sum_ofFn]
    rfl
  | middle => simp

theorem ellBlock_force (j0 : ℝ) (jar : Fin n → ℝ) :
    (ellBlock D0 j0 mu (tsOf D w jar)).force =
      blkForceN D0 mu w j0 jar :: List.ofFn (blkForceT D0 mu D w j0 jar) := by
  unfold ellBlock blkForceT blkForceN blkZone
  simp only [norm_tsOf, r_mul, r_sub, r_neg, r_div, half_real, zero_real, midForceN, midForceT]
  cases ellZone mu (j0 * mu) (TT w jar) with
  | top => simp only [tsOf, List.map_ofFn]; rfl
  | bottom => simp only [tsOf, List.map_ofFn]; rfl
  | middle => simp only [tsOf, List.map_ofFn]; rfl

end block


/-! ### the one-sided quadratic `q1 t = ½ min(t,0)²` and its derivative -/
noncomputable def q1 (t : ℝ) : ℝ := if 0 ≤ t then 0 else 1 / 2 * t * t
noncomputable def q1' (t : ℝ) : ℝ := if 0 ≤ t then 0 else t

theorem q1_nonneg (t : ℝ) : 0 ≤ q1 t := by
  unfold q1; split_ifs
  · exact le_rfl
  · nlinarith [mul_self_nonneg t]
theorem q1'_nonpos (t : ℝ) : q1' t ≤ 0 := by
  unfold q1'; split_ifs with h
  · exact le_rfl
  · exact (not_le.mp h).le
theorem q1_lower (x z : ℝ) : q1 z + q1' z * (x - z) ≤ q1 x := by
  unfold q1 q1'
  split_ifs with h1 h2 h2 <;> try push Not at *
  all_goals nlinarith [sq_nonneg (x - z), sq_nonneg x, sq_nonneg z]
theorem q1_upper (x z : ℝ) : q1 x ≤ q1 z + q1' z * (x - z) + 1 / 2 * (x - z) ^ 2 := by
  unfold q1 q1'
  split_ifs with h1 h2 h2 <;> try push Not at *
  all_goals nlinarith [sq_nonneg (x - z), sq_nonneg x, sq_nonneg z]
theorem q1'_eq_min (t : ℝ) : q1' t = min t 0 := by
  unfold q1'; split_ifs with h
  · exact (min_eq_right h).symm
  · exact (min_eq_left (not_le.mp h).le).symm

section block2
variable {n : ℕ} {D0 mu : ℝ} {D w : Fin n → ℝ}

/-- `β`: the tangential gradient of the cost is `Dm (1+mu²) β U` -/
noncomputable def blkBeta (mu : ℝ) (w : Fin n → ℝ) (j0 : ℝ) (jar : Fin n → ℝ) : ℝ :=
  match blkZone mu w j0 jar with
  | Zone.top => 0
  | Zone.bottom => 1
  | Zone.middle => -mu * (j0 * mu - mu * TT w jar) / ((1 + mu * mu) * TT w jar)

theorem blkZone_eq (hmu : 0 < mu) (j0 : ℝ) (jar : Fin n → ℝ) :
    blkZone mu w j0 jar =
      if 0 ≤ j0 * mu - mu * TT w jar then Zone.top
      else if mu * (j0 * mu) + TT w jar ≤ 0 then Zone.bottom else Zone.middle :=
  ellZone_of_nonneg hmu (TT_nonneg w jar)

theorem rel_sum (hrel : ∀ i, D i * (mu * mu) = D0 * (w i * w i)) (jar : Fin n → ℝ) :
    (∑ i, 1 / 2 * D i * jar i * jar i) * (mu * mu) = 1 / 2 * D0 * SS w jar := by
  unfold SS
  rw [Finset.sum_mul, Finset.mul_sum]
  refine Finset.sum_congr rfl fun i _ => ?_
  have := hrel i
  calc 1 / 2 * D i * jar i * jar i * (mu * mu) = 1 / 2 * (D i * (mu * mu)) * jar i * jar i := by ring
    _ = 1 / 2 * D0 * (jar i * w i) ^ 2 := by rw [this]; ring

theorem q1_of_nonneg {t : ℝ} (h : 0 ≤ t) : q1 t = 0 := by unfold q1; rw [if_pos h]
theorem q1_of_nonpos {t : ℝ} (h : t ≤ 0) : q1 t = 1 / 2 * t * t := by
  unfold q1; split_ifs with h0
  · have : t = 0 := le_antisymm h h0
    subst this; ring
  · rfl
theorem q1'_of_nonneg {t : ℝ} (h : 0 ≤ t) : q1' t = 0 := by unfold q1'; rw [if_pos h]
theorem q1'_of_nonpos {t : ℝ} (h : t ≤ 0) : q1' t = t := by
  unfold q1'; split_ifs with h0
  · exact (le_antisymm h h0).symm
  · rfl

/-- the three zones in terms of `s = N − mu T`, `q = mu N + T` -/
theorem blkZone_cases (hmu : 0 < mu) (j0 : ℝ) (jar : Fin n → ℝ) :
    (blkZone mu w j0 jar = Zone.top ∧ 0 ≤ j0 * mu - mu * TT w jar ∧ 0 ≤ mu * (j0 * mu) + TT w jar) ∨
    (blkZone mu w j0 jar = Zone.bottom ∧ j0 * mu - mu * TT w jar < 0 ∧ mu * (j0 * mu) + TT w jar ≤ 0) ∨
    (blkZone mu w j0 jar = Zone.middle ∧ j0 * mu - mu * TT w jar < 0 ∧ 0 < mu * (j0 * mu) + TT w jar) := by
  have hT := TT_nonneg w jar
  rw [blkZone_eq hmu]
  by_cases h1 : 0 ≤ j0 * mu - mu * TT w jar
  · left
    refine ⟨if_pos h1, h1, ?_⟩
    have : 0 ≤ mu * TT w jar := mul_nonneg hmu.le hT
    nlinarith
  · right
    by_cases h2 : mu * (j0 * mu) + TT w jar ≤ 0
    · left; exact ⟨by rw [if_neg h1, if_pos h2], not_le.mp h1, h2⟩
    · right; exact ⟨by rw [if_neg h1, if_neg h2], not_le.mp h1, not_le.mp h2⟩

/-- under the impedance relation the block cost is `Dm (q1(N − mu T) + q1(mu N + T))` -/
theorem blkCost_eq (hmu : 0 < mu) (hrel : ∀ i, D i * (mu * mu) = D0 * (w i * w i))
    (j0 : ℝ) (jar : Fin n → ℝ) :
    blkCost D0 mu D w j0 jar =
      ellDm D0 mu * (q1 (j0 * mu - mu * TT w jar) + q1 (mu * (j0 * mu) + TT w jar)) := by
  have hTT := TT_sq w jar
  have hm : 0 < mu * mu := mul_pos hmu hmu
  unfold blkCost
  rcases blkZone_cases (w := w) hmu j0 jar with ⟨hz, h1, h2⟩ | ⟨hz, h1, h2⟩ | ⟨hz, h1, h2⟩
  · rw [hz, q1_of_nonneg h1, q1_of_nonneg h2]; simp
  · rw [hz, q1_of_nonpos h1.le, q1_of_nonpos h2, ellDm_real]
    have hs := rel_sum hrel jar
    have hne : mu * mu ≠ 0 := hm.ne'
    have hne2 : (1 + mu * mu) ≠ 0 := by positivity
    have e : (∑ i, 1 / 2 * D i * jar i * jar i) = 1 / 2 * D0 * SS w jar / (mu * mu) := by
      rw [eq_div_iff hne]; exact hs
    simp only []
    rw [e, ← hTT]
    field_simp
    ring
  · rw [hz, q1_of_nonpos h1.le, q1_of_nonneg h2.le]
    simp only []
    ring


theorem blkForceN_eq (hmu : 0 < mu) (j0 : ℝ) (jar : Fin n → ℝ) :
    blkForceN D0 mu w j0 jar =
      -(ellDm D0 mu * mu * (q1' (j0 * mu - mu * TT w jar) + mu * q1' (mu * (j0 * mu) + TT w jar))) := by
  unfold blkForceN
  rcases blkZone_cases (w := w) hmu j0 jar with ⟨hz, h1, h2⟩ | ⟨hz, h1, h2⟩ | ⟨hz, h1, h2⟩
  · rw [hz, q1'_of_nonneg h1, q1'_of_nonneg h2]; simp
  · rw [hz, q1'_of_nonpos h1.le, q1'_of_nonpos h2, ellDm_real]
    have hne : mu ≠ 0 := hmu.ne'
    have hne2 : (1 + mu * mu) ≠ 0 := by positivity
    simp only []
    field_simp
    ring
  · rw [hz, q1'_of_nonpos h1.le, q1'_of_nonneg h2.le]
    simp only []
    ring

theorem blkBeta_nonneg (hmu : 0 < mu) (j0 : ℝ) (jar : Fin n → ℝ) : 0 ≤ blkBeta mu w j0 jar := by
  unfold blkBeta
  have hT := TT_nonneg w jar
  rcases blkZone_cases (w := w) hmu j0 jar with ⟨hz, h1, h2⟩ | ⟨hz, h1, h2⟩ | ⟨hz, h1, h2⟩
  · rw [hz]
  · rw [hz]; exact zero_le_one
  · rw [hz]
    simp only []
    apply div_nonneg
    · nlinarith
    · positivity

theorem blkBeta_le_one (hmu : 0 < mu) (j0 : ℝ) (jar : Fin n → ℝ) : blkBeta mu w j0 jar ≤ 1 := by
  unfold blkBeta
  have hT := TT_nonneg w jar
  rcases blkZone_cases (w := w) hmu j0 jar with ⟨hz, h1, h2⟩ | ⟨hz, h1, h2⟩ | ⟨hz, h1, h2⟩
  · rw [hz]; exact zero_le_one
  · rw [hz]
  · rw [hz]
    simp only []
    have hTpos : 0 < TT w jar := by
      rcases hT.eq_or_lt with h | h
      · exfalso; rw [← h] at h1 h2; nlinarith
      · exact h
    rw [div_le_one (by positivity)]
    nlinarith

/-- `β T (1+mu²) = −mu q1'(s) + q1'(q)` -/
theorem blkBeta_mul_T (hmu : 0 < mu) (j0 : ℝ) (jar : Fin n → ℝ) :
    blkBeta mu w j0 jar * TT w jar * (1 + mu * mu) =
      -mu * q1' (j0 * mu - mu * TT w jar) + q1' (mu * (j0 * mu) + TT w jar) := by
  unfold blkBeta
  have hT := TT_nonneg w jar
  rcases blkZone_cases (w := w) hmu j0 jar with ⟨hz, h1, h2⟩ | ⟨hz, h1, h2⟩ | ⟨hz, h1, h2⟩
  · rw [hz, q1'_of_nonneg h1, q1'_of_nonneg h2]; simp
  · rw [hz, q1'_of_nonpos h1.le, q1'_of_nonpos h2]; simp only []; ring
  · rw [hz, q1'_of_nonpos h1.le, q1'_of_nonneg h2.le]
    simp only []
    have hTpos : 0 < TT w jar := by
      rcases hT.eq_or_lt with h | h
      · exfalso; rw [← h] at h1 h2; nlinarith
      · exact h
    have hne : TT w jar ≠ 0 := hTpos.ne'
    have hne2 : (1 + mu * mu) ≠ 0 := by positivity
    field_simp
    ring

theorem blkForceT_eq (hmu : 0 < mu) (hrel : ∀ i, D i * (mu * mu) = D0 * (w i * w i))
    (j0 : ℝ) (jar : Fin n → ℝ) (i : Fin n) :
    blkForceT D0 mu D w j0 jar i =
      -(ellDm D0 mu * (1 + mu * mu) * blkBeta mu w j0 jar * (jar i * w i) * w i) := by
  unfold blkForceT blkBeta blkForceN
  have hT := TT_nonneg w jar
  have hne : mu ≠ 0 := hmu.ne'
  have hne2 : (1 + mu * mu) ≠ 0 := by positivity
  rcases blkZone_cases (w := w) hmu j0 jar with ⟨hz, h1, h2⟩ | ⟨hz, h1, h2⟩ | ⟨hz, h1, h2⟩
  · rw [hz]; simp
  · rw [hz, ellDm_real]
    simp only []
    have := hrel i
    have e : D i = D0 * (w i * w i) / (mu * mu) := by
      rw [eq_div_iff (mul_ne_zero hne hne)]; exact this
    rw [e]
    field_simp
  · rw [hz]
    simp only []
    have hTpos : 0 < TT w jar := by
      rcases hT.eq_or_lt with h | h
      · exfalso; rw [← h] at h1 h2; nlinarith
      · exact h
    have hne3 : TT w jar ≠ 0 := hTpos.ne'
    field_simp


/-- `⟨U_z, U_x⟩` -/
def pp (w x z : Fin n → ℝ) : ℝ := ∑ i, (z i * w i) * (x i * w i)

theorem pp_le (w x z : Fin n → ℝ) : pp w x z ≤ TT w z * TT w x := by
  have h := Finset.sum_mul_sq_le_sq_mul_sq Finset.univ (fun i => z i * w i) (fun i => x i * w i)
  have h0 : 0 ≤ TT w z * TT w x := mul_nonneg (TT_nonneg w z) (TT_nonneg w x)
  have h1 : pp w x z ^ 2 ≤ (TT w z * TT w x) ^ 2 := by
    have e : (TT w z * TT w x) ^ 2 = SS w z * SS w x := by
      rw [mul_pow, sq, sq, TT_sq, TT_sq]
    rw [e]; exact h
  exact (abs_le_of_sq_le_sq' h1 h0).2

theorem ellDm_nonneg (hD0 : 0 ≤ D0) (mu : ℝ) : 0 ≤ ellDm D0 mu := by
  rw [ellDm_real]; apply div_nonneg hD0
  have := mul_self_nonneg mu
  nlinarith

/-- the linear part of the tangential forces: `Σ (−f_i(z)) (x_i − z_i) = Dm (1+mu²) β (⟨U_z,U_x⟩ − T_z²)` -/
theorem sum_forceT (hmu : 0 < mu) (hrel : ∀ i, D i * (mu * mu) = D0 * (w i * w i))
    (j0z : ℝ) (jx jz : Fin n → ℝ) :
    ∑ i, (-(blkForceT D0 mu D w j0z jz i)) * (jx i - jz i) =
      ellDm D0 mu * (1 + mu * mu) * blkBeta mu w j0z jz * (pp w jx jz - SS w jz) := by
  unfold pp SS
  rw [← Finset.sum_sub_distrib, Finset.mul_sum]
  refine Finset.sum_congr rfl fun i _ => ?_
  rw [blkForceT_eq hmu hrel]
  ring

/-- gradient (supporting hyperplane) inequality of the block cost: the first-order model built from
    the returned forces at `z` never exceeds the cost -/
theorem blk_lower (hmu : 0 < mu) (hD0 : 0 ≤ D0) (hrel : ∀ i, D i * (mu * mu) = D0 * (w i * w i))
    (j0x : ℝ) (jx : Fin n → ℝ) (j0z : ℝ) (jz : Fin n → ℝ) :
    blkCost D0 mu D w j0z jz + (-(blkForceN D0 mu w j0z jz)) * (j0x - j0z) +
      ∑ i, (-(blkForceT D0 mu D w j0z jz i)) * (jx i - jz i) ≤ blkCost D0 mu D w j0x jx := by
  rw [sum_forceT hmu hrel, blkCost_eq hmu hrel, blkCost_eq hmu hrel, blkForceN_eq hmu]
  have hDm := ellDm_nonneg hD0 mu
  have hG := blkBeta_mul_T (w := w) hmu j0z jz
  have hb0 := blkBeta_nonneg (w := w) hmu j0z jz
  have hp := pp_le w jx jz
  have hTz := TT_sq w jz
  have hL1 := q1_lower (j0x * mu - mu * TT w jx) (j0z * mu - mu * TT w jz)
  have hL2 := q1_lower (mu * (j0x * mu) + TT w jx) (mu * (j0z * mu) + TT w jz)
  set Dm := ellDm D0 mu
  set β := blkBeta mu w j0z jz
  set Tx := TT w jx
  set Tz := TT w jz
  set p := pp w jx jz
  set a := q1' (j0z * mu - mu * Tz)
  set b := q1' (mu * (j0z * mu) + Tz)
  have hm : 0 < 1 + mu * mu := by positivity
  have hneg : (1 + mu * mu) * β * (p - Tz * Tx) ≤ 0 := by
    have : 0 ≤ (1 + mu * mu) * β := mul_nonneg hm.le hb0
    nlinarith
  have key : q1 (j0z * mu - mu * Tz) + q1 (mu * (j0z * mu) + Tz) + mu * (a + mu * b) * (j0x - j0z) +
      (1 + mu * mu) * β * (p - SS w jz) ≤
      q1 (j0x * mu - mu * Tx) + q1 (mu * (j0x * mu) + Tx) := by
    have e : (1 + mu * mu) * β * (p - SS w jz) =
        (1 + mu * mu) * β * (p - Tz * Tx) + (-mu * a + b) * (Tx - Tz) := by
      rw [← hTz]; linear_combination (Tx - Tz) * hG
    rw [e]
    nlinarith
  calc Dm * (q1 (j0z * mu - mu * Tz) + q1 (mu * (j0z * mu) + Tz)) +
        -(-(Dm * mu * (a + mu * b))) * (j0x - j0z) + Dm * (1 + mu * mu) * β * (p - SS w jz)
      = Dm * (q1 (j0z * mu - mu * Tz) + q1 (mu * (j0z * mu) + Tz) + mu * (a + mu * b) * (j0x - j0z) +
          (1 + mu * mu) * β * (p - SS w jz)) := by ring
    _ ≤ Dm * (q1 (j0x * mu - mu * Tx) + q1 (mu * (j0x * mu) + Tx)) :=
        mul_le_mul_of_nonneg_left key hDm


/-- quadratic upper bound of the block cost around `z` (the gradient is Lipschitz) -/
theorem blk_upper (hmu : 0 < mu) (hD0 : 0 ≤ D0) (hrel : ∀ i, D i * (mu * mu) = D0 * (w i * w i))
    (j0x : ℝ) (jx : Fin n → ℝ) (j0z : ℝ) (jz : Fin n → ℝ) :
    blkCost D0 mu D w j0x jx ≤
      blkCost D0 mu D w j0z jz + (-(blkForceN D0 mu w j0z jz)) * (j0x - j0z) +
      ∑ i, (-(blkForceT D0 mu D w j0z jz i)) * (jx i - jz i) +
      1 / 2 * ellDm D0 mu * (1 + mu * mu) *
        ((j0x * mu - j0z * mu) ^ 2 + (SS w jx - 2 * pp w jx jz + SS w jz)) := by
  rw [sum_forceT hmu hrel, blkCost_eq hmu hrel, blkCost_eq hmu hrel, blkForceN_eq hmu]
  have hDm := ellDm_nonneg hD0 mu
  have hG := blkBeta_mul_T (w := w) hmu j0z jz
  have hb1 := blkBeta_le_one (w := w) hmu j0z jz
  have hp := pp_le w jx jz
  have hTz := TT_sq w jz
  have hTx := TT_sq w jx
  have hU1 := q1_upper (j0x * mu - mu * TT w jx) (j0z * mu - mu * TT w jz)
  have hU2 := q1_upper (mu * (j0x * mu) + TT w jx) (mu * (j0z * mu) + TT w jz)
  set Dm := ellDm D0 mu
  set β := blkBeta mu w j0z jz
  set Tx := TT w jx
  set Tz := TT w jz
  set p := pp w jx jz
  set a := q1' (j0z * mu - mu * Tz)
  set b := q1' (mu * (j0z * mu) + Tz)
  have hm : 0 < 1 + mu * mu := by positivity
  have hpos : 0 ≤ (1 + mu * mu) * (1 - β) * (Tz * Tx - p) := by
    have : 0 ≤ (1 + mu * mu) * (1 - β) := mul_nonneg hm.le (by linarith)
    nlinarith
  have key : q1 (j0x * mu - mu * Tx) + q1 (mu * (j0x * mu) + Tx) ≤
      q1 (j0z * mu - mu * Tz) + q1 (mu * (j0z * mu) + Tz) + mu * (a + mu * b) * (j0x - j0z) +
      (1 + mu * mu) * β * (p - SS w jz) +
      1 / 2 * (1 + mu * mu) * ((j0x * mu - j0z * mu) ^ 2 + (SS w jx - 2 * p + SS w jz)) := by
    have e : (1 + mu * mu) * β * (p - SS w jz) =
        (1 + mu * mu) * β * (p - Tz * Tx) + (-mu * a + b) * (Tx - Tz) := by
      rw [← hTz]; linear_combination (Tx - Tz) * hG
    rw [e, ← hTz, ← hTx]
    nlinarith
  calc Dm * (q1 (j0x * mu - mu * Tx) + q1 (mu * (j0x * mu) + Tx))
      ≤ Dm * (q1 (j0z * mu - mu * Tz) + q1 (mu * (j0z * mu) + Tz) + mu * (a + mu * b) * (j0x - j0z) +
          (1 + mu * mu) * β * (p - SS w jz) +
          1 / 2 * (1 + mu * mu) * ((j0x * mu - j0z * mu) ^ 2 + (SS w jx - 2 * p + SS w jz))) :=
        mul_le_mul_of_nonneg_left key hDm
    _ = _ := by ring

end block2


section block3
variable {n : ℕ} {D0 mu : ℝ} {D w : Fin n → ℝ}

theorem pp_self (w z : Fin n → ℝ) : pp w z z = SS w z := by
  unfold pp SS; exact Finset.sum_congr rfl fun i _ => by ring

theorem dist_sq_eq (w x z : Fin n → ℝ) :
    SS w x - 2 * pp w x z + SS w z = ∑ i, ((x i - z i) * w i) ^ 2 := by
  unfold SS pp
  rw [Finset.mul_sum, ← Finset.sum_sub_distrib, ← Finset.sum_add_distrib]
  exact Finset.sum_congr rfl fun i _ => by ring

/-- `−force_normal` is the derivative of the block cost in the normal residual, at every point -/
theorem blk_hasDerivAt_normal (hmu : 0 < mu) (hD0 : 0 ≤ D0)
    (hrel : ∀ i, D i * (mu * mu) = D0 * (w i * w i)) (j0 : ℝ) (jar : Fin n → ℝ) :
    HasDerivAt (fun t => blkCost D0 mu D w t jar) (-(blkForceN D0 mu w j0 jar)) j0 := by
  refine hasDerivAt_of_sandwich (L := 1 / 2 * ellDm D0 mu * (1 + mu * mu) * (mu * mu)) ?_ ?_
  · intro t
    have := blk_lower hmu hD0 hrel t jar j0 jar
    simpa using this
  · intro t
    have := blk_upper hmu hD0 hrel t jar j0 jar
    rw [pp_self] at this
    simp only [sub_self, mul_zero, Finset.sum_const_zero, add_zero] at this
    calc blkCost D0 mu D w t jar ≤ _ := this
      _ = _ := by ring

/-- `−force_i` is the derivative of the block cost in the i-th tangential residual, at every point -/
theorem blk_hasDerivAt_tangent (hmu : 0 < mu) (hD0 : 0 ≤ D0)
    (hrel : ∀ i, D i * (mu * mu) = D0 * (w i * w i)) (j0 : ℝ) (jar : Fin n → ℝ) (i : Fin n) :
    HasDerivAt (fun t => blkCost D0 mu D w j0 (Function.update jar i t))
      (-(blkForceT D0 mu D w j0 jar i)) (jar i) := by
  have hsum : ∀ t (f : Fin n → ℝ),
      ∑ k, f k * (Function.update jar i t k - jar k) = f i * (t - jar i) := by
    intro t f
    rw [Finset.sum_eq_single i]
    · simp
    · intro k _ hk; simp [Function.update_of_ne hk]
    · intro h; exact absurd (Finset.mem_univ i) h
  have hsq : ∀ t, ∑ k, ((Function.update jar i t k - jar k) * w k) ^ 2 = ((t - jar i) * w i) ^ 2 := by
    intro t
    rw [Finset.sum_eq_single i]
    · simp
    · intro k _ hk; simp [Function.update_of_ne hk]
    · intro h; exact absurd (Finset.mem_univ i) h
  have hself : Function.update jar i (jar i) = jar := Function.update_eq_self i jar
  refine hasDerivAt_of_sandwich (L := 1 / 2 * ellDm D0 mu * (1 + mu * mu) * (w i * w i)) ?_ ?_
  all_goals simp only [hself]
  · intro t
    have := blk_lower hmu hD0 hrel j0 (Function.update jar i t) j0 jar
    rw [hsum] at this
    simpa using this
  · intro t
    have := blk_upper hmu hD0 hrel j0 (Function.update jar i t) j0 jar
    rw [hsum, dist_sq_eq, hsq] at this
    simp only [sub_self, mul_zero, add_zero] at this ⊢
    calc blkCost D0 mu D w j0 (Function.update jar i t) ≤ _ := this
      _ = _ := by ring

/-- the block cost is convex in the whole residual vector `(jar0, jar)` -/
theorem blk_convex (hmu : 0 < mu) (hD0 : 0 ≤ D0)
    (hrel : ∀ i, D i * (mu * mu) = D0 * (w i * w i)) :
    ConvexOn ℝ Set.univ (fun v : ℝ × (Fin n → ℝ) => blkCost D0 mu D w v.1 v.2) := by
  refine ⟨convex_univ, fun x _ y _ a b ha hb hab => ?_⟩
  set z := a • x + b • y with hz
  have h1 := blk_lower hmu hD0 hrel x.1 x.2 z.1 z.2
  have h2 := blk_lower hmu hD0 hrel y.1 y.2 z.1 z.2
  have hb' : b = 1 - a := by linarith
  have e1 : a * (x.1 - z.1) + b * (y.1 - z.1) = 0 := by
    simp only [hz, Prod.fst_add, Prod.smul_fst, smul_eq_mul]; subst hb'; ring
  have e2 : ∀ i, a * (x.2 i - z.2 i) + b * (y.2 i - z.2 i) = 0 := by
    intro i
    simp only [hz, Prod.snd_add, Prod.smul_snd, Pi.add_apply, Pi.smul_apply, smul_eq_mul]; subst hb'; ring
  have e3 : a * ∑ i, (-(blkForceT D0 mu D w z.1 z.2 i)) * (x.2 i - z.2 i) +
      b * ∑ i, (-(blkForceT D0 mu D w z.1 z.2 i)) * (y.2 i - z.2 i) = 0 := by
    rw [Finset.mul_sum, Finset.mul_sum, ← Finset.sum_add_distrib]
    refine Finset.sum_eq_zero fun i _ => ?_
    have := e2 i
    calc _ = (-(blkForceT D0 mu D w z.1 z.2 i)) * (a * (x.2 i - z.2 i) + b * (y.2 i - z.2 i)) := by ring
      _ = 0 := by rw [this, mul_zero]
  simp only [smul_eq_mul]
  have h1' := mul_le_mul_of_nonneg_left h1 ha
  have h2' := mul_le_mul_of_nonneg_left h2 hb
  have e4 : (-(blkForceN D0 mu w z.1 z.2)) * (a * (x.1 - z.1) + b * (y.1 - z.1)) = 0 := by
    rw [e1, mul_zero]
  have e5 : a * blkCost D0 mu D w z.1 z.2 + b * blkCost D0 mu D w z.1 z.2 = blkCost D0 mu D w z.1 z.2 := by
    rw [← add_mul, hab, one_mul]
  linarith

end block3
section block4
variable {n : ℕ} {D0 mu : ℝ} {D w : Fin n → ℝ}

theorem blkForceN_nonneg (hmu : 0 < mu) (hD0 : 0 ≤ D0) (j0 : ℝ) (jar : Fin n → ℝ) :
    0 ≤ blkForceN D0 mu w j0 jar := by
  rw [blkForceN_eq hmu]
  have hDm := ellDm_nonneg hD0 mu
  have ha := q1'_nonpos (j0 * mu - mu * TT w jar)
  have hb := q1'_nonpos (mu * (j0 * mu) + TT w jar)
  have : ellDm D0 mu * mu * (q1' (j0 * mu - mu * TT w jar) + mu * q1' (mu * (j0 * mu) + TT w jar)) ≤ 0 := by
    apply mul_nonpos_of_nonneg_of_nonpos (mul_nonneg hDm hmu.le)
    nlinarith
  linarith

/-- friction-weighted tangential norm of the returned force -/
theorem blk_tangent_norm (hmu : 0 < mu) (hD0 : 0 ≤ D0) (hw : ∀ i, 0 < w i)
    (hrel : ∀ i, D i * (mu * mu) = D0 * (w i * w i)) (j0 : ℝ) (jar : Fin n → ℝ) :
    Real.sqrt (∑ i, (blkForceT D0 mu D w j0 jar i / w i) ^ 2) =
      ellDm D0 mu * (-mu * q1' (j0 * mu - mu * TT w jar) + q1' (mu * (j0 * mu) + TT w jar)) := by
  have hDm := ellDm_nonneg hD0 mu
  have hb0 := blkBeta_nonneg (w := w) hmu j0 jar
  have hG := blkBeta_mul_T (w := w) hmu j0 jar
  have hm : 0 < 1 + mu * mu := by positivity
  set c := ellDm D0 mu * (1 + mu * mu) * blkBeta mu w j0 jar with hc
  have hc0 : 0 ≤ c := mul_nonneg (mul_nonneg hDm hm.le) hb0
  have e : ∑ i, (blkForceT D0 mu D w j0 jar i / w i) ^ 2 = (c * TT w jar) ^ 2 := by
    rw [mul_pow, sq (TT w jar), TT_sq]
    unfold SS
    rw [Finset.mul_sum]
    refine Finset.sum_congr rfl fun i _ => ?_
    rw [blkForceT_eq hmu hrel]
    have := (hw i).ne'
    field_simp
    rw [hc]; ring
  rw [e, Real.sqrt_sq (mul_nonneg hc0 (TT_nonneg w jar)), hc]
  linear_combination (ellDm D0 mu) * hG

theorem blk_in_cone (hmu : 0 < mu) (hD0 : 0 ≤ D0) (hw : ∀ i, 0 < w i)
    (hrel : ∀ i, D i * (mu * mu) = D0 * (w i * w i)) (j0 : ℝ) (jar : Fin n → ℝ) :
    Real.sqrt (∑ i, (blkForceT D0 mu D w j0 jar i / w i) ^ 2) ≤ blkForceN D0 mu w j0 jar := by
  rw [blk_tangent_norm hmu hD0 hw hrel, blkForceN_eq hmu]
  have hDm := ellDm_nonneg hD0 mu
  have hb := q1'_nonpos (mu * (j0 * mu) + TT w jar)
  have : ellDm D0 mu * ((1 + mu * mu) * q1' (mu * (j0 * mu) + TT w jar)) ≤ 0 :=
    mul_nonpos_of_nonneg_of_nonpos hDm (mul_nonpos_of_nonneg_of_nonpos (by positivity) hb)
  nlinarith

/-- outside the bottom zone the force is on the cone surface -/
theorem blk_on_cone_surface (hmu : 0 < mu) (hD0 : 0 ≤ D0) (hw : ∀ i, 0 < w i)
    (hrel : ∀ i, D i * (mu * mu) = D0 * (w i * w i)) (j0 : ℝ) (jar : Fin n → ℝ)
    (hz : blkZone mu w j0 jar ≠ Zone.bottom) :
    Real.sqrt (∑ i, (blkForceT D0 mu D w j0 jar i / w i) ^ 2) = blkForceN D0 mu w j0 jar := by
  rw [blk_tangent_norm hmu hD0 hw hrel, blkForceN_eq hmu]
  rcases blkZone_cases (w := w) hmu j0 jar with ⟨h, h1, h2⟩ | ⟨h, h1, h2⟩ | ⟨h, h1, h2⟩
  · rw [q1'_of_nonneg h2]; ring
  · exact absurd h hz
  · rw [q1'_of_nonneg h2.le]; ring

end block4
section block5
variable {n : ℕ} {D0 mu : ℝ} {D w : Fin n → ℝ}

/-- the part of `Σ U²` that does not involve coordinate `j` -/
def SSrest (w jar : Fin n → ℝ) (j : Fin n) : ℝ := ∑ k ∈ Finset.univ.erase j, (jar k * w k) ^ 2

theorem SS_update (w jar : Fin n → ℝ) (j : Fin n) (t : ℝ) :
    SS w (Function.update jar j t) = (t * w j) ^ 2 + SSrest w jar j := by
  unfold SS SSrest
  rw [← Finset.add_sum_erase _ _ (Finset.mem_univ j)]
  congr 1
  · simp
  · refine Finset.sum_congr rfl fun k hk => ?_
    rw [Function.update_of_ne (Finset.ne_of_mem_erase hk)]

theorem SS_split (w jar : Fin n → ℝ) (j : Fin n) :
    SS w jar = (jar j * w j) ^ 2 + SSrest w jar j := by
  have := SS_update w jar j (jar j)
  rwa [Function.update_eq_self] at this

theorem TT_update_hasDerivAt (w jar : Fin n → ℝ) (j : Fin n) (hT : TT w jar ≠ 0) :
    HasDerivAt (fun t => TT w (Function.update jar j t)) ((jar j * w j) * w j / TT w jar) (jar j) := by
  have h1 : HasDerivAt (fun t : ℝ => (t * w j) ^ 2 + SSrest w jar j) (2 * (jar j * w j) * w j) (jar j) := by
    have := ((hasDerivAt_id (jar j)).mul_const (w j)).pow 2
    simpa [mul_comm, mul_left_comm, mul_assoc] using this.add_const (SSrest w jar j)
  have h0 : (fun t => TT w (Function.update jar j t)) = fun t => Real.sqrt ((t * w j) ^ 2 + SSrest w jar j) := by
    funext t; unfold TT; rw [SS_update]
  rw [h0]
  have hne : (jar j * w j) ^ 2 + SSrest w jar j ≠ 0 := by
    rw [← SS_split]
    intro h; apply hT; unfold TT; rw [h, Real.sqrt_zero]
  have h2 := h1.sqrt hne
  convert h2 using 1
  rw [← SS_split]
  unfold TT
  field_simp

theorem TT_update_continuous (w jar : Fin n → ℝ) (j : Fin n) :
    Continuous (fun t => TT w (Function.update jar j t)) := by
  have h0 : (fun t => TT w (Function.update jar j t)) = fun t => Real.sqrt ((t * w j) ^ 2 + SSrest w jar j) := by
    funext t; unfold TT; rw [SS_update]
  rw [h0]
  exact Real.continuous_sqrt.comp (by continuity)


theorem hessScl1_real (mu T : ℝ) : hessScl1 mu T = -mu / T := by
  unfold hessScl1; simp only [r_div, r_neg]
theorem hessScl2_real (mu N T : ℝ) : hessScl2 mu N T = mu * N / (T * T * T) := by
  unfold hessScl2; simp only [r_div, r_mul]
theorem hessScl3_real (mu N T : ℝ) : hessScl3 mu N T = mu * mu - mu * N / T := by
  unfold hessScl3; simp only [r_div, r_mul, r_sub]

theorem hessEntry_nn (Dm mu s1 s2 s3 : ℝ) :
    hessEntry Dm mu s1 s2 s3 none none = 1 * (Dm * mu * mu) := by
  unfold hessEntry; simp only [r_mul, one_real]
theorem hessEntry_nt (Dm mu s1 s2 s3 : ℝ) (j : ℕ) (u w : ℝ) :
    hessEntry Dm mu s1 s2 s3 none (some (j, u, w)) = s1 * u * (Dm * mu * w) := by
  unfold hessEntry; simp only [r_mul]
theorem hessEntry_tn (Dm mu s1 s2 s3 : ℝ) (j : ℕ) (u w : ℝ) :
    hessEntry Dm mu s1 s2 s3 (some (j, u, w)) none = s1 * u * (Dm * mu * w) := by
  unfold hessEntry; simp only [r_mul]
theorem hessEntry_tt (Dm mu s1 s2 s3 : ℝ) (k j : ℕ) (uk wk uj wj : ℝ) :
    hessEntry Dm mu s1 s2 s3 (some (k, uk, wk)) (some (j, uj, wj)) =
      if k < j then s2 * uj * uk * (Dm * wk * wj)
      else if j < k then s2 * uk * uj * (Dm * wj * wk)
      else (s2 * uj * uk + s3) * (Dm * wk * wj) := by
  unfold hessEntry; simp only [r_mul, r_add]

theorem middle_pos (hmu : 0 < mu) {j0 : ℝ} {jar : Fin n → ℝ}
    (hz : blkZone mu w j0 jar = Zone.middle) :
    j0 * mu - mu * TT w jar < 0 ∧ 0 < mu * (j0 * mu) + TT w jar ∧ 0 < TT w jar := by
  have hT := TT_nonneg w jar
  rcases blkZone_cases (w := w) hmu j0 jar with ⟨h, h1, h2⟩ | ⟨h, h1, h2⟩ | ⟨h, h1, h2⟩
  · rw [hz] at h; exact absurd h (by decide)
  · rw [hz] at h; exact absurd h (by decide)
  · refine ⟨h1, h2, ?_⟩
    rcases hT.eq_or_lt with h0 | h0
    · exfalso; rw [← h0] at h1 h2; nlinarith
    · exact h0

theorem middle_of_lt (hmu : 0 < mu) {j0 : ℝ} {jar : Fin n → ℝ}
    (h1 : j0 * mu - mu * TT w jar < 0) (h2 : 0 < mu * (j0 * mu) + TT w jar) :
    blkZone mu w j0 jar = Zone.middle := by
  rw [blkZone_eq hmu, if_neg (not_le.mpr h1), if_neg (not_le.mpr h2)]

/-- the middle zone is open along tangential coordinate lines -/
theorem middle_eventually_tangent (hmu : 0 < mu) {j0 : ℝ} {jar : Fin n → ℝ}
    (hz : blkZone mu w j0 jar = Zone.middle) (j : Fin n) :
    ∀ᶠ t in 𝓝 (jar j), blkZone mu w j0 (Function.update jar j t) = Zone.middle := by
  obtain ⟨h1, h2, _⟩ := middle_pos hmu hz
  have hc := TT_update_continuous w jar j
  have c1 : ContinuousAt (fun t => j0 * mu - mu * TT w (Function.update jar j t)) (jar j) :=
    (continuous_const.sub (continuous_const.mul hc)).continuousAt
  have c2 : ContinuousAt (fun t => mu * (j0 * mu) + TT w (Function.update jar j t)) (jar j) :=
    (continuous_const.add hc).continuousAt
  have e1 := c1.eventually_lt (g := fun _ => (0 : ℝ)) continuousAt_const
    (by show j0 * mu - mu * TT w (Function.update jar j (jar j)) < 0
        rw [Function.update_eq_self]; exact h1)
  have e2 := (continuousAt_const (y := (0 : ℝ))).eventually_lt c2
    (by show 0 < mu * (j0 * mu) + TT w (Function.update jar j (jar j))
        rw [Function.update_eq_self]; exact h2)
  filter_upwards [e1, e2] with t ht1 ht2
  exact middle_of_lt hmu ht1 ht2

/-- the middle zone is open along the normal coordinate line -/
theorem middle_eventually_normal (hmu : 0 < mu) {j0 : ℝ} {jar : Fin n → ℝ}
    (hz : blkZone mu w j0 jar = Zone.middle) :
    ∀ᶠ t in 𝓝 j0, blkZone mu w t jar = Zone.middle := by
  obtain ⟨h1, h2, _⟩ := middle_pos hmu hz
  have c1 : ContinuousAt (fun t : ℝ => t * mu - mu * TT w jar) j0 := by fun_prop
  have c2 : ContinuousAt (fun t : ℝ => mu * (t * mu) + TT w jar) j0 := by fun_prop
  have e1 := c1.eventually_lt (g := fun _ => (0 : ℝ)) continuousAt_const h1
  have e2 := (continuousAt_const (y := (0 : ℝ))).eventually_lt c2 h2
  filter_upwards [e1, e2] with t ht1 ht2
  exact middle_of_lt hmu ht1 ht2

theorem blkForceN_middle {j0 : ℝ} {jar : Fin n → ℝ} (hz : blkZone mu w j0 jar = Zone.middle) :
    blkForceN D0 mu w j0 jar = -ellDm D0 mu * (j0 * mu - mu * TT w jar) * mu := by
  unfold blkForceN; rw [hz]

theorem blkForceT_middle {j0 : ℝ} {jar : Fin n → ℝ} (hz : blkZone mu w j0 jar = Zone.middle)
    (k : Fin n) :
    blkForceT D0 mu D w j0 jar k =
      -(-ellDm D0 mu * (j0 * mu - mu * TT w jar) * mu) / TT w jar * (jar k * w k) * w k := by
  unfold blkForceT; rw [hz]; simp only []; rw [blkForceN_middle hz]


/-- index object of the normal row / of the k-th tangential row, as `coneHess` builds them -/
def hIdxT (w jar : Fin n → ℝ) (k : Fin n) : HIdx ℝ := some (k.val, jar k * w k, w k)

/-- the Hessian entry the code writes, at the block residual `(j0, jar)` -/
noncomputable def blkHess (D0 mu : ℝ) (w : Fin n → ℝ) (j0 : ℝ) (jar : Fin n → ℝ) (a b : HIdx ℝ) : ℝ :=
  hessEntry (ellDm D0 mu) mu (hessScl1 mu (TT w jar)) (hessScl2 mu (j0 * mu) (TT w jar))
    (hessScl3 mu (j0 * mu) (TT w jar)) a b

theorem hess_nn (hmu : 0 < mu) {j0 : ℝ} {jar : Fin n → ℝ}
    (hz : blkZone mu w j0 jar = Zone.middle) :
    HasDerivAt (fun t => -(blkForceN D0 mu w t jar)) (blkHess D0 mu w j0 jar none none) j0 := by
  have hev : (fun t => -(blkForceN D0 mu w t jar)) =ᶠ[𝓝 j0]
      fun t => -(-ellDm D0 mu * (t * mu - mu * TT w jar) * mu) := by
    filter_upwards [middle_eventually_normal hmu hz] with t ht
    rw [blkForceN_middle ht]
  have h := ((((hasDerivAt_id' j0).mul_const mu).sub_const (mu * TT w jar)).const_mul
    (-ellDm D0 mu)).mul_const mu
  refine (h.fun_neg.congr_deriv ?_).congr_of_eventuallyEq hev
  unfold blkHess; rw [hessEntry_nn]; ring

theorem hess_tn (hmu : 0 < mu) {j0 : ℝ} {jar : Fin n → ℝ}
    (hz : blkZone mu w j0 jar = Zone.middle) (k : Fin n) :
    HasDerivAt (fun t => -(blkForceT D0 mu D w t jar k))
      (blkHess D0 mu w j0 jar (hIdxT w jar k) none) j0 := by
  obtain ⟨_, _, hT⟩ := middle_pos hmu hz
  have hev : (fun t => -(blkForceT D0 mu D w t jar k)) =ᶠ[𝓝 j0]
      fun t => -(-(-ellDm D0 mu * (t * mu - mu * TT w jar) * mu) / TT w jar * (jar k * w k) * w k) := by
    filter_upwards [middle_eventually_normal hmu hz] with t ht
    rw [blkForceT_middle ht]
  have h := ((((((hasDerivAt_id' j0).mul_const mu).sub_const (mu * TT w jar)).const_mul
    (-ellDm D0 mu)).mul_const mu).fun_neg.div_const (TT w jar)).mul_const (jar k * w k) |>.mul_const (w k)
  refine (h.fun_neg.congr_deriv ?_).congr_of_eventuallyEq hev
  unfold blkHess hIdxT; rw [hessEntry_tn, hessScl1_real]
  have := hT.ne'
  field_simp

theorem hess_nt (hmu : 0 < mu) {j0 : ℝ} {jar : Fin n → ℝ}
    (hz : blkZone mu w j0 jar = Zone.middle) (j : Fin n) :
    HasDerivAt (fun t => -(blkForceN D0 mu w j0 (Function.update jar j t)))
      (blkHess D0 mu w j0 jar none (hIdxT w jar j)) (jar j) := by
  obtain ⟨_, _, hT⟩ := middle_pos hmu hz
  have hev : (fun t => -(blkForceN D0 mu w j0 (Function.update jar j t))) =ᶠ[𝓝 (jar j)]
      fun t => -(-ellDm D0 mu * (j0 * mu - mu * TT w (Function.update jar j t)) * mu) := by
    filter_upwards [middle_eventually_tangent hmu hz j] with t ht
    rw [blkForceN_middle ht]
  have hd := TT_update_hasDerivAt w jar j hT.ne'
  have h := (((hd.const_mul mu).const_sub (j0 * mu)).const_mul (-ellDm D0 mu)).mul_const mu
  refine (h.fun_neg.congr_deriv ?_).congr_of_eventuallyEq hev
  unfold blkHess hIdxT; rw [hessEntry_nt, hessScl1_real]
  have := hT.ne'
  field_simp

theorem hess_tt (hmu : 0 < mu) {j0 : ℝ} {jar : Fin n → ℝ}
    (hz : blkZone mu w j0 jar = Zone.middle) (k j : Fin n) :
    HasDerivAt (fun t => -(blkForceT D0 mu D w j0 (Function.update jar j t) k))
      (blkHess D0 mu w j0 jar (hIdxT w jar k) (hIdxT w jar j)) (jar j) := by
  obtain ⟨_, _, hT⟩ := middle_pos hmu hz
  have hne := hT.ne'
  have hev : (fun t => -(blkForceT D0 mu D w j0 (Function.update jar j t) k)) =ᶠ[𝓝 (jar j)]
      fun t => -(-(-ellDm D0 mu * (j0 * mu - mu * TT w (Function.update jar j t)) * mu) /
        TT w (Function.update jar j t) * (Function.update jar j t k * w k) * w k) := by
    filter_upwards [middle_eventually_tangent hmu hz j] with t ht
    rw [blkForceT_middle ht]
  have hd := TT_update_hasDerivAt w jar j hne
  have hself : Function.update jar j (jar j) = jar := Function.update_eq_self j jar
  have hnum := ((((hd.const_mul mu).const_sub (j0 * mu)).const_mul (-ellDm D0 mu)).mul_const mu).fun_neg
  have hTat : TT w (Function.update jar j (jar j)) ≠ 0 := by rw [hself]; exact hne
  have hq := hnum.fun_div hd hTat
  unfold blkHess hIdxT
  rw [hessEntry_tt, hessScl2_real, hessScl3_real]
  by_cases hkj : k = j
  · subst hkj
    have hu : HasDerivAt (fun t => Function.update jar k t k * w k) (1 * w k) (jar k) := by
      have := (hasDerivAt_id' (jar k)).mul_const (w k)
      refine this.congr_of_eventuallyEq (Eventually.of_forall fun t => ?_)
      simp
    have h := ((hq.fun_mul hu).mul_const (w k)).fun_neg
    refine (h.congr_deriv ?_).congr_of_eventuallyEq hev
    simp only [lt_irrefl, if_false, hself, Function.update_self]
    field_simp
    ring
  · have hu : HasDerivAt (fun t => Function.update jar j t k * w k) 0 (jar j) := by
      have : (fun t => Function.update jar j t k * w k) = fun _ => jar k * w k := by
        funext t; rw [Function.update_of_ne hkj]
      rw [this]; exact hasDerivAt_const _ _
    have h := ((hq.fun_mul hu).mul_const (w k)).fun_neg
    refine (h.congr_deriv ?_).congr_of_eventuallyEq hev
    simp only [hself, Function.update_of_ne hkj]
    have hv : k.val ≠ j.val := fun h => hkj (Fin.ext h)
    rcases lt_or_gt_of_ne hv with hlt | hgt
    · rw [if_pos hlt]; field_simp; ring
    · rw [if_neg (not_lt.mpr hgt.le), if_pos hgt]; field_simp; ring

end block5


/-! ### scalar rows: closed forms, derivative, convexity, C¹ -/
theorem huber1'_eq_clamp {b : ℝ} (hb : 0 ≤ b) (x : ℝ) : huber1' b x = max (-b) (min b x) := by
  unfold huber1'
  split_ifs with h1 h2
  · rw [min_eq_right (by linarith), max_eq_left h1]
  · rw [min_eq_left h2, max_eq_right (by linarith)]
  · push Not at h1 h2
    rw [min_eq_right h2.le, max_eq_right h1.le]

theorem huber1'_abs_le {b : ℝ} (hb : 0 ≤ b) (x : ℝ) : |huber1' b x| ≤ b := by
  unfold huber1'
  split_ifs with h1 h2
  · rw [abs_neg, abs_of_nonneg hb]
  · rw [abs_of_nonneg hb]
  · push Not at h1 h2
    rw [abs_le]; constructor <;> linarith

theorem fricRow_cost_eq {D R fl : ℝ} (hDR : D * R = 1) (x : ℝ) :
    (fricRow D R fl x).cost = D * huber1 (R * fl) x := by
  have e1 : D * (R * fl) = fl := by rw [← mul_assoc, hDR, one_mul]
  rw [fricRow_cost]; unfold huber1
  simp only [neg_mul]
  by_cases h1 : x ≤ -(R * fl)
  · rw [if_pos h1, if_pos h1]; linear_combination (1 / 2 * R * fl + x) * e1
  · rw [if_neg h1, if_neg h1]
    by_cases h2 : R * fl ≤ x
    · rw [if_pos h2, if_pos h2]; linear_combination (1 / 2 * R * fl - x) * e1
    · rw [if_neg h2, if_neg h2]; ring

theorem fricRow_force_eq {D R fl : ℝ} (hDR : D * R = 1) (x : ℝ) :
    (fricRow D R fl x).force = -(D * huber1' (R * fl) x) := by
  have e1 : D * (R * fl) = fl := by rw [← mul_assoc, hDR, one_mul]
  rw [fricRow_force]; unfold huber1'
  simp only [neg_mul]
  by_cases h1 : x ≤ -(R * fl)
  · rw [if_pos h1, if_pos h1]; linear_combination (-1 : ℝ) * e1
  · rw [if_neg h1, if_neg h1]
    by_cases h2 : R * fl ≤ x
    · rw [if_pos h2, if_pos h2]; linear_combination e1
    · rw [if_neg h2, if_neg h2]

theorem nonnegRow_cost_eq (D x : ℝ) : (nonnegRow D x).cost = D * q1 x := by
  rw [nonnegRow_cost]; unfold q1; split_ifs <;> ring
theorem nonnegRow_force_eq (D x : ℝ) : (nonnegRow D x).force = -(D * q1' x) := by
  rw [nonnegRow_force]; unfold q1'; split_ifs <;> ring

/-- a scaled function inherits the sandwich -/
theorem hasDerivAt_scaled {c1 g1 : ℝ → ℝ} {D : ℝ} (hD : 0 ≤ D)
    (hlo : ∀ x z, c1 z + g1 z * (x - z) ≤ c1 x)
    (hup : ∀ x z, c1 x ≤ c1 z + g1 z * (x - z) + 1 / 2 * (x - z) ^ 2) (x0 : ℝ) :
    HasDerivAt (fun x => D * c1 x) (D * g1 x0) x0 := by
  refine hasDerivAt_of_sandwich (L := D / 2) (fun x => ?_) (fun x => ?_)
  · have := mul_le_mul_of_nonneg_left (hlo x x0) hD; nlinarith
  · have := mul_le_mul_of_nonneg_left (hup x x0) hD; nlinarith

theorem convexOn_scaled {c1 g1 : ℝ → ℝ} {D : ℝ} (hD : 0 ≤ D)
    (hlo : ∀ x z, c1 z + g1 z * (x - z) ≤ c1 x) : ConvexOn ℝ Set.univ (fun x => D * c1 x) := by
  refine convexOn_of_subgradient (g := fun x => D * g1 x) (fun x y => ?_)
  have := mul_le_mul_of_nonneg_left (hlo x y) hD; nlinarith

theorem R_pos_of {D R : ℝ} (hD : 0 ≤ D) (hDR : D * R = 1) : 0 < R := by
  by_contra h
  have : R ≤ 0 := not_lt.mp h
  nlinarith


/-! ### mju_mulMatTVec is the dense transpose product -/
theorem addToScl_real (res row : List ℝ) (v : ℝ) :
    addToScl res row v = List.zipWith (fun x m => x + m * v) res row := by
  unfold addToScl; simp only [r_mul, r_add]

/-- one step of the row loop of `mju_mulMatTVec` -/
noncomputable def jtvStep (res : List ℝ) (p : List ℝ × ℝ) : List ℝ :=
  if MjNum.beq p.2 (zero : ℝ) then res else addToScl res p.1 p.2

theorem jtvStep_getElem? (res : List ℝ) (p : List ℝ × ℝ) (c : ℕ) (x : ℝ)
    (hx : res[c]? = some x) (hp : c < p.1.length) :
    (jtvStep res p)[c]? = some (x + p.1.getD c 0 * p.2) := by
  unfold jtvStep
  by_cases h0 : p.2 = 0
  · have : MjNum.beq p.2 (zero : ℝ) = true := by simp [zero_real, h0]
    rw [if_pos this, hx, h0, mul_zero, add_zero]
  · have : MjNum.beq p.2 (zero : ℝ) = false := by simp [zero_real, h0]
    rw [if_neg (by simp [this]), addToScl_real, List.getElem?_zipWith, hx]
    have : p.1[c]? = some (p.1.getD c 0) := by
      rw [List.getD_eq_getElem?_getD, List.getElem?_eq_getElem hp]; simp
    rw [this]

theorem jtv_fold_getElem? (l : List (List ℝ × ℝ)) (res : List ℝ) (c : ℕ) (x : ℝ)
    (hx : res[c]? = some x) (hl : ∀ p ∈ l, c < p.1.length) :
    (l.foldl jtvStep res)[c]? = some (x + (l.map (fun p => p.1.getD c 0 * p.2)).sum) := by
  induction l generalizing res x with
  | nil => simp [hx]
  | cons p l ih =>
    rw [List.foldl_cons, ih (jtvStep res p) (x + p.1.getD c 0 * p.2)
      (jtvStep_getElem? res p c x hx (hl p (List.mem_cons_self)))
      (fun q hq => hl q (List.mem_cons_of_mem _ hq))]
    simp only [List.map_cons, List.sum_cons]
    congr 1; ring

/-- `mju_mulMatTVec(res, mat, vec, nr, nc)`: entry `c` of the result is `Σ_r mat[r][c]·vec[r]` -/
theorem mulMatTVec_getElem? (nc : ℕ) (mat : List (List ℝ)) (vec : List ℝ) (c : ℕ) (hc : c < nc)
    (hrows : ∀ row ∈ mat, row.length = nc) :
    (mulMatTVec nc mat vec)[c]? =
      some ((List.zipWith (fun (row : List ℝ) v => row.getD c 0 * v) mat vec).sum) := by
  unfold mulMatTVec
  have h0 : (List.replicate nc (zero : ℝ))[c]? = some 0 := by
    rw [List.getElem?_replicate, if_pos hc, zero_real]
  have := jtv_fold_getElem? (mat.zip vec) (List.replicate nc zero) c 0 h0
    (fun p hp => by
      have := (List.of_mem_zip hp).1
      rw [hrows p.1 this]; exact hc)
  rw [zero_add] at this
  have e : (List.map (fun p : List ℝ × ℝ => p.1.getD c 0 * p.2) (mat.zip vec)) =
      List.zipWith (fun (row : List ℝ) v => row.getD c 0 * v) mat vec := by
    rw [List.zip, List.map_zipWith]
  rw [← e]
  exact this


/-! ### mju_decodePyramid -/
theorem foldl_add_real (l : List ℝ) (s : ℝ) :
    l.foldl (fun a x => @HAdd.hAdd ℝ ℝ ℝ (@instHAdd ℝ (MjNum.toAdd)) a x) s = s + l.sum := by
  induction l generalizing s with
  | nil => simp
  | cons t ts ih => simp only [List.foldl_cons, List.sum_cons, ih, r_add]; ring

/-- tangential part of the decoded force -/
noncomputable def decodeTangent (p mu : List ℝ) : List ℝ :=
  List.zipWith (fun (e : ℝ × ℝ) m => (e.1 - e.2) * m) (pairs p) mu

theorem decodePyramid_real (pyr mu : List ℝ) (dim : ℕ) (h2 : 2 ≤ dim)
    (hp : 2 * (dim - 1) ≤ pyr.length) (hm : dim - 1 ≤ mu.length) :
    decodePyramid pyr mu dim =
      some ((pyr.take (2 * (dim - 1))).sum ::
        decodeTangent (pyr.take (2 * (dim - 1))) (mu.take (dim - 1))) := by
  unfold decodePyramid decodeTangent
  rw [if_neg (by omega), if_neg (by omega), if_neg (by omega)]
  simp only [foldl_add_real, zero_real, zero_add, r_sub, r_mul]

theorem pairs_sum_le (p : List ℝ) (hp : ∀ e ∈ p, 0 ≤ e) :
    ((pairs p).map (fun e => e.1 + e.2)).sum ≤ p.sum := by
  fun_induction pairs p with
  | case1 a b rest ih =>
    simp only [List.map_cons, List.sum_cons]
    have := ih (fun e he => hp e (by simp [he]))
    linarith
  | case2 l hl =>
    simp only [List.map_nil, List.sum_nil]
    exact List.sum_nonneg hp

/-- friction pyramid: `Σ |f_i| / mu_i ≤` sum of the edge forces -/
theorem decodeTangent_in_pyramid (p mu : List ℝ) (hp : ∀ e ∈ p, 0 ≤ e) (hmu : ∀ m ∈ mu, 0 < m) :
    (List.zipWith (fun f m => |f| / m) (decodeTangent p mu) mu).sum ≤ p.sum := by
  refine le_trans ?_ (pairs_sum_le p hp)
  unfold decodeTangent
  have hpp : ∀ e ∈ pairs p, 0 ≤ e.1 ∧ 0 ≤ e.2 := by
    fun_induction pairs p with
    | case1 a b rest ih =>
      intro e he
      rcases List.mem_cons.mp he with rfl | he
      · exact ⟨hp _ (by simp), hp _ (by simp)⟩
      · exact ih (fun e he => hp e (by simp [he])) e he
    | case2 l hl => intro e he; simp at he
  generalize pairs p = q at hpp
  induction q generalizing mu with
  | nil => simp
  | cons e q ih =>
    cases mu with
    | nil => simp only [List.zipWith_nil_right, List.sum_nil, List.map_cons, List.sum_cons]
             have h1 := hpp e (by simp)
             have : 0 ≤ (q.map (fun e => e.1 + e.2)).sum :=
               List.sum_nonneg (by
                 intro x hx
                 obtain ⟨y, hy, rfl⟩ := List.mem_map.mp hx
                 have := hpp y (by simp [hy]); linarith)
             linarith
    | cons m mu =>
      simp only [List.zipWith_cons_cons, List.sum_cons, List.map_cons]
      have hm := hmu m (by simp)
      have h1 := hpp e (by simp)
      have := ih mu (fun m hm => hmu m (by simp [hm])) (fun e he => hpp e (by simp [he]))
      have e1 : |(e.1 - e.2) * m| / m = |e.1 - e.2| := by
        rw [abs_mul, abs_of_pos hm, mul_div_assoc, div_self hm.ne', mul_one]
      have e2 : |e.1 - e.2| ≤ e.1 + e.2 := by
        rw [abs_le]; constructor <;> linarith
      rw [e1]; linarith

/-! ### PGS cone projection -/
/-- `Σ f_j² / mu_j²` -/
noncomputable def ellS (ft mu : List ℝ) : ℝ := (List.zipWith (fun f m => f * f / (m * m)) ft mu).sum

theorem ellS_nonneg (ft mu : List ℝ) : 0 ≤ ellS ft mu := by
  unfold ellS
  apply List.sum_nonneg
  intro x hx
  obtain ⟨i, hi, rfl⟩ := List.mem_iff_getElem.mp hx
  simp only [List.getElem_zipWith]
  exact div_nonneg (mul_self_nonneg _) (mul_self_nonneg _)

theorem ellS_scale (ft mu : List ℝ) (c : ℝ) :
    ellS (ft.map (fun f => f * c)) mu = c * c * ellS ft mu := by
  unfold ellS
  induction ft generalizing mu with
  | nil => simp
  | cons f ft ih =>
    cases mu with
    | nil => simp
    | cons m mu =>
      simp only [List.map_cons, List.zipWith_cons_cons, List.sum_cons, ih mu]
      ring

theorem ellS_zeros (ft mu : List ℝ) : ellS (ft.map (fun _ => (0 : ℝ))) mu = 0 := by
  have := ellS_scale ft mu 0
  simpa using this

theorem projectEllipsoid_real (ft : List ℝ) (normal : ℝ) (mu : List ℝ) :
    projectEllipsoid ft normal mu true =
      if normal * normal < ellS ft mu then
        ft.map (fun f => f * Real.sqrt (normal * normal / mjuMax minval (ellS ft mu)))
      else ft := by
  unfold projectEllipsoid ellS
  simp only [foldl_add_real, zero_real, zero_add, r_mul, r_div, r_lt, real_sqrt, Bool.not_true,
    Bool.false_or, decide_eq_true_eq]

theorem mjuMax_real (a b : ℝ) : mjuMax a b = if b ≤ a then a else b := by
  unfold mjuMax; simp only [r_le]

theorem projectEllipsoid_in (ft : List ℝ) (normal : ℝ) (mu : List ℝ) :
    ellS (projectEllipsoid ft normal mu true) mu ≤ normal * normal := by
  rw [projectEllipsoid_real]
  split_ifs with h
  · rw [ellS_scale, Real.mul_self_sqrt]
    · have hs := ellS_nonneg ft mu
      have hn : 0 ≤ normal * normal := mul_self_nonneg _
      have hpos : 0 < ellS ft mu := lt_of_le_of_lt hn h
      have hmx : ellS ft mu ≤ mjuMax minval (ellS ft mu) := by
        rw [mjuMax_real]; split_ifs with h1
        · exact h1
        · exact le_rfl
      have hmpos : 0 < mjuMax minval (ellS ft mu) := lt_of_lt_of_le hpos hmx
      rw [div_mul_eq_mul_div, div_le_iff₀ hmpos]
      exact mul_le_mul_of_nonneg_left hmx hn
    · apply div_nonneg (mul_self_nonneg _)
      rw [mjuMax_real]; split_ifs with h1
      · rw [minval_real]; positivity
      · exact ellS_nonneg ft mu
  · exact not_lt.mp h

/-- output of the elliptic `projectCone`: non-negative normal force that bounds the friction-weighted
    tangential norm -/
theorem projectCone_elliptic_in (f0 : ℝ) (ft mu : List ℝ) :
    ∃ g0 gt, projectCone (f0 :: ft) mu true = g0 :: gt ∧ 0 ≤ g0 ∧ ellS gt mu ≤ g0 * g0 ∧
      gt.length = ft.length := by
  unfold projectCone
  simp only [if_true, r_lt, zero_real]
  split_ifs with h
  · exact ⟨0, ft.map (fun _ => 0), rfl, le_rfl, by rw [ellS_zeros]; simp, by simp⟩
  · refine ⟨f0, projectEllipsoid ft f0 mu true, rfl, not_lt.mp h, projectEllipsoid_in ft f0 mu, ?_⟩
    rw [projectEllipsoid_real]; split_ifs <;> simp

theorem projectCone_scalar (f0 : ℝ) (ft mu : List ℝ) :
    projectCone (f0 :: ft) mu false = (if f0 < 0 then 0 else f0) :: ft := by
  unfold projectCone
  simp only [r_lt, zero_real]
  rfl

section zonesZ
variable {n : ℕ} (D0 mu : ℝ) (D w : Fin n → ℝ)

/-- the three cost formulas of the code, irrespective of the zone test -/
noncomputable def costZ (z : Zone) (j0 : ℝ) (jar : Fin n → ℝ) : ℝ :=
  match z with
  | Zone.top => 0
  | Zone.bottom => 1 / 2 * D0 * j0 * j0 + ∑ i, 1 / 2 * D i * jar i * jar i
  | Zone.middle => 1 / 2 * ellDm D0 mu * (j0 * mu - mu * TT w jar) * (j0 * mu - mu * TT w jar)

noncomputable def forceNZ (z : Zone) (j0 : ℝ) (jar : Fin n → ℝ) : ℝ :=
  match z with
  | Zone.top => 0
  | Zone.bottom => -D0 * j0
  | Zone.middle => -ellDm D0 mu * (j0 * mu - mu * TT w jar) * mu

noncomputable def forceTZ (z : Zone) (j0 : ℝ) (jar : Fin n → ℝ) (i : Fin n) : ℝ :=
  match z with
  | Zone.top => 0
  | Zone.bottom => -D i * jar i
  | Zone.middle => -(forceNZ D0 mu w Zone.middle j0 jar) / TT w jar * (jar i * w i) * w i

theorem blkCost_eq_costZ (j0 : ℝ) (jar : Fin n → ℝ) :
    blkCost D0 mu D w j0 jar = costZ D0 mu D w (blkZone mu w j0 jar) j0 jar := by
  unfold blkCost costZ; cases blkZone mu w j0 jar <;> rfl
theorem blkForceN_eq_forceNZ (j0 : ℝ) (jar : Fin n → ℝ) :
    blkForceN D0 mu w j0 jar = forceNZ D0 mu w (blkZone mu w j0 jar) j0 jar := by
  unfold blkForceN forceNZ; cases blkZone mu w j0 jar <;> rfl
theorem blkForceT_eq_forceTZ (j0 : ℝ) (jar : Fin n → ℝ) (i : Fin n) :
    blkForceT D0 mu D w j0 jar i = forceTZ D0 mu D w (blkZone mu w j0 jar) j0 jar i := by
  unfold blkForceT forceTZ blkForceN forceNZ
  cases h : blkZone mu w j0 jar <;> simp

variable {D0 mu D w}

/-- on the top/middle boundary `N = mu T` the middle-zone formulas give zero cost and zero force -/
theorem zones_agree_top (j0 : ℝ) (jar : Fin n → ℝ) (hb : j0 * mu = mu * TT w jar) :
    costZ D0 mu D w Zone.middle j0 jar = costZ D0 mu D w Zone.top j0 jar ∧
    forceNZ D0 mu w Zone.middle j0 jar = forceNZ D0 mu w Zone.top j0 jar ∧
    ∀ i, forceTZ D0 mu D w Zone.middle j0 jar i = forceTZ D0 mu D w Zone.top j0 jar i := by
  unfold costZ forceTZ forceNZ
  simp only [hb, sub_self, mul_zero, zero_mul, neg_zero, zero_div, and_self, implies_true]

/-- on the middle/bottom boundary `mu N + T = 0` the middle-zone and bottom-zone formulas agree
    (under the impedance relation) -/
theorem zones_agree_bottom (hmu : 0 < mu) (hrel : ∀ i, D i * (mu * mu) = D0 * (w i * w i))
    (j0 : ℝ) (jar : Fin n → ℝ) (hb : mu * (j0 * mu) + TT w jar = 0) :
    costZ D0 mu D w Zone.middle j0 jar = costZ D0 mu D w Zone.bottom j0 jar ∧
    forceNZ D0 mu w Zone.middle j0 jar = forceNZ D0 mu w Zone.bottom j0 jar ∧
    (0 < TT w jar →
      ∀ i, forceTZ D0 mu D w Zone.middle j0 jar i = forceTZ D0 mu D w Zone.bottom j0 jar i) := by
  have hne : mu ≠ 0 := hmu.ne'
  have hne2 : (1 + mu * mu) ≠ 0 := by positivity
  have hT : TT w jar = -(mu * (j0 * mu)) := by linarith
  have hs := rel_sum hrel jar
  have hTT := TT_sq w jar
  refine ⟨?_, ?_, ?_⟩
  · unfold costZ
    have e : (∑ i, 1 / 2 * D i * jar i * jar i) = 1 / 2 * D0 * SS w jar / (mu * mu) := by
      rw [eq_div_iff (mul_ne_zero hne hne)]; exact hs
    simp only []
    rw [e, ← hTT, hT, ellDm_real]
    field_simp
    ring
  · unfold forceNZ
    simp only []
    rw [hT, ellDm_real]
    field_simp
    ring
  · intro hpos i
    unfold forceTZ forceNZ
    simp only []
    have e : D i = D0 * (w i * w i) / (mu * mu) := by
      rw [eq_div_iff (mul_ne_zero hne hne)]; exact hrel i
    have hj : j0 * mu = -(TT w jar) / mu := by
      rw [eq_div_iff hne]; linarith
    rw [e, hj, ellDm_real]
    have := hpos.ne'
    field_simp
    ring

end zonesZ

/-! ### the relation between the regularisers that `mj_makeImpedance` establishes -/
/-- transcription of the three assignments of `mj_makeImpedance` for an elliptic contact:
    `R[i+1] = R[i]/impratio`, `mu = friction[0]*sqrt(R[i+1]/R[i])`,
    `R[i+j+1] = R[i+1]*friction[0]^2/friction[j]^2`, and `D = 1/R`.  Result: the relation
    `D_j mu² = D_0 friction_{j-1}²` for the first and for every further friction row. -/
theorem impedance_rel (R0 imp f0 fj : ℝ) (hR0 : 0 < R0) (himp : 0 < imp) (hf0 : 0 < f0) (hfj : 0 < fj) :
    let R1 := R0 / imp
    let mu := f0 * Real.sqrt (R1 / R0)
    let Rj := R1 * f0 * f0 / (fj * fj)
    1 / R1 * (mu * mu) = 1 / R0 * (f0 * f0) ∧ 1 / Rj * (mu * mu) = 1 / R0 * (fj * fj) := by
  intro R1 mu Rj
  have hR1 : 0 < R1 := div_pos hR0 himp
  have hq : 0 ≤ R1 / R0 := (div_pos hR1 hR0).le
  have hmu : mu * mu = f0 * f0 * (R1 / R0) := by
    show f0 * Real.sqrt (R1 / R0) * (f0 * Real.sqrt (R1 / R0)) = _
    have := Real.mul_self_sqrt hq
    calc f0 * Real.sqrt (R1 / R0) * (f0 * Real.sqrt (R1 / R0))
        = f0 * f0 * (Real.sqrt (R1 / R0) * Real.sqrt (R1 / R0)) := by ring
      _ = _ := by rw [this]
  have h1 := hR1.ne'
  have h0 := hR0.ne'
  have h2 := hf0.ne'
  have h3 := hfj.ne'
  constructor
  · rw [hmu]; field_simp
  · rw [hmu]; show 1 / (R1 * f0 * f0 / (fj * fj)) * _ = _
    field_simp

/-- every list of tangential rows is `tsOf` of its coordinate functions -/
theorem tsOf_getElem (ts : List (TRow ℝ)) :
    tsOf (fun i : Fin ts.length => ts[i].D) (fun i => ts[i].w) (fun i => ts[i].jar) = ts := by
  unfold tsOf
  exact List.ofFn_getElem


section st
variable {n : ℕ} (D0 mu : ℝ) (D w : Fin n → ℝ)

theorem ellBlock_state (j0 : ℝ) (jar : Fin n → ℝ) :
    (ellBlock D0 j0 mu (tsOf D w jar)).state =
      match blkZone mu w j0 jar with
      | Zone.top => stSatisfied | Zone.bottom => stQuadratic | Zone.middle => stCone := by
  unfold ellBlock blkZone
  simp only [norm_tsOf, r_mul]
  cases ellZone mu (j0 * mu) (TT w jar) <;> rfl

theorem ellBlock_state_cone_iff (j0 : ℝ) (jar : Fin n → ℝ) :
    (ellBlock D0 j0 mu (tsOf D w jar)).state = stCone ↔ blkZone mu w j0 jar = Zone.middle := by
  rw [ellBlock_state]
  cases blkZone mu w j0 jar <;> simp [stSatisfied, stQuadratic, stCone]

theorem hessIdx_tsOf (jar : Fin n → ℝ) :
    hessIdx (tsOf D w jar) = none :: List.ofFn (fun k => hIdxT w jar k) := by
  unfold hessIdx tsOf hIdxT
  congr 1
  apply List.ext_getElem
  · simp
  · intro i h1 h2
    simp [r_mul]

theorem ellBlock_hess (j0 : ℝ) (jar : Fin n → ℝ) (hz : blkZone mu w j0 jar = Zone.middle) :
    (ellBlock D0 j0 mu (tsOf D w jar)).hess =
      some ((none :: List.ofFn (fun k => hIdxT w jar k)).flatMap (fun a =>
        (none :: List.ofFn (fun k => hIdxT w jar k)).map (fun b => blkHess D0 mu w j0 jar a b))) := by
  unfold blkZone at hz
  unfold ellBlock
  simp only [norm_tsOf, r_mul]
  rw [hz]
  simp only [coneHess, hessIdx_tsOf, blkHess]

/-- in the middle zone the force is on the cone surface (no relation between the `D` needed) -/
theorem blk_middle_on_surface (hmu : 0 < mu) (hD0 : 0 ≤ D0) (hw : ∀ i, 0 < w i)
    (j0 : ℝ) (jar : Fin n → ℝ) (hz : blkZone mu w j0 jar = Zone.middle) :
    Real.sqrt (∑ i, (blkForceT D0 mu D w j0 jar i / w i) ^ 2) = blkForceN D0 mu w j0 jar := by
  obtain ⟨_, _, hT⟩ := middle_pos hmu hz
  have hN := blkForceN_nonneg (w := w) hmu hD0 j0 jar
  have e : ∑ i, (blkForceT D0 mu D w j0 jar i / w i) ^ 2 = (blkForceN D0 mu w j0 jar) ^ 2 := by
    have hTT := TT_sq w jar
    have : ∀ i, (blkForceT D0 mu D w j0 jar i / w i) ^ 2 =
        (blkForceN D0 mu w j0 jar) ^ 2 / (TT w jar * TT w jar) * (jar i * w i) ^ 2 := by
      intro i
      rw [blkForceT_middle hz, ← blkForceN_middle hz]
      have := (hw i).ne'
      have := hT.ne'
      field_simp
    simp only [this]
    rw [← Finset.mul_sum, hTT]
    have hS : SS w jar ≠ 0 := by rw [← hTT]; positivity
    show _ / SS w jar * SS w jar = _
    rw [div_mul_cancel₀ _ hS]
  rw [e, Real.sqrt_sq hN]

end st

/-! ### the update is a concatenation of independent blocks -/
section parse
variable {α : Type} [MjNum α]

/-- a maximal group of rows that `mj_constraintUpdate_impl` treats together -/
inductive Block (α : Type) where
  | eq (D jar : α)
  | fric (D R floss jar : α)
  | nonneg (D jar : α)
  | cone (D0 jar0 mu : α) (ts : List (TRow α)) (dim : Nat)

def Block.terms : Block α → List α
  | .eq D jar => (eqRow D jar).terms
  | .fric D R fl jar => (fricRow D R fl jar).terms
  | .nonneg D jar => (nonnegRow D jar).terms
  | .cone D0 j0 mu ts _ => (ellBlock D0 j0 mu ts).terms

def Block.force : Block α → List α
  | .eq D jar => [(eqRow D jar).force]
  | .fric D R fl jar => [(fricRow D R fl jar).force]
  | .nonneg D jar => [(nonnegRow D jar).force]
  | .cone D0 j0 mu ts _ => (ellBlock D0 j0 mu ts).force

def Block.states : Block α → List Nat
  | .eq D jar => [(eqRow D jar).state]
  | .fric D R fl jar => [(fricRow D R fl jar).state]
  | .nonneg D jar => [(nonnegRow D jar).state]
  | .cone D0 j0 mu ts dim => List.replicate dim (ellBlock D0 j0 mu ts).state

/-- how the row loop groups the rows `i, i+1, …` into blocks (`none` exactly when `go` refuses) -/
def parse (ne nf : Nat) (cons : List (Contact α)) : (i : Nat) → (rows : List (Row α)) → Option (List (Block α))
  | _, [] => some []
  | i, r :: rest =>
    if i < ne then (parse ne nf cons (i + 1) rest).map (Block.eq r.D r.jar :: ·)
    else if i < ne + nf then (parse ne nf cons (i + 1) rest).map (Block.fric r.D r.R r.floss r.jar :: ·)
    else if r.type ≠ cnstrElliptic then (parse ne nf cons (i + 1) rest).map (Block.nonneg r.D r.jar :: ·)
    else
      match cons[r.id]? with
      | none => none
      | some c =>
        if c.dim = 0 ∨ 6 < c.dim ∨ rest.length < c.dim - 1 ∨ c.friction.length < c.dim - 1 then none
        else
          (parse ne nf cons (i + c.dim) (rest.drop (c.dim - 1))).map
            (Block.cone r.D r.jar c.mu
              (List.zipWith (fun (b : Row α) f => (⟨b.D, b.jar, f⟩ : TRow α))
                (rest.take (c.dim - 1)) (c.friction.take (c.dim - 1))) c.dim :: ·)
termination_by _ rows => rows.length
decreasing_by
  all_goals simp only [List.length_cons, List.length_drop]
  all_goals omega

theorem addTerms_append (s : α) (a b : List α) : addTerms s (a ++ b) = addTerms (addTerms s a) b := by
  unfold addTerms; rw [List.foldl_append]

theorem go_eq_parse (ne nf : Nat) (flgH : Bool) (cons : List (Contact α)) (i : Nat) (rows : List (Row α))
    (s : α) (frev : List α) (srev : List Nat) (hs : List (Option (List α))) :
    match parse ne nf cons i rows with
    | none => go ne nf flgH cons i rows s frev srev hs = none
    | some bs => ∃ hs', go ne nf flgH cons i rows s frev srev hs =
        some ⟨addTerms s (bs.flatMap Block.terms), frev.reverse ++ bs.flatMap Block.force,
              srev.reverse ++ bs.flatMap Block.states, hs'⟩ := by
  fun_induction go ne nf flgH cons i rows s frev srev hs with
  | case1 i s frev srev hs =>
    simp [parse, addTerms]
  | case2 i r rest s frev srev hs h o ih =>
    rw [parse, if_pos h]
    cases hp : parse ne nf cons (i + 1) rest with
    | none => rw [hp] at ih; simpa using ih
    | some bs =>
      rw [hp] at ih
      obtain ⟨hs', ih⟩ := ih
      refine ⟨hs', ?_⟩
      simp only [List.flatMap_cons, Block.terms, Block.force, Block.states]
      rw [ih, addTerms_append]
      simp [o]
  | case3 i r rest s frev srev hs h1 h2 o ih =>
    rw [parse, if_neg h1, if_pos h2]
    cases hp : parse ne nf cons (i + 1) rest with
    | none => rw [hp] at ih; simpa using ih
    | some bs =>
      rw [hp] at ih
      obtain ⟨hs', ih⟩ := ih
      refine ⟨hs', ?_⟩
      simp only [List.flatMap_cons, Block.terms, Block.force, Block.states]
      rw [ih, addTerms_append]
      simp [o]
  | case4 i r rest s frev srev hs h1 h2 h3 o ih =>
    rw [parse, if_neg h1, if_neg h2, if_pos h3]
    cases hp : parse ne nf cons (i + 1) rest with
    | none => rw [hp] at ih; simpa using ih
    | some bs =>
      rw [hp] at ih
      obtain ⟨hs', ih⟩ := ih
      refine ⟨hs', ?_⟩
      simp only [List.flatMap_cons, Block.terms, Block.force, Block.states]
      rw [ih, addTerms_append]
      simp [o]
  | case5 i r rest s frev srev hs h1 h2 h3 hc =>
    rw [parse, if_neg h1, if_neg h2, if_neg h3, hc]
  | case6 i r rest s frev srev hs h1 h2 h3 c hc hbad =>
    rw [parse, if_neg h1, if_neg h2, if_neg h3, hc]
    simp only [if_pos hbad]
  | case7 i r rest s frev srev hs h1 h2 h3 c hc hok ts o hs' ih =>
    rw [parse, if_neg h1, if_neg h2, if_neg h3, hc]
    simp only [if_neg hok]
    cases hp : parse ne nf cons (i + c.dim) (rest.drop (c.dim - 1)) with
    | none => rw [hp] at ih; simpa using ih
    | some bs =>
      rw [hp] at ih
      obtain ⟨hs'', ih⟩ := ih
      refine ⟨hs'', ?_⟩
      simp only [List.flatMap_cons, Block.terms, Block.force, Block.states]
      rw [ih, addTerms_append]
      simp [o, ts]

end parse

theorem sum_flatMap_real {β : Type} (bs : List β) (f : β → List ℝ) :
    (bs.flatMap f).sum = (bs.map (fun b => (f b).sum)).sum := by
  induction bs with
  | nil => simp
  | cons b bs ih => simp only [List.flatMap_cons, List.sum_append, List.map_cons, List.sum_cons, ih]

/-- cost contributed by a block -/
noncomputable def Block.cost (b : Block ℝ) : ℝ := b.terms.sum

/-- `mj_constraintUpdate_impl` on ℝ: the rows split into blocks, the returned cost is the sum of the
    block costs and the returned force / state vectors are the concatenations of the block outputs;
    each block output depends on the residuals of its own rows only -/
theorem update_decomposes (ne nf : Nat) (flgH : Bool) (rows : List (Row ℝ)) (cons : List (Contact ℝ))
    (o : Out ℝ) (h : update ne nf flgH rows cons = some o) :
    ∃ bs, parse ne nf cons 0 rows = some bs ∧ o.cost = (bs.map Block.cost).sum ∧
      o.force = bs.flatMap Block.force ∧ o.state = bs.flatMap Block.states := by
  unfold update at h
  have := go_eq_parse ne nf flgH cons 0 rows (zero : ℝ) [] [] (cons.map (fun _ => none))
  cases hp : parse ne nf cons 0 rows with
  | none => rw [hp] at this; rw [this] at h; exact absurd h (by simp)
  | some bs =>
    rw [hp] at this
    obtain ⟨hs', hgo⟩ := this
    rw [hgo] at h
    have ho : o = _ := (Option.some.inj h).symm
    refine ⟨bs, rfl, ?_, ?_, ?_⟩
    · rw [ho]; simp only [addTerms_real, zero_real, zero_add, sum_flatMap_real]; rfl
    · rw [ho]; simp
    · rw [ho]; simp

/-- parameter ranges under which a block's forces are admissible -/
def Block.WF : Block ℝ → Prop
  | .eq _ _ => True
  | .fric D R fl _ => 0 ≤ D ∧ D * R = 1 ∧ 0 ≤ fl
  | .nonneg D _ => 0 ≤ D
  | .cone D0 _ mu ts _ => 0 ≤ D0 ∧ 0 < mu ∧ ∀ t ∈ ts, 0 < t.w ∧ t.D * (mu * mu) = D0 * (t.w * t.w)

/-- the admissible set of a block's forces -/
def Block.Admissible : Block ℝ → Prop
  | .eq _ _ => True
  | .fric D R fl jar => |(fricRow D R fl jar).force| ≤ fl
  | .nonneg D jar => 0 ≤ (nonnegRow D jar).force
  | .cone D0 j0 mu ts _ =>
      ∃ (fN : ℝ) (fT : Fin ts.length → ℝ), (ellBlock D0 j0 mu ts).force = fN :: List.ofFn fT ∧
        0 ≤ fN ∧ Real.sqrt (∑ i, (fT i / ts[i].w) ^ 2) ≤ fN

theorem fricRow_force_abs_le {D R fl : ℝ} (hD : 0 ≤ D) (hDR : D * R = 1) (hfl : 0 ≤ fl) (x : ℝ) :
    |(fricRow D R fl x).force| ≤ fl := by
  have hR := R_pos_of hD hDR
  have hb : 0 ≤ R * fl := mul_nonneg hR.le hfl
  rw [fricRow_force_eq hDR, abs_neg, abs_mul, abs_of_nonneg hD]
  have := huber1'_abs_le hb x
  calc D * |huber1' (R * fl) x| ≤ D * (R * fl) := mul_le_mul_of_nonneg_left this hD
    _ = fl := by rw [← mul_assoc, hDR, one_mul]

theorem nonnegRow_force_nonneg {D : ℝ} (hD : 0 ≤ D) (x : ℝ) : 0 ≤ (nonnegRow D x).force := by
  rw [nonnegRow_force_eq]
  have := q1'_nonpos x
  have : D * q1' x ≤ 0 := mul_nonpos_of_nonneg_of_nonpos hD this
  linarith

theorem Block.admissible_of_WF (b : Block ℝ) (h : b.WF) : b.Admissible := by
  cases b with
  | eq D jar => trivial
  | fric D R fl jar => exact fricRow_force_abs_le h.1 h.2.1 h.2.2 jar
  | nonneg D jar => exact nonnegRow_force_nonneg h jar
  | cone D0 j0 mu ts dim =>
    obtain ⟨hD0, hmu, hts⟩ := h
    unfold Block.Admissible
    have hts' := tsOf_getElem ts
    refine ⟨blkForceN D0 mu (fun i : Fin ts.length => ts[i].w) j0 (fun i => ts[i].jar),
      blkForceT D0 mu (fun i : Fin ts.length => ts[i].D) (fun i => ts[i].w) j0 (fun i => ts[i].jar), ?_, ?_, ?_⟩
    · have := ellBlock_force D0 mu (fun i : Fin ts.length => ts[i].D) (fun i => ts[i].w) j0 (fun i => ts[i].jar)
      rw [hts'] at this; exact this
    · exact blkForceN_nonneg hmu hD0 _ _
    · exact blk_in_cone hmu hD0 (fun i => (hts ts[i] (List.getElem_mem _)).1)
        (fun i => (hts ts[i] (List.getElem_mem _)).2) _ _

section interior
variable {n : ℕ} {D0 mu : ℝ} {D w : Fin n → ℝ}

/-! ### zone interiors without the impedance relation -/

theorem top_of_pos (hmu : 0 < mu) {j0 : ℝ} {jar : Fin n → ℝ} (h : 0 < j0 * mu - mu * TT w jar) :
    blkZone mu w j0 jar = Zone.top := by
  rw [blkZone_eq hmu, if_pos h.le]

theorem bottom_of_neg (hmu : 0 < mu) {j0 : ℝ} {jar : Fin n → ℝ} (h1 : j0 * mu - mu * TT w jar < 0)
    (h2 : mu * (j0 * mu) + TT w jar < 0) : blkZone mu w j0 jar = Zone.bottom := by
  rw [blkZone_eq hmu, if_neg (not_le.mpr h1), if_pos h2.le]

/-- along a coordinate line the two zone functions `s`, `q` are continuous -/
theorem sq_continuous_tangent (j0 : ℝ) (jar : Fin n → ℝ) (j : Fin n) :
    Continuous (fun t => j0 * mu - mu * TT w (Function.update jar j t)) ∧
    Continuous (fun t => mu * (j0 * mu) + TT w (Function.update jar j t)) :=
  ⟨continuous_const.sub (continuous_const.mul (TT_update_continuous w jar j)),
   continuous_const.add (TT_update_continuous w jar j)⟩

theorem zone_eventually_tangent (hmu : 0 < mu) {j0 : ℝ} {jar : Fin n → ℝ} (j : Fin n) {z : Zone}
    (hz : blkZone mu w j0 jar = z)
    (hint : (z = Zone.top → 0 < j0 * mu - mu * TT w jar) ∧
            (z = Zone.bottom → mu * (j0 * mu) + TT w jar < 0)) :
    ∀ᶠ t in 𝓝 (jar j), blkZone mu w j0 (Function.update jar j t) = z := by
  obtain ⟨c1, c2⟩ := sq_continuous_tangent (mu := mu) (w := w) j0 jar j
  have hself : Function.update jar j (jar j) = jar := Function.update_eq_self j jar
  rcases blkZone_cases (w := w) hmu j0 jar with ⟨h, h1, h2⟩ | ⟨h, h1, h2⟩ | ⟨h, h1, h2⟩
  · have hz' : z = Zone.top := by rw [← hz, h]
    have hp := hint.1 hz'
    have e1 := (continuousAt_const (y := (0 : ℝ))).eventually_lt c1.continuousAt
      (by show 0 < j0 * mu - mu * TT w (Function.update jar j (jar j)); rw [hself]; exact hp)
    filter_upwards [e1] with t ht
    rw [hz']; exact top_of_pos hmu ht
  · have hz' : z = Zone.bottom := by rw [← hz, h]
    have hp := hint.2 hz'
    have e1 := c1.continuousAt.eventually_lt (g := fun _ => (0 : ℝ)) continuousAt_const
      (by show j0 * mu - mu * TT w (Function.update jar j (jar j)) < 0; rw [hself]; exact h1)
    have e2 := c2.continuousAt.eventually_lt (g := fun _ => (0 : ℝ)) continuousAt_const
      (by show mu * (j0 * mu) + TT w (Function.update jar j (jar j)) < 0; rw [hself]; exact hp)
    filter_upwards [e1, e2] with t ht1 ht2
    rw [hz']; exact bottom_of_neg hmu ht1 ht2
  · have hz' : z = Zone.middle := by rw [← hz, h]
    rw [hz']; exact middle_eventually_tangent hmu h j

theorem zone_eventually_normal (hmu : 0 < mu) {j0 : ℝ} {jar : Fin n → ℝ} {z : Zone}
    (hz : blkZone mu w j0 jar = z)
    (hint : (z = Zone.top → 0 < j0 * mu - mu * TT w jar) ∧
            (z = Zone.bottom → mu * (j0 * mu) + TT w jar < 0)) :
    ∀ᶠ t in 𝓝 j0, blkZone mu w t jar = z := by
  have c1 : ContinuousAt (fun t : ℝ => t * mu - mu * TT w jar) j0 := by fun_prop
  have c2 : ContinuousAt (fun t : ℝ => mu * (t * mu) + TT w jar) j0 := by fun_prop
  rcases blkZone_cases (w := w) hmu j0 jar with ⟨h, h1, h2⟩ | ⟨h, h1, h2⟩ | ⟨h, h1, h2⟩
  · have hz' : z = Zone.top := by rw [← hz, h]
    have e1 := (continuousAt_const (y := (0 : ℝ))).eventually_lt c1 (hint.1 hz')
    filter_upwards [e1] with t ht
    rw [hz']; exact top_of_pos hmu ht
  · have hz' : z = Zone.bottom := by rw [← hz, h]
    have e1 := c1.eventually_lt (g := fun _ => (0 : ℝ)) continuousAt_const h1
    have e2 := c2.eventually_lt (g := fun _ => (0 : ℝ)) continuousAt_const (hint.2 hz')
    filter_upwards [e1, e2] with t ht1 ht2
    rw [hz']; exact bottom_of_neg hmu ht1 ht2
  · have hz' : z = Zone.middle := by rw [← hz, h]
    rw [hz']; exact middle_eventually_normal hmu h

/-- the quadratic sum along a coordinate line -/
theorem quad_update (D jar : Fin n → ℝ) (j : Fin n) (t : ℝ) :
    ∑ i, 1 / 2 * D i * Function.update jar j t i * Function.update jar j t i =
      1 / 2 * D j * t * t + ∑ i ∈ Finset.univ.erase j, 1 / 2 * D i * jar i * jar i := by
  rw [← Finset.add_sum_erase _ _ (Finset.mem_univ j)]
  congr 1
  · simp
  · refine Finset.sum_congr rfl fun k hk => ?_
    rw [Function.update_of_ne (Finset.ne_of_mem_erase hk)]

/-- in the interior of a zone (top: `N > mu T`; bottom: `mu N + T < 0`; middle: always open) the
    normal force is minus the partial derivative of the cost — no relation between the `D` needed -/
theorem blk_interior_normal (hmu : 0 < mu) (j0 : ℝ) (jar : Fin n → ℝ)
    (hint : (blkZone mu w j0 jar = Zone.top → 0 < j0 * mu - mu * TT w jar) ∧
            (blkZone mu w j0 jar = Zone.bottom → mu * (j0 * mu) + TT w jar < 0)) :
    HasDerivAt (fun t => blkCost D0 mu D w t jar) (-(blkForceN D0 mu w j0 jar)) j0 := by
  have hev := zone_eventually_normal (w := w) hmu (z := blkZone mu w j0 jar) rfl hint
  have hev' : (fun t => blkCost D0 mu D w t jar) =ᶠ[𝓝 j0]
      fun t => costZ D0 mu D w (blkZone mu w j0 jar) t jar := by
    filter_upwards [hev] with t ht
    rw [blkCost_eq_costZ, ht]
  refine HasDerivAt.congr_of_eventuallyEq ?_ hev'
  rw [blkForceN_eq_forceNZ]
  cases blkZone mu w j0 jar with
  | top => simp only [costZ, forceNZ, neg_zero]; exact hasDerivAt_const _ _
  | bottom =>
    simp only [costZ, forceNZ]
    have h := (((hasDerivAt_id' j0).const_mul (1 / 2 * D0)).fun_mul (hasDerivAt_id' j0)).add_const
      (∑ i, 1 / 2 * D i * jar i * jar i)
    refine h.congr_deriv ?_
    ring
  | middle =>
    simp only [costZ, forceNZ]
    have hs := ((hasDerivAt_id' j0).mul_const mu).sub_const (mu * TT w jar)
    have h := (hs.const_mul (1 / 2 * ellDm D0 mu)).fun_mul hs
    refine h.congr_deriv ?_
    ring

/-- … and the tangential forces are minus the partial derivatives in the tangential residuals -/
theorem blk_interior_tangent (hmu : 0 < mu) (j0 : ℝ) (jar : Fin n → ℝ) (i : Fin n)
    (hint : (blkZone mu w j0 jar = Zone.top → 0 < j0 * mu - mu * TT w jar) ∧
            (blkZone mu w j0 jar = Zone.bottom → mu * (j0 * mu) + TT w jar < 0)) :
    HasDerivAt (fun t => blkCost D0 mu D w j0 (Function.update jar i t))
      (-(blkForceT D0 mu D w j0 jar i)) (jar i) := by
  have hev := zone_eventually_tangent (w := w) hmu i (z := blkZone mu w j0 jar) rfl hint
  have hev' : (fun t => blkCost D0 mu D w j0 (Function.update jar i t)) =ᶠ[𝓝 (jar i)]
      fun t => costZ D0 mu D w (blkZone mu w j0 jar) j0 (Function.update jar i t) := by
    filter_upwards [hev] with t ht
    rw [blkCost_eq_costZ, ht]
  refine HasDerivAt.congr_of_eventuallyEq ?_ hev'
  rw [blkForceT_eq_forceTZ]
  cases hz : blkZone mu w j0 jar with
  | top => simp only [costZ, forceTZ, neg_zero]; exact hasDerivAt_const _ _
  | bottom =>
    simp only [costZ, forceTZ, quad_update]
    have h := ((((hasDerivAt_id' (jar i)).const_mul (1 / 2 * D i)).fun_mul (hasDerivAt_id' (jar i))).add_const
      (∑ k ∈ Finset.univ.erase i, 1 / 2 * D k * jar k * jar k)).const_add (1 / 2 * D0 * j0 * j0)
    refine h.congr_deriv ?_
    ring
  | middle =>
    obtain ⟨_, _, hT⟩ := middle_pos hmu hz
    simp only [costZ, forceTZ, forceNZ]
    have hd := TT_update_hasDerivAt w jar i hT.ne'
    have hs := (hd.const_mul mu).const_sub (j0 * mu)
    have h := (hs.const_mul (1 / 2 * ellDm D0 mu)).fun_mul hs
    refine h.congr_deriv ?_
    simp only [Function.update_eq_self]
    have := hT.ne'
    field_simp
    ring

end interior


/-- cost of an elliptic block as the code accumulates it: the sum of the increments `s += …` that
    `ellBlock` records for the block with normal residual `jar0` and tangential residuals `jar` -/
noncomputable def ellCost {n : ℕ} (D0 mu : ℝ) (D w : Fin n → ℝ) (jar0 : ℝ) (jar : Fin n → ℝ) : ℝ :=
  ((ellBlock D0 jar0 mu (tsOf D w jar)).terms).sum

end MjProof.Constraint
