import MjProof.Model.Constraint
import MjProof.Lemmas.RealNum
import Mathlib.Analysis.SpecialFunctions.Sqrt
import Mathlib.Analysis.Calculus.Deriv.Basic
import Mathlib.Analysis.Calculus.Deriv.Add
import Mathlib.Analysis.Calculus.Deriv.Mul
import Mathlib.Analysis.Calculus.Deriv.Pow
import Mathlib.Analysis.Calculus.Deriv.Comp
import Mathlib.Tactic.Ring
import Mathlib.Tactic.Linarith
import Mathlib.Tactic.NormNum
import Mathlib.Tactic.Positivity
import Mathlib.Tactic.FieldSimp
import Mathlib.Tactic.LinearCombination
import Mathlib.Algebra.BigOperators.Fin
import Mathlib.Algebra.Order.BigOperators.Ring.Finset
import Mathlib.Analysis.Convex.Function
/-
Real-number reading of the constraint-update model (Model/Constraint.lean) and the helper lemmas used
by Props/C11.lean and Props/C12.lean.
-/
namespace MjProof.Constraint
open MjProof Asymptotics Filter Topology

/-! ### the operations of `MjNum ℝ` are the field operations of `ℝ` -/
theorem r_mul (a b : ℝ) : @HMul.hMul ℝ ℝ ℝ (@instHMul ℝ (MjNum.toMul)) a b = a * b := rfl
theorem r_add (a b : ℝ) : @HAdd.hAdd ℝ ℝ ℝ (@instHAdd ℝ (MjNum.toAdd)) a b = a + b := rfl
theorem r_sub (a b : ℝ) : @HSub.hSub ℝ ℝ ℝ (@instHSub ℝ (MjNum.toSub)) a b = a - b := rfl
theorem r_div (a b : ℝ) : @HDiv.hDiv ℝ ℝ ℝ (@instHDiv ℝ (MjNum.toDiv)) a b = a / b := rfl
theorem r_neg (a : ℝ) : @Neg.neg ℝ (MjNum.toNeg) a = -a := rfl
theorem r_lt (a b : ℝ) : @LT.lt ℝ (MjNum.toLT) a b ↔ a < b := Iff.rfl
theorem r_le (a b : ℝ) : @LE.le ℝ (MjNum.toLE) a b ↔ a ≤ b := Iff.rfl
theorem zero_real : (zero : ℝ) = 0 := by simp [zero]
theorem one_real : (one : ℝ) = 1 := by simp [one]
theorem half_real : (half : ℝ) = 1 / 2 := by simp [half]; norm_num
theorem minval_real : (minval : ℝ) = 1 / 10 ^ 15 := by simp [minval]; norm_num

/-- rewrite the generic operations at `ℝ` into the standard ones -/
macro "real_ops" : tactic =>
  `(tactic| simp only [r_mul, r_add, r_sub, r_div, r_neg, r_lt, r_le, zero_real, one_real, half_real,
      real_sqrt])
macro "real_ops_at" h:ident : tactic =>
  `(tactic| simp only [r_mul, r_add, r_sub, r_div, r_neg, r_lt, r_le, zero_real, one_real, half_real,
      real_sqrt] at $h:ident)

/-! ### sums of squares -/
/-- Σ xᵢ² -/
def sqSum (v : List ℝ) : ℝ := (v.map (fun x => x * x)).sum

theorem sqSum_nil : sqSum [] = 0 := rfl
theorem sqSum_cons (a : ℝ) (v : List ℝ) : sqSum (a :: v) = a * a + sqSum v := by simp [sqSum]
theorem sqSum_nonneg (v : List ℝ) : 0 ≤ sqSum v := by
  induction v with
  | nil => simp [sqSum]
  | cons a v ih => rw [sqSum_cons]; nlinarith [mul_self_nonneg a]

theorem sumsqAcc_real (r0 r1 r2 r3 : ℝ) (v : List ℝ) :
    sumsqAcc r0 r1 r2 r3 v = r0 + r1 + r2 + r3 + sqSum v := by
  fun_induction sumsqAcc r0 r1 r2 r3 v with
  | case1 r0 r1 r2 r3 a0 a1 a2 a3 rest ih =>
    rw [ih]; real_ops; simp only [sqSum_cons]; ring
  | case2 r0 r1 r2 r3 a0 a1 a2 => real_ops; simp only [sqSum_cons, sqSum_nil]; ring
  | case3 r0 r1 r2 r3 a0 a1 => real_ops; simp only [sqSum_cons, sqSum_nil]; ring
  | case4 r0 r1 r2 r3 a0 => real_ops; simp only [sqSum_cons, sqSum_nil]; ring
  | case5 r0 r1 r2 r3 => real_ops; simp only [sqSum_nil]; ring

theorem sumsq_real (v : List ℝ) : sumsq v = sqSum v := by
  unfold sumsq; rw [sumsqAcc_real]; real_ops; ring

theorem norm_real (v : List ℝ) : norm v = Real.sqrt (sqSum v) := by
  unfold norm; rw [sumsq_real]; rfl


theorem addTerms_real (s : ℝ) (ts : List ℝ) : addTerms s ts = s + ts.sum := by
  unfold addTerms
  induction ts generalizing s with
  | nil => simp
  | cons t ts ih => simp only [List.foldl_cons, List.sum_cons, ih]; real_ops; ring

/-! ### scalar rows on ℝ -/
/-- the cost contributed by a row: the sum of its increments -/
def RowOut.cost (o : RowOut ℝ) : ℝ := o.terms.sum

theorem eqRow_cost (D x : ℝ) : (eqRow D x).cost = 1 / 2 * D * x * x := by
  simp only [eqRow, RowOut.cost, List.sum_cons, List.sum_nil, add_zero, r_mul, half_real]
theorem eqRow_force (D x : ℝ) : (eqRow D x).force = -D * x := by
  simp only [eqRow, r_mul, r_neg]

theorem fricRow_real (D R fl x : ℝ) :
    fricRow D R fl x =
      if x ≤ -R * fl then ⟨[-(1 / 2) * R * fl * fl - fl * x], fl, 2⟩
      else if R * fl ≤ x then ⟨[-(1 / 2) * R * fl * fl + fl * x], -fl, 3⟩
      else ⟨[1 / 2 * D * x * x], -D * x, 1⟩ := by
  unfold fricRow
  simp only [r_mul, r_add, r_sub, r_neg, r_le, half_real, stLinearNeg, stLinearPos, stQuadratic]

theorem fricRow_cost (D R fl x : ℝ) :
    (fricRow D R fl x).cost =
      if x ≤ -R * fl then -(1 / 2) * R * fl * fl - fl * x
      else if R * fl ≤ x then -(1 / 2) * R * fl * fl + fl * x
      else 1 / 2 * D * x * x := by
  rw [fricRow_real]; split_ifs <;> simp [RowOut.cost]

theorem fricRow_force (D R fl x : ℝ) :
    (fricRow D R fl x).force =
      if x ≤ -R * fl then fl else if R * fl ≤ x then -fl else -D * x := by
  rw [fricRow_real]; split_ifs <;> rfl

theorem nonnegRow_real (D x : ℝ) :
    nonnegRow D x = if 0 ≤ x then ⟨[], 0, 0⟩ else ⟨[1 / 2 * D * x * x], -D * x, 1⟩ := by
  unfold nonnegRow
  simp only [r_mul, r_neg, r_le, half_real, zero_real, stSatisfied, stQuadratic]

theorem nonnegRow_cost (D x : ℝ) :
    (nonnegRow D x).cost = if 0 ≤ x then 0 else 1 / 2 * D * x * x := by
  rw [nonnegRow_real]; split_ifs <;> simp [RowOut.cost]

theorem nonnegRow_force (D x : ℝ) :
    (nonnegRow D x).force = if 0 ≤ x then 0 else -D * x := by
  rw [nonnegRow_real]; split_ifs <;> rfl

/-! ### gluing derivatives of piecewise functions -/
/-- if `h` coincides with `f` on the left of `a` and with `g` on the right of `a`, and `f`, `g` have
    the same derivative at `a`, then `h` has that derivative at `a` (the kink points of the costs) -/
theorem hasDerivAt_glue {f g h : ℝ → ℝ} {a f' : ℝ}
    (hl : ∀ x, x ≤ a → h x = f x) (hr : ∀ x, a ≤ x → h x = g x)
    (hf : HasDerivAt f f' a) (hg : HasDerivAt g f' a) : HasDerivAt h f' a := by
  have h1 : HasDerivWithinAt h f' (Set.Iic a) a :=
    hf.hasDerivWithinAt.congr (fun x hx => hl x hx) (hl a le_rfl)
  have h2 : HasDerivWithinAt h f' (Set.Ici a) a :=
    hg.hasDerivWithinAt.congr (fun x hx => hr x hx) (hr a le_rfl)
  have h3 := h1.union h2
  rwa [Set.Iic_union_Ici, hasDerivWithinAt_univ] at h3

/-- `h` coincides with `f` on an open interval around `a` -/
theorem hasDerivAt_of_eq_on_Ioo {f h : ℝ → ℝ} {a f' l u : ℝ} (hla : l < a) (hau : a < u)
    (he : ∀ x, l < x → x < u → h x = f x) (hf : HasDerivAt f f' a) : HasDerivAt h f' a := by
  refine hf.congr_of_eventuallyEq ?_
  filter_upwards [Ioo_mem_nhds hla hau] with x hx
  exact he x hx.1 hx.2

theorem hasDerivAt_of_eq_on_Iio {f h : ℝ → ℝ} {a f' u : ℝ} (hau : a < u)
    (he : ∀ x, x < u → h x = f x) (hf : HasDerivAt f f' a) : HasDerivAt h f' a := by
  refine hf.congr_of_eventuallyEq ?_
  filter_upwards [Iio_mem_nhds hau] with x hx
  exact he x hx

theorem hasDerivAt_of_eq_on_Ioi {f h : ℝ → ℝ} {a f' l : ℝ} (hla : l < a)
    (he : ∀ x, l < x → h x = f x) (hf : HasDerivAt f f' a) : HasDerivAt h f' a := by
  refine hf.congr_of_eventuallyEq ?_
  filter_upwards [Ioi_mem_nhds hla] with x hx
  exact he x hx


/-! ### derivative from a two-sided quadratic sandwich; convexity from supporting lines -/
theorem hasDerivAt_of_sandwich {c : ℝ → ℝ} {g x0 L : ℝ}
    (hlo : ∀ x, c x0 + g * (x - x0) ≤ c x)
    (hup : ∀ x, c x ≤ c x0 + g * (x - x0) + L * (x - x0) ^ 2) : HasDerivAt c g x0 := by
  rw [hasDerivAt_iff_isLittleO]
  have hO : (fun x => c x - c x0 - (x - x0) • g) =O[𝓝 x0] (fun x => ‖x - x0‖ ^ 2) := by
    refine IsBigO.of_bound |L| (Eventually.of_forall fun x => ?_)
    have h1 := hlo x
    have h2 := hup x
    have e0 : 0 ≤ c x - c x0 - (x - x0) • g := by rw [smul_eq_mul]; linarith
    rw [Real.norm_eq_abs, abs_of_nonneg e0, Real.norm_eq_abs, Real.norm_eq_abs, abs_pow, abs_abs,
      smul_eq_mul, ← abs_pow, abs_of_nonneg (sq_nonneg (x - x0))]
    have : L * (x - x0) ^ 2 ≤ |L| * (x - x0) ^ 2 :=
      mul_le_mul_of_nonneg_right (le_abs_self L) (sq_nonneg _)
    linarith
  exact hO.trans_isLittleO (isLittleO_pow_sub_sub x0 one_lt_two)

theorem convexOn_of_subgradient {c g : ℝ → ℝ}
    (hsub : ∀ x y, c y + g y * (x - y) ≤ c x) : ConvexOn ℝ Set.univ c := by
  refine ⟨convex_univ, fun x _ y _ a b ha hb hab => ?_⟩
  have h1 := hsub x (a • x + b • y)
  have h2 := hsub y (a • x + b • y)
  simp only [smul_eq_mul] at *
  have hb' : b = 1 - a := by linarith
  subst hb'
  nlinarith [mul_le_mul_of_nonneg_left h1 ha, mul_le_mul_of_nonneg_left h2 hb]

/-! ### Huber function -/
/-- Huber cost with unit curvature and threshold `b` -/
noncomputable def huber1 (b x : ℝ) : ℝ :=
  if x ≤ -b then -(1 / 2) * b * b - b * x
  else if b ≤ x then -(1 / 2) * b * b + b * x
  else 1 / 2 * x * x
/-- its derivative -/
noncomputable def huber1' (b x : ℝ) : ℝ :=
  if x ≤ -b then -b else if b ≤ x then b else x

theorem huber1_lower (b x y : ℝ) (hb : 0 ≤ b) :
    huber1 b y + huber1' b y * (x - y) ≤ huber1 b x := by
  unfold huber1 huber1'
  split_ifs with h1 h2 h3 h4 h5 h6 h7 h8 <;> try push Not at *
  all_goals nlinarith [sq_nonneg (x - y), sq_nonneg (x + b), sq_nonneg (x - b), sq_nonneg (y + b), sq_nonneg (y - b)]

theorem huber1_upper (b x y : ℝ) (hb : 0 ≤ b) :
    huber1 b x ≤ huber1 b y + huber1' b y * (x - y) + 1 / 2 * (x - y) ^ 2 := by
  unfold huber1 huber1'
  split_ifs with h1 h2 h3 h4 h5 h6 h7 h8 <;> try push Not at *
  all_goals nlinarith [sq_nonneg (x - y), sq_nonneg (x + b), sq_nonneg (x - b), sq_nonneg (y + b), sq_nonneg (y - b)]

/-! ### elliptic cone block on ℝ -/

/-- rows of a cone block given by coordinate functions -/
def tsOf {n : ℕ} (D w jar : Fin n → ℝ) : List (TRow ℝ) := List.ofFn fun i => ⟨D i, jar i, w i⟩

/-- Σ (jarᵢ wᵢ)² -/
def SS {n : ℕ} (w jar : Fin n → ℝ) : ℝ := ∑ i, (jar i * w i) ^ 2
/-- `T` -/
noncomputable def TT {n : ℕ} (w jar : Fin n → ℝ) : ℝ := Real.sqrt (SS w jar)

theorem SS_nonneg {n : ℕ} (w jar : Fin n → ℝ) : 0 ≤ SS w jar :=
  Finset.sum_nonneg fun _ _ => sq_nonneg _
theorem TT_nonneg {n : ℕ} (w jar : Fin n → ℝ) : 0 ≤ TT w jar := Real.sqrt_nonneg _
theorem TT_sq {n : ℕ} (w jar : Fin n → ℝ) : TT w jar * TT w jar = SS w jar :=
  Real.mul_self_sqrt (SS_nonneg w jar)

theorem sqSum_ofFn {n : ℕ} (f : Fin n → ℝ) : sqSum (List.ofFn f) = ∑ i, f i ^ 2 := by
  unfold sqSum
  rw [List.map_ofFn, List.sum_ofFn]
  exact Finset.sum_congr rfl fun i _ => by simp [sq]

theorem norm_tsOf {n : ℕ} (D w jar : Fin n → ℝ) : norm (ellUt (tsOf D w jar)) = TT w jar := by
  rw [norm_real]
  unfold ellUt tsOf TT SS
  rw [List.map_ofFn, sqSum_ofFn]
  congr 1

theorem ellZone_real (mu N T : ℝ) :
    ellZone mu N T =
      if mu * T ≤ N ∨ (T ≤ 0 ∧ 0 ≤ N) then Zone.top
      else if mu * N + T ≤ 0 ∨ (T ≤ 0 ∧ N < 0) then Zone.bottom else Zone.middle := by
  unfold ellZone
  simp only [r_mul, r_add, r_le, r_lt, zero_real]

/-- for `mu > 0`, `T ≥ 0` the zone only depends on the signs of `s = N − mu T` and `q = mu N + T` -/
theorem ellZone_of_nonneg {mu N T : ℝ} (hmu : 0 < mu) (hT : 0 ≤ T) :
    ellZone mu N T =
      if 0 ≤ N - mu * T then Zone.top else if mu * N + T ≤ 0 then Zone.bottom else Zone.middle := by
  rw [ellZone_real]
  have h1 : (mu * T ≤ N ∨ (T ≤ 0 ∧ 0 ≤ N)) ↔ 0 ≤ N - mu * T := by
    constructor
    · rintro (h | ⟨h1, h2⟩)
      · linarith
      · have : T = 0 := le_antisymm h1 hT
        subst this; simpa using h2
    · intro h; left; linarith
  have h2 : (mu * N + T ≤ 0 ∨ (T ≤ 0 ∧ N < 0)) ↔ mu * N + T ≤ 0 := by
    constructor
    · rintro (h | ⟨h1, h2⟩)
      · exact h
      · have : T = 0 := le_antisymm h1 hT
        subst this; nlinarith
    · intro h; left; exact h
  simp only [h1, h2]


theorem ellDm_real (D0 mu : ℝ) : ellDm D0 mu = D0 / (mu * mu * (1 + mu * mu)) := by
  unfold ellDm; simp only [r_mul, r_add, r_div, one_real]

section block
variable {n : ℕ} (D0 mu : ℝ) (D w : Fin n → ℝ)

/-- zone of the block at residual `(j0, jar)` -/
noncomputable def blkZone (j0 : ℝ) (jar : Fin n → ℝ) : Zone := ellZone mu (j0 * mu) (TT w jar)

/-- cost of the block (sum of the increments the code adds to `s`) in closed form -/
noncomputable def blkCost (j0 : ℝ) (jar : Fin n → ℝ) : ℝ :=
  match blkZone mu w j0 jar with
  | Zone.top => 0
  | Zone.bottom => 1 / 2 * D0 * j0 * j0 + ∑ i, 1 / 2 * D i * jar i * jar i
  | Zone.middle =>
    1 / 2 * ellDm D0 mu * (j0 * mu - mu * TT w jar) * (j0 * mu - mu * TT w jar)

/-- normal force of the block in closed form -/
noncomputable def blkForceN (j0 : ℝ) (jar : Fin n → ℝ) : ℝ :=
  match blkZone mu w j0 jar with
  | Zone.top => 0
  | Zone.bottom => -D0 * j0
  | Zone.middle => -ellDm D0 mu * (j0 * mu - mu * TT w jar) * mu

/-- tangential forces of the block in closed form -/
noncomputable def blkForceT (j0 : ℝ) (jar : Fin n → ℝ) (i : Fin n) : ℝ :=
  match blkZone mu w j0 jar with
  | Zone.top => 0
  | Zone.bottom => -D i * jar i
  | Zone.middle => -(blkForceN D0 mu w j0 jar) / TT w jar * (jar i * w i) * w i

theorem ellBlock_terms_sum (j0 : ℝ) (jar : Fin n → ℝ) :
    ((ellBlock D0 j0 mu (tsOf D w jar)).terms).sum = blkCost D0 mu D w j0 jar := by
  unfold ellBlock blkCost blkZone
  simp only [norm_tsOf, r_mul, r_sub, r_neg, half_real]
  cases ellZone mu (j0 * mu) (TT w jar) with
  | top => simp
  | bottom =>
    simp only [List.sum_cons, tsOf, List.map_ofFn, List.sum_ofFn]
    rfl
  | middle => simp

theorem ellBlock_force (j0 : ℝ) (jar : Fin n → ℝ) :
    (ellBlock D0 j0 mu (tsOf D w jar)).force =
      blkForceN D0 mu w j0 jar :: List.ofFn (blkForceT D0 mu D w j0 jar) := by
  unfold ellBlock blkForceT blkForceN blkZone
  simp only [norm_tsOf, r_mul, r_sub, r_neg, r_div, half_real, zero_real, midForceN, midForceT]
  cases ellZone mu (j0 * mu) (TT w jar) with
  | top => simp only [tsOf, List.map_ofFn]; rfl
  | bottom => simp only [tsOf, List.map_ofFn]; rfl
  | middle => simp only [tsOf, List.map_ofFn]; rfl

end block


/-! ### the one-sided quadratic `q1 t = ½ min(t,0)²` and its derivative -/
noncomputable def q1 (t : ℝ) : ℝ := if 0 ≤ t then 0 else 1 / 2 * t * t
noncomputable def q1' (t : ℝ) : ℝ := if 0 ≤ t then 0 else t

theorem q1_nonneg (t : ℝ) : 0 ≤ q1 t := by
  unfold q1; split_ifs
  · exact le_rfl
  · nlinarith [mul_self_nonneg t]
theorem q1'_nonpos (t : ℝ) : q1' t ≤ 0 := by
  unfold q1'; split_ifs with h
  · exact le_rfl
  · exact (not_le.mp h).le
theorem q1_lower (x z : ℝ) : q1 z + q1' z * (x - z) ≤ q1 x := by
  unfold q1 q1'
  split_ifs with h1 h2 h2 <;> try push Not at *
  all_goals nlinarith [sq_nonneg (x - z), sq_nonneg x, sq_nonneg z]
theorem q1_upper (x z : ℝ) : q1 x ≤ q1 z + q1' z * (x - z) + 1 / 2 * (x - z) ^ 2 := by
  unfold q1 q1'
  split_ifs with h1 h2 h2 <;> try push Not at *
  all_goals nlinarith [sq_nonneg (x - z), sq_nonneg x, sq_nonneg z]
theorem q1'_eq_min (t : ℝ) : q1' t = min t 0 := by
  unfold q1'; split_ifs with h
  · exact (min_eq_right h).symm
  · exact (min_eq_left (not_le.mp h).le).symm

section block2
variable {n : ℕ} {D0 mu : ℝ} {D w : Fin n → ℝ}

/-- `β`: the tangential gradient of the cost is `Dm (1+mu²) β U` -/
noncomputable def blkBeta (mu : ℝ) (w : Fin n → ℝ) (j0 : ℝ) (jar : Fin n → ℝ) : ℝ :=
  match blkZone mu w j0 jar with
  | Zone.top => 0
  | Zone.bottom => 1
  | Zone.middle => -mu * (j0 * mu - mu * TT w jar) / ((1 + mu * mu) * TT w jar)

theorem blkZone_eq (hmu : 0 < mu) (j0 : ℝ) (jar : Fin n → ℝ) :
    blkZone mu w j0 jar =
      if 0 ≤ j0 * mu - mu * TT w jar then Zone.top
      else if mu * (j0 * mu) + TT w jar ≤ 0 then Zone.bottom else Zone.middle :=
  ellZone_of_nonneg hmu (TT_nonneg w jar)

theorem rel_sum (hrel : ∀ i, D i * (mu * mu) = D0 * (w i * w i)) (jar : Fin n → ℝ) :
    (∑ i, 1 / 2 * D i * jar i * jar i) * (mu * mu) = 1 / 2 * D0 * SS w jar := by
  unfold SS
  rw [Finset.sum_mul, Finset.mul_sum]
  refine Finset.sum_congr rfl fun i _ => ?_
  have := hrel i
  calc 1 / 2 * D i * jar i * jar i * (mu * mu) = 1 / 2 * (D i * (mu * mu)) * jar i * jar i := by ring
    _ = 1 / 2 * D0 * (jar i * w i) ^ 2 := by rw [this]; ring

theorem q1_of_nonneg {t : ℝ} (h : 0 ≤ t) : q1 t = 0 := by unfold q1; rw [if_pos h]
theorem q1_of_nonpos {t : ℝ} (h : t ≤ 0) : q1 t = 1 / 2 * t * t := by
  unfold q1; split_ifs with h0
  · have : t = 0 := le_antisymm h h0
    subst this; ring
  · rfl
theorem q1'_of_nonneg {t : ℝ} (h : 0 ≤ t) : q1' t = 0 := by unfold q1'; rw [if_pos h]
theorem q1'_of_nonpos {t : ℝ} (h : t ≤ 0) : q1' t = t := by
  unfold q1'; split_ifs with h0
  · exact (le_antisymm h h0).symm
  · rfl

/-- the three zones in terms of `s = N − mu T`, `q = mu N + T` -/
theorem blkZone_cases (hmu : 0 < mu) (j0 : ℝ) (jar : Fin n → ℝ) :
    (blkZone mu w j0 jar = Zone.top ∧ 0 ≤ j0 * mu - mu * TT w jar ∧ 0 ≤ mu * (j0 * mu) + TT w jar) ∨
    (blkZone mu w j0 jar = Zone.bottom ∧ j0 * mu - mu * TT w jar < 0 ∧ mu * (j0 * mu) + TT w jar ≤ 0) ∨
    (blkZone mu w j0 jar = Zone.middle ∧ j0 * mu - mu * TT w jar < 0 ∧ 0 < mu * (j0 * mu) + TT w jar) := by
  have hT := TT_nonneg w jar
  rw [blkZone_eq hmu]
  by_cases h1 : 0 ≤ j0 * mu - mu * TT w jar
  · left
    refine ⟨if_pos h1, h1, ?_⟩
    have : 0 ≤ mu * TT w jar := mul_nonneg hmu.le hT
    nlinarith
  · right
    by_cases h2 : mu * (j0 * mu) + TT w jar ≤ 0
    · left; exact ⟨by rw [if_neg h1, if_pos h2], not_le.mp h1, h2⟩
    · right; exact ⟨by rw [if_neg h1, if_neg h2], not_le.mp h1, not_le.mp h2⟩

/-- under the impedance relation the block cost is `Dm (q1(N − mu T) + q1(mu N + T))` -/
theorem blkCost_eq (hmu : 0 < mu) (hrel : ∀ i, D i * (mu * mu) = D0 * (w i * w i))
    (j0 : ℝ) (jar : Fin n → ℝ) :
    blkCost D0 mu D w j0 jar =
      ellDm D0 mu * (q1 (j0 * mu - mu * TT w jar) + q1 (mu * (j0 * mu) + TT w jar)) := by
  have hTT := TT_sq w jar
  have hm : 0 < mu * mu := mul_pos hmu hmu
  unfold blkCost
  rcases blkZone_cases (w := w) hmu j0 jar with ⟨hz, h1, h2⟩ | ⟨hz, h1, h2⟩ | ⟨hz, h1, h2⟩
  · rw [hz, q1_of_nonneg h1, q1_of_nonneg h2]; simp
  · rw [hz, q1_of_nonpos h1.le, q1_of_nonpos h2, ellDm_real]
    have hs := rel_sum hrel jar
    have hne : mu * mu ≠ 0 := hm.ne'
    have hne2 : (1 + mu * mu) ≠ 0 := by positivity
    have e : (∑ i, 1 / 2 * D i * jar i * jar i) = 1 / 2 * D0 * SS w jar / (mu * mu) := by
      rw [eq_div_iff hne]; exact hs
    simp only []
    rw [e, ← hTT]
    field_simp
    ring
  · rw [hz, q1_of_nonpos h1.le, q1_of_nonneg h2.le]
    simp only []
    ring


theorem blkForceN_eq (hmu : 0 < mu) (j0 : ℝ) (jar : Fin n → ℝ) :
    blkForceN D0 mu w j0 jar =
      -(ellDm D0 mu * mu * (q1' (j0 * mu - mu * TT w jar) + mu * q1' (mu * (j0 * mu) + TT w jar))) := by
  unfold blkForceN
  rcases blkZone_cases (w := w) hmu j0 jar with ⟨hz, h1, h2⟩ | ⟨hz, h1, h2⟩ | ⟨hz, h1, h2⟩
  · rw [hz, q1'_of_nonneg h1, q1'_of_nonneg h2]; simp
  · rw [hz, q1'_of_nonpos h1.le, q1'_of_nonpos h2, ellDm_real]
    have hne : mu ≠ 0 := hmu.ne'
    have hne2 : (1 + mu * mu) ≠ 0 := by positivity
    simp only []
    field_simp
    ring
  · rw [hz, q1'_of_nonpos h1.le, q1'_of_nonneg h2.le]
    simp only []
    ring

theorem blkBeta_nonneg (hmu : 0 < mu) (j0 : ℝ) (jar : Fin n → ℝ) : 0 ≤ blkBeta mu w j0 jar := by
  unfold blkBeta
  have hT := TT_nonneg w jar
  rcases blkZone_cases (w := w) hmu j0 jar with ⟨hz, h1, h2⟩ | ⟨hz, h1, h2⟩ | ⟨hz, h1, h2⟩
  · rw [hz]
  · rw [hz]; exact zero_le_one
  · rw [hz]
    simp only []
    apply div_nonneg
    · nlinarith
    · positivity

theorem blkBeta_le_one (hmu : 0 < mu) (j0 : ℝ) (jar : Fin n → ℝ) : blkBeta mu w j0 jar ≤ 1 := by
  unfold blkBeta
  have hT := TT_nonneg w jar
  rcases blkZone_cases (w := w) hmu j0 jar with ⟨hz, h1, h2⟩ | ⟨hz, h1, h2⟩ | ⟨hz, h1, h2⟩
  · rw [hz]; exact zero_le_one
  · rw [hz]
  · rw [hz]
    simp only []
    have hTpos : 0 < TT w jar := by
      rcases hT.eq_or_lt with h | h
      · exfalso; rw [← h] at h1 h2; nlinarith
      · exact h
    rw [div_le_one (by positivity)]
    nlinarith

/-- `β T (1+mu²) = −mu q1'(s) + q1'(q)` -/
theorem blkBeta_mul_T (hmu : 0 < mu) (j0 : ℝ) (jar : Fin n → ℝ) :
    blkBeta mu w j0 jar * TT w jar * (1 + mu * mu) =
      -mu * q1' (j0 * mu - mu * TT w jar) + q1' (mu * (j0 * mu) + TT w jar) := by
  unfold blkBeta
  have hT := TT_nonneg w jar
  rcases blkZone_cases (w := w) hmu j0 jar with ⟨hz, h1, h2⟩ | ⟨hz, h1, h2⟩ | ⟨hz, h1, h2⟩
  · rw [hz, q1'_of_nonneg h1, q1'_of_nonneg h2]; simp
  · rw [hz, q1'_of_nonpos h1.le, q1'_of_nonpos h2]; simp only []; ring
  · rw [hz, q1'_of_nonpos h1.le, q1'_of_nonneg h2.le]
    simp only []
    have hTpos : 0 < TT w jar := by
      rcases hT.eq_or_lt with h | h
      · exfalso; rw [← h] at h1 h2; nlinarith
      · exact h
    have hne : TT w jar ≠ 0 := hTpos.ne'
    have hne2 : (1 + mu * mu) ≠ 0 := by positivity
    field_simp
    ring

theorem blkForceT_eq (hmu : 0 < mu) (hrel : ∀ i, D i * (mu * mu) = D0 * (w i * w i))
    (j0 : ℝ) (jar : Fin n → ℝ) (i : Fin n) :
    blkForceT D0 mu D w j0 jar i =
      -(ellDm D0 mu * (1 + mu * mu) * blkBeta mu w j0 jar * (jar i * w i) * w i) := by
  unfold blkForceT blkBeta blkForceN
  have hT := TT_nonneg w jar
  have hne : mu ≠ 0 := hmu.ne'
  have hne2 : (1 + mu * mu) ≠ 0 := by positivity
  rcases blkZone_cases (w := w) hmu j0 jar with ⟨hz, h1, h2⟩ | ⟨hz, h1, h2⟩ | ⟨hz, h1, h2⟩
  · rw [hz]; simp
  · rw [hz, ellDm_real]
    simp only []
    have := hrel i
    have e : D i = D0 * (w i * w i) / (mu * mu) := by
      rw [eq_div_iff (mul_ne_zero hne hne)]; exact this
    rw [e]
    field_simp
  · rw [hz]
    simp only []
    have hTpos : 0 < TT w jar := by
      rcases hT.eq_or_lt with h | h
      · exfalso; rw [← h] at h1 h2; nlinarith
      · exact h
    have hne3 : TT w jar ≠ 0 := hTpos.ne'
    field_simp


/-- `⟨U_z, U_x⟩` -/
def pp (w x z : Fin n → ℝ) : ℝ := ∑ i, (z i * w i) * (x i * w i)

theorem pp_le (w x z : Fin n → ℝ) : pp w x z ≤ TT w z * TT w x := by
  have h := Finset.sum_mul_sq_le_sq_mul_sq Finset.univ (fun i => z i * w i) (fun i => x i * w i)
  have h0 : 0 ≤ TT w z * TT w x := mul_nonneg (TT_nonneg w z) (TT_nonneg w x)
  have h1 : pp w x z ^ 2 ≤ (TT w z * TT w x) ^ 2 := by
    have e : (TT w z * TT w x) ^ 2 = SS w z * SS w x := by
      rw [mul_pow, sq, sq, TT_sq, TT_sq]
    rw [e]; exact h
  exact (abs_le_of_sq_le_sq' h1 h0).2

theorem ellDm_nonneg (hD0 : 0 ≤ D0) (mu : ℝ) : 0 ≤ ellDm D0 mu := by
  rw [ellDm_real]; apply div_nonneg hD0
  have := mul_self_nonneg mu
  nlinarith

/-- the linear part of the tangential forces: `Σ (−f_i(z)) (x_i − z_i) = Dm (1+mu²) β (⟨U_z,U_x⟩ − T_z²)` -/
theorem sum_forceT (hmu : 0 < mu) (hrel : ∀ i, D i * (mu * mu) = D0 * (w i * w i))
    (j0z : ℝ) (jx jz : Fin n → ℝ) :
    ∑ i, (-(blkForceT D0 mu D w j0z jz i)) * (jx i - jz i) =
      ellDm D0 mu * (1 + mu * mu) * blkBeta mu w j0z jz * (pp w jx jz - SS w jz) := by
  unfold pp SS
  rw [← Finset.sum_sub_distrib, Finset.mul_sum]
  refine Finset.sum_congr rfl fun i _ => ?_
  rw [blkForceT_eq hmu hrel]
  ring

/-- gradient (supporting hyperplane) inequality of the block cost: the first-order model built from
    the returned forces at `z` never exceeds the cost -/
theorem blk_lower (hmu : 0 < mu) (hD0 : 0 ≤ D0) (hrel : ∀ i, D i * (mu * mu) = D0 * (w i * w i))
    (j0x : ℝ) (jx : Fin n → ℝ) (j0z : ℝ) (jz : Fin n → ℝ) :
    blkCost D0 mu D w j0z jz + (-(blkForceN D0 mu w j0z jz)) * (j0x - j0z) +
      ∑ i, (-(blkForceT D0 mu D w j0z jz i)) * (jx i - jz i) ≤ blkCost D0 mu D w j0x jx := by
  rw [sum_forceT hmu hrel, blkCost_eq hmu hrel, blkCost_eq hmu hrel, blkForceN_eq hmu]
  have hDm := ellDm_nonneg hD0 mu
  have hG := blkBeta_mul_T (w := w) hmu j0z jz
  have hb0 := blkBeta_nonneg (w := w) hmu j0z jz
  have hp := pp_le w jx jz
  have hTz := TT_sq w jz
  have hL1 := q1_lower (j0x * mu - mu * TT w jx) (j0z * mu - mu * TT w jz)
  have hL2 := q1_lower (mu * (j0x * mu) + TT w jx) (mu * (j0z * mu) + TT w jz)
  set Dm := ellDm D0 mu
  set β := blkBeta mu w j0z jz
  set Tx := TT w jx
  set Tz := TT w jz
  set p := pp w jx jz
  set a := q1' (j0z * mu - mu * Tz)
  set b := q1' (mu * (j0z * mu) + Tz)
  have hm : 0 < 1 + mu * mu := by positivity
  have hneg : (1 + mu * mu) * β * (p - Tz * Tx) ≤ 0 := by
    have : 0 ≤ (1 + mu * mu) * β := mul_nonneg hm.le hb0
    nlinarith
  have key : q1 (j0z * mu - mu * Tz) + q1 (mu * (j0z * mu) + Tz) + mu * (a + mu * b) * (j0x - j0z) +
      (1 + mu * mu) * β * (p - SS w jz) ≤
      q1 (j0x * mu - mu * Tx) + q1 (mu * (j0x * mu) + Tx) := by
    have e : (1 + mu * mu) * β * (p - SS w jz) =
        (1 + mu * mu) * β * (p - Tz * Tx) + (-mu * a + b) * (Tx - Tz) := by
      rw [← hTz]; linear_combination (Tx - Tz) * hG
    rw [e]
    nlinarith
  calc Dm * (q1 (j0z * mu - mu * Tz) + q1 (mu * (j0z * mu) + Tz)) +
        -(-(Dm * mu * (a + mu * b))) * (j0x - j0z) + Dm * (1 + mu * mu) * β * (p - SS w jz)
      = Dm * (q1 (j0z * mu - mu * Tz) + q1 (mu * (j0z * mu) + Tz) + mu * (a + mu * b) * (j0x - j0z) +
          (1 + mu * mu) * β * (p - SS w jz)) := by ring
    _ ≤ Dm * (q1 (j0x * mu - mu * Tx) + q1 (mu * (j0x * mu) + Tx)) :=
        mul_le_mul_of_nonneg_left key hDm


/-- quadratic upper bound of the block cost around `z` (the gradient is Lipschitz) -/
theorem blk_upper (hmu : 0 < mu) (hD0 : 0 ≤ D0) (hrel : ∀ i, D i * (mu * mu) = D0 * (w i * w i))
    (j0x : ℝ) (jx : Fin n → ℝ) (j0z : ℝ) (jz : Fin n → ℝ) :
    blkCost D0 mu D w j0x jx ≤
      blkCost D0 mu D w j0z jz + (-(blkForceN D0 mu w j0z jz)) * (j0x - j0z) +
      ∑ i, (-(blkForceT D0 mu D w j0z jz i)) * (jx i - jz i) +
      1 / 2 * ellDm D0 mu * (1 + mu * mu) *
        ((j0x * mu - j0z * mu) ^ 2 + (SS w jx - 2 * pp w jx jz + SS w jz)) := by
  rw [sum_forceT hmu hrel, blkCost_eq hmu hrel, blkCost_eq hmu hrel, blkForceN_eq hmu]
  have hDm := ellDm_nonneg hD0 mu
  have hG := blkBeta_mul_T (w := w) hmu j0z jz
  have hb1 := blkBeta_le_one (w := w) hmu j0z jz
  have hp := pp_le w jx jz
  have hTz := TT_sq w jz
  have hTx := TT_sq w jx
  have hU1 := q1_upper (j0x * mu - mu * TT w jx) (j0z * mu - mu * TT w jz)
  have hU2 := q1_upper (mu * (j0x * mu) + TT w jx) (mu * (j0z * mu) + TT w jz)
  set Dm := ellDm D0 mu
  set β := blkBeta mu w j0z jz
  set Tx := TT w jx
  set Tz := TT w jz
  set p := pp w jx jz
  set a := q1' (j0z * mu - mu * Tz)
  set b := q1' (mu * (j0z * mu) + Tz)
  have hm : 0 < 1 + mu * mu := by positivity
  have hpos : 0 ≤ (1 + mu * mu) * (1 - β) * (Tz * Tx - p) := by
    have : 0 ≤ (1 + mu * mu) * (1 - β) := mul_nonneg hm.le (by linarith)
    nlinarith
  have key : q1 (j0x * mu - mu * Tx) + q1 (mu * (j0x * mu) + Tx) ≤
      q1 (j0z * mu - mu * Tz) + q1 (mu * (j0z * mu) + Tz) + mu * (a + mu * b) * (j0x - j0z) +
      (1 + mu * mu) * β * (p - SS w jz) +
      1 / 2 * (1 + mu * mu) * ((j0x * mu - j0z * mu) ^ 2 + (SS w jx - 2 * p + SS w jz)) := by
    have e : (1 + mu * mu) * β * (p - SS w jz) =
        (1 + mu * mu) * β * (p - Tz * Tx) + (-mu * a + b) * (Tx - Tz) := by
      rw [← hTz]; linear_combination (Tx - Tz) * hG
    rw [e, ← hTz, ← hTx]
    nlinarith
  calc Dm * (q1 (j0x * mu - mu * Tx) + q1 (mu * (j0x * mu) + Tx))
      ≤ Dm * (q1 (j0z * mu - mu * Tz) + q1 (mu * (j0z * mu) + Tz) + mu * (a + mu * b) * (j0x - j0z) +
          (1 + mu * mu) * β * (p - SS w jz) +
          1 / 2 * (1 + mu * mu) * ((j0x * mu - j0z * mu) ^ 2 + (SS w jx - 2 * p + SS w jz))) :=
        mul_le_mul_of_nonneg_left key hDm
    _ = _ := by ring

end block2


end MjProof.Constraint
