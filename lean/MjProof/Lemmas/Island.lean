import MjProof.Model.Island
/-
Lemmas for C17 (union-find part): forest invariant of `parent`, the pure root function `rootOf`,
effect of compress / activate / link / merge on `rootOf`, refinement of merge histories to the
equivalence closure `Conn`, and the numbering computed by `dsuAssign`.
-/
namespace MjProof.Island

/-- `parent[i]`, with -1 outside the array (proof-side view only; the model never reads out of range). -/
def par (p : Array Int) (i : Nat) : Int := p.getD i (-1)

theorem par_eq {p : Array Int} {i : Nat} (h : i < p.size) : par p i = p[i] := by
  simp [par, Array.getD, h]

theorem par_ge {p : Array Int} {i : Nat} (h : ¬ i < p.size) : par p i = -1 := by
  simp [par, Array.getD, h]

theorem par_set {p : Array Int} {i : Nat} (h : i < p.size) (v : Int) (j : Nat) :
    par (p.set i v) j = if j = i then v else par p j := by
  by_cases hj : j < p.size
  · rw [par_eq (by simpa using hj), par_eq hj, Array.getElem_set]
    by_cases e : i = j <;> simp [e, eq_comm]
  · rw [par_ge (by simpa using hj), par_ge hj]
    have : j ≠ i := by omega
    simp [this]

/-- `parent` is a forest of descending pointers whose active nodes only point to active nodes. -/
def Inv (p : Array Int) : Prop :=
  ∀ i, i < p.size → par p i = -1 ∨ (0 ≤ par p i ∧ par p i ≤ i ∧ par p (par p i).toNat ≠ -1)

/-- Pure root function: follow descending pointers; inactive trees and roots are fixed points. -/
def rootOf (p : Array Int) (t : Nat) : Nat :=
  if _h : 0 ≤ par p t ∧ par p t < t then rootOf p (par p t).toNat else t
termination_by t
decreasing_by omega

theorem rootOf_le (p : Array Int) (t : Nat) : rootOf p t ≤ t := by
  induction t using Nat.strongRecOn with
  | ind t ih =>
    rw [rootOf]
    split
    · have := ih (par p t).toNat (by omega); omega
    · omega

theorem rootOf_of_not_desc {p : Array Int} {t : Nat} (h : ¬ (0 ≤ par p t ∧ par p t < t)) : rootOf p t = t := by
  rw [rootOf]; simp [h]

theorem rootOf_inactive {p : Array Int} {t : Nat} (h : par p t = -1) : rootOf p t = t :=
  rootOf_of_not_desc (by omega)

theorem rootOf_self {p : Array Int} {t : Nat} (h : par p t = t) : rootOf p t = t :=
  rootOf_of_not_desc (by omega)

theorem rootOf_desc {p : Array Int} {t : Nat} (h : 0 ≤ par p t ∧ par p t < t) :
    rootOf p t = rootOf p (par p t).toNat := by
  rw [rootOf]; simp [h]

theorem Inv.lt_size {p : Array Int} (_hI : Inv p) {t : Nat} (ht : par p t ≠ -1) : t < p.size := by
  by_cases h : t < p.size
  · exact h
  · exact absurd (par_ge h) ht

/-- step to the parent does not change the root (active nodes) -/
theorem rootOf_par {p : Array Int} (hI : Inv p) {t : Nat} (ht : par p t ≠ -1) :
    rootOf p (par p t).toNat = rootOf p t := by
  have hs := hI.lt_size ht
  rcases hI t hs with h | ⟨h0, h1, _⟩
  · exact absurd h ht
  · by_cases hlt : par p t < t
    · rw [rootOf_desc ⟨h0, hlt⟩]
    · have : (par p t).toNat = t := by omega
      rw [this]

theorem par_active_of_active {p : Array Int} (hI : Inv p) {t : Nat} (ht : par p t ≠ -1) :
    par p (par p t).toNat ≠ -1 := by
  rcases hI t (hI.lt_size ht) with h | ⟨_, _, h⟩
  · exact absurd h ht
  · exact h

/-- the root of an active tree is an active self-loop -/
theorem par_rootOf {p : Array Int} (hI : Inv p) {t : Nat} (ht : par p t ≠ -1) :
    par p (rootOf p t) = rootOf p t := by
  induction t using Nat.strongRecOn with
  | ind t ih =>
    have hs := hI.lt_size ht
    rcases hI t hs with h | ⟨h0, h1, h2⟩
    · exact absurd h ht
    · by_cases hlt : par p t < t
      · rw [rootOf_desc ⟨h0, hlt⟩]
        exact ih _ (by omega) h2
      · rw [rootOf_of_not_desc (by omega)]; omega

theorem rootOf_idem {p : Array Int} (hI : Inv p) (t : Nat) : rootOf p (rootOf p t) = rootOf p t := by
  by_cases ht : par p t = -1
  · rw [rootOf_inactive ht, rootOf_inactive ht]
  · exact rootOf_self (par_rootOf hI ht)

theorem rootOf_active {p : Array Int} (hI : Inv p) {t : Nat} (ht : par p t ≠ -1) : par p (rootOf p t) ≠ -1 := by
  rw [par_rootOf hI ht]; omega

theorem rootOf_lt_size {p : Array Int} {t : Nat} (ht : t < p.size) : rootOf p t < p.size :=
  Nat.lt_of_le_of_lt (rootOf_le p t) ht

/-- The first loop of `mj_dsuRoot` terminates inside the array and returns `rootOf`. -/
theorem findRoot_eq {p : Array Int} (hI : Inv p) {t : Nat} (ht : par p t ≠ -1) :
    findRoot p t = some (rootOf p t) := by
  induction t using Nat.strongRecOn with
  | ind t ih =>
    have hs := hI.lt_size ht
    rw [findRoot]
    simp only [hs, ↓reduceDIte]
    rw [← par_eq hs]
    rcases hI t hs with h | ⟨h0, h1, h2⟩
    · exact absurd h ht
    · by_cases he : par p t = t
      · simp [he, rootOf_self he]
      · have hlt : par p t < t := by omega
        simp only [he, ↓reduceIte, h0, hlt, and_self, ↓reduceDIte]
        rw [ih _ (by omega) h2, rootOf_desc ⟨h0, hlt⟩]


/-! ### path compression -/

/-- `p'` arises from `p` by redirecting some active nodes to their root (same size). -/
def Compr (p p' : Array Int) : Prop :=
  p'.size = p.size ∧ ∀ u, par p' u = par p u ∨ (par p u ≠ -1 ∧ par p' u = rootOf p u)

theorem Compr.refl (p : Array Int) : Compr p p := ⟨rfl, fun _ => Or.inl rfl⟩

theorem Compr.active {p p' : Array Int} (hc : Compr p p') (u : Nat) : par p' u = -1 ↔ par p u = -1 := by
  rcases hc.2 u with h | ⟨h1, h2⟩
  · rw [h]
  · constructor
    · intro h; rw [h2] at h; omega
    · intro h; exact absurd h h1

theorem Compr.rootOf_eq {p p' : Array Int} (hI : Inv p) (hc : Compr p p') (u : Nat) : rootOf p' u = rootOf p u := by
  induction u using Nat.strongRecOn with
  | ind u ih =>
    rcases hc.2 u with h | ⟨h1, h2⟩
    · by_cases hd : 0 ≤ par p u ∧ par p u < u
      · rw [rootOf_desc hd, rootOf_desc (by rw [h]; exact hd), h]
        exact ih _ (by omega)
      · rw [rootOf_of_not_desc hd, rootOf_of_not_desc (by rw [h]; exact hd)]
    · have hle := rootOf_le p u
      by_cases hlt : rootOf p u < u
      · rw [rootOf_desc (by rw [h2]; omega), h2]
        simp only [Int.toNat_natCast]
        rw [ih _ hlt, rootOf_idem hI]
      · have : rootOf p u = u := by omega
        rw [this] at h2 ⊢
        exact rootOf_self h2

theorem Compr.inv {p p' : Array Int} (hI : Inv p) (hc : Compr p p') : Inv p' := by
  intro i hi
  rw [hc.1] at hi
  rcases hc.2 i with h | ⟨h1, h2⟩
  · rcases hI i hi with h' | ⟨h0, hle, hact⟩
    · left; rw [h, h']
    · right; rw [h]
      refine ⟨h0, hle, ?_⟩
      intro hneg; exact hact ((hc.active _).mp hneg)
  · right
    rw [h2]
    refine ⟨by omega, by have := rootOf_le p i; omega, ?_⟩
    simp only [Int.toNat_natCast]
    intro hneg
    exact rootOf_active hI h1 ((hc.active _).mp hneg)

theorem Compr.trans {p p1 p2 : Array Int} (hI : Inv p) (h1 : Compr p p1) (h2 : Compr p1 p2) : Compr p p2 := by
  refine ⟨h2.1.trans h1.1, fun u => ?_⟩
  rcases h2.2 u with h | ⟨ha, hb⟩
  · rw [h]; exact h1.2 u
  · right
    refine ⟨fun hneg => ha ((h1.active u).mpr hneg), ?_⟩
    rw [hb, h1.rootOf_eq hI]

theorem compr_set_root {p : Array Int} {t : Nat} (hs : t < p.size) (ht : par p t ≠ -1) :
    Compr p (p.set t (rootOf p t : Int)) := by
  refine ⟨by simp, fun u => ?_⟩
  rw [par_set hs]
  by_cases e : u = t
  · subst e; right; simp [ht]
  · left; simp [e]

/-- The second loop of `mj_dsuRoot` terminates inside the array; it only redirects nodes to their root. -/
theorem compress_spec {p : Array Int} (hI : Inv p) {t : Nat} (ht : par p t ≠ -1) :
    ∃ p', compress p t (rootOf p t) = some p' ∧ Compr p p' := by
  induction t using Nat.strongRecOn generalizing p with
  | ind t ih =>
    have hs := hI.lt_size ht
    rw [compress]
    simp only [hs, ↓reduceDIte]
    rcases hI t hs with h | ⟨h0, h1, h2⟩
    · exact absurd h ht
    · rw [par_eq hs] at h0 h1
      by_cases he : p[t] = (t : Int)
      · simp only [he, ↓reduceIte]
        exact ⟨p, rfl, Compr.refl p⟩
      · have hlt : p[t] < (t : Int) := by omega
        simp only [he, ↓reduceIte, h0, hlt, and_self, ↓reduceDIte]
        have hc1 := compr_set_root hs ht
        have hI1 := hc1.inv hI
        have hq : par (p.set t (rootOf p t : Int)) p[t].toNat ≠ -1 := by
          intro hneg
          rw [par_eq hs] at h2
          exact h2 ((hc1.active _).mp hneg)
        have hr : rootOf (p.set t (rootOf p t : Int)) p[t].toNat = rootOf p t := by
          rw [hc1.rootOf_eq hI, ← par_eq hs, rootOf_par hI ht]
        obtain ⟨p', hp', hc2⟩ := ih p[t].toNat (by omega) hI1 hq
        rw [hr] at hp'
        exact ⟨p', hp', hc1.trans hI hc2⟩

/-- `mj_dsuRoot` on an active tree: terminates, returns the root, only compresses. -/
theorem dsuRoot_spec {p : Array Int} (hI : Inv p) {t : Nat} (ht : par p t ≠ -1) :
    ∃ p', dsuRoot p t = some (rootOf p t, p') ∧ Compr p p' := by
  obtain ⟨p', h1, h2⟩ := compress_spec hI ht
  refine ⟨p', ?_, h2⟩
  simp [dsuRoot, findRoot_eq hI ht, h1]


/-! ### activate, link, merge -/

theorem activate_spec {p : Array Int} (hI : Inv p) {t : Nat} (ht : t < p.size) :
    ∃ p', activate p t = some p' ∧ p'.size = p.size ∧ Inv p' ∧ (∀ u, rootOf p' u = rootOf p u) ∧
      (∀ u, par p' u ≠ -1 ↔ (par p u ≠ -1 ∨ u = t)) := by
  rw [activate]
  simp only [ht, ↓reduceDIte]
  rw [← par_eq ht]
  by_cases ha : par p t = -1
  · simp only [ha, ↓reduceIte]
    refine ⟨_, rfl, by simp, ?_, ?_, ?_⟩
    · intro i hi
      rw [Array.size_set] at hi
      rw [par_set ht]
      by_cases e : i = t
      · subst e; right
        simp only [↓reduceIte, Int.toNat_natCast]
        rw [par_set ht]; simp
      · simp only [e, ↓reduceIte]
        rcases hI i hi with h | ⟨h0, h1, h2⟩
        · left; exact h
        · right; refine ⟨h0, h1, ?_⟩
          rw [par_set ht]; split
          · omega
          · exact h2
    · intro u
      induction u using Nat.strongRecOn with
      | ind u ih =>
        by_cases e : u = t
        · subst e
          rw [rootOf_self (by rw [par_set ht]; simp), rootOf_inactive ha]
        · have hp : par (p.set t (t : Int)) u = par p u := by rw [par_set ht]; simp [e]
          by_cases hd : 0 ≤ par p u ∧ par p u < u
          · rw [rootOf_desc hd, rootOf_desc (by rw [hp]; exact hd), hp]
            exact ih _ (by omega)
          · rw [rootOf_of_not_desc hd, rootOf_of_not_desc (by rw [hp]; exact hd)]
    · intro u
      rw [par_set ht]
      by_cases e : u = t
      · subst e; simp
      · simp [e]
  · simp only [ha, ↓reduceIte]
    refine ⟨p, rfl, rfl, hI, fun _ => rfl, fun u => ?_⟩
    constructor
    · intro h; exact Or.inl h
    · rintro (h | h)
      · exact h
      · subst h; exact ha

theorem link_spec {p : Array Int} (hI : Inv p) {r1 r2 : Nat} (hlt : r1 < r2) (h2s : r2 < p.size)
    (h1 : par p r1 = r1) (h2 : par p r2 = r2) :
    Inv (p.set r2 (r1 : Int)) ∧
    (∀ u, rootOf (p.set r2 (r1 : Int)) u = if rootOf p u = r2 then r1 else rootOf p u) ∧
    (∀ u, par (p.set r2 (r1 : Int)) u = -1 ↔ par p u = -1) := by
  have hact : ∀ u, par (p.set r2 (r1 : Int)) u = -1 ↔ par p u = -1 := by
    intro u
    rw [par_set h2s]
    by_cases e : u = r2
    · subst e; simp only [↓reduceIte]; omega
    · simp [e]
  refine ⟨?_, ?_, hact⟩
  · intro i hi
    rw [Array.size_set] at hi
    by_cases e : i = r2
    · subst e; right
      rw [par_set h2s]
      simp only [↓reduceIte, Int.toNat_natCast]
      refine ⟨by omega, by omega, ?_⟩
      intro hneg; have := (hact _).mp hneg; omega
    · rcases hI i hi with h | ⟨h0, hle, hh⟩
      · left; rw [par_set h2s]; simp [e, h]
      · right
        have hp : par (p.set r2 (r1 : Int)) i = par p i := by rw [par_set h2s]; simp [e]
        rw [hp]
        exact ⟨h0, hle, fun hneg => hh ((hact _).mp hneg)⟩
  · intro u
    induction u using Nat.strongRecOn with
    | ind u ih =>
      by_cases e : u = r2
      · subst e
        have hp : par (p.set u (r1 : Int)) u = r1 := by rw [par_set h2s]; simp
        rw [rootOf_desc (by rw [hp]; omega), hp]
        simp only [Int.toNat_natCast]
        have hp1 : par (p.set u (r1 : Int)) r1 = r1 := by
          rw [par_set h2s]; simp [Nat.ne_of_lt hlt, h1]
        rw [rootOf_self hp1, rootOf_self h2]; simp
      · have hp : par (p.set r2 (r1 : Int)) u = par p u := by rw [par_set h2s]; simp [e]
        by_cases hd : 0 ≤ par p u ∧ par p u < u
        · rw [rootOf_desc hd, rootOf_desc (by rw [hp]; exact hd), hp]
          exact ih _ (by omega)
        · rw [rootOf_of_not_desc hd, rootOf_of_not_desc (by rw [hp]; exact hd)]
          simp [e]

/-- Effect of one merge on the root function: the larger of the two roots is redirected to the smaller. -/
def mergedRoot (ra rb x : Nat) : Nat := if x = max ra rb then min ra rb else x

theorem mergeCore_spec {p : Array Int} (hI : Inv p) {a b : Nat} (ha : a < p.size) (hb : b < p.size) :
    ∃ p', mergeCore p a b = some p' ∧ p'.size = p.size ∧ Inv p' ∧
      (∀ u, rootOf p' u = mergedRoot (rootOf p a) (rootOf p b) (rootOf p u)) ∧
      (∀ u, par p' u ≠ -1 ↔ (par p u ≠ -1 ∨ u = a ∨ u = b)) := by
  obtain ⟨p1, e1, s1, I1, r1, a1⟩ := activate_spec hI ha
  obtain ⟨p2, e2, s2, I2, r2, a2⟩ := activate_spec I1 (show b < p1.size by omega)
  have hr : ∀ u, rootOf p2 u = rootOf p u := fun u => (r2 u).trans (r1 u)
  have hact : ∀ u, par p2 u ≠ -1 ↔ (par p u ≠ -1 ∨ u = a ∨ u = b) := by
    intro u; rw [a2, a1, or_assoc]
  have haa : par p2 a ≠ -1 := (hact a).mpr (Or.inr (Or.inl rfl))
  have hbb : par p2 b ≠ -1 := (hact b).mpr (Or.inr (Or.inr rfl))
  have has : a < p2.size := by omega
  have hbs : b < p2.size := by omega
  rw [mergeCore, e1]; simp only [e2]
  rw [Array.getElem?_eq_getElem has, Array.getElem?_eq_getElem hbs]
  simp only
  by_cases heq : p2[a] = p2[b]
  · simp only [heq, ↓reduceIte]
    refine ⟨p2, rfl, by omega, I2, ?_, hact⟩
    have : rootOf p a = rootOf p b := by
      rw [← hr a, ← hr b, ← rootOf_par I2 haa, ← rootOf_par I2 hbb, par_eq has, par_eq hbs, heq]
    intro u; rw [hr, this, mergedRoot]; simp only [Nat.max_self, Nat.min_self]
    split <;> simp_all
  · simp only [heq, ↓reduceIte]
    obtain ⟨p3, e3, c3⟩ := dsuRoot_spec I2 haa
    have I3 := c3.inv I2
    have hb3 : par p3 b ≠ -1 := fun h => hbb ((c3.active b).mp h)
    obtain ⟨p4, e4, c4⟩ := dsuRoot_spec I3 hb3
    have I4 := c4.inv I3
    have c24 := c3.trans I2 c4
    have hr4 : ∀ u, rootOf p4 u = rootOf p u := fun u => (c24.rootOf_eq I2 u).trans (hr u)
    have hact4 : ∀ u, par p4 u ≠ -1 ↔ (par p u ≠ -1 ∨ u = a ∨ u = b) := by
      intro u; rw [← hact u]; exact not_congr (c24.active u)
    have hs4 : p4.size = p.size := by rw [c24.1]; omega
    rw [e3]; simp only
    rw [c3.rootOf_eq I2 b] at e4
    rw [e4]; simp only
    have hra : par p4 (rootOf p2 a) = rootOf p2 a := by
      have := par_rootOf I4 ((hact4 a).mpr (Or.inr (Or.inl rfl)))
      rwa [hr4, ← hr a] at this
    have hrb : par p4 (rootOf p2 b) = rootOf p2 b := by
      have := par_rootOf I4 ((hact4 b).mpr (Or.inr (Or.inr rfl)))
      rwa [hr4, ← hr b] at this
    have hras : rootOf p2 a < p4.size := by have := rootOf_le p2 a; omega
    have hrbs : rootOf p2 b < p4.size := by have := rootOf_le p2 b; omega
    by_cases hlt : rootOf p2 a < rootOf p2 b
    · simp only [hlt, ↓reduceIte, hrbs, ↓reduceDIte]
      obtain ⟨I5, r5, a5⟩ := link_spec I4 hlt hrbs hra hrb
      refine ⟨_, rfl, by simp [hs4], I5, ?_, ?_⟩
      · intro u; rw [r5, hr4, ← hr a, ← hr b, mergedRoot]
        rw [Nat.max_eq_right (Nat.le_of_lt hlt), Nat.min_eq_left (Nat.le_of_lt hlt)]
      · intro u; rw [← hact4 u]; exact not_congr (a5 u)
    · simp only [hlt, ↓reduceIte]
      by_cases hgt : rootOf p2 b < rootOf p2 a
      · simp only [hgt, ↓reduceIte, hras, ↓reduceDIte]
        obtain ⟨I5, r5, a5⟩ := link_spec I4 hgt hras hrb hra
        refine ⟨_, rfl, by simp [hs4], I5, ?_, ?_⟩
        · intro u; rw [r5, hr4, ← hr a, ← hr b, mergedRoot]
          rw [Nat.max_eq_left (Nat.le_of_lt hgt), Nat.min_eq_right (Nat.le_of_lt hgt)]
        · intro u; rw [← hact4 u]; exact not_congr (a5 u)
      · simp only [hgt, ↓reduceIte]
        have heq' : rootOf p2 a = rootOf p2 b := by omega
        refine ⟨p4, rfl, hs4, I4, ?_, hact4⟩
        intro u; rw [hr4, ← hr a, ← hr b, heq', mergedRoot]
        simp only [Nat.max_self, Nat.min_self]
        split <;> simp_all


theorem mergedRoot_eq_iff (A B x y : Nat) :
    mergedRoot A B x = mergedRoot A B y ↔ x = y ∨ (x = A ∧ y = B) ∨ (x = B ∧ y = A) := by
  unfold mergedRoot
  split <;> split <;> omega

/-- valid arguments of `mj_dsuMerge` on `n` trees: both in [-1, n), not both static -/
def MergeOk (n : Nat) (m : Int × Int) : Prop :=
  -1 ≤ m.1 ∧ m.1 < (n : Int) ∧ -1 ≤ m.2 ∧ m.2 < (n : Int) ∧ ¬ (m.1 = -1 ∧ m.2 = -1)

instance (n : Nat) (m : Int × Int) : Decidable (MergeOk n m) := by unfold MergeOk; infer_instance

/-- the pair of trees a merge unites: a static endpoint (-1) is replaced by the other endpoint -/
def edgeOf (m : Int × Int) : Nat × Nat :=
  ((if m.1 = -1 then m.2 else m.1).toNat, (if m.2 = -1 then m.1 else m.2).toNat)

theorem dsuMerge_spec {p : Array Int} (hI : Inv p) {m : Int × Int} (hm : MergeOk p.size m) :
    ∃ p', dsuMerge p m.1 m.2 = .ok p' ∧ p'.size = p.size ∧ Inv p' ∧
      (∀ u, rootOf p' u = mergedRoot (rootOf p (edgeOf m).1) (rootOf p (edgeOf m).2) (rootOf p u)) ∧
      (∀ u, par p' u ≠ -1 ↔ (par p u ≠ -1 ∨ u = (edgeOf m).1 ∨ u = (edgeOf m).2)) := by
  obtain ⟨h1, h2, h3, h4, h5⟩ := hm
  have hb : (if m.2 = -1 then (if m.1 = -1 then m.2 else m.1) else m.2) = (if m.2 = -1 then m.1 else m.2) := by
    by_cases e2 : m.2 = -1 <;> by_cases e1 : m.1 = -1 <;> simp_all
  have ha0 : 0 ≤ (if m.1 = -1 then m.2 else m.1) := by split <;> omega
  have hb0 : 0 ≤ (if m.2 = -1 then m.1 else m.2) := by split <;> omega
  have has : (if m.1 = -1 then m.2 else m.1).toNat < p.size := by split <;> omega
  have hbs : (if m.2 = -1 then m.1 else m.2).toNat < p.size := by split <;> omega
  obtain ⟨p', e, rest⟩ := mergeCore_spec hI has hbs
  refine ⟨p', ?_, rest⟩
  unfold dsuMerge
  simp only [h5, ↓reduceIte, hb]
  have : ¬ ((if m.1 = -1 then m.2 else m.1) < 0 ∨ (if m.2 = -1 then m.1 else m.2) < 0) := by omega
  simp only [this, ↓reduceIte, e]

theorem dsuMerge_static (p : Array Int) : dsuMerge p (-1) (-1) = .staticError := by
  simp [dsuMerge]

/-! ### merge histories and the equivalence closure -/

/-- Equivalence closure of the edge list `E` (connectedness in the undirected graph with edges `E`). -/
inductive Conn (E : List (Nat × Nat)) : Nat → Nat → Prop
  | refl (a : Nat) : Conn E a a
  | edge {a b : Nat} : (a, b) ∈ E → Conn E a b
  | symm {a b : Nat} : Conn E a b → Conn E b a
  | trans {a b c : Nat} : Conn E a b → Conn E b c → Conn E a c

theorem Conn.mono {E E' : List (Nat × Nat)} (h : ∀ e ∈ E, e ∈ E') {a b : Nat} (c : Conn E a b) : Conn E' a b := by
  induction c with
  | refl a => exact .refl a
  | edge he => exact .edge (h _ he)
  | symm _ ih => exact .symm ih
  | trans _ _ ih1 ih2 => exact .trans ih1 ih2

theorem conn_nil {a b : Nat} : Conn [] a b ↔ a = b := by
  constructor
  · intro c
    induction c with
    | refl a => rfl
    | edge he => simp at he
    | symm _ ih => exact ih.symm
    | trans _ _ ih1 ih2 => exact ih1.trans ih2
  · rintro rfl; exact .refl _

/-- Adding one edge `(a,b)` to an equivalence closure. -/
theorem conn_snoc {E : List (Nat × Nat)} {a b u v : Nat} :
    Conn (E ++ [(a, b)]) u v ↔ Conn E u v ∨ (Conn E u a ∧ Conn E b v) ∨ (Conn E u b ∧ Conn E a v) := by
  constructor
  · intro c
    induction c with
    | refl x => exact Or.inl (.refl x)
    | edge he =>
      rcases List.mem_append.mp he with h | h
      · exact Or.inl (.edge h)
      · simp only [List.mem_singleton, Prod.mk.injEq] at h
        obtain ⟨rfl, rfl⟩ := h
        exact Or.inr (Or.inl ⟨.refl _, .refl _⟩)
    | symm _ ih =>
      rcases ih with h | ⟨h1, h2⟩ | ⟨h1, h2⟩
      · exact Or.inl h.symm
      · exact Or.inr (Or.inr ⟨h2.symm, h1.symm⟩)
      · exact Or.inr (Or.inl ⟨h2.symm, h1.symm⟩)
    | trans _ _ ih1 ih2 =>
      rcases ih1 with h | ⟨h1, h2⟩ | ⟨h1, h2⟩ <;> rcases ih2 with g | ⟨g1, g2⟩ | ⟨g1, g2⟩
      · exact Or.inl (h.trans g)
      · exact Or.inr (Or.inl ⟨h.trans g1, g2⟩)
      · exact Or.inr (Or.inr ⟨h.trans g1, g2⟩)
      · exact Or.inr (Or.inl ⟨h1, h2.trans g⟩)
      · exact Or.inl (h1.trans (g1.symm.trans (h2.symm.trans g2)))
      · exact Or.inl (h1.trans g2)
      · exact Or.inr (Or.inr ⟨h1, h2.trans g⟩)
      · exact Or.inl (h1.trans g2)
      · exact Or.inl (h1.trans (g1.symm.trans (h2.symm.trans g2)))
  · rintro (h | ⟨h1, h2⟩ | ⟨h1, h2⟩)
    · exact h.mono (fun e he => List.mem_append_left _ he)
    · exact ((h1.mono (fun e he => List.mem_append_left _ he)).trans (.edge (by simp))).trans
        (h2.mono (fun e he => List.mem_append_left _ he))
    · exact ((h1.mono (fun e he => List.mem_append_left _ he)).trans (Conn.symm (.edge (by simp)))).trans
        (h2.mono (fun e he => List.mem_append_left _ he))


theorem snoc_induction {α : Type} {P : List α → Prop} (h0 : P [])
    (h1 : ∀ l a, P l → P (l ++ [a])) : ∀ l, P l := by
  intro l
  rw [← List.reverse_reverse l]
  induction l.reverse with
  | nil => exact h0
  | cons a t ih => rw [List.reverse_cons]; exact h1 _ _ ih

/-- tree `u` is an endpoint of one of the edges -/
def Touched (E : List (Nat × Nat)) (u : Nat) : Prop := ∃ e ∈ E, u = e.1 ∨ u = e.2

theorem touched_snoc {E : List (Nat × Nat)} {e : Nat × Nat} {u : Nat} :
    Touched (E ++ [e]) u ↔ Touched E u ∨ u = e.1 ∨ u = e.2 := by
  unfold Touched
  constructor
  · rintro ⟨e', he', h⟩
    rcases List.mem_append.mp he' with h' | h'
    · exact Or.inl ⟨e', h', h⟩
    · simp only [List.mem_singleton] at h'; subst h'; exact Or.inr h
  · rintro (⟨e', he', h⟩ | h)
    · exact ⟨e', List.mem_append_left _ he', h⟩
    · exact ⟨e, by simp, h⟩

theorem par_init (n u : Nat) : par (initParent n) u = -1 := by
  unfold par initParent
  by_cases h : u < n
  · simp [Array.getD, h]
  · simp [Array.getD, h]

theorem inv_init (n : Nat) : Inv (initParent n) := fun i _ => Or.inl (par_init n i)

theorem runMerges_snoc (p : Array Int) (ms : List (Int × Int)) (m : Int × Int) :
    runMerges p (ms ++ [m]) = (runMerges p ms).bind (fun q => mergeStep q m) := by
  unfold runMerges
  rw [List.foldlM_append]
  cases List.foldlM mergeStep p ms <;> simp [List.foldlM]

/-- **Union-find refinement.**  Any history of valid merges from the all -1 array runs without leaving
    the array (all loops terminate), keeps the forest invariant, activates exactly the touched trees,
    and two trees have the same root iff they are connected by merged pairs. -/
theorem runMerges_spec (n : Nat) (ms : List (Int × Int)) (hok : ∀ m ∈ ms, MergeOk n m) :
    ∃ p, runMerges (initParent n) ms = some p ∧ p.size = n ∧ Inv p ∧
      (∀ u, par p u ≠ -1 ↔ Touched (ms.map edgeOf) u) ∧
      (∀ u v, rootOf p u = rootOf p v ↔ Conn (ms.map edgeOf) u v) := by
  induction ms using snoc_induction with
  | h0 =>
    refine ⟨initParent n, rfl, by simp [initParent], inv_init n, ?_, ?_⟩
    · intro u; simp [par_init, Touched]
    · intro u v
      rw [rootOf_inactive (par_init n u), rootOf_inactive (par_init n v)]
      exact conn_nil.symm
  | h1 ms m ih =>
    obtain ⟨p, e, hs, hI, hact, hconn⟩ := ih (fun m' hm' => hok m' (List.mem_append_left _ hm'))
    have hm : MergeOk p.size m := by rw [hs]; exact hok m (by simp)
    obtain ⟨p', e', hs', hI', hr', hact'⟩ := dsuMerge_spec hI hm
    refine ⟨p', ?_, by omega, hI', ?_, ?_⟩
    · rw [runMerges_snoc, e]; simp [mergeStep, e']
    · intro u
      rw [hact', hact, List.map_append, List.map_singleton, touched_snoc]
    · intro u v
      rw [hr', hr', mergedRoot_eq_iff, List.map_append, List.map_singleton]
      rw [show edgeOf m = ((edgeOf m).1, (edgeOf m).2) from rfl, conn_snoc]
      simp only [hconn]
      constructor
      · rintro (h | ⟨h1, h2⟩ | ⟨h1, h2⟩)
        · exact Or.inl h
        · exact Or.inr (Or.inl ⟨h1, h2.symm⟩)
        · exact Or.inr (Or.inr ⟨h1, h2.symm⟩)
      · rintro (h | ⟨h1, h2⟩ | ⟨h1, h2⟩)
        · exact Or.inl h
        · exact Or.inr (Or.inl ⟨h1, h2.symm⟩)
        · exact Or.inr (Or.inr ⟨h1, h2.symm⟩)


/-! ### `mj_dsuAssign` -/

/-- number of roots (`parent[j] = j`) among the trees `< k` -/
def rootsBelow (p : Array Int) : Nat → Nat
  | 0 => 0
  | k + 1 => rootsBelow p k + (if par p k = (k : Int) then 1 else 0)

/-- total `tree_dofnum` of the active trees `< k` -/
def activeDofs (p : Array Int) (dofnum : Array Int) : Nat → Int
  | 0 => 0
  | k + 1 => activeDofs p dofnum k + (if par p k = -1 then 0 else dofnum.getD k 0)

theorem rootsBelow_mono (p : Array Int) {a b : Nat} (h : a ≤ b) : rootsBelow p a ≤ rootsBelow p b := by
  induction b with
  | zero => have : a = 0 := by omega
            subst this; exact Nat.le_refl _
  | succ b ih =>
    by_cases e : a = b + 1
    · subst e; exact Nat.le_refl _
    · have := ih (by omega); simp only [rootsBelow]; omega

theorem rootsBelow_lt (p : Array Int) {a b : Nat} (h : a < b) (ha : par p a = a) : rootsBelow p a < rootsBelow p b := by
  have h1 : rootsBelow p (a + 1) = rootsBelow p a + 1 := by simp [rootsBelow, ha]
  have := rootsBelow_mono p (show a + 1 ≤ b by omega)
  omega

/-- every id below the number of roots is the rank of some root -/
theorem rootsBelow_surj (p : Array Int) (n c : Nat) (h : c < rootsBelow p n) :
    ∃ r, r < n ∧ par p r = r ∧ rootsBelow p r = c := by
  induction n with
  | zero => simp [rootsBelow] at h
  | succ n ih =>
    simp only [rootsBelow] at h
    by_cases hc : c < rootsBelow p n
    · obtain ⟨r, hr, h1, h2⟩ := ih hc; exact ⟨r, by omega, h1, h2⟩
    · by_cases hr : par p n = (n : Int)
      · simp only [hr, ↓reduceIte] at h
        exact ⟨n, by omega, hr, by omega⟩
      · simp only [hr, ↓reduceIte] at h; omega

structure AssignInv (p0 : Array Int) (dofnum : Array Int) (k : Nat) (s : Assign) : Prop where
  isz : s.island.size = k
  compr : Compr p0 s.parent
  done : ∀ j, j < k → par p0 j ≠ -1 → par s.parent j = rootOf p0 j
  todo : ∀ j, k ≤ j → par s.parent j = par p0 j
  isl_neg : ∀ j (h : j < s.island.size), par p0 j = -1 → s.island[j] = -1
  isl_pos : ∀ j (h : j < s.island.size), par p0 j ≠ -1 → s.island[j] = (rootsBelow p0 (rootOf p0 j) : Int)
  nisl : s.nisland = rootsBelow p0 k
  ndof : s.nidof = activeDofs p0 dofnum k

theorem assignStep_spec {p0 dofnum : Array Int} (hI : Inv p0) {k : Nat} (hk : k < p0.size) (hd : k < dofnum.size)
    {s : Assign} (hs : AssignInv p0 dofnum k s) :
    ∃ s', assignStep dofnum s k = some s' ∧ AssignInv p0 dofnum (k + 1) s' := by
  have hsz : s.parent.size = p0.size := hs.compr.1
  have hks : k < s.parent.size := by omega
  have hq : s.parent[k] = par p0 k := by rw [← par_eq hks, hs.todo k (Nat.le_refl _)]
  unfold assignStep
  simp only [hks, ↓reduceDIte, Array.getElem?_eq_getElem hd, hq]
  have hdof : dofnum.getD k 0 = dofnum[k] := by simp [Array.getD, hd]
  rcases hI k hk with hneg | ⟨h0, hle, hact⟩
  · -- inactive tree
    simp only [hneg, ↓reduceIte]
    refine ⟨_, rfl, ⟨by simp [hs.isz], hs.compr, ?_, ?_, ?_, ?_, ?_, ?_⟩⟩
    · intro j hj hja
      by_cases e : j = k
      · subst e; exact absurd hneg hja
      · exact hs.done j (by omega) hja
    · intro j hj; exact hs.todo j (by omega)
    · intro j hj hjn
      simp only [Array.getElem_push]
      split
      · next h => exact hs.isl_neg j h hjn
      · rfl
    · intro j hj hja
      simp only [Array.getElem_push]
      split
      · next h => exact hs.isl_pos j h hja
      · next h =>
        simp only [Array.size_push, hs.isz] at hj h
        have : j = k := by omega
        subst this; exact absurd hneg hja
    · simp [rootsBelow, hneg, hs.nisl]
    · simp [activeDofs, hneg, hs.ndof]
  · have hne : par p0 k ≠ -1 := by omega
    by_cases hroot : par p0 k = (k : Int)
    · -- root: new island
      have hne1 : ¬ ((k : Int) = -1) := by omega
      simp only [hroot, hne1, ↓reduceIte]
      refine ⟨_, rfl, ⟨by simp [hs.isz], hs.compr, ?_, ?_, ?_, ?_, ?_, ?_⟩⟩
      · intro j hj hja
        by_cases e : j = k
        · subst e; rw [hs.todo j (Nat.le_refl _), hroot, rootOf_self hroot]
        · exact hs.done j (by omega) hja
      · intro j hj; exact hs.todo j (by omega)
      · intro j hj hjn
        simp only [Array.getElem_push]
        split
        · next h => exact hs.isl_neg j h hjn
        · next h =>
          simp only [Array.size_push, hs.isz] at hj h
          have : j = k := by omega
          subst this; exact absurd hjn hne
      · intro j hj hja
        simp only [Array.getElem_push]
        split
        · next h => exact hs.isl_pos j h hja
        · next h =>
          simp only [Array.size_push, hs.isz] at hj h
          have : j = k := by omega
          subst this; rw [rootOf_self hroot, hs.nisl]
      · simp [rootsBelow, hroot, hs.nisl]
      · simp [activeDofs, hs.ndof, hdof, hroot, hne1]
    · -- inner node: parent already compressed and numbered
      have hlt : par p0 k < (k : Int) := by omega
      simp only [hne, hroot, ↓reduceIte]
      have hqs : (par p0 k).toNat < s.parent.size := by omega
      simp only [h0, hqs, and_self, ↓reduceDIte]
      have hg : s.parent[(par p0 k).toNat] = (rootOf p0 k : Int) := by
        rw [← par_eq hqs, hs.done _ (by omega) hact, rootOf_par hI hne]
      simp only [hg, Int.toNat_natCast]
      have hg0 : (0 : Int) ≤ (rootOf p0 k : Int) := by omega
      simp only [hg0, ↓reduceIte]
      have hrk : rootOf p0 k < k := by
        have := rootOf_le p0 (par p0 k).toNat
        rw [rootOf_par hI hne] at this; omega
      have hri : rootOf p0 k < s.island.size := by rw [hs.isz]; exact hrk
      rw [Array.getElem?_eq_getElem hri]
      simp only
      have hv : s.island[rootOf p0 k] = (rootsBelow p0 (rootOf p0 k) : Int) := by
        rw [hs.isl_pos _ hri (rootOf_active hI hne), rootOf_idem hI]
      have hcs : Compr s.parent (s.parent.set k (rootOf p0 k : Int)) := by
        have hks_act : par s.parent k ≠ -1 := by rw [hs.todo k (Nat.le_refl _)]; exact hne
        have := compr_set_root hks hks_act
        rwa [hs.compr.rootOf_eq hI] at this
      refine ⟨_, rfl, ⟨by simp [hs.isz], hs.compr.trans hI hcs, ?_, ?_, ?_, ?_, ?_, ?_⟩⟩
      · intro j hj hja
        simp only
        rw [par_set hks]
        by_cases e : j = k
        · subst e; simp
        · simp only [e, ↓reduceIte]; exact hs.done j (by omega) hja
      · intro j hj
        simp only
        rw [par_set hks]
        have : j ≠ k := by omega
        simp only [this, ↓reduceIte]; exact hs.todo j (by omega)
      · intro j hj hjn
        simp only [Array.getElem_push]
        split
        · next h => exact hs.isl_neg j h hjn
        · next h =>
          simp only [Array.size_push, hs.isz] at hj h
          have : j = k := by omega
          subst this; exact absurd hjn hne
      · intro j hj hja
        simp only [Array.getElem_push]
        split
        · next h => exact hs.isl_pos j h hja
        · next h =>
          simp only [Array.size_push, hs.isz] at hj h
          have : j = k := by omega
          subst this; exact hv
      · simp [rootsBelow, hroot, hs.nisl]
      · simp [activeDofs, hne, hs.ndof, hdof]

theorem assignFold_spec {p0 dofnum : Array Int} (hI : Inv p0) (k : Nat) (hk : k ≤ p0.size) (hd : k ≤ dofnum.size) :
    ∃ s, (List.range k).foldlM (assignStep dofnum) { island := #[], parent := p0, nisland := 0, nidof := 0 } = some s ∧
      AssignInv p0 dofnum k s := by
  induction k with
  | zero =>
    refine ⟨_, rfl, ⟨rfl, Compr.refl p0, ?_, ?_, ?_, ?_, rfl, rfl⟩⟩
    · intro j hj; omega
    · intro j _; rfl
    · intro j hj; simp at hj
    · intro j hj; simp at hj
  | succ k ih =>
    obtain ⟨s, e, hs⟩ := ih (by omega) (by omega)
    obtain ⟨s', e', hs'⟩ := assignStep_spec hI (show k < p0.size by omega) (show k < dofnum.size by omega) hs
    refine ⟨s', ?_, hs'⟩
    rw [List.range_succ, List.foldlM_append, e]
    simp [List.foldlM, e']


theorem dsuAssign_spec {p0 dofnum : Array Int} (hI : Inv p0) (hd : p0.size ≤ dofnum.size) :
    ∃ out, dsuAssign p0 dofnum p0.size = some out ∧ AssignInv p0 dofnum p0.size out :=
  assignFold_spec hI p0.size (Nat.le_refl _) hd

/-- `m` is the smallest tree connected to `a` -/
def IsMinOf (E : List (Nat × Nat)) (a m : Nat) : Prop := Conn E a m ∧ ∀ x, Conn E a x → m ≤ x

/-- In a state reached by the merges `E`, the root of a tree is the minimum of its class. -/
theorem rootOf_isMin {p : Array Int} {E : List (Nat × Nat)} (hI : Inv p)
    (hconn : ∀ u v, rootOf p u = rootOf p v ↔ Conn E u v) (a : Nat) : IsMinOf E a (rootOf p a) := by
  refine ⟨(hconn _ _).mp (rootOf_idem hI a).symm, fun x hx => ?_⟩
  rw [(hconn _ _).mpr hx]; exact rootOf_le p x

theorem isMinOf_unique {E : List (Nat × Nat)} {a m m' : Nat} (h : IsMinOf E a m) (h' : IsMinOf E a m') : m = m' :=
  Nat.le_antisymm (h.2 _ h'.1) (h'.2 _ h.1)

theorem activeDofs_congr {p p' : Array Int} (dofnum : Array Int) (h : ∀ u, par p' u = -1 ↔ par p u = -1) (k : Nat) :
    activeDofs p' dofnum k = activeDofs p dofnum k := by
  induction k with
  | zero => rfl
  | succ k ih =>
    simp only [activeDofs, ih]
    by_cases e : par p k = -1
    · simp [e, (h k).mpr e]
    · have : ¬ par p' k = -1 := fun h' => e ((h k).mp h')
      simp [e, this]


/-! ### histories with interleaved root queries -/

theorem compress_above {p : Array Int} {t r : Nat} {p' : Array Int} (h : compress p t r = some p') :
    ∀ u, t < u → par p' u = par p u := by
  induction t using Nat.strongRecOn generalizing p with
  | ind t ih =>
    rw [compress] at h
    split at h
    · next hs =>
      split at h
      · cases h; intro u _; rfl
      · split at h
        · next hq =>
          intro u hu
          rw [ih p[t].toNat (by omega) h u (by omega), par_set hs]
          have : u ≠ t := by omega
          simp [this]
        · cases h
    · cases h

/-- `mj_dsuRoot` leaves the queried tree pointing at the returned root. -/
theorem compress_self {p : Array Int} {t r : Nat} {p' : Array Int} (h : compress p t r = some p')
    (hr : par p t = t → r = t) : par p' t = r := by
  rw [compress] at h
  split at h
  · next hs =>
    split at h
    · next he => cases h; rw [par_eq hs, he, hr (by rw [par_eq hs, he])]
    · split at h
      · next hq =>
        rw [compress_above h t (by omega), par_set hs]; simp
      · cases h
  · cases h

inductive DsuOp where
  | merge (a b : Int)
  | root (t : Nat)

def opStep (p : Array Int) : DsuOp → Option (Array Int)
  | .merge a b => mergeStep p (a, b)
  | .root t => (dsuRoot p t).map (·.2)

def runOps (p : Array Int) (ops : List DsuOp) : Option (Array Int) := ops.foldlM opStep p

def opsEdges : List DsuOp → List (Nat × Nat)
  | [] => []
  | .merge a b :: rest => edgeOf (a, b) :: opsEdges rest
  | .root _ :: rest => opsEdges rest

theorem opsEdges_append (l l' : List DsuOp) : opsEdges (l ++ l') = opsEdges l ++ opsEdges l' := by
  induction l with
  | nil => rfl
  | cons o l ih => cases o <;> simp [opsEdges, ih]

/-- valid histories: merges with arguments in range (not both static), root queries only on trees already
    touched by an earlier merge (the documented precondition `parent[tree] >= 0` of `mj_dsuRoot`) -/
inductive OpsOk (n : Nat) : List DsuOp → Prop
  | nil : OpsOk n []
  | merge {ops : List DsuOp} {a b : Int} : OpsOk n ops → MergeOk n (a, b) → OpsOk n (ops ++ [.merge a b])
  | root {ops : List DsuOp} {t : Nat} : OpsOk n ops → Touched (opsEdges ops) t → OpsOk n (ops ++ [.root t])

theorem runOps_snoc (p : Array Int) (ops : List DsuOp) (o : DsuOp) :
    runOps p (ops ++ [o]) = (runOps p ops).bind (fun q => opStep q o) := by
  unfold runOps
  rw [List.foldlM_append]
  cases List.foldlM opStep p ops <;> simp [List.foldlM]

theorem runOps_spec (n : Nat) (ops : List DsuOp) (hok : OpsOk n ops) :
    ∃ p, runOps (initParent n) ops = some p ∧ p.size = n ∧ Inv p ∧
      (∀ u, par p u ≠ -1 ↔ Touched (opsEdges ops) u) ∧
      (∀ u v, rootOf p u = rootOf p v ↔ Conn (opsEdges ops) u v) := by
  induction hok with
  | nil =>
    refine ⟨initParent n, rfl, by simp [initParent], inv_init n, ?_, ?_⟩
    · intro u; simp [par_init, Touched, opsEdges]
    · intro u v
      rw [rootOf_inactive (par_init n u), rootOf_inactive (par_init n v)]
      exact conn_nil.symm
  | @merge ops a b _ hm ih =>
    obtain ⟨p, e, hs, hI, hact, hconn⟩ := ih
    have hm' : MergeOk p.size (a, b) := by rw [hs]; exact hm
    obtain ⟨p', e', hs', hI', hr', hact'⟩ := dsuMerge_spec hI hm'
    refine ⟨p', ?_, by omega, hI', ?_, ?_⟩
    · rw [runOps_snoc, e]; simp [opStep, mergeStep, e']
    · intro u
      rw [hact', hact, opsEdges_append]
      simp only [opsEdges]
      rw [touched_snoc]
    · intro u v
      rw [hr', hr', mergedRoot_eq_iff, opsEdges_append]
      simp only [opsEdges]
      rw [show edgeOf (a, b) = ((edgeOf (a, b)).1, (edgeOf (a, b)).2) from rfl, conn_snoc]
      simp only [hconn]
      constructor
      · rintro (h | ⟨h1, h2⟩ | ⟨h1, h2⟩)
        · exact Or.inl h
        · exact Or.inr (Or.inl ⟨h1, h2.symm⟩)
        · exact Or.inr (Or.inr ⟨h1, h2.symm⟩)
      · rintro (h | ⟨h1, h2⟩ | ⟨h1, h2⟩)
        · exact Or.inl h
        · exact Or.inr (Or.inl ⟨h1, h2.symm⟩)
        · exact Or.inr (Or.inr ⟨h1, h2.symm⟩)
  | @root ops t _ ht ih =>
    obtain ⟨p, e, hs, hI, hact, hconn⟩ := ih
    obtain ⟨p', e', hc⟩ := dsuRoot_spec hI ((hact t).mpr ht)
    refine ⟨p', ?_, by rw [hc.1]; exact hs, hc.inv hI, ?_, ?_⟩
    · rw [runOps_snoc, e]; simp [opStep, e']
    · intro u
      rw [opsEdges_append]; simp only [opsEdges, List.append_nil]
      rw [← hact u]; exact not_congr (hc.active u)
    · intro u v
      rw [opsEdges_append]; simp only [opsEdges, List.append_nil]
      rw [hc.rootOf_eq hI, hc.rootOf_eq hI]; exact hconn u v


/-! ### what `mj_dsuAssign` computes, in terms of the merged edges -/

structure AssignSpec (E : List (Nat × Nat)) (n : Nat) (out : Assign) : Prop where
  isz : out.island.size = n
  psz : out.parent.size = n
  /-- -1 exactly for untouched trees -/
  neg : ∀ t (h : t < out.island.size), out.island[t] = -1 ↔ ¬ Touched E t
  /-- ids of touched trees lie in [0, nisland) -/
  rng : ∀ t (h : t < out.island.size), Touched E t → 0 ≤ out.island[t] ∧ out.island[t] < (out.nisland : Int)
  /-- same id iff connected -/
  eq_iff : ∀ a b (ha : a < out.island.size) (hb : b < out.island.size), Touched E a → Touched E b →
    (out.island[a] = out.island[b] ↔ Conn E a b)
  /-- ids ascend with the smallest tree of the island -/
  lt_iff : ∀ a b (ha : a < out.island.size) (hb : b < out.island.size) (ma mb : Nat),
    Touched E a → Touched E b → IsMinOf E a ma → IsMinOf E b mb → (out.island[a] < out.island[b] ↔ ma < mb)
  /-- every id below nisland is used -/
  surj : ∀ c, c < out.nisland → ∃ t, ∃ h : t < out.island.size, out.island[t] = (c : Int)
  /-- parent is fully compressed onto the minimum of each class -/
  compressed : ∀ t (h : t < out.parent.size) (m : Nat), Touched E t → IsMinOf E t m → out.parent[t] = (m : Int)

theorem assign_facts {p : Array Int} {E : List (Nat × Nat)} {n : Nat} (hs : p.size = n) (hI : Inv p)
    (hact : ∀ u, par p u ≠ -1 ↔ Touched E u) (hconn : ∀ u v, rootOf p u = rootOf p v ↔ Conn E u v)
    {dofnum : Array Int} {out : Assign} (ho : AssignInv p dofnum n out) : AssignSpec E n out := by
  have hisz := ho.isz
  have hpsz : out.parent.size = n := by rw [ho.compr.1]; exact hs
  have hroot : ∀ t, Touched E t → par p (rootOf p t) = rootOf p t :=
    fun t ht => par_rootOf hI ((hact t).mpr ht)
  have hrank : ∀ a b, Touched E a → Touched E b →
      (rootsBelow p (rootOf p a) < rootsBelow p (rootOf p b) ↔ rootOf p a < rootOf p b) := by
    intro a b ha hb
    constructor
    · intro h
      by_cases hlt : rootOf p a < rootOf p b
      · exact hlt
      · have := rootsBelow_mono p (show rootOf p b ≤ rootOf p a by omega); omega
    · intro h; exact rootsBelow_lt p h (hroot a ha)
  have hrank_eq : ∀ a b, Touched E a → Touched E b →
      (rootsBelow p (rootOf p a) = rootsBelow p (rootOf p b) ↔ rootOf p a = rootOf p b) := by
    intro a b ha hb
    constructor
    · intro h
      rcases Nat.lt_trichotomy (rootOf p a) (rootOf p b) with h1 | h1 | h1
      · have := (hrank a b ha hb).mpr h1; omega
      · exact h1
      · have := (hrank b a hb ha).mpr h1; omega
    · intro h; rw [h]
  refine ⟨hisz, hpsz, ?_, ?_, ?_, ?_, ?_, ?_⟩
  · intro t h
    by_cases ht : par p t = -1
    · rw [ho.isl_neg t h ht]
      simp only [true_iff]
      intro htt; exact (hact t).mpr htt ht
    · rw [ho.isl_pos t h ht]
      constructor
      · intro h'; omega
      · intro h'; exact absurd ((hact t).mp ht) h'
  · intro t h ht
    rw [ho.isl_pos t h ((hact t).mpr ht)]
    refine ⟨by omega, ?_⟩
    rw [ho.nisl]
    have hlt : rootOf p t < n := by
      have := rootOf_lt_size (hI.lt_size ((hact t).mpr ht)); omega
    have := rootsBelow_lt p hlt (hroot t ht)
    omega
  · intro a b ha hb hta htb
    rw [ho.isl_pos a ha ((hact a).mpr hta), ho.isl_pos b hb ((hact b).mpr htb), ← hconn a b,
      ← hrank_eq a b hta htb]
    omega
  · intro a b ha hb ma mb hta htb hma hmb
    rw [ho.isl_pos a ha ((hact a).mpr hta), ho.isl_pos b hb ((hact b).mpr htb)]
    rw [isMinOf_unique hma (rootOf_isMin hI hconn a), isMinOf_unique hmb (rootOf_isMin hI hconn b),
      ← hrank a b hta htb]
    omega
  · intro c hc
    rw [ho.nisl] at hc
    obtain ⟨r, hr, hself, hrc⟩ := rootsBelow_surj p n c hc
    have hra : par p r ≠ -1 := by omega
    refine ⟨r, by omega, ?_⟩
    rw [ho.isl_pos r (by omega) hra, rootOf_self hself, hrc]
  · intro t h m ht hm
    rw [← par_eq h, ho.done t (by omega) ((hact t).mpr ht),
      isMinOf_unique hm (rootOf_isMin hI hconn t)]

/-! ### the numbering is determined by the partition -/

theorem exists_min_of_exists {P : Nat → Prop} (h : ∃ x, P x) : ∃ m, P m ∧ ∀ x, P x → m ≤ x := by
  obtain ⟨x0, hx0⟩ := h
  have aux : ∀ k, (∃ x, x ≤ k ∧ P x) → ∃ m, P m ∧ ∀ x, P x → m ≤ x := by
    intro k
    induction k with
    | zero =>
      rintro ⟨x, hx, hp⟩
      have : x = 0 := by omega
      subst this
      exact ⟨0, hp, fun _ _ => Nat.zero_le _⟩
    | succ k ih =>
      rintro ⟨x, hx, hp⟩
      by_cases hk : ∃ y, y ≤ k ∧ P y
      · exact ih hk
      · have hxe : x = k + 1 := by
          by_cases h' : x ≤ k
          · exact absurd ⟨x, h', hp⟩ hk
          · omega
        subst hxe
        refine ⟨k + 1, hp, fun y hy => ?_⟩
        by_cases h' : y ≤ k
        · exact absurd ⟨y, h', hy⟩ hk
        · omega
  exact aux x0 ⟨x0, Nat.le_refl _, hx0⟩

theorem exists_isMinOf (E : List (Nat × Nat)) (a : Nat) : ∃ m, IsMinOf E a m :=
  exists_min_of_exists ⟨a, Conn.refl a⟩

theorem isMinOf_congr {E E' : List (Nat × Nat)} (hC : ∀ u v, Conn E u v ↔ Conn E' u v) {a m : Nat}
    (h : IsMinOf E a m) : IsMinOf E' a m :=
  ⟨(hC _ _).mp h.1, fun x hx => h.2 x ((hC _ _).mpr hx)⟩

/-- The numbering is determined by the partition: two runs whose merge graphs have the same touched trees and
    the same connectivity (different merge orders, or the incidence of a constraint given by different but
    equivalent tree lists) produce the same island array and the same island count. -/
theorem assignSpec_unique {E E' : List (Nat × Nat)} {n : Nat} {out out' : Assign}
    (s : AssignSpec E n out) (s' : AssignSpec E' n out')
    (hT : ∀ u, Touched E u ↔ Touched E' u) (hC : ∀ u v, Conn E u v ↔ Conn E' u v) :
    out.island = out'.island ∧ out.nisland = out'.nisland := by
  -- one direction of the comparison, by strong induction on the id
  have key : ∀ {E E' : List (Nat × Nat)} {out out' : Assign}, AssignSpec E n out → AssignSpec E' n out' →
      (∀ u, Touched E u ↔ Touched E' u) → (∀ u v, Conn E u v ↔ Conn E' u v) →
      ∀ (c : Nat) (b : Nat) (hb : b < out.island.size) (hb' : b < out'.island.size), Touched E b →
        out.island[b] = (c : Int) → (c : Int) ≤ out'.island[b] := by
    intro E E' out out' s s' hT hC c
    induction c using Nat.strongRecOn with
    | ind c ih =>
      intro b hb hb' htb hfb
      have h0 := (s'.rng b hb' ((hT b).mp htb)).1
      by_cases hc : c = 0
      · subst hc; simpa using h0
      · have hlt : c - 1 < out.nisland := by
          have := (s.rng b hb htb).2; omega
        obtain ⟨b', hb1, hfb'⟩ := s.surj (c - 1) hlt
        have hb1' : b' < out'.island.size := by rw [s'.isz, ← s.isz]; exact hb1
        have htb' : Touched E b' := by
          by_cases hn : Touched E b'
          · exact hn
          · have := (s.neg b' hb1).mpr hn
            omega
        have h1 := ih (c - 1) (by omega) b' hb1 hb1' htb' hfb'
        obtain ⟨ma, hma⟩ := exists_isMinOf E b'
        obtain ⟨mb, hmb⟩ := exists_isMinOf E b
        have hl : out.island[b'] < out.island[b] := by omega
        have hm := (s.lt_iff b' b hb1 hb ma mb htb' htb hma hmb).mp hl
        have := (s'.lt_iff b' b hb1' hb' ma mb ((hT _).mp htb') ((hT _).mp htb)
          (isMinOf_congr hC hma) (isMinOf_congr hC hmb)).mpr hm
        omega
  have hT' : ∀ u, Touched E' u ↔ Touched E u := fun u => (hT u).symm
  have hC' : ∀ u v, Conn E' u v ↔ Conn E u v := fun u v => (hC u v).symm
  have hval : ∀ b (hb : b < out.island.size) (hb' : b < out'.island.size), out.island[b] = out'.island[b] := by
    intro b hb hb'
    by_cases htb : Touched E b
    · have r := s.rng b hb htb
      have r' := s'.rng b hb' ((hT b).mp htb)
      have h1 := key s s' hT hC (out.island[b]).toNat b hb hb' htb (by omega)
      have h2 := key s' s hT' hC' (out'.island[b]).toNat b hb' hb ((hT b).mp htb) (by omega)
      omega
    · rw [(s.neg b hb).mpr htb, (s'.neg b hb').mpr (fun h => htb ((hT b).mpr h))]
  have hsz : out.island.size = out'.island.size := by rw [s.isz, s'.isz]
  refine ⟨Array.ext hsz (fun i h1 h2 => hval i h1 h2), ?_⟩
  -- island counts: the largest id is attained
  have cnt : ∀ {E E' : List (Nat × Nat)} {out out' : Assign}, AssignSpec E n out → AssignSpec E' n out' →
      (∀ u, Touched E u ↔ Touched E' u) →
      (∀ b (hb : b < out.island.size) (hb' : b < out'.island.size), out.island[b] = out'.island[b]) →
      out.nisland ≤ out'.nisland := by
    intro E E' out out' s s' hT hval
    by_cases h0 : out.nisland = 0
    · omega
    · obtain ⟨t, ht, hft⟩ := s.surj (out.nisland - 1) (by omega)
      have ht' : t < out'.island.size := by rw [s'.isz, ← s.isz]; exact ht
      have htt : Touched E t := by
        by_cases hn : Touched E t
        · exact hn
        · have := (s.neg t ht).mpr hn
          omega
      have := (s'.rng t ht' ((hT t).mp htt)).2
      rw [← hval t ht ht', hft] at this
      omega
  exact Nat.le_antisymm (cnt s s' hT hval) (cnt s' s hT' (fun b hb hb' => (hval b hb' hb).symm))

end MjProof.Island
