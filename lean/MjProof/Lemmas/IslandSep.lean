import MjProof.Lemmas.SolverCert
import MjProof.Model.IslandSep
import Mathlib.Algebra.BigOperators.Group.Finset.Basic
import Mathlib.Algebra.BigOperators.Ring.Finset
/-
Islands (C10): a partition of the dofs and constraint rows that makes `M`, `J` block diagonal and keeps coupled
rows together makes the documented cost a sum of block costs, each depending on the dofs of its block only.

  cost_eq_sum_blocks     cost(x) = Σ_k blockCost k x                       (under `Separable`)
  blockCost_local        blockCost k depends on x only through the dofs labelled k
  blockCost_free         the block of the dofs outside every island carries no rows: Gauss term + a constant
  checker lemmas         the executable lists of Model/IslandSep.lean are empty iff the hypotheses hold
-/
set_option linter.unusedSectionVars false
noncomputable section
namespace MjProof.SolverCert
open Matrix

variable {n m : ℕ} {K G : Type} [Fintype K] [DecidableEq K] [Fintype G] [DecidableEq G]

/-- `M` couples only dofs with equal labels; a row's Jacobian is supported on the dofs carrying the row's label -/
def Separable (M : Matrix (Fin n) (Fin n) ℝ) (J : Matrix (Fin m) (Fin n) ℝ) (labD : Fin n → K) (labR : Fin m → K) :
    Prop :=
  (∀ i j, labD i ≠ labD j → M i j = 0) ∧ (∀ r j, labD j ≠ labR r → J r j = 0)

/-- constraint cost made of coupling groups: scalar rows are groups of one row, an elliptic cone is one group;
    group `g` sees only its own rows of the residual -/
def sGrp (grp : Fin m → G) (sg : G → (Fin m → ℝ) → ℝ) (v : Fin m → ℝ) : ℝ :=
  ∑ g, sg g (fun r => if grp r = g then v r else 0)

/-- residual of row `r` computed from the dofs of block `k` only -/
def resBlock (J : Matrix (Fin m) (Fin n) ℝ) (aref : Fin m → ℝ) (labD : Fin n → K) (k : K) (x : Fin n → ℝ)
    (r : Fin m) : ℝ :=
  (∑ j, if labD j = k then J r j * x j else 0) - aref r

/-- Gauss term of block `k` -/
def gaussBlock (M : Matrix (Fin n) (Fin n) ℝ) (a0 : Fin n → ℝ) (labD : Fin n → K) (k : K) (x : Fin n → ℝ) : ℝ :=
  ∑ i, ∑ j, if labD i = k ∧ labD j = k then (x i - a0 i) * M i j * (x j - a0 j) else 0

/-- the sub-problem of island `k`: sub-matrices of `M`, `J`, the groups labelled `k` -/
def blockCost (M : Matrix (Fin n) (Fin n) ℝ) (J : Matrix (Fin m) (Fin n) ℝ) (a0 : Fin n → ℝ) (aref : Fin m → ℝ)
    (grp : Fin m → G) (sg : G → (Fin m → ℝ) → ℝ) (labD : Fin n → K) (labG : G → K) (k : K) (x : Fin n → ℝ) : ℝ :=
  1 / 2 * gaussBlock M a0 labD k x +
    ∑ g, if labG g = k then sg g (fun r => if grp r = g then resBlock J aref labD k x r else 0) else 0

theorem gauss_sum_blocks (M : Matrix (Fin n) (Fin n) ℝ) (a0 : Fin n → ℝ) (labD : Fin n → K)
    (hM : ∀ i j, labD i ≠ labD j → M i j = 0) (x : Fin n → ℝ) :
    (x - a0) ⬝ᵥ (M *ᵥ (x - a0)) = ∑ k, gaussBlock M a0 labD k x := by
  unfold gaussBlock
  rw [Finset.sum_comm]
  simp only [dotProduct, mulVec, Pi.sub_apply]
  refine Finset.sum_congr rfl fun i _ => ?_
  rw [Finset.sum_comm, Finset.mul_sum]
  refine Finset.sum_congr rfl fun j _ => ?_
  by_cases h : labD i = labD j
  · have : ∀ k, (labD i = k ∧ labD j = k) ↔ labD j = k := fun k => ⟨fun p => p.2, fun p => ⟨h.trans p, p⟩⟩
    simp only [this, Finset.sum_ite_eq, Finset.mem_univ, if_true]
    ring
  · have : ∀ k, ¬ (labD i = k ∧ labD j = k) := fun k p => h (p.1.trans p.2.symm)
    simp only [this, if_false, Finset.sum_const_zero]
    rw [hM i j h]; ring

theorem res_eq_resBlock (J : Matrix (Fin m) (Fin n) ℝ) (aref : Fin m → ℝ) (labD : Fin n → K) (labR : Fin m → K)
    (hJ : ∀ r j, labD j ≠ labR r → J r j = 0) (x : Fin n → ℝ) (r : Fin m) :
    (J *ᵥ x - aref) r = resBlock J aref labD (labR r) x r := by
  unfold resBlock
  simp only [Pi.sub_apply, mulVec, dotProduct]
  congr 1
  refine Finset.sum_congr rfl fun j _ => ?_
  by_cases h : labD j = labR r
  · simp [h]
  · simp [h, hJ r j h]

/-- **the documented cost is the sum of the island sub-problems** -/
theorem cost_eq_sum_blocks (M : Matrix (Fin n) (Fin n) ℝ) (J : Matrix (Fin m) (Fin n) ℝ) (a0 : Fin n → ℝ)
    (aref : Fin m → ℝ) (grp : Fin m → G) (sg : G → (Fin m → ℝ) → ℝ) (labD : Fin n → K) (labG : G → K)
    (hsep : Separable M J labD (fun r => labG (grp r))) (x : Fin n → ℝ) :
    cost M J a0 aref (sGrp grp sg) x = ∑ k, blockCost M J a0 aref grp sg labD labG k x := by
  unfold cost blockCost sGrp
  rw [Finset.sum_add_distrib, ← Finset.mul_sum, gauss_sum_blocks M a0 labD hsep.1 x]
  congr 1
  rw [Finset.sum_comm]
  refine Finset.sum_congr rfl fun g _ => ?_
  rw [Finset.sum_ite_eq]
  simp only [Finset.mem_univ, if_true]
  congr 1
  funext r
  by_cases h : grp r = g
  · simp only [h, if_true]
    have := res_eq_resBlock J aref labD (fun r => labG (grp r)) hsep.2 x r
    simp only [h] at this
    exact this
  · simp [h]

/-- the sub-problem of block `k` reads `x` only on the dofs labelled `k` -/
theorem blockCost_local (M : Matrix (Fin n) (Fin n) ℝ) (J : Matrix (Fin m) (Fin n) ℝ) (a0 : Fin n → ℝ)
    (aref : Fin m → ℝ) (grp : Fin m → G) (sg : G → (Fin m → ℝ) → ℝ) (labD : Fin n → K) (labG : G → K) (k : K)
    (x y : Fin n → ℝ) (h : ∀ j, labD j = k → x j = y j) :
    blockCost M J a0 aref grp sg labD labG k x = blockCost M J a0 aref grp sg labD labG k y := by
  unfold blockCost gaussBlock
  have hres : ∀ r, resBlock J aref labD k x r = resBlock J aref labD k y r := by
    intro r
    unfold resBlock
    congr 1
    refine Finset.sum_congr rfl fun j _ => ?_
    by_cases hj : labD j = k
    · simp [hj, h j hj]
    · simp [hj]
  congr 1
  · congr 1
    refine Finset.sum_congr rfl fun i _ => Finset.sum_congr rfl fun j _ => ?_
    by_cases hij : labD i = k ∧ labD j = k
    · simp [hij, h i hij.1, h j hij.2]
    · simp [hij]
  · refine Finset.sum_congr rfl fun g _ => ?_
    simp only [hres]

/-- the Gauss term of one block is the quadratic form of `M` on the masked vector, hence non-negative -/
theorem gaussBlock_nonneg (M : Matrix (Fin n) (Fin n) ℝ) (hM : SymPSD M) (a0 : Fin n → ℝ) (labD : Fin n → K) (k : K)
    (x : Fin n → ℝ) : 0 ≤ gaussBlock M a0 labD k x := by
  have h := hM.nonneg (fun i => if labD i = k then x i - a0 i else 0)
  have e : (fun i => if labD i = k then x i - a0 i else 0) ⬝ᵥ
      (M *ᵥ (fun i => if labD i = k then x i - a0 i else 0)) = gaussBlock M a0 labD k x := by
    unfold gaussBlock
    simp only [dotProduct, mulVec]
    refine Finset.sum_congr rfl fun i _ => ?_
    rw [Finset.mul_sum]
    refine Finset.sum_congr rfl fun j _ => ?_
    by_cases hi : labD i = k <;> by_cases hj : labD j = k <;> simp [hi, hj]; ring
  rw [e] at h
  exact h

theorem gaussBlock_zero (M : Matrix (Fin n) (Fin n) ℝ) (a0 : Fin n → ℝ) (labD : Fin n → K) (k : K)
    (a : Fin n → ℝ) (h : ∀ j, labD j = k → a j = a0 j) : gaussBlock M a0 labD k a = 0 := by
  unfold gaussBlock
  refine Finset.sum_eq_zero fun i _ => Finset.sum_eq_zero fun j _ => ?_
  by_cases hij : labD i = k ∧ labD j = k
  · simp [hij, h i hij.1]
  · simp [hij]

/-- a block that carries no row: its constraint part does not depend on the point -/
theorem blockCost_free (M : Matrix (Fin n) (Fin n) ℝ) (J : Matrix (Fin m) (Fin n) ℝ) (a0 : Fin n → ℝ)
    (aref : Fin m → ℝ) (grp : Fin m → G) (sg : G → (Fin m → ℝ) → ℝ) (labD : Fin n → K) (labG : G → K) (free : K)
    (hfree : ∀ r, labG (grp r) ≠ free) (x y : Fin n → ℝ) :
    blockCost M J a0 aref grp sg labD labG free x - 1 / 2 * gaussBlock M a0 labD free x =
      blockCost M J a0 aref grp sg labD labG free y - 1 / 2 * gaussBlock M a0 labD free y := by
  unfold blockCost
  simp only [add_sub_cancel_left]
  refine Finset.sum_congr rfl fun g _ => ?_
  by_cases hg : labG g = free
  · simp only [hg, if_true]
    congr 1
    funext r
    by_cases hr : grp r = g
    · exact absurd (hr ▸ hg) (hfree r)
    · simp [hr]
  · simp [hg]

/-! ### the executable checker of Model/IslandSep.lean decides the hypotheses -/

omit [Fintype K] [Fintype G] in
open MjProof.IslandSep in
theorem badM_nil_iff (M : Matrix (Fin n) (Fin n) ℝ) (labD : Fin n → K) :
    badM (fun i j => decide (M i j ≠ 0)) labD = [] ↔ ∀ i j, labD i ≠ labD j → M i j = 0 := by
  unfold badM
  simp only [List.flatMap_eq_nil_iff, List.map_eq_nil_iff, List.filter_eq_nil_iff, List.mem_finRange, true_implies,
    Bool.and_eq_true, decide_eq_true_eq, not_and]
  constructor
  · intro h i j hne
    by_contra hz
    exact h i j hz hne
  · intro h i j hz hne
    exact hz (h i j hne)

omit [Fintype K] [Fintype G] in
open MjProof.IslandSep in
theorem badJ_nil_iff (J : Matrix (Fin m) (Fin n) ℝ) (labD : Fin n → K) (labR : Fin m → K) :
    badJ (fun r j => decide (J r j ≠ 0)) labD labR = [] ↔ ∀ r j, labD j ≠ labR r → J r j = 0 := by
  unfold badJ
  simp only [List.flatMap_eq_nil_iff, List.map_eq_nil_iff, List.filter_eq_nil_iff, List.mem_finRange, true_implies,
    Bool.and_eq_true, decide_eq_true_eq, not_and]
  constructor
  · intro h r j hne
    by_contra hz
    exact h r j hz hne
  · intro h r j hz hne
    exact hz (h r j hne)

omit [Fintype K] [Fintype G] in
open MjProof.IslandSep in
theorem freeRows_nil_iff (free : K) (labR : Fin m → K) : freeRows free labR = [] ↔ ∀ r, labR r ≠ free := by
  unfold freeRows
  simp [List.filter_eq_nil_iff]

omit [Fintype K] [Fintype G] in
open MjProof.IslandSep in
theorem badGrp_nil_iff (grp : Fin m → G) (labR : Fin m → K) :
    badGrp grp labR = [] ↔ ∀ r r', grp r = grp r' → labR r = labR r' := by
  unfold badGrp
  simp only [List.flatMap_eq_nil_iff, List.map_eq_nil_iff, List.filter_eq_nil_iff, List.mem_finRange, true_implies,
    Bool.and_eq_true, decide_eq_true_eq, not_and, not_not]

end MjProof.SolverCert
end
