import MjProof.Model.MjxMath
import MjProof.Lemmas.RealNum
import Mathlib.Analysis.SpecialFunctions.Pow.Real
import Mathlib.Tactic.Ring
import Mathlib.Tactic.Linarith
import Mathlib.Tactic.NormNum
import Mathlib.Tactic.Positivity
import Mathlib.Tactic.FieldSimp
/-
Lemmas for the K / B / I part of C43 (`Props/C43.lean`, theorem `mjx_kbi_eq_c`): the `MjNum ℝ` operations are the real
operations, the clamps are `min`/`max`, the two impedance splines (`_kbi` of mjx/_src/constraint.py and `getimpedance` of
engine_core_constraint.c) are the same real function `impJ = impC` on `dmin ≤ dmax`, `0 < mid < 1`, `power ≥ 1`, `x ≥ 0`,
and K, B agree whenever the solref is not of mixed sign and the guarded denominators are not below `mjMINVAL`.
-/
namespace MjProof.MjxKbi
open MjProof MjProof.MjxMath

theorem k_mul (a b : ℝ) : @HMul.hMul ℝ ℝ ℝ (@instHMul ℝ (MjNum.toMul)) a b = a * b := rfl
theorem k_add (a b : ℝ) : @HAdd.hAdd ℝ ℝ ℝ (@instHAdd ℝ (MjNum.toAdd)) a b = a + b := rfl
theorem k_sub (a b : ℝ) : @HSub.hSub ℝ ℝ ℝ (@instHSub ℝ (MjNum.toSub)) a b = a - b := rfl
theorem k_div (a b : ℝ) : @HDiv.hDiv ℝ ℝ ℝ (@instHDiv ℝ (MjNum.toDiv)) a b = a / b := rfl
theorem k_neg (a : ℝ) : @Neg.neg ℝ (MjNum.toNeg) a = -a := rfl
theorem k_lt (a b : ℝ) : (@LT.lt ℝ (MjNum.toLT) a b) = (a < b) := rfl
theorem k_le (a b : ℝ) : (@LE.le ℝ (MjNum.toLE) a b) = (a ≤ b) := rfl

theorem max_real (a b : ℝ) : MjNum.max a b = max a b := by
  unfold MjNum.max
  simp only [k_lt]
  split
  · rename_i h; rw [max_eq_left h.le]
  · rename_i h; rw [max_eq_right (not_lt.1 h)]

theorem min_real (a b : ℝ) : MjNum.min a b = min a b := by
  unfold MjNum.min
  simp only [k_lt]
  split
  · rename_i h; rw [min_eq_left h.le]
  · rename_i h; rw [min_eq_right (not_lt.1 h)]

theorem one_real : (one : ℝ) = 1 := by simp [one]
theorem zero_real : (zero : ℝ) = 0 := by simp [zero]
theorem two_real : (two : ℝ) = 2 := by simp [two]
theorem half_real : (half : ℝ) = 1 / 2 := by simp [half]; norm_num
theorem minimp_real : (minimp : ℝ) = 1 / 10000 := by simp [minimp]; norm_num
theorem maximp_real : (maximp : ℝ) = 9999 / 10000 := by simp [maximp]; norm_num
theorem minval_real : (minval : ℝ) = 1 / 10 ^ 15 := by simp [minval]; norm_num

/-- the power function of the proofs -/
noncomputable def rpw : ℝ → ℝ → ℝ := fun a b => a ^ b

theorem cPower_real (a b : ℝ) : cPower rpw a b = a ^ b := by
  unfold cPower rpw
  simp only [real_beq, one_real, two_real, decide_eq_true_eq, k_mul]
  split_ifs with h1 h2
  · subst h1; simp
  · subst h2; rw [Real.rpow_two]; ring
  · rfl


theorem jclip_real (x lo hi : ℝ) : jclip x lo hi = min (max x lo) hi := by
  simp only [jclip, max_real, min_real]
theorem cclip_real (x lo hi : ℝ) : cclip x lo hi = min (max x lo) hi := by
  simp only [cclip, max_real, min_real, min_comm, max_comm]

/-- the clamped impedance bounds lie in [mjMINIMP, mjMAXIMP] -/
theorem clip_imp_bounds (d : ℝ) : (1 / 10000 : ℝ) ≤ min (max d (1 / 10000)) (9999 / 10000) ∧ min (max d (1 / 10000)) (9999 / 10000) ≤ 9999 / 10000 := by
  constructor
  · exact le_min (le_max_right _ _) (by norm_num)
  · exact min_le_right _ _

/-- K: `_kbi` = `mj_makeImpedance` -/
theorem mjx_K_eq_c (refsafe : Bool) (ts sr0 sr1 e1 : ℝ) (hfmt : 0 < sr0 ↔ 0 < sr1)
    (he : 1 / 10000 ≤ e1)
    (hK : 0 < sr0 → (1 / 10 ^ 15 : ℝ) ≤ e1 * e1 * (if refsafe then max sr0 (2 * ts) else sr0) * (if refsafe then max sr0 (2 * ts) else sr0) * sr1 * sr1) :
    mjxK sr0 sr1 (if refsafe then MjNum.max sr0 (two * ts) else sr0) e1
      = cK (cSolref refsafe ts sr0 sr1).1 (cSolref refsafe ts sr0 sr1).2 e1 := by
  have hmix : ((decide (0 < sr0)) != (decide (0 < sr1))) = false := by
    by_cases h : 0 < sr0
    · simp [h, hfmt.1 h]
    · have h' : ¬ 0 < sr1 := fun h1 => h (hfmt.2 h1)
      simp [h, h']
  simp only [mjxK, cK, cSolref, max_real, one_real, zero_real, two_real, k_mul, k_div, k_neg, k_lt, k_le, hmix, minval_real]
  simp only [Bool.false_eq_true, if_false]
  by_cases h0 : 0 < sr0
  · have hnle : ¬ sr0 ≤ 0 := not_le.2 h0
    cases refsafe
    · simp only [Bool.false_and, Bool.false_eq_true, if_false, h0, if_true, hnle]
      have := hK h0
      simp only [Bool.false_eq_true, if_false] at this
      rw [max_eq_right this]
    · have hpos : 0 < max sr0 (2 * ts) := lt_max_of_lt_left h0
      simp only [Bool.true_and, decide_eq_true_eq, h0, if_true, hnle, if_false, hpos]
      have := hK h0
      simp only [if_true] at this
      rw [max_eq_right this]
  · have hle : sr0 ≤ 0 := not_lt.1 h0
    have he2 : (1 / 10 ^ 15 : ℝ) ≤ e1 * e1 := by nlinarith
    cases refsafe <;> simp only [Bool.false_and, Bool.true_and, Bool.false_eq_true, decide_eq_true_eq, h0, hle, if_true, if_false, max_eq_right he2]


/-- B: `_kbi` = `mj_makeImpedance` -/
theorem mjx_B_eq_c (refsafe : Bool) (ts sr0 sr1 e1 : ℝ) (hfmt : 0 < sr0 ↔ 0 < sr1)
    (he : 1 / 10000 ≤ e1)
    (hB : 0 < sr0 → (1 / 10 ^ 15 : ℝ) ≤ e1 * (if refsafe then max sr0 (2 * ts) else sr0)) :
    mjxB sr1 (if refsafe then MjNum.max sr0 (two * ts) else sr0) e1
      = cB (cSolref refsafe ts sr0 sr1).1 (cSolref refsafe ts sr0 sr1).2 e1 := by
  have hmix : ((decide (0 < sr0)) != (decide (0 < sr1))) = false := by
    by_cases h : 0 < sr0
    · simp [h, hfmt.1 h]
    · have h' : ¬ 0 < sr1 := fun h1 => h (hfmt.2 h1)
      simp [h, h']
  simp only [mjxB, cB, cSolref, max_real, one_real, zero_real, two_real, k_mul, k_div, k_neg, k_lt, k_le, hmix, minval_real]
  simp only [Bool.false_eq_true, if_false]
  by_cases h1 : 0 < sr1
  · have h0 : 0 < sr0 := hfmt.2 h1
    have hnle : ¬ sr1 ≤ 0 := not_le.2 h1
    cases refsafe
    · simp only [Bool.false_and, Bool.false_eq_true, if_false, h1, if_true, hnle]
      have := hB h0
      simp only [Bool.false_eq_true, if_false] at this
      rw [max_eq_right this]
    · simp only [Bool.true_and, decide_eq_true_eq, h0, h1, if_true, hnle, if_false]
      have := hB h0
      simp only [if_true] at this
      rw [max_eq_right this]
  · have hle : sr1 ≤ 0 := not_lt.1 h1
    have he2 : (1 / 10 ^ 15 : ℝ) ≤ e1 := by
      have : (1 / 10 ^ 15 : ℝ) ≤ 1 / 10000 := by norm_num
      linarith
    simp only [h1, hle, if_true, if_false, max_eq_right he2]


/-- `g u v P = u^P / v^(P-1)`: both branches of the impedance spline -/
noncomputable def gS (u v P : ℝ) : ℝ := 1 / v ^ (P - 1) * u ^ P

theorem gS_eq (u v P : ℝ) (hu : 0 < u) : gS u v P = (u ^ (P - 1) / v ^ (P - 1)) * u := by
  unfold gS
  have h : u ^ P = u ^ (P - 1) * u := by
    have := Real.rpow_add_one (ne_of_gt hu) (P - 1)
    simpa using this
  rw [h]; ring

theorem gS_bounds (u v P : ℝ) (hu : 0 < u) (huv : u ≤ v) (hP : 1 ≤ P) : 0 ≤ gS u v P ∧ gS u v P ≤ u := by
  have hv : 0 < v := lt_of_lt_of_le hu huv
  have hvp : 0 < v ^ (P - 1) := Real.rpow_pos_of_pos hv _
  have hup : 0 < u ^ (P - 1) := Real.rpow_pos_of_pos hu _
  have hle : u ^ (P - 1) ≤ v ^ (P - 1) := Real.rpow_le_rpow hu.le huv (by linarith)
  have hr0 : 0 ≤ u ^ (P - 1) / v ^ (P - 1) := (div_pos hup hvp).le
  have hr1 : u ^ (P - 1) / v ^ (P - 1) ≤ 1 := (div_le_one hvp).2 hle
  rw [gS_eq u v P hu]
  constructor
  · exact mul_nonneg hr0 hu.le
  · calc u ^ (P - 1) / v ^ (P - 1) * u ≤ 1 * u := mul_le_mul_of_nonneg_right hr1 hu.le
      _ = u := one_mul u

theorem gS_self (v P : ℝ) (hv : 0 < v) : gS v v P = v := by
  rw [gS_eq v v P hv, div_self (ne_of_gt (Real.rpow_pos_of_pos hv _)), one_mul]

theorem gS_one (u v : ℝ) : gS u v 1 = u := by
  unfold gS; simp

theorem gS_zero (v P : ℝ) (hP : 1 ≤ P) : gS 0 v P = 0 := by
  unfold gS
  rw [Real.zero_rpow (by linarith : P ≠ 0), mul_zero]


/-- the impedance of `_kbi` as a real function of `x = |pos| / width` -/
noncomputable def impJ (D0 D1 M P x : ℝ) : ℝ :=
  if 1 < x then D1 else
    min (max (D0 + (if x < M then gS x M P else 1 - gS (1 - x) (1 - M) P) * (D1 - D0)) D0) D1

/-- the non-flat part of `getimpedance` as a real function of `x = |pos - margin| / width` -/
noncomputable def impC (D0 D1 M P x : ℝ) : ℝ :=
  if 1 ≤ x ∨ x ≤ 0 then (if 1 ≤ x then D1 else D0) else
    D0 + (if P = 1 then x else if x ≤ M then gS x M P else 1 - gS (1 - x) (1 - M) P) * (D1 - D0)

theorem impJ_eq_impC (D0 D1 M P x : ℝ) (hD : D0 ≤ D1) (hM0 : 0 < M) (hM1 : M < 1) (hP : 1 ≤ P) (hx : 0 ≤ x) :
    impJ D0 D1 M P x = impC D0 D1 M P x := by
  unfold impJ impC
  by_cases h1 : 1 < x
  · rw [if_pos h1, if_pos (Or.inl h1.le), if_pos h1.le]
  rw [if_neg h1]
  by_cases hx1 : x = 1
  · subst hx1
    rw [if_pos (Or.inl le_rfl), if_pos le_rfl, if_neg (not_lt.2 hM1.le), sub_self, gS_zero _ _ hP]
    have : D0 + (1 - 0) * (D1 - D0) = D1 := by ring
    rw [this, max_eq_left hD, min_self]
  have hlt1 : x < 1 := lt_of_le_of_ne (not_lt.1 h1) hx1
  by_cases hx0 : x = 0
  · subst hx0
    rw [if_pos (Or.inr le_rfl), if_neg (by norm_num : ¬ (1 : ℝ) ≤ 0), if_pos hM0, gS_zero _ _ hP]
    have : D0 + 0 * (D1 - D0) = D0 := by ring
    rw [this, max_self, min_eq_left hD]
  have hpos : 0 < x := lt_of_le_of_ne hx (Ne.symm hx0)
  have hnot : ¬ (1 ≤ x ∨ x ≤ 0) := by
    rintro (h | h)
    · exact absurd h (not_le.2 hlt1)
    · exact absurd h (not_le.2 hpos)
  rw [if_neg hnot]
  -- the spline value of MJX, its bounds, and its equality with the C value
  have hy : ∃ y, (if x < M then gS x M P else 1 - gS (1 - x) (1 - M) P) = y ∧ 0 ≤ y ∧ y ≤ 1 ∧
      (if P = 1 then x else if x ≤ M then gS x M P else 1 - gS (1 - x) (1 - M) P) = y := by
    by_cases hxm : x < M
    · refine ⟨gS x M P, if_pos hxm, (gS_bounds x M P hpos hxm.le hP).1, ?_, ?_⟩
      · exact le_trans (gS_bounds x M P hpos hxm.le hP).2 hlt1.le
      · by_cases hp1 : P = 1
        · rw [if_pos hp1, hp1, gS_one]
        · rw [if_neg hp1, if_pos hxm.le]
    · have hmx : M ≤ x := not_lt.1 hxm
      have hu : 0 < 1 - x := by linarith
      have huv : 1 - x ≤ 1 - M := by linarith
      have hb := gS_bounds (1 - x) (1 - M) P hu huv hP
      refine ⟨1 - gS (1 - x) (1 - M) P, if_neg hxm, by linarith [hb.2], by linarith [hb.1], ?_⟩
      by_cases hp1 : P = 1
      · rw [if_pos hp1, hp1, gS_one]; ring
      · rw [if_neg hp1]
        by_cases hxeq : x ≤ M
        · have hxM : x = M := le_antisymm hxeq hmx
          rw [if_pos hxeq, hxM, gS_self M P hM0, gS_self (1 - M) P (by linarith)]; ring
        · rw [if_neg hxeq]
  obtain ⟨y, hyJ, hy0, hy1, hyC⟩ := hy
  rw [hyJ, hyC]
  have hlo : D0 ≤ D0 + y * (D1 - D0) := by nlinarith
  have hhi : D0 + y * (D1 - D0) ≤ D1 := by nlinarith
  rw [max_eq_left hlo, min_eq_left hhi]


theorem rpw_def (a b : ℝ) : rpw a b = a ^ b := rfl

theorem mjxImp_real (D0 D1 W M P x0 : ℝ) : mjxImp rpw D0 D1 W M P x0 = impJ D0 D1 M P (|x0| / W) := by
  simp only [mjxImp, impJ, gS, jclip_real, real_abs, one_real, k_mul, k_add, k_sub, k_div, k_lt, rpw_def]

theorem cImp_real (D0 D1 W M P x0 : ℝ) (hW : 1 / 10 ^ 15 < W) (hne : D0 ≠ D1) :
    cImp rpw D0 D1 W M P x0 = impC D0 D1 M P (|x0| / W) := by
  have hWpos : 0 < W := lt_trans (by positivity) hW
  have hx : (if x0 / W < 0 then -(x0 / W) else x0 / W) = |x0| / W := by
    rw [← abs_of_pos hWpos, ← abs_div, abs_of_pos hWpos]
    split_ifs with h
    · rw [abs_of_neg h]
    · rw [abs_of_nonneg (not_lt.1 h)]
  simp only [cImp, impC, gS, cPower_real, real_beq, one_real, zero_real, minval_real, k_mul, k_add, k_sub, k_div, k_lt, k_le, k_neg,
    Bool.or_eq_true, decide_eq_true_eq, hx]
  rw [if_neg (by rintro (h | h); exact hne h; exact absurd h (not_le.2 hW))]


theorem impJ_flat (D M P x : ℝ) : impJ D D M P x = D := by
  unfold impJ
  split_ifs <;> simp

theorem cImp_flat (D W M P x0 : ℝ) : cImp rpw D D W M P x0 = D := by
  simp only [cImp, real_beq, decide_true, Bool.true_or, if_true, half_real, k_mul, k_add]
  ring

/-- impedance: `_kbi` = `getimpedance` after the clamping of `getsolparam` -/
theorem mjx_imp_eq_c (D0 D1 W M P x0 : ℝ) (hD : D0 ≤ D1) (hW : 1 / 10 ^ 15 < W) (hM0 : 0 < M) (hM1 : M < 1) (hP : 1 ≤ P) :
    mjxImp rpw D0 D1 W M P x0 = cImp rpw D0 D1 W M P x0 := by
  by_cases hne : D0 = D1
  · subst hne
    rw [mjxImp_real, impJ_flat, cImp_flat]
  · have hWpos : 0 < W := lt_trans (by positivity) hW
    rw [mjxImp_real, cImp_real _ _ _ _ _ _ hW hne]
    exact impJ_eq_impC D0 D1 M P _ hD hM0 hM1 hP (div_nonneg (abs_nonneg _) hWpos.le)

/-! ### layout of the sparse inertia matrix (core lemmas for `mjx_euler_damping_on_diagonal`) -/

theorem flatten_last (rows : List (List Nat)) (i : Nat) (r : List Nat) (h : rows[i]? = some r) (hne : r ≠ []) :
    rows.flatten[rowAdr rows i + r.length - 1]? = r.getLast? := by
  induction rows generalizing i with
  | nil => simp at h
  | cons a rest ih =>
    cases i with
    | zero =>
      simp at h; subst h
      have hl : 0 < a.length := List.length_pos_iff.2 hne
      simp only [rowAdr, List.take_zero, List.map_nil, List.sum_nil, Nat.zero_add, List.flatten_cons]
      rw [List.getElem?_append_left (by omega), List.getLast?_eq_getElem?]
    | succ j =>
      simp at h
      have hl : 0 < r.length := List.length_pos_iff.2 hne
      have := ih j h
      simp only [rowAdr, List.take_succ_cons, List.map_cons, List.sum_cons, List.flatten_cons] at *
      rw [List.getElem?_append_right (by omega)]
      rw [← this]; congr 1; omega

theorem foldl_sparseStep_length (ps : List Int) (init : List (List Nat)) :
    (ps.foldl sparseStep init).length = init.length + ps.length := by
  induction ps generalizing init with
  | nil => simp
  | cons p ps ih => simp only [List.foldl_cons]; rw [ih]; simp [sparseStep]; omega

theorem sparseRows_length (ps : List Int) : (sparseRows ps).length = ps.length := by
  simpa [sparseRows] using foldl_sparseStep_length ps []

theorem foldl_sparseStep_last (ps : List Int) (init : List (List Nat))
    (hi : ∀ (k : Nat) (r : List Nat), init[k]? = some r → r.getLast? = some k) :
    ∀ (k : Nat) (r : List Nat), (ps.foldl sparseStep init)[k]? = some r → r.getLast? = some k := by
  induction ps generalizing init with
  | nil => intro k r hk; exact hi k r hk
  | cons p ps ih =>
    simp only [List.foldl_cons]
    apply ih
    intro k r hk
    unfold sparseStep at hk
    by_cases hlt : k < init.length
    · rw [List.getElem?_append_left hlt] at hk; exact hi k r hk
    · have hge : init.length ≤ k := Nat.le_of_not_lt hlt
      rw [List.getElem?_append_right hge] at hk
      have hk0 : k - init.length = 0 := by
        rcases Nat.eq_zero_or_pos (k - init.length) with h0 | hpos
        · exact h0
        · rw [List.getElem?_eq_none (by simp; omega)] at hk
          exact absurd hk (by simp)
      rw [hk0] at hk
      simp at hk
      subst hk
      simp; omega

theorem sparseRows_last (ps : List Int) (i : Nat) (r : List Nat) (h : (sparseRows ps)[i]? = some r) : r.getLast? = some i :=
  foldl_sparseStep_last ps [] (by simp) i r h

end MjProof.MjxKbi
