import MjProof.Model.XmlDefaults
/-
Lemmas for C32 (table level): `readRow (writeRow x) ` and `readElem (writeElem x)` for the model of the generated-table
attribute writer / reader (Model/XmlDefaults.lean), for every row table, every default and every object.
-/
namespace MjProof.XmlDefaults

variable {α : Type}

/-- component-wise relation between two lists of the same length -/
inductive All₂ {β γ : Type} (R : β → γ → Prop) : List β → List γ → Prop
  | nil : All₂ R [] []
  | cons {x y xs ys} : R x y → All₂ R xs ys → All₂ R (x :: xs) (y :: ys)

theorem sameVec_all₂ (S : Scalar α) : ∀ (xs ds : List α), sameVec S xs ds = true →
    All₂ (fun x d => S.same x d = true) xs ds
  | [], [], _ => .nil
  | x :: xs, d :: ds, h => by
    simp only [sameVec, Bool.and_eq_true] at h
    exact .cons h.1 (sameVec_all₂ S xs ds h.2)
  | [], _ :: _, h => by simp [sameVec] at h
  | _ :: _, [], h => by simp [sameVec] at h

/-- the kept prefix, and the dropped tail is component-wise `==` the default -/
theorem trimTrail_spec (S : Scalar α) : ∀ (xs ds : List α), xs.length = ds.length →
    ∃ zs, xs = trimTrail S xs ds ++ zs ∧
      All₂ (fun x d => S.eqb x d = true) zs (ds.drop (trimTrail S xs ds).length)
  | [], [], _ => ⟨[], by simp [trimTrail], by simpa [trimTrail] using All₂.nil⟩
  | x :: xs, d :: ds, h => by
    have hl : xs.length = ds.length := by simpa using h
    obtain ⟨zs, h1, h2⟩ := trimTrail_spec S xs ds hl
    rw [trimTrail]
    cases ht : trimTrail S xs ds with
    | nil =>
      rw [ht] at h1 h2
      simp only [List.nil_append, List.length_nil, List.drop_zero] at h1 h2
      by_cases he : S.eqb x d = true
      · simp only [he, if_true]
        refine ⟨x :: xs, by simp, ?_⟩
        simp only [List.length_nil, List.drop_zero]
        rw [h1]
        exact .cons he h2
      · simp only [he, Bool.false_eq_true, if_false]
        refine ⟨xs, by simp, ?_⟩
        simp only [List.length_cons, List.length_nil, List.drop_succ_cons, List.drop_zero]
        rw [h1]; exact h2
    | cons y ys =>
      rw [ht] at h1 h2
      refine ⟨zs, by simp [h1], ?_⟩
      simpa using h2
  | [], _ :: _, h => by simp at h
  | _ :: _, [], h => by simp at h

theorem trimTrail_nil_same (S : Scalar α) (heq : ∀ a b, S.eqb a b = true → S.same a b = true) :
    ∀ (xs ds : List α), xs.length = ds.length → trimTrail S xs ds = [] → sameVec S xs ds = true := by
  intro xs ds hl ht
  obtain ⟨zs, h1, h2⟩ := trimTrail_spec S xs ds hl
  rw [ht] at h1 h2
  simp only [List.nil_append, List.length_nil, List.drop_zero] at h1 h2
  subst h1
  clear ht hl
  induction h2 with
  | nil => rfl
  | cons h _ ih => simp [sameVec, heq _ _ h, ih]
theorem All₂.imp {β γ : Type} {R Q : β → γ → Prop} (h : ∀ a b, R a b → Q a b) :
    ∀ {xs ys}, All₂ R xs ys → All₂ Q xs ys
  | _, _, .nil => .nil
  | _, _, .cons h1 h2 => .cons (h _ _ h1) (All₂.imp h h2)

theorem All₂.append {β γ : Type} {R : β → γ → Prop} :
    ∀ {xs ys xs' ys'}, All₂ R xs ys → All₂ R xs' ys' → All₂ R (xs ++ xs') (ys ++ ys')
  | _, _, _, _, .nil, h => h
  | _, _, _, _, .cons h1 h2, h => .cons h1 (All₂.append h2 h)

theorem all₂_map_quant (S : Scalar α) : ∀ (ys : List α),
    All₂ (fun x y => y = S.quant x ∨ S.same x y = true) ys (ys.map S.quant)
  | [] => .nil
  | y :: ys => .cons (Or.inl rfl) (all₂_map_quant S ys)

/-- what a numeric / keyword field looks like after write + read -/
def RowRT (S : Scalar α) : Val α → Val α → Prop
  | .vec xs, .vec ys => All₂ (fun x y => y = S.quant x ∨ S.same x y = true) xs ys
  | .code c, .code c' => c = c'
  | .opaque, .opaque => True
  | _, _ => False

def handled (wd : Bool) (r : Row) : Bool := !(r.handwrite || (wd && r.nodefault))

def KeyOK (keys : List (String × Int)) (c : Int) : Prop :=
  findValue keys c ≠ "" ∧ findKey keys (findValue keys c) = c ∧ 0 ≤ c

/-- the object and the default it is compared with are typed as the row says -/
inductive WT (K : Kind → Scalar α) (r : Row) : Val α → Val α → Prop
  | num (xs ds : List α) : r.kind.isNum = true → xs.length = r.len → ds.length = r.len →
      xs.any (K r.kind).isNaN = false → WT K r (.vec xs) (.vec ds)
  | key (c dc : Int) : r.kind.isNum = false → r.kind.isKey = true → (c = dc ∨ KeyOK r.keys c) → WT K r (.code c) (.code dc)
  | other : r.kind.isNum = false → r.kind.isKey = false → WT K r .opaque .opaque

theorem readRow_writeRow (K : Kind → Scalar α)
    (heq : ∀ k a b, (K k).eqb a b = true → (K k).same a b = true)
    (wd : Bool) (r : Row) (v d : Val α) (hwt : WT K r v d)
    (hreq0 : (r.kind.isNum || r.kind.isKey) = true → r.required = false) :
    ∃ v', readRow wd r d (writeRow K wd r v d) = .ok v' ∧
      (if handled wd r then RowRT (K r.kind) v v' else v' = d) := by
  have hreq : (r.kind.isNum = true ∨ r.kind.isKey = true) → r.required = false := by
    intro h; apply hreq0; simpa using h
  by_cases hnd : (wd && r.nodefault) = true
  · -- skipped on both sides
    refine ⟨d, ?_, ?_⟩
    · simp [readRow, hnd]
    · simp [handled, hnd]
  have hnd' : (wd && r.nodefault) = false := by simpa using hnd
  by_cases hhw : r.handwrite = true
  · refine ⟨d, ?_, ?_⟩
    · cases hwt with
      | num xs ds hk _ _ _ => simp [readRow, writeRow, hnd', hhw, hk, hreq (Or.inl hk)]
      | key c dc hn hk _ => simp [readRow, writeRow, hnd', hhw, hk, hn, hreq (Or.inr hk)]
      | other hn hk => simp [readRow, writeRow, hnd', hhw, hk, hn]
    · simp [handled, hhw]
  have hhw' : r.handwrite = false := by simpa using hhw
  have hh : handled wd r = true := by simp [handled, hhw', hnd']
  simp only [hh, if_true]
  cases hwt with
  | other hn hk =>
    exact ⟨.opaque, by simp [readRow, writeRow, hnd', hhw', hk, hn], trivial⟩
  | key c dc hn hk hc =>
    have hreq := hreq (Or.inr hk)
    by_cases hcd : c = dc
    · subst hcd
      exact ⟨.code c, by simp [readRow, writeRow, hnd', hhw', hk, hn, hreq], rfl⟩
    · rcases hc with hc | ⟨h1, h2, h3⟩
      · exact absurd hc hcd
      · refine ⟨.code c, ?_, rfl⟩
        have hcd' : (c == dc) = false := by simpa using hcd
        have h1' : (findValue r.keys c == "") = false := by simpa using h1
        have h3' : ¬ c < 0 := by omega
        simp [readRow, writeRow, hnd', hhw', hk, hn, hcd', h1', h2, h3']
  | num xs ds hk hx hd hnan =>
    have hreq := hreq (Or.inl hk)
    have hS := heq r.kind
    by_cases hs : sameVec (K r.kind) xs ds = true
    · refine ⟨.vec ds, by simp [readRow, writeRow, hnd', hhw', hk, hnan, hs, hreq], ?_⟩
      exact All₂.imp (fun _ _ h => Or.inr h) (sameVec_all₂ _ _ _ hs)
    · have hs' : sameVec (K r.kind) xs ds = false := by simpa using hs
      have hlen : xs.length = ds.length := by rw [hx, hd]
      by_cases hex : r.exact = true
      · -- no trimming: all `len` values are written
        by_cases hemp : xs = []
        · subst hemp
          have : ds = [] := List.eq_nil_of_length_eq_zero (by simpa using hlen.symm)
          subst this
          simp [sameVec] at hs'
        · refine ⟨.vec (xs.map (K r.kind).quant), ?_, all₂_map_quant _ xs⟩
          have hne : (xs.map (K r.kind).quant).isEmpty = false := by
            cases xs with
            | nil => exact absurd rfl hemp
            | cons _ _ => rfl
          have hne2 : xs.isEmpty = false := by
            cases xs with
            | nil => exact absurd rfl hemp
            | cons _ _ => rfl
          simp [readRow, writeRow, hnd', hhw', hk, hnan, hs', hex, hne, hne2, hx, hd]
      · have hex' : r.exact = false := by simpa using hex
        obtain ⟨zs, h1, h2⟩ := trimTrail_spec (K r.kind) xs ds hlen
        by_cases hemp : trimTrail (K r.kind) xs ds = []
        · exact absurd (trimTrail_nil_same _ hS xs ds hlen hemp) hs
        · have hle : (trimTrail (K r.kind) xs ds).length ≤ r.len := by
            have := congrArg List.length h1
            simp only [List.length_append] at this
            omega
          refine ⟨.vec ((trimTrail (K r.kind) xs ds).map (K r.kind).quant ++
              ds.drop (trimTrail (K r.kind) xs ds).length), ?_, ?_⟩
          · have hne : (trimTrail (K r.kind) xs ds).isEmpty = false := by
              cases ht : trimTrail (K r.kind) xs ds with
              | nil => exact absurd ht hemp
              | cons _ _ => rfl
            have hgt : ¬ (trimTrail (K r.kind) xs ds).length > r.len := by omega
            simp [readRow, writeRow, hnd', hhw', hk, hnan, hs', hex', hne, hgt]
          · show All₂ _ xs _
            conv => lhs; rw [h1]
            exact All₂.append (all₂_map_quant _ _) (All₂.imp (fun _ _ h => Or.inr (hS _ _ h)) h2)
/-- an element: rows, object values, default values, all of the same length and typed row by row; rows of the
    kinds the table writes are not `required` -/
inductive ElemWT (K : Kind → Scalar α) : List Row → List (Val α) → List (Val α) → Prop
  | nil : ElemWT K [] [] []
  | cons {r rs v vs d ds} : WT K r v d → ((r.kind.isNum || r.kind.isKey) = true → r.required = false) →
      ElemWT K rs vs ds → ElemWT K (r :: rs) (v :: vs) (d :: ds)

/-- result of write + read, row by row -/
inductive ElemRT (K : Kind → Scalar α) (wd : Bool) : List Row → List (Val α) → List (Val α) → List (Val α) → Prop
  | nil : ElemRT K wd [] [] [] []
  | cons {r rs v vs d ds v' vs'} : (if handled wd r then RowRT (K r.kind) v v' else v' = d) →
      ElemRT K wd rs vs ds vs' → ElemRT K wd (r :: rs) (v :: vs) (d :: ds) (v' :: vs')

theorem lookup_append_of_not_mem (a : String) : ∀ (pre rest : List (String × Tok α)),
    (∀ p ∈ pre, p.1 ≠ a) → lookup a (pre ++ rest) = lookup a rest
  | [], _, _ => rfl
  | (k, t) :: pre, rest, h => by
    have hk : k ≠ a := h (k, t) (by simp)
    have hk' : (k == a) = false := by simpa using hk
    simp only [List.cons_append, lookup, hk', Bool.false_eq_true, if_false]
    exact lookup_append_of_not_mem a pre rest (fun p hp => h p (by simp [hp]))

theorem writeElem_keys (K : Kind → Scalar α) (wd : Bool) : ∀ (rs : List Row) (vs ds : List (Val α)),
    ∀ p ∈ writeElem K wd rs vs ds, p.1 ∈ rs.map (·.attr)
  | [], _, _, p, hp => by simp [writeElem] at hp
  | _ :: _, [], _, p, hp => by simp [writeElem] at hp
  | _ :: _, _ :: _, [], p, hp => by simp [writeElem] at hp
  | r :: rs, v :: vs, d :: ds, p, hp => by
    rw [writeElem] at hp
    cases hw : writeRow K wd r v d with
    | none =>
      rw [hw] at hp
      have := writeElem_keys K wd rs vs ds p hp
      simp only [List.map_cons, List.mem_cons]; exact Or.inr this
    | some t =>
      rw [hw] at hp
      simp only [List.mem_cons] at hp
      rcases hp with rfl | hp
      · simp
      · have := writeElem_keys K wd rs vs ds p hp
        simp only [List.map_cons, List.mem_cons]; exact Or.inr this

theorem lookup_none_of_not_mem (a : String) : ∀ (l : List (String × Tok α)), (∀ p ∈ l, p.1 ≠ a) → lookup a l = none
  | [], _ => rfl
  | (k, t) :: l, h => by
    have hk : (k == a) = false := by simpa using h (k, t) (by simp)
    simp only [lookup, hk, Bool.false_eq_true, if_false]
    exact lookup_none_of_not_mem a l (fun p hp => h p (by simp [hp]))

/-- reading an element whose attribute list is `pre ++ writeElem rows ..` where `pre` mentions none of the rows -/
theorem readElem_writeElem_aux (K : Kind → Scalar α)
    (heq : ∀ k a b, (K k).eqb a b = true → (K k).same a b = true) (wd : Bool) :
    ∀ (rs : List Row) (vs ds : List (Val α)) (pre : List (String × Tok α)),
      ElemWT K rs vs ds → (rs.map (·.attr)).Nodup → (∀ p ∈ pre, p.1 ∉ rs.map (·.attr)) →
      ∃ vs', readElem wd (pre ++ writeElem K wd rs vs ds) rs ds = .ok vs' ∧ ElemRT K wd rs vs ds vs' := by
  intro rs vs ds pre hwt
  induction hwt generalizing pre with
  | nil => intro _ _; exact ⟨[], by simp [readElem], .nil⟩
  | @cons r rs v vs d ds hw hreq _ ih =>
    intro hnd hpre
    simp only [List.map_cons, List.nodup_cons] at hnd
    obtain ⟨v', hv1, hv2⟩ := readRow_writeRow K heq wd r v d hw hreq
    have hpre_r : ∀ p ∈ pre, p.1 ≠ r.attr := fun p hp h => hpre p hp (by simp [h])
    -- what the reader finds for this row is exactly what the writer produced for it
    have hlook : lookup r.attr (pre ++ writeElem K wd (r :: rs) (v :: vs) (d :: ds)) = writeRow K wd r v d := by
      rw [lookup_append_of_not_mem _ _ _ hpre_r, writeElem]
      cases hwr : writeRow K wd r v d with
      | none =>
        simp only
        exact lookup_none_of_not_mem _ _ (fun p hp h => hnd.1 (h ▸ writeElem_keys K wd rs vs ds p hp))
      | some t => simp [lookup]
    -- the remaining rows: move this row's attribute (if any) into the prefix
    have hrest : ∃ pre', pre ++ writeElem K wd (r :: rs) (v :: vs) (d :: ds) = pre' ++ writeElem K wd rs vs ds ∧
        ∀ p ∈ pre', p.1 ∉ rs.map (·.attr) := by
      rw [writeElem]
      cases hwr : writeRow K wd r v d with
      | none => exact ⟨pre, rfl, fun p hp h => hpre p hp (by simp [h])⟩
      | some t =>
        refine ⟨pre ++ [(r.attr, t)], by simp, ?_⟩
        intro p hp
        simp only [List.mem_append, List.mem_singleton] at hp
        rcases hp with hp | rfl
        · exact fun h => hpre p hp (by simp [h])
        · exact hnd.1
    obtain ⟨pre', he, hpre'⟩ := hrest
    obtain ⟨vs', h1, h2⟩ := ih pre' hnd.2 hpre'
    refine ⟨v' :: vs', ?_, .cons hv2 h2⟩
    rw [readElem, hlook, hv1]
    simp only
    rw [he, h1]

theorem readElem_writeElem (K : Kind → Scalar α)
    (heq : ∀ k a b, (K k).eqb a b = true → (K k).same a b = true) (wd : Bool)
    (rs : List Row) (vs ds : List (Val α)) (hwt : ElemWT K rs vs ds) (hnd : (rs.map (·.attr)).Nodup) :
    ∃ vs', readElem wd (writeElem K wd rs vs ds) rs ds = .ok vs' ∧ ElemRT K wd rs vs ds vs' := by
  simpa using readElem_writeElem_aux K heq wd rs vs ds [] hwt hnd (by simp)

/-! ### exact scalars: what is read back IS the object -/

theorem All₂.eq_of {β : Type} {R : β → β → Prop} (h : ∀ a b, R a b → b = a) :
    ∀ {xs ys : List β}, All₂ R xs ys → ys = xs
  | _, _, .nil => rfl
  | _, _, .cons h1 h2 => by rw [h _ _ h1, All₂.eq_of h h2]

theorem RowRT.eq_of_exact (S : Scalar α) (hq : ∀ a, S.quant a = a) (hs : ∀ a b, S.same a b = true → a = b) :
    ∀ (v v' : Val α), RowRT S v v' → v' = v
  | .vec xs, .vec ys, h => by
    have : ys = xs := All₂.eq_of (fun a b hab => by
      rcases hab with h1 | h2
      · rw [h1, hq]
      · exact (hs a b h2).symm) h
    rw [this]
  | .code c, .code c', h => by simp only [RowRT] at h; rw [h]
  | .opaque, .opaque, _ => rfl
  | .vec _, .code _, h => by simp [RowRT] at h
  | .vec _, .opaque, h => by simp [RowRT] at h
  | .code _, .vec _, h => by simp [RowRT] at h
  | .code _, .opaque, h => by simp [RowRT] at h
  | .opaque, .vec _, h => by simp [RowRT] at h
  | .opaque, .code _, h => by simp [RowRT] at h

/-- row by row: the object's value where the table writes the row, the default's value elsewhere -/
def merged (wd : Bool) : List Row → List (Val α) → List (Val α) → List (Val α)
  | r :: rs, v :: vs, d :: ds => (if handled wd r then v else d) :: merged wd rs vs ds
  | _, _, _ => []

theorem ElemRT.eq_merged (K : Kind → Scalar α) (wd : Bool)
    (hq : ∀ k a, (K k).quant a = a) (hs : ∀ k a b, (K k).same a b = true → a = b) :
    ∀ {rs vs ds vs'}, ElemRT K wd rs vs ds vs' → vs' = merged wd rs vs ds
  | _, _, _, _, .nil => rfl
  | _, _, _, _, .cons (r := r) (v := v) (d := d) (v' := v') h1 h2 => by
    rw [merged, ElemRT.eq_merged K wd hq hs h2]
    by_cases hh : handled wd r = true
    · simp only [hh, if_true] at h1 ⊢
      rw [RowRT.eq_of_exact (K r.kind) (hq _) (hs _) v v' h1]
    · simp only [hh, Bool.false_eq_true, if_false] at h1 ⊢
      rw [h1]

/-- keyword maps: a decidable check implying `KeyOK` for every value listed in the map -/
def mapOK (keys : List (String × Int)) : Bool :=
  keys.all fun p => findValue keys p.2 != "" && findKey keys (findValue keys p.2) == p.2 && decide (0 ≤ p.2)

theorem keyOK_of_mapOK (keys : List (String × Int)) (h : mapOK keys = true) (k : String) (c : Int)
    (hm : (k, c) ∈ keys) : KeyOK keys c := by
  unfold mapOK at h
  rw [List.all_eq_true] at h
  have := h (k, c) hm
  simp only [Bool.and_eq_true, bne_iff_ne, ne_eq, beq_iff_eq, decide_eq_true_eq] at this
  exact ⟨this.1.1, this.1.2, this.2⟩

end MjProof.XmlDefaults
