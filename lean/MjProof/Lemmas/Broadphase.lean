import MjProof.Model.Broadphase
import MjProof.Props.C22
import Mathlib.Data.List.Nodup
import Mathlib.Data.List.ProdSigma
/-
Helper lemmas for C14: order facts on duplicate-free lists, the sweep invariant of `mj_SAP`, and the link
between positions in the stably sorted endpoint list and endpoint values.
-/
namespace MjProof.Broadphase
open List MjProof.Sort

/-! ### "x occurs before y" in a list -/

/-- `x` occurs strictly before `y` in `L` -/
def Bef {α : Type} (L : List α) (x y : α) : Prop := ∃ A B C, L = A ++ x :: B ++ y :: C

theorem Bef.mem_left {α : Type} {L : List α} {x y : α} (h : Bef L x y) : x ∈ L := by
  obtain ⟨A, B, C, rfl⟩ := h; simp

theorem Bef.mem_right {α : Type} {L : List α} {x y : α} (h : Bef L x y) : y ∈ L := by
  obtain ⟨A, B, C, rfl⟩ := h; simp

theorem bef_iff_sublist {α : Type} {L : List α} {x y : α} : Bef L x y ↔ [x, y] <+ L := by
  constructor
  · rintro ⟨A, B, C, rfl⟩
    have h1 : [x, y] <+ x :: B ++ y :: C := by
      apply Sublist.cons_cons
      exact (singleton_sublist.mpr (by simp))
    have : [x, y] <+ A ++ (x :: B ++ y :: C) := h1.trans (sublist_append_right A _)
    simpa using this
  · intro h
    induction L with
    | nil => simp at h
    | cons a L ih =>
      rcases sublist_cons_iff.mp h with h' | ⟨r, hr, hsub⟩
      · obtain ⟨A, B, C, rfl⟩ := ih h'
        exact ⟨a :: A, B, C, by simp⟩
      · have hxa : x = a := by simpa using (List.cons.inj hr).1
        have hr' : r = [y] := by simpa using ((List.cons.inj hr).2).symm
        subst hxa; subst hr'
        have hy : y ∈ L := singleton_sublist.mp hsub
        obtain ⟨B, C, rfl⟩ := append_of_mem hy
        exact ⟨[], B, C, by simp⟩

theorem bef_total {α : Type} {L : List α} {x y : α} (hx : x ∈ L) (hy : y ∈ L) (hne : x ≠ y) :
    Bef L x y ∨ Bef L y x := by
  obtain ⟨A, B, rfl⟩ := append_of_mem hx
  rcases mem_append.mp hy with h | h
  · obtain ⟨A1, A2, rfl⟩ := append_of_mem h
    exact Or.inr ⟨A1, A2, B, by simp⟩
  · rcases mem_cons.mp h with h | h
    · exact absurd h.symm hne
    · obtain ⟨B1, B2, rfl⟩ := append_of_mem h
      exact Or.inl ⟨A, B1, B2, by simp⟩

theorem bef_ne {α : Type} {L : List α} (hn : L.Nodup) {x y : α} (h : Bef L x y) : x ≠ y := by
  obtain ⟨A, B, C, rfl⟩ := h
  intro hxy; subst hxy
  have := hn.sublist (show [x, x] <+ A ++ x :: B ++ x :: C from bef_iff_sublist.mp ⟨A, B, C, rfl⟩)
  simp at this

theorem pair_sublist_cons {α : Type} {a x y : α} {L : List α} :
    [x, y] <+ a :: L ↔ [x, y] <+ L ∨ (x = a ∧ y ∈ L) := by
  rw [sublist_cons_iff]
  constructor
  · rintro (h | ⟨r, hr, hs⟩)
    · exact Or.inl h
    · obtain ⟨h1, h2⟩ := List.cons.inj hr
      subst h2
      exact Or.inr ⟨h1, singleton_sublist.mp hs⟩
  · rintro (h | ⟨h1, h2⟩)
    · exact Or.inl h
    · exact Or.inr ⟨[y], by rw [h1], singleton_sublist.mpr h2⟩

theorem pair_sublist_asymm {α : Type} {x y : α} : ∀ {L : List α}, L.Nodup → [x, y] <+ L → [y, x] <+ L → False
  | [], _, h, _ => by simp at h
  | a :: L, hn, h1, h2 => by
    rw [nodup_cons] at hn
    rcases pair_sublist_cons.mp h1 with k1 | ⟨hx, hy⟩ <;> rcases pair_sublist_cons.mp h2 with k2 | ⟨hy', hx'⟩
    · exact pair_sublist_asymm hn.2 k1 k2
    · subst hy'; exact hn.1 (k1.subset (mem_cons_of_mem _ (mem_singleton.mpr rfl)))
    · subst hx; exact hn.1 (k2.subset (mem_cons_of_mem _ (mem_singleton.mpr rfl)))
    · subst hx; exact hn.1 hx'

theorem bef_asymm {α : Type} {L : List α} (hn : L.Nodup) {x y : α} (h : Bef L x y) : ¬ Bef L y x :=
  fun h2 => pair_sublist_asymm hn (bef_iff_sublist.mp h) (bef_iff_sublist.mp h2)

/-- in a duplicate-free list, `y` lies strictly between `x` and `z` iff it is after `x` and before `z` -/
theorem mem_between_iff {α : Type} {A B C : List α} {x z y : α} (hn : (A ++ x :: B ++ z :: C).Nodup) :
    y ∈ B ↔ Bef (A ++ x :: B ++ z :: C) x y ∧ Bef (A ++ x :: B ++ z :: C) y z := by
  constructor
  · intro hy
    obtain ⟨B1, B2, rfl⟩ := append_of_mem hy
    exact ⟨⟨A, B1, B2 ++ z :: C, by simp⟩, ⟨A ++ x :: B1, B2, C, by simp⟩⟩
  · rintro ⟨h1, h2⟩
    have hy : y ∈ A ++ x :: B ++ z :: C := h1.mem_right
    have hyx : x ≠ y := bef_ne hn h1
    have hyz : y ≠ z := bef_ne hn h2
    simp only [mem_append, mem_cons] at hy
    rcases hy with (hy | hy | hy) | hy | hy
    · exfalso
      obtain ⟨A1, A2, rfl⟩ := append_of_mem hy
      exact bef_asymm hn h1 ⟨A1, A2, B ++ z :: C, by simp⟩
    · exact absurd hy.symm hyx
    · exact hy
    · exact absurd hy hyz
    · exfalso
      obtain ⟨C1, C2, rfl⟩ := append_of_mem hy
      exact bef_asymm hn h2 ⟨A ++ x :: B, C1, C2, by simp⟩

/-! ### the sweep of `mj_SAP` -/

section sweep
variable {ι K β : Type} [DecidableEq ι]

/-- `(id, isMax)`: what `id_ismax` encodes -/
def EP.key (e : EP ι K β) : ι × Bool := (e.id, e.isMax)

/-- `activebuf` after the sweep has processed the prefix `L` starting from `act` -/
def activeAfter : List (EP ι K β) → List (EP ι K β) → List (EP ι K β)
  | [], act => act
  | e :: es, act => activeAfter es (if e.isMax then removeFirst e.id act else act ++ [e])

theorem removeFirst_sublist (i : ι) : ∀ act : List (EP ι K β), removeFirst i act <+ act
  | [] => by simp [removeFirst]
  | a :: as => by
    unfold removeFirst
    split
    · exact sublist_cons_self a as
    · exact (removeFirst_sublist i as).cons_cons a

theorem mem_removeFirst (i : ι) : ∀ (act : List (EP ι K β)), (act.map (·.id)).Nodup → ∀ a,
    (a ∈ removeFirst i act ↔ a ∈ act ∧ a.id ≠ i)
  | [], _, a => by simp [removeFirst]
  | b :: bs, hn, a => by
    rw [map_cons, nodup_cons] at hn
    unfold removeFirst
    split
    · rename_i hb
      constructor
      · intro ha
        refine ⟨mem_cons_of_mem _ ha, ?_⟩
        intro hai
        exact hn.1 (by rw [hb, ← hai]; exact mem_map_of_mem ha)
      · rintro ⟨ha, hai⟩
        rcases mem_cons.mp ha with rfl | ha
        · exact absurd hb hai
        · exact ha
    · rename_i hb
      rw [mem_cons, mem_removeFirst i bs hn.2 a, mem_cons]
      constructor
      · rintro (rfl | ⟨h1, h2⟩)
        · exact ⟨Or.inl rfl, hb⟩
        · exact ⟨Or.inr h1, h2⟩
      · rintro ⟨rfl | h1, h2⟩
        · exact Or.inl rfl
        · exact Or.inr ⟨h1, h2⟩

theorem mem_sweep (gt : β → β → Bool) (p : ι × ι) : ∀ (L act : List (EP ι K β)),
    (p ∈ sweep gt L act ↔ ∃ L1 e L2, L = L1 ++ e :: L2 ∧ e.isMax = false ∧
      ∃ a ∈ activeAfter L1 act, yzPrune gt a.yz e.yz = false ∧ p = (a.id, e.id))
  | [], act => by simp [sweep]
  | x :: xs, act => by
    unfold sweep
    by_cases hx : x.isMax = true
    · simp only [hx, ↓reduceIte]
      rw [mem_sweep gt p xs]
      constructor
      · rintro ⟨L1, e, L2, rfl, he, a, ha, hyz, hp⟩
        exact ⟨x :: L1, e, L2, by simp, he, a, by simpa [activeAfter, hx] using ha, hyz, hp⟩
      · rintro ⟨L1, e, L2, hL, he, a, ha, hyz, hp⟩
        rcases cons_eq_append_iff.mp hL with ⟨rfl, h2⟩ | ⟨L1', rfl, h2⟩
        · obtain ⟨rfl, _⟩ := List.cons.inj h2
          rw [hx] at he; exact absurd he (by simp)
        · exact ⟨L1', e, L2, h2, he, a, by simpa [activeAfter, hx] using ha, hyz, hp⟩
    · have hx' : x.isMax = false := by simpa using hx
      simp only [hx', Bool.false_eq_true, ↓reduceIte, mem_append, mem_map, mem_filter]
      rw [mem_sweep gt p xs]
      constructor
      · rintro (⟨a, ⟨ha, hyz⟩, hp⟩ | ⟨L1, e, L2, rfl, he, a, ha, hyz, hp⟩)
        · exact ⟨[], x, xs, by simp, hx', a, by simpa [activeAfter] using ha, by simpa using hyz, hp.symm⟩
        · exact ⟨x :: L1, e, L2, by simp, he, a, by simpa [activeAfter, hx'] using ha, hyz, hp⟩
      · rintro ⟨L1, e, L2, hL, he, a, ha, hyz, hp⟩
        rcases cons_eq_append_iff.mp hL with ⟨rfl, h2⟩ | ⟨L1', rfl, h2⟩
        · obtain ⟨rfl, rfl⟩ := List.cons.inj h2
          exact Or.inl ⟨a, ⟨by simpa [activeAfter] using ha, by simpa using hyz⟩, hp.symm⟩
        · exact Or.inr ⟨L1', e, L2, h2, he, a, by simpa [activeAfter, hx'] using ha, hyz, hp⟩

/-- ids of min entries are distinct when the keys are -/
theorem ids_nodup_of_keys (act : List (EP ι K β)) (hmin : ∀ a ∈ act, a.isMax = false)
    (hn : (act.map EP.key).Nodup) : (act.map (·.id)).Nodup := by
  induction act with
  | nil => simp
  | cons a as ih =>
    rw [map_cons, nodup_cons] at hn ⊢
    refine ⟨?_, ih (fun b hb => hmin b (mem_cons_of_mem _ hb)) hn.2⟩
    intro hmem
    obtain ⟨b, hb, hba⟩ := mem_map.mp hmem
    apply hn.1
    refine mem_map.mpr ⟨b, hb, ?_⟩
    have h1 := hmin a (by simp)
    have h2 := hmin b (mem_cons_of_mem _ hb)
    simp only [EP.key, hba, h1, h2]

theorem mem_activeAfter (a : EP ι K β) : ∀ (L1 act : List (EP ι K β)), (∀ b ∈ act, b.isMax = false) →
    ((act ++ L1).map EP.key).Nodup →
    (a ∈ activeAfter L1 act ↔
      (a ∈ act ∧ ∀ m ∈ L1, ¬(m.isMax = true ∧ m.id = a.id)) ∨
      (∃ A B, L1 = A ++ a :: B ∧ a.isMax = false ∧ ∀ m ∈ B, ¬(m.isMax = true ∧ m.id = a.id)))
  | [], act, _, _ => by simp [activeAfter]
  | x :: xs, act, hmin, hnd => by
    unfold activeAfter
    by_cases hx : x.isMax = true
    · simp only [hx, ↓reduceIte]
      have hsub : removeFirst x.id act <+ act := removeFirst_sublist _ _
      have hmin' : ∀ b ∈ removeFirst x.id act, b.isMax = false := fun b hb => hmin b (hsub.subset hb)
      have hnd' : ((removeFirst x.id act ++ xs).map EP.key).Nodup := by
        refine hnd.sublist ?_
        apply Sublist.map
        exact (hsub.append (sublist_cons_self x xs))
      have hids : (act.map (·.id)).Nodup := by
        apply ids_nodup_of_keys act hmin
        rw [map_append] at hnd
        exact (nodup_append.mp hnd).1
      rw [mem_activeAfter a xs _ hmin' hnd', mem_removeFirst x.id act hids]
      constructor
      · rintro (⟨⟨ha, hne⟩, hall⟩ | ⟨A, B, rfl, hamin, hB⟩)
        · refine Or.inl ⟨ha, ?_⟩
          intro m hm
          rcases mem_cons.mp hm with rfl | hm
          · exact fun h => hne h.2.symm
          · exact hall m hm
        · exact Or.inr ⟨x :: A, B, by simp, hamin, hB⟩
      · rintro (⟨ha, hall⟩ | ⟨A, B, hL, hamin, hB⟩)
        · refine Or.inl ⟨⟨ha, ?_⟩, fun m hm => hall m (mem_cons_of_mem _ hm)⟩
          intro hax
          exact hall x (by simp) ⟨hx, hax.symm⟩
        · rcases cons_eq_append_iff.mp hL with ⟨rfl, h2⟩ | ⟨A', rfl, h2⟩
          · obtain ⟨rfl, _⟩ := List.cons.inj h2
            rw [hx] at hamin; exact absurd hamin (by simp)
          · exact Or.inr ⟨A', B, h2, hamin, hB⟩
    · have hx' : x.isMax = false := by simpa using hx
      simp only [hx', Bool.false_eq_true, ↓reduceIte]
      have hmin' : ∀ b ∈ act ++ [x], b.isMax = false := by
        intro b hb
        rcases mem_append.mp hb with hb | hb
        · exact hmin b hb
        · rw [mem_singleton.mp hb]; exact hx'
      have hnd' : ((act ++ [x] ++ xs).map EP.key).Nodup := by simpa using hnd
      rw [mem_activeAfter a xs _ hmin' hnd']
      constructor
      · rintro (⟨ha, hall⟩ | ⟨A, B, rfl, hamin, hB⟩)
        · rcases mem_append.mp ha with ha | ha
          · refine Or.inl ⟨ha, ?_⟩
            intro m hm
            rcases mem_cons.mp hm with rfl | hm
            · simp [hx']
            · exact hall m hm
          · rw [mem_singleton] at ha
            subst ha
            exact Or.inr ⟨[], xs, by simp, hx', hall⟩
        · exact Or.inr ⟨x :: A, B, by simp, hamin, hB⟩
      · rintro (⟨ha, hall⟩ | ⟨A, B, hL, hamin, hB⟩)
        · exact Or.inl ⟨mem_append_left _ ha, fun m hm => hall m (mem_cons_of_mem _ hm)⟩
        · rcases cons_eq_append_iff.mp hL with ⟨rfl, h2⟩ | ⟨A', rfl, h2⟩
          · obtain ⟨rfl, rfl⟩ := List.cons.inj h2
            exact Or.inl ⟨by simp, hB⟩
          · exact Or.inr ⟨A', B, h2, hamin, hB⟩

/-- the pairs produced by the sweep over a list of endpoints with distinct `(id, isMax)` keys: `(i, j)` is
    output iff the min endpoint of `i` precedes the min endpoint of `j`, no max endpoint of `i` lies between
    them, and the y/z test does not prune -/
theorem mem_sweep_nil (gt : β → β → Bool) (L : List (EP ι K β)) (hnd : (L.map EP.key).Nodup) (i j : ι) :
    (i, j) ∈ sweep gt L [] ↔ ∃ A a B e C, L = A ++ a :: B ++ e :: C ∧ a.isMax = false ∧ e.isMax = false ∧
      a.id = i ∧ e.id = j ∧ yzPrune gt a.yz e.yz = false ∧ ∀ m ∈ B, ¬(m.isMax = true ∧ m.id = i) := by
  rw [mem_sweep]
  constructor
  · rintro ⟨L1, e, L2, rfl, he, a, ha, hyz, hp⟩
    have hnd1 : (([] ++ L1).map EP.key).Nodup := by
      rw [map_append] at hnd
      simpa using (nodup_append.mp hnd).1
    rw [mem_activeAfter a L1 [] (by simp) hnd1] at ha
    rcases ha with ⟨ha, _⟩ | ⟨A, B, rfl, hamin, hB⟩
    · simp at ha
    · obtain ⟨h1, h2⟩ := Prod.mk.inj hp
      refine ⟨A, a, B, e, L2, by simp, hamin, he, h1.symm, h2.symm, hyz, ?_⟩
      intro m hm; rw [h1]; exact hB m hm
  · rintro ⟨A, a, B, e, C, rfl, hamin, he, rfl, rfl, hyz, hB⟩
    have hnd1 : (([] ++ (A ++ a :: B)).map EP.key).Nodup := by
      have : (A ++ a :: B ++ e :: C).map EP.key = (A ++ a :: B).map EP.key ++ (e :: C).map EP.key := by simp
      rw [this] at hnd
      simpa using (nodup_append.mp hnd).1
    refine ⟨A ++ a :: B, e, C, by simp, he, a, ?_, hyz, rfl⟩
    rw [mem_activeAfter a _ [] (by simp) hnd1]
    exact Or.inr ⟨A, B, rfl, hamin, hB⟩

end sweep

/-! ### positions in a stably sorted list -/

/-- In a duplicate-free stable sorting `S` of `E`, `x` precedes `y` iff `x` is strictly smaller, or they tie
    and `x` precedes `y` in the input. -/
theorem bef_stableSorted {α : Type} {cmp : α → α → Int} (hc : TotalPreorder cmp) {E S : List α}
    (hs : StableSorted cmp E S) (hn : E.Nodup) {x y : α} (hx : x ∈ E) (hy : y ∈ E) :
    Bef S x y ↔ (cmp x y ≤ 0 ∧ ¬ cmp y x ≤ 0) ∨ (cmp x y ≤ 0 ∧ cmp y x ≤ 0 ∧ Bef E x y) := by
  obtain ⟨hperm, hsorted, hstable⟩ := hs
  have hnS : S.Nodup := hperm.nodup_iff.mpr hn
  have hxS : x ∈ S := hperm.mem_iff.mpr hx
  have hyS : y ∈ S := hperm.mem_iff.mpr hy
  have sorted_of_bef : ∀ {u v : α}, Bef S u v → cmp u v ≤ 0 := by
    intro u v h
    have := hsorted.sublist (bef_iff_sublist.mp h)
    simpa [Le] using this
  constructor
  · intro h
    have hxy : cmp x y ≤ 0 := sorted_of_bef h
    by_cases hyx : cmp y x ≤ 0
    · refine Or.inr ⟨hxy, hyx, ?_⟩
      rcases bef_total hx hy (bef_ne hnS h) with h' | h'
      · exact h'
      · exfalso
        have : [y, x] <+ S := hstable [y, x] (bef_iff_sublist.mp h') (by simp [Le, hyx])
        exact bef_asymm hnS h (bef_iff_sublist.mpr this)
    · exact Or.inl ⟨hxy, hyx⟩
  · rintro (⟨hxy, hyx⟩ | ⟨hxy, hyx, hE⟩)
    · have hne : x ≠ y := by rintro rfl; exact hyx hxy
      rcases bef_total hxS hyS hne with h | h
      · exact h
      · exact absurd (sorted_of_bef h) hyx
    · exact bef_iff_sublist.mpr (hstable [x, y] (bef_iff_sublist.mp hE) (by simp [Le, hxy]))

/-! ### endpoints of a box list -/

section endpoints
variable {ι K β : Type}

/-- the min / max endpoint of a box -/
def Box.lo (b : Box ι K β) : EP ι K β := ⟨b.xlo, b.id, false, b.yz⟩
def Box.hi (b : Box ι K β) : EP ι K β := ⟨b.xhi, b.id, true, b.yz⟩

theorem endpoints_cons (b : Box ι K β) (bs : List (Box ι K β)) :
    endpoints (b :: bs) = b.lo :: b.hi :: endpoints bs := rfl

theorem endpoints_append : ∀ (l1 l2 : List (Box ι K β)), endpoints (l1 ++ l2) = endpoints l1 ++ endpoints l2
  | [], l2 => rfl
  | b :: l1, l2 => by simp [endpoints_cons, endpoints_append l1 l2]

theorem mem_endpoints {e : EP ι K β} : ∀ {bs : List (Box ι K β)}, e ∈ endpoints bs ↔ ∃ b ∈ bs, e = b.lo ∨ e = b.hi
  | [] => by simp [endpoints]
  | b :: bs => by
    rw [endpoints_cons, mem_cons, mem_cons, mem_endpoints (bs := bs)]
    constructor
    · rintro (h | h | ⟨c, hc, h⟩)
      · exact ⟨b, by simp, Or.inl h⟩
      · exact ⟨b, by simp, Or.inr h⟩
      · exact ⟨c, mem_cons_of_mem _ hc, h⟩
    · rintro ⟨c, hc, h⟩
      rcases mem_cons.mp hc with rfl | hc
      · rcases h with h | h
        · exact Or.inl h
        · exact Or.inr (Or.inl h)
      · exact Or.inr (Or.inr ⟨c, hc, h⟩)

theorem keys_endpoints_nodup : ∀ {bs : List (Box ι K β)}, (bs.map (·.id)).Nodup → ((endpoints bs).map EP.key).Nodup
  | [], _ => by simp [endpoints]
  | b :: bs, h => by
    rw [map_cons, nodup_cons] at h
    rw [endpoints_cons, map_cons, map_cons, nodup_cons, nodup_cons]
    have hk : ∀ k ∈ (endpoints bs).map EP.key, k.1 ≠ b.id := by
      intro k hk hkb
      obtain ⟨e, he, rfl⟩ := mem_map.mp hk
      obtain ⟨c, hc, h'⟩ := mem_endpoints.mp he
      apply h.1
      refine mem_map.mpr ⟨c, hc, ?_⟩
      rcases h' with rfl | rfl <;> simpa [EP.key, Box.lo, Box.hi] using hkb
    refine ⟨?_, ?_, keys_endpoints_nodup h.2⟩
    · rw [mem_cons]
      rintro (h' | h')
      · simp [EP.key, Box.lo, Box.hi] at h'
      · exact hk _ h' rfl
    · intro h'
      exact hk _ h' rfl

end endpoints

/-! ### `mj_SAP`: which pairs are produced -/

section sap
variable {ι K β : Type} [DecidableEq ι]

/-- elements of a list with duplicate-free keys are determined by their key -/
theorem eq_of_key_eq : ∀ {L : List (EP ι K β)}, (L.map EP.key).Nodup → ∀ {x y : EP ι K β}, x ∈ L → y ∈ L →
    x.key = y.key → x = y
  | [], _, _, _, hx, _, _ => by simp at hx
  | a :: L, hn, x, y, hx, hy, h => by
    rw [map_cons, nodup_cons] at hn
    rcases mem_cons.mp hx with rfl | hx' <;> rcases mem_cons.mp hy with rfl | hy'
    · rfl
    · exact absurd (mem_map.mpr ⟨y, hy', h.symm⟩) hn.1
    · exact absurd (mem_map.mpr ⟨x, hx', h⟩) hn.1
    · exact eq_of_key_eq hn.2 hx' hy' h

theorem nodup_of_nodup_map {α γ : Type} (f : α → γ) {l : List α} (h : (l.map f).Nodup) : l.Nodup := by
  unfold Nodup at h ⊢
  rw [pairwise_map] at h
  exact h.imp (fun hne heq => hne (by rw [heq]))

/-- the comparator `mj_SAP` sorts with: `SAPcmp` on the `value` field -/
def epCmp (cmp : K → K → Int) (a b : EP ι K β) : Int := cmp a.val b.val

/-- Core of `sap_complete`.  For two boxes `bi` (earlier in the array) and `bj` (later), with duplicate-free
    ids, a total-preorder comparator and `xlo ≤ xhi` for every box: the sweep outputs `(bi.id, bj.id)` iff
    `xlo_i ≤ xlo_j < xhi_i` (and the y/z test passes), and `(bj.id, bi.id)` iff `xlo_j < xlo_i ≤ xhi_j`. -/
theorem sapPairs_mem {cmp : K → K → Int} (hc : TotalPreorder cmp) (gt : β → β → Bool)
    {P Q R : List (Box ι K β)} {bi bj : Box ι K β}
    (hid : ((P ++ bi :: Q ++ bj :: R).map (·.id)).Nodup)
    (hwf : ∀ b ∈ P ++ bi :: Q ++ bj :: R, cmp b.xlo b.xhi ≤ 0) :
    ((bi.id, bj.id) ∈ sapPairs cmp gt (P ++ bi :: Q ++ bj :: R) ↔
        yzPrune gt bi.yz bj.yz = false ∧ cmp bi.xlo bj.xlo ≤ 0 ∧ ¬ cmp bi.xhi bj.xlo ≤ 0) ∧
    ((bj.id, bi.id) ∈ sapPairs cmp gt (P ++ bi :: Q ++ bj :: R) ↔
        yzPrune gt bj.yz bi.yz = false ∧ ¬ cmp bi.xlo bj.xlo ≤ 0 ∧ cmp bi.xlo bj.xhi ≤ 0) := by
  obtain ⟨boxes, hboxes⟩ : ∃ bs, bs = P ++ bi :: Q ++ bj :: R := ⟨_, rfl⟩
  rw [← hboxes] at hid hwf ⊢
  have hcE : TotalPreorder (epCmp (ι := ι) (β := β) cmp) := ⟨fun a b => hc.total _ _, fun a b c => hc.trans _ _ _⟩
  have hunf : sapPairs cmp gt boxes = sweep gt (mjSort (epCmp cmp) (endpoints boxes)) [] := rfl
  rw [hunf]
  obtain ⟨E, hE⟩ : ∃ E, E = endpoints boxes := ⟨_, rfl⟩
  obtain ⟨S, hS⟩ : ∃ S, S = mjSort (epCmp (ι := ι) (β := β) cmp) E := ⟨_, rfl⟩
  rw [← hE, ← hS]
  have hkE : (E.map EP.key).Nodup := hE ▸ keys_endpoints_nodup hid
  have hnE : E.Nodup := nodup_of_nodup_map _ hkE
  have hst : StableSorted (epCmp cmp) E S := hS ▸ MjProof.C22.mjSort_stableSorted hcE E
  have hkS : (S.map EP.key).Nodup := (hst.1.map EP.key).nodup_iff.mpr hkE
  have hnS : S.Nodup := nodup_of_nodup_map _ hkS
  -- the four endpoints and their order in the unsorted buffer
  have hEsplit : E = endpoints P ++ bi.lo :: bi.hi :: (endpoints Q ++ bj.lo :: bj.hi :: endpoints R) := by
    simp [hE, hboxes, endpoints_append, endpoints_cons]
  have e_mi_Mi : Bef E bi.lo bi.hi := ⟨endpoints P, [], endpoints Q ++ bj.lo :: bj.hi :: endpoints R, by simp [hEsplit]⟩
  have e_mj_Mj : Bef E bj.lo bj.hi := ⟨endpoints P ++ bi.lo :: bi.hi :: endpoints Q, [], endpoints R, by simp [hEsplit]⟩
  have e_mi_mj : Bef E bi.lo bj.lo := ⟨endpoints P, bi.hi :: endpoints Q, bj.hi :: endpoints R, by simp [hEsplit]⟩
  have e_Mi_mj : Bef E bi.hi bj.lo := ⟨endpoints P ++ [bi.lo], endpoints Q, bj.hi :: endpoints R, by simp [hEsplit]⟩
  have e_mi_Mj : Bef E bi.lo bj.hi := ⟨endpoints P, bi.hi :: endpoints Q ++ [bj.lo], endpoints R, by simp [hEsplit]⟩
  have mi_mem : bi.lo ∈ E := e_mi_Mi.mem_left
  have Mi_mem : bi.hi ∈ E := e_mi_Mi.mem_right
  have mj_mem : bj.lo ∈ E := e_mj_Mj.mem_left
  have Mj_mem : bj.hi ∈ E := e_mj_Mj.mem_right
  have memS : ∀ {x}, x ∈ E → x ∈ S := fun h => hst.1.mem_iff.mpr h
  have D := fun {x y} (hx : x ∈ E) (hy : y ∈ E) => bef_stableSorted hcE hst hnE hx hy
  have wf_i : cmp bi.xlo bi.xhi ≤ 0 := hwf bi (by simp [hboxes])
  have wf_j : cmp bj.xlo bj.xhi ≤ 0 := hwf bj (by simp [hboxes])
  -- min precedes max of the same box in the sorted buffer
  have s_mi_Mi : Bef S bi.lo bi.hi := by
    rw [D mi_mem Mi_mem]
    by_cases h : epCmp cmp bi.hi bi.lo ≤ 0
    · exact Or.inr ⟨wf_i, h, e_mi_Mi⟩
    · exact Or.inl ⟨wf_i, h⟩
  have s_mj_Mj : Bef S bj.lo bj.hi := by
    rw [D mj_mem Mj_mem]
    by_cases h : epCmp cmp bj.hi bj.lo ≤ 0
    · exact Or.inr ⟨wf_j, h, e_mj_Mj⟩
    · exact Or.inl ⟨wf_j, h⟩
  -- identify sorted-buffer entries by key
  have key_lo : ∀ {a : EP ι K β} {b : Box ι K β}, b.lo ∈ E → a ∈ S → a.isMax = false → a.id = b.id → a = b.lo := by
    intro a b hb ha h1 h2
    exact eq_of_key_eq hkS ha (memS hb) (by simp [EP.key, Box.lo, h1, h2])
  have key_hi : ∀ {a : EP ι K β} {b : Box ι K β}, b.hi ∈ E → a ∈ S → a.isMax = true → a.id = b.id → a = b.hi := by
    intro a b hb ha h1 h2
    exact eq_of_key_eq hkS ha (memS hb) (by simp [EP.key, Box.hi, h1, h2])
  constructor
  · -- (bi.id, bj.id)
    rw [mem_sweep_nil gt S hkS]
    constructor
    · rintro ⟨A, a, B, e, C, hSeq, hamin, hemin, hai, hej, hyz, hB⟩
      have haS : a ∈ S := by rw [hSeq]; simp
      have heS : e ∈ S := by rw [hSeq]; simp
      have ha : a = bi.lo := key_lo mi_mem haS hamin hai
      have he : e = bj.lo := key_lo mj_mem heS hemin hej
      subst ha; subst he
      have hbef : Bef S bi.lo bj.lo := ⟨A, B, C, hSeq⟩
      have hle : cmp bi.xlo bj.xlo ≤ 0 := by
        rcases (D mi_mem mj_mem).mp hbef with h | h <;> exact h.1
      refine ⟨hyz, hle, ?_⟩
      intro hcontra
      -- then max_i would lie between min_i and min_j
      have s_Mi_mj : Bef S bi.hi bj.lo := by
        rw [D Mi_mem mj_mem]
        by_cases h : epCmp cmp bj.lo bi.hi ≤ 0
        · exact Or.inr ⟨hcontra, h, e_Mi_mj⟩
        · exact Or.inl ⟨hcontra, h⟩
      have hnS' : (A ++ bi.lo :: B ++ bj.lo :: C).Nodup := hSeq ▸ hnS
      have : bi.hi ∈ B := (mem_between_iff hnS').mpr ⟨hSeq ▸ s_mi_Mi, hSeq ▸ s_Mi_mj⟩
      exact hB _ this ⟨rfl, rfl⟩
    · rintro ⟨hyz, hle, hlt⟩
      have hbef : Bef S bi.lo bj.lo := by
        rw [D mi_mem mj_mem]
        by_cases h : epCmp cmp bj.lo bi.lo ≤ 0
        · exact Or.inr ⟨hle, h, e_mi_mj⟩
        · exact Or.inl ⟨hle, h⟩
      obtain ⟨A, B, C, hSeq⟩ := hbef
      refine ⟨A, bi.lo, B, bj.lo, C, hSeq, rfl, rfl, rfl, rfl, hyz, ?_⟩
      rintro m hm ⟨hmmax, hmid⟩
      have hmS : m ∈ S := by rw [hSeq]; simp [hm]
      have hmM : m = bi.hi := key_hi Mi_mem hmS hmmax hmid
      subst hmM
      have hnS' : (A ++ bi.lo :: B ++ bj.lo :: C).Nodup := hSeq ▸ hnS
      have hb := ((mem_between_iff hnS').mp hm).2
      rw [← hSeq] at hb
      rcases (D Mi_mem mj_mem).mp hb with h | h <;> exact hlt h.1
  · -- (bj.id, bi.id)
    rw [mem_sweep_nil gt S hkS]
    constructor
    · rintro ⟨A, a, B, e, C, hSeq, hamin, hemin, hai, hej, hyz, hB⟩
      have haS : a ∈ S := by rw [hSeq]; simp
      have heS : e ∈ S := by rw [hSeq]; simp
      have ha : a = bj.lo := key_lo mj_mem haS hamin hai
      have he : e = bi.lo := key_lo mi_mem heS hemin hej
      subst ha; subst he
      have hbef : Bef S bj.lo bi.lo := ⟨A, B, C, hSeq⟩
      have hlt : ¬ cmp bi.xlo bj.xlo ≤ 0 := by
        rcases (D mj_mem mi_mem).mp hbef with h | h
        · exact h.2
        · exact absurd h.2.2 (bef_asymm hnE e_mi_mj)
      refine ⟨hyz, hlt, ?_⟩
      apply Classical.byContradiction
      intro hcontra
      have hMm : epCmp cmp bj.hi bi.lo ≤ 0 := by
        rcases hc.total bj.xhi bi.xlo with h | h
        · exact h
        · exact absurd h hcontra
      have s_Mj_mi : Bef S bj.hi bi.lo := (D Mj_mem mi_mem).mpr (Or.inl ⟨hMm, hcontra⟩)
      have hnS' : (A ++ bj.lo :: B ++ bi.lo :: C).Nodup := hSeq ▸ hnS
      have : bj.hi ∈ B := (mem_between_iff hnS').mpr ⟨hSeq ▸ s_mj_Mj, hSeq ▸ s_Mj_mi⟩
      exact hB _ this ⟨rfl, rfl⟩
    · rintro ⟨hyz, hlt, hle⟩
      have hji : epCmp cmp bj.lo bi.lo ≤ 0 := by
        rcases hc.total bj.xlo bi.xlo with h | h
        · exact h
        · exact absurd h hlt
      have hbef : Bef S bj.lo bi.lo := (D mj_mem mi_mem).mpr (Or.inl ⟨hji, hlt⟩)
      obtain ⟨A, B, C, hSeq⟩ := hbef
      refine ⟨A, bj.lo, B, bi.lo, C, hSeq, rfl, rfl, rfl, rfl, hyz, ?_⟩
      rintro m hm ⟨hmmax, hmid⟩
      have hmS : m ∈ S := by rw [hSeq]; simp [hm]
      have hmM : m = bj.hi := key_hi Mj_mem hmS hmmax hmid
      subst hmM
      have hnS' : (A ++ bj.lo :: B ++ bi.lo :: C).Nodup := hSeq ▸ hnS
      have hb := ((mem_between_iff hnS').mp hm).2
      rw [← hSeq] at hb
      rcases (D Mj_mem mi_mem).mp hb with h | h
      · exact h.2 hle
      · exact bef_asymm hnE e_mi_Mj h.2.2

/-- the sweep never outputs the same ordered pair twice -/
theorem sweep_nodup (gt : β → β → Bool) : ∀ (L act : List (EP ι K β)), (∀ b ∈ act, b.isMax = false) →
    ((act ++ L).map EP.key).Nodup → (sweep gt L act).Nodup
  | [], _, _, _ => by simp [sweep]
  | x :: xs, act, hmin, hnd => by
    unfold sweep
    by_cases hx : x.isMax = true
    · simp only [hx, ↓reduceIte]
      have hsub : removeFirst x.id act <+ act := removeFirst_sublist _ _
      refine sweep_nodup gt xs _ (fun b hb => hmin b (hsub.subset hb)) ?_
      refine hnd.sublist ?_
      exact Sublist.map _ (hsub.append (sublist_cons_self x xs))
    · have hx' : x.isMax = false := by simpa using hx
      simp only [hx', Bool.false_eq_true, ↓reduceIte]
      have hmin' : ∀ b ∈ act ++ [x], b.isMax = false := by
        intro b hb
        rcases mem_append.mp hb with hb | hb
        · exact hmin b hb
        · rw [mem_singleton.mp hb]; exact hx'
      have hnd' : ((act ++ [x] ++ xs).map EP.key).Nodup := by simpa using hnd
      have hkact : (act.map EP.key).Nodup := by
        rw [map_append] at hnd; exact (nodup_append.mp hnd).1
      rw [nodup_append]
      refine ⟨?_, sweep_nodup gt xs _ hmin' hnd', ?_⟩
      · apply Nodup.map_on
        · intro a ha b hb hab
          have ha' := (mem_filter.mp ha).1
          have hb' := (mem_filter.mp hb).1
          apply eq_of_key_eq hkact ha' hb'
          have := (Prod.mk.inj hab).1
          simp [EP.key, this, hmin a ha', hmin b hb']
        · exact (Nodup.of_map _ hkact).filter _
      · intro p hp q hq hpq
        subst hpq
        obtain ⟨a, _, rfl⟩ := mem_map.mp hp
        obtain ⟨L1, e, L2, hxs, he, b, _, _, hpe⟩ := (mem_sweep gt _ xs _).mp hq
        have hid : x.id = e.id := (Prod.mk.inj hpe).2
        have hkey : e.key = x.key := by simp [EP.key, hid, he, hx']
        have hxk : x.key ∉ xs.map EP.key := by
          have : (act.map EP.key ++ x.key :: xs.map EP.key).Nodup := by simpa using hnd
          exact (nodup_cons.mp (nodup_append.mp this).2.1).1
        apply hxk
        rw [← hkey, hxs]
        exact mem_map_of_mem (by simp)

/-- every output pair consists of the ids of two different boxes -/
theorem sapPairs_sound {cmp : K → K → Int} (hc : TotalPreorder cmp) (gt : β → β → Bool)
    {boxes : List (Box ι K β)} (hid : (boxes.map (·.id)).Nodup) {i j : ι}
    (h : (i, j) ∈ sapPairs cmp gt boxes) :
    ∃ bi ∈ boxes, ∃ bj ∈ boxes, bi.id = i ∧ bj.id = j ∧ i ≠ j := by
  have hcE : TotalPreorder (epCmp (ι := ι) (β := β) cmp) := ⟨fun a b => hc.total _ _, fun a b c => hc.trans _ _ _⟩
  have hunf : sapPairs cmp gt boxes = sweep gt (mjSort (epCmp cmp) (endpoints boxes)) [] := rfl
  rw [hunf] at h
  have hst := MjProof.C22.mjSort_stableSorted hcE (endpoints boxes)
  have hkE : ((endpoints boxes).map EP.key).Nodup := keys_endpoints_nodup hid
  have hkS := (hst.1.map EP.key).nodup_iff.mpr hkE
  obtain ⟨A, a, B, e, C, hS, hamin, hemin, hai, hej, _, _⟩ := (mem_sweep_nil gt _ hkS i j).mp h
  have haE : a ∈ endpoints boxes := hst.1.mem_iff.mp (by rw [hS]; simp)
  have heE : e ∈ endpoints boxes := hst.1.mem_iff.mp (by rw [hS]; simp)
  obtain ⟨bi, hbi, ha⟩ := mem_endpoints.mp haE
  obtain ⟨bj, hbj, he⟩ := mem_endpoints.mp heE
  have ha' : a = bi.lo := by
    rcases ha with ha | ha
    · exact ha
    · rw [ha] at hamin; simp [Box.hi] at hamin
  have he' : e = bj.lo := by
    rcases he with he | he
    · exact he
    · rw [he] at hemin; simp [Box.hi] at hemin
  refine ⟨bi, hbi, bj, hbj, by rw [← hai, ha']; rfl, by rw [← hej, he']; rfl, ?_⟩
  intro hij
  have hne : a ≠ e := bef_ne (Nodup.of_map _ hkS) ⟨A, B, C, hS⟩
  apply hne
  have haS : a ∈ mjSort (epCmp cmp) (endpoints boxes) := by rw [hS]; simp
  have heS : e ∈ mjSort (epCmp cmp) (endpoints boxes) := by rw [hS]; simp
  exact eq_of_key_eq hkS haS heS (by simp [EP.key, hamin, hemin, hai, hej, hij])

/-- exactly once: the output has no repeated ordered pair, and never contains a pair in both orientations -/
theorem sapPairs_once {cmp : K → K → Int} (hc : TotalPreorder cmp) (gt : β → β → Bool)
    {boxes : List (Box ι K β)} (hid : (boxes.map (·.id)).Nodup) :
    (sapPairs cmp gt boxes).Nodup ∧ ∀ i j, (i, j) ∈ sapPairs cmp gt boxes → (j, i) ∉ sapPairs cmp gt boxes := by
  have hcE : TotalPreorder (epCmp (ι := ι) (β := β) cmp) := ⟨fun a b => hc.total _ _, fun a b c => hc.trans _ _ _⟩
  have hunf : sapPairs cmp gt boxes = sweep gt (mjSort (epCmp cmp) (endpoints boxes)) [] := rfl
  rw [hunf]
  have hst := MjProof.C22.mjSort_stableSorted hcE (endpoints boxes)
  have hkE : ((endpoints boxes).map EP.key).Nodup := keys_endpoints_nodup hid
  have hkS := (hst.1.map EP.key).nodup_iff.mpr hkE
  refine ⟨sweep_nodup gt _ [] (by simp) (by simpa using hkS), ?_⟩
  intro i j h1 h2
  obtain ⟨A, a, B, e, C, hS, hamin, hemin, hai, hej, _, _⟩ := (mem_sweep_nil gt _ hkS i j).mp h1
  obtain ⟨A', a', B', e', C', hS', hamin', hemin', hai', hej', _, _⟩ := (mem_sweep_nil gt _ hkS j i).mp h2
  have hn := Nodup.of_map _ hkS
  have mem : ∀ {x}, x ∈ A ++ a :: B ++ e :: C → x ∈ mjSort (epCmp cmp) (endpoints boxes) := fun h => hS ▸ h
  have mem' : ∀ {x}, x ∈ A' ++ a' :: B' ++ e' :: C' → x ∈ mjSort (epCmp cmp) (endpoints boxes) := fun h => hS' ▸ h
  have h1' : a' = e := eq_of_key_eq hkS (mem' (by simp)) (mem (by simp)) (by simp [EP.key, hamin', hemin, hai', hej])
  have h2' : e' = a := eq_of_key_eq hkS (mem' (by simp)) (mem (by simp)) (by simp [EP.key, hemin', hamin, hej', hai])
  subst h1'; subst h2'
  exact bef_asymm hn ⟨A, B, C, hS⟩ ⟨A', B', C', hS'⟩

/-- **counting**: `n` boxes yield at most `n (n-1) / 2` pairs, so the buffer `mj_broadphase` passes to `mj_SAP`
    (`maxsappair = ncollide (ncollide-1) / 2`) is never exceeded -/
theorem sapPairs_length_le {cmp : K → K → Int} (hc : TotalPreorder cmp) (gt : β → β → Bool)
    {boxes : List (Box ι K β)} (hid : (boxes.map (·.id)).Nodup) :
    (sapPairs cmp gt boxes).length ≤ boxes.length * (boxes.length - 1) / 2 := by
  obtain ⟨hnd, hanti⟩ := sapPairs_once hc gt hid
  have hsound := fun i j (h : (i, j) ∈ sapPairs cmp gt boxes) => sapPairs_sound hc gt hid h
  obtain ⟨out, hout⟩ : ∃ o, o = sapPairs cmp gt boxes := ⟨_, rfl⟩
  rw [← hout] at hnd hanti hsound ⊢
  obtain ⟨ids, hids⟩ : ∃ l, l = boxes.map (·.id) := ⟨_, rfl⟩
  rw [← hids] at hid
  have hlen : ids.length = boxes.length := by rw [hids, length_map]
  -- out ++ swapped out ++ diagonal is a duplicate-free sublist of ids × ids
  have hbig : (out ++ out.map Prod.swap ++ ids.map (fun i => (i, i))).Nodup := by
    rw [nodup_append, nodup_append]
    refine ⟨⟨hnd, ?_, ?_⟩, ?_, ?_⟩
    · exact hnd.map (fun a b h => by have := congrArg Prod.swap h; simpa using this)
    · intro p hp q hq hpq
      subst hpq
      obtain ⟨r, hr, hrs⟩ := mem_map.mp hq
      have : r = p.swap := by rw [← hrs]; simp
      subst this
      exact hanti p.1 p.2 (by cases p; exact hp) (by cases p; exact hr)
    · exact hid.map (fun a b h => (Prod.mk.inj h).1)
    · intro p hp q hq hpq
      subst hpq
      obtain ⟨i, _, rfl⟩ := mem_map.mp hq
      rcases mem_append.mp hp with h | h
      · obtain ⟨_, _, _, _, _, _, hne⟩ := hsound i i h
        exact hne rfl
      · obtain ⟨r, hr, hrs⟩ := mem_map.mp h
        have : r = (i, i) := by
          have := congrArg Prod.swap hrs; simpa using this
        subst this
        obtain ⟨_, _, _, _, _, _, hne⟩ := hsound i i hr
        exact hne rfl
  have hsub : (out ++ out.map Prod.swap ++ ids.map (fun i => (i, i))) ⊆ ids ×ˢ ids := by
    intro p hp
    have hm : ∀ i j, (i, j) ∈ out → i ∈ ids ∧ j ∈ ids := by
      intro i j h
      obtain ⟨bi, hbi, bj, hbj, h1, h2, _⟩ := hsound i j h
      exact ⟨hids ▸ h1 ▸ mem_map_of_mem hbi, hids ▸ h2 ▸ mem_map_of_mem hbj⟩
    rcases mem_append.mp hp with h | h
    · rcases mem_append.mp h with h | h
      · exact mem_product.mpr (hm p.1 p.2 (by simpa using h))
      · obtain ⟨r, hr, rfl⟩ := mem_map.mp h
        have := hm r.1 r.2 (by simpa using hr)
        exact mem_product.mpr ⟨this.2, this.1⟩
    · obtain ⟨i, hi, rfl⟩ := mem_map.mp h
      exact mem_product.mpr ⟨hi, hi⟩
  have hle := hbig.length_le_of_subset hsub
  rw [length_product, length_append, length_append, length_map, length_map, hlen] at hle
  -- 2 |out| + n ≤ n²
  have h2 : 2 * out.length ≤ boxes.length * (boxes.length - 1) := by
    cases hn : boxes.length with
    | zero => rw [hn] at hle; omega
    | succ m =>
      rw [hn] at hle
      have : (m + 1) * (m + 1) = (m + 1) * m + (m + 1) := Nat.mul_succ (m + 1) m
      simp only [Nat.add_sub_cancel]
      omega
  exact (Nat.le_div_iff_mul_le (by decide : 0 < 2)).mpr (by omega)

end sap

end MjProof.Broadphase
