import MjProof.Lemmas.RealNum
import MjProof.Gen.Kernels
import MjProof.Model.Ray
import Mathlib.Tactic.Ring
import Mathlib.Tactic.Linarith
import Mathlib.Tactic.NormNum
import Mathlib.Tactic.LinearCombination
import Mathlib.Tactic.FieldSimp
import Mathlib.Tactic.Positivity
/-
C16 helper lemmas.

Part 1: closed forms over ℝ of the *generated* ray kernels of `src/engine/engine_ray.c`
(`MjProof/Gen/Kernels.lean`, regenerated from the working tree on every run) and the root analysis of
`ray_quad`.
Part 2: fold invariants of the hand model `MjProof.Ray` (selection logic of mj_ray / mj_multiRay).
-/
set_option linter.unusedTactic false
set_option linter.unreachableTactic false
set_option linter.unusedSimpArgs false
set_option linter.unusedVariables false
namespace MjProof.RayLemmas
open MjProof MjProof.Gen

/-- mjMINVAL = 1e-15 as the translator prints the double (`1.0000000000000001e-15`) -/
noncomputable def eps : ℝ := 10000000000000001 / 10 ^ 31

theorem eps_pos : 0 < eps := by unfold eps; norm_num

theorem ofSci_eps : (MjNum.ofSci 10000000000000001 true 31 : ℝ) = eps := by
  simp only [real_ofSci, eps]; norm_num

/-! ### `ray_quad` -/

/-- the polynomial `a x² + 2 b x + c` solved by `ray_quad` -/
def Q (a b c x : ℝ) : ℝ := a * x * x + 2 * b * x + c

/-- the two solutions as `ray_quad` computes them -/
noncomputable def root0 (a b c : ℝ) : ℝ := (-b - Real.sqrt (b * b - a * c)) / a
noncomputable def root1 (a b c : ℝ) : ℝ := (-b + Real.sqrt (b * b - a * c)) / a

/-- closed form of the generated `ray_quad`: (return value, x[0], x[1]) -/
theorem ray_quad_eq (a b c : ℝ) :
    ray_quad a b c =
      if b * b - a * c < 0 ∨ a < eps then ((-1 : ℝ), (-1 : ℝ), (-1 : ℝ))
      else ((if 0 ≤ root0 a b c then root0 a b c else if 0 ≤ root1 a b c then root1 a b c else -1),
            root0 a b c, root1 a b c) := by
  simp only [ray_quad, root0, root1, real_sqrt, real_ofInt, decide_eq_true_eq, real_lt_iff, real_le_iff,
    ofSci_eps]
  push_cast
  by_cases h1 : b * b - a * c < 0 ∨ a < eps
  · simp only [if_pos h1]
  · simp only [if_neg h1]
    rfl

/-- factorisation of the polynomial over its two computed roots (needs `a ≠ 0` and a non-negative discriminant) -/
theorem Q_factor {a b c : ℝ} (ha : a ≠ 0) (hd : 0 ≤ b * b - a * c) (x : ℝ) :
    Q a b c x = a * (x - root0 a b c) * (x - root1 a b c) := by
  have hs : Real.sqrt (b * b - a * c) * Real.sqrt (b * b - a * c) = b * b - a * c := Real.mul_self_sqrt hd
  unfold Q root0 root1
  generalize Real.sqrt (b * b - a * c) = s at hs
  have h1 : a * (x - (-b - s) / a) * (x - (-b + s) / a) = a * x * x + 2 * b * x + (b * b - s * s) / a := by
    field_simp
    ring
  have h2 : (b * b - s * s) / a = c := by
    rw [hs, show b * b - (b * b - a * c) = a * c by ring, mul_div_cancel_left₀ c ha]
  rw [h1, h2]

theorem root0_le_root1 {a b c : ℝ} (ha : 0 < a) : root0 a b c ≤ root1 a b c := by
  unfold root0 root1
  have hs : 0 ≤ Real.sqrt (b * b - a * c) := Real.sqrt_nonneg _
  apply div_le_div_of_nonneg_right _ ha.le
  linarith

theorem Q_root0 {a b c : ℝ} (ha : a ≠ 0) (hd : 0 ≤ b * b - a * c) : Q a b c (root0 a b c) = 0 := by
  rw [Q_factor ha hd]; ring

theorem Q_root1 {a b c : ℝ} (ha : a ≠ 0) (hd : 0 ≤ b * b - a * c) : Q a b c (root1 a b c) = 0 := by
  rw [Q_factor ha hd]; ring

/-- every root of the polynomial is one of the two computed ones -/
theorem Q_zero_iff {a b c : ℝ} (ha : a ≠ 0) (hd : 0 ≤ b * b - a * c) (x : ℝ) :
    Q a b c x = 0 ↔ x = root0 a b c ∨ x = root1 a b c := by
  rw [Q_factor ha hd]
  constructor
  · intro h
    rcases mul_eq_zero.mp h with h | h
    · rcases mul_eq_zero.mp h with h | h
      · exact absurd h ha
      · left; linarith
    · right; linarith
  · rintro (h | h) <;> rw [h] <;> ring

/-- no real root when the discriminant is negative -/
theorem Q_ne_zero_of_disc_neg {a b c : ℝ} (ha : 0 < a) (hd : b * b - a * c < 0) (x : ℝ) : Q a b c x ≠ 0 := by
  intro h
  unfold Q at h
  have h2 : (a * x + b) * (a * x + b) = b * b - a * c := by
    have : a * (a * x * x + 2 * b * x + c) = 0 := by rw [h]; ring
    nlinarith [this]
  nlinarith [mul_self_nonneg (a * x + b)]

/-- between the two roots the polynomial is non-positive (a > 0) -/
theorem Q_nonpos_iff {a b c : ℝ} (ha : 0 < a) (hd : 0 ≤ b * b - a * c) (x : ℝ) :
    Q a b c x ≤ 0 ↔ root0 a b c ≤ x ∧ x ≤ root1 a b c := by
  rw [Q_factor ha.ne' hd]
  have h01 := root0_le_root1 (a := a) (b := b) (c := c) ha
  constructor
  · intro h
    have h' : (x - root0 a b c) * (x - root1 a b c) ≤ 0 := by
      by_contra hc
      push Not at hc
      have : 0 < a * ((x - root0 a b c) * (x - root1 a b c)) := mul_pos ha hc
      nlinarith
    constructor
    · by_contra hc; push Not at hc
      nlinarith [mul_pos_of_neg_of_neg (sub_neg.mpr hc) (sub_neg.mpr (lt_of_lt_of_le hc h01))]
    · by_contra hc; push Not at hc
      nlinarith [mul_pos (sub_pos.mpr (lt_of_le_of_lt h01 hc)) (sub_pos.mpr hc)]
  · rintro ⟨h0, h1⟩
    have : (x - root0 a b c) * (x - root1 a b c) ≤ 0 :=
      mul_nonpos_of_nonneg_of_nonpos (sub_nonneg.mpr h0) (sub_nonpos.mpr h1)
    nlinarith

/-- a negative discriminant means the polynomial is positive everywhere (a > 0) -/
theorem Q_pos_of_disc_neg {a b c : ℝ} (ha : 0 < a) (hd : b * b - a * c < 0) (x : ℝ) : 0 < Q a b c x := by
  unfold Q
  have h1 : 0 < a * (a * x * x + 2 * b * x + c) := by nlinarith [mul_self_nonneg (a * x + b)]
  by_contra hc
  push Not at hc
  nlinarith [mul_nonpos_of_nonneg_of_nonpos ha.le hc]

/-- return value of `ray_quad` -/
noncomputable def quadRet (a b c : ℝ) : ℝ := (ray_quad a b c).1

theorem quadRet_range (a b c : ℝ) : quadRet a b c = -1 ∨ 0 ≤ quadRet a b c := by
  unfold quadRet
  rw [ray_quad_eq]
  split_ifs <;> simp_all

/-- a non-negative return value is a root -/
theorem quadRet_root {a b c : ℝ} (h : 0 ≤ quadRet a b c) : Q a b c (quadRet a b c) = 0 := by
  unfold quadRet at *
  rw [ray_quad_eq] at *
  split_ifs at * with h1 h2 h3
  · norm_num at h
  · push Not at h1
    exact Q_root0 (lt_of_lt_of_le eps_pos h1.2).ne' h1.1
  · push Not at h1
    exact Q_root1 (lt_of_lt_of_le eps_pos h1.2).ne' h1.1
  · norm_num at h

/-- any non-negative root bounds the return value from above, and the return value is then non-negative:
    `ray_quad` returns the smallest non-negative root (when `a ≥ mjMINVAL`) -/
theorem quadRet_least {a b c t : ℝ} (ha : eps ≤ a) (ht : 0 ≤ t) (hq : Q a b c t = 0) :
    0 ≤ quadRet a b c ∧ quadRet a b c ≤ t := by
  have hapos : 0 < a := lt_of_lt_of_le eps_pos ha
  have hd : 0 ≤ b * b - a * c := by
    by_contra hc; push Not at hc
    exact Q_ne_zero_of_disc_neg hapos hc t hq
  have h01 := root0_le_root1 (a := a) (b := b) (c := c) hapos
  have hroots := (Q_zero_iff hapos.ne' hd t).mp hq
  unfold quadRet
  rw [ray_quad_eq]
  have hcond : ¬ (b * b - a * c < 0 ∨ a < eps) := by push Not; exact ⟨hd, ha⟩
  rw [if_neg hcond]
  simp only
  split_ifs with h2 h3
  · refine ⟨h2, ?_⟩
    rcases hroots with h | h <;> rw [h]
    exact h01
  · push Not at h2
    refine ⟨h3, ?_⟩
    rcases hroots with h | h
    · rw [h] at ht; linarith
    · rw [h]
  · push Not at h2 h3
    rcases hroots with h | h <;> rw [h] at ht <;> linarith

/-- `ray_quad` returns −1 exactly when there is no non-negative root (for `a ≥ mjMINVAL`) -/
theorem quadRet_neg_iff {a b c : ℝ} (ha : eps ≤ a) :
    quadRet a b c = -1 ↔ ¬ ∃ t, 0 ≤ t ∧ Q a b c t = 0 := by
  constructor
  · rintro h ⟨t, ht, hq⟩
    have := (quadRet_least ha ht hq).1
    rw [h] at this; norm_num at this
  · intro h
    rcases quadRet_range a b c with h1 | h1
    · exact h1
    · exact absurd ⟨_, h1, quadRet_root h1⟩ h

/-- a non-negative `x[0]` output is a root (a rejected call writes −1) -/
theorem quadX0_root {a b c : ℝ} (h : 0 ≤ (ray_quad a b c).2.1) : Q a b c (ray_quad a b c).2.1 = 0 := by
  by_cases h1 : b * b - a * c < 0 ∨ a < eps
  · rw [ray_quad_eq, if_pos h1] at h; norm_num at h
  · rw [ray_quad_eq, if_neg h1]
    push Not at h1
    exact Q_root0 (lt_of_lt_of_le eps_pos h1.2).ne' h1.1

/-- a non-negative `x[1]` output is a root -/
theorem quadX1_root {a b c : ℝ} (h : 0 ≤ (ray_quad a b c).2.2) : Q a b c (ray_quad a b c).2.2 = 0 := by
  by_cases h1 : b * b - a * c < 0 ∨ a < eps
  · rw [ray_quad_eq, if_pos h1] at h; norm_num at h
  · rw [ray_quad_eq, if_neg h1]
    push Not at h1
    exact Q_root1 (lt_of_lt_of_le eps_pos h1.2).ne' h1.1

/-- the guard: with `a < mjMINVAL` (degenerate direction) `ray_quad` reports no solution -/
theorem quadRet_small_a {a b c : ℝ} (ha : a < eps) : ray_quad a b c = (-1, -1, -1) := by
  rw [ray_quad_eq, if_pos (Or.inr ha)]

/-- if the polynomial is non-positive somewhere on the ray (t ≥ 0), `ray_quad` finds a root (a ≥ mjMINVAL):
    used for "the ray enters a closed ball / ellipsoid" -/
theorem quadRet_nonneg_of_nonpos {a b c t : ℝ} (ha : eps ≤ a) (ht : 0 ≤ t) (hq : Q a b c t ≤ 0) :
    0 ≤ quadRet a b c := by
  have hapos : 0 < a := lt_of_lt_of_le eps_pos ha
  have hd : 0 ≤ b * b - a * c := by
    by_contra hc; push Not at hc
    have := Q_pos_of_disc_neg hapos hc t
    linarith
  have h := (Q_nonpos_iff hapos hd t).mp hq
  have h1 : 0 ≤ root1 a b c := le_trans ht h.2
  exact (quadRet_least ha h1 (Q_root1 hapos.ne' hd)).1

/-! ### geometry: tuples, the geom frame, uncurrying wrappers of the generated kernels -/

abbrev V3 := ℝ × ℝ × ℝ
/-- row-major 3×3 matrix (`geom_xmat`) -/
abbrev M9 := ℝ × ℝ × ℝ × ℝ × ℝ × ℝ × ℝ × ℝ × ℝ

def dot3 (a b : V3) : ℝ := a.1 * b.1 + a.2.1 * b.2.1 + a.2.2 * b.2.2
def sub3 (a b : V3) : V3 := (a.1 - b.1, a.2.1 - b.2.1, a.2.2 - b.2.2)
/-- the point `pnt + t·vec` of the ray -/
def pointAt (pnt vec : V3) (t : ℝ) : V3 := (pnt.1 + t * vec.1, pnt.2.1 + t * vec.2.1, pnt.2.2 + t * vec.2.2)
/-- `mat' * v` -/
def rotT (m : M9) (v : V3) : V3 :=
  (m.1 * v.1 + m.2.2.2.1 * v.2.1 + m.2.2.2.2.2.2.1 * v.2.2,
   m.2.1 * v.1 + m.2.2.2.2.1 * v.2.1 + m.2.2.2.2.2.2.2.1 * v.2.2,
   m.2.2.1 * v.1 + m.2.2.2.2.2.1 * v.2.1 + m.2.2.2.2.2.2.2.2 * v.2.2)
/-- coordinates of the world point `q` in the geom frame (`pos`, `mat`): `mat' * (q - pos)` -/
def toLocal (pos : V3) (m : M9) (q : V3) : V3 := rotT m (sub3 q pos)
/-- `mat` is orthonormal in the sense needed here: `mat'` preserves the Euclidean norm (`mat * mat' = I`) -/
def IsRot (m : M9) : Prop := ∀ v : V3, dot3 (rotT m v) (rotT m v) = dot3 v v

/-- uncurried `ray_map`: (lpnt, lvec) -/
noncomputable def rayMap (pos : V3) (m : M9) (pnt vec : V3) : V3 × V3 :=
  let r := ray_map (α := ℝ) pos.1 pos.2.1 pos.2.2 m.1 m.2.1 m.2.2.1 m.2.2.2.1 m.2.2.2.2.1 m.2.2.2.2.2.1
    m.2.2.2.2.2.2.1 m.2.2.2.2.2.2.2.1 m.2.2.2.2.2.2.2.2 pnt.1 pnt.2.1 pnt.2.2 vec.1 vec.2.1 vec.2.2
  ((r.1, r.2.1, r.2.2.1), (r.2.2.2.1, r.2.2.2.2.1, r.2.2.2.2.2))

/-- `ray_map` computes the geom-frame coordinates of the origin and the rotated direction -/
theorem rayMap_eq (pos : V3) (m : M9) (pnt vec : V3) :
    rayMap pos m pnt vec = (toLocal pos m pnt, rotT m vec) := by
  obtain ⟨p0, p1, p2⟩ := pos; obtain ⟨m0, m1, m2, m3, m4, m5, m6, m7, m8⟩ := m
  obtain ⟨q0, q1, q2⟩ := pnt; obtain ⟨v0, v1, v2⟩ := vec
  rfl

/-- the geom-frame coordinates of `pnt + t·vec` are `lpnt + t·lvec` (no assumption on `mat`) -/
theorem toLocal_pointAt (pos : V3) (m : M9) (pnt vec : V3) (t : ℝ) :
    toLocal pos m (pointAt pnt vec t) = pointAt (toLocal pos m pnt) (rotT m vec) t := by
  obtain ⟨p0, p1, p2⟩ := pos; obtain ⟨m0, m1, m2, m3, m4, m5, m6, m7, m8⟩ := m
  obtain ⟨q0, q1, q2⟩ := pnt; obtain ⟨v0, v1, v2⟩ := vec
  simp only [toLocal, pointAt, rotT, sub3, Prod.mk.injEq]
  refine ⟨?_, ?_, ?_⟩ <;> ring

/-- `mju_rayGeom(pos, mat, size, pnt, vec, mjGEOM_PLANE, NULL)` -/
noncomputable def rayPlane (pos : V3) (m : M9) (size : V3) (pnt vec : V3) : ℝ :=
  mju_rayGeom_plane (α := ℝ) pos.1 pos.2.1 pos.2.2 m.1 m.2.1 m.2.2.1 m.2.2.2.1 m.2.2.2.2.1 m.2.2.2.2.2.1
    m.2.2.2.2.2.2.1 m.2.2.2.2.2.2.2.1 m.2.2.2.2.2.2.2.2 size.1 size.2.1 pnt.1 pnt.2.1 pnt.2.2 vec.1 vec.2.1 vec.2.2
/-- `mju_rayGeom(pos, mat, size, pnt, vec, mjGEOM_SPHERE, NULL)` (only `size[0]` is read, `mat` is not) -/
noncomputable def raySphere (pos : V3) (r : ℝ) (pnt vec : V3) : ℝ :=
  mju_rayGeom_sphere (α := ℝ) pos.1 pos.2.1 pos.2.2 r pnt.1 pnt.2.1 pnt.2.2 vec.1 vec.2.1 vec.2.2
/-- `mju_rayGeom(…, mjGEOM_ELLIPSOID, NULL)` -/
noncomputable def rayEllipsoid (pos : V3) (m : M9) (size : V3) (pnt vec : V3) : ℝ :=
  mju_rayGeom_ellipsoid (α := ℝ) pos.1 pos.2.1 pos.2.2 m.1 m.2.1 m.2.2.1 m.2.2.2.1 m.2.2.2.2.1 m.2.2.2.2.2.1
    m.2.2.2.2.2.2.1 m.2.2.2.2.2.2.2.1 m.2.2.2.2.2.2.2.2 size.1 size.2.1 size.2.2 pnt.1 pnt.2.1 pnt.2.2
    vec.1 vec.2.1 vec.2.2

/-- the file-static `ray_plane`/`ray_sphere`/`ray_ellipsoid` (normal == NULL) are what `mju_rayGeom` dispatches to -/
theorem rayGeom_plane_eq_static :
    @mju_rayGeom_plane ℝ _ = @ray_plane_nn ℝ _ := rfl
theorem rayGeom_ellipsoid_eq_static :
    @mju_rayGeom_ellipsoid ℝ _ = @ray_ellipsoid_nn ℝ _ := rfl
theorem rayGeom_sphere_eq_static (p0 p1 p2 r q0 q1 q2 v0 v1 v2 : ℝ) :
    mju_rayGeom_sphere p0 p1 p2 r q0 q1 q2 v0 v1 v2 = ray_sphere_nn p0 p1 p2 (r * r) q0 q1 q2 v0 v1 v2 := rfl

/-! ### sphere -/

theorem raySphere_eq (pos : V3) (r : ℝ) (pnt vec : V3) :
    raySphere pos r pnt vec = quadRet (dot3 vec vec) (dot3 vec (sub3 pnt pos)) (dot3 (sub3 pnt pos) (sub3 pnt pos) - r * r) := by
  obtain ⟨p0, p1, p2⟩ := pos; obtain ⟨q0, q1, q2⟩ := pnt; obtain ⟨v0, v1, v2⟩ := vec
  rfl

/-- the quadratic solved for the sphere is the squared distance of the ray point to the centre minus r² -/
theorem sphere_Q (pos : V3) (r : ℝ) (pnt vec : V3) (t : ℝ) :
    Q (dot3 vec vec) (dot3 vec (sub3 pnt pos)) (dot3 (sub3 pnt pos) (sub3 pnt pos) - r * r) t
      = dot3 (sub3 (pointAt pnt vec t) pos) (sub3 (pointAt pnt vec t) pos) - r * r := by
  obtain ⟨p0, p1, p2⟩ := pos; obtain ⟨q0, q1, q2⟩ := pnt; obtain ⟨v0, v1, v2⟩ := vec
  simp only [Q, dot3, sub3, pointAt]
  ring

/-! ### ellipsoid -/

/-- the implicit function of the ellipsoid in the geom frame, with the inverse squared sizes as the code computes them -/
noncomputable def ellF (size l : V3) : ℝ :=
  1 / (size.1 * size.1) * l.1 * l.1 + 1 / (size.2.1 * size.2.1) * l.2.1 * l.2.1 + 1 / (size.2.2 * size.2.2) * l.2.2 * l.2.2

noncomputable def ellA (size lv : V3) : ℝ := ellF size lv
noncomputable def ellB (size lp lv : V3) : ℝ :=
  1 / (size.1 * size.1) * lv.1 * lp.1 + 1 / (size.2.1 * size.2.1) * lv.2.1 * lp.2.1 + 1 / (size.2.2 * size.2.2) * lv.2.2 * lp.2.2

theorem rayEllipsoid_eq (pos : V3) (m : M9) (size pnt vec : V3) :
    rayEllipsoid pos m size pnt vec =
      quadRet (ellA size (rotT m vec)) (ellB size (toLocal pos m pnt) (rotT m vec)) (ellF size (toLocal pos m pnt) - 1) := by
  obtain ⟨p0, p1, p2⟩ := pos; obtain ⟨m0, m1, m2, m3, m4, m5, m6, m7, m8⟩ := m
  obtain ⟨s0, s1, s2⟩ := size; obtain ⟨q0, q1, q2⟩ := pnt; obtain ⟨v0, v1, v2⟩ := vec
  simp only [rayEllipsoid, mju_rayGeom_ellipsoid, ray_map, quadRet, ellA, ellB, ellF, toLocal, rotT, sub3, real_ofInt]
  push_cast
  rfl

theorem ellipsoid_Q (size lp lv : V3) (t : ℝ) :
    Q (ellA size lv) (ellB size lp lv) (ellF size lp - 1) t = ellF size (pointAt lp lv t) - 1 := by
  obtain ⟨s0, s1, s2⟩ := size; obtain ⟨l0, l1, l2⟩ := lp; obtain ⟨v0, v1, v2⟩ := lv
  simp only [Q, ellA, ellB, ellF, pointAt]
  ring

/-! ### plane -/

/-- closed form of `mju_rayGeom(…, mjGEOM_PLANE, NULL)` in geom-frame coordinates -/
theorem rayPlane_eq (pos : V3) (m : M9) (size pnt vec : V3) :
    rayPlane pos m size pnt vec =
      (let lp := toLocal pos m pnt
       let lv := rotT m vec
       let x := -lp.2.2 / lv.2.2
       if -eps < lv.2.2 then -1
       else if x < 0 then -1
       else if (size.1 ≤ 0 ∨ |lp.1 + x * lv.1| ≤ size.1) ∧ (size.2.1 ≤ 0 ∨ |lp.2.1 + x * lv.2.1| ≤ size.2.1) then x
       else -1) := by
  obtain ⟨p0, p1, p2⟩ := pos; obtain ⟨m0, m1, m2, m3, m4, m5, m6, m7, m8⟩ := m
  obtain ⟨s0, s1, s2⟩ := size; obtain ⟨q0, q1, q2⟩ := pnt; obtain ⟨v0, v1, v2⟩ := vec
  simp only [rayPlane, mju_rayGeom_plane, ray_map, toLocal, rotT, sub3, real_ofInt, real_abs, decide_eq_true_eq,
    real_lt_iff, real_le_iff, ofSci_eps]
  push_cast
  rfl

/-! ### Part 2: the selection loop of `mj_ray` (hand model `MjProof.Ray`) on ℝ -/
open MjProof.Ray

theorem rayStep_cases (acc : ℝ × Int) (i : Nat) (e : Bool) (d : ℝ) :
    (e = false ∧ 0 ≤ d ∧ (d < acc.1 ∨ acc.1 < 0) ∧ rayStep acc i e d = (d, (i : Int))) ∨
    (¬ (e = false ∧ 0 ≤ d ∧ (d < acc.1 ∨ acc.1 < 0)) ∧ rayStep acc i e d = acc) := by
  unfold rayStep
  simp only [real_ofInt, real_lt_iff, real_le_iff]
  push_cast
  cases e
  · by_cases h : 0 ≤ d ∧ (d < acc.1 ∨ acc.1 < 0)
    · left; exact ⟨rfl, h.1, h.2, by simp [h]⟩
    · right; exact ⟨fun hh => h ⟨hh.2.1, hh.2.2⟩, by simp [h]⟩
  · right; exact ⟨fun hh => by simp at hh, by simp⟩

/-- invariant of the geom loop started at geom index `i` with accumulator `acc` -/
theorem rayLoop_spec (gs : List (Bool × ℝ)) : ∀ (i : Nat) (acc : ℝ × Int),
    let r := rayLoop gs i acc
    (r = acc ∨ ∃ (k : Nat) (d : ℝ), gs[k]? = some (false, d) ∧ 0 ≤ d ∧ r = (d, ((i + k : Nat) : Int)) ∧
        (∀ (j : Nat) (d' : ℝ), j < k → gs[j]? = some (false, d') → 0 ≤ d' → d < d') ∧ (0 ≤ acc.1 → d < acc.1)) ∧
    (∀ (k : Nat) (d : ℝ), gs[k]? = some (false, d) → 0 ≤ d → 0 ≤ r.1 ∧ r.1 ≤ d) ∧
    (0 ≤ acc.1 → 0 ≤ r.1 ∧ r.1 ≤ acc.1) ∧
    (r.1 < 0 → r = acc) := by
  induction gs with
  | nil =>
    intro i acc
    simp only [rayLoop]
    refine ⟨Or.inl trivial, ?_, fun h => ⟨h, le_refl _⟩, fun _ => trivial⟩
    intro k d h; simp at h
  | cons g gs ih =>
    obtain ⟨e, d0⟩ := g
    intro i acc
    simp only [rayLoop]
    obtain ⟨ihA, ihB, ihC, ihD⟩ := ih (i + 1) (rayStep acc i e d0)
    rcases rayStep_cases acc i e d0 with ⟨he, hd0, hbetter, hstep⟩ | ⟨hnot, hstep⟩
    · -- the accumulator was updated to (d0, i)
      rw [hstep] at ihA ihB ihC ihD ⊢
      simp only at ihA ihC
      have hC := ihC hd0
      refine ⟨Or.inr ?_, ?_, ?_, ?_⟩
      · rcases ihA with hr | ⟨k, d, hk, hd, hr, hfirst, hlt⟩
        · refine ⟨0, d0, by simp [he], hd0, by rw [hr]; simp, ?_, ?_⟩
          · intro j d' hj; omega
          · intro hacc; rcases hbetter with h | h
            · exact h
            · linarith
        · refine ⟨k + 1, d, by simpa using hk, hd, ?_, ?_, ?_⟩
          · rw [hr]; congr 1; push_cast; ring
          · intro j d' hj hgj hd'
            cases j with
            | zero =>
              simp at hgj
              rw [← hgj.2]; exact hlt hd0
            | succ j => exact hfirst j d' (by omega) (by simpa using hgj) hd'
          · intro hacc
            have := hlt hd0
            rcases hbetter with h | h
            · linarith
            · linarith
      · intro k d hk hd
        cases k with
        | zero =>
          simp at hk
          rw [← hk.2]; exact hC
        | succ k => exact ihB k d (by simpa using hk) hd
      · intro hacc
        rcases hbetter with h | h
        · exact ⟨hC.1, by linarith [hC.2]⟩
        · linarith
      · intro hneg
        linarith [hC.1]
    · -- the accumulator is unchanged
      rw [hstep] at ihA ihB ihC ihD ⊢
      have hkeep : e = false → 0 ≤ d0 → 0 ≤ acc.1 ∧ acc.1 ≤ d0 := by
        intro he hd0
        by_contra hc
        apply hnot
        refine ⟨he, hd0, ?_⟩
        by_cases h1 : acc.1 < 0
        · exact Or.inr h1
        · left
          by_contra h2
          exact hc ⟨not_lt.mp h1, not_lt.mp h2⟩
      refine ⟨?_, ?_, ihC, ihD⟩
      · rcases ihA with hr | ⟨k, d, hk, hd, hr, hfirst, hlt⟩
        · exact Or.inl hr
        · refine Or.inr ⟨k + 1, d, by simpa using hk, hd, ?_, ?_, hlt⟩
          · rw [hr]; congr 1; push_cast; ring
          · intro j d' hj hgj hd'
            cases j with
            | zero =>
              simp at hgj
              have := hkeep hgj.1 (by rw [hgj.2]; exact hd')
              rw [← hgj.2]
              linarith [hlt this.1]
            | succ j => exact hfirst j d' (by omega) (by simpa using hgj) hd'
      · intro k d hk hd
        cases k with
        | zero =>
          simp at hk
          have := hkeep hk.1 (by rw [hk.2]; exact hd)
          have hC := ihC this.1
          rw [← hk.2]
          exact ⟨hC.1, by linarith [hC.2]⟩
        | succ k => exact ihB k d (by simpa using hk) hd

/-- the start value `(-1, -1)` of `mj_ray` on ℝ -/
theorem mjRay_real (gs : List (Bool × ℝ)) : mjRay gs = rayLoop gs 0 ((-1 : ℝ), (-1 : Int)) := by
  unfold mjRay
  simp only [real_ofInt]
  push_cast
  rfl

/-- flags of geoms that are not hit do not matter -/
theorem rayLoop_congr_nohit (gs gs' : List (Bool × ℝ)) (hlen : gs.length = gs'.length)
    (h : ∀ k (hk : k < gs.length), gs[k].2 = (gs'[k]'(hlen ▸ hk)).2 ∧
      (gs[k].1 = (gs'[k]'(hlen ▸ hk)).1 ∨ ¬ 0 ≤ gs[k].2)) :
    ∀ (i : Nat) (acc : ℝ × Int), rayLoop gs i acc = rayLoop gs' i acc := by
  induction gs generalizing gs' with
  | nil =>
    intro i acc
    cases gs' with
    | nil => rfl
    | cons _ _ => simp at hlen
  | cons g gs ih =>
    intro i acc
    cases gs' with
    | nil => simp at hlen
    | cons g' gs' =>
      obtain ⟨e, d⟩ := g; obtain ⟨e', d'⟩ := g'
      simp only [rayLoop]
      have h0 := h 0 (by simp)
      simp only [List.getElem_cons_zero] at h0
      have hstep : rayStep acc i e d = rayStep acc i e' d' := by
        rcases h0 with ⟨hd, he | hno⟩
        · rw [show d = d' from hd, show e = e' from he]
        · have hd : d = d' := hd
          have hno : ¬ 0 ≤ d := hno
          subst hd
          have : ∀ b : Bool, rayStep acc i b d = acc := by
            intro b
            rcases rayStep_cases acc i b d with ⟨_, hd0, _, _⟩ | ⟨_, hs⟩
            · exact absurd hd0 hno
            · exact hs
          rw [this e, this e']
      rw [hstep]
      apply ih gs' (by simpa using hlen)
      intro k hk
      have := h (k + 1) (by simp; omega)
      simpa using this

end MjProof.RayLemmas
