/-
Lemmas for C30: the loop of a generated check skeleton, run under the atom semantics of
Model/BadCheck.lean, finds the first bad entry of the scanned index list and reacts as `BadCheck.fire`.
Core Lean only.
-/
import MjProof.Model.BadCheck
import MjProof.Gen.Pipeline

set_option linter.unusedSimpArgs false

namespace MjProof.BadCheck
open MjProof.Prog
variable {α : Type} {n : Nat}

theorem finRange_getElem? (n j : Nat) : (List.finRange n)[j]? = fin? n j := by
  unfold fin?
  split
  · next h => simp [h]
  · next h => simp [h]

/-! ### atoms, one lemma per source text -/
section atoms
variable (W : Which) (c : Cfg α n) (s : Mach α n)

theorem atom_nq : atomSem W c "int nq = m->nq;" s = { s with cnt := n } := by simp [atomSem]
theorem atom_qpos : atomSem W c "const mjtNum* qpos = d->qpos;" s = s := by simp [atomSem]
theorem atom_i0 : atomSem W c "int i=0;" s = { s with j := 0, i := fin? n 0 } := by simp [atomSem]
theorem atom_ipp : atomSem W c "i++" s = { s with j := s.j + 1, i := fin? n (s.j + 1) } := by simp [atomSem]
theorem atom_filter : atomSem W c "int sleep_filter = mjENABLED(mjENBL_SLEEP) && d->nv_awake < m->nv;" s =
    { s with filter := c.enblSleep && decide (c.awake.length < n) } := by simp [atomSem]
theorem atom_nv : atomSem W c "int nv = sleep_filter ? d->nv_awake : m->nv;" s =
    { s with cnt := if s.filter then c.awake.length else n } := by simp [atomSem]
theorem atom_j0 : atomSem W c "int j=0;" s = { s with j := 0 } := by simp [atomSem]
theorem atom_idx : atomSem W c "int i = sleep_filter ? d->dof_awake_ind[j] : j;" s =
    { s with i := if s.filter then c.awake[s.j]? else fin? n s.j } := by simp [atomSem]
theorem atom_jpp : atomSem W c "j++" s = { s with j := s.j + 1 } := by simp [atomSem]
theorem atom_warn (t : String) (h : t = warnKey W) : atomSem W c t s = bumpM s := by
  subst h; cases W <;> simp [atomSem, warnKey, incrText, infoText]
theorem atom_reset : atomSem W c "mj_resetData" s = { s with d := reset c s.d } := by
  cases W <;> simp [atomSem, warnKey, incrText, infoText]
theorem atom_incr (t : String) (h : t = incrText W) :
    atomSem W c t s = { s with d := { s.d with number := s.d.number + 1 } } := by
  subst h; cases W <;> simp [atomSem, warnKey, incrText, infoText]
theorem atom_info (t : String) (h : t = infoText W) : atomSem W c t s = infoM s := by
  subst h; cases W <;> simp [atomSem, warnKey, incrText, infoText]
theorem atom_forward : atomSem W c "mj_forward" s = { s with d := forward c s.d } := by
  cases W <;> simp [atomSem, warnKey, incrText, infoText]

theorem guard_iq : guardSem W c "i < nq" s = decide (s.j < s.cnt) := by simp [guardSem]
theorem guard_jv : guardSem W c "j < nv" s = decide (s.j < s.cnt) := by simp [guardSem]
theorem guard_bad (t : String) (h : t = badGuardText W) : guardSem W c t s = badAt c s := by
  subst h; cases W <;> simp [guardSem, badGuardText]
theorem menv_autoreset : (menv c).mconst "mjDISABLED(mjDSBL_AUTORESET)" = !c.autoreset := by simp [menv]
end atoms

/-! ### the loop -/

theorem loopD_succ {D : Type} (cond : D → Option Bool) (body : D → Outcome × D) (f : Nat) (s : D) :
    loopD cond body (f + 1) s =
      match cond s with
      | none => (.stuck, s)
      | some false => (.norm, s)
      | some true =>
        match body s with
        | (.norm, d') => loopD cond body f d'
        | r => r := rfl

/-- a loop whose iteration either fires at the current element of `L` or moves on finds the first bad
    element of `L` -/
theorem loop_scan (W : Which) (c : Cfg α n) (L : List (Fin n))
    (cond : Mach α n → Option Bool) (body : Mach α n → Outcome × Mach α n) (Inv : Mach α n → Prop)
    (hcond : ∀ s, Inv s → cond s = some (decide (s.j < L.length)))
    (hjunk : ∀ s, Inv s → s.junk = false)
    (hbody : ∀ s (h : s.j < L.length), Inv s →
      (c.isBad s.d.vec[L[s.j].val] = true →
        (body s).1 = .ret ∧ (body s).2.d = fire W c s.d L[s.j] ∧ (body s).2.junk = false) ∧
      (c.isBad s.d.vec[L[s.j].val] = false →
        (body s).1 = .norm ∧ Inv (body s).2 ∧ (body s).2.d = s.d ∧ (body s).2.j = s.j + 1)) :
    ∀ (k fuel : Nat) (s : Mach α n), Inv s → s.j + k = L.length → k < fuel →
      (loopD cond body fuel s).2.junk = false ∧
      match (L.drop s.j).find? (fun i => c.isBad s.d.vec[i.val]) with
      | none => (loopD cond body fuel s).1 = .norm ∧ (loopD cond body fuel s).2.d = s.d
      | some i => (loopD cond body fuel s).1 = .ret ∧ (loopD cond body fuel s).2.d = fire W c s.d i := by
  intro k
  induction k with
  | zero =>
    intro fuel s hI hk hf
    obtain ⟨f, rfl⟩ : ∃ f, fuel = f + 1 := ⟨fuel - 1, by omega⟩
    have hj : ¬ s.j < L.length := by omega
    rw [loopD_succ, hcond s hI]
    simp [hj, hjunk s hI, List.drop_eq_nil_of_le (show L.length ≤ s.j by omega)]
  | succ k ih =>
    intro fuel s hI hk hf
    obtain ⟨f, rfl⟩ : ∃ f, fuel = f + 1 := ⟨fuel - 1, by omega⟩
    have hj : s.j < L.length := by omega
    have hd : L.drop s.j = L[s.j] :: L.drop (s.j + 1) := List.drop_eq_getElem_cons hj
    obtain ⟨hb1, hb2⟩ := hbody s hj hI
    cases hbad : c.isBad s.d.vec[L[s.j].val] with
    | true =>
      obtain ⟨h1, h2, h3⟩ := hb1 hbad
      have : body s = (.ret, (body s).2) := by rw [← h1]
      rw [loopD_succ, hcond s hI, this, hd]
      simp only [hj, decide_true, List.find?_cons, hbad, h2, h3, and_self]
    | false =>
      obtain ⟨h1, h2, h3, h4⟩ := hb2 hbad
      have hb : body s = (.norm, (body s).2) := by rw [← h1]
      have := ih f (body s).2 h2 (by omega) (by omega)
      rw [loopD_succ, hcond s hI, hb]
      simp only [hj, decide_true, hd, List.find?_cons, hbad]
      rw [h4, h3] at this
      exact this

/-- what a `scope` does to the outcome of its body -/
def afterScope {D : Type} (r : Outcome × D) : Outcome × D :=
  match r with
  | (.ret, d') => (.norm, d')
  | r => r

theorem scope_scan (W : Which) (c : Cfg α n) (L : List (Fin n))
    (cond : Mach α n → Option Bool) (body : Mach α n → Outcome × Mach α n) (Inv : Mach α n → Prop)
    (hcond : ∀ s, Inv s → cond s = some (decide (s.j < L.length)))
    (hjunk : ∀ s, Inv s → s.junk = false)
    (hbody : ∀ s (h : s.j < L.length), Inv s →
      (c.isBad s.d.vec[L[s.j].val] = true →
        (body s).1 = .ret ∧ (body s).2.d = fire W c s.d L[s.j] ∧ (body s).2.junk = false) ∧
      (c.isBad s.d.vec[L[s.j].val] = false →
        (body s).1 = .norm ∧ Inv (body s).2 ∧ (body s).2.d = s.d ∧ (body s).2.j = s.j + 1))
    (fuel : Nat) (s : Mach α n) (hI : Inv s) (hj0 : s.j = 0) (hf : L.length < fuel) :
    (afterScope (loopD cond body fuel s)).1 = .norm ∧
    (afterScope (loopD cond body fuel s)).2.d = react W c s.d (L.find? (fun i => c.isBad s.d.vec[i.val])) ∧
    (afterScope (loopD cond body fuel s)).2.junk = false := by
  have h := loop_scan W c L cond body Inv hcond hjunk hbody L.length fuel s hI (by omega) hf
  rw [hj0, List.drop_zero] at h
  obtain ⟨hj, hm⟩ := h
  generalize loopD cond body fuel s = r at hj hm
  obtain ⟨o, m⟩ := r
  cases hfb : L.find? (fun i => c.isBad s.d.vec[i.val]) with
  | none =>
    rw [hfb] at hm
    obtain ⟨rfl, h2⟩ := hm
    exact ⟨rfl, h2, hj⟩
  | some i =>
    rw [hfb] at hm
    obtain ⟨rfl, h2⟩ := hm
    exact ⟨rfl, h2, hj⟩

end MjProof.BadCheck
