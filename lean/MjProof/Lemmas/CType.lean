import MjProof.Model.CType
/-
Helper lemmas for C49: list-level facts about the string functions of `Model/CType.lean`
(strip / splitWs / joinSp / splitFirst / splitLast / groups / findArr / parseInt) and the
decomposition of `decl` into the declarator of a frame list.
-/
namespace MjProof.CType

/-! ### character classes -/

/-- characters that never occur in the words printed by `decl`: brackets, star, whitespace -/
def plainChar (c : Nat) : Bool :=
  !(c == 40 || c == 41 || c == 91 || c == 93 || c == 42) && !isWs c

theorem identChar_plain {c : Nat} (h : isIdentChar c = true) : plainChar c = true := by
  simp only [isIdentChar, isIdentStart, Bool.or_eq_true, Bool.and_eq_true, decide_eq_true_eq, beq_iff_eq] at h
  have hw : isWs c = false := by
    have h128 : c < 128 := by omega
    simp only [isWs, h128, if_true, Bool.or_eq_false_iff, Bool.and_eq_false_iff, decide_eq_false_iff_not]
    omega
  have h1 : c ≠ 40 ∧ c ≠ 41 ∧ c ≠ 91 ∧ c ≠ 93 ∧ c ≠ 42 := by omega
  simp only [plainChar, hw, Bool.not_false, Bool.and_true, Bool.not_eq_true', Bool.or_eq_false_iff,
    beq_eq_false_iff_ne]
  exact ⟨⟨⟨⟨h1.1, h1.2.1⟩, h1.2.2.1⟩, h1.2.2.2.1⟩, h1.2.2.2.2⟩

theorem identStart_identChar {c : Nat} (h : isIdentStart c = true) : isIdentChar c = true := by
  simp [isIdentChar, h]

theorem plain_not_ws {c : Nat} (h : plainChar c = true) : isWs c = false := by
  simp only [plainChar, Bool.and_eq_true, Bool.not_eq_true'] at h; exact h.2

theorem plain_ne {c : Nat} (h : plainChar c = true) :
    c ≠ 40 ∧ c ≠ 41 ∧ c ≠ 91 ∧ c ≠ 93 ∧ c ≠ 42 := by
  simp only [plainChar, Bool.and_eq_true, Bool.not_eq_true', Bool.or_eq_false_iff, beq_eq_false_iff_ne] at h
  obtain ⟨⟨⟨⟨⟨a, b⟩, c'⟩, d⟩, e⟩, _⟩ := h
  exact ⟨a, b, c', d, e⟩

/-- a printed word: non-empty, plain characters only -/
def Clean (w : Str) : Prop := w ≠ [] ∧ ∀ c ∈ w, plainChar c = true

theorem isIdent_clean {w : Str} (h : isIdent w = true) : Clean w := by
  cases w with
  | nil => simp [isIdent] at h
  | cons c cs =>
    simp only [isIdent, Bool.and_eq_true, List.all_eq_true] at h
    refine ⟨by simp, ?_⟩
    intro d hd
    rcases List.mem_cons.mp hd with rfl | hd
    · exact identChar_plain (identStart_identChar h.1)
    · exact identChar_plain (h.2 d hd)

/-! ### strip -/

theorem lstrip_cons_of_not_ws {a : Nat} {l : Str} (h : isWs a = false) : lstrip (a :: l) = a :: l := by
  simp [lstrip, h]

/-- no whitespace at either end (and non-empty) -/
def NoEdgeWs (L : Str) : Prop :=
  (∃ a l, L = a :: l ∧ isWs a = false) ∧ (∃ b l, L.reverse = b :: l ∧ isWs b = false)

theorem strip_of_noEdge {L : Str} (h : NoEdgeWs L) : strip L = L := by
  obtain ⟨⟨a, l, rfl, ha⟩, ⟨b, l', hr, hb⟩⟩ := h
  simp only [strip, lstrip_cons_of_not_ws ha, rstrip, hr, List.dropWhile, hb]
  rw [← hr, List.reverse_reverse]

theorem strip_append_space {L : Str} (h : NoEdgeWs L) : strip (L ++ [32]) = L := by
  obtain ⟨⟨a, l, rfl, ha⟩, ⟨b, l', hr, hb⟩⟩ := h
  have h1 : lstrip (a :: l ++ [32]) = a :: l ++ [32] := by
    simp [lstrip, ha]
  have hsp : isWs 32 = true := by decide
  simp only [strip, h1, rstrip, List.reverse_append, List.reverse_cons, List.reverse_nil, List.nil_append,
    List.singleton_append, List.dropWhile, hsp]
  have hr' : l.reverse ++ [a] = b :: l' := by simpa using hr
  rw [hr']
  simp only [List.dropWhile, hb]
  rw [← hr']; simp

theorem noEdge_ne_nil {L : Str} (h : NoEdgeWs L) : L ≠ [] := by
  obtain ⟨⟨a, l, rfl, _⟩, _⟩ := h; simp

/-! ### joinSp / spWords / splitWs -/

/-- every word preceded by one blank -/
def spWords : List Str → Str
  | [] => []
  | w :: ws => 32 :: (w ++ spWords ws)

theorem joinSp_cons (w : Str) (ws : List Str) : joinSp (w :: ws) = w ++ spWords ws := by
  induction ws generalizing w with
  | nil => simp [joinSp, spWords]
  | cons v vs ih => simp [joinSp, spWords, ih]

theorem spWords_append (a b : List Str) : spWords (a ++ b) = spWords a ++ spWords b := by
  induction a with
  | nil => rfl
  | cons w ws ih => simp [spWords, ih]

theorem splitWsGo_word (w : Str) (hw : ∀ c ∈ w, isWs c = false) (rest cur : Str) :
    splitWsGo (w ++ rest) cur = splitWsGo rest (w.reverse ++ cur) := by
  induction w generalizing cur with
  | nil => rfl
  | cons c cs ih =>
    have hc : isWs c = false := hw c (by simp)
    simp only [List.cons_append, splitWsGo, hc, Bool.false_eq_true, if_false]
    rw [ih (fun d hd => hw d (by simp [hd]))]
    simp

theorem splitWsGo_spWords (ws : List Str) (hws : ∀ w ∈ ws, Clean w) (cur : Str) :
    splitWsGo (spWords ws) cur = (if cur.isEmpty then [] else [cur.reverse]) ++ ws := by
  induction ws generalizing cur with
  | nil => simp [spWords, splitWsGo]
  | cons w ws ih =>
    have hw := hws w (by simp)
    have hsp : isWs 32 = true := by decide
    have hne : (w.reverse ++ ([] : Str)).isEmpty = false := by
      have := hw.1
      cases w with
      | nil => exact absurd rfl this
      | cons a b => simp
    have hrest : splitWsGo (w ++ spWords ws) [] = w :: ws := by
      rw [splitWsGo_word w (fun c hc => plain_not_ws (hw.2 c hc))]
      rw [ih (fun v hv => hws v (by simp [hv]))]
      simp only [hne]; simp
    have hstep : splitWsGo (32 :: (w ++ spWords ws)) cur =
        if cur.isEmpty then splitWsGo (w ++ spWords ws) [] else cur.reverse :: splitWsGo (w ++ spWords ws) [] := by
      simp [splitWsGo, hsp]
    simp only [spWords]
    rw [hstep, hrest]
    by_cases hcur : cur.isEmpty = true
    · simp [hcur]
    · simp [hcur]

theorem splitWs_spWords (ws : List Str) (hws : ∀ w ∈ ws, Clean w) : splitWs (spWords ws) = ws := by
  simp [splitWs, splitWsGo_spWords ws hws]

theorem splitWs_joinSp (ws : List Str) (hws : ∀ w ∈ ws, Clean w) : splitWs (joinSp ws) = ws := by
  cases ws with
  | nil => rfl
  | cons w ws =>
    have hw := hws w (by simp)
    rw [joinSp_cons, splitWs, splitWsGo_word w (fun c hc => plain_not_ws (hw.2 c hc)),
      splitWsGo_spWords ws (fun v hv => hws v (by simp [hv]))]
    have hne : (w.reverse ++ ([] : Str)).isEmpty = false := by
      cases w with
      | nil => exact absurd rfl hw.1
      | cons a b => simp
    simp only [hne]; simp

theorem mem_spWords {ws : List Str} {c : Nat} (h : c ∈ spWords ws) : c = 32 ∨ ∃ w ∈ ws, c ∈ w := by
  induction ws with
  | nil => simp [spWords] at h
  | cons w ws ih =>
    simp only [spWords, List.mem_cons, List.mem_append] at h
    rcases h with h | h | h
    · exact Or.inl h
    · exact Or.inr ⟨w, by simp, h⟩
    · rcases ih h with h | ⟨v, hv, hc⟩
      · exact Or.inl h
      · exact Or.inr ⟨v, by simp [hv], hc⟩

theorem mem_joinSp {ws : List Str} {c : Nat} (h : c ∈ joinSp ws) : c = 32 ∨ ∃ w ∈ ws, c ∈ w := by
  cases ws with
  | nil => simp [joinSp] at h
  | cons w ws =>
    rw [joinSp_cons] at h
    rcases List.mem_append.mp h with h | h
    · exact Or.inr ⟨w, by simp, h⟩
    · rcases mem_spWords h with h | ⟨v, hv, hc⟩
      · exact Or.inl h
      · exact Or.inr ⟨v, by simp [hv], hc⟩

/-! ### splitFirst / splitLast -/

theorem splitFirst_none {c : Nat} {s : Str} (h : c ∉ s) : splitFirst c s = none := by
  induction s with
  | nil => rfl
  | cons x xs ih =>
    have hx : x ≠ c := fun e => h (by simp [e])
    simp [splitFirst, hx, ih (fun m => h (by simp [m]))]

theorem splitFirst_append {c : Nat} {pre : Str} (h : c ∉ pre) (rest : Str) :
    splitFirst c (pre ++ c :: rest) = some (pre, rest) := by
  induction pre with
  | nil => simp [splitFirst]
  | cons x xs ih =>
    have hx : x ≠ c := fun e => h (by simp [e])
    simp [splitFirst, hx, ih (fun m => h (by simp [m]))]

theorem splitLast_none {c : Nat} {s : Str} (h : c ∉ s) : splitLast c s = none := by
  induction s with
  | nil => rfl
  | cons x xs ih =>
    have hx : x ≠ c := fun e => h (by simp [e])
    simp [splitLast, hx, ih (fun m => h (by simp [m]))]

theorem splitLast_append {c : Nat} {post : Str} (h : c ∉ post) (pre : Str) :
    splitLast c (pre ++ c :: post) = some (pre, post) := by
  induction pre with
  | nil => simp [splitLast, splitLast_none h]
  | cons x xs ih => simp [splitLast, ih]

theorem splitFirst_length {c : Nat} {s pre rest : Str} (h : splitFirst c s = some (pre, rest)) :
    s = pre ++ c :: rest := by
  induction s generalizing pre with
  | nil => simp [splitFirst] at h
  | cons x xs ih =>
    simp only [splitFirst] at h
    by_cases hx : x = c
    · simp only [hx, if_true, Option.some.injEq, Prod.mk.injEq] at h
      obtain ⟨rfl, rfl⟩ := h; simp [hx]
    · simp only [hx, if_false, Option.map_eq_some_iff] at h
      obtain ⟨⟨p1, p2⟩, hp, he⟩ := h
      simp only [Prod.mk.injEq] at he
      obtain ⟨rfl, rfl⟩ := he
      simp [ih hp]

theorem splitLast_eq {c : Nat} {s pre post : Str} (h : splitLast c s = some (pre, post)) :
    s = pre ++ c :: post := by
  induction s generalizing pre with
  | nil => simp [splitLast] at h
  | cons x xs ih =>
    simp only [splitLast] at h
    cases hs : splitLast c xs with
    | some p =>
      simp only [hs, Option.some.injEq, Prod.mk.injEq] at h
      obtain ⟨rfl, rfl⟩ := h
      simp [ih (pre := p.1) (by simp [hs])]
    | none =>
      simp only [hs] at h
      by_cases hx : x = c
      · simp only [hx, if_true, Option.some.injEq, Prod.mk.injEq] at h
        obtain ⟨rfl, rfl⟩ := h; simp [hx]
      · simp [hx] at h

end MjProof.CType
