import MjProof.Lemmas.Sparse
/-
C23: `mju_dense2sparse` over ℝ (row-by-row invariant, capacity argument).
-/
namespace MjProof.Sparse
open MjNum Finset MjProof.LinAlg

variable {nr nc : Nat}

/-- number of non-zeros among the first `c0` entries of row `r` -/
noncomputable def nzRow (M : Vector ℝ (nr * nc)) (r c0 : Nat) : Nat :=
  ∑ c ∈ range c0, if mget M r c = 0 then 0 else 1

/-- number of non-zeros in the first `m` rows -/
noncomputable def nzBefore (M : Vector ℝ (nr * nc)) (m : Nat) : Nat := ∑ r ∈ range m, nzRow M r nc

theorem nzRow_succ (M : Vector ℝ (nr * nc)) (r c : Nat) :
    nzRow M r (c + 1) = nzRow M r c + (if mget M r c = 0 then 0 else 1) := by
  unfold nzRow; rw [Finset.sum_range_succ]

theorem nzRow_mono (M : Vector ℝ (nr * nc)) (r : Nat) {c c' : Nat} (h : c ≤ c') : nzRow M r c ≤ nzRow M r c' := by
  unfold nzRow
  exact Finset.sum_le_sum_of_subset (Finset.range_mono h)

theorem nzBefore_succ (M : Vector ℝ (nr * nc)) (m : Nat) : nzBefore M (m + 1) = nzBefore M m + nzRow M m nc := by
  unfold nzBefore; rw [Finset.sum_range_succ]

theorem nzBefore_mono (M : Vector ℝ (nr * nc)) {m m' : Nat} (h : m ≤ m') : nzBefore M m ≤ nzBefore M m' := by
  unfold nzBefore
  exact Finset.sum_le_sum_of_subset (Finset.range_mono h)

/-- partial row sum of raw arrays -/
noncomputable def rawPart {cap : Nat} (colind : Vector Nat cap) (res : Vector ℝ cap) (a0 n b : Nat) : ℝ :=
  ∑ k ∈ range n, if nget colind (a0 + k) = b then vget res (a0 + k) else 0

theorem denseRaw_eq_rawPart {cap : Nat} (rownnz rowadr : Vector Nat nr) (colind : Vector Nat cap) (res : Vector ℝ cap)
    (r b : Nat) : denseRaw rownnz rowadr colind res r b = rawPart colind res (nget rowadr r) (nget rownnz r) b := rfl

theorem rawPart_congr {cap : Nat} (colind colind' : Vector Nat cap) (res res' : Vector ℝ cap) (a0 n b : Nat)
    (h : ∀ k < n, nget colind' (a0 + k) = nget colind (a0 + k) ∧ vget res' (a0 + k) = vget res (a0 + k)) :
    rawPart colind' res' a0 n b = rawPart colind res a0 n b := by
  unfold rawPart
  apply Finset.sum_congr rfl
  intro k hk; simp at hk
  rw [(h k hk).1, (h k hk).2]


/-- row `a` of `M` has been stored for its columns `< c0`, starting at address `nzBefore M a` -/
structure RowOK {nnz : Nat} (M : Vector ℝ (nr * nc)) (a c0 : Nat) (rowadr rownnz : Vector Nat nr)
    (colind : Vector Nat nnz) (res : Vector ℝ nnz) : Prop where
  adr : nget rowadr a = nzBefore M a
  cnt : nget rownnz a = nzRow M a c0
  sum : ∀ b, rawPart colind res (nzBefore M a) (nzRow M a c0) b = if b < c0 then mget M a b else 0
  lt : ∀ k < nzRow M a c0, nget colind (nzBefore M a + k) < c0
  mono : ∀ k k', k < k' → k' < nzRow M a c0 →
    nget colind (nzBefore M a + k) < nget colind (nzBefore M a + k')

variable {nnz : Nat} (M : Vector ℝ (nr * nc))

theorem RowOK.frame {a c0 : Nat} {rowadr rownnz rowadr' rownnz' : Vector Nat nr}
    {colind colind' : Vector Nat nnz} {res res' : Vector ℝ nnz}
    (h : RowOK M a c0 rowadr rownnz colind res)
    (h1 : nget rowadr' a = nget rowadr a) (h2 : nget rownnz' a = nget rownnz a)
    (h3 : ∀ pos < nzBefore M a + nzRow M a c0, nget colind' pos = nget colind pos ∧ vget res' pos = vget res pos) :
    RowOK M a c0 rowadr' rownnz' colind' res' := by
  refine ⟨h1.trans h.adr, h2.trans h.cnt, ?_, ?_, ?_⟩
  · intro b
    rw [rawPart_congr colind colind' res res' _ _ b (fun k hk => h3 _ (by omega))]
    exact h.sum b
  · intro k hk
    rw [(h3 _ (by omega)).1]; exact h.lt k hk
  · intro k k' hkk hk'
    rw [(h3 _ (by omega)).1, (h3 _ (by omega)).1]; exact h.mono k k' hkk hk'

theorem RowOK.skip {a c : Nat} {rowadr rownnz : Vector Nat nr} {colind : Vector Nat nnz} {res : Vector ℝ nnz}
    (h : RowOK M a c rowadr rownnz colind res) (hz : mget M a c = 0) :
    RowOK M a (c + 1) rowadr rownnz colind res := by
  have e : nzRow M a (c + 1) = nzRow M a c := by rw [nzRow_succ, if_pos hz]; rfl
  refine ⟨h.adr, by rw [e]; exact h.cnt, ?_, ?_, ?_⟩
  · intro b
    rw [e, h.sum b]
    by_cases hb : b < c
    · rw [if_pos hb, if_pos (by omega)]
    · rw [if_neg hb]
      by_cases hb2 : b = c
      · subst hb2; rw [if_pos (by omega), hz]
      · rw [if_neg (by omega)]
  · intro k hk; rw [e] at hk; have := h.lt k hk; omega
  · intro k k' hkk hk'; rw [e] at hk'; exact h.mono k k' hkk hk'

theorem RowOK.push {a c : Nat} (ha : a < nr) {rowadr rownnz : Vector Nat nr} {colind : Vector Nat nnz} {res : Vector ℝ nnz}
    (h : RowOK M a c rowadr rownnz colind res) (hnz : mget M a c ≠ 0)
    (hpos : nzBefore M a + nzRow M a c < nnz) :
    RowOK M a (c + 1) rowadr (rownnz.set a (rownnz[a] + 1) ha)
      (colind.set (nzBefore M a + nzRow M a c) c hpos) (res.set (nzBefore M a + nzRow M a c) (mget M a c) hpos) := by
  have e : nzRow M a (c + 1) = nzRow M a c + 1 := by rw [nzRow_succ, if_neg hnz]
  refine ⟨h.adr, ?_, ?_, ?_, ?_⟩
  · rw [nget_set, if_pos rfl, e, getElem_eq_nget, h.cnt]
  · intro b
    rw [e]
    unfold rawPart
    rw [Finset.sum_range_succ, nget_set, if_pos rfl, vget_set, if_pos rfl]
    have : ∑ k ∈ range (nzRow M a c),
        (if nget (colind.set (nzBefore M a + nzRow M a c) c hpos) (nzBefore M a + k) = b
          then vget (res.set (nzBefore M a + nzRow M a c) (mget M a c) hpos) (nzBefore M a + k) else 0)
        = rawPart colind res (nzBefore M a) (nzRow M a c) b := by
      unfold rawPart
      apply Finset.sum_congr rfl
      intro k hk; simp at hk
      have e1 : nget (colind.set (nzBefore M a + nzRow M a c) c hpos) (nzBefore M a + k)
          = nget colind (nzBefore M a + k) := by rw [nget_set, if_neg (by omega)]
      have e2 : vget (res.set (nzBefore M a + nzRow M a c) (mget M a c) hpos) (nzBefore M a + k)
          = vget res (nzBefore M a + k) := by rw [vget_set, if_neg (by omega)]
      rw [e1, e2]
    rw [this, h.sum b]
    split_ifs <;> first | ring1 | (exfalso; omega) | (subst_vars; ring1)
  · intro k hk
    rw [e] at hk
    rw [nget_set]
    by_cases hk2 : k = nzRow M a c
    · rw [if_pos (by omega)]; omega
    · rw [if_neg (by omega)]; have := h.lt k (by omega); omega
  · intro k k' hkk hk'
    rw [e] at hk'
    rw [nget_set, nget_set, if_neg (by omega)]
    by_cases hk2 : k' = nzRow M a c
    · rw [if_pos (by omega)]; exact h.lt k (by omega)
    · rw [if_neg (by omega)]; exact h.mono k k' hkk (by omega)


theorem RowOK.push' {a c pos : Nat} (ha : a < nr) {rowadr rownnz : Vector Nat nr} {colind : Vector Nat nnz}
    {res : Vector ℝ nnz} (h : RowOK M a c rowadr rownnz colind res) (hnz : mget M a c ≠ 0)
    (hpe : pos = nzBefore M a + nzRow M a c) (hpos : pos < nnz) :
    RowOK M a (c + 1) rowadr (rownnz.set a (rownnz[a] + 1) ha) (colind.set pos c hpos)
      (res.set pos (mget M a c) hpos) := by
  subst hpe
  exact h.push M ha hnz hpos

theorem RowOK.init {a : Nat} (ha : a < nr) (rowadr rownnz : Vector Nat nr) (colind : Vector Nat nnz)
    (res : Vector ℝ nnz) :
    RowOK M a 0 (rowadr.set a (nzBefore M a) ha) (rownnz.set a 0 ha) colind res := by
  have e : nzRow M a 0 = 0 := by simp [nzRow]
  refine ⟨by rw [nget_set, if_pos rfl], by rw [nget_set, if_pos rfl, e], ?_, ?_, ?_⟩
  · intro b; rw [e]; simp [rawPart]
  · intro k hk; omega
  · intro k k' _ hk'; omega

/-- state invariant of `dense2sparse` while row `r` has been processed up to column `c` -/
structure D2SInv (M : Vector ℝ (nr * nc)) (r c : Nat) (st : D2S ℝ nr nnz) : Prop where
  notfull : st.full = false
  adr : st.adr = nzBefore M r + nzRow M r c
  done : ∀ a < r, RowOK M a nc st.rowadr st.rownnz st.colind st.res
  cur : RowOK M r c st.rowadr st.rownnz st.colind st.res

theorem dense2sparse_inner (hcap : nzBefore M nr ≤ nnz) (r : Nat) (hr : r < nr) (st : D2S ℝ nr nnz)
    (h : D2SInv M r 0 st) :
    D2SInv M r nc (Nat.fold nc (fun c hc (st : D2S ℝ nr nnz) =>
          if st.full then st
          else
            let v := at2 M r c hr hc
            if beq v (lit 0) then st
            else if h : st.adr < nnz then
              { st with colind := st.colind.set st.adr c, rownnz := st.rownnz.set r (st.rownnz[r] + 1),
                        res := st.res.set st.adr v, adr := st.adr + 1 }
            else { st with full := true }) st) := by
  refine fold_inv (fun c st => D2SInv M r c st) h ?_
  intro c hc st I
  have hnf : st.full = false := I.notfull
  simp only [hnf, Bool.false_eq_true, if_false, at2_eq_mget]
  by_cases hz : mget M r c = 0
  · rw [if_pos ((real_beq_zero _).mpr hz)]
    exact ⟨hnf, by rw [I.adr, nzRow_succ, if_pos hz]; rfl, I.done, I.cur.skip M hz⟩
  · rw [if_neg (fun hh => hz ((real_beq_zero _).mp hh))]
    have hlt : st.adr < nnz := by
      have h1 : nzRow M r (c + 1) = nzRow M r c + 1 := by rw [nzRow_succ, if_neg hz]
      have h2 := nzRow_mono M r (show c + 1 ≤ nc by omega)
      have h3 := nzBefore_succ M r
      have h4 := nzBefore_mono M (show r + 1 ≤ nr by omega)
      have := I.adr
      omega
    rw [dif_pos hlt]
    refine ⟨rfl, ?_, ?_, ?_⟩
    · show st.adr + 1 = _
      rw [I.adr, nzRow_succ, if_neg hz]; omega
    · intro a ha
      refine (I.done a ha).frame M rfl ?_ ?_
      · show nget (st.rownnz.set r (st.rownnz[r] + 1) hr) a = _
        rw [nget_set, if_neg (by omega)]
      · intro pos hpos
        have h3 := nzBefore_succ M a
        have h4 := nzBefore_mono M (show a + 1 ≤ r by omega)
        have := I.adr
        show nget (st.colind.set st.adr c hlt) pos = _ ∧ vget (st.res.set st.adr (mget M r c) hlt) pos = _
        rw [nget_set, vget_set, if_neg (by omega), if_neg (by omega)]
        exact ⟨rfl, rfl⟩
    · exact I.cur.push' M hr hz I.adr hlt


/-- `mju_dense2sparse` with enough capacity: no overflow exit, and every row is stored (in increasing column
order, contiguously from address 0) -/
theorem dense2sparse_spec (hnnz : nnz ≠ 0) (hcap : nzBefore M nr ≤ nnz) (init : D2S ℝ nr nnz) :
    (dense2sparse M init).full = false ∧ (dense2sparse M init).adr = nzBefore M nr ∧
    ∀ a < nr, RowOK M a nc (dense2sparse M init).rowadr (dense2sparse M init).rownnz
      (dense2sparse M init).colind (dense2sparse M init).res := by
  unfold dense2sparse
  rw [if_neg hnnz]
  refine fold_inv (n := nr)
    (fun m (st : D2S ℝ nr nnz) => st.full = false ∧ st.adr = nzBefore M m ∧
      ∀ a < m, RowOK M a nc st.rowadr st.rownnz st.colind st.res)
    ⟨rfl, by simp [nzBefore], by intro a ha; omega⟩ ?_
  intro m hm st ⟨hnf, hadr, hdone⟩
  have hcond : ¬ (st.full = true) := by rw [hnf]; simp
  dsimp only
  rw [if_neg hcond]
  have I0 : D2SInv M m 0 { st with rownnz := st.rownnz.set m 0 hm, rowadr := st.rowadr.set m st.adr hm } := by
    refine ⟨hnf, ?_, ?_, ?_⟩
    · show st.adr = _
      rw [hadr]; simp [nzRow]
    · intro a ha
      refine (hdone a ha).frame M ?_ ?_ (fun pos _ => ⟨rfl, rfl⟩)
      · show nget (st.rowadr.set m st.adr hm) a = _
        rw [nget_set, if_neg (by omega)]
      · show nget (st.rownnz.set m 0 hm) a = _
        rw [nget_set, if_neg (by omega)]
    · show RowOK M m 0 (st.rowadr.set m st.adr hm) (st.rownnz.set m 0 hm) st.colind st.res
      rw [hadr]
      exact RowOK.init M hm _ _ _ _
  have I1 := dense2sparse_inner M hcap m hm _ I0
  refine ⟨I1.notfull, ?_, ?_⟩
  · rw [I1.adr, nzBefore_succ]
  · intro a ha
    rcases Nat.lt_succ_iff_lt_or_eq.mp ha with hlt | rfl
    · exact I1.done a hlt
    · exact I1.cur

theorem dense2sparse_full_of_zero_cap (hnnz : nnz = 0) (init : D2S ℝ nr nnz) : (dense2sparse M init).full = true := by
  unfold dense2sparse; rw [if_pos hnnz]

/-- the pattern produced by `mju_dense2sparse` (with enough capacity) as a `Pat`, with distinct columns per row,
representing `M` -/
theorem dense2sparse_pat (hnnz : nnz ≠ 0) (hcap : nzBefore M nr ≤ nnz) (init : D2S ℝ nr nnz) :
    ∃ p : Pat nr nc nnz, p.rownnz = (dense2sparse M init).rownnz ∧ p.rowadr = (dense2sparse M init).rowadr ∧
      p.colind = (dense2sparse M init).colind ∧ NodupRows p ∧
      ∀ a b, a < nr → b < nc → denseOf p (dense2sparse M init).res a b = mget M a b := by
  obtain ⟨-, -, hrows⟩ := dense2sparse_spec M hnnz hcap init
  set st := dense2sparse M init
  have hrow : ∀ r (h : r < nr), st.rowadr[r] + st.rownnz[r] ≤ nnz := by
    intro r h
    rw [getElem_eq_nget, getElem_eq_nget, (hrows r h).adr, (hrows r h).cnt, ← nzBefore_succ]
    exact le_trans (nzBefore_mono M (by omega)) hcap
  have hcol : ∀ r (h : r < nr) k (hk : k < st.rownnz[r]),
      st.colind[st.rowadr[r] + k]'(Nat.lt_of_lt_of_le (Nat.add_lt_add_left hk _) (hrow r h)) < nc := by
    intro r h k hk
    rw [getElem_eq_nget, getElem_eq_nget st.rowadr, (hrows r h).adr]
    rw [getElem_eq_nget, (hrows r h).cnt] at hk
    exact (hrows r h).lt k hk
  refine ⟨{ rownnz := st.rownnz, rowadr := st.rowadr, colind := st.colind, hrow := hrow, hcol := hcol },
    rfl, rfl, rfl, ?_, ?_⟩
  · intro r k k' hk hk' heq
    by_cases hr : r < nr
    · have R := hrows r hr
      simp only [R.adr, R.cnt] at hk hk' heq
      by_contra hne
      rcases Nat.lt_or_gt_of_ne hne with h | h
      · have := R.mono k k' h hk'; omega
      · have := R.mono k' k h hk; omega
    · exfalso
      have : nget st.rownnz r = 0 := by unfold nget; simp [hr]
      simp only [this] at hk
      omega
  · intro a b ha hb
    have R := hrows a ha
    show denseRaw st.rownnz st.rowadr st.colind st.res a b = _
    rw [denseRaw_eq_rawPart, R.adr, R.cnt, R.sum b, if_pos hb]

end MjProof.Sparse
