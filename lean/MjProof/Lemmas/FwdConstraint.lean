import MjProof.Model.FwdConstraint
/-
Lemmas about the tracked-array semantics of Model/FwdConstraint.lean: the gather / scatter pair of the
island path restores the full-length vector provided the entries outside the index map already agree.
-/
namespace MjProof.FwdConstraint

variable {α : Type}

theorem gatherL_some (src : List α) (map : List Nat) (h : ∀ k ∈ map, k < src.length) :
    ∃ vals, gatherL src map = some vals := by
  induction map with
  | nil => exact ⟨[], rfl⟩
  | cons k ks ih =>
    obtain ⟨vs, hvs⟩ := ih (fun j hj => h j (List.mem_cons_of_mem _ hj))
    have hk : k < src.length := h k (List.mem_cons_self)
    refine ⟨src[k] :: vs, ?_⟩
    simp [gatherL, hvs, List.getElem?_eq_getElem hk]

/-- `mju_gather(ifrc, tgt, map)` followed by `mju_scatter(dst, ifrc, map)` yields `tgt` when `dst`
    already agrees with `tgt` at every index outside `map`. -/
theorem scatter_gather (map : List Nat) : ∀ (dst tgt : List α), dst.length = tgt.length →
    (∀ k ∈ map, k < tgt.length) → (∀ k, k ∉ map → dst[k]? = tgt[k]?) →
    ∃ vals, gatherL tgt map = some vals ∧ scatterL dst map vals = some tgt := by
  induction map with
  | nil =>
    intro dst tgt _ _ hout
    refine ⟨[], rfl, ?_⟩
    have : dst = tgt := List.ext_getElem? (fun k => hout k (by simp))
    simp [scatterL, this]
  | cons k ks ih =>
    intro dst tgt hlen hin hout
    have hk : k < tgt.length := hin k (List.mem_cons_self)
    have hkd : k < dst.length := hlen ▸ hk
    obtain ⟨vs, hg, hs⟩ := ih (dst.set k tgt[k]) tgt (by simp [hlen])
      (fun j hj => hin j (List.mem_cons_of_mem _ hj))
      (by
        intro j hj
        by_cases hjk : j = k
        · subst hjk
          simp [hkd, List.getElem?_eq_getElem hk]
        · have : j ∉ k :: ks := by simp [hjk, hj]
          rw [List.getElem?_set_ne (Ne.symm hjk)]
          exact hout j this)
    refine ⟨tgt[k] :: vs, ?_, ?_⟩
    · simp [gatherL, hg, List.getElem?_eq_getElem hk]
    · simp [scatterL, hkd, hs]

variable {φ : Type}

/-- What the theorems assume about the abstract leaves of one call (validated on engine data by the
    oracle of checks/c11.py): `J' f` has `nv` entries; the island dof map indexes dofs; a dof that
    belongs to no island has no constraint row touching it (its column of `J` is zero), so `J' f`
    vanishes there; without constraint rows `J' f` is the zero vector. -/
structure Leaves.WF (L : Leaves φ α) (e : Env) : Prop where
  len : ∀ f, (L.jtf f).length = L.nv
  mapLt : ∀ k ∈ L.map, k < L.nv
  outside : e.islands = true → ∀ f k, k ∉ L.map → k < L.nv → (L.jtf f)[k]? = some L.z
  empty : e.noRows = true → ∀ f, L.jtf f = List.replicate L.nv L.z

/-- the island path of the primal solvers: gather (any content) – island solve – scatter, starting from
    any `qfrc_constraint` content `q` of length nv that is zero outside the islands -/
theorem island_roundtrip (L : Leaves φ α) (e : Env) (h : L.WF e) (hi : e.islands = true) (q : List α)
    (hq : q.length = L.nv) (hz : ∀ k, k ∉ L.map → k < L.nv → q[k]? = some L.z) (g : φ) :
    ∃ v w, gatherL q L.map = some v ∧ gatherL (L.jtf g) L.map = some w ∧
      scatterL q L.map w = some (L.jtf g) := by
  obtain ⟨v, hv⟩ := gatherL_some q L.map (fun k hk => by rw [hq]; exact h.mapLt k hk)
  obtain ⟨w, hw, hs⟩ := scatter_gather L.map q (L.jtf g) (by rw [hq, h.len])
    (fun k hk => by rw [h.len]; exact h.mapLt k hk)
    (by
      intro k hk
      by_cases hlt : k < L.nv
      · rw [hz k hk hlt, h.outside hi g k hk hlt]
      · have h1 : q.length ≤ k := by rw [hq]; exact Nat.le_of_not_lt hlt
        have h2 : (L.jtf g).length ≤ k := by rw [h.len]; exact Nat.le_of_not_lt hlt
        rw [List.getElem?_eq_none h1, List.getElem?_eq_none h2])
  exact ⟨v, w, hv, hw, hs⟩

/-- after the top-level `mju_zero` and the warm start, `qfrc_constraint` has nv entries and is zero
    outside the islands — in the cold start only because of that `mju_zero` -/
theorem warmQ_zero_outside (L : Leaves φ α) (e : Env) (h : L.WF e) (hi : e.islands = true) :
    (warmQ L e (List.replicate L.nv L.z)).length = L.nv ∧
    ∀ k, k ∉ L.map → k < L.nv → (warmQ L e (List.replicate L.nv L.z))[k]? = some L.z := by
  unfold warmQ
  split
  · split
    · split
      · exact ⟨by simp, fun k _ hlt => by simp [hlt]⟩
      · exact ⟨h.len _, fun k hk hlt => h.outside hi _ k hk hlt⟩
    · exact ⟨h.len _, fun k hk hlt => h.outside hi _ k hk hlt⟩
  · exact ⟨by simp, fun k _ hlt => by simp [hlt]⟩

end MjProof.FwdConstraint
