import MjProof.Lemmas.ThreadPool
/-
Ranking function and enabledness lemmas for the thread-pool transition system
(`MjProof/Model/ThreadPool.lean`, invariant in `MjProof/Lemmas/ThreadPool.lean`).  Core Lean only.
-/
namespace MjProof.ThreadPool
set_option linter.unusedSimpArgs false
set_option linter.unusedVariables false

/-- remaining own work of a worker, given the current value of `signal_` -/
def wrank (sig : Int) (x : Worker) : Nat :=
  match x.pc with
  | .wait => if x.status = sig then 0 else 5
  | .sleep => if x.status = sig then 0 else 5
  | .load => 4
  | .exec _ => 3
  | .fetch => 2
  | .fin => 1
  | .halted => 0
  | .unborn => 0

def mrank (s : State) : Nat :=
  match s.mpc with
  | .idle => 0
  | .dSpin => 1
  | .dFetch => 2
  | .dExec _ => 3
  | .dNotify => 3
  | .dSigStore _ => 4 + 5 * s.N
  | .dSigLoad => 5 + 5 * s.N
  | .dNdone => 6 + 5 * s.N
  | .dNext => 7 + 5 * s.N
  | .serial i => 1 + (s.reqN - i)
  | .spawn i => 1 + (s.N - i)
  | .delJoin j k => (s.N - j) + k + 2
  | .delNotify k => s.N + k + 2
  | .delStore k => 6 * s.N + k + 3

def trank (s : State) : Nat :=
  match s.mpc with
  | .dNext => 3 * s.reqN
  | .dNdone => 3 * s.reqN
  | .dSigLoad => 3 * s.reqN
  | .dSigStore _ => 3 * s.reqN
  | .dNotify => 3 * (s.reqN - s.next)
  | .dFetch => 3 * (s.reqN - s.next)
  | .dExec _ => 3 * (s.reqN - s.next)
  | .dSpin => 3 * (s.reqN - s.next)
  | _ => 0

def wsum (s : State) : Nat := sumTo (fun i => wrank s.signal (s.w i)) s.N

/-- ranking function: an upper bound on the number of non-spin steps until the dispatching thread is idle again -/
def rank (s : State) : Nat := mrank s + trank s + wsum s

theorem sumTo_const {f : Nat → Nat} {N c : Nat} (h : ∀ i, 1 ≤ i → i ≤ N → f i = c) : sumTo f N = c * N := by
  induction N with
  | zero => simp [sumTo]
  | succ n ih =>
    simp only [sumTo]
    rw [ih (fun i h1 h2 => h i h1 (by omega)), h (n + 1) (by omega) (by omega)]
    rw [Nat.mul_succ]

theorem wsum_setW {s : State} {i : Nat} {x : Worker} (hi : 1 ≤ i ∧ i ≤ s.N) :
    wsum (setW s i x) + wrank s.signal (s.w i) = wsum s + wrank s.signal x := by
  unfold wsum
  have := sumTo_update (f := fun j => wrank s.signal (s.w j))
    (g := fun j => wrank (setW s i x).signal ((setW s i x).w j)) hi.1 hi.2 (by intro j hj; simp [setW, hj])
  simpa [setW] using this

theorem trank_batch_fetch {s : State} (hin : inBatch s) (x : State) (hm : x.mpc = s.mpc)
    (hr : x.reqN = s.reqN) (hn : x.next = s.next + 1) :
    (s.next < s.reqN → trank x + 3 = trank s) ∧ (¬ s.next < s.reqN → trank x = trank s) := by
  unfold trank
  rw [hm, hr, hn]
  cases hmm : s.mpc <;> simp only [inBatch, phase, hmm] at hin ⊢
  all_goals try (split at hin <;> simp at hin)
  all_goals try (simp at hin; done)
  all_goals omega

theorem inBatch_of_pc {s : State} {i : Nat} (h : Inv s) (hi : 1 ≤ i ∧ i ≤ s.N)
    (hpc : (s.w i).pc = .fetch ∨ (∃ t, (s.w i).pc = .exec t) ∨ (s.w i).pc = .fin) :
    inBatch s ∧ (s.w i).status = s.signal := by
  obtain ⟨ho, hw, hg⟩ := h
  have hwi := hw i hi.1 hi.2
  unfold inBatch
  cases hm : s.mpc <;> simp only [phase, hm, WOK] at hwi ⊢
  all_goals try (cases ha : s.alive <;> simp only [ha] at hwi ⊢)
  all_goals (try split at hwi) <;> grind

theorem rank_worker {s s' : State} {i : Nat} {evs : List Ev} (h : Inv s)
    (hs : step s (.worker i) = some (s', evs)) (hns : ¬ isSpin s (.worker i)) : rank s' < rank s := by
  have h0 := h
  obtain ⟨ho, hw, hg⟩ := h
  simp only [step, stepWorker] at hs
  have hi : 1 ≤ i ∧ i ≤ s.N := by
    by_cases hc : 1 ≤ i ∧ i ≤ s.N
    · exact hc
    · have := ho i (by omega)
      simp [this] at hs
  simp only [isSpin] at hns
  split at hs
  all_goals rename_i hpc
  all_goals try (simp at hs; done)
  · -- wait
    split at hs
    · rename_i hsig
      simp at hs; obtain ⟨rfl, _⟩ := hs
      have hsum := wsum_setW (s := s) (x := ⟨.load, (s.w i).status⟩) hi
      have hne : ¬ (s.w i).status = s.signal := fun h => hsig h.symm
      simp only [wrank, hpc, hne, if_false] at hsum
      show mrank s + trank s + wsum (setW s i _) < mrank s + trank s + wsum s
      omega
    · rename_i hsig
      exact absurd ⟨hpc, by simpa using hsig⟩ hns
  · -- load
    split at hs
    all_goals (simp at hs; obtain ⟨rfl, _⟩ := hs)
    · have hsum := wsum_setW (s := s) (x := ⟨.halted, s.signal⟩) hi
      simp only [wrank, hpc] at hsum
      show mrank s + trank s + wsum (setW s i _) < mrank s + trank s + wsum s
      omega
    · have hsum := wsum_setW (s := s) (x := ⟨.fetch, s.signal⟩) hi
      simp only [wrank, hpc] at hsum
      show mrank s + trank s + wsum (setW s i _) < mrank s + trank s + wsum s
      omega
  · -- fetch
    obtain ⟨hin, hst⟩ := inBatch_of_pc h0 hi (Or.inl hpc)
    have hnt : s.ntask = s.reqN := by
      unfold inBatch at hin
      cases hm : s.mpc <;> simp only [phase, hm, Glob] at hin hg
      all_goals try (split at hin <;> simp at hin)
      all_goals try (simp at hin; done)
      all_goals first | exact hg.2.2.1 | exact hg.1.2.2.1
    split at hs
    · rename_i hlt
      simp at hs; obtain ⟨rfl, _⟩ := hs
      have hsum := wsum_setW (s := s) (x := ⟨.exec s.next, (s.w i).status⟩) hi
      simp only [wrank, hpc] at hsum
      have ht := (trank_batch_fetch hin
        { setW s i ⟨.exec s.next, (s.w i).status⟩ with next := s.next + 1 } rfl rfl rfl).1 (by omega)
      show mrank s + trank ({ setW s i ⟨.exec s.next, (s.w i).status⟩ with next := s.next + 1 }) +
        wsum (setW s i _) < mrank s + trank s + wsum s
      omega
    · rename_i hlt
      simp at hs; obtain ⟨rfl, _⟩ := hs
      have hsum := wsum_setW (s := s) (x := ⟨.fin, (s.w i).status⟩) hi
      simp only [wrank, hpc] at hsum
      have ht := (trank_batch_fetch hin
        { setW s i ⟨.fin, (s.w i).status⟩ with next := s.next + 1 } rfl rfl rfl).2 (by omega)
      show mrank s + trank ({ setW s i ⟨.fin, (s.w i).status⟩ with next := s.next + 1 }) +
        wsum (setW s i _) < mrank s + trank s + wsum s
      omega
  · -- exec
    rename_i t
    simp at hs; obtain ⟨rfl, _⟩ := hs
    have hsum := wsum_setW (s := s) (x := ⟨.fetch, (s.w i).status⟩) hi
    simp only [wrank, hpc] at hsum
    show mrank s + trank s + wsum (setW s i _) < mrank s + trank s + wsum s
    omega
  · -- fin
    obtain ⟨hin, hst⟩ := inBatch_of_pc h0 hi (Or.inr (Or.inr hpc))
    simp at hs; obtain ⟨rfl, _⟩ := hs
    have hsum := wsum_setW (s := s) (x := ⟨.wait, (s.w i).status⟩) hi
    have hx : wrank s.signal ⟨.wait, (s.w i).status⟩ = 0 := by simp [wrank, hst]
    have hy : wrank s.signal (s.w i) = 1 := by simp [wrank, hpc]
    rw [hx, hy] at hsum
    show mrank s + trank s + wsum (setW s i _) < mrank s + trank s + wsum s
    omega

theorem sumTo_le_mul {f : Nat → Nat} {c : Nat} (h : ∀ i, f i ≤ c) (N : Nat) : sumTo f N ≤ c * N := by
  induction N with
  | zero => simp [sumTo]
  | succ n ih => simp only [sumTo]; have := h (n + 1); rw [Nat.mul_succ]; omega

theorem wrank_le (sig : Int) (x : Worker) : wrank sig x ≤ 5 := by
  unfold wrank; split <;> (try split) <;> omega

theorem wsum_le (s : State) : wsum s ≤ 5 * s.N := sumTo_le_mul (fun i => wrank_le _ _) _

theorem wsum_zero {s : State} (h : ∀ i, 1 ≤ i → i ≤ s.N → wrank s.signal (s.w i) = 0) : wsum s = 0 :=
  sumTo_zero h

theorem wsum_congr {s s' : State} (hN : s'.N = s.N)
    (h : ∀ i, 1 ≤ i → i ≤ s.N → wrank s'.signal (s'.w i) = wrank s.signal (s.w i)) : wsum s' = wsum s := by
  unfold wsum; rw [hN]; exact sumTo_congr h

theorem wsum_quiet {s : State}
    (hw : ∀ i, 1 ≤ i → i ≤ s.N → ((s.w i).pc = .wait ∨ (s.w i).pc = .sleep) ∧ (s.w i).status = s.signal) :
    wsum s = 0 := by
  apply wsum_zero
  intro i h1 h2
  obtain ⟨hp, hs⟩ := hw i h1 h2
  unfold wrank
  rcases hp with hp | hp <;> simp [hp, hs]

theorem wrank_wake (sig : Int) (x : Worker) :
    wrank sig (if x.pc = .sleep then ⟨.wait, x.status⟩ else x) = wrank sig x := by
  cases hx : x.pc <;> simp [wrank, hx]

theorem rank_main {s s' : State} {evs : List Ev} (h : Inv s)
    (hs : step s .main = some (s', evs)) (hns : ¬ isSpin s .main) : rank s' < rank s := by
  have h' := inv_step h hs
  obtain ⟨ho, hw, hg⟩ := h
  simp only [step, stepMain, beginCreate] at hs
  simp only [isSpin] at hns
  split at hs
  all_goals rename_i hpc
  all_goals simp only [Glob, hpc] at hg
  all_goals simp only [phase, hpc] at hw
  · simp at hs
  · -- spawn i
    rename_i i
    have hi : 1 ≤ i ∧ i ≤ s.N := ⟨hg.2.1, hg.2.2.1⟩
    have hwi := hw i hi.1 hi.2
    simp only [WOK, Nat.lt_irrefl, if_false] at hwi
    have hsum := wsum_setW (s := s) (x := ⟨.wait, 1⟩) hi
    have hx : wrank s.signal ⟨.wait, 1⟩ = 0 := by simp [wrank, hg.2.2.2.1]
    have hy : wrank s.signal (s.w i) = 0 := by simp [wrank, hwi]
    rw [hx, hy] at hsum
    split at hs
    all_goals (simp at hs; obtain ⟨rfl, _⟩ := hs)
    · show mrank _ + trank _ + wsum (setW s i ⟨.wait, 1⟩) < mrank s + trank s + wsum s
      have hN : (setW s i ⟨.wait, 1⟩).N = s.N := rfl
      simp only [mrank, trank, hpc, hN]; omega
    · show mrank _ + trank _ + wsum (setW s i ⟨.wait, 1⟩) < mrank s + trank s + wsum s
      have hN : (setW s i ⟨.wait, 1⟩).N = s.N := rfl
      simp only [mrank, trank, hpc, hN]; omega
  · -- dNext
    simp at hs; obtain ⟨rfl, _⟩ := hs
    show mrank _ + trank _ + wsum s < mrank s + trank s + wsum s
    simp only [mrank, trank, hpc]; omega
  · -- dNdone
    simp at hs; obtain ⟨rfl, _⟩ := hs
    show mrank _ + trank _ + wsum s < mrank s + trank s + wsum s
    simp only [mrank, trank, hpc]; omega
  · -- dSigLoad
    simp at hs; obtain ⟨rfl, _⟩ := hs
    show mrank _ + trank _ + wsum s < mrank s + trank s + wsum s
    simp only [mrank, trank, hpc]; omega
  · -- dSigStore v
    rename_i v
    simp at hs; obtain ⟨rfl, _⟩ := hs
    have h0 : wsum s = 0 := wsum_quiet (by simpa [WOK] using hw)
    have h1 := wsum_le { s with mpc := .dNotify, signal := v }
    have hn := hg.2.1
    show mrank _ + trank _ + wsum { s with mpc := .dNotify, signal := v } < mrank s + trank s + wsum s
    simp only [mrank, trank, hpc, hn] at h1 ⊢; omega
  · -- dNotify
    simp at hs; obtain ⟨rfl, _⟩ := hs
    have hc : wsum (wakeAll s) = wsum s := by
      apply wsum_congr (s := s) (s' := wakeAll s) rfl
      intro i _ _
      exact wrank_wake _ _
    show mrank _ + trank _ + wsum (wakeAll s) < mrank s + trank s + wsum s
    rw [hc]
    simp only [mrank, trank, hpc, wakeAll]; omega
  · -- dFetch
    have hnt : s.ntask = s.reqN := hg.2.2.1
    split at hs
    all_goals (rename_i hlt; simp at hs; obtain ⟨rfl, _⟩ := hs)
    · show mrank _ + trank _ + wsum s < mrank s + trank s + wsum s
      simp only [mrank, trank, hpc]; omega
    · show mrank _ + trank _ + wsum s < mrank s + trank s + wsum s
      simp only [mrank, trank, hpc]; omega
  · -- dExec
    simp at hs; obtain ⟨rfl, _⟩ := hs
    show mrank _ + trank _ + wsum s < mrank s + trank s + wsum s
    simp only [mrank, trank, hpc]; omega
  · -- dSpin
    split at hs
    · rename_i hlt; exact absurd ⟨hpc, hlt⟩ hns
    · simp at hs; obtain ⟨rfl, _⟩ := hs
      show mrank _ + trank _ + wsum s < mrank s + trank s + wsum s
      simp only [mrank, trank, hpc]; omega
  · -- serial
    split at hs
    all_goals (rename_i hlt; simp at hs; obtain ⟨rfl, _⟩ := hs)
    · show mrank _ + trank _ + wsum s < mrank s + trank s + wsum s
      simp only [mrank, trank, hpc]; omega
    · show mrank _ + trank _ + wsum s < mrank s + trank s + wsum s
      simp only [mrank, trank, hpc]; omega
  · -- delStore
    rename_i k
    simp at hs; obtain ⟨rfl, _⟩ := hs
    have h0 : wsum s = 0 := wsum_quiet (by simpa [WOK] using hw)
    have h1 := wsum_le { s with mpc := .delNotify k, signal := 0 }
    show mrank _ + trank _ + wsum { s with mpc := .delNotify k, signal := 0 } < mrank s + trank s + wsum s
    simp only [mrank, trank, hpc] at h1 ⊢; omega
  · -- delNotify
    simp at hs; obtain ⟨rfl, _⟩ := hs
    have hc : wsum (wakeAll s) = wsum s := by
      apply wsum_congr (s := s) (s' := wakeAll s) rfl
      intro i _ _
      exact wrank_wake _ _
    have := hg.2.1
    show mrank _ + trank _ + wsum (wakeAll s) < mrank s + trank s + wsum s
    rw [hc]
    simp only [mrank, trank, hpc, wakeAll]; omega
  · -- delJoin
    rename_i j k
    split at hs
    · rename_i hh
      have hj : 1 ≤ j ∧ j ≤ s.N := ⟨hg.2.1, hg.2.2.1⟩
      have hsum := wsum_setW (s := s) (x := ⟨.unborn, (s.w j).status⟩) hj
      have hx : wrank s.signal ⟨.unborn, (s.w j).status⟩ = 0 := by simp [wrank]
      have hy : wrank s.signal (s.w j) = 0 := by simp [wrank, hh]
      rw [hx, hy] at hsum
      split at hs
      · simp at hs; obtain ⟨rfl, _⟩ := hs
        show mrank _ + trank _ + wsum (setW s j ⟨.unborn, (s.w j).status⟩) < mrank s + trank s + wsum s
        have hN : (setW s j ⟨.unborn, (s.w j).status⟩).N = s.N := rfl
        simp only [mrank, trank, hpc, hN]; omega
      · split at hs
        all_goals (simp at hs; obtain ⟨rfl, _⟩ := hs)
        · -- a new pool is created: every worker slot is unborn
          have hz : wsum _ = 0 := wsum_zero (s := _) (fun i h1 h2 => by
            have := h'.workers i h1 h2
            simp only [phase, WOK] at this
            have hi : ¬ i < 1 := by omega
            simp only [hi, if_false] at this
            simp [wrank, this])
          show mrank _ + trank _ + wsum _ < mrank s + trank s + wsum s
          rw [hz]
          simp only [mrank, trank, hpc, setW]; omega
        · show mrank _ + trank _ + sumTo _ 0 < mrank s + trank s + wsum s
          simp only [mrank, trank, hpc, sumTo]; omega
    · simp at hs

/-- spin steps (failed poll, blocking `wait` check, spurious wake-up) leave the rank unchanged -/
theorem rank_spin {s s' : State} {a : Act} {evs : List Ev} (h : Inv s)
    (hs : step s a = some (s', evs)) (hsp : isSpin s a) : rank s' = rank s := by
  cases a with
  | call c => simp [isSpin] at hsp
  | main =>
    simp only [isSpin] at hsp
    simp only [step, stepMain, hsp.1, hsp.2, if_true] at hs
    simp at hs; obtain ⟨rfl, _⟩ := hs; rfl
  | worker i =>
    simp only [isSpin] at hsp
    have hi : 1 ≤ i ∧ i ≤ s.N := by
      by_cases hc : 1 ≤ i ∧ i ≤ s.N
      · exact hc
      · have := h.outside i (by omega)
        simp [this] at hsp
    simp only [step, stepWorker, hsp.1] at hs
    simp [hsp.2] at hs
    obtain ⟨rfl, _⟩ := hs
    have hsum := wsum_setW (s := s) (x := ⟨.sleep, (s.w i).status⟩) hi
    have hx : wrank s.signal ⟨.sleep, (s.w i).status⟩ = wrank s.signal (s.w i) := by
      simp [wrank, hsp.1]
    show mrank s + trank s + wsum (setW s i _) = mrank s + trank s + wsum s
    omega
  | spurious i =>
    simp only [step, stepSpurious] at hs
    split at hs
    · rename_i hpc
      have hi : 1 ≤ i ∧ i ≤ s.N := by
        by_cases hc : 1 ≤ i ∧ i ≤ s.N
        · exact hc
        · have := h.outside i (by omega)
          simp [this] at hpc
      simp at hs; obtain ⟨rfl, _⟩ := hs
      have hsum := wsum_setW (s := s) (x := ⟨.wait, (s.w i).status⟩) hi
      have hx : wrank s.signal ⟨.wait, (s.w i).status⟩ = wrank s.signal (s.w i) := by
        simp [wrank, hpc]
      show mrank s + trank s + wsum (setW s i _) = mrank s + trank s + wsum s
      omega
    · simp at hs

/-- every non-spin step of a thread strictly decreases the rank -/
theorem rank_decreases {s s' : State} {a : Act} {evs : List Ev} (h : Inv s)
    (hs : step s a = some (s', evs)) (hc : ∀ c, a ≠ .call c) (hns : ¬ isSpin s a) : rank s' < rank s := by
  cases a with
  | call c => exact absurd rfl (hc c)
  | main => exact rank_main h hs hns
  | worker i => exact rank_worker h hs hns
  | spurious i => simp [isSpin] at hns

/-- rank right after `mju_dispatch(…, n)` was entered: linear in `n` and the pool size -/
theorem rank_call_dispatch {s s' : State} {n : Nat} {evs : List Ev} (h : Inv s)
    (hs : step s (.call (.dispatch n)) = some (s', evs)) : rank s' ≤ 3 * n + 5 * s.N + 7 := by
  obtain ⟨ho, hw, hg⟩ := h
  simp only [step] at hs
  split at hs
  · rename_i hidle
    simp only [phase, hidle] at hw
    simp only [stepCall] at hs
    have hq : s.alive = true → wsum s = 0 := by
      intro ha
      simp only [ha, if_true] at hw
      exact wsum_quiet (by simpa [WOK] using hw)
    have hle := wsum_le s
    repeat' split at hs
    all_goals (simp at hs; obtain ⟨rfl, _⟩ := hs)
    all_goals show mrank _ + trank _ + wsum s ≤ _
    all_goals simp only [mrank, trank, hidle]
    all_goals first | omega | (have := hq (by grind); omega)
  · simp at hs

/-- rank right after `mju_threadpool(d, k)` was entered: linear in the old and new pool sizes -/
theorem rank_call_threadpool {s s' : State} {k : Nat} {evs : List Ev} (h : Inv s)
    (hs : step s (.call (.threadpool k)) = some (s', evs)) : rank s' ≤ 6 * s.N + 2 * k + 3 := by
  have h' := inv_step h hs
  obtain ⟨ho, hw, hg⟩ := h
  simp only [step] at hs
  split at hs
  · rename_i hidle
    simp only [phase, hidle] at hw
    simp only [Glob, hidle] at hg
    simp only [stepCall, beginCreate] at hs
    split at hs
    · rename_i ha
      have hq : wsum s = 0 := by
        simp only [ha, if_true] at hw
        exact wsum_quiet (by simpa [WOK] using hw)
      split at hs
      all_goals (simp at hs; obtain ⟨rfl, _⟩ := hs)
      · show mrank s + trank s + wsum s ≤ _
        simp only [mrank, trank, hidle]; omega
      · show mrank _ + trank _ + wsum s ≤ _
        simp only [mrank, trank]; omega
    · split at hs
      all_goals (simp at hs; obtain ⟨rfl, _⟩ := hs)
      · have hz : wsum _ = 0 := wsum_zero (s := _) (fun i h1 h2 => by
          have := h'.workers i h1 h2
          simp only [phase, WOK] at this
          have hi : ¬ i < 1 := by omega
          simp only [hi, if_false] at this
          simp [wrank, this])
        show mrank _ + trank _ + wsum _ ≤ _
        rw [hz]
        simp only [mrank, trank]; omega
      · show mrank _ + trank _ + sumTo _ 0 ≤ _
        simp only [mrank, trank, sumTo]; omega
  · simp at hs


/-- a worker that is neither blocked nor finished has an enabled non-spin step -/
theorem worker_can_move {s : State} {i : Nat}
    (h : (s.w i).pc = .load ∨ (s.w i).pc = .fetch ∨ (∃ t, (s.w i).pc = .exec t) ∨ (s.w i).pc = .fin ∨
      ((s.w i).pc = .wait ∧ s.signal ≠ (s.w i).status)) :
    ∃ s' evs, step s (.worker i) = some (s', evs) ∧ ¬ isSpin s (.worker i) := by
  simp only [step, stepWorker, isSpin]
  rcases h with h | h | ⟨t, h⟩ | h | ⟨h, hne⟩
  · rw [h]; by_cases h0 : s.signal = 0 <;> simp [h0]
  · rw [h]; by_cases h0 : s.next < s.ntask <;> simp [h0]
  · rw [h]; simp
  · rw [h]; simp
  · rw [h]; simp [hne]

/-- while the dispatching thread is inside an API call, some thread has an enabled non-spin step -/
theorem enabled_nonspin {s : State} (h : Inv s) (hm : s.mpc ≠ .idle) :
    ∃ a s' evs, (a = .main ∨ ∃ i, a = .worker i) ∧ step s a = some (s', evs) ∧ ¬ isSpin s a := by
  obtain ⟨ho, hw, hg⟩ := h
  have mainOK : (stepMain s).isSome = true → ¬ (s.mpc = .dSpin ∧ s.ndone < s.N) →
      ∃ a s' evs, (a = .main ∨ ∃ i, a = .worker i) ∧ step s a = some (s', evs) ∧ ¬ isSpin s a := by
    intro h1 h2
    obtain ⟨⟨s', evs⟩, h3⟩ := Option.isSome_iff_exists.mp h1
    exact ⟨.main, s', evs, Or.inl rfl, h3, h2⟩
  cases hpc : s.mpc <;> simp only [Glob, phase, hpc] at hg hw
  case idle => exact absurd hpc hm
  case dSpin =>
    by_cases hd : s.ndone < s.N
    · -- some worker has not finished the batch
      obtain ⟨b1, b2, b3, b4, b5⟩ := hg.1
      obtain ⟨i, h1, h2, h3⟩ := exists_zero_of_sumTo_lt (f := fun i => if post s i then 1 else 0)
        (by intro i; show (if post s i then 1 else 0) ≤ 1; split <;> simp) (N := s.N)
        (by unfold postCount at b4; omega)
      have hnp : ¬ post s i := by
        intro hp; simp [hp] at h3
      have hwi := hw i h1 h2
      obtain ⟨s', evs, e1, e2⟩ := worker_can_move (s := s) (i := i) (by
        simp only [post] at hnp
        simp only [WOK] at hwi
        have := b2.2
        cases hx : (s.w i).pc <;> simp only [hx] at hwi hnp <;> grind)
      exact ⟨.worker i, s', evs, Or.inr ⟨i, rfl⟩, e1, e2⟩
    · exact mainOK (by simp [stepMain, hpc, hd]) (by simp [hd])
  case delJoin j k =>
    by_cases hh : (s.w j).pc = .halted
    · by_cases hj : j < s.N
      · exact mainOK (by simp [stepMain, hpc, hh, hj]) (by simp [hpc])
      · exact mainOK (by simp [stepMain, hpc, hh, hj]) (by simp [hpc])
    · have hwj := hw j hg.2.1 hg.2.2.1
      obtain ⟨s', evs, e1, e2⟩ := worker_can_move (s := s) (i := j) (by
        simp only [WOK, Nat.lt_irrefl, if_false] at hwj
        have := hg.2.2.2
        cases hx : (s.w j).pc <;> simp only [hx] at hwj hh <;> grind)
      exact ⟨.worker j, s', evs, Or.inr ⟨j, rfl⟩, e1, e2⟩
  all_goals (refine mainOK ?_ (by simp [hpc]); simp only [stepMain, hpc]; (try split) <;> rfl)

/-! ### executions -/

/-- `Run s k s'`: an execution from `s` to `s'` in which no new API call is entered and which contains
    exactly `k` non-spin steps (and any number of spin steps) -/
inductive Run : State → Nat → State → Prop where
  | nil (s : State) : Run s 0 s
  | spin {s s1 s' : State} {a : Act} {evs : List Ev} {k : Nat} :
      step s a = some (s1, evs) → (∀ c, a ≠ .call c) → isSpin s a → Run s1 k s' → Run s k s'
  | move {s s1 s' : State} {a : Act} {evs : List Ev} {k : Nat} :
      step s a = some (s1, evs) → (∀ c, a ≠ .call c) → ¬ isSpin s a → Run s1 k s' → Run s (k + 1) s'

theorem run_rank {s s' : State} {k : Nat} (h : Inv s) (hr : Run s k s') : k + rank s' ≤ rank s := by
  induction hr with
  | nil s => omega
  | spin hs hc hsp _ ih =>
    have := rank_spin h hs hsp
    have := ih (inv_step h hs)
    omega
  | move hs hc hns _ ih =>
    have := rank_decreases h hs hc hns
    have := ih (inv_step h hs)
    omega

theorem run_reachable {s s' : State} {k : Nat} (h : Reachable s) (hr : Run s k s') : Reachable s' := by
  induction hr with
  | nil s => exact h
  | spin hs _ _ _ ih => exact ih (.step h hs)
  | move hs _ _ _ ih => exact ih (.step h hs)

/-- from every state satisfying the invariant the current API call can be completed, with at most
    `rank s` non-spin steps -/
theorem can_finish_of_inv : ∀ (r : Nat) (s : State), Inv s → rank s ≤ r →
    ∃ k s', Run s k s' ∧ s'.mpc = .idle ∧ k ≤ rank s := by
  intro r
  induction r with
  | zero =>
    intro s h hr
    by_cases hm : s.mpc = .idle
    · exact ⟨0, s, .nil s, hm, by omega⟩
    · obtain ⟨a, s1, evs, ha, hs, hns⟩ := enabled_nonspin h hm
      have hc : ∀ c, a ≠ .call c := by
        intro c hc; rcases ha with ha | ⟨i, ha⟩ <;> simp [ha] at hc
      have := rank_decreases h hs hc hns
      omega
  | succ r ih =>
    intro s h hr
    by_cases hm : s.mpc = .idle
    · exact ⟨0, s, .nil s, hm, by omega⟩
    · obtain ⟨a, s1, evs, ha, hs, hns⟩ := enabled_nonspin h hm
      have hc : ∀ c, a ≠ .call c := by
        intro c hc; rcases ha with ha | ⟨i, ha⟩ <;> simp [ha] at hc
      have hlt := rank_decreases h hs hc hns
      obtain ⟨k, s', hrun, hidle, hk⟩ := ih s1 (inv_step h hs) (by omega)
      exact ⟨k + 1, s', .move hs hc hns hrun, hidle, by omega⟩

/-- run a list of actions (used for the concrete examples) -/
def runActs : State → List Act → Option State
  | s, [] => some s
  | s, a :: r => match step s a with
    | some (s', _) => runActs s' r
    | none => none

theorem reachable_runActs {s s' : State} {l : List Act} (h : Reachable s) (hr : runActs s l = some s') :
    Reachable s' := by
  induction l generalizing s with
  | nil => simp [runActs] at hr; exact hr ▸ h
  | cons a r ih =>
    simp only [runActs] at hr
    split at hr
    · rename_i s1 evs hs; exact ih (.step h hs) hr
    · simp at hr

theorem reachable_runActs_getD (l : List Act) : Reachable ((runActs init l).getD init) := by
  cases h : runActs init l with
  | none => exact .init
  | some s => exact reachable_runActs .init h

theorem step_eq_getD {s : State} {a : Act} (d : State × List Ev) (h : (step s a).isSome = true) :
    step s a = some (((step s a).getD d).1, ((step s a).getD d).2) := by
  cases hx : step s a with
  | none => simp [hx] at h
  | some x => rfl

end MjProof.ThreadPool
