import MjProof.Lemmas.Support
/-
C15 helper lemmas, part 2: every support function of the model, written in the geom frame
(`support g d = mat · localSupp (matᵀ d) + pos`), returns a point of the shape that maximises `⟨matᵀ d, ·⟩` over
the shape — shape by shape (sphere, capsule: sphere + segment decomposition, ellipsoid: Cauchy–Schwarz in the
scaled metric, cylinder: disc + segment decomposition, box: sign pattern, and the shrunken point / line supports).
-/
set_option linter.unusedVariables false
set_option linter.unusedSimpArgs false
namespace MjProof.SupportLemmas
open MjProof MjProof.Support

/-! ### `c >= 0 ? a : -a` -/
theorem signed_real (c a : ℝ) : signed c a = if 0 ≤ c then a else -a := by
  unfold signed; real_ops

theorem mul_signed (c a : ℝ) : c * signed c a = |c| * a := by
  rw [signed_real]
  split
  · rename_i h; rw [abs_of_nonneg h]
  · rename_i h; rw [abs_of_neg (not_le.1 h)]; ring

theorem signed_bounds (c a : ℝ) (ha : 0 ≤ a) : -a ≤ signed c a ∧ signed c a ≤ a := by
  rw [signed_real]; split <;> constructor <;> linarith

theorem signed_sq (c a : ℝ) : signed c a * signed c a = a * a := by
  rw [signed_real]; split <;> ring

theorem mul_le_abs_mul (c z a : ℝ) (h1 : -a ≤ z) (h2 : z ≤ a) : c * z ≤ |c| * a := by
  rcases le_or_gt 0 c with hc | hc
  · rw [abs_of_nonneg hc]; exact mul_le_mul_of_nonneg_left h2 hc
  · rw [abs_of_neg hc]; nlinarith

/-! ### the local support point -/
/-- the support point in the geom frame, as a function of the local direction `ld = matᵀ d` -/
noncomputable def localSupp (k : Kind) (size ld : V3 ℝ) : V3 ℝ :=
  match k with
  | .sphere => V3.scale size.x ld
  | .capsule => capsuleLocal size ld
  | .ellipsoid => if ellipsoidNorm2 size ld < minval * minval then ⟨size.x, 0, 0⟩ else ellipsoidLocal size ld
  | .cylinder => cylinderLocal size ld
  | .box => boxLocal size ld
  | .point => ⟨0, 0, 0⟩
  | .line => ⟨0, 0, signed ld.z size.y⟩

/-- `mat · (matᵀ d) = d` (rows orthonormal) -/
theorem l2g_mulT_scale {m : M3 ℝ} (h : IsRot m) (r : ℝ) (d p : V3 ℝ) :
    localToGlobal m (V3.scale r (mulMatTVec3 m d)) p = ⟨r * d.x + p.x, r * d.y + p.y, r * d.z + p.z⟩ := by
  apply V3.ext'
  · simp only [l2g_x, scale_x, scale_y, scale_z, mulT_x, mulT_y, mulT_z]
    linear_combination (r * d.x) * h.r00 + (r * d.y) * h.r01 + (r * d.z) * h.r02
  · simp only [l2g_y, scale_x, scale_y, scale_z, mulT_x, mulT_y, mulT_z]
    linear_combination (r * d.x) * h.r01 + (r * d.y) * h.r11 + (r * d.z) * h.r12
  · simp only [l2g_z, scale_x, scale_y, scale_z, mulT_x, mulT_y, mulT_z]
    linear_combination (r * d.x) * h.r02 + (r * d.y) * h.r12 + (r * d.z) * h.r22

/-- every support function of the model is `mat · localSupp(matᵀ d) + pos` -/
theorem support_eq (g : Geom ℝ) (h : IsRot g.mat) (d : V3 ℝ) :
    support g d = localToGlobal g.mat (localSupp g.kind g.size (mulMatTVec3 g.mat d)) g.pos := by
  unfold support localSupp
  cases hk : g.kind <;> simp only []
  · -- sphere
    rw [l2g_mulT_scale h]; rfl
  · rfl
  · -- ellipsoid
    unfold ellipsoidSupport
    simp only [r_lt, minval2_real]
    split
    · apply V3.ext' <;> simp only [l2g_x, l2g_y, l2g_z, r_mul, r_add] <;> ring
    · rfl
  · rfl
  · rfl
  · -- point
    apply V3.ext' <;> simp only [l2g_x, l2g_y, l2g_z] <;> ring
  · -- line
    unfold lineSupport
    apply V3.ext' <;> simp only [l2g_x, l2g_y, l2g_z, r_mul, r_add, mulT_z] <;> ring

/-! ### sphere -/
theorem sphere_mem (size ld : V3 ℝ) (hs : SizeOK .sphere size) (hld : V3.dot ld ld = 1) :
    memLocal .sphere size (localSupp .sphere size ld) = true := by
  simp only [memLocal, localSupp]; real_ops
  rw [dot_real] at hld ⊢
  simp only [scale_x, scale_y, scale_z]
  nlinarith

theorem sphere_max (size ld p : V3 ℝ) (hs : SizeOK .sphere size) (hld : V3.dot ld ld = 1)
    (hp : memLocal .sphere size p = true) : V3.dot ld p ≤ V3.dot ld (localSupp .sphere size ld) := by
  simp only [memLocal] at hp; real_ops_at hp
  have h := dot_le_norm_mul_of_sq ld p size.x hs hp
  rw [norm_of_unit hld] at h
  simp only [localSupp]; rw [dot_scale_right, hld]; linarith

/-! ### box -/
theorem box_mem (size ld : V3 ℝ) (hs : SizeOK .box size) :
    memLocal .box size (localSupp .box size ld) = true := by
  obtain ⟨h0, h1, h2⟩ := hs
  simp only [memLocal, localSupp, boxLocal]; real_ops
  have a := signed_bounds ld.x size.x h0
  have b := signed_bounds ld.y size.y h1
  have c := signed_bounds ld.z size.z h2
  exact ⟨⟨⟨⟨⟨a.1, a.2⟩, b.1⟩, b.2⟩, c.1⟩, c.2⟩

theorem box_max (size ld p : V3 ℝ) (hp : memLocal .box size p = true) :
    V3.dot ld p ≤ V3.dot ld (localSupp .box size ld) := by
  simp only [memLocal] at hp; real_ops_at hp
  obtain ⟨⟨⟨⟨⟨a1, a2⟩, b1⟩, b2⟩, c1⟩, c2⟩ := hp
  simp only [localSupp, boxLocal, dot_real]
  rw [mul_signed, mul_signed, mul_signed]
  have := mul_le_abs_mul ld.x p.x size.x a1 a2
  have := mul_le_abs_mul ld.y p.y size.y b1 b2
  have := mul_le_abs_mul ld.z p.z size.z c1 c2
  linarith

/-! ### point and line -/
theorem sq_zero_of_sum_le {a b : ℝ} (h : a * a + b * b ≤ 0) : a = 0 ∧ b = 0 := by
  constructor <;> nlinarith [mul_self_nonneg a, mul_self_nonneg b]

theorem point_mem (size ld : V3 ℝ) : memLocal .point size (localSupp .point size ld) = true := by
  simp only [memLocal, localSupp]; real_ops; simp [dot_real]

theorem point_max (size ld p : V3 ℝ) (hp : memLocal .point size p = true) :
    V3.dot ld p ≤ V3.dot ld (localSupp .point size ld) := by
  simp only [memLocal] at hp; real_ops_at hp
  rw [dot_real] at hp
  have hx : p.x = 0 := by nlinarith [mul_self_nonneg p.x, mul_self_nonneg p.y, mul_self_nonneg p.z]
  have hy : p.y = 0 := by nlinarith [mul_self_nonneg p.x, mul_self_nonneg p.y, mul_self_nonneg p.z]
  have hz : p.z = 0 := by nlinarith [mul_self_nonneg p.x, mul_self_nonneg p.y, mul_self_nonneg p.z]
  simp [localSupp, dot_real, hx, hy, hz]

theorem line_mem (size ld : V3 ℝ) (hs : SizeOK .line size) :
    memLocal .line size (localSupp .line size ld) = true := by
  simp only [memLocal, localSupp]; real_ops
  have c := signed_bounds ld.z size.y hs
  exact ⟨⟨by simp, c.1⟩, c.2⟩

theorem line_max (size ld p : V3 ℝ) (hp : memLocal .line size p = true) :
    V3.dot ld p ≤ V3.dot ld (localSupp .line size ld) := by
  simp only [memLocal] at hp; real_ops_at hp
  obtain ⟨⟨h0, c1⟩, c2⟩ := hp
  obtain ⟨hx, hy⟩ := sq_zero_of_sum_le h0
  simp only [localSupp, dot_real, hx, hy]
  rw [mul_signed]
  have := mul_le_abs_mul ld.z p.z size.y c1 c2
  linarith

/-! ### capsule -/
theorem clampSym_real (z l : ℝ) : clampSym z l = if l < z then l else if z < -l then -l else z := by
  unfold clampSym; real_ops

theorem clampSym_bounds (z l : ℝ) (hl : 0 ≤ l) : -l ≤ clampSym z l ∧ clampSym z l ≤ l := by
  rw [clampSym_real]; split
  · constructor <;> linarith
  · split
    · constructor <;> linarith
    · constructor <;> linarith

theorem capsule_mem (size ld : V3 ℝ) (hs : SizeOK .capsule size) (hld : V3.dot ld ld = 1) :
    memLocal .capsule size (localSupp .capsule size ld) = true := by
  obtain ⟨hr, hl⟩ := hs
  simp only [memLocal, localSupp, capsuleLocal]; real_ops
  rw [dot_real] at hld
  -- the axial residual of the support point is `ld.z * r`
  have key : ld.z * size.x + signed ld.z size.y - clampSym (ld.z * size.x + signed ld.z size.y) size.y
      = ld.z * size.x := by
    rw [signed_real, clampSym_real]
    by_cases hz : 0 ≤ ld.z
    · simp only [hz, if_true]
      have : 0 ≤ ld.z * size.x := mul_nonneg hz hr
      by_cases h1 : size.y < ld.z * size.x + size.y
      · simp only [h1, if_true]; ring
      · simp only [h1, if_false]
        have h0 : ld.z * size.x = 0 := by linarith
        have : ¬ (ld.z * size.x + size.y < -size.y) := by linarith
        simp only [this, if_false]; linarith
    · simp only [hz, if_false]
      have hz' : ld.z < 0 := not_le.1 hz
      have : ld.z * size.x ≤ 0 := by nlinarith
      have h1 : ¬ (size.y < ld.z * size.x + -size.y) := by linarith
      simp only [h1, if_false]
      by_cases h2 : ld.z * size.x + -size.y < -size.y
      · simp only [h2, if_true]; ring
      · simp only [h2, if_false]; linarith
  rw [key]
  nlinarith

theorem capsule_max (size ld p : V3 ℝ) (hs : SizeOK .capsule size) (hld : V3.dot ld ld = 1)
    (hp : memLocal .capsule size p = true) : V3.dot ld p ≤ V3.dot ld (localSupp .capsule size ld) := by
  obtain ⟨hr, hl⟩ := hs
  simp only [memLocal] at hp; real_ops_at hp
  -- sphere part: the point minus its clamped axial component
  have hq : V3.dot (⟨p.x, p.y, p.z - clampSym p.z size.y⟩ : V3 ℝ) ⟨p.x, p.y, p.z - clampSym p.z size.y⟩
      ≤ size.x * size.x := by rw [dot_real]; exact hp
  have h1 := dot_le_norm_mul_of_sq ld ⟨p.x, p.y, p.z - clampSym p.z size.y⟩ size.x hr hq
  rw [norm_of_unit hld] at h1
  -- segment part
  have hc := clampSym_bounds p.z size.y hl
  have h2 := mul_le_abs_mul ld.z (clampSym p.z size.y) size.y hc.1 hc.2
  simp only [localSupp, capsuleLocal]
  simp only [dot_real] at hld h1 ⊢
  have e : ld.x * (ld.x * size.x) + ld.y * (ld.y * size.x) + ld.z * (ld.z * size.x + signed ld.z size.y)
      = size.x * (ld.x * ld.x + ld.y * ld.y + ld.z * ld.z) + ld.z * signed ld.z size.y := by ring
  rw [e, hld, mul_signed]
  nlinarith

/-! ### cylinder -/
theorem cs2 (a b c d : ℝ) : (a * c + b * d) ^ 2 ≤ (a * a + b * b) * (c * c + d * d) := by
  nlinarith [sq_nonneg (a * d - b * c)]

/-- `a c + b d ≤ √(a²+b²) r` when `c² + d² ≤ r²` -/
theorem dot2_le (a b c d r : ℝ) (hr : 0 ≤ r) (h : c * c + d * d ≤ r * r) :
    a * c + b * d ≤ Real.sqrt (a * a + b * b) * r := by
  have hn : 0 ≤ a * a + b * b := by nlinarith [mul_self_nonneg a, mul_self_nonneg b]
  have h1 : (a * c + b * d) ^ 2 ≤ (a * a + b * b) * (r * r) :=
    le_trans (cs2 a b c d) (mul_le_mul_of_nonneg_left h hn)
  have h2 : |a * c + b * d| ≤ Real.sqrt ((a * a + b * b) * (r * r)) := Real.abs_le_sqrt h1
  rw [Real.sqrt_mul hn, Real.sqrt_mul_self hr] at h2
  exact le_trans (le_abs_self _) h2

theorem cylinderLocal_real (size ld : V3 ℝ) :
    cylinderLocal size ld =
      (if minval * minval ≤ ld.x * ld.x + ld.y * ld.y
        then ⟨size.x / Real.sqrt (ld.x * ld.x + ld.y * ld.y) * ld.x,
              size.x / Real.sqrt (ld.x * ld.x + ld.y * ld.y) * ld.y, signed ld.z size.y⟩
        else ⟨0, 0, signed ld.z size.y⟩) := by
  unfold cylinderLocal
  simp only [r_mul, r_add, r_div, r_le, minval2_real, zero_real, real_sqrt]
  split <;> simp

theorem cylinder_mem (size ld : V3 ℝ) (hs : SizeOK .cylinder size) :
    memLocal .cylinder size (localSupp .cylinder size ld) = true := by
  obtain ⟨hr, hh⟩ := hs
  have c := signed_bounds ld.z size.y hh
  simp only [localSupp]; rw [cylinderLocal_real]
  split
  · rename_i hn
    simp only [memLocal]; real_ops
    refine ⟨⟨?_, c.1⟩, c.2⟩
    have hpos : 0 < ld.x * ld.x + ld.y * ld.y := lt_of_lt_of_le (mul_pos minval_pos minval_pos) hn
    have hsq := Real.mul_self_sqrt hpos.le
    have hsp : 0 < Real.sqrt (ld.x * ld.x + ld.y * ld.y) := Real.sqrt_pos.2 hpos
    set ρ := Real.sqrt (ld.x * ld.x + ld.y * ld.y) with hρ
    have e : size.x / ρ * ld.x * (size.x / ρ * ld.x) + size.x / ρ * ld.y * (size.x / ρ * ld.y)
        = size.x * size.x * ((ld.x * ld.x + ld.y * ld.y) / (ρ * ρ)) := by
      field_simp
    rw [e, hsq, div_self hpos.ne']; linarith
  · simp only [memLocal]; real_ops
    refine ⟨⟨?_, c.1⟩, c.2⟩
    nlinarith [mul_self_nonneg size.x]

/-- what the degenerate branch of `mjc_cylinderSupport` drops -/
noncomputable def cylSlackLocal (size ld : V3 ℝ) : ℝ :=
  if ld.x * ld.x + ld.y * ld.y < minval * minval then size.x * minval else 0

theorem cylinder_max (size ld p : V3 ℝ) (hs : SizeOK .cylinder size)
    (hp : memLocal .cylinder size p = true) :
    V3.dot ld p ≤ V3.dot ld (localSupp .cylinder size ld) + cylSlackLocal size ld := by
  obtain ⟨hr, hh⟩ := hs
  simp only [memLocal] at hp; real_ops_at hp
  obtain ⟨⟨hd, c1⟩, c2⟩ := hp
  have h2 := mul_le_abs_mul ld.z p.z size.y c1 c2
  have h1 := dot2_le ld.x ld.y p.x p.y size.x hr hd
  simp only [localSupp]; rw [cylinderLocal_real]
  unfold cylSlackLocal
  by_cases hn : minval * minval ≤ ld.x * ld.x + ld.y * ld.y
  · have hn' : ¬ (ld.x * ld.x + ld.y * ld.y < minval * minval) := not_lt.2 hn
    simp only [hn, hn', if_true, if_false, dot_real, add_zero]
    rw [mul_signed]
    have hpos : 0 < ld.x * ld.x + ld.y * ld.y := lt_of_lt_of_le (mul_pos minval_pos minval_pos) hn
    have hsq := Real.mul_self_sqrt hpos.le
    have hsp : 0 < Real.sqrt (ld.x * ld.x + ld.y * ld.y) := Real.sqrt_pos.2 hpos
    set ρ := Real.sqrt (ld.x * ld.x + ld.y * ld.y) with hρ
    have e : ld.x * (size.x / ρ * ld.x) + ld.y * (size.x / ρ * ld.y) = ρ * size.x := by
      have : ld.x * (size.x / ρ * ld.x) + ld.y * (size.x / ρ * ld.y)
          = size.x * ((ld.x * ld.x + ld.y * ld.y) / ρ) := by field_simp
      rw [this, ← hsq]; field_simp
    linarith
  · have hn' : ld.x * ld.x + ld.y * ld.y < minval * minval := not_le.1 hn
    simp only [hn, hn', if_true, if_false, dot_real]
    rw [mul_signed]
    have hnn : 0 ≤ ld.x * ld.x + ld.y * ld.y := by nlinarith [mul_self_nonneg ld.x, mul_self_nonneg ld.y]
    have hρ : Real.sqrt (ld.x * ld.x + ld.y * ld.y) ≤ minval := by
      apply (Real.sqrt_le_left minval_pos.le).2; rw [sq]; exact hn'.le
    have : Real.sqrt (ld.x * ld.x + ld.y * ld.y) * size.x ≤ size.x * minval := by
      rw [mul_comm]; exact mul_le_mul_of_nonneg_left hρ hr
    linarith

/-! ### ellipsoid -/
theorem ellipsoidNorm2_real (size ld : V3 ℝ) :
    ellipsoidNorm2 size ld = ld.x * size.x * (ld.x * size.x) + ld.y * size.y * (ld.y * size.y)
      + ld.z * size.z * (ld.z * size.z) := rfl

theorem ellipsoidLocal_real (size ld : V3 ℝ) :
    ellipsoidLocal size ld =
      ⟨ld.x * size.x * (1 / Real.sqrt (ellipsoidNorm2 size ld) * size.x),
       ld.y * size.y * (1 / Real.sqrt (ellipsoidNorm2 size ld) * size.y),
       ld.z * size.z * (1 / Real.sqrt (ellipsoidNorm2 size ld) * size.z)⟩ := by
  unfold ellipsoidLocal ellipsoidScaled
  simp only [r_mul, r_div, one_real, real_sqrt]

/-- for a unit direction and semi-axes `≥ mjMINVAL` the "too small to normalize" branch is not taken -/
theorem ellipsoid_nondegenerate (size ld : V3 ℝ) (hs : SizeOK .ellipsoid size) (hld : V3.dot ld ld = 1) :
    ¬ (ellipsoidNorm2 size ld < minval * minval) := by
  obtain ⟨h0, h1, h2⟩ := hs
  rw [dot_real] at hld
  rw [ellipsoidNorm2_real, not_lt]
  have mp := minval_pos
  have a : minval * minval ≤ size.x * size.x := by nlinarith
  have b : minval * minval ≤ size.y * size.y := by nlinarith
  have c : minval * minval ≤ size.z * size.z := by nlinarith
  nlinarith [mul_self_nonneg ld.x, mul_self_nonneg ld.y, mul_self_nonneg ld.z,
    mul_le_mul_of_nonneg_left a (mul_self_nonneg ld.x), mul_le_mul_of_nonneg_left b (mul_self_nonneg ld.y),
    mul_le_mul_of_nonneg_left c (mul_self_nonneg ld.z)]

theorem ellipsoid_mem (size ld : V3 ℝ) (hs : SizeOK .ellipsoid size) :
    memLocal .ellipsoid size (localSupp .ellipsoid size ld) = true := by
  obtain ⟨h0, h1, h2⟩ := hs
  have mp := minval_pos
  have ha : size.x ≠ 0 := by linarith
  have hb : size.y ≠ 0 := by linarith
  have hc : size.z ≠ 0 := by linarith
  simp only [localSupp]
  split
  · simp only [memLocal]; real_ops
    simp only [dot_real, div_self ha]; simp
  · rename_i hn
    have hn' : minval * minval ≤ ellipsoidNorm2 size ld := not_lt.1 hn
    have hpos : 0 < ellipsoidNorm2 size ld := lt_of_lt_of_le (mul_pos mp mp) hn'
    have hsq := Real.mul_self_sqrt hpos.le
    have hsp : 0 < Real.sqrt (ellipsoidNorm2 size ld) := Real.sqrt_pos.2 hpos
    rw [ellipsoidLocal_real]
    simp only [memLocal]; real_ops
    set N := Real.sqrt (ellipsoidNorm2 size ld) with hN
    have hN0 : N ≠ 0 := hsp.ne'
    have e : V3.dot (⟨ld.x * size.x * (1 / N * size.x) / size.x, ld.y * size.y * (1 / N * size.y) / size.y,
        ld.z * size.z * (1 / N * size.z) / size.z⟩ : V3 ℝ)
        ⟨ld.x * size.x * (1 / N * size.x) / size.x, ld.y * size.y * (1 / N * size.y) / size.y,
          ld.z * size.z * (1 / N * size.z) / size.z⟩
        = (ld.x * size.x * (ld.x * size.x) + ld.y * size.y * (ld.y * size.y) + ld.z * size.z * (ld.z * size.z))
          / (N * N) := by
      rw [dot_real]; field_simp
    rw [e, hsq, ellipsoidNorm2_real, div_self]
    rw [← ellipsoidNorm2_real]; exact hpos.ne'

theorem ellipsoid_max (size ld p : V3 ℝ) (hs : SizeOK .ellipsoid size)
    (hn : ¬ (ellipsoidNorm2 size ld < minval * minval))
    (hp : memLocal .ellipsoid size p = true) : V3.dot ld p ≤ V3.dot ld (localSupp .ellipsoid size ld) := by
  obtain ⟨h0, h1, h2⟩ := hs
  have mp := minval_pos
  have ha : size.x ≠ 0 := by linarith
  have hb : size.y ≠ 0 := by linarith
  have hc : size.z ≠ 0 := by linarith
  simp only [memLocal] at hp; real_ops_at hp
  have hn' : minval * minval ≤ ellipsoidNorm2 size ld := not_lt.1 hn
  have hpos : 0 < ellipsoidNorm2 size ld := lt_of_lt_of_le (mul_pos mp mp) hn'
  have hsq := Real.mul_self_sqrt hpos.le
  have hsp : 0 < Real.sqrt (ellipsoidNorm2 size ld) := Real.sqrt_pos.2 hpos
  -- Cauchy–Schwarz between the scaled direction and the point in the scaled metric
  have h1' := dot_le_norm_mul_of_sq (ellipsoidScaled size ld) ⟨p.x / size.x, p.y / size.y, p.z / size.z⟩ 1
    zero_le_one (by simpa using hp)
  have en : V3.norm (ellipsoidScaled size ld) = Real.sqrt (ellipsoidNorm2 size ld) := rfl
  have ed : V3.dot (ellipsoidScaled size ld) ⟨p.x / size.x, p.y / size.y, p.z / size.z⟩ = V3.dot ld p := by
    simp only [dot_real, ellipsoidScaled, r_mul]; field_simp
  rw [en, ed, mul_one] at h1'
  simp only [localSupp, hn, if_false]
  rw [ellipsoidLocal_real]
  set N := Real.sqrt (ellipsoidNorm2 size ld) with hN
  have hN0 : N ≠ 0 := hsp.ne'
  have e : V3.dot ld ⟨ld.x * size.x * (1 / N * size.x), ld.y * size.y * (1 / N * size.y),
      ld.z * size.z * (1 / N * size.z)⟩ = ellipsoidNorm2 size ld / N := by
    rw [dot_real, ellipsoidNorm2_real]; field_simp
  rw [e, ← hsq]; field_simp; exact h1'

/-! ### all shapes -/
/-- what `localSupp` can lose against the true maximum (cylinder, degenerate branch only) -/
noncomputable def slackLocal (k : Kind) (size ld : V3 ℝ) : ℝ :=
  match k with
  | .cylinder => cylSlackLocal size ld
  | _ => 0

theorem localSupp_mem (k : Kind) (size ld : V3 ℝ) (hs : SizeOK k size) (hld : V3.dot ld ld = 1) :
    memLocal k size (localSupp k size ld) = true := by
  cases k
  · exact sphere_mem size ld hs hld
  · exact capsule_mem size ld hs hld
  · exact ellipsoid_mem size ld hs
  · exact cylinder_mem size ld hs
  · exact box_mem size ld hs
  · exact point_mem size ld
  · exact line_mem size ld hs

theorem localSupp_max (k : Kind) (size ld p : V3 ℝ) (hs : SizeOK k size) (hld : V3.dot ld ld = 1)
    (hp : memLocal k size p = true) :
    V3.dot ld p ≤ V3.dot ld (localSupp k size ld) + slackLocal k size ld := by
  cases k
  · simpa [slackLocal] using sphere_max size ld p hs hld hp
  · simpa [slackLocal] using capsule_max size ld p hs hld hp
  · simpa [slackLocal] using ellipsoid_max size ld p hs (ellipsoid_nondegenerate size ld hs hld) hp
  · simpa [slackLocal] using cylinder_max size ld p hs hp
  · simpa [slackLocal] using box_max size ld p hp
  · simpa [slackLocal] using point_max size ld p hp
  · simpa [slackLocal] using line_max size ld p hp

theorem slackLocal_eq (g : Geom ℝ) (d : V3 ℝ) :
    slackLocal g.kind g.size (mulMatTVec3 g.mat d) = degSlack g d := by
  unfold slackLocal degSlack cylSlackLocal
  cases g.kind <;> rfl

end MjProof.SupportLemmas
