import MjProof.Lemmas.LinAlgChol
/-
C23: `mju_cholUpdate` over ℝ: the rank-one update preserves `L Lᵀ ± x xᵀ` step by step.
-/
namespace MjProof.LinAlg
open MjNum Finset

/-- generic in-place update of the sub-diagonal part of column `k` -/
theorem colUpdate_spec (n k : Nat) (hk : k < n) (m : Vector ℝ (n * n)) (f : Nat → ℝ → ℝ) (r c : Nat) :
    mget (forRange (k + 1) n (fun i _ hi m => set2 m i k hi hk (f i (at2 m i k hi hk))) m) r c =
      if c = k ∧ k < r ∧ r < n then f r (mget m r k) else mget m r c := by
  have key := forRange_inv (lo := k + 1) (hi := n) (by omega) (s := m)
    (body := fun i _ hi m => set2 m i k hi hk (f i (at2 m i k hi hk)))
    (fun i' mm => ∀ r c, mget mm r c = if c = k ∧ k < r ∧ r < i' then f r (mget m r k) else mget m r c)
    (by intro r c; rw [if_neg (by omega)])
    (by
      intro i h1 h2 mm Q r c
      have hik : mget mm i k = mget m i k := by rw [Q i k, if_neg (by omega)]
      rw [mget_set2, at2_eq_mget, hik, Q r c]
      by_cases hrc : r = i ∧ c = k
      · obtain ⟨rfl, rfl⟩ := hrc
        rw [if_pos ⟨rfl, rfl⟩, if_pos (by omega)]
      · rw [if_neg hrc]
        by_cases hc : c = k ∧ k < r ∧ r < i
        · rw [if_pos hc, if_pos (by omega)]
        · rw [if_neg hc, if_neg (by omega)])
  exact key r c

theorem cholUpdCol_spec (n k : Nat) (hk : k < n) (m : Vector ℝ (n * n)) (x : Vector ℝ n) (plus : Bool) (s cinv : ℝ)
    (r c : Nat) :
    mget (cholUpdCol n k hk m x plus s cinv) r c =
      if c = k ∧ k < r ∧ r < n then
        (if plus then mget m r k + s * vget x r else mget m r k - s * vget x r) * cinv
      else mget m r c := by
  unfold cholUpdCol
  have : (fun i (_ : k + 1 ≤ i) (hi : i < n) (m : Vector ℝ (n * n)) =>
        set2 m i k hi hk ((if plus then at2 m i k hi hk + s * x[i] else at2 m i k hi hk - s * x[i]) * cinv))
      = fun i _ hi m => set2 m i k hi hk
          ((fun i a => (if plus then a + s * vget x i else a - s * vget x i) * cinv) i (at2 m i k hi hk)) := by
    funext i _ hi m
    simp only [getElem_eq_vget]
  rw [this]
  exact colUpdate_spec n k hk m (fun i a => (if plus then a + s * vget x i else a - s * vget x i) * cinv) r c

theorem cholUpdX_spec (n k : Nat) (hk : k < n) (m : Vector ℝ (n * n)) (x : Vector ℝ n) (c s : ℝ) (i : Nat) :
    vget (cholUpdX n k hk m x c s) i =
      if k < i ∧ i < n then c * vget x i - s * mget m i k else vget x i := by
  have key := forRange_inv (lo := k + 1) (hi := n) (by omega) (s := x)
    (body := fun i _ hi (x : Vector ℝ n) => x.set i (c * x[i] - s * at2 m i k hi hk))
    (fun i' xx => ∀ i, vget xx i = if k < i ∧ i < i' then c * vget x i - s * mget m i k else vget x i)
    (by intro i; rw [if_neg (by omega)])
    (by
      intro j h1 h2 xx Q i
      have hj : vget xx j = vget x j := by rw [Q j, if_neg (by omega)]
      rw [vget_set, getElem_eq_vget, hj, at2_eq_mget, Q i]
      by_cases e : i = j
      · subst e; rw [if_pos rfl, if_pos (by omega)]
      · rw [if_neg e]
        by_cases h : k < i ∧ i < j
        · rw [if_pos h, if_pos (by omega)]
        · rw [if_neg h, if_neg (by omega)])
  exact key i


/-! ### algebra of one rank-one update step -/

/-- both indices below the pivot row: the rotated pair reproduces the old contribution -/
theorem upd_pair (σ L xk r a1 u1 a2 u2 : ℝ) (hσ : σ = 1 ∨ σ = -1) (hL : L ≠ 0) (hr : r ≠ 0)
    (hr2 : r * r = L * L + σ * (xk * xk)) :
    ((a1 + σ * (xk / L * u1)) * (1 / (r / L))) * ((a2 + σ * (xk / L * u2)) * (1 / (r / L)))
      + σ * ((r / L * u1 - xk / L * ((a1 + σ * (xk / L * u1)) * (1 / (r / L))))
           * (r / L * u2 - xk / L * ((a2 + σ * (xk / L * u2)) * (1 / (r / L)))))
      = a1 * a2 + σ * (u1 * u2) := by
  set c := r / L with hc
  set s := xk / L with hs
  have hc0 : c ≠ 0 := div_ne_zero hr hL
  have hc2 : c * c = 1 + σ * (s * s) := by
    rw [hc, hs]; field_simp; linarith
  set P1 := a1 + σ * (s * u1)
  set P2 := a2 + σ * (s * u2)
  have h1 : c * (P1 * (1 / c)) = P1 := by field_simp
  have h2 : c * (P2 * (1 / c)) = P2 := by field_simp
  have hx1 : c * (c * u1 - s * (P1 * (1 / c))) = (1 + σ * (s * s)) * u1 - s * P1 := by
    rw [show c * (c * u1 - s * (P1 * (1 / c))) = (c * c) * u1 - s * (c * (P1 * (1 / c))) by ring, hc2, h1]
  have hx2 : c * (c * u2 - s * (P2 * (1 / c))) = (1 + σ * (s * s)) * u2 - s * P2 := by
    rw [show c * (c * u2 - s * (P2 * (1 / c))) = (c * c) * u2 - s * (c * (P2 * (1 / c))) by ring, hc2, h2]
  have key : (c * c) * ((P1 * (1 / c)) * (P2 * (1 / c))
      + σ * ((c * u1 - s * (P1 * (1 / c))) * (c * u2 - s * (P2 * (1 / c)))))
      = (c * c) * (a1 * a2 + σ * (u1 * u2)) := by
    rw [show (c * c) * ((P1 * (1 / c)) * (P2 * (1 / c))
        + σ * ((c * u1 - s * (P1 * (1 / c))) * (c * u2 - s * (P2 * (1 / c)))))
        = (c * (P1 * (1 / c))) * (c * (P2 * (1 / c)))
          + σ * ((c * (c * u1 - s * (P1 * (1 / c)))) * (c * (c * u2 - s * (P2 * (1 / c))))) by ring,
      h1, h2, hx1, hx2, hc2]
    rcases hσ with rfl | rfl <;> simp only [P1, P2] <;> ring
  exact mul_left_cancel₀ (mul_ne_zero hc0 hc0) key

/-- one index at the pivot row -/
theorem upd_pivot (σ L xk r a u : ℝ) (hL : L ≠ 0) (hr : r ≠ 0) :
    ((a + σ * (xk / L * u)) * (1 / (r / L))) * r = a * L + σ * (u * xk) := by
  field_simp



theorem real_beq_zero' (x : ℝ) : (MjNum.beq x (lit 0) = true) = (x = 0) := by
  simp [MjNum.lit]

/-- the part of the update vector that is still to be absorbed at step `k` -/
noncomputable def xe {n : Nat} (x : Vector ℝ n) (k i : Nat) : ℝ := if k ≤ i then vget x i else 0

/-- sign of the update -/
noncomputable def sgn (plus : Bool) : ℝ := if plus then 1 else -1

theorem sgn_cases (plus : Bool) : sgn plus = 1 ∨ sgn plus = -1 := by cases plus <;> simp [sgn]

theorem minval_pos : (0 : ℝ) < (MjNum.ofSci 1 true 15 : ℝ) := by
  rw [real_ofSci]; norm_num

/-- pivot of step `k`: `Lkk² ± xk²` -/
noncomputable def updPivot {n : Nat} (m : Vector ℝ (n * n)) (x : Vector ℝ n) (plus : Bool) (k : Nat) : ℝ :=
  mget m k k * mget m k k + sgn plus * (vget x k * vget x k)

theorem updPivot_eq {n : Nat} (m : Vector ℝ (n * n)) (x : Vector ℝ n) (plus : Bool) (k : Nat) (hk : k < n) :
    at2 m k k hk hk * at2 m k k hk hk + (if plus then x[k] * x[k] else (-x[k]) * x[k]) = updPivot m x plus k := by
  unfold updPivot sgn
  rw [at2_eq_mget, getElem_eq_vget]
  cases plus <;> simp

theorem cholUpdStep_skip (n : Nat) (plus : Bool) (k : Nat) (hk : k < n) (st : Vector ℝ (n * n) × Vector ℝ n × Nat)
    (h : vget st.2.1 k = 0) : cholUpdStep n plus k hk st = st := by
  unfold cholUpdStep
  dsimp only
  rw [if_pos]
  rw [real_beq_zero', getElem_eq_vget]; exact h

theorem cholUpdStep_rank_le (n : Nat) (plus : Bool) (k : Nat) (hk : k < n) (st : Vector ℝ (n * n) × Vector ℝ n × Nat) :
    (cholUpdStep n plus k hk st).2.2 ≤ st.2.2 := by
  unfold cholUpdStep
  dsimp only
  split_ifs <;> first | omega | (dsimp only; omega)

theorem cholUpdStep_small (n : Nat) (plus : Bool) (k : Nat) (hk : k < n) (st : Vector ℝ (n * n) × Vector ℝ n × Nat)
    (hx : vget st.2.1 k ≠ 0) (h : updPivot st.1 st.2.1 plus k < MjNum.ofSci 1 true 15) :
    (cholUpdStep n plus k hk st).2.2 = st.2.2 - 1 := by
  unfold cholUpdStep
  dsimp only
  rw [if_neg (by rw [real_beq_zero', getElem_eq_vget]; exact hx), updPivot_eq]
  have hd : decide (updPivot st.1 st.2.1 plus k < MjNum.ofSci 1 true 15) = true := by simpa using h
  simp only [hd, if_true]

theorem cholUpdStep_full (n : Nat) (plus : Bool) (k : Nat) (hk : k < n) (st : Vector ℝ (n * n) × Vector ℝ n × Nat)
    (hx : vget st.2.1 k ≠ 0) (h : ¬ updPivot st.1 st.2.1 plus k < MjNum.ofSci 1 true 15) :
    cholUpdStep n plus k hk st =
      (let r := Real.sqrt (updPivot st.1 st.2.1 plus k)
       let c := r / mget st.1 k k
       let s := vget st.2.1 k / mget st.1 k k
       let m2 := cholUpdCol n k hk (set2 st.1 k k hk hk r) st.2.1 plus s (1 / c)
       (m2, cholUpdX n k hk m2 st.2.1 c s, st.2.2)) := by
  unfold cholUpdStep
  dsimp only
  rw [if_neg (by rw [real_beq_zero', getElem_eq_vget]; exact hx), updPivot_eq]
  have hd : decide (updPivot st.1 st.2.1 plus k < MjNum.ofSci 1 true 15) = false := by simpa using h
  have h1 : (lit 1 : ℝ) = 1 := by simp [MjNum.lit]
  simp only [hd, Bool.false_eq_true, if_false, at2_eq_mget, getElem_eq_vget, real_sqrt, h1]


/-- invariant of `mju_cholUpdate` on the no-rank-loss path: the Gram matrix of the lower triangle plus the
not-yet-absorbed part of the update vector is the target matrix; columns `≥ k` are still the input's -/
structure UpdFacts {n : Nat} (L0 : Vector ℝ (n * n)) (x0 : Vector ℝ n) (σ : ℝ) (m : Vector ℝ (n * n))
    (x : Vector ℝ n) (k : Nat) : Prop where
  gram : ∀ i j, i < n → j < n →
    ∑ c ∈ range n, lower m i c * lower m j c + σ * (xe x k i * xe x k j)
      = ∑ c ∈ range n, lower L0 i c * lower L0 j c + σ * (vget x0 i * vget x0 j)
  cols : ∀ r c, k ≤ c → mget m r c = mget L0 r c

theorem UpdFacts.skip {n : Nat} {L0 : Vector ℝ (n * n)} {x0 : Vector ℝ n} {σ : ℝ} {m : Vector ℝ (n * n)}
    {x : Vector ℝ n} {k : Nat} (F : UpdFacts L0 x0 σ m x k) (hx : vget x k = 0) : UpdFacts L0 x0 σ m x (k + 1) := by
  have e : ∀ i, xe x (k + 1) i = xe x k i := by
    intro i
    unfold xe
    by_cases h : k + 1 ≤ i
    · rw [if_pos h, if_pos (by omega)]
    · rw [if_neg h]
      by_cases h2 : k ≤ i
      · have : i = k := by omega
        rw [if_pos h2, this, hx]
      · rw [if_neg h2]
  refine ⟨?_, fun r c hc => F.cols r c (by omega)⟩
  intro i j hi hj
  rw [e i, e j]
  exact F.gram i j hi hj

theorem UpdFacts.step {n : Nat} {L0 : Vector ℝ (n * n)} {x0 : Vector ℝ n} (plus : Bool) {m : Vector ℝ (n * n)}
    {x : Vector ℝ n} {k : Nat} (hk : k < n) (F : UpdFacts L0 x0 (sgn plus) m x k)
    (hL : mget m k k ≠ 0) (hp : 0 < updPivot m x plus k) :
    let r := Real.sqrt (updPivot m x plus k)
    let c := r / mget m k k
    let s := vget x k / mget m k k
    let m2 := cholUpdCol n k hk (set2 m k k hk hk r) x plus s (1 / c)
    UpdFacts L0 x0 (sgn plus) m2 (cholUpdX n k hk m2 x c s) (k + 1) := by
  intro r c s m2
  have hr0 : 0 < r := Real.sqrt_pos.mpr hp
  have hrr : r * r = mget m k k * mget m k k + sgn plus * (vget x k * vget x k) := Real.mul_self_sqrt hp.le
  set σ := sgn plus with hσ
  -- entries of the new matrix
  have hM2 : ∀ a b, mget m2 a b =
      if b = k ∧ k < a ∧ a < n then (mget m a k + σ * (s * vget x a)) * (1 / c)
      else if a = k ∧ b = k then r else mget m a b := by
    intro a b
    show mget (cholUpdCol n k hk (set2 m k k hk hk r) x plus s (1 / c)) a b = _
    rw [cholUpdCol_spec]
    by_cases h : b = k ∧ k < a ∧ a < n
    · have e : mget (set2 m k k hk hk r) a k = mget m a k := by
        rw [mget_set2]; exact if_neg (by omega)
      rw [if_pos h, if_pos h, e, hσ]
      unfold sgn
      cases plus
      · simp only [Bool.false_eq_true, if_false]; ring
      · simp only [if_true]; ring
    · rw [if_neg h, if_neg h, mget_set2]
  have hX2 : ∀ i, vget (cholUpdX n k hk m2 x c s) i =
      if k < i ∧ i < n then c * vget x i - s * mget m2 i k else vget x i := fun i => cholUpdX_spec n k hk m2 x c s i
  refine ⟨?_, ?_⟩
  · intro i j hi hj
    rw [← F.gram i j hi hj]
    have hkm : k ∈ range n := by simp [hk]
    rw [← Finset.add_sum_erase _ _ hkm, ← Finset.add_sum_erase (range n) (fun c => lower m i c * lower m j c) hkm]
    have herase : ∑ c ∈ (range n).erase k, lower m2 i c * lower m2 j c
        = ∑ c ∈ (range n).erase k, lower m i c * lower m j c := by
      apply Finset.sum_congr rfl
      intro c hc
      have hck : c ≠ k := (Finset.mem_erase.mp hc).1
      have hne : ∀ a, mget m2 a c = mget m a c := by
        intro a
        rw [hM2]
        have h1 : ¬ (c = k ∧ k < a ∧ a < n) := by omega
        have h2 : ¬ (a = k ∧ c = k) := by omega
        rw [if_neg h1, if_neg h2]
      unfold lower
      rw [hne i, hne j]
    rw [herase]
    -- the column-k terms
    have hcol : lower m2 i k * lower m2 j k + σ * (xe (cholUpdX n k hk m2 x c s) (k + 1) i * xe (cholUpdX n k hk m2 x c s) (k + 1) j)
        = lower m i k * lower m j k + σ * (xe x k i * xe x k j) := by
      -- values in the three regions
      have low : ∀ a, a < k → lower m2 a k = 0 ∧ lower m a k = 0 ∧
          xe (cholUpdX n k hk m2 x c s) (k + 1) a = 0 ∧ xe x k a = 0 := by
        intro a ha
        unfold lower xe
        refine ⟨if_neg (by omega), if_neg (by omega), if_neg (by omega), if_neg (by omega)⟩
      have mid : lower m2 k k = r ∧ lower m k k = mget m k k ∧
          xe (cholUpdX n k hk m2 x c s) (k + 1) k = 0 ∧ xe x k k = vget x k := by
        unfold lower xe
        refine ⟨?_, if_pos le_rfl, if_neg (by omega), if_pos le_rfl⟩
        rw [if_pos le_rfl, hM2, if_neg (by omega), if_pos ⟨rfl, rfl⟩]
      have high : ∀ a, k < a → a < n →
          lower m2 a k = (mget m a k + σ * (s * vget x a)) * (1 / c) ∧ lower m a k = mget m a k ∧
          xe (cholUpdX n k hk m2 x c s) (k + 1) a
            = c * vget x a - s * ((mget m a k + σ * (s * vget x a)) * (1 / c)) ∧ xe x k a = vget x a := by
        intro a ha han
        have e1 : mget m2 a k = (mget m a k + σ * (s * vget x a)) * (1 / c) := by
          rw [hM2, if_pos ⟨rfl, ha, han⟩]
        unfold lower xe
        refine ⟨by rw [if_pos (by omega), e1], if_pos (by omega), ?_, if_pos (by omega)⟩
        rw [if_pos (by omega), hX2, if_pos ⟨ha, han⟩, e1]
      rcases Nat.lt_trichotomy i k with hik | hik | hik
      · obtain ⟨a1, a2, a3, a4⟩ := low i hik
        rw [a1, a2, a3, a4]; ring
      · subst hik
        obtain ⟨b1, b2, b3, b4⟩ := mid
        rcases Nat.lt_trichotomy j i with hjk | hjk | hjk
        · obtain ⟨a1, a2, a3, a4⟩ := low j hjk
          rw [a1, a2, a3, a4]; ring
        · subst hjk
          rw [b1, b2, b3, b4, hrr]; ring
        · obtain ⟨c1, c2, c3, c4⟩ := high j hjk hj
          rw [b1, b2, b3, b4, c1, c2, c3, c4]
          have := upd_pivot σ (mget m i i) (vget x i) r (mget m j i) (vget x j) hL hr0.ne'
          simp only [s, c] at this ⊢
          rw [mul_comm r, this]; ring
      · obtain ⟨c1, c2, c3, c4⟩ := high i hik hi
        rcases Nat.lt_trichotomy j k with hjk | hjk | hjk
        · obtain ⟨a1, a2, a3, a4⟩ := low j hjk
          rw [a1, a2, a3, a4]; ring
        · subst hjk
          obtain ⟨b1, b2, b3, b4⟩ := mid
          rw [b1, b2, b3, b4, c1, c2, c3, c4]
          have := upd_pivot σ (mget m j j) (vget x j) r (mget m i j) (vget x i) hL hr0.ne'
          simp only [s, c] at this ⊢
          rw [this]; ring
        · obtain ⟨d1, d2, d3, d4⟩ := high j hjk hj
          rw [c1, c2, c3, c4, d1, d2, d3, d4]
          have := upd_pair σ (mget m k k) (vget x k) r (mget m i k) (vget x i) (mget m j k) (vget x j)
            (sgn_cases plus) hL hr0.ne' hrr
          simp only [s, c] at this ⊢
          linarith
    linarith
  · intro a b hb
    rw [hM2, if_neg (by omega), if_neg (by omega)]
    exact F.cols a b (by omega)


theorem cholUpdate_facts {n : Nat} (L0 : Vector ℝ (n * n)) (x0 : Vector ℝ n) (plus : Bool)
    (hdiag : ∀ c < n, mget L0 c c ≠ 0) (hrank : (cholUpdate n L0 x0 plus).2.2 = n) :
    UpdFacts L0 x0 (sgn plus) (cholUpdate n L0 x0 plus).1 (cholUpdate n L0 x0 plus).2.1 n := by
  have key := fold_inv (n := n) (s := (L0, x0, n))
    (body := fun k hk st => cholUpdStep n plus k hk st)
    (fun k st => st.2.2 ≤ n ∧ (st.2.2 = n → UpdFacts L0 x0 (sgn plus) st.1 st.2.1 k))
    ⟨le_rfl, fun _ => ⟨by
      intro i j _ _
      have e : ∀ i, xe x0 0 i = vget x0 i := fun i => if_pos (Nat.zero_le i)
      rw [e i, e j], fun _ _ _ => rfl⟩⟩
    (by
      intro k hk st ⟨h1, h2⟩
      have hle := cholUpdStep_rank_le n plus k hk st
      refine ⟨by omega, ?_⟩
      intro hn
      have hst : st.2.2 = n := by omega
      have F := h2 hst
      by_cases hx : vget st.2.1 k = 0
      · rw [cholUpdStep_skip n plus k hk st hx]
        exact F.skip hx
      · by_cases hsmall : updPivot st.1 st.2.1 plus k < MjNum.ofSci 1 true 15
        · have := cholUpdStep_small n plus k hk st hx hsmall
          omega
        · rw [cholUpdStep_full n plus k hk st hx hsmall]
          have hL : mget st.1 k k ≠ 0 := by rw [F.cols k k le_rfl]; exact hdiag k hk
          have hp : 0 < updPivot st.1 st.2.1 plus k := lt_of_lt_of_le minval_pos (not_lt.mp hsmall)
          exact F.step plus hk hL hp)
  exact key.2 hrank

/-- `mju_cholUpdate` without rank loss: the Gram matrix of the new lower triangle is the updated matrix -/
theorem cholUpdate_gram {n : Nat} (L0 : Vector ℝ (n * n)) (x0 : Vector ℝ n) (plus : Bool)
    (hdiag : ∀ c < n, mget L0 c c ≠ 0) (hrank : (cholUpdate n L0 x0 plus).2.2 = n) (i j : Nat) (hi : i < n) (hj : j < n) :
    ∑ c ∈ range n, lower (cholUpdate n L0 x0 plus).1 i c * lower (cholUpdate n L0 x0 plus).1 j c
      = ∑ c ∈ range n, lower L0 i c * lower L0 j c + sgn plus * (vget x0 i * vget x0 j) := by
  have F := cholUpdate_facts L0 x0 plus hdiag hrank
  have := F.gram i j hi hj
  have e : ∀ i, i < n → xe (cholUpdate n L0 x0 plus).2.1 n i = 0 := fun i hi => if_neg (by omega)
  rw [e i hi, e j hj] at this
  linarith

end MjProof.LinAlg
