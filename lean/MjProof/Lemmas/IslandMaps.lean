import MjProof.Model.Island
import Mathlib.Data.Fintype.EquivFin
/-
Correctness of the counting-sort index maps of `mj_island` (`buildMaps` of Model/Island.lean):
for every key list (any length, any number of buckets) the model succeeds and produces island sizes,
block addresses (exclusive prefix sums) and a pair of mutually inverse permutations `fwd`/`inv` that
place every object in the block of its island, unconstrained objects (negative key) behind all
constrained ones, in stable order.
-/
namespace MjProof.Island
open List

/-- number of objects with a non-negative key (constrained objects) -/
def nConstrained (keys : List Int) : Nat := keys.countP (fun k => decide (0 ≤ k))

/-- number of objects with a negative key (unconstrained objects) -/
def nNeg (keys : List Int) : Nat := keys.countP (fun k => decide (k < 0))

/-- specification of the block address of bucket `k`: number of objects with a key in `[0,k)` -/
def adrSpec (keys : List Int) (k : Nat) : Nat :=
  keys.countP (fun x => decide (0 ≤ x ∧ x < (k : Int)))

/-! ### pure counting facts -/

theorem adrSpec_zero (keys : List Int) : adrSpec keys 0 = 0 := by
  unfold adrSpec
  rw [List.countP_eq_zero]
  intro a _
  simp only [decide_eq_true_eq]
  omega

theorem adrSpec_succ (keys : List Int) (k : Nat) :
    adrSpec keys (k + 1) = adrSpec keys k + keys.count (k : Int) := by
  unfold adrSpec
  induction keys with
  | nil => simp
  | cons a l ih =>
    simp only [List.countP_cons, List.count_cons, ih]
    have : (if decide (0 ≤ a ∧ a < ((k + 1 : Nat) : Int)) = true then 1 else 0)
        = (if decide (0 ≤ a ∧ a < (k : Int)) = true then 1 else 0) + (if (a == (k : Int)) = true then 1 else 0) := by
      simp only [beq_iff_eq, decide_eq_true_eq]
      split_ifs <;> omega
    omega

theorem adrSpec_mono (keys : List Int) {k k' : Nat} (h : k ≤ k') : adrSpec keys k ≤ adrSpec keys k' := by
  unfold adrSpec
  apply List.countP_mono_left
  intro x _
  simp only [decide_eq_true_eq]
  omega

theorem adrSpec_le_nConstrained (keys : List Int) (k : Nat) : adrSpec keys k ≤ nConstrained keys := by
  unfold adrSpec nConstrained
  apply List.countP_mono_left
  intro x _
  simp only [decide_eq_true_eq]
  omega

theorem adrSpec_eq_nConstrained (keys : List Int) (nb : Nat) (h : ∀ k ∈ keys, k < (nb : Int)) :
    adrSpec keys nb = nConstrained keys := by
  apply Nat.le_antisymm (adrSpec_le_nConstrained keys nb)
  unfold adrSpec nConstrained
  apply List.countP_mono_left
  intro x hx
  have := h x hx
  simp only [decide_eq_true_eq]
  omega

theorem nConstrained_add_nNeg (keys : List Int) : nConstrained keys + nNeg keys = keys.length := by
  unfold nConstrained nNeg
  induction keys with
  | nil => simp
  | cons a l ih =>
    simp only [List.countP_cons, List.length_cons, decide_eq_true_eq]
    by_cases h : 0 ≤ a
    · have h' : ¬ a < 0 := by omega
      simp only [h, h', if_true, if_false]; omega
    · have h' : a < 0 := by omega
      simp only [h, h', if_true, if_false]; omega

/-- strict growth of a prefix count across an element that satisfies the predicate -/
theorem countP_take_lt (p : Int → Bool) (keys : List Int) {i j : Nat} (hij : i < j) (hi : i < keys.length)
    (hp : p keys[i] = true) : (keys.take i).countP p < (keys.take j).countP p := by
  have h1 : (keys.take (i + 1)).countP p = (keys.take i).countP p + 1 := by
    rw [List.take_succ_eq_append_getElem hi, List.countP_append]
    simp [hp]
  have h2 : (keys.take (i + 1)).countP p ≤ (keys.take j).countP p :=
    (List.take_sublist_take_left (by omega)).countP_le
  omega

theorem countP_take_lt_all (p : Int → Bool) (keys : List Int) {i : Nat} (hi : i < keys.length)
    (hp : p keys[i] = true) : (keys.take i).countP p < keys.countP p := by
  have := countP_take_lt p keys (j := keys.length) hi hi hp
  simpa using this

theorem count_take_lt (keys : List Int) {i j : Nat} (hij : i < j) (hi : i < keys.length) :
    (keys.take i).count keys[i] < (keys.take j).count keys[i] := by
  simp only [List.count_eq_countP]
  exact countP_take_lt _ keys hij hi (by simp)

theorem count_take_lt_all (keys : List Int) {i : Nat} (hi : i < keys.length) :
    (keys.take i).count keys[i] < keys.count keys[i] := by
  simp only [List.count_eq_countP]
  exact countP_take_lt_all _ keys hi (by simp)

/-! ### the stable rank -/

/-- position assigned to the `j`-th object when its key is `key` -/
def rankOf (keys : List Int) (key : Int) (j : Nat) : Nat :=
  if 0 ≤ key then adrSpec keys key.toNat + (keys.take j).count key
  else nConstrained keys + nNeg (keys.take j)

theorem rankOf_block (keys : List Int) {j : Nat} (hj : j < keys.length) (k : Nat) (hk : keys[j] = (k : Int)) :
    adrSpec keys k ≤ rankOf keys keys[j] j ∧ rankOf keys keys[j] j < adrSpec keys k + keys.count (k : Int) := by
  have h := count_take_lt_all keys hj
  have h0 : 0 ≤ keys[j] := by omega
  have ht : keys[j].toNat = k := by omega
  unfold rankOf
  rw [if_pos h0, ht]
  rw [hk] at h ⊢
  omega

theorem rankOf_neg (keys : List Int) {j : Nat} (hj : j < keys.length) (hk : keys[j] < 0) :
    nConstrained keys ≤ rankOf keys keys[j] j ∧ rankOf keys keys[j] j < keys.length := by
  have h := countP_take_lt_all (fun k => decide (k < 0)) keys hj (by simpa using hk)
  have h0 : ¬ 0 ≤ keys[j] := by omega
  have := nConstrained_add_nNeg keys
  unfold rankOf
  rw [if_neg h0]
  unfold nNeg at *
  omega

theorem rankOf_lt (keys : List Int) {j : Nat} (hj : j < keys.length) :
    rankOf keys keys[j] j < keys.length := by
  by_cases h0 : 0 ≤ keys[j]
  · have hk : keys[j] = (keys[j].toNat : Int) := by omega
    have h := (rankOf_block keys hj _ hk).2
    rw [← adrSpec_succ] at h
    have h1 := adrSpec_le_nConstrained keys (keys[j].toNat + 1)
    have h2 := nConstrained_add_nNeg keys
    omega
  · exact (rankOf_neg keys hj (by omega)).2

theorem rankOf_stable (keys : List Int) {i j : Nat} (hij : i < j) (hi : i < keys.length) (hj : j < keys.length)
    (h : keys[i] = keys[j] ∨ (keys[i] < 0 ∧ keys[j] < 0)) :
    rankOf keys keys[i] i < rankOf keys keys[j] j := by
  by_cases h0 : 0 ≤ keys[i]
  · have he : keys[i] = keys[j] := by omega
    have hc := count_take_lt keys hij hi
    unfold rankOf
    rw [← he]
    simp only [if_pos h0]
    omega
  · have hj0 : ¬ 0 ≤ keys[j] := by omega
    have hc := countP_take_lt (fun k => decide (k < 0)) keys hij hi (by simp; omega)
    unfold rankOf
    rw [if_neg h0, if_neg hj0]
    unfold nNeg
    omega

/-- ranks of objects with different (non-equivalent) keys lie in disjoint blocks -/
theorem rankOf_ne_of_key (keys : List Int) {i j : Nat} (hi : i < keys.length) (hj : j < keys.length)
    (h : ¬ (keys[i] = keys[j] ∨ (keys[i] < 0 ∧ keys[j] < 0))) :
    rankOf keys keys[i] i ≠ rankOf keys keys[j] j := by
  -- wlog-free: four cases on the signs
  by_cases hi0 : 0 ≤ keys[i] <;> by_cases hj0 : 0 ≤ keys[j]
  · have hki : keys[i] = (keys[i].toNat : Int) := by omega
    have hkj : keys[j] = (keys[j].toNat : Int) := by omega
    have bi := rankOf_block keys hi _ hki
    have bj := rankOf_block keys hj _ hkj
    rw [← adrSpec_succ] at bi bj
    rcases Nat.lt_or_gt_of_ne (show keys[i].toNat ≠ keys[j].toNat by omega) with hlt | hlt
    · have := adrSpec_mono keys (show keys[i].toNat + 1 ≤ keys[j].toNat by omega)
      omega
    · have := adrSpec_mono keys (show keys[j].toNat + 1 ≤ keys[i].toNat by omega)
      omega
  · have hki : keys[i] = (keys[i].toNat : Int) := by omega
    have bi := rankOf_block keys hi _ hki
    rw [← adrSpec_succ] at bi
    have := adrSpec_le_nConstrained keys (keys[i].toNat + 1)
    have bj := rankOf_neg keys hj (by omega)
    omega
  · have hkj : keys[j] = (keys[j].toNat : Int) := by omega
    have bj := rankOf_block keys hj _ hkj
    rw [← adrSpec_succ] at bj
    have := adrSpec_le_nConstrained keys (keys[j].toNat + 1)
    have bi := rankOf_neg keys hi (by omega)
    omega
  · exfalso; apply h; right; omega

theorem rankOf_inj (keys : List Int) {i j : Nat} (hi : i < keys.length) (hj : j < keys.length)
    (h : rankOf keys keys[i] i = rankOf keys keys[j] j) : i = j := by
  by_cases hk : keys[i] = keys[j] ∨ (keys[i] < 0 ∧ keys[j] < 0)
  · rcases Nat.lt_trichotomy i j with hlt | heq | hgt
    · have := rankOf_stable keys hlt hi hj hk; omega
    · exact heq
    · have := rankOf_stable keys hgt hj hi (by omega); omega
  · exact absurd h (rankOf_ne_of_key keys hi hj hk)

/-! ### generic loop-invariant rule for `List.foldlM` in `Option` -/

theorem foldlM_invariant {σ α : Type} (f : σ → α → Option σ) (l : List α) (I : Nat → σ → Prop) (s0 : σ)
    (h0 : I 0 s0)
    (hstep : ∀ i (hi : i < l.length) s, I i s → ∃ s', f s l[i] = some s' ∧ I (i + 1) s') :
    ∃ s, l.foldlM f s0 = some s ∧ I l.length s := by
  induction l generalizing I s0 with
  | nil => exact ⟨s0, rfl, h0⟩
  | cons a l ih =>
    obtain ⟨s1, hs1, h1⟩ := hstep 0 (by simp) s0 h0
    simp only [List.getElem_cons_zero] at hs1
    obtain ⟨s, hs, hI⟩ := ih (fun i s => I (i + 1) s) s1 h1 (by
      intro i hi s hIs
      have := hstep (i + 1) (by simp; omega) s hIs
      simpa using this)
    refine ⟨s, ?_, hI⟩
    rw [List.foldlM_cons, hs1]
    exact hs

/-! ### pass 1: counting -/

theorem countKeys_spec (guard : Bool) (keys : List Int) (nb : Nat)
    (hkeys : ∀ k ∈ keys, k < (nb : Int) ∧ (guard = false → 0 ≤ k)) :
    ∃ cnt, countKeys guard keys nb = some cnt ∧ cnt.size = nb ∧
      ∀ k (h : k < cnt.size), cnt[k] = keys.count (k : Int) := by
  have := foldlM_invariant (countStep guard) keys
    (fun i c => c.size = nb ∧ ∀ k (h : k < c.size), c[k] = (keys.take i).count (k : Int))
    (Array.replicate nb 0) (by simp) (by
      intro i hi c ⟨hsz, hc⟩
      have hk := hkeys keys[i] (List.getElem_mem hi)
      unfold countStep
      by_cases h0 : 0 ≤ keys[i]
      · have hlt : keys[i].toNat < c.size := by omega
        rw [if_pos h0, dif_pos hlt]
        refine ⟨_, rfl, by simp [hsz], ?_⟩
        intro k hk'
        rw [List.take_succ_eq_append_getElem hi, List.count_append]
        simp only [Array.size_set] at hk'
        rw [Array.getElem_set]
        by_cases hkk : keys[i].toNat = k
        · have : keys[i] = (k : Int) := by omega
          rw [if_pos hkk]
          subst hkk
          rw [hc _ hlt, ← this]
          simp
        · have : ¬ keys[i] = (k : Int) := by omega
          rw [if_neg hkk, hc k hk']
          simp [this]
      · have hg : guard = true := by
          cases guard
          · exact absurd (hk.2 rfl) h0
          · rfl
        rw [if_neg h0, if_pos hg]
        refine ⟨_, rfl, hsz, ?_⟩
        intro k hk'
        have : ¬ keys[i] = (k : Int) := by omega
        rw [List.take_succ_eq_append_getElem hi, List.count_append, hc k hk']
        simp [this])
  obtain ⟨c, hc, hsz, hcnt⟩ := this
  refine ⟨c, hc, hsz, ?_⟩
  simpa using hcnt

/-! ### pass 2: exclusive prefix sums -/

theorem cumsum_aux (l : List Nat) (a : Array Nat) (s : Nat) :
    (l.foldl (fun (s : Array Nat × Nat) c => (s.1.push s.2, s.2 + c)) (a, s)).1.size = a.size + l.length ∧
    (∀ j, j < a.size →
      (l.foldl (fun (s : Array Nat × Nat) c => (s.1.push s.2, s.2 + c)) (a, s)).1[j]? = a[j]?) ∧
    (∀ k, k < l.length →
      (l.foldl (fun (s : Array Nat × Nat) c => (s.1.push s.2, s.2 + c)) (a, s)).1[a.size + k]?
        = some (s + (l.take k).sum)) := by
  induction l generalizing a s with
  | nil => simp
  | cons c l ih =>
    obtain ⟨h1, h2, h3⟩ := ih (a.push s) (s + c)
    simp only [List.foldl_cons, List.length_cons]
    refine ⟨by rw [h1]; simp; omega, ?_, ?_⟩
    · intro j hj
      rw [h2 j (by simp; omega), Array.getElem?_push]
      rw [if_neg (by omega)]
    · intro k hk
      cases k with
      | zero =>
        rw [Nat.add_zero, h2 a.size (by simp)]
        simp
      | succ k =>
        have := h3 k (by omega)
        simp only [Array.size_push] at this
        rw [show a.size + (k + 1) = a.size + 1 + k by omega, this]
        simp only [List.take_succ_cons, List.sum_cons]
        congr 1; omega

theorem cumsum_size (cnt : Array Nat) : (cumsum cnt).size = cnt.size := by
  unfold cumsum
  rw [← Array.foldl_toList]
  have := (cumsum_aux cnt.toList #[] 0).1
  simpa using this

theorem cumsum_getElem (cnt : Array Nat) (k : Nat) (h : k < (cumsum cnt).size) :
    (cumsum cnt)[k] = (cnt.toList.take k).sum := by
  have hk : k < cnt.size := by rw [cumsum_size] at h; exact h
  have := (cumsum_aux cnt.toList #[] 0).2.2 k (by simpa using hk)
  have e : (cumsum cnt)[k]? = some ((cnt.toList.take k).sum) := by
    unfold cumsum
    rw [← Array.foldl_toList]
    simpa using this
  rw [Array.getElem?_eq_getElem h] at e
  simpa using e

theorem cumsum_spec (keys : List Int) (cnt : Array Nat)
    (hcnt : ∀ k (h : k < cnt.size), cnt[k] = keys.count (k : Int)) (k : Nat) (h : k < (cumsum cnt).size) :
    (cumsum cnt)[k] = adrSpec keys k := by
  rw [cumsum_getElem]
  have hk : k < cnt.size := by rw [cumsum_size] at h; exact h
  clear h
  induction k with
  | zero => simp [adrSpec_zero]
  | succ k ih =>
    have hk' : k < cnt.toList.length := by simp; omega
    rw [List.take_succ_eq_append_getElem hk', List.sum_append, ih (by omega), adrSpec_succ]
    simp [hcnt k (by omega)]

/-! ### pass 3: placement -/

/-- loop invariant of the placement loop after `i` objects -/
structure PlaceInv (keys : List Int) (nb i : Nat) (s : Place) : Prop where
  cnt2_size : s.cnt2.size = nb + 1
  cnt2_eq : ∀ b, b < nb → s.cnt2[b]? = some ((keys.take i).count (b : Int))
  cnt2_neg : s.cnt2[nb]? = some (nNeg (keys.take i))
  fwd_size : s.fwd.size = i
  inv_size : s.inv.size = keys.length
  fwd_eq : ∀ j (_ : j < i) (hj : j < keys.length), s.fwd[j]? = some (rankOf keys keys[j] j)
  inv_fwd : ∀ j (_ : j < i) (hj : j < keys.length), s.inv[rankOf keys keys[j] j]? = some (some j)
  inv_some : ∀ x j, s.inv[x]? = some (some j) → ∃ (_ : j < i) (hj : j < keys.length), rankOf keys keys[j] j = x

theorem placeInv_init (keys : List Int) (nb : Nat) :
    PlaceInv keys nb 0 { cnt2 := Array.replicate (nb + 1) 0, fwd := #[], inv := Array.replicate keys.length none } := by
  constructor
  · simp
  · intro b hb; simp [Array.getElem?_replicate]; omega
  · simp [nNeg]
  · simp
  · simp
  · intro j hj; omega
  · intro j hj; omega
  · intro x j h
    simp only [Array.getElem?_replicate] at h
    split at h <;> simp at h

theorem placeWrite_inv {keys : List Int} {nb i : Nat} {s : Place} (I : PlaceInv keys nb i s)
    (hi : i < keys.length) (b c : Nat) (hb : b < s.cnt2.size)
    (hcnt : ∀ b', b' < nb →
      (keys.take (i + 1)).count (b' : Int) = if b' = b then c + 1 else (keys.take i).count (b' : Int))
    (hneg : nNeg (keys.take (i + 1)) = if nb = b then c + 1 else nNeg (keys.take i)) :
    ∃ s', placeWrite s b c (rankOf keys keys[i] i) hb = some s' ∧ PlaceInv keys nb (i + 1) s' := by
  have hidx : rankOf keys keys[i] i < s.inv.size := by rw [I.inv_size]; exact rankOf_lt keys hi
  unfold placeWrite
  rw [dif_pos hidx]
  refine ⟨_, rfl, ?_⟩
  constructor
  · simp [I.cnt2_size]
  · intro b' hb'
    simp only [Array.getElem?_set, hcnt b' hb']
    by_cases e : b = b'
    · subst e; simp
    · have e' : ¬ b' = b := fun h => e h.symm
      rw [if_neg e, if_neg e', I.cnt2_eq b' hb']
  · simp only [Array.getElem?_set, hneg]
    by_cases e : b = nb
    · subst e; simp
    · have e' : ¬ nb = b := fun h => e h.symm
      rw [if_neg e, if_neg e', I.cnt2_neg]
  · simp [I.fwd_size]
  · simp [I.inv_size]
  · intro j hj hj'
    simp only [Array.getElem?_push, I.fwd_size]
    by_cases e : j = i
    · subst e; simp
    · rw [if_neg e]; exact I.fwd_eq j (by omega) hj'
  · intro j hj hj'
    simp only [Array.getElem?_set, I.fwd_size]
    by_cases e : j = i
    · subst e; simp
    · have hne : rankOf keys keys[i] i ≠ rankOf keys keys[j] j := fun h => e (rankOf_inj keys hi hj' h).symm
      rw [if_neg hne]; exact I.inv_fwd j (by omega) hj'
  · intro x j h
    simp only [Array.getElem?_set, I.fwd_size] at h
    by_cases e : rankOf keys keys[i] i = x
    · rw [if_pos e] at h
      have : i = j := by simpa using h
      subst this
      exact ⟨by omega, hi, e⟩
    · rw [if_neg e] at h
      obtain ⟨h1, h2, h3⟩ := I.inv_some x j h
      exact ⟨by omega, h2, h3⟩

theorem placeStep_inv (guard : Bool) (keys : List Int) (nb : Nat) (adr : Array Nat)
    (hkeys : ∀ k ∈ keys, k < (nb : Int) ∧ (guard = false → 0 ≤ k))
    (hadr_size : adr.size = nb) (hadr : ∀ k (h : k < adr.size), adr[k] = adrSpec keys k)
    (i : Nat) (hi : i < keys.length) (s : Place) (I : PlaceInv keys nb i s) :
    ∃ s', placeStep guard adr nb (nConstrained keys) s keys[i] = some s' ∧ PlaceInv keys nb (i + 1) s' := by
  have hk := hkeys keys[i] (List.getElem_mem hi)
  have htake := List.take_succ_eq_append_getElem hi
  unfold placeStep
  by_cases h0 : 0 ≤ keys[i]
  · have hlt : keys[i].toNat < nb := by omega
    have hkey : keys[i] = (keys[i].toNat : Int) := by omega
    have hb : keys[i].toNat < s.cnt2.size := by rw [I.cnt2_size]; omega
    have hc : s.cnt2[keys[i].toNat] = (keys.take i).count keys[i] := by
      have := I.cnt2_eq _ hlt
      rw [Array.getElem?_eq_getElem hb, ← hkey] at this
      simpa using this
    have ha : adr[keys[i].toNat]? = some (adrSpec keys keys[i].toNat) := by
      rw [Array.getElem?_eq_getElem (by omega), hadr]
    rw [if_pos h0, ha]
    simp only [dif_pos hb]
    have hr : adrSpec keys keys[i].toNat + s.cnt2[keys[i].toNat] = rankOf keys keys[i] i := by
      unfold rankOf; rw [if_pos h0, hc]
    rw [hr]
    apply placeWrite_inv I hi
    · intro b' hb'
      rw [htake, List.count_append, hc]
      by_cases e : b' = keys[i].toNat
      · have : keys[i] = (b' : Int) := by omega
        rw [if_pos e, ← this]; simp
      · have : ¬ keys[i] = (b' : Int) := by omega
        rw [if_neg e]; simp [this]
    · rw [if_neg (by omega), htake]
      unfold nNeg
      rw [List.countP_append]
      simp; omega
  · have hg : guard = true := by
      cases guard
      · exact absurd (hk.2 rfl) h0
      · rfl
    have hb : nb < s.cnt2.size := by rw [I.cnt2_size]; omega
    have hc : s.cnt2[nb] = nNeg (keys.take i) := by
      have := I.cnt2_neg
      rw [Array.getElem?_eq_getElem hb] at this
      simpa using this
    rw [if_neg h0, if_pos hg, dif_pos hb]
    have hr : nConstrained keys + s.cnt2[nb] = rankOf keys keys[i] i := by
      unfold rankOf; rw [if_neg h0, hc]
    rw [hr]
    apply placeWrite_inv I hi
    · intro b' hb'
      have : ¬ keys[i] = (b' : Int) := by omega
      rw [if_neg (by omega), htake, List.count_append]; simp [this]
    · rw [if_pos rfl, htake, hc]
      unfold nNeg
      rw [List.countP_append]
      simp; omega

theorem place_spec (guard : Bool) (keys : List Int) (nb : Nat) (adr : Array Nat)
    (hkeys : ∀ k ∈ keys, k < (nb : Int) ∧ (guard = false → 0 ≤ k))
    (hadr_size : adr.size = nb) (hadr : ∀ k (h : k < adr.size), adr[k] = adrSpec keys k) :
    ∃ s, keys.foldlM (placeStep guard adr nb (nConstrained keys))
          { cnt2 := Array.replicate (nb + 1) 0, fwd := #[], inv := Array.replicate keys.length none } = some s ∧
      PlaceInv keys nb keys.length s :=
  foldlM_invariant _ keys (fun i s => PlaceInv keys nb i s) _ (placeInv_init keys nb)
    (fun i hi s I => placeStep_inv guard keys nb adr hkeys hadr_size hadr i hi s I)

/-! ### every position is hit (pigeonhole) -/

theorem rankOf_surj (keys : List Int) (x : Nat) (hx : x < keys.length) :
    ∃ j, ∃ hj : j < keys.length, rankOf keys keys[j] j = x := by
  let f : Fin keys.length → Fin keys.length := fun j => ⟨rankOf keys keys[j] j, rankOf_lt keys j.isLt⟩
  have hinj : Function.Injective f := by
    intro a b hab
    have : rankOf keys keys[a] a = rankOf keys keys[b] b := congrArg Fin.val hab
    exact Fin.ext (rankOf_inj keys a.isLt b.isLt this)
  obtain ⟨j, hj⟩ := (Finite.injective_iff_surjective.mp hinj) ⟨x, hx⟩
  exact ⟨j.val, j.isLt, congrArg Fin.val hj⟩

/-! ### `mapM id` over a list of options -/

theorem mapM_id_some (l : List (Option Nat)) (h : ∀ x ∈ l, ∃ v, x = some v) :
    ∃ r, l.mapM id = some r ∧ r.map some = l := by
  induction l with
  | nil => exact ⟨[], rfl, rfl⟩
  | cons a l ih =>
    obtain ⟨v, hv⟩ := h a (by simp)
    obtain ⟨r, hr, hr'⟩ := ih (fun x hx => h x (by simp [hx]))
    refine ⟨v :: r, ?_, by simp [hv, hr']⟩
    rw [List.mapM_cons, hr, hv]
    rfl

/-! ### the specification -/

structure MapsSpec (keys : List Int) (nb : Nat) (m : Maps) : Prop where
  cnt_size : m.cnt.size = nb
  adr_size : m.adr.size = nb
  fwd_size : m.fwd.size = keys.length
  inv_size : m.inv.size = keys.length
  /-- every key is below the number of buckets (recorded from the precondition; it makes the blocks
      `[adr k, adr k + cnt k)`, `k < nb`, together with the unconstrained tail a partition of `[0,n)`) -/
  key_lt : ∀ i (hi : i < keys.length), keys[i] < (nb : Int)
  /-- island sizes -/
  cnt_eq : ∀ k (h : k < m.cnt.size), m.cnt[k] = keys.count (k : Int)
  /-- block addresses are the exclusive prefix sums: number of objects with a key in [0,k) -/
  adr_eq : ∀ k (h : k < m.adr.size), m.adr[k] = keys.countP (fun x => decide (0 ≤ x ∧ x < (k : Int)))
  /-- forward then inverse -/
  inv_fwd : ∀ i (h : i < m.fwd.size), ∃ h' : m.fwd[i] < m.inv.size, m.inv[m.fwd[i]] = i
  /-- inverse then forward (so both are permutations of [0,n) and mutually inverse) -/
  fwd_inv : ∀ x (h : x < m.inv.size), ∃ h' : m.inv[x] < m.fwd.size, m.fwd[m.inv[x]] = x
  /-- object i with key k ≥ 0 lands in the block [adr k, adr k + cnt k) -/
  block : ∀ i (hi : i < keys.length) (k : Nat), keys[i] = (k : Int) →
            ∀ (hk : k < m.adr.size) (hk' : k < m.cnt.size) (hf : i < m.fwd.size),
            m.adr[k] ≤ m.fwd[i] ∧ m.fwd[i] < m.adr[k] + m.cnt[k]
  /-- objects with a negative key land behind all constrained objects -/
  block_neg : ∀ i (hi : i < keys.length), keys[i] < 0 → ∀ (hf : i < m.fwd.size), nConstrained keys ≤ m.fwd[i]
  /-- stable: inside one block (same key) the original order is kept -/
  stable : ∀ i j (hi : i < m.fwd.size) (hj : j < m.fwd.size) (hi' : i < keys.length) (hj' : j < keys.length),
            i < j → keys[i] = keys[j] → m.fwd[i] < m.fwd[j]

/-- `MapsSpec` follows from the characterisation of `fwd` as the stable rank and `inv` as its inverse. -/
theorem mapsSpec_of_rank (keys : List Int) (nb : Nat) (m : Maps)
    (hkl : ∀ i (hi : i < keys.length), keys[i] < (nb : Int))
    (hcs : m.cnt.size = nb) (has : m.adr.size = nb)
    (hfs : m.fwd.size = keys.length) (his : m.inv.size = keys.length)
    (hcnt : ∀ k (h : k < m.cnt.size), m.cnt[k] = keys.count (k : Int))
    (hadr : ∀ k (h : k < m.adr.size), m.adr[k] = adrSpec keys k)
    (hf : ∀ j (h : j < m.fwd.size) (hj : j < keys.length), m.fwd[j] = rankOf keys keys[j] j)
    (hi : ∀ j (hj : j < keys.length) (h : rankOf keys keys[j] j < m.inv.size), m.inv[rankOf keys keys[j] j] = j) :
    MapsSpec keys nb m where
  cnt_size := hcs
  adr_size := has
  fwd_size := hfs
  inv_size := his
  key_lt := hkl
  cnt_eq := hcnt
  adr_eq := hadr
  inv_fwd := by
    intro i h
    have hi' : i < keys.length := by omega
    have hr := rankOf_lt keys hi'
    have e := hf i h hi'
    refine ⟨by omega, ?_⟩
    simp only [e]
    exact hi i hi' (by omega)
  fwd_inv := by
    intro x h
    obtain ⟨j, hj, hjx⟩ := rankOf_surj keys x (by omega)
    subst hjx
    have e := hi j hj h
    refine ⟨by omega, ?_⟩
    simp only [e]
    exact hf j (by omega) hj
  block := by
    intro i hi' k hk hka hkc hfi
    rw [hf i hfi hi', hadr k hka, hcnt k hkc]
    exact rankOf_block keys hi' k hk
  block_neg := by
    intro i hi' hk hfi
    rw [hf i hfi hi']
    exact (rankOf_neg keys hi' hk).1
  stable := by
    intro i j hi1 hj1 hi' hj' hij hk
    rw [hf i hi1 hi', hf j hj1 hj']
    exact rankOf_stable keys hij hi' hj' (Or.inl hk)

theorem blockEnd_spec (keys : List Int) (nb : Nat) (cnt adr : Array Nat) (base : Option Nat) (hnb : 0 < nb)
    (hkeys : ∀ k ∈ keys, k < (nb : Int))
    (hbase : ∀ b, base = some b → b = nConstrained keys)
    (hcs : cnt.size = nb) (has : adr.size = nb)
    (hcnt : ∀ k (h : k < cnt.size), cnt[k] = keys.count (k : Int))
    (hadr : ∀ k (h : k < adr.size), adr[k] = adrSpec keys k) :
    blockEnd adr cnt nb base = some (nConstrained keys) := by
  unfold blockEnd
  cases base with
  | some b => simp [hbase b rfl]
  | none =>
    have h1 : nb - 1 < adr.size := by omega
    have h2 : nb - 1 < cnt.size := by omega
    simp only [Array.getElem?_eq_getElem h1, Array.getElem?_eq_getElem h2, hadr _ h1, hcnt _ h2]
    rw [← adrSpec_succ, show nb - 1 + 1 = nb by omega, adrSpec_eq_nConstrained keys nb hkeys]

theorem buildMaps_spec (guard : Bool) (keys : List Int) (nb : Nat) (base : Option Nat)
    (hnb : 0 < nb)
    (hkeys : ∀ k ∈ keys, k < (nb : Int) ∧ (guard = false → 0 ≤ k))
    (hbase : ∀ b, base = some b → b = nConstrained keys) :
    ∃ m, buildMaps guard keys nb base = some m ∧ MapsSpec keys nb m := by
  obtain ⟨cnt, hc, hcs, hcnt⟩ := countKeys_spec guard keys nb hkeys
  have has : (cumsum cnt).size = nb := by rw [cumsum_size, hcs]
  have hadr := cumsum_spec keys cnt hcnt
  have hbe := blockEnd_spec keys nb cnt (cumsum cnt) base hnb (fun k hk => (hkeys k hk).1) hbase hcs has hcnt hadr
  obtain ⟨s, hs, I⟩ := place_spec guard keys nb (cumsum cnt) hkeys has hadr
  have hcnt2 : ∀ b, b < nb → s.cnt2[b]? = some (keys.count (b : Int)) := by
    intro b hb
    have := I.cnt2_eq b hb
    rwa [List.take_length] at this
  have hneg2 : s.cnt2[nb]? = some (nNeg keys) := by
    have := I.cnt2_neg
    rwa [List.take_length] at this
  -- miscount checks
  have hx1 : s.cnt2.extract 0 nb = cnt := by
    apply Array.ext
    · simp [I.cnt2_size, hcs]
    · intro k h1 h2
      have hk : k < nb := by omega
      have := hcnt2 k hk
      rw [Array.getElem_extract]
      rw [Array.getElem?_eq_getElem (by rw [I.cnt2_size]; omega)] at this
      simp only [Nat.zero_add]
      rw [hcnt k h2]
      simpa using this
  have hn := nConstrained_add_nNeg keys
  have hx2 : s.cnt2[nb]? = some (keys.length - nConstrained keys) := by
    rw [hneg2]; congr 1; omega
  have hx3 : ¬ keys.length < nConstrained keys := by omega
  -- every inverse entry has been written
  have hall : ∀ x ∈ s.inv.toList, ∃ v, x = some v := by
    intro x hx
    obtain ⟨p, hp, rfl⟩ := List.getElem_of_mem hx
    have hp' : p < keys.length := by simpa [I.inv_size] using hp
    obtain ⟨j, hj, hjp⟩ := rankOf_surj keys p hp'
    have := I.inv_fwd j hj hj
    rw [hjp, Array.getElem?_eq_getElem (by simpa using hp)] at this
    exact ⟨j, by simpa using this⟩
  obtain ⟨r, hr, hr'⟩ := mapM_id_some _ hall
  have hrl : r.length = keys.length := by
    have := congrArg List.length hr'
    simpa [I.inv_size] using this
  refine ⟨{ cnt := cnt, adr := cumsum cnt, fwd := s.fwd, inv := r.toArray }, ?_, ?_⟩
  · unfold buildMaps
    rw [if_neg (by omega)]
    simp only [hc, hbe, hs, hx1, hx2, hr]
    simp [hx3]
  · apply mapsSpec_of_rank keys nb _ (fun i hi => (hkeys _ (List.getElem_mem hi)).1) hcs has I.fwd_size (by simpa using hrl) hcnt hadr
    · intro j h hj
      have := I.fwd_eq j hj hj
      rw [Array.getElem?_eq_getElem h] at this
      simpa using this
    · intro j hj h
      have h1 := I.inv_fwd j hj hj
      have h2 : s.inv[rankOf keys keys[j] j]? = (r[rankOf keys keys[j] j]?).map some := by
        rw [← Array.getElem?_toList, ← hr', List.getElem?_map]
      simp only [List.size_toArray] at h
      rw [h2, List.getElem?_eq_getElem h] at h1
      simpa using h1

/-- Positions of block `k` hold exactly objects of island `k`. -/
theorem MapsSpec.inv_block {keys nb m} (s : MapsSpec keys nb m) (k : Nat) (hk : k < m.adr.size)
    (hk' : k < m.cnt.size) (x : Nat)
    (hx : m.adr[k] ≤ x) (hx' : x < m.adr[k] + m.cnt[k]) (hx'' : x < m.inv.size) :
    ∃ h : m.inv[x] < keys.length, keys[m.inv[x]] = (k : Int) := by
  obtain ⟨hj, hfx⟩ := s.fwd_inv x hx''
  have hj' : m.inv[x] < keys.length := by have := s.fwd_size; omega
  refine ⟨hj', ?_⟩
  have ha : m.adr[k] = adrSpec keys k := s.adr_eq k hk
  have hc := s.cnt_eq k hk'
  rw [ha, hc, ← adrSpec_succ] at hx'
  rw [ha] at hx
  have hlt := s.key_lt _ hj'
  have has := s.adr_size
  have hcs := s.cnt_size
  by_cases h0 : 0 ≤ keys[m.inv[x]]
  · have hkey : keys[m.inv[x]] = (keys[m.inv[x]].toNat : Int) := by omega
    have hb := s.block _ hj' _ hkey (by omega) (by omega) hj
    have ha' : m.adr[keys[m.inv[x]].toNat]'(by omega) = adrSpec keys keys[m.inv[x]].toNat := s.adr_eq _ (by omega)
    have hc' := s.cnt_eq keys[m.inv[x]].toNat (by omega)
    rw [ha', hc', ← adrSpec_succ, hfx] at hb
    rcases Nat.lt_trichotomy keys[m.inv[x]].toNat k with hlt' | heq | hgt
    · have := adrSpec_mono keys (show keys[m.inv[x]].toNat + 1 ≤ k by omega)
      omega
    · omega
    · have := adrSpec_mono keys (show k + 1 ≤ keys[m.inv[x]].toNat by omega)
      omega
  · have hb := s.block_neg _ hj' (by omega) hj
    rw [hfx] at hb
    have := adrSpec_le_nConstrained keys (k + 1)
    omega

/-! ### non-vacuity -/

/-- a concrete run: 4 objects, 2 islands, object 1 unconstrained -/
example : (buildMaps true [1, -1, 0, 1] 2 (some 3)).map
      (fun m => (m.cnt.toList, m.adr.toList, m.fwd.toList, m.inv.toList))
    = some ([1, 2], [0, 1], [1, 3, 0, 2], [2, 0, 3, 1]) := by decide +kernel

/-- the hypotheses of `buildMaps_spec` hold for that instance -/
example : 0 < 2 ∧ (∀ k ∈ [1, -1, 0, 1], k < ((2 : Nat) : Int) ∧ (true = false → 0 ≤ k)) ∧
    (∀ b, some 3 = some b → b = nConstrained [1, -1, 0, 1]) :=
  ⟨by decide, by decide, by intro b h; cases h; decide⟩

/-- same instance without a given base (trees: the base is computed from the last block) -/
example : (buildMaps true [1, -1, 0, 1] 2 none).map
      (fun m => (m.cnt.toList, m.adr.toList, m.fwd.toList, m.inv.toList))
    = some ([1, 2], [0, 1], [1, 3, 0, 2], [2, 0, 3, 1]) := by decide +kernel

/-- a wrong base is rejected by the miscount check (so `hbase` is necessary) -/
example : buildMaps true [1, -1, 0, 1] 2 (some 2) = none := by decide +kernel

/-- the general theorem instantiated at the concrete run -/
example : ∃ m, buildMaps true [1, -1, 0, 1] 2 (some 3) = some m ∧ MapsSpec [1, -1, 0, 1] 2 m :=
  buildMaps_spec true [1, -1, 0, 1] 2 (some 3) (by decide) (by decide) (by intro b h; cases h; decide)

end MjProof.Island
