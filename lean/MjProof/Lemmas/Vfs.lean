import MjProof.Model.Vfs
/-
Abstract specification of the VFS (`Name → Option Bytes`, the names being the keys the API computes
from its arguments) and the lemmas that connect the association-list model to it.
-/
namespace MjProof.Vfs

/-! ## the table as a finite map -/

theorem Tbl.get_nil (k : Str) : Tbl.get [] k = none := rfl

theorem Tbl.get_insert (t : Tbl) (k k' : Str) (b : Bytes) :
    (t.insert k b).get k' = (t.get k').or (if k' = k then some b else none) := by
  unfold Tbl.insert Tbl.get
  rw [List.lookup_append]
  congr 1
  by_cases h : k' = k
  · subst h; simp
  · have : (k' == k) = false := by simpa using h
    simp [List.lookup_cons, this, h]

theorem Tbl.get_erase (t : Tbl) (k k' : Str) :
    (t.erase k).get k' = if k' = k then none else t.get k' := by
  unfold Tbl.erase Tbl.get
  induction t with
  | nil => simp
  | cons e t ih =>
    obtain ⟨a, b⟩ := e
    by_cases ha : a = k
    · subst ha
      have : List.filter (fun e : Str × Bytes => e.1 != a) ((a, b) :: t) =
          List.filter (fun e : Str × Bytes => e.1 != a) t := by simp
      rw [this, ih]
      by_cases hk : k' = a
      · simp [hk]
      · have : (k' == a) = false := by simpa using hk
        simp [hk, List.lookup_cons, this]
    · have hf : List.filter (fun e : Str × Bytes => e.1 != k) ((a, b) :: t) =
          (a, b) :: List.filter (fun e : Str × Bytes => e.1 != k) t := by simp [ha]
      rw [hf, List.lookup_cons, List.lookup_cons, ih]
      by_cases hk : k' = k
      · subst hk
        have : (k' == a) = false := by simpa using (fun h : k' = a => ha h.symm)
        simp [this]
      · simp [hk]

/-! ## abstract state and its operations -/

/-- The abstract VFS: a partial map from (normalised) names to contents. -/
abbrev Abs := Str → Option Bytes

def Abs.empty : Abs := fun _ => none
def Abs.set (m : Abs) (k : Str) (v : Option Bytes) : Abs := fun k' => if k' = k then v else m k'

/-- abstraction function. -/
def abs (t : Tbl) : Abs := t.get

theorem abs_nil : abs [] = Abs.empty := rfl

theorem abs_insert (t : Tbl) (k : Str) (b : Bytes) (h : t.get k = none) :
    abs (t.insert k b) = (abs t).set k (some b) := by
  funext k'
  simp only [abs, Abs.set, Tbl.get_insert]
  by_cases hk : k' = k
  · subst hk; simp [h]
  · simp [hk]

theorem abs_erase (t : Tbl) (k : Str) : abs (t.erase k) = (abs t).set k none := by
  funext k'
  simp only [abs, Abs.set, Tbl.get_erase]

/-- What one API call does to the abstract map. -/
inductive Effect
  | nop
  | ins (k : Str) (b : Bytes)
  | rem (k : Str)
  | clear
  deriving DecidableEq, Repr

def Effect.apply (m : Abs) : Effect → Abs
  | .nop => m
  | .ins k b => m.set k (some b)
  | .rem k => m.set k none
  | .clear => Abs.empty

/-- insert-if-absent under key `k`. -/
def addEff (m : Abs) (k : Str) (b : Bytes) : Effect := if (m k).isSome then .nop else .ins k b
def addCode (m : Abs) (k : Str) : Int := if (m k).isSome then 2 else 0

/-- The name (key) and contents an add operation is about; `none` for other ops (and for an
    `addFile` whose disk read is not modelled). -/
def addTarget (e : Env) : Op → Option (Str × Bytes)
  | .addBuf n b => some (fp1 n, b)
  | .addFile d f => (e.readFile (fp2 d f)).map (fun b => (fileKey d f, b))
  | _ => none

/-- The key a delete operation removes in state `m`: the normalised name if present, else the
    lower-cased basename if present, else nothing. -/
def delTarget (m : Abs) : Op → Option Str
  | .del (some n) =>
    if (m (fp1 n)).isSome then some (fp1 n)
    else if (m (delKey2 n)).isSome then some (delKey2 n)
    else none
  | _ => none

/-- Specification, state part: the effect of an operation on the abstract map. -/
def specEffect (e : Env) (m : Abs) (op : Op) : Effect :=
  match op with
  | .reset => .clear
  | .addBuf _ _ | .addFile _ _ =>
    match addTarget e op with
    | some (k, b) => addEff m k b
    | none => .nop
  | .del _ =>
    match delTarget m op with
    | some k => .rem k
    | none => .nop
  | _ => .nop

def specStep (e : Env) (m : Abs) (op : Op) : Abs := (specEffect e m op).apply m

def specRun (e : Env) : Abs → List Op → Abs
  | m, [] => m
  | m, op :: ops => specRun e (specStep e m op) ops

/-- Specification, output part: the results the property allows for `op` in abstract state `m`.
    Everything except the read of an *absent* name is determined. -/
def specOut (e : Env) (m : Abs) : Op → Out → Prop
  | .reset, o => o = .ok
  | .addBuf n _, o => o = .code (addCode m (fp1 n))
  | .addFile d f, o =>
    match e.readFile (fp2 d f) with
    | some _ => o = .code (addCode m (fileKey d f))
    | none => o = .unmodelled
  | .del n, o => o = .code (if (delTarget m (.del n)).isSome then 0 else -1)
  | .has none, o => o = .code 0
  | .has (some n), o => o = .code (if (m (fp1 n)).isSome then 1 else 0)
  | .hasFile _ none, o => o = .code 0
  | .hasFile d (some f), o => o = .code (if (m (fileKey d f)).isSome then 1 else 0)
  | .openRead d n, o => ∀ b, m (fp2 d n) = some b → o = .opened [b]

/-- A trace (operations with their observed results) is allowed by the specification from `m`. -/
def Sat (e : Env) : Abs → List Op → List Out → Prop
  | _, [], [] => True
  | m, op :: ops, o :: os => specOut e m op o ∧ Sat e (specStep e m op) ops os
  | _, _, _ => False

/-! ## one concrete step against the specification -/

theorem has_eq (t : Tbl) (k : Str) : t.has k = (abs t k).isSome := rfl

theorem mount_abs (t : Tbl) (k : Str) (b : Bytes) :
    (mount t k b).1 = addCode (abs t) k ∧ abs (mount t k b).2 = (addEff (abs t) k b).apply (abs t) := by
  unfold mount addCode addEff
  rw [has_eq]
  cases h : (abs t k).isSome
  · have hn : t.get k = none := by simpa [abs] using h
    simp [Effect.apply, abs_insert t k b hn]
  · simp [Effect.apply]

theorem unmount_abs (t : Tbl) (k : Str) :
    (unmount t k).1 = (if (abs t k).isSome then 0 else -1) ∧
    abs (unmount t k).2 = (if (abs t k).isSome then (abs t).set k none else abs t) := by
  unfold unmount
  rw [has_eq]
  cases h : (abs t k).isSome <;> simp [abs_erase]

theorem deleteFile_abs (t : Tbl) (n : Option Str) :
    (deleteFile t n).1 = (if (delTarget (abs t) (.del n)).isSome then 0 else -1) ∧
    abs (deleteFile t n).2 = (specEffect ({} : Env) (abs t) (.del n)).apply (abs t) := by
  cases n with
  | none => simp [deleteFile, delTarget, specEffect, Effect.apply]
  | some n =>
    obtain ⟨h1c, h1s⟩ := unmount_abs t (fp1 n)
    obtain ⟨h2c, h2s⟩ := unmount_abs t (delKey2 n)
    by_cases ha : (abs t (fp1 n)).isSome = true
    · simp [deleteFile, delTarget, specEffect, Effect.apply, h1c, h1s, ha]
    · by_cases hb : (abs t (delKey2 n)).isSome = true
      · simp [deleteFile, delTarget, specEffect, Effect.apply, h1c, h2c, h2s, ha, hb]
      · simp [deleteFile, delTarget, specEffect, Effect.apply, h1c, h2c, h2s, ha, hb]

/-- the first string looked up by `FindMount` is the full path (fixed variant: always;
    tree as found: only for a non-empty path). -/
theorem prefixCands_head (e : Env) (p : Str) (h : e.exactFirst = true ∨ p ≠ []) :
    ∃ r, prefixCands e p = p :: r := by
  unfold prefixCands prefixCandsExact prefixCandsLoop
  cases he : e.exactFirst
  · have hp : p ≠ [] := by
      cases h with
      | inl h => simp [he] at h
      | inr h => exact h
    have : (p == []) = false := by simpa using hp
    simp [this]
  · simp

/-- **Exact hit**: a name that is present is read back with exactly its contents, whatever else is
    mounted and whatever is on disk. -/
theorem openRead_present (e : Env) (t : Tbl) (d : Option Str) (n : Str) (b : Bytes)
    (hx : e.exactFirst = true ∨ fp2 d n ≠ []) (h : t.get (fp2 d n) = some b) :
    openRead e t d n = .opened [b] := by
  obtain ⟨r, hr⟩ := prefixCands_head e (fp2 d n) hx
  simp [openRead, findMount, hr, h]

/-- The operations on which a model variant is known to meet the specification: with the fixed
    variants every operation; for the tree as found, `has` needs an already normalised name and
    `openRead` a non-empty path. -/
def OpOK (e : Env) : Op → Prop
  | .has (some n) => e.normContains = true ∨ fp1 n = n
  | .openRead d n => e.exactFirst = true ∨ fp2 d n ≠ []
  | _ => True

instance (e : Env) (op : Op) : Decidable (OpOK e op) := by
  cases op with
  | has n => cases n <;> (unfold OpOK; infer_instance)
  | openRead d n => unfold OpOK; infer_instance
  | reset => unfold OpOK; infer_instance
  | addBuf n b => unfold OpOK; infer_instance
  | addFile d f => unfold OpOK; infer_instance
  | del n => unfold OpOK; infer_instance
  | hasFile d f => unfold OpOK; infer_instance

theorem code_one_iff (x : Option Bytes) :
    Out.code (if x.isSome = true then 1 else 0) = Out.code 1 ↔ ∃ b, x = some b := by
  cases x <;> simp

theorem OpOK_fixed (disk : List (Str × DiskEntry)) (op : Op) : OpOK (Env.fixed disk) op := by
  cases op with
  | has n => cases n <;> simp [OpOK, Env.fixed]
  | openRead d n => simp [OpOK, Env.fixed]
  | _ => trivial

theorem containsBuffer_eq (e : Env) (t : Tbl) (n : Str) (h : e.normContains = true ∨ fp1 n = n) :
    containsBuffer e t (some n) = t.has (fp1 n) := by
  unfold containsBuffer containsNorm containsRaw
  cases hn : e.normContains
  · cases h with
    | inl h => simp [hn] at h
    | inr h => simp [h]
  · simp

theorem step_spec (e : Env) (t : Tbl) (op : Op) (hop : OpOK e op) :
    specOut e (abs t) op (step e t op).1 ∧ abs (step e t op).2 = specStep e (abs t) op := by
  cases op with
  | reset => simp [step, specOut, specStep, specEffect, Effect.apply, abs_nil]
  | addBuf n b =>
    have := mount_abs t (fp1 n) b
    simp [step, specOut, specStep, specEffect, addTarget, this.1, this.2]
  | addFile d f =>
    cases hr : e.readFile (fp2 d f) with
    | none => simp [step, specOut, specStep, specEffect, addTarget, hr, Effect.apply]
    | some b =>
      have := mount_abs t (fileKey d f) b
      simp [step, specOut, specStep, specEffect, addTarget, hr, this.1, this.2]
  | del n =>
    have := deleteFile_abs t n
    refine ⟨by simp [step, specOut, this.1], ?_⟩
    simp only [step, specStep, this.2]
    cases n <;> rfl
  | has n =>
    cases n with
    | none =>
      refine ⟨?_, rfl⟩
      simp [step, specOut, containsBuffer, containsNorm, containsRaw, b2i]
    | some n =>
      refine ⟨?_, rfl⟩
      simp only [step, specOut, containsBuffer_eq e t n hop, b2i, has_eq]
  | hasFile d f =>
    cases f with
    | none => simp [step, specOut, specStep, specEffect, Effect.apply, containsFile, b2i]
    | some f =>
      exact ⟨rfl, rfl⟩
  | openRead d n =>
    refine ⟨?_, by simp [step, specStep, specEffect, Effect.apply]⟩
    intro b hb
    exact openRead_present e t d n b hop hb

/-- The state part of the refinement holds for every model variant and every operation: the variant
    switches only change what `has` / `openRead` *answer*, never the table. -/
theorem step_state (e : Env) (t : Tbl) (op : Op) : abs (step e t op).2 = specStep e (abs t) op := by
  cases op with
  | reset => exact (step_spec e t .reset trivial).2
  | addBuf n b => exact (step_spec e t (.addBuf n b) trivial).2
  | addFile d f => exact (step_spec e t (.addFile d f) trivial).2
  | del n => exact (step_spec e t (.del n) trivial).2
  | hasFile d f => exact (step_spec e t (.hasFile d f) trivial).2
  | has n => simp [step, specStep, specEffect, Effect.apply]
  | openRead d n => simp [step, specStep, specEffect, Effect.apply]

/-! ## histories on the abstract machine -/

theorem specRun_append (e : Env) (m : Abs) (a b : List Op) :
    specRun e m (a ++ b) = specRun e (specRun e m a) b := by
  induction a generalizing m with
  | nil => rfl
  | cons op a ih => simp [specRun, ih]

/-- the operation removes key `k` when executed in state `m` (a successful delete that targets `k`,
    or a reset). -/
def Removes (e : Env) (m : Abs) (op : Op) (k : Str) : Prop :=
  specEffect e m op = .rem k ∨ specEffect e m op = .clear

/-- the operation inserts `k ↦ b` when executed in state `m` (an add whose key is `k` and that
    returns 0). -/
def Inserts (e : Env) (m : Abs) (op : Op) (k : Str) (b : Bytes) : Prop :=
  specEffect e m op = .ins k b

theorem specEffect_ins_iff (e : Env) (m : Abs) (op : Op) (k : Str) (b : Bytes) :
    Inserts e m op k b ↔ addTarget e op = some (k, b) ∧ m k = none := by
  unfold Inserts
  cases op with
  | addBuf n c =>
    simp only [specEffect, addTarget, addEff]
    cases h : (m (fp1 n)).isSome
    · have hn : m (fp1 n) = none := by simpa using h
      simp only [Bool.false_eq_true, if_false, Effect.ins.injEq, Option.some.injEq, Prod.mk.injEq]
      constructor
      · rintro ⟨rfl, rfl⟩; exact ⟨⟨rfl, rfl⟩, hn⟩
      · rintro ⟨⟨rfl, rfl⟩, _⟩; exact ⟨rfl, rfl⟩
    · simp only [if_true, Option.some.injEq, Prod.mk.injEq]
      constructor
      · intro h'; cases h'
      · rintro ⟨⟨rfl, rfl⟩, h'⟩; simp [h'] at h
  | addFile d f =>
    simp only [specEffect, addTarget, addEff]
    cases hr : e.readFile (fp2 d f) with
    | none => simp
    | some c =>
      simp only [Option.map_some]
      cases h : (m (fileKey d f)).isSome
      · have hn : m (fileKey d f) = none := by simpa using h
        simp only [Bool.false_eq_true, if_false, Effect.ins.injEq, Option.some.injEq, Prod.mk.injEq]
        constructor
        · rintro ⟨rfl, rfl⟩; exact ⟨⟨rfl, rfl⟩, hn⟩
        · rintro ⟨⟨rfl, rfl⟩, _⟩; exact ⟨rfl, rfl⟩
      · simp only [if_true, Option.some.injEq, Prod.mk.injEq]
        constructor
        · intro h'; cases h'
        · rintro ⟨⟨rfl, rfl⟩, h'⟩; simp [h'] at h
  | reset => simp [specEffect, addTarget]
  | del n =>
    simp only [specEffect, addTarget]
    cases delTarget m (.del n) <;> simp
  | has n => simp [specEffect, addTarget]
  | hasFile d f => simp [specEffect, addTarget]
  | openRead d n => simp [specEffect, addTarget]

/-- one step, seen from one key. -/
theorem specStep_key (e : Env) (m : Abs) (op : Op) (k : Str) (v : Option Bytes) :
    specStep e m op k = v ↔
      (∃ b, v = some b ∧ Inserts e m op k b) ∨ (v = none ∧ Removes e m op k) ∨
      (m k = v ∧ (∀ b, ¬ Inserts e m op k b) ∧ ¬ Removes e m op k) := by
  unfold specStep Inserts Removes
  cases h : specEffect e m op with
  | nop => simp [Effect.apply]
  | clear => simp [Effect.apply, Abs.empty, eq_comm]
  | ins k' b' =>
    by_cases hk : k = k'
    · subst hk; simp [Effect.apply, Abs.set, eq_comm]
    · have hk' : ¬ k' = k := fun h => hk h.symm
      simp [Effect.apply, Abs.set, hk, hk']
  | rem k' =>
    by_cases hk : k = k'
    · subst hk; simp [Effect.apply, Abs.set, eq_comm]
    · have hk' : ¬ k' = k := fun h => hk h.symm
      simp [Effect.apply, Abs.set, hk, hk']

/-- no operation of `post`, executed from state `m`, removes `k`. -/
def NoRemoval (e : Env) (m : Abs) (post : List Op) (k : Str) : Prop :=
  ∀ p1 op p2, post = p1 ++ op :: p2 → ¬ Removes e (specRun e m p1) op k

theorem NoRemoval_cons (e : Env) (m : Abs) (op : Op) (post : List Op) (k : Str) :
    NoRemoval e m (op :: post) k ↔ ¬ Removes e m op k ∧ NoRemoval e (specStep e m op) post k := by
  constructor
  · intro h
    refine ⟨h [] op post rfl, ?_⟩
    intro p1 o p2 hp
    have := h (op :: p1) o p2 (by simp [hp])
    simpa [specRun] using this
  · rintro ⟨h0, h⟩ p1 o p2 hp
    cases p1 with
    | nil =>
      simp only [List.nil_append, List.cons.injEq] at hp
      obtain ⟨rfl, rfl⟩ := hp
      simpa [specRun] using h0
    | cons x p1 =>
      simp only [List.cons_append, List.cons.injEq] at hp
      obtain ⟨rfl, rfl⟩ := hp
      simpa [specRun] using h p1 o p2 rfl

/-- a value survives as long as nothing removes or (impossible while present) re-inserts it. -/
theorem specRun_keep (e : Env) (m : Abs) (post : List Op) (k : Str) (b : Bytes)
    (hm : m k = some b) (hno : NoRemoval e m post k) : specRun e m post k = some b := by
  induction post generalizing m with
  | nil => simpa [specRun] using hm
  | cons op post ih =>
    rw [NoRemoval_cons] at hno
    simp only [specRun]
    apply ih _ _ hno.2
    rw [specStep_key]
    refine Or.inr (Or.inr ⟨hm, ?_, hno.1⟩)
    intro b' hi
    rw [specEffect_ins_iff] at hi
    simp [hm] at hi

/-- **History characterisation** (general start state): `k ↦ b` holds at the end iff either it held
    at the start and nothing removed it, or some operation inserted exactly `k ↦ b` and nothing
    removed it since. -/
theorem specRun_key_iff (e : Env) (m : Abs) (ops : List Op) (k : Str) (b : Bytes) :
    specRun e m ops k = some b ↔
      (m k = some b ∧ NoRemoval e m ops k) ∨
      ∃ pre op post, ops = pre ++ op :: post ∧ Inserts e (specRun e m pre) op k b ∧
        NoRemoval e (specRun e m (pre ++ [op])) post k := by
  induction ops generalizing m with
  | nil =>
    simp only [specRun]
    constructor
    · intro h; exact Or.inl ⟨h, by intro p1 op p2 hp; simp at hp⟩
    · rintro (⟨h, _⟩ | ⟨pre, op, post, hp, _⟩)
      · exact h
      · simp at hp
  | cons op ops ih =>
    simp only [specRun]
    rw [ih]
    constructor
    · rintro (⟨h, hno⟩ | ⟨pre, o, post, hp, hi, hno⟩)
      · rw [specStep_key] at h
        rcases h with ⟨b', hb, hi⟩ | ⟨hb, _⟩ | ⟨hm, _, hnr⟩
        · cases hb
          exact Or.inr ⟨[], op, ops, rfl, by simpa [specRun] using hi, by simpa [specRun] using hno⟩
        · cases hb
        · exact Or.inl ⟨hm, (NoRemoval_cons e m op ops k).2 ⟨hnr, hno⟩⟩
      · refine Or.inr ⟨op :: pre, o, post, by simp [hp], by simpa [specRun] using hi, ?_⟩
        simpa [specRun] using hno
    · rintro (⟨hm, hno⟩ | ⟨pre, o, post, hp, hi, hno⟩)
      · rw [NoRemoval_cons] at hno
        refine Or.inl ⟨?_, hno.2⟩
        rw [specStep_key]
        refine Or.inr (Or.inr ⟨hm, ?_, hno.1⟩)
        intro b' hi
        rw [specEffect_ins_iff] at hi
        simp [hm] at hi
      · cases pre with
        | nil =>
          simp only [List.nil_append, List.cons.injEq] at hp
          obtain ⟨rfl, rfl⟩ := hp
          refine Or.inl ⟨?_, by simpa [specRun] using hno⟩
          rw [specStep_key]
          exact Or.inl ⟨b, rfl, by simpa [specRun] using hi⟩
        | cons x pre =>
          simp only [List.cons_append, List.cons.injEq] at hp
          obtain ⟨rfl, rfl⟩ := hp
          exact Or.inr ⟨pre, o, post, rfl, by simpa [specRun] using hi, by simpa [specRun] using hno⟩

/-! ## refinement of whole histories -/

theorem run_refines (e : Env) (t : Tbl) (ops : List Op) (hops : ∀ op ∈ ops, OpOK e op) :
    Sat e (abs t) ops (run e t ops).1 ∧ abs (run e t ops).2 = specRun e (abs t) ops := by
  induction ops generalizing t with
  | nil => simp [run, Sat, specRun]
  | cons op ops ih =>
    have hs := step_spec e t op (hops op (by simp))
    have hr := ih (step e t op).2 (fun o ho => hops o (by simp [ho]))
    rw [hs.2] at hr
    simp only [run, Sat, specRun]
    exact ⟨⟨hs.1, hr.1⟩, hr.2⟩

theorem run_state (e : Env) (t : Tbl) (ops : List Op) :
    abs (run e t ops).2 = specRun e (abs t) ops := by
  induction ops generalizing t with
  | nil => simp [run, specRun]
  | cons op ops ih =>
    simp only [run, specRun]
    rw [ih, step_state]

theorem run_outputs_length (e : Env) (t : Tbl) (ops : List Op) : (run e t ops).1.length = ops.length := by
  induction ops generalizing t with
  | nil => rfl
  | cons op ops ih => simp [run, ih]

theorem run_append (e : Env) (t : Tbl) (a b : List Op) :
    run e t (a ++ b) = ((run e t a).1 ++ (run e (run e t a).2 b).1, (run e (run e t a).2 b).2) := by
  induction a generalizing t with
  | nil => simp [run]
  | cons op a ih => simp [run, ih]

/-! ## the history notions in terms of observed return codes -/

/-- `op` is an add (buffer or file) whose key is `k` and contents `b`, and it returned 0 on table `t`. -/
def AddedOk (e : Env) (t : Tbl) (op : Op) (k : Str) (b : Bytes) : Prop :=
  addTarget e op = some (k, b) ∧ (step e t op).1 = .code 0

/-- `op`, executed on table `t`, is a reset, or a delete that returned 0 and removed the key `k`
    (the normalised name if that is present, otherwise the lower-cased basename). -/
def DeletedOk (e : Env) (t : Tbl) (op : Op) (k : Str) : Prop :=
  op = .reset ∨
  ∃ n, op = .del (some n) ∧ (step e t op).1 = .code 0 ∧ k = (if t.has (fp1 n) then fp1 n else delKey2 n)

theorem step_add_code (e : Env) (t : Tbl) (op : Op) (k : Str) (b : Bytes)
    (h : addTarget e op = some (k, b)) : (step e t op).1 = .code (addCode (abs t) k) := by
  cases op with
  | addBuf n c =>
    simp only [addTarget, Option.some.injEq, Prod.mk.injEq] at h
    obtain ⟨rfl, rfl⟩ := h
    simp [step, (mount_abs t (fp1 n) c).1]
  | addFile d f =>
    simp only [addTarget] at h
    cases hr : e.readFile (fp2 d f) with
    | none => simp [hr] at h
    | some c =>
      simp only [hr, Option.map_some, Option.some.injEq, Prod.mk.injEq] at h
      obtain ⟨rfl, rfl⟩ := h
      simp [step, hr, (mount_abs t (fileKey d f) c).1]
  | reset => simp [addTarget] at h
  | del n => simp [addTarget] at h
  | has n => simp [addTarget] at h
  | hasFile d f => simp [addTarget] at h
  | openRead d n => simp [addTarget] at h

theorem Inserts_iff_AddedOk (e : Env) (t : Tbl) (op : Op) (k : Str) (b : Bytes) :
    Inserts e (abs t) op k b ↔ AddedOk e t op k b := by
  rw [specEffect_ins_iff]
  unfold AddedOk
  constructor
  · rintro ⟨h, hk⟩
    refine ⟨h, ?_⟩
    rw [step_add_code e t op k b h]
    simp [addCode, hk]
  · rintro ⟨h, hc⟩
    refine ⟨h, ?_⟩
    rw [step_add_code e t op k b h] at hc
    unfold addCode at hc
    cases hs : (abs t k).isSome
    · simpa using hs
    · simp [hs] at hc

theorem Removes_iff_DeletedOk (e : Env) (t : Tbl) (op : Op) (k : Str) :
    Removes e (abs t) op k ↔ DeletedOk e t op k := by
  unfold Removes DeletedOk
  cases op with
  | reset => simp [specEffect]
  | addBuf n c =>
    simp only [specEffect, addTarget, addEff]
    cases (abs t (fp1 n)).isSome <;> simp
  | addFile d f =>
    simp only [specEffect, addTarget, addEff]
    cases e.readFile (fp2 d f) with
    | none => simp
    | some c =>
      simp only [Option.map_some]
      cases (abs t (fileKey d f)).isSome <;> simp
  | has n => simp [specEffect]
  | hasFile d f => simp [specEffect]
  | openRead d n => simp [specEffect]
  | del n =>
    cases n with
    | none => simp [specEffect, delTarget]
    | some n =>
      have hc := (deleteFile_abs t (some n)).1
      simp only [specEffect, delTarget, step, has_eq, hc]
      by_cases ha : (abs t (fp1 n)).isSome = true
      · simp [ha]
        exact eq_comm
      · by_cases hb : (abs t (delKey2 n)).isSome = true
        · simp [ha, hb]
          exact eq_comm
        · simp [ha, hb]

/-! ## FilePath: separators -/

/-- replace every back-slash by a forward slash. -/
def toSlash (c : Char) : Char := if c == '\\' then '/' else c

theorem isSep_toSlash (c : Char) : isSep (toSlash c) = isSep c := by
  unfold toSlash isSep
  by_cases h : c = '\\'
  · subst h; decide
  · have : (c == '\\') = false := by simpa using h
    simp [this]

theorem toSlash_of_not_sep (c : Char) (h : isSep c = false) : toSlash c = c := by
  unfold toSlash
  have : (c == '\\') = false := by
    unfold isSep at h
    simp at h
    simpa using h.2
  simp [this]

theorem reduceGo_map_toSlash (s : Str) (dirs : List Str) (cur : Str) :
    reduceGo (s.map toSlash) dirs cur = reduceGo s dirs cur := by
  induction s generalizing dirs cur with
  | nil => rfl
  | cons c cs ih =>
    simp only [List.map_cons, reduceGo, isSep_toSlash]
    cases h : isSep c
    · simp [ih, toSlash_of_not_sep c h]
    · simp [ih]

theorem find2_cons_cons (a b x y : Char) (r : Str) :
    find2 a b (x :: y :: r) = if (x == a && y == b) then some 0 else (find2 a b (y :: r)).map (· + 1) := by
  simp [find2]

theorem find2_cons_cons_none (a b x y : Char) (r : Str) :
    find2 a b (x :: y :: r) = none ↔ ¬ (x = a ∧ y = b) ∧ find2 a b (y :: r) = none := by
  rw [find2_cons_cons]
  by_cases h : x = a ∧ y = b
  · obtain ⟨rfl, rfl⟩ := h; simp
  · have : (x == a && y == b) = false := by
      simp only [Bool.and_eq_false_iff, beq_eq_false_iff_ne, ne_eq]
      by_cases hx : x = a
      · exact Or.inr (fun hy => h ⟨hx, hy⟩)
      · exact Or.inl hx
    simp [this, h]

theorem toSlash_eq_colon (x : Char) : toSlash x = ':' ↔ x = ':' := by
  unfold toSlash
  by_cases h : x = '\\'
  · subst h; decide
  · have : (x == '\\') = false := by simpa using h
    simp [this]

theorem toSlash_eq_slash (x : Char) : toSlash x = '/' ↔ x = '/' ∨ x = '\\' := by
  unfold toSlash
  by_cases h : x = '\\'
  · subst h; decide
  · have : (x == '\\') = false := by simpa using h
    simp [this, h]

theorem toSlash_ne_bslash (x : Char) : toSlash x ≠ '\\' := by
  unfold toSlash
  by_cases h : x = '\\'
  · subst h; decide
  · have : (x == '\\') = false := by simpa using h
    simp [this, h]

theorem find2_slash_map (s : Str) (h1 : find2 ':' '/' s = none) (h2 : find2 ':' '\\' s = none) :
    find2 ':' '/' (s.map toSlash) = none := by
  induction s with
  | nil => rfl
  | cons x t ih =>
    cases t with
    | nil => rfl
    | cons y r =>
      rw [find2_cons_cons_none] at h1 h2
      simp only [List.map_cons] at ih ⊢
      rw [find2_cons_cons_none]
      refine ⟨?_, ih h1.2 h2.2⟩
      rintro ⟨hx, hy⟩
      rw [toSlash_eq_colon] at hx
      rw [toSlash_eq_slash] at hy
      cases hy with
      | inl hy => exact h1.1 ⟨hx, hy⟩
      | inr hy => exact h2.1 ⟨hx, hy⟩

theorem find2_bslash_map (a : Char) (s : Str) : find2 a '\\' (s.map toSlash) = none := by
  induction s with
  | nil => rfl
  | cons x t ih =>
    cases t with
    | nil => rfl
    | cons y r =>
      simp only [List.map_cons] at ih ⊢
      rw [find2_cons_cons_none]
      exact ⟨fun h => toSlash_ne_bslash y h.2, ih⟩

theorem absPrefix_eq_nil_iff (s : Str) :
    absPrefix s = [] ↔ s = [] ∨ ((∃ c t, s = c :: t ∧ isSep c = false) ∧ find2 ':' '/' s = none ∧ find2 ':' '\\' s = none) := by
  cases s with
  | nil => simp [absPrefix]
  | cons c t =>
    simp only [absPrefix, reduceCtorEq, false_or]
    by_cases hc : (c == '\\' || c == '/') = true
    · have hs : isSep c = true := by
        unfold isSep; simp only [Bool.or_eq_true, beq_iff_eq] at hc ⊢; exact hc.symm
      simp [hc, hs]
    · have hs : isSep c = false := by
        unfold isSep
        simp only [Bool.or_eq_true, beq_iff_eq, not_or] at hc
        simp [hc.1, hc.2]
      simp only [hc]
      cases h1 : find2 ':' '/' (c :: t) with
      | some p => simp
      | none =>
        cases h2 : find2 ':' '\\' (c :: t) with
        | some p => simp
        | none => simp [hs]

theorem absPrefix_map_toSlash (s : Str) (h : absPrefix s = []) : absPrefix (s.map toSlash) = [] := by
  rw [absPrefix_eq_nil_iff] at h ⊢
  cases h with
  | inl h => subst h; exact Or.inl rfl
  | inr h =>
    obtain ⟨⟨c, t, rfl, hc⟩, h1, h2⟩ := h
    refine Or.inr ⟨⟨toSlash c, t.map toSlash, by simp, by rw [isSep_toSlash]; exact hc⟩, ?_, ?_⟩
    · exact find2_slash_map _ h1 h2
    · exact find2_bslash_map _ _

/-- **Separators do not matter** for names without an absolute prefix: replacing every back-slash by
    a forward slash does not change the normalised path. -/
theorem reduce_map_toSlash (s : Str) (h : absPrefix s = []) : reduce (s.map toSlash) = reduce s := by
  unfold reduce
  simp only [absPrefix_map_toSlash s h, h, List.length_nil, List.drop_zero, List.nil_append]
  rw [reduceGo_map_toSlash]

end MjProof.Vfs
