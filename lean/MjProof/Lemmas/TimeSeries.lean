import MjProof.Model.TimeSeries
import Mathlib.Algebra.Order.Field.Basic
import Mathlib.Tactic.Ring
import Mathlib.Tactic.Linarith
import Mathlib.Tactic.FieldSimp
/-
Helper lemmas for C48 (`MjProof/Props/C48.lean`) about the model `MjProof/Model/TimeSeries.lean`.

Part A is structural and holds for any carrier (no laws of arithmetic or order are used): interpolation
commutes with column selection, fancy-index assignment read back cell by cell, the group loop of
`apply_resample_and_delay` with the loops interchanged (row by row), validity of the dict grouping.
Part B is over a linearly ordered field: the bracket chosen by `searchsorted` + `clip`, the convex-combination
bounds of scipy's linear kernel.
-/
set_option linter.unusedSectionVars false
set_option linter.unusedSimpArgs false
set_option linter.unnecessarySeqFocus false

namespace MjProof.TimeSeries

/-! ## Part A: structure -/
section Structural
variable {α : Type} {m : Nat}

@[simp] theorem selectCols_length (cols : List (Fin m)) (l : List (Sample α m)) :
    (selectCols cols l).length = l.length := by simp [selectCols]

@[simp] theorem times_selectCols (cols : List (Fin m)) (l : List (Sample α m)) :
    times (selectCols cols l) = times l := by
  simp [times, selectCols, List.map_map, Function.comp_def]

@[simp] theorem selectCols_getElem (cols : List (Fin m)) (l : List (Sample α m)) (i : Nat)
    (h : i < (selectCols cols l).length) :
    (selectCols cols l)[i] = ⟨(l[i]'(by simpa using h)).t, selectRow cols (l[i]'(by simpa using h)).row⟩ := by
  simp [selectCols]

@[simp] theorem selectRow_getElem {β : Type} (cols : List (Fin m)) (r : Vector β m) (j : Nat) (hj : j < cols.length) :
    (selectRow cols r)[j] = r[cols[j]] := by
  simp [selectRow]

theorem searchLeft_selectCols [LT α] [DecidableLT α] (cols : List (Fin m)) (l : List (Sample α m)) (t : α) :
    searchLeft (selectCols cols l) t = searchLeft l t := by
  induction l with
  | nil => rfl
  | cons p l ih =>
    simp only [selectCols, List.map_cons, searchLeft] at ih ⊢
    rw [ih]

/-- interpolation is column-wise: interpolating the series restricted to `cols` gives the restriction of the
    interpolated row -/
theorem interpRow_selectCols [Add α] [Sub α] [Mul α] [Div α] [LT α] [DecidableLT α]
    (cols : List (Fin m)) (l : List (Sample α m)) (hl : 0 < l.length) (hl' : 0 < (selectCols cols l).length)
    (t : α) (j : Nat) (hj : j < cols.length) :
    (interpRow (selectCols cols l) hl' t)[j] = (interpRow l hl t)[cols[j]] := by
  unfold interpRow
  simp only [selectCols_length, searchLeft_selectCols, selectCols_getElem]
  split
  · simp
  · split
    · simp
    · simp

/-- the same for `interpolate` in either variant (the one-sample guard only looks at the length) -/
theorem interp_selectCols [Add α] [Sub α] [Mul α] [Div α] [LT α] [DecidableLT α] (hold : Bool)
    (cols : List (Fin m)) (l : List (Sample α m)) (hl : 0 < l.length) (hl' : 0 < (selectCols cols l).length)
    (t : α) (j : Nat) (hj : j < cols.length) :
    (interp hold (selectCols cols l) hl' t)[j] = (interp hold l hl t)[cols[j]] := by
  unfold interp
  simp only [selectCols_length]
  split
  · simp
  · exact interpRow_selectCols cols l hl hl' t j hj

/-! ### fancy-index assignment, read back cell by cell -/

theorem setCols_nil_left {β : Type} (src : List β) (dst : Vector β m) : setCols [] src dst = dst := by
  simp [setCols]

theorem setCols_cons {β : Type} (c : Fin m) (cols : List (Fin m)) (v : β) (src : List β) (dst : Vector β m) :
    setCols (c :: cols) (v :: src) dst = setCols cols src (dst.set c.val v c.isLt) := by
  simp [setCols]

/-- if the assigned values are a function `f` of the destination column, the result has `f c` in the
    assigned columns and the old value elsewhere (whatever the order and multiplicity of `cols`) -/
theorem setCols_getElem {β : Type} (f : Fin m → β) (cols : List (Fin m)) (src : List β) (dst : Vector β m)
    (hlen : src.length = cols.length)
    (hsrc : ∀ (j : Nat) (h1 : j < cols.length) (h2 : j < src.length), src[j] = f cols[j]) (c : Fin m) :
    (setCols cols src dst)[c] = if c ∈ cols then f c else dst[c] := by
  induction cols generalizing src dst with
  | nil => simp [setCols_nil_left]
  | cons c0 cols ih =>
    match src, hlen with
    | v :: src, hlen =>
      rw [setCols_cons, ih src _ (by simpa using hlen)
        (fun j h1 h2 => by
          have := hsrc (j + 1) (by simp only [List.length_cons]; omega) (by simp only [List.length_cons]; omega)
          rwa [List.getElem_cons_succ, List.getElem_cons_succ] at this)]
      have hv : v = f c0 := by
        have := hsrc 0 (by simp) (by simp)
        rwa [List.getElem_cons_zero, List.getElem_cons_zero] at this
      by_cases hc : c ∈ cols
      · simp [hc]
      · by_cases h0 : c = c0
        · subst h0; simp [hc, hv]
        · have : c0.val ≠ c.val := fun h => h0 (Fin.ext h.symm)
          simp [hc, h0, Vector.getElem_set_ne, this]

/-! ### the group loop of `apply_resample_and_delay`, row by row -/
section Groups
variable [Add α] [Sub α] [Mul α] [Div α] [LT α] [DecidableLT α]

/-- what one group does to one output row (query time `t`) -/
def stepRow (hold : Bool) (l : List (Sample α m)) (hl : 0 < l.length) (t : α) (o : Vector (Option α) m) (g : α × List (Fin m)) :
    Vector (Option α) m :=
  setCols g.2 ((interp hold (selectCols g.2 l) (by rw [selectCols_length]; exact hl) (t + g.1)).toList.map some) o

theorem zipWith_zipWith_left {γ : Type} (f : α → γ → γ) (g : α → γ → γ) (nt : List α) (out : List γ) :
    List.zipWith f nt (List.zipWith g nt out) = List.zipWith (fun t o => f t (g t o)) nt out := by
  induction nt generalizing out with
  | nil => simp
  | cons t nt ih => cases out with
    | nil => simp
    | cons o out => simp [ih]

theorem processGroup_eq (hold : Bool) (l : List (Sample α m)) (hl : 0 < l.length) (nt : List α)
    (out : List (Vector (Option α) m)) (g : α × List (Fin m)) :
    processGroup hold l hl nt out g = List.zipWith (fun t o => stepRow hold l hl t o g) nt out := by
  unfold processGroup resampleRows stepRow
  simp only [List.zipWith_map_right]
  induction nt generalizing out with
  | nil => simp
  | cons t nt ih => cases out with
    | nil => simp
    | cons o out => simp [ih]

theorem zipWith_snd_of_length {γ : Type} (nt : List α) (out : List γ) (h : out.length = nt.length) :
    List.zipWith (fun _ o => o) nt out = out := by
  induction nt generalizing out with
  | nil => cases out with
    | nil => rfl
    | cons o out => simp at h
  | cons t nt ih => cases out with
    | nil => simp at h
    | cons o out => simp [ih out (by simpa using h)]

theorem foldl_processGroup (hold : Bool) (l : List (Sample α m)) (hl : 0 < l.length) (nt : List α)
    (groups : List (α × List (Fin m))) (out : List (Vector (Option α) m)) (hlen : out.length = nt.length) :
    groups.foldl (processGroup hold l hl nt) out =
      List.zipWith (fun t o => groups.foldl (stepRow hold l hl t) o) nt out := by
  induction groups generalizing out with
  | nil =>
    simp only [List.foldl_nil]
    exact (zipWith_snd_of_length nt out hlen).symm
  | cons g gs ih =>
    simp only [List.foldl_cons]
    rw [ih _ (by rw [processGroup_eq]; simp [hlen]), processGroup_eq, zipWith_zipWith_left]

/-- loops interchanged: every output row is computed independently of the others -/
theorem resampleGroups_rows (hold : Bool) (l : List (Sample α m)) (hl : 0 < l.length) (nt : List α)
    (groups : List (α × List (Fin m))) :
    resampleGroups hold l hl nt groups =
      nt.map (fun t => groups.foldl (stepRow hold l hl t) (Vector.replicate m none)) := by
  unfold resampleGroups
  rw [foldl_processGroup _ _ _ _ _ _ (by simp)]
  generalize Vector.replicate m (none : Option α) = o0
  induction nt with
  | nil => simp
  | cons t nt ih => simp [List.replicate_succ, ih]

/-- a grouping is consistent with the per-column delays -/
def Consistent (delays : Vector α m) (groups : List (α × List (Fin m))) : Prop :=
  ∀ g ∈ groups, ∀ c ∈ g.2, g.1 = delays[c]

/-- a grouping covers every column -/
def Covers (groups : List (α × List (Fin m))) : Prop :=
  ∀ c : Fin m, ∃ g ∈ groups, c ∈ g.2

theorem stepRow_getElem (hold : Bool) (l : List (Sample α m)) (hl : 0 < l.length) (t : α) (o : Vector (Option α) m)
    (g : α × List (Fin m)) (c : Fin m) :
    (stepRow hold l hl t o g)[c] = if c ∈ g.2 then some ((interp hold l hl (t + g.1))[c]) else o[c] := by
  unfold stepRow
  apply setCols_getElem (fun c => some ((interp hold l hl (t + g.1))[c]))
  · simp
  · intro j h1 h2
    simp only [List.getElem_map, Vector.getElem_toList]
    rw [interp_selectCols hold g.2 l hl _ (t + g.1) j h1]

theorem foldl_stepRow_getElem (hold : Bool) (l : List (Sample α m)) (hl : 0 < l.length) (t : α) (delays : Vector α m)
    (groups : List (α × List (Fin m))) (hc : Consistent delays groups) (o : Vector (Option α) m) (c : Fin m) :
    (groups.foldl (stepRow hold l hl t) o)[c] =
      if ∃ g ∈ groups, c ∈ g.2 then some ((interp hold l hl (t + delays[c]))[c]) else o[c] := by
  induction groups generalizing o with
  | nil => simp
  | cons g gs ih =>
    have hc' : Consistent delays gs := fun g' hg' => hc g' (List.mem_cons_of_mem _ hg')
    rw [List.foldl_cons, ih hc', stepRow_getElem]
    by_cases h1 : ∃ g' ∈ gs, c ∈ g'.2
    · have : ∃ g' ∈ g :: gs, c ∈ g'.2 := by
        obtain ⟨g', hg', hcg⟩ := h1; exact ⟨g', List.mem_cons_of_mem _ hg', hcg⟩
      simp [h1, this]
    · by_cases h2 : c ∈ g.2
      · have : ∃ g' ∈ g :: gs, c ∈ g'.2 := ⟨g, List.mem_cons_self, h2⟩
        have hd : g.1 = delays[c] := hc g List.mem_cons_self c h2
        simp [h1, h2, this, hd]
      · have : ¬ ∃ g' ∈ g :: gs, c ∈ g'.2 := by
          rintro ⟨g', hg', hcg⟩
          rcases List.mem_cons.1 hg' with rfl | hg'
          · exact h2 hcg
          · exact h1 ⟨g', hg', hcg⟩
        simp [h1, h2, this]

/-- **The group loop computes the column-by-column result**, for any grouping that is consistent with the
    delays and covers all columns: cell `(r, c)` is the interpolation of the *single-column* series
    `data[:, c:c+1]` at `times[r] + delays[c]`. -/
theorem resampleGroups_spec' (hold : Bool) (l : List (Sample α m)) (hl : 0 < l.length) (nt : List α) (delays : Vector α m)
    (groups : List (α × List (Fin m))) (hc : Consistent delays groups) (hcov : Covers groups) :
    resampleGroups hold l hl nt groups =
      nt.map (fun t => Vector.ofFn fun c : Fin m =>
        some ((interp hold (selectCols [c] l) (by rw [selectCols_length]; exact hl) (t + delays[c]))[0])) := by
  rw [resampleGroups_rows]
  apply List.map_congr_left
  intro t _
  apply Vector.ext
  intro i hi
  have := foldl_stepRow_getElem hold l hl t delays groups hc (Vector.replicate m none) ⟨i, hi⟩
  simp only [Fin.getElem_fin] at this
  rw [this, if_pos (hcov ⟨i, hi⟩)]
  simp only [Vector.getElem_ofFn]
  rw [interp_selectCols hold [⟨i, hi⟩] l hl _ _ 0 (by simp)]
  simp

end Groups

/-! ### the dict grouping of the code is consistent and covers every column -/
section Grouping
variable [BEq α] [LawfulBEq α]

theorem insertCol_consistent (delays : Vector α m) (g : List (α × List (Fin m))) (c : Fin m)
    (h : Consistent delays g) : Consistent delays (insertCol g delays[c] c) := by
  induction g with
  | nil =>
    intro g' hg' c' hc'
    simp only [insertCol, List.mem_singleton] at hg'
    subst hg'
    simp only [List.mem_singleton] at hc'
    subst hc'; rfl
  | cons p g ih =>
    obtain ⟨d', cs⟩ := p
    have hg : Consistent delays g := fun g' hg' => h g' (List.mem_cons_of_mem _ hg')
    unfold insertCol
    split
    · rename_i heq
      have hd : d' = delays[c] := by simpa using heq
      intro g' hg' c' hc'
      rcases List.mem_cons.1 hg' with rfl | hg'
      · rcases List.mem_append.1 hc' with hc' | hc'
        · exact h (d', cs) List.mem_cons_self c' hc'
        · simp only [List.mem_singleton] at hc'
          subst hc'; exact hd
      · exact hg g' hg' c' hc'
    · intro g' hg' c' hc'
      rcases List.mem_cons.1 hg' with rfl | hg'
      · exact h (d', cs) List.mem_cons_self c' hc'
      · exact ih hg g' hg' c' hc'

theorem insertCol_mem (g : List (α × List (Fin m))) (d : α) (c : Fin m) :
    ∃ g' ∈ insertCol g d c, c ∈ g'.2 := by
  induction g with
  | nil => exact ⟨(d, [c]), by simp [insertCol], by simp⟩
  | cons p g ih =>
    obtain ⟨d', cs⟩ := p
    unfold insertCol
    split
    · exact ⟨(d', cs ++ [c]), List.mem_cons_self, by simp⟩
    · obtain ⟨g', hg', hc⟩ := ih
      exact ⟨g', List.mem_cons_of_mem _ hg', hc⟩

theorem insertCol_mono (g : List (α × List (Fin m))) (d : α) (c c' : Fin m)
    (h : ∃ g' ∈ g, c' ∈ g'.2) : ∃ g' ∈ insertCol g d c, c' ∈ g'.2 := by
  induction g with
  | nil => obtain ⟨g', hg', _⟩ := h; simp at hg'
  | cons p g ih =>
    obtain ⟨d', cs⟩ := p
    obtain ⟨g', hg', hc⟩ := h
    unfold insertCol
    split
    · rcases List.mem_cons.1 hg' with rfl | hg'
      · exact ⟨(d', cs ++ [c]), List.mem_cons_self, List.mem_append_left _ hc⟩
      · exact ⟨g', List.mem_cons_of_mem _ hg', hc⟩
    · rcases List.mem_cons.1 hg' with rfl | hg'
      · exact ⟨(d', cs), List.mem_cons_self, hc⟩
      · obtain ⟨g'', hg'', hc''⟩ := ih ⟨g', hg', hc⟩
        exact ⟨g'', List.mem_cons_of_mem _ hg'', hc''⟩

theorem foldl_insertCol (delays : Vector α m) (cs : List (Fin m)) (g : List (α × List (Fin m)))
    (h : Consistent delays g) :
    Consistent delays (cs.foldl (fun g c => insertCol g delays[c] c) g) ∧
    (∀ c', (c' ∈ cs ∨ ∃ g' ∈ g, c' ∈ g'.2) → ∃ g' ∈ cs.foldl (fun g c => insertCol g delays[c] c) g, c' ∈ g'.2) := by
  induction cs generalizing g with
  | nil => exact ⟨h, fun c' hc' => by simpa using hc'⟩
  | cons c cs ih =>
    simp only [List.foldl_cons]
    obtain ⟨h1, h2⟩ := ih (insertCol g delays[c] c) (insertCol_consistent delays g c h)
    refine ⟨h1, fun c' hc' => h2 c' ?_⟩
    rcases hc' with hc' | hc'
    · rcases List.mem_cons.1 hc' with rfl | hc'
      · exact Or.inr (insertCol_mem g _ _)
      · exact Or.inl hc'
    · exact Or.inr (insertCol_mono g _ c c' hc')

theorem groupByDelay_consistent (delays : Vector α m) : Consistent delays (groupByDelay delays) :=
  (foldl_insertCol delays (List.finRange m) [] (fun _ h => by simp at h)).1

theorem groupByDelay_covers (delays : Vector α m) : Covers (groupByDelay delays) :=
  fun c => (foldl_insertCol delays (List.finRange m) [] (fun _ h => by simp at h)).2 c (Or.inl (List.mem_finRange c))

end Grouping

theorem singletons_consistent (delays : Vector α m) : Consistent delays (singletons delays) := by
  intro g hg c hc
  simp only [singletons, List.mem_map] at hg
  obtain ⟨c0, _, rfl⟩ := hg
  simp only [List.mem_singleton] at hc
  subst hc; rfl

theorem singletons_covers (delays : Vector α m) : Covers (singletons delays) :=
  fun c => ⟨(delays[c], [c]), by simp [singletons], by simp⟩

end Structural

/-! ## Part B: order -/
section SearchGeneric
variable {α : Type} {m : Nat} [LT α] [DecidableLT α]

theorem searchLeft_le (l : List (Sample α m)) (t : α) : searchLeft l t ≤ l.length := by
  induction l with
  | nil => simp [searchLeft]
  | cons p l ih => simp only [searchLeft]; split <;> simp <;> omega

/-- everything before the insertion point is `< t` -/
theorem searchLeft_lt (l : List (Sample α m)) (t : α) (i : Nat) (h : i < searchLeft l t) (hi : i < l.length) :
    l[i].t < t := by
  induction l generalizing i with
  | nil => simp at hi
  | cons p l ih =>
    simp only [searchLeft] at h
    split at h
    · cases i with
      | zero => simpa
      | succ i => simpa using ih i (by omega) (by simpa using hi)
    · omega

/-- the element at the insertion point is not `< t` -/
theorem searchLeft_not_lt (l : List (Sample α m)) (t : α) (h : searchLeft l t < l.length) :
    ¬ l[searchLeft l t].t < t := by
  induction l with
  | nil => simp at h
  | cons p l ih =>
    by_cases hp : p.t < t
    · have hs : searchLeft (p :: l) t = searchLeft l t + 1 := by simp [searchLeft, hp]
      have h' : searchLeft l t < l.length := by rw [hs] at h; simpa using h
      simp only [hs, List.getElem_cons_succ]
      exact ih h'
    · have hs : searchLeft (p :: l) t = 0 := by simp [searchLeft, hp]
      simp only [hs, List.getElem_cons_zero]
      exact hp

theorem searchRight_le (l : List (Sample α m)) (t : α) : searchRight l t ≤ l.length := by
  induction l with
  | nil => simp [searchRight]
  | cons p l ih => simp only [searchRight]; split <;> simp <;> omega

/-- everything before the right insertion point is not `> t` -/
theorem searchRight_not_lt (l : List (Sample α m)) (t : α) (i : Nat) (h : i < searchRight l t) (hi : i < l.length) :
    ¬ t < l[i].t := by
  induction l generalizing i with
  | nil => simp at hi
  | cons p l ih =>
    simp only [searchRight] at h
    split at h
    · omega
    · cases i with
      | zero => simpa
      | succ i => simpa using ih i (by omega) (by simpa using hi)

theorem searchRight_lt (l : List (Sample α m)) (t : α) (h : searchRight l t < l.length) :
    t < l[searchRight l t].t := by
  induction l with
  | nil => simp at h
  | cons p l ih =>
    by_cases hp : t < p.t
    · have hs : searchRight (p :: l) t = 0 := by simp [searchRight, hp]
      simp only [hs, List.getElem_cons_zero]
      exact hp
    · have hs : searchRight (p :: l) t = searchRight l t + 1 := by simp [searchRight, hp]
      have h' : searchRight l t < l.length := by rw [hs] at h; simpa using h
      simp only [hs, List.getElem_cons_succ]
      exact ih h'

end SearchGeneric

section Ordered
variable {K : Type} [Field K] [LinearOrder K] [IsStrictOrderedRing K] {m : Nat}

/-- the timestamps are strictly increasing -/
def Sorted (l : List (Sample K m)) : Prop := l.Pairwise (fun a b => a.t < b.t)

theorem strictInc_iff_pairwise (ts : List K) : strictInc ts = true ↔ ts.Pairwise (· < ·) := by
  induction ts with
  | nil => simp [strictInc]
  | cons a ts ih =>
    cases ts with
    | nil => simp [strictInc]
    | cons b ts =>
      simp only [strictInc, Bool.and_eq_true, decide_eq_true_eq, ih]
      constructor
      · rintro ⟨hab, h⟩
        refine List.pairwise_cons.2 ⟨?_, h⟩
        intro c hc
        rcases List.mem_cons.1 hc with rfl | hc
        · exact hab
        · exact lt_trans hab ((List.pairwise_cons.1 h).1 c hc)
      · intro h
        have := List.pairwise_cons.1 h
        exact ⟨this.1 b List.mem_cons_self, this.2⟩

theorem sorted_iff_strictInc (l : List (Sample K m)) : Sorted l ↔ strictInc (times l) = true := by
  rw [strictInc_iff_pairwise, times, List.pairwise_map]; rfl

theorem Sorted.lt {l : List (Sample K m)} (hs : Sorted l) {i j : Nat} (hi : i < l.length) (hj : j < l.length)
    (hij : i < j) : l[i].t < l[j].t :=
  List.pairwise_iff_getElem.1 hs i j hi hj hij

theorem Sorted.le {l : List (Sample K m)} (hs : Sorted l) {i j : Nat} (hi : i < l.length) (hj : j < l.length)
    (hij : i ≤ j) : l[i].t ≤ l[j].t := by
  rcases Nat.lt_or_eq_of_le hij with h | h
  · exact le_of_lt (hs.lt hi hj h)
  · subst h; exact le_refl _

/-- on a sorted series `searchLeft` at a sample time returns that sample's index -/
theorem searchLeft_at_sample {l : List (Sample K m)} (hs : Sorted l) (i : Nat) (hi : i < l.length) :
    searchLeft l l[i].t = i := by
  rcases Nat.lt_trichotomy (searchLeft l l[i].t) i with h | h | h
  · exact absurd (hs.lt (by omega) hi h) (searchLeft_not_lt l _ (by omega))
  · exact h
  · exact absurd (searchLeft_lt l _ i h hi) (lt_irrefl _)

/-- the bracket `[lo, hi]` chosen by `searchsorted(left)` + `clip(1, n-1)` on a sorted series of at least two
    samples is a pair of neighbours that contains every in-range query time -/
theorem bracket {l : List (Sample K m)} (h2 : 2 ≤ l.length) (hs : Sorted l) (t : K)
    (h0 : l[0].t ≤ t) (h1 : t ≤ (l[l.length - 1]'(by omega)).t) :
    let hi := hiIdx l.length (searchLeft l t)
    let lo := loIdx l.length hi
    ∃ (hhi : hi < l.length) (hlo : lo < l.length), lo + 1 = hi ∧ l[lo].t ≤ t ∧ t ≤ l[hi].t := by
  intro hi lo
  have hle := searchLeft_le l t
  have hhi : hi < l.length := hiIdx_lt _ (by omega)
  have hlo : lo < l.length := loIdx_lt (by omega) hhi
  have hhi1 : 1 ≤ hi := by simp only [hi, hiIdx]; omega
  have hlohi : lo + 1 = hi := by simp only [lo, loIdx]; split <;> omega
  refine ⟨hhi, hlo, hlohi, ?_, ?_⟩
  · by_cases hz : searchLeft l t = 0
    · have : lo = 0 := by simp only [lo, loIdx, hi, hiIdx, hz]; split <;> omega
      simp only [this]; exact h0
    · have : lo < searchLeft l t := by simp only [lo, loIdx, hi, hiIdx]; split <;> omega
      exact le_of_lt (searchLeft_lt l t lo this hlo)
  · by_cases hn : searchLeft l t < l.length
    · have h3 : ¬ l[searchLeft l t].t < t := searchLeft_not_lt l t hn
      have h4 : searchLeft l t ≤ hi := by simp only [hi, hiIdx]; omega
      exact le_trans (not_lt.1 h3) (hs.le hn hhi h4)
    · have : hi = l.length - 1 := by simp only [hi, hiIdx]; omega
      simp only [this]; exact h1

/-! ### scipy's linear kernel -/

theorem lerp_at_lo (xlo xhi ylo yhi : K) (h : xlo < xhi) : lerp xlo xhi xlo ylo yhi = ylo := by
  have : xhi - xlo ≠ 0 := sub_ne_zero.2 (ne_of_gt h)
  simp [lerp, div_self this]

theorem lerp_at_hi (xlo xhi ylo yhi : K) (h : xlo < xhi) : lerp xlo xhi xhi ylo yhi = yhi := by
  have : xhi - xlo ≠ 0 := sub_ne_zero.2 (ne_of_gt h)
  simp [lerp, div_self this]

/-- the interpolated value is a convex combination of the two neighbours -/
theorem lerp_between (xlo xhi t ylo yhi : K) (h : xlo < xhi) (h0 : xlo ≤ t) (h1 : t ≤ xhi) :
    min ylo yhi ≤ lerp xlo xhi t ylo yhi ∧ lerp xlo xhi t ylo yhi ≤ max ylo yhi := by
  have hd : 0 < xhi - xlo := sub_pos.2 h
  have hw1 : 0 ≤ (t - xlo) / (xhi - xlo) := div_nonneg (sub_nonneg.2 h0) (le_of_lt hd)
  have hw0 : 0 ≤ (xhi - t) / (xhi - xlo) := div_nonneg (sub_nonneg.2 h1) (le_of_lt hd)
  have hsum : (t - xlo) / (xhi - xlo) + (xhi - t) / (xhi - xlo) = 1 := by
    rw [← add_div]; have : t - xlo + (xhi - t) = xhi - xlo := by ring
    rw [this, div_self (ne_of_gt hd)]
  set w1 := (t - xlo) / (xhi - xlo) with hw1def
  set w0 := (xhi - t) / (xhi - xlo) with hw0def
  have e : lerp xlo xhi t ylo yhi = w1 * yhi + w0 * ylo := rfl
  rw [e]
  have a1 : min ylo yhi ≤ ylo := min_le_left _ _
  have a2 : min ylo yhi ≤ yhi := min_le_right _ _
  have b1 : ylo ≤ max ylo yhi := le_max_left _ _
  have b2 : yhi ≤ max ylo yhi := le_max_right _ _
  constructor
  · calc min ylo yhi = w1 * min ylo yhi + w0 * min ylo yhi := by rw [← add_mul, hsum, one_mul]
      _ ≤ w1 * yhi + w0 * ylo := add_le_add (mul_le_mul_of_nonneg_left a2 hw1) (mul_le_mul_of_nonneg_left a1 hw0)
  · calc w1 * yhi + w0 * ylo ≤ w1 * max ylo yhi + w0 * max ylo yhi :=
        add_le_add (mul_le_mul_of_nonneg_left b2 hw1) (mul_le_mul_of_nonneg_left b1 hw0)
      _ = max ylo yhi := by rw [← add_mul, hsum, one_mul]

/-! ### `interpRow` on a sorted series -/

/-- cell-wise value of `interpRow` for an in-range query (no clamping applies) -/
theorem interpRow_inrange {l : List (Sample K m)} (hl : 0 < l.length) (t : K)
    (h0 : ¬ t < l[0].t) (h1 : ¬ (l[l.length - 1]'(by omega)).t < t) (c : Nat) (hc : c < m) :
    (interpRow l hl t)[c] =
      lerp (l[loIdx l.length (hiIdx l.length (searchLeft l t))]'(loIdx_lt hl (hiIdx_lt _ hl))).t
           (l[hiIdx l.length (searchLeft l t)]'(hiIdx_lt _ hl)).t t
           (l[loIdx l.length (hiIdx l.length (searchLeft l t))]'(loIdx_lt hl (hiIdx_lt _ hl))).row[c]
           (l[hiIdx l.length (searchLeft l t)]'(hiIdx_lt _ hl)).row[c] := by
  unfold interpRow
  simp [h0, h1]

/-- `bracket` with the indices named: the neighbours are `lo` and `lo + 1` -/
theorem bracket' {l : List (Sample K m)} (h2 : 2 ≤ l.length) (hs : Sorted l) (t : K)
    (h0 : l[0].t ≤ t) (h1 : t ≤ (l[l.length - 1]'(by omega)).t) :
    ∃ (lo : Nat) (hlo : lo + 1 < l.length),
      hiIdx l.length (searchLeft l t) = lo + 1 ∧ loIdx l.length (lo + 1) = lo ∧ l[lo].t ≤ t ∧ t ≤ l[lo + 1].t := by
  obtain ⟨hhi, hlo, hlohi, hx0, hx1⟩ := bracket h2 hs t h0 h1
  refine ⟨loIdx l.length (hiIdx l.length (searchLeft l t)), by omega, hlohi.symm, by simp [loIdx], hx0, ?_⟩
  rw [getElem_congr_idx hlohi.symm] at hx1
  exact hx1

/-- `interpRow_inrange` with the indices named -/
theorem interpRow_inrange' {l : List (Sample K m)} (hl : 0 < l.length) (t : K)
    (h0 : ¬ t < l[0].t) (h1 : ¬ (l[l.length - 1]'(by omega)).t < t) (c : Nat) (hc : c < m)
    (lo hi : Nat) (ehi : hiIdx l.length (searchLeft l t) = hi) (elo : loIdx l.length hi = lo)
    (hhi : hi < l.length) (hlo : lo < l.length) :
    (interpRow l hl t)[c] = lerp l[lo].t l[hi].t t l[lo].row[c] l[hi].row[c] := by
  subst ehi; subst elo
  exact interpRow_inrange hl t h0 h1 c hc

theorem interpRow_below {l : List (Sample K m)} (hl : 0 < l.length) (hs : Sorted l) (t : K) (ht : t < l[0].t) :
    interpRow l hl t = l[0].row := by
  have hlast : ¬ (l[l.length - 1]'(by omega)).t < t := by
    have := hs.le hl (by omega : l.length - 1 < l.length) (Nat.zero_le _)
    exact not_lt.2 (le_trans (le_of_lt ht) this)
  unfold interpRow
  simp [ht, hlast]

theorem interpRow_above {l : List (Sample K m)} (hl : 0 < l.length) (t : K)
    (ht : (l[l.length - 1]'(by omega)).t < t) : interpRow l hl t = (l[l.length - 1]'(by omega)).row := by
  unfold interpRow
  simp [ht]

/-- interpolation at a sample time returns that sample's row (two samples are needed: see the model header) -/
theorem interpRow_at_sample {l : List (Sample K m)} (h2 : 2 ≤ l.length) (hs : Sorted l) (i : Nat) (hi : i < l.length) :
    interpRow l (by omega) l[i].t = l[i].row := by
  have hl : 0 < l.length := by omega
  have h0 : ¬ l[i].t < l[0].t := not_lt.2 (hs.le hl hi (Nat.zero_le _))
  have h1 : ¬ (l[l.length - 1]'(by omega)).t < l[i].t := not_lt.2 (hs.le hi (by omega) (by omega))
  apply Vector.ext
  intro c hc
  rw [interpRow_inrange hl _ h0 h1 c hc]
  have hsl := searchLeft_at_sample hs i hi
  by_cases hz : i = 0
  · subst hz
    have e1 : hiIdx l.length (searchLeft l l[0].t) = 1 := by rw [hsl]; simp only [hiIdx]; omega
    have e2 : loIdx l.length 1 = 0 := by simp [loIdx]
    simp only [e1, e2]
    exact lerp_at_lo _ _ _ _ (hs.lt hl (by omega) (by omega))
  · have e1 : hiIdx l.length (searchLeft l l[i].t) = i := by rw [hsl]; simp only [hiIdx]; omega
    have e2 : loIdx l.length i = i - 1 := by
      simp only [loIdx]; split <;> omega
    simp only [e1, e2]
    exact lerp_at_hi _ _ _ _ (hs.lt (by omega) hi (by omega))

/-- from two samples on both variants of `interpolate` are scipy's interp1d -/
theorem interp_eq_interpRow (hold : Bool) {l : List (Sample K m)} (h2 : 2 ≤ l.length) (t : K) :
    interp hold l (by omega) t = interpRow l (by omega) t := by
  unfold interp
  have : (l.length == 1) = false := by simp; omega
  simp [this]

/-- the guarded variant holds a one-sample series constant -/
theorem interp_hold_single {l : List (Sample K m)} (h1 : l.length = 1) (t : K) :
    interp true l (by omega) t = (l[0]'(by omega)).row := by
  unfold interp
  simp [h1]

/-! ### shifting the query times, windows, zero delay -/

theorem strictInc_shift (nt : List K) (d : K) : strictInc (nt.map (· + d)) = strictInc nt := by
  induction nt with
  | nil => rfl
  | cons a nt ih =>
    cases nt with
    | nil => rfl
    | cons b nt =>
      simp only [List.map_cons, strictInc] at ih ⊢
      rw [ih]
      simp

/-- the slice `[searchLeft lo : searchRight hi]` of a sorted series holds exactly the samples with `lo ≤ t ≤ hi` -/
theorem mem_window {l : List (Sample K m)} (hs : Sorted l) (lo hi : K) (p : Sample K m) :
    p ∈ (l.take (searchRight l hi)).drop (searchLeft l lo) ↔ p ∈ l ∧ lo ≤ p.t ∧ p.t ≤ hi := by
  constructor
  · intro hp
    obtain ⟨k, hk⟩ := List.mem_iff_getElem?.1 hp
    rw [List.getElem?_drop, List.getElem?_take] at hk
    split at hk
    · rename_i hlt
      obtain ⟨hidx, hpk⟩ := List.getElem?_eq_some_iff.1 hk
      subst hpk
      refine ⟨List.getElem_mem _, ?_, ?_⟩
      · have hi' : searchLeft l lo < l.length := by omega
        exact le_trans (not_lt.1 (searchLeft_not_lt l lo hi')) (hs.le hi' hidx (by omega))
      · exact not_lt.1 (searchRight_not_lt l hi _ hlt hidx)
    · simp at hk
  · rintro ⟨hp, hlo, hhi⟩
    obtain ⟨k, hk, rfl⟩ := List.mem_iff_getElem.1 hp
    have h1 : searchLeft l lo ≤ k := by
      by_contra hc
      exact absurd (searchLeft_lt l lo k (by omega) hk) (not_lt.2 hlo)
    have h2 : k < searchRight l hi := by
      by_contra hc
      have hj : searchRight l hi < l.length := by omega
      have := searchRight_lt l hi hj
      exact absurd (lt_of_lt_of_le this (hs.le hj hk (by omega))) (not_lt.2 hhi)
    apply List.mem_iff_getElem?.2
    refine ⟨k - searchLeft l lo, ?_⟩
    rw [List.getElem?_drop, List.getElem?_take, show searchLeft l lo + (k - searchLeft l lo) = k by omega, if_pos h2]
    exact List.getElem?_eq_getElem hk

/-- writing back what is already there changes nothing -/
theorem setCols_self (cols : List (Fin m)) (src : List K) (row : Vector K m) (hlen : src.length = cols.length)
    (hsrc : ∀ (j : Nat) (h1 : j < cols.length) (h2 : j < src.length), src[j] = row[cols[j]]) :
    setCols cols src row = row := by
  apply Vector.ext
  intro c hc
  have := setCols_getElem (fun c : Fin m => row[c]) cols src row hlen hsrc ⟨c, hc⟩
  simp only [Fin.getElem_fin, ite_self] at this
  exact this

end Ordered

end MjProof.TimeSeries
