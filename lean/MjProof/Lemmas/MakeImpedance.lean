import MjProof.Lemmas.Constraint
/-
Lemmas about the model of `mj_makeImpedance` (Model/Constraint.lean: `impR`, `impEll`, `makeImpedance`): the
regularisers it produces for an elliptic contact satisfy the relation `D_j mu² = D_0 friction_j²` that the
zone formulas of `mj_constraintUpdate_impl` rely on (C12).
-/
namespace MjProof.Constraint
open MjProof

/-! ### mj_makeImpedance: the regularisers it produces satisfy the relation the cone formulas need -/
section makeImp

theorem minval_pos : (0 : ℝ) < (minval : ℝ) := by rw [minval_real]; positivity

theorem mjuMax_minval_pos (x : ℝ) : 0 < mjuMax (minval : ℝ) x := by
  rw [mjuMax_real]
  split_ifs with h
  · exact minval_pos
  · exact lt_trans minval_pos (not_le.mp h)

/-- the first loop never leaves a non-positive `R` (it clamps at `mjMINVAL`) -/
theorem impR_pos (diagA imp : ℝ) : 0 < impR diagA imp := mjuMax_minval_pos _

theorem impR1_real (R0 ir : ℝ) : impR1 R0 ir = R0 / mjuMax (minval : ℝ) ir := by
  simp only [impR1, r_div]

theorem impMu_real (R0 ir f0 : ℝ) :
    impMu R0 ir f0 = f0 * Real.sqrt (R0 / mjuMax (minval : ℝ) ir / R0) := by
  simp only [impMu, impR1, r_mul, r_div, real_sqrt]

theorem impRj_real (R1 f0 fj : ℝ) : impRj R1 f0 fj = R1 * f0 * f0 / (fj * fj) := by
  simp only [impRj, r_mul, r_div]

theorem impMu_pos {R0 f0 : ℝ} (hR0 : 0 < R0) (hf0 : 0 < f0) (ir : ℝ) : 0 < impMu R0 ir f0 := by
  rw [impMu_real]
  exact mul_pos hf0 (Real.sqrt_pos.mpr (div_pos (div_pos hR0 (mjuMax_minval_pos ir)) hR0))

/-- friction coefficient of the tangential rows of a contact with `friction[0] = f0`, `friction[1..] = fr` -/
def impW (f0 : ℝ) (fr : List ℝ) : Fin (fr.length + 1) → ℝ :=
  Fin.cons (α := fun _ => ℝ) f0 (fun k => fr[k])

/-- the `R` that `impEll` assigns to the tangential rows -/
noncomputable def impRt (R0 ir f0 : ℝ) (fr : List ℝ) : Fin (fr.length + 1) → ℝ :=
  Fin.cons (α := fun _ => ℝ) (impR1 R0 ir) (fun k => impRj (impR1 R0 ir) f0 fr[k])

/-- shape of the output of the model of the contact loop for an elliptic contact -/
theorem impEll_R (R0 ir f0 : ℝ) (fr : List ℝ) :
    (impEll R0 ir f0 fr).R = R0 :: List.ofFn (impRt R0 ir f0 fr) := by
  unfold impEll impRt
  simp only
  rw [List.ofFn_succ]
  simp only [Fin.cons_zero, Fin.cons_succ]
  congr 2
  conv_lhs => rw [← List.ofFn_getElem (xs := fr)]
  rw [List.map_ofFn]
  rfl

theorem impEll_mu (R0 ir f0 : ℝ) (fr : List ℝ) : (impEll R0 ir f0 fr).mu = impMu R0 ir f0 := rfl

/-- the impedance relation for the regularisers produced by the model of `mj_makeImpedance` -/
theorem impEll_rel {R0 f0 : ℝ} (hR0 : 0 < R0) (hf0 : 0 < f0) (ir : ℝ) (fr : List ℝ)
    (hfr : ∀ f ∈ fr, 0 < f) (i : Fin (fr.length + 1)) :
    1 / impRt R0 ir f0 fr i * (impMu R0 ir f0 * impMu R0 ir f0) =
      1 / R0 * (impW f0 fr i * impW f0 fr i) := by
  have hm := mjuMax_minval_pos ir
  refine Fin.cases ?_ (fun k => ?_) i
  · have h := (impedance_rel R0 (mjuMax (minval : ℝ) ir) f0 f0 hR0 hm hf0 hf0).1
    simp only [impRt, impW, Fin.cons_zero, impR1_real, impMu_real]
    exact h
  · have hk : 0 < fr[k] := hfr _ (List.getElem_mem _)
    have h := (impedance_rel R0 (mjuMax (minval : ℝ) ir) f0 fr[k] hR0 hm hf0 hk).2
    simp only [impRt, impW, Fin.cons_succ, impR1_real, impMu_real, impRj_real]
    exact h

theorem impW_pos {f0 : ℝ} (hf0 : 0 < f0) (fr : List ℝ) (hfr : ∀ f ∈ fr, 0 < f) (i : Fin (fr.length + 1)) :
    0 < impW f0 fr i := by
  refine Fin.cases ?_ (fun k => ?_) i
  · simpa [impW] using hf0
  · simpa [impW] using hfr _ (List.getElem_mem _)

/-- the array loop applies `impEll` to the rows of an elliptic contact and continues behind the block -/
theorem impGo_elliptic_block (ir R0 : ℝ) (id : ℕ) (cons : List (Contact ℝ)) (rest : List (ℝ × ℕ × ℕ))
    (mus : List (Option ℝ)) (c : Contact ℝ) (f0 : ℝ) (ftail : List ℝ)
    (hc : cons[id]? = some c) (hf : c.friction = f0 :: ftail)
    (hok : ¬ (c.dim < 2 ∨ 6 < c.dim ∨ rest.length < c.dim - 1 ∨ ftail.length < c.dim - 2)) :
    impGo ir cons ((R0, cnstrElliptic, id) :: rest) mus =
      (impGo ir cons (rest.drop (c.dim - 1)) (setAt mus id (some (impMu R0 ir f0)))).map
        (fun p => ((impEll R0 ir f0 (ftail.take (c.dim - 2))).R ++ p.1, p.2)) := by
  rw [impGo]
  simp only [cnstrElliptic, cnstrPyramidal, hc, hf, hok, if_true, if_false, or_true]
  rw [impEll_mu]
  cases impGo ir cons (List.drop (c.dim - 1) rest) (setAt mus id (some (impMu R0 ir f0))) with
  | none => rfl
  | some p => rfl

end makeImp

end MjProof.Constraint
