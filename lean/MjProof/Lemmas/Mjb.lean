/-
Helper lemmas for the MJB model (`MjProof/Model/Mjb.lean`): little-endian encoding round trip,
consumption of a saved image stage by stage, capacities computed by the allocation loop,
round trip / truncation / reference-table soundness / no-over-read at the level of the model functions.
Core Lean only (no Mathlib needed).
-/
import MjProof.Model.Mjb
namespace MjProof.Mjb

/-! ## encoding -/

theorem leBytes_length (n v : Nat) : (leBytes n v).length = n := by
  induction n generalizing v with
  | zero => rfl
  | succ n ih => simp [leBytes, ih]

theorem leNat_leBytes (n v : Nat) : leNat (leBytes n v) = v % 256 ^ n := by
  induction n generalizing v with
  | zero => simp [leBytes, leNat, Nat.mod_one]
  | succ n ih =>
    simp only [leBytes, leNat, ih]
    have h1 : (UInt8.ofNat (v % 256)).toNat = v % 256 := by
      simp [UInt8.toNat_ofNat']
    rw [h1, Nat.pow_succ, Nat.mul_comm (256 ^ n) 256, Nat.mod_mul, Nat.add_comm]

theorem encInt_length (n : Nat) (v : Int) : (encInt n v).length = n := leBytes_length _ _

theorem decInt_encInt {n : Nat} {v : Int} (h : InRange n v) : decInt (encInt n v) = v := by
  unfold decInt
  simp only [encInt_length]
  have hM : (0 : Int) < (256 : Int) ^ n := Int.pow_pos (by decide)
  have hu : ((leNat (encInt n v) : Nat) : Int) = v % (256 : Int) ^ n := by
    unfold encInt
    rw [leNat_leBytes]
    have h0 : 0 ≤ v % (256 : Int) ^ n := Int.emod_nonneg _ (Int.ne_of_gt hM)
    have hlt : v % (256 : Int) ^ n < (256 : Int) ^ n := Int.emod_lt_of_pos _ hM
    have : ((v % (256 : Int) ^ n).toNat : Int) = v % (256 : Int) ^ n := Int.toNat_of_nonneg h0
    have hcast : ((256 ^ n : Nat) : Int) = (256 : Int) ^ n := by simp
    rw [Int.natCast_emod, this, hcast]
    exact Int.emod_eq_of_lt h0 hlt
  simp only [hu]
  obtain ⟨hlo, hhi⟩ := h
  by_cases hv : 0 ≤ v
  · have : v % (256 : Int) ^ n = v := Int.emod_eq_of_lt hv (by omega)
    rw [this]; simp; omega
  · have h2 : v % (256 : Int) ^ n = v + (256 : Int) ^ n := by
      have : (v + (256 : Int) ^ n) % (256 : Int) ^ n = v % (256 : Int) ^ n := by simp
      rw [← this]
      exact Int.emod_eq_of_lt (by omega) (by omega)
    rw [h2]
    have : ¬ (2 * (v + (256 : Int) ^ n) < (256 : Int) ^ n) := by omega
    simp [this]

variable {ns : Nat}

/-! ## Res -/

@[simp] theorem Res.ok_bind {α β : Type} (a : α) (f : α → Res β) : (Res.ok a).bind f = f a := rfl
@[simp] theorem Res.reject_bind {α β : Type} (w : String) (f : α → Res β) : (Res.reject w).bind f = .reject w := rfl
@[simp] theorem Res.fatal_bind {α β : Type} (w : String) (f : α → Res β) : (Res.fatal w).bind f = .fatal w := rfl
@[simp] theorem Res.hazard_bind {α β : Type} (u : Hazard) (f : α → Res β) : (Res.hazard u).bind f = .hazard u := rfl

theorem Res.bind_eq_ok {α β : Type} {x : Res α} {f : α → Res β} {b : β} (h : x.bind f = .ok b) :
    ∃ a, x = .ok a ∧ f a = .ok b := by
  cases x <;> simp [Res.bind] at h ⊢
  exact h

theorem flatMap_enc_length (w : Nat) (l : List Int) : (l.flatMap (encInt w)).length = w * l.length := by
  induction l with
  | nil => simp
  | cons a t ih => simp [List.flatMap_cons, encInt_length, ih, Nat.mul_succ]; omega

theorem decN_flatMap {w : Nat} (l : List Int) (rest : Bytes) (h : ∀ v ∈ l, InRange w v) :
    decN w l.length (l.flatMap (encInt w) ++ rest) = l := by
  induction l with
  | nil => rfl
  | cons a t ih =>
    have ha : InRange w a := h a (by simp)
    have ht : ∀ v ∈ t, InRange w v := fun v hv => h v (by simp [hv])
    simp only [List.flatMap_cons, List.length_cons, decN, List.append_assoc]
    rw [List.take_left' (encInt_length w a), List.drop_left' (encInt_length w a), decInt_encInt ha, ih ht]

theorem checkHeader_self (h : List Int) (msgs : List String) : checkHeader h h msgs = .ok () := by
  induction h generalizing msgs with
  | nil => rfl
  | cons a t ih => simp [checkHeader, ih]

theorem vec_eq_of_toList {v : Vector Int ns} {l : List Int} (hl : l.length = ns) (h : l = v.toList) :
    (⟨l.toArray, by simpa using hl⟩ : Vector Int ns) = v := by
  subst h
  cases v with
  | mk a ha => simp [Vector.toList]


/-! ## reading a saved image -/

theorem rdN_append' {n : Nat} (a b : Bytes) (h : a.length = n) : rdN (a ++ b) n = some (a, b) := by
  subst h; simp [rdN]

/-- per-pointer consistency: `nc` evaluates without `int` overflow, the array has exactly
    `sizeof(type)*nr*nc` bytes and fits the capacity allocated for it -/
def ArrOK (intMax : Int) (s : Sizes ns) (p : Ptr ns) (cap : Nat) (a : Bytes) : Prop :=
  p.ncInt s intMax = .ok (p.nc s) ∧ (a.length : Int) = p.bytes s ∧ a.length ≤ cap

def ArrsOK (intMax : Int) (s : Sizes ns) : List (Ptr ns) → List Nat → List Bytes → Prop
  | [], [], [] => True
  | p :: ps, c :: cs, a :: as => ArrOK intMax s p c a ∧ ArrsOK intMax s ps cs as
  | _, _, _ => False

theorem toI32_small {n : Nat} (h : n ≤ 2147483647) : toI32 (n : Int) = n := by
  unfold toI32
  have : ((n : Int) + 2147483648) % 4294967296 = (n : Int) + 2147483648 :=
    Int.emod_eq_of_lt (by omega) (by omega)
  omega

theorem readStep_ok (intMax : Int) (len : Nat) (s : Sizes ns) (hlen : len ≤ 2147483647)
    (p : Ptr ns) (c : Nat) (a rest : Bytes) (h : ArrOK intMax s p c a) (hl : (a ++ rest).length ≤ len) :
    readStep intMax len s p c (a ++ rest) = .ok (a, rest) := by
  obtain ⟨hnc, hb, hcap⟩ := h
  have hl' : a.length + rest.length ≤ len := by simpa [List.length_append] using hl
  have hbytes : (p.esz : Int) * s[p.nr] * p.nc s = (a.length : Int) := by
    rw [hb]; rfl
  have h64 : ((a.length : Int) % (two64 : Int)).toNat = a.length := by
    have : (a.length : Int) % (two64 : Int) = a.length :=
      Int.emod_eq_of_lt (by omega) (by unfold two64; omega)
    rw [this]; simp
  simp only [readStep, hnc, Res.ok_bind, hbytes, h64, List.length_append]
  have hmod : (len - (a.length + rest.length) + a.length) % two64 = len - (a.length + rest.length) + a.length := by
    apply Nat.mod_eq_of_lt
    unfold two64; omega
  rw [hmod, if_neg (by omega), toI32_small (by omega), if_neg (by omega), if_neg (by omega)]
  simp only [Int.toNat_natCast, rdN_append' a _ rfl, if_neg (Nat.not_lt.mpr hcap)]

theorem readArrays_flatten (intMax : Int) (len : Nat) (s : Sizes ns) (hlen : len ≤ 2147483647) :
    ∀ (ps : List (Ptr ns)) (cs : List Nat) (as : List Bytes) (tail : Bytes),
      ArrsOK intMax s ps cs as → (as.flatten ++ tail).length ≤ len →
      readArrays intMax len s ps cs (as.flatten ++ tail) = .ok (as, tail)
  | [], [], [], tail, _, _ => by simp [readArrays]
  | p :: ps, c :: cs, a :: as, tail, h, hl => by
    obtain ⟨h1, hrest⟩ := h
    have hl' : (a ++ (as.flatten ++ tail)).length ≤ len := by
      simpa [List.append_assoc] using hl
    have hl2 : (as.flatten ++ tail).length ≤ len := by
      simp only [List.length_append] at hl' ⊢; omega
    have ih := readArrays_flatten intMax len s hlen ps cs as tail hrest hl2
    simp only [readArrays, List.flatten_cons, List.append_assoc,
      readStep_ok intMax len s hlen p c a _ h1 hl', Res.ok_bind, ih]
  | [], [], _ :: _, _, h, _ => by simp [ArrsOK] at h
  | [], _ :: _, _, _, h, _ => by simp [ArrsOK] at h
  | _ :: _, [], _, _, h, _ => by simp [ArrsOK] at h
  | _ :: _, _ :: _, [], _, h, _ => by simp [ArrsOK] at h


theorem readBlobs_flatten : ∀ (spec : List (String × Nat)) (blobs : List Bytes) (tail : Bytes),
    blobs.map List.length = spec.map (·.2) →
    readBlobs spec (blobs.flatten ++ tail) = .ok (blobs, tail)
  | [], [], tail, _ => by simp [readBlobs]
  | (nm, n) :: spec, b :: blobs, tail, h => by
    simp only [List.map_cons, List.cons.injEq] at h
    obtain ⟨h1, h2⟩ := h
    have ih := readBlobs_flatten spec blobs tail h2
    simp only [readBlobs, List.flatten_cons, List.append_assoc, rdN_append' b _ h1]
    rw [ih]; rfl
  | [], _ :: _, _, h => by simp at h
  | _ :: _, [], _, h => by simp at h

theorem safeAdd_cap {al esz off cap off' : Nat} {nr nc : Int}
    (h : safeAdd al esz nr nc off = some (cap, off')) : (cap : Int) = esz * nr * nc := by
  unfold safeAdd at h
  split at h
  · cases h
  · rename_i hneg
    split at h
    · cases h
    · split at h
      · cases h
      · simp only at h
        split at h
        · cases h
        · split at h
          · cases h
          · simp only [Option.some.injEq, Prod.mk.injEq] at h
            obtain ⟨h1, _⟩ := h
            have hnr : 0 ≤ nr := by omega
            have hnc : 0 ≤ nc := by omega
            have : 0 ≤ nc * nr * (esz : Int) := Int.mul_nonneg (Int.mul_nonneg hnc hnr) (by omega)
            rw [← h1, Int.toNat_of_nonneg this]
            ac_rfl

/-- `caps` are the exact byte counts of the pointers under sizes `sa` -/
def CapsOK (sa : Sizes ns) : List (Ptr ns) → List Nat → Prop
  | [], [] => True
  | p :: ps, c :: cs => ((c : Nat) : Int) = p.bytes sa ∧ CapsOK sa ps cs
  | _, _ => False

theorem allocLoop_caps (L : Layout ns) (sa : Sizes ns) :
    ∀ (ps : List (Ptr ns)) (off : Nat) (caps : List Nat) (tot : Nat),
      allocLoop L sa ps off = .ok (caps, tot) → CapsOK sa ps caps
  | [], off, caps, tot, h => by
    simp only [allocLoop, Res.ok.injEq, Prod.mk.injEq] at h
    rw [← h.1]; trivial
  | p :: ps, off, caps, tot, h => by
    simp only [allocLoop] at h
    split at h
    · cases h
    · rename_i cap off' hs
      obtain ⟨r, hr, hr2⟩ := Res.bind_eq_ok h
      simp only [Res.ok.injEq, Prod.mk.injEq] at hr2
      rw [← hr2.1]
      refine ⟨?_, allocLoop_caps L sa ps off' r.1 r.2 (by rw [hr])⟩
      rw [safeAdd_cap hs]; rfl


/-! ## consistency of a model value, round trip, size -/

theorem arrsOK_of (intMax : Int) (s sa : Sizes ns) :
    ∀ (ps : List (Ptr ns)) (cs : List Nat) (as : List Bytes),
      CapsOK sa ps cs → LensOK s ps as →
      (∀ p ∈ ps, p.bytes sa = p.bytes s) → (∀ p ∈ ps, p.ncInt s intMax = .ok (p.nc s)) →
      ArrsOK intMax s ps cs as
  | [], [], [], _, _, _, _ => trivial
  | p :: ps, c :: cs, a :: as, hc, hl, hd, hn => by
    refine ⟨⟨hn p (by simp), hl.1, ?_⟩, arrsOK_of intMax s sa ps cs as hc.2 hl.2
      (fun q hq => hd q (by simp [hq])) (fun q hq => hn q (by simp [hq]))⟩
    have h1 := hc.1
    have h2 := hl.1
    rw [hd p (by simp)] at h1
    omega
  | [], [], _ :: _, _, hl, _, _ => by simp [LensOK] at hl
  | [], _ :: _, _, hc, _, _, _ => by simp [CapsOK] at hc
  | _ :: _, [], _, hc, _, _, _ => by simp [CapsOK] at hc
  | _ :: _, _ :: _, [], _, hl, _, _ => by simp [LensOK] at hl

theorem blobs_flatten_length : ∀ (spec : List (String × Nat)) (blobs : List Bytes),
    blobs.map List.length = spec.map (·.2) → blobs.flatten.length = (spec.map (·.2)).sum
  | [], [], _ => rfl
  | (_, n) :: spec, b :: blobs, h => by
    simp only [List.map_cons, List.cons.injEq] at h
    simp [List.flatten_cons, h.1, blobs_flatten_length spec blobs h.2]
  | [], _ :: _, h => by simp at h
  | _ :: _, [], h => by simp at h

theorem loadSizes_image (L : Layout ns) (hwf : L.WF) (s : Sizes ns)
    (hs : ∀ v ∈ s.toList, InRange L.sizeSz v) (tail : Bytes) :
    loadSizes L (L.header.flatMap (encInt L.intSz) ++ s.toList.flatMap (encInt L.sizeSz) ++ tail) = .ok (s, tail) := by
  have hH : (L.header.flatMap (encInt L.intSz)).length = L.header.length * L.intSz := by
    rw [flatMap_enc_length, Nat.mul_comm]
  have hS : (s.toList.flatMap (encInt L.sizeSz)).length = L.sizeSz * ns := by
    rw [flatMap_enc_length]; simp
  unfold loadSizes
  simp only [List.append_assoc, List.length_append, hH, hS]
  rw [if_neg (by omega), rdN_append' _ _ hH]
  simp only
  have hdec : decN L.intSz L.header.length (L.header.flatMap (encInt L.intSz)) = L.header := by
    have := decN_flatMap L.header [] hwf.hdrRange
    simpa using this
  rw [hdec, checkHeader_self]
  simp only [Res.ok_bind, List.length_append, hS]
  rw [if_neg (by omega), rdN_append' _ _ hS]
  simp only
  have hdec2 : decN L.sizeSz ns (s.toList.flatMap (encInt L.sizeSz)) = s.toList := by
    have := decN_flatMap s.toList [] hs
    simpa using this
  congr 2
  unfold decodeSizes
  exact vec_eq_of_toList (decN_length _ _ _) hdec2


theorem save_length (L : Layout ns) (m : Model ns) :
    (save L m).length = headerBytes L + m.blobs.flatten.length + m.arrays.flatten.length := by
  unfold save headerBytes
  simp only [List.length_append, flatMap_enc_length, Vector.length_toList]

theorem loadBody_consistent (L : Layout ns) (sp : Model ns → Res Unit) (m : Model ns)
    (hc : Consistent L sp m) (len : Nat) (hlen : len = (save L m).length) :
    loadBody L sp len m.sizes (m.blobs.flatten ++ m.arrays.flatten) = .ok m := by
  obtain ⟨al, hmk, hnb⟩ := hc.make
  have hsl := save_length L m
  have hbl := blobs_flatten_length L.blobs m.blobs hc.blobsLen
  have hsmall := hc.small
  -- capacities computed by the allocation loop
  have hcaps : CapsOK (allocSizes L m.sizes) L.ptrs al.caps := by
    unfold makeModel at hmk
    obtain ⟨_, _, hmk⟩ := Res.bind_eq_ok hmk
    split at hmk
    · cases hmk
    · split at hmk
      · cases hmk
      · obtain ⟨r, hr, hr2⟩ := Res.bind_eq_ok hmk
        simp only [Res.ok.injEq] at hr2
        rw [← hr2]
        exact allocLoop_caps L _ L.ptrs 0 r.1 r.2 (by rw [hr])
  have harrs := arrsOK_of L.intMax m.sizes (allocSizes L m.sizes) L.ptrs al.caps m.arrays hcaps hc.arraysLen
    hc.dimsAgree hc.ncFits
  unfold loadBody
  simp only [hmk, List.length_append]
  rw [if_neg (by simp [hnb]), if_neg (by unfold blobTotal; omega)]
  rw [readBlobs_flatten L.blobs m.blobs _ hc.blobsLen]
  simp only [Res.ok_bind]
  have := readArrays_flatten L.intMax len m.sizes (by omega) L.ptrs al.caps m.arrays [] harrs (by rw [List.append_nil]; omega)
  simp only [List.append_nil] at this
  rw [this]
  simp only [Res.ok_bind, List.length_nil, ne_eq, not_true_eq_false, if_false]
  show (validate L sp m).bind (fun _ => Res.ok m) = .ok m
  rw [hc.valid]; rfl

theorem load_save_id' (L : Layout ns) (hwf : L.WF) (sp : Model ns → Res Unit) (m : Model ns)
    (hc : Consistent L sp m) : load L sp (save L m) = .ok m := by
  unfold load
  have himg : save L m = L.header.flatMap (encInt L.intSz) ++ m.sizes.toList.flatMap (encInt L.sizeSz)
      ++ (m.blobs.flatten ++ m.arrays.flatten) := by
    unfold save; simp [List.append_assoc]
  rw [himg, loadSizes_image L hwf m.sizes hc.sizesRange]
  simp only [Res.ok_bind]
  rw [← himg]
  exact loadBody_consistent L sp m hc _ rfl


theorem arrays_flatten_length (s : Sizes ns) : ∀ (ps : List (Ptr ns)) (as : List Bytes),
    LensOK s ps as → ((as.flatten.length : Nat) : Int) = (ps.map (fun p => p.bytes s)).sum
  | [], [], _ => rfl
  | p :: ps, a :: as, h => by
    have ih := arrays_flatten_length s ps as h.2
    simp only [List.flatten_cons, List.length_append, List.map_cons, List.sum_cons, Int.natCast_add, ih, h.1]
  | [], _ :: _, h => by simp [LensOK] at h
  | _ :: _, [], h => by simp [LensOK] at h

theorem size_eq_save_length' (L : Layout ns) (sp : Model ns → Res Unit) (m : Model ns) (hc : Consistent L sp m) :
    sizeModel L m = ((save L m).length : Int) := by
  rw [save_length, blobs_flatten_length L.blobs m.blobs hc.blobsLen]
  unfold sizeModel blobTotal
  rw [← arrays_flatten_length m.sizes L.ptrs m.arrays hc.arraysLen]
  simp only [Int.natCast_add]


/-! ## truncation -/

theorem readStep_short (intMax : Int) (len : Nat) (s : Sizes ns)
    (p : Ptr ns) (c : Nat) (a rest : Bytes) (h : ArrOK intMax s p c a)
    (hshort : rest.length < a.length) (hl : rest.length ≤ len) (hlen : len + a.length < two64) :
    ∃ w, readStep intMax len s p c rest = .reject w := by
  obtain ⟨hnc, hb, hcap⟩ := h
  have hbytes : (p.esz : Int) * s[p.nr] * p.nc s = (a.length : Int) := by
    rw [hb]; rfl
  have h64 : ((a.length : Int) % (two64 : Int)).toNat = a.length := by
    have : (a.length : Int) % (two64 : Int) = a.length :=
      Int.emod_eq_of_lt (by omega) (by omega)
    rw [this]; simp
  simp only [readStep, hnc, Res.ok_bind, hbytes, h64]
  have hmod : (len - rest.length + a.length) % two64 = len - rest.length + a.length :=
    Nat.mod_eq_of_lt (by omega)
  rw [hmod, if_pos (by omega)]
  exact ⟨_, rfl⟩

theorem readArrays_prefix_reject (intMax : Int) (len : Nat) (s : Sizes ns) (hlen : len ≤ 2147483647) :
    ∀ (ps : List (Ptr ns)) (cs : List Nat) (as : List Bytes) (j : Nat),
      ArrsOK intMax s ps cs as → j < as.flatten.length → j ≤ len → as.flatten.length ≤ 2147483647 →
      ∃ w, readArrays intMax len s ps cs (as.flatten.take j) = .reject w
  | [], [], [], j, _, hj, _, _ => by simp at hj
  | p :: ps, c :: cs, a :: as, j, h, hj, hjl, hsm => by
    obtain ⟨h1, hrest⟩ := h
    simp only [List.flatten_cons, List.length_append] at hj hsm
    by_cases hja : a.length ≤ j
    · have htake : (a ++ as.flatten).take j = a ++ as.flatten.take (j - a.length) := by
        rw [List.take_append, List.take_of_length_le hja]
      obtain ⟨w, hw⟩ := readArrays_prefix_reject intMax len s hlen ps cs as (j - a.length) hrest
        (by omega) (by omega) (by omega)
      refine ⟨w, ?_⟩
      simp only [readArrays, List.flatten_cons, htake]
      rw [readStep_ok intMax len s hlen p c a _ h1 (by simp [List.length_take]; omega)]
      simp only [Res.ok_bind, hw, Res.reject_bind]
    · have htake : (a ++ as.flatten).take j = a.take j := List.take_append_of_le_length (by omega)
      obtain ⟨w, hw⟩ := readStep_short intMax len s p c a (a.take j) h1
        (by simp [List.length_take]; omega) (by simp [List.length_take]; omega) (by unfold two64; omega)
      refine ⟨w, ?_⟩
      simp only [readArrays, List.flatten_cons, htake, hw, Res.reject_bind]
  | [], [], _ :: _, _, h, _, _, _ => by simp [ArrsOK] at h
  | [], _ :: _, _, _, h, _, _, _ => by simp [ArrsOK] at h
  | _ :: _, [], _, _, h, _, _, _ => by simp [ArrsOK] at h
  | _ :: _, _ :: _, [], _, h, _, _, _ => by simp [ArrsOK] at h


theorem caps_of_consistent (L : Layout ns) (sp : Model ns → Res Unit) (m : Model ns) (hc : Consistent L sp m)
    {al : Alloc} (hmk : makeModel L m.sizes = .ok al) :
    ArrsOK L.intMax m.sizes L.ptrs al.caps m.arrays := by
  have hcaps : CapsOK (allocSizes L m.sizes) L.ptrs al.caps := by
    unfold makeModel at hmk
    obtain ⟨_, _, hmk⟩ := Res.bind_eq_ok hmk
    split at hmk
    · cases hmk
    · split at hmk
      · cases hmk
      · obtain ⟨r, hr, hr2⟩ := Res.bind_eq_ok hmk
        simp only [Res.ok.injEq] at hr2
        rw [← hr2]
        exact allocLoop_caps L _ L.ptrs 0 r.1 r.2 (by rw [hr])
  exact arrsOK_of L.intMax m.sizes (allocSizes L m.sizes) L.ptrs al.caps m.arrays hcaps hc.arraysLen
    hc.dimsAgree hc.ncFits

theorem loadBody_truncated (L : Layout ns) (sp : Model ns → Res Unit) (m : Model ns)
    (hc : Consistent L sp m) (k' : Nat) (hk : k' < (m.blobs.flatten ++ m.arrays.flatten).length) :
    ∃ w, loadBody L sp (headerBytes L + k') m.sizes ((m.blobs.flatten ++ m.arrays.flatten).take k') = .reject w := by
  obtain ⟨al, hmk, hnb⟩ := hc.make
  have hsl := save_length L m
  have hbl := blobs_flatten_length L.blobs m.blobs hc.blobsLen
  have hsmall := hc.small
  have harrs := caps_of_consistent L sp m hc hmk
  simp only [List.length_append] at hk
  unfold loadBody
  simp only [hmk]
  rw [if_neg (by simp [hnb])]
  have hlt : ((m.blobs.flatten ++ m.arrays.flatten).take k').length = k' := by
    simp only [List.length_take, List.length_append]; omega
  rw [hlt]
  by_cases hkb : k' < m.blobs.flatten.length
  · rw [if_pos (by unfold blobTotal; omega)]
    exact ⟨_, rfl⟩
  · rw [if_neg (by unfold blobTotal; omega)]
    have htake : (m.blobs.flatten ++ m.arrays.flatten).take k'
        = m.blobs.flatten ++ m.arrays.flatten.take (k' - m.blobs.flatten.length) := by
      rw [List.take_append, List.take_of_length_le (by omega)]
    rw [htake, readBlobs_flatten L.blobs m.blobs _ hc.blobsLen]
    simp only [Res.ok_bind]
    obtain ⟨w, hw⟩ := readArrays_prefix_reject L.intMax (headerBytes L + k') m.sizes (by omega) L.ptrs al.caps m.arrays
      (k' - m.blobs.flatten.length) harrs (by omega) (by omega) (by omega)
    exact ⟨w, by rw [hw]; rfl⟩

theorem truncation_rejected' (L : Layout ns) (hwf : L.WF) (sp : Model ns → Res Unit) (m : Model ns)
    (hc : Consistent L sp m) (k : Nat) (hk : k < (save L m).length) :
    ∃ w, load L sp ((save L m).take k) = .reject w := by
  have hH : (L.header.flatMap (encInt L.intSz)).length = L.header.length * L.intSz := by
    rw [flatMap_enc_length, Nat.mul_comm]
  have hS : (m.sizes.toList.flatMap (encInt L.sizeSz)).length = L.sizeSz * ns := by
    rw [flatMap_enc_length]; simp
  have himg : save L m = L.header.flatMap (encInt L.intSz) ++ (m.sizes.toList.flatMap (encInt L.sizeSz)
      ++ (m.blobs.flatten ++ m.arrays.flatten)) := by
    unfold save; simp [List.append_assoc]
  have hsl := save_length L m
  have hhb : headerBytes L = L.header.length * L.intSz + L.sizeSz * ns := by
    unfold headerBytes; rw [Nat.mul_comm]
  by_cases h1 : k < L.header.length * L.intSz
  · -- cut inside the header
    unfold load loadSizes
    simp only [List.length_take, Nat.min_eq_left (Nat.le_of_lt hk)]
    rw [if_pos h1]; exact ⟨_, rfl⟩
  · by_cases h2 : k < headerBytes L
    · -- cut inside the sizes
      have htake : (save L m).take k = L.header.flatMap (encInt L.intSz)
          ++ (m.sizes.toList.flatMap (encInt L.sizeSz) ++ (m.blobs.flatten ++ m.arrays.flatten)).take (k - L.header.length * L.intSz) := by
        rw [himg, List.take_append, List.take_of_length_le (by omega), hH]
      unfold load loadSizes
      rw [htake]
      simp only [List.length_append, hH, List.length_take, hS]
      rw [if_neg (by omega), rdN_append' _ _ hH]
      simp only
      have hdec : decN L.intSz L.header.length (L.header.flatMap (encInt L.intSz)) = L.header := by
        have := decN_flatMap L.header [] hwf.hdrRange
        simpa using this
      rw [hdec, checkHeader_self]
      simp only [Res.ok_bind, List.length_take, List.length_append, hS]
      rw [if_pos (by omega)]; exact ⟨_, rfl⟩
    · -- header and sizes complete
      have htake : (save L m).take k = L.header.flatMap (encInt L.intSz) ++ m.sizes.toList.flatMap (encInt L.sizeSz)
          ++ (m.blobs.flatten ++ m.arrays.flatten).take (k - headerBytes L) := by
        rw [himg, List.take_append, List.take_of_length_le (by omega), hH, List.take_append,
          List.take_of_length_le (by omega), hS, List.append_assoc]
        congr 3
        omega
      unfold load
      rw [htake, loadSizes_image L hwf m.sizes hc.sizesRange]
      simp only [Res.ok_bind, List.length_append, hH, hS, List.length_take]
      have hk' : k - headerBytes L < (m.blobs.flatten ++ m.arrays.flatten).length := by
        simp only [List.length_append]; omega
      obtain ⟨w, hw⟩ := loadBody_truncated L sp m hc (k - headerBytes L) hk'
      refine ⟨w, ?_⟩
      have hlen : L.header.length * L.intSz + L.sizeSz * ns
          + min (k - headerBytes L) (m.blobs.flatten.length + m.arrays.flatten.length) = headerBytes L + (k - headerBytes L) := by
        simp only [List.length_append] at hk'
        omega
      rw [hlen]
      exact hw


/-! ## reference table -/

theorem refLoop_ok (L : Layout ns) (r : Ref ns) (target : Int) (adrs : List Int) (nums : Option (List Int)) :
    ∀ (todo i : Nat), refLoop L r target adrs nums i todo = .ok () →
      ∀ k, k < todo → refStep L r target adrs nums (i + k) = .ok ()
  | 0, _, _, k, hk => by omega
  | todo + 1, i, h, k, hk => by
    simp only [refLoop] at h
    obtain ⟨u, hu, hrest⟩ := Res.bind_eq_ok h
    cases k with
    | zero => simpa using hu
    | succ k =>
      have := refLoop_ok L r target adrs nums todo (i + 1) hrest k (by omega)
      have e : i + (k + 1) = i + 1 + k := by omega
      rw [e]; exact this

theorem refStep_ok (L : Layout ns) (r : Ref ns) (target : Int) (adrs : List Int) (nums : Option (List Int)) (i : Nat)
    (h : refStep L r target adrs nums i = .ok ()) :
    ∃ adr num, adrs[i]? = some adr ∧ (match nums with | none => some (1 : Int) | some l => l[i]?) = some num ∧
      0 ≤ num ∧ -1 ≤ adr ∧ adr + num ≤ target := by
  unfold refStep at h
  split at h
  · cases h
  · rename_i adr hadr
    split at h
    · cases h
    · rename_i num hnum
      split at h
      · cases h
      · split at h
        · cases h
        · split at h
          · cases h
          · split at h
            · cases h
            · exact ⟨adr, num, hadr, hnum, by omega, by omega, by omega⟩

/-- entry `i` of reference row `r` is within bounds: the address array has an entry `adr`, the
    count is `num` (1 when the row has no count array), `-1 ≤ adr`, `0 ≤ num` and
    `adr + num ≤ sizes[target]` (exact integers: no wrap-around) -/
def RefEntryOK (m : Model ns) (r : Ref ns) (i : Nat) : Prop :=
  ∃ a adr num, m.arrays[r.arr]? = some a ∧ (decInts 4 a)[i]? = some adr ∧
    (match r.num with
      | none => num = 1
      | some k => ∃ b, m.arrays[k]? = some b ∧ (decInts 4 b)[i]? = some num) ∧
    0 ≤ num ∧ -1 ≤ adr ∧ adr + num ≤ m.sizes[r.target]

theorem validateRef_ok (L : Layout ns) (m : Model ns) (r : Ref ns) (h : validateRef L m r = .ok ()) :
    ∀ i : Nat, (i : Int) < m.sizes[r.nadrS] * r.nadrK → RefEntryOK m r i := by
  intro i hi
  unfold validateRef at h
  split at h
  · cases h
  · rename_i a ha
    obtain ⟨nums, hnums, hloop⟩ := Res.bind_eq_ok h
    have hlt : i < (m.sizes[r.nadrS] * (r.nadrK : Int)).toNat := by omega
    have hstep := refLoop_ok L r _ _ nums _ 0 hloop i hlt
    rw [Nat.zero_add] at hstep
    obtain ⟨adr, num, hadr, hnum, h0, h1, h2⟩ := refStep_ok L r _ _ nums i hstep
    refine ⟨a, adr, num, ha, hadr, ?_, h0, h1, h2⟩
    cases hr : r.num with
    | none =>
      simp only [hr, Res.ok.injEq] at hnums
      subst hnums
      simpa using hnum.symm
    | some k =>
      simp only [hr] at hnums
      split at hnums
      · cases hnums
      · rename_i b hb
        simp only [Res.ok.injEq] at hnums
        subst hnums
        exact ⟨b, hb, hnum⟩

theorem validateTable_ok (L : Layout ns) (m : Model ns) : ∀ (rs : List (Ref ns)),
    validateTable L m rs = .ok () → ∀ r ∈ rs, validateRef L m r = .ok ()
  | [], _, r, hr => by simp at hr
  | r0 :: rs, h, r, hr => by
    simp only [validateTable] at h
    obtain ⟨u, hu, hrest⟩ := Res.bind_eq_ok h
    rcases List.mem_cons.mp hr with rfl | hr'
    · exact hu
    · exact validateTable_ok L m rs hrest r hr'

theorem validate_sound' (L : Layout ns) (sp : Model ns → Res Unit) (m : Model ns) (h : validate L sp m = .ok ()) :
    ∀ r ∈ L.refs, ∀ i : Nat, (i : Int) < m.sizes[r.nadrS] * r.nadrK → RefEntryOK m r i := by
  intro r hr
  unfold validate at h
  obtain ⟨u, hu, _⟩ := Res.bind_eq_ok h
  exact validateRef_ok L m r (validateTable_ok L m L.refs hu r hr)


/-! ## hazards -/

theorem checkArgs_not_hazard (L : Layout ns) (s : Sizes ns) : ∀ (names : List String) (i : Nat) (u : Hazard),
    checkArgs L s i names ≠ .hazard u
  | [], i, u => by simp only [checkArgs]; intro h; cases h
  | nm :: rest, i, u => by
    simp only [checkArgs]
    split
    · intro h; cases h
    · split
      · intro h; cases h
      · exact checkArgs_not_hazard L s rest (i + 1) u

theorem allocLoop_not_hazard (L : Layout ns) (sa : Sizes ns) : ∀ (ps : List (Ptr ns)) (off : Nat) (u : Hazard),
    allocLoop L sa ps off ≠ .hazard u
  | [], off, u => by simp only [allocLoop]; intro h; cases h
  | p :: ps, off, u => by
    simp only [allocLoop]
    split
    · intro h; cases h
    · rename_i cap off' _
      have ih := allocLoop_not_hazard L sa ps off'
      cases hr : allocLoop L sa ps off' with
      | reject w => simp only [Res.reject_bind]; intro h; cases h
      | fatal w => simp only [Res.fatal_bind]; intro h; cases h
      | hazard v => exact absurd hr (ih v)
      | ok r => simp only [Res.ok_bind]; intro h; cases h

theorem makeModel_not_hazard (L : Layout ns) (s : Sizes ns) (u : Hazard) : makeModel L s ≠ .hazard u := by
  unfold makeModel
  cases hc : checkArgs L s 0 L.sizeNames with
  | reject w => intro h; cases h
  | fatal w => intro h; cases h
  | hazard v => exact absurd hc (checkArgs_not_hazard L s _ _ v)
  | ok x =>
    show (if s[L.nbody] = 0 then _ else _) ≠ _
    split
    · intro h; cases h
    · split
      · intro h; cases h
      · cases hr : allocLoop L (allocSizes L s) L.ptrs 0 with
        | reject w => simp only [Res.reject_bind]; intro h; cases h
        | fatal w => simp only [Res.fatal_bind]; intro h; cases h
        | hazard v => exact absurd hr (allocLoop_not_hazard L _ _ _ v)
        | ok r => simp only [Res.ok_bind]; intro h; cases h

theorem refStep_not_overread (L : Layout ns) (r : Ref ns) (target : Int) (adrs : List Int) (nums : Option (List Int)) (i : Nat) :
    refStep L r target adrs nums i ≠ .hazard .inputOverread := by
  unfold refStep
  split
  · intro h; cases h
  · split
    · intro h; cases h
    · split
      · intro h; cases h
      · split
        · intro h; cases h
        · split
          · intro h; cases h
          · split
            · intro h; cases h
            · intro h; cases h

theorem refLoop_not_overread (L : Layout ns) (r : Ref ns) (target : Int) (adrs : List Int) (nums : Option (List Int)) :
    ∀ (todo i : Nat), refLoop L r target adrs nums i todo ≠ .hazard .inputOverread
  | 0, i => by simp only [refLoop]; intro h; cases h
  | todo + 1, i => by
    simp only [refLoop]
    cases hs : refStep L r target adrs nums i with
    | reject w => simp only [Res.reject_bind]; intro h; cases h
    | fatal w => simp only [Res.fatal_bind]; intro h; cases h
    | hazard v =>
      simp only [Res.hazard_bind]
      intro h
      have : v = .inputOverread := by simpa using h
      rw [this] at hs
      exact refStep_not_overread L r target adrs nums i hs
    | ok x => simp only [Res.ok_bind]; exact refLoop_not_overread L r target adrs nums todo (i + 1)

theorem validateRef_not_overread (L : Layout ns) (m : Model ns) (r : Ref ns) :
    validateRef L m r ≠ .hazard .inputOverread := by
  unfold validateRef
  split
  · intro h; cases h
  · cases hr : r.num with
    | none => simp only [Res.ok_bind]; exact refLoop_not_overread L r _ _ _ _ _
    | some k =>
      simp only
      split
      · simp only [Res.hazard_bind]; intro h; cases h
      · simp only [Res.ok_bind]; exact refLoop_not_overread L r _ _ _ _ _

theorem validateTable_not_overread (L : Layout ns) (m : Model ns) : ∀ (rs : List (Ref ns)),
    validateTable L m rs ≠ .hazard .inputOverread
  | [] => by simp only [validateTable]; intro h; cases h
  | r :: rs => by
    simp only [validateTable]
    cases hs : validateRef L m r with
    | reject w => simp only [Res.reject_bind]; intro h; cases h
    | fatal w => simp only [Res.fatal_bind]; intro h; cases h
    | hazard v =>
      simp only [Res.hazard_bind]
      intro h
      have : v = .inputOverread := by simpa using h
      rw [this] at hs
      exact validateRef_not_overread L m r hs
    | ok x => simp only [Res.ok_bind]; exact validateTable_not_overread L m rs

def DimOK (intMax : Int) (s : Sizes ns) (p : Ptr ns) : Prop :=
  ∀ ncv, p.ncInt s intMax = .ok ncv → 0 ≤ (p.esz : Int) * s[p.nr] * ncv ∧ (p.esz : Int) * s[p.nr] * ncv < two63

theorem ncInt_hazard (intMax : Int) (s : Sizes ns) (p : Ptr ns) (u : Hazard) (h : p.ncInt s intMax = .hazard u) :
    u ≠ .inputOverread := by
  unfold Ptr.ncInt at h
  split at h
  · cases h
  · simp only at h
    split at h
    · simp only [Res.hazard.injEq] at h; subst h; intro h; cases h
    · cases h

theorem readStep_no_overread (intMax : Int) (len : Nat) (s : Sizes ns) (hlen : len ≤ 2147483647)
    (p : Ptr ns) (c : Nat) (rest : Bytes) (hd : DimOK intMax s p) (hrest : rest.length ≤ len) :
    readStep intMax len s p c rest ≠ .hazard .inputOverread ∧
    ∀ a rest', readStep intMax len s p c rest = .ok (a, rest') → rest'.length ≤ len := by
  cases hnc : p.ncInt s intMax with
  | reject w =>
    simp only [readStep, hnc, Res.reject_bind]
    exact ⟨(by intro h; cases h), (by intro a r h; cases h)⟩
  | fatal w =>
    simp only [readStep, hnc, Res.fatal_bind]
    exact ⟨(by intro h; cases h), (by intro a r h; cases h)⟩
  | hazard u =>
    simp only [readStep, hnc, Res.hazard_bind]
    refine ⟨?_, (by intro a r h; cases h)⟩
    intro h
    simp only [Res.hazard.injEq] at h
    exact ncInt_hazard intMax s p u hnc h
  | ok ncv =>
    obtain ⟨h0, h63⟩ := hd ncv hnc
    obtain ⟨B, hB⟩ : ∃ B : Int, (p.esz : Int) * s[p.nr] * ncv = B := ⟨_, rfl⟩
    simp only [hB] at h0 h63
    simp only [readStep, hnc, Res.ok_bind, hB]
    have hBn : (B % (two64 : Int)).toNat = B.toNat := by
      rw [Int.emod_eq_of_lt h0 (by unfold two63 at h63; unfold two64; omega)]
    rw [hBn]
    have hmod : (len - rest.length + B.toNat) % two64 = len - rest.length + B.toNat :=
      Nat.mod_eq_of_lt (by unfold two63 at h63; unfold two64; omega)
    rw [hmod]
    split
    · exact ⟨(by intro h; cases h), (by intro a r h; cases h)⟩
    · rename_i hfit
      have hBsmall : B.toNat ≤ 2147483647 := by omega
      rw [toI32_small hBsmall]
      rw [if_neg (by omega), if_neg (by omega)]
      simp only [Int.toNat_natCast]
      have hrd : rdN rest B.toNat = some (rest.take B.toNat, rest.drop B.toNat) := by
        unfold rdN; rw [if_pos (by omega)]
      rw [hrd]
      simp only
      split
      · exact ⟨(by intro h; cases h), (by intro a r h; cases h)⟩
      · refine ⟨(by intro h; cases h), ?_⟩
        intro a rest' h
        simp only [Res.ok.injEq, Prod.mk.injEq] at h
        rw [← h.2, List.length_drop]; omega

theorem readArrays_no_overread (intMax : Int) (len : Nat) (s : Sizes ns) (hlen : len ≤ 2147483647) :
    ∀ (ps : List (Ptr ns)) (cs : List Nat) (rest : Bytes),
      (∀ p ∈ ps, DimOK intMax s p) → rest.length ≤ len →
      readArrays intMax len s ps cs rest ≠ .hazard .inputOverread
  | [], _, _, _, _ => by simp only [readArrays]; intro h; cases h
  | _ :: _, [], _, _, _ => by simp only [readArrays]; intro h; cases h
  | p :: ps, c :: cs, rest, hd, hrest => by
    obtain ⟨h1, h2⟩ := readStep_no_overread intMax len s hlen p c rest (hd p (by simp)) hrest
    simp only [readArrays]
    cases hs : readStep intMax len s p c rest with
    | reject w => simp only [Res.reject_bind]; intro h; cases h
    | fatal w => simp only [Res.fatal_bind]; intro h; cases h
    | hazard u =>
      simp only [Res.hazard_bind, ne_eq, Res.hazard.injEq]
      intro hu; rw [hs, hu] at h1; exact h1 rfl
    | ok ar =>
      simp only [Res.ok_bind]
      have ih := readArrays_no_overread intMax len s hlen ps cs ar.2 (fun q hq => hd q (by simp [hq]))
        (h2 ar.1 ar.2 hs)
      cases hr : readArrays intMax len s ps cs ar.2 with
      | reject w => simp only [Res.reject_bind]; intro h; cases h
      | fatal w => simp only [Res.fatal_bind]; intro h; cases h
      | hazard u =>
        simp only [Res.hazard_bind, ne_eq, Res.hazard.injEq]
        intro hu; rw [hr, hu] at ih; exact ih rfl
      | ok r => simp only [Res.ok_bind]; intro h; cases h

theorem readBlobs_facts : ∀ (spec : List (String × Nat)) (rest : Bytes),
    readBlobs spec rest ≠ .hazard .inputOverread ∧
    ∀ bs rest', readBlobs spec rest = .ok (bs, rest') → rest'.length ≤ rest.length
  | [], rest => by
    simp only [readBlobs]
    exact ⟨(by intro h; cases h), (by intro bs r h; simp only [Res.ok.injEq, Prod.mk.injEq] at h; rw [← h.2]; exact Nat.le_refl _)⟩
  | (nm, n) :: spec, rest => by
    simp only [readBlobs]
    cases hrd : rdN rest n with
    | none => exact ⟨(by intro h; cases h), (by intro bs r h; cases h)⟩
    | some ar =>
      obtain ⟨ih1, ih2⟩ := readBlobs_facts spec ar.2
      have hlen : ar.2.length ≤ rest.length := by
        unfold rdN at hrd
        split at hrd
        · simp only [Option.some.injEq] at hrd
          rw [← hrd]; simp only [List.length_drop]; omega
        · cases hrd
      simp only
      cases hr : readBlobs spec ar.2 with
      | reject w => exact ⟨(by intro h; cases h), (by intro bs r h; cases h)⟩
      | fatal w => exact ⟨(by intro h; cases h), (by intro bs r h; cases h)⟩
      | hazard u =>
        refine ⟨?_, (by intro bs r h; cases h)⟩
        intro h
        have : u = .inputOverread := by
          have h' : Res.hazard u = (Res.hazard Hazard.inputOverread : Res (List Bytes × Bytes)) := h
          simpa using h'
        rw [hr, this] at ih1; exact ih1 rfl
      | ok r =>
        refine ⟨(by intro h; cases h), ?_⟩
        intro bs r' h
        have h' : Res.ok (ar.1 :: r.1, r.2) = (Res.ok (bs, r') : Res (List Bytes × Bytes)) := h
        simp only [Res.ok.injEq, Prod.mk.injEq] at h'
        have := ih2 r.1 r.2 (by rw [hr])
        rw [← h'.2]; omega


theorem rdN_some_iff {rest : Bytes} {n : Nat} (h : n ≤ rest.length) : rdN rest n = some (rest.take n, rest.drop n) := by
  unfold rdN; rw [if_pos h]

theorem checkHeader_not_hazard : ∀ (e h : List Int) (msgs : List String) (u : Hazard), checkHeader e h msgs ≠ .hazard u
  | [], _, _, u => by simp only [checkHeader]; intro h; cases h
  | _ :: _, [], _, u => by simp only [checkHeader]; intro h; cases h
  | e :: es, h :: hs, msgs, u => by
    simp only [checkHeader]
    split
    · intro h; cases h
    · exact checkHeader_not_hazard es hs _ u

theorem loadSizes_facts (L : Layout ns) (buf : Bytes) :
    (∀ u, loadSizes L buf ≠ .hazard u) ∧
    ∀ s rest, loadSizes L buf = .ok (s, rest) → rest.length ≤ buf.length := by
  unfold loadSizes
  simp only
  split
  · exact ⟨(by intro u h; cases h), (by intro s r h; cases h)⟩
  · rename_i h1
    rw [rdN_some_iff (by omega)]
    simp only
    cases hc : checkHeader L.header (decN L.intSz L.header.length (List.take (L.header.length * L.intSz) buf)) L.headerMsgs with
    | reject w => exact ⟨(by intro u h; cases h), (by intro s r h; cases h)⟩
    | fatal w => exact ⟨(by intro u h; cases h), (by intro s r h; cases h)⟩
    | hazard v => exact absurd hc (checkHeader_not_hazard _ _ _ v)
    | ok x =>
      simp only [Res.ok_bind]
      split
      · exact ⟨(by intro u h; cases h), (by intro s r h; cases h)⟩
      · rename_i h2
        simp only [List.length_drop] at h2 ⊢
        rw [rdN_some_iff (by simp only [List.length_drop]; omega)]
        simp only
        refine ⟨(by intro u h; cases h), ?_⟩
        intro s r h
        simp only [Res.ok.injEq, Prod.mk.injEq] at h
        rw [← h.2]; simp only [List.length_drop]; omega

/-- **No over-read of the input buffer** when the byte counts computed from the file's sizes do not
    wrap: every `memcpy` out of the caller's buffer stays inside it. -/
theorem load_no_overread (L : Layout ns) (sp : Model ns → Res Unit) (buf : Bytes)
    (hlen : buf.length ≤ 2147483647) (hsp : ∀ m, sp m ≠ .hazard .inputOverread)
    (hdims : ∀ s rest, loadSizes L buf = .ok (s, rest) → ∀ p ∈ L.ptrs, DimOK L.intMax s p) :
    load L sp buf ≠ .hazard .inputOverread := by
  obtain ⟨hs1, hs2⟩ := loadSizes_facts L buf
  unfold load
  cases hls : loadSizes L buf with
  | reject w => intro h; cases h
  | fatal w => intro h; cases h
  | hazard v => exact absurd hls (hs1 v)
  | ok sr =>
    simp only [Res.ok_bind]
    have hr2 := hs2 sr.1 sr.2 hls
    have hd := hdims sr.1 sr.2 hls
    unfold loadBody
    cases hmk : makeModel L sr.1 with
    | reject w => intro h; cases h
    | fatal w => intro h; cases h
    | hazard v => exact absurd hmk (makeModel_not_hazard L _ v)
    | ok al =>
      simp only
      split
      · intro h; cases h
      · split
        · intro h; cases h
        · obtain ⟨hb1, hb2⟩ := readBlobs_facts L.blobs sr.2
          cases hrb : readBlobs L.blobs sr.2 with
          | reject w => intro h; cases h
          | fatal w => intro h; cases h
          | hazard v =>
            simp only [Res.hazard_bind]
            intro h
            have : v = .inputOverread := by simpa using h
            rw [hrb, this] at hb1; exact hb1 rfl
          | ok br =>
            simp only [Res.ok_bind]
            have hbl := hb2 br.1 br.2 hrb
            have hra := readArrays_no_overread L.intMax buf.length sr.1 hlen L.ptrs al.caps br.2 hd (by omega)
            cases hr : readArrays L.intMax buf.length sr.1 L.ptrs al.caps br.2 with
            | reject w => intro h; cases h
            | fatal w => intro h; cases h
            | hazard v =>
              simp only [Res.hazard_bind]
              intro h
              have : v = .inputOverread := by simpa using h
              rw [hr, this] at hra; exact hra rfl
            | ok ar =>
              simp only [Res.ok_bind]
              split
              · intro h; cases h
              · unfold validate
                cases hvt : validateTable L { sizes := sr.1, blobs := br.1, arrays := ar.1 } L.refs with
                | reject w => intro h; cases h
                | fatal w => intro h; cases h
                | hazard v =>
                  simp only [Res.hazard_bind]
                  intro h
                  have : v = .inputOverread := by simpa using h
                  rw [this] at hvt; exact validateTable_not_overread L _ _ hvt
                | ok x =>
                  simp only [Res.ok_bind]
                  cases hspm : sp { sizes := sr.1, blobs := br.1, arrays := ar.1 } with
                  | reject w => intro h; cases h
                  | fatal w => intro h; cases h
                  | hazard v =>
                    simp only [Res.hazard_bind]
                    intro h
                    have : v = .inputOverread := by simpa using h
                    rw [this] at hspm; exact hsp _ hspm
                  | ok y => intro h; cases h


/-! ## memory safety of the copying for checked dimensions -/

theorem allocSizes_get (L : Layout ns) (s : Sizes ns) (i : Fin ns) :
    (allocSizes L s)[i] = if i = L.mapIdx then (L.mapMul : Int) * mapSum L s else if i.val < L.nargs then s[i] else 0 := by
  unfold allocSizes
  simp [Vector.getElem_ofFn]

theorem checkArgs_ok (L : Layout ns) (s : Sizes ns) : ∀ (names : List String) (i : Nat),
    checkArgs L s i names = .ok () → ∀ k, k < names.length →
      0 ≤ argVal L s (i + k) ∧ (argVal L s (i + k) < L.maxArray ∨ L.exemptMax.contains (i + k) = true)
  | [], _, _, k, hk => by simp at hk
  | nm :: rest, i, h, k, hk => by
    simp only [checkArgs] at h
    split at h
    · cases h
    · rename_i h0
      split at h
      · cases h
      · rename_i h1
        cases k with
        | zero =>
          refine ⟨by simpa using Int.not_lt.mp h0, ?_⟩
          by_cases hm : argVal L s i < L.maxArray
          · exact Or.inl (by simpa using hm)
          · right
            have : ¬ (¬ L.exemptMax.contains i = true) := fun hc => h1 ⟨Int.not_lt.mp hm, hc⟩
            simpa using this
        | succ k =>
          have := checkArgs_ok L s rest (i + 1) h k (by simpa using hk)
          have e : i + (k + 1) = i + 1 + k := by omega
          rw [e]; exact this

/-- per-pointer facts established by a successful allocation loop -/
def AllocOK (sa : Sizes ns) : List (Ptr ns) → List Nat → Prop
  | [], [] => True
  | p :: ps, c :: cs => (0 ≤ sa[p.nr] ∧ 0 ≤ p.nc sa ∧ ((c : Nat) : Int) = p.bytes sa ∧ c < two63) ∧ AllocOK sa ps cs
  | _, _ => False

theorem safeAdd_facts {al esz off cap off' : Nat} {nr nc : Int}
    (h : safeAdd al esz nr nc off = some (cap, off')) : 0 ≤ nr ∧ 0 ≤ nc ∧ cap < two63 := by
  unfold safeAdd at h
  split at h
  · cases h
  · rename_i hneg
    split at h
    · cases h
    · split at h
      · cases h
      · simp only at h
        split at h
        · cases h
        · split at h
          · cases h
          · rename_i h63
            simp only [Option.some.injEq, Prod.mk.injEq] at h
            obtain ⟨h1, _⟩ := h
            refine ⟨by omega, by omega, ?_⟩
            omega

theorem allocLoop_facts (L : Layout ns) (sa : Sizes ns) :
    ∀ (ps : List (Ptr ns)) (off : Nat) (caps : List Nat) (tot : Nat),
      allocLoop L sa ps off = .ok (caps, tot) → AllocOK sa ps caps
  | [], off, caps, tot, h => by
    simp only [allocLoop, Res.ok.injEq, Prod.mk.injEq] at h
    rw [← h.1]; trivial
  | p :: ps, off, caps, tot, h => by
    simp only [allocLoop] at h
    split at h
    · cases h
    · rename_i cap off' hs
      obtain ⟨r, hr, hr2⟩ := Res.bind_eq_ok h
      simp only [Res.ok.injEq, Prod.mk.injEq] at hr2
      rw [← hr2.1]
      obtain ⟨f1, f2, f3⟩ := safeAdd_facts hs
      refine ⟨⟨f1, f2, ?_, f3⟩, allocLoop_facts L sa ps off' r.1 r.2 (by rw [hr])⟩
      rw [safeAdd_cap hs]; rfl


/-- the byte count the read loop computes for `p` from sizes `s` is exactly the capacity `cap`
    allocated for it (and below 2^63) -/
def StepSafe (intMax : Int) (s : Sizes ns) (p : Ptr ns) (cap : Nat) : Prop :=
  ∀ ncv, p.ncInt s intMax = .ok ncv → (p.esz : Int) * s[p.nr] * ncv = (cap : Int) ∧ cap < two63

theorem ncInt_hazard_notCopy (intMax : Int) (s : Sizes ns) (p : Ptr ns) (u : Hazard) (h : p.ncInt s intMax = .hazard u) :
    u.isCopy = false := by
  unfold Ptr.ncInt at h
  split at h
  · cases h
  · simp only at h
    split at h
    · simp only [Res.hazard.injEq] at h; subst h; rfl
    · cases h

theorem readStep_safe (intMax : Int) (len : Nat) (s : Sizes ns) (hlen : len ≤ 2147483647)
    (p : Ptr ns) (c : Nat) (rest : Bytes) (hd : StepSafe intMax s p c) (hrest : rest.length ≤ len) :
    (∀ u, readStep intMax len s p c rest = .hazard u → u.isCopy = false) ∧
    ∀ a rest', readStep intMax len s p c rest = .ok (a, rest') → rest'.length ≤ len := by
  cases hnc : p.ncInt s intMax with
  | reject w =>
    simp only [readStep, hnc, Res.reject_bind]
    exact ⟨(by intro u h; cases h), (by intro a r h; cases h)⟩
  | fatal w =>
    simp only [readStep, hnc, Res.fatal_bind]
    exact ⟨(by intro u h; cases h), (by intro a r h; cases h)⟩
  | hazard v =>
    simp only [readStep, hnc, Res.hazard_bind]
    refine ⟨?_, (by intro a r h; cases h)⟩
    intro u h
    simp only [Res.hazard.injEq] at h
    rw [← h]; exact ncInt_hazard_notCopy intMax s p v hnc
  | ok ncv =>
    obtain ⟨hB, h63⟩ := hd ncv hnc
    simp only [readStep, hnc, Res.ok_bind, hB]
    have hBn : (((c : Nat) : Int) % (two64 : Int)).toNat = c := by
      rw [Int.emod_eq_of_lt (by omega) (by unfold two63 at h63; unfold two64; omega)]
      simp
    rw [hBn]
    have hmod : (len - rest.length + c) % two64 = len - rest.length + c :=
      Nat.mod_eq_of_lt (by unfold two63 at h63; unfold two64; omega)
    rw [hmod]
    split
    · exact ⟨(by intro u h; cases h), (by intro a r h; cases h)⟩
    · rename_i hfit
      have hBsmall : c ≤ 2147483647 := by omega
      rw [toI32_small hBsmall]
      rw [if_neg (by omega), if_neg (by omega)]
      simp only [Int.toNat_natCast]
      have hrd : rdN rest c = some (rest.take c, rest.drop c) := by
        unfold rdN; rw [if_pos (by omega)]
      rw [hrd]
      simp only
      rw [if_neg (by omega)]
      refine ⟨(by intro u h; cases h), ?_⟩
      intro a rest' h
      simp only [Res.ok.injEq, Prod.mk.injEq] at h
      rw [← h.2, List.length_drop]; omega

/-- the pointer / capacity lists are step-safe pairwise -/
def StepsSafe (intMax : Int) (s : Sizes ns) : List (Ptr ns) → List Nat → Prop
  | [], _ => True
  | p :: ps, c :: cs => StepSafe intMax s p c ∧ StepsSafe intMax s ps cs
  | _ :: _, [] => True

theorem readArrays_safe (intMax : Int) (len : Nat) (s : Sizes ns) (hlen : len ≤ 2147483647) :
    ∀ (ps : List (Ptr ns)) (cs : List Nat) (rest : Bytes),
      StepsSafe intMax s ps cs → rest.length ≤ len →
      ∀ u, readArrays intMax len s ps cs rest = .hazard u → u.isCopy = false
  | [], _, _, _, _, u, h => by simp only [readArrays] at h; cases h
  | _ :: _, [], _, _, _, u, h => by
    simp only [readArrays, Res.hazard.injEq] at h; rw [← h]; rfl
  | p :: ps, c :: cs, rest, hd, hrest, u, h => by
    obtain ⟨h1, h2⟩ := readStep_safe intMax len s hlen p c rest hd.1 hrest
    simp only [readArrays] at h
    cases hs : readStep intMax len s p c rest with
    | reject w => rw [hs] at h; cases h
    | fatal w => rw [hs] at h; cases h
    | hazard v =>
      rw [hs] at h
      simp only [Res.hazard_bind, Res.hazard.injEq] at h
      rw [← h]; exact h1 v hs
    | ok ar =>
      rw [hs] at h
      simp only [Res.ok_bind] at h
      have ih := readArrays_safe intMax len s hlen ps cs ar.2 hd.2 (h2 ar.1 ar.2 hs)
      cases hr : readArrays intMax len s ps cs ar.2 with
      | reject w => rw [hr] at h; cases h
      | fatal w => rw [hr] at h; cases h
      | hazard v =>
        rw [hr] at h
        simp only [Res.hazard_bind, Res.hazard.injEq] at h
        rw [← h]; exact ih v hr
      | ok r => rw [hr] at h; cases h


/-- every dimension of `p` is a checked positional parameter of `mj_makeModel`: the row count is a
    parameter other than the computed `nnames_map`, and so is the `MJ_M(...)` column size, which is
    moreover subject to the `< MAX_ARRAY_SIZE` test -/
def Ptr.NcChecked (L : Layout ns) (p : Ptr ns) : Prop :=
  ∀ j, p.ncS = some j → (j.val < L.nargs ∧ j ≠ L.mapIdx ∧ L.exemptMax.contains j.val = false)

def Ptr.Checked (L : Layout ns) (p : Ptr ns) : Prop :=
  (p.nr.val < L.nargs ∧ p.nr ≠ L.mapIdx) ∧ p.NcChecked L

instance (L : Layout ns) (p : Ptr ns) : Decidable (p.NcChecked L) := by
  unfold Ptr.NcChecked
  cases h : p.ncS with
  | none => exact isTrue (by intro j hj; cases hj)
  | some j =>
    exact decidable_of_iff (j.val < L.nargs ∧ j ≠ L.mapIdx ∧ L.exemptMax.contains j.val = false)
      (by simp)

instance (L : Layout ns) (p : Ptr ns) : Decidable (p.Checked L) := by unfold Ptr.Checked; infer_instance

/-- layout conditions used by the memory-safety theorem -/
structure Layout.WF2 (L : Layout ns) : Prop where
  names : L.sizeNames.length = ns
  maxArr : L.maxArray ≤ 2147483648

theorem toI32_id {v : Int} (h0 : 0 ≤ v) (h1 : v < 2147483648) : toI32 v = v := by
  unfold toI32
  have : (v + 2147483648) % 4294967296 = v + 2147483648 := Int.emod_eq_of_lt (by omega) (by omega)
  omega

theorem stepSafe_of_checked (L : Layout ns) (hL : L.WF2) (s : Sizes ns)
    (hca : checkArgs L s 0 L.sizeNames = .ok ()) (p : Ptr ns) (hnc : p.NcChecked L)
    (hsa_nr : (allocSizes L s)[p.nr] = s[p.nr]) (c : Nat)
    (hc : 0 ≤ (allocSizes L s)[p.nr] ∧ 0 ≤ p.nc (allocSizes L s) ∧ ((c : Nat) : Int) = p.bytes (allocSizes L s) ∧ c < two63) :
    StepSafe L.intMax s p c := by
  obtain ⟨_, _, hcap, h63⟩ := hc
  intro ncv hncv
  refine ⟨?_, h63⟩
  unfold Ptr.bytes at hcap
  rw [hcap, hsa_nr]
  unfold Ptr.ncInt at hncv
  unfold Ptr.nc
  cases hj : p.ncS with
  | none =>
    simp only [hj, Res.ok.injEq] at hncv
    rw [← hncv]
  | some j =>
    obtain ⟨hj1, hj2, hj3⟩ := hnc j hj
    have hsa_j : (allocSizes L s)[j] = s[j] := by
      rw [allocSizes_get, if_neg hj2, if_pos hj1]
    have harg := checkArgs_ok L s L.sizeNames 0 hca j.val (by rw [hL.names]; exact j.isLt)
    rw [Nat.zero_add] at harg
    have hav : argVal L s j.val = s[j] := by
      unfold argVal
      rw [dif_pos ⟨hj1, j.isLt⟩]
      rfl
    rw [hav, hj3] at harg
    have hlt : s[j] < L.maxArray := by
      rcases harg.2 with h | h
      · exact h
      · cases h
    have hmx := hL.maxArr
    have hid : toI32 s[j] = s[j] := toI32_id harg.1 (by omega)
    simp only [hj, hid] at hncv
    split at hncv
    · cases hncv
    · simp only [Res.ok.injEq] at hncv
      rw [← hncv]
      simp only [hsa_j]

theorem stepsSafe_of_checked (L : Layout ns) (hL : L.WF2) (s : Sizes ns)
    (hca : checkArgs L s 0 L.sizeNames = .ok ()) :
    ∀ (ps : List (Ptr ns)) (cs : List Nat), AllocOK (allocSizes L s) ps cs →
      (∀ p ∈ ps, p.NcChecked L ∧ (allocSizes L s)[p.nr] = s[p.nr]) →
      StepsSafe L.intMax s ps cs
  | [], _, _, _ => trivial
  | p :: ps, c :: cs, ha, hp =>
    ⟨stepSafe_of_checked L hL s hca p (hp p (by simp)).1 (hp p (by simp)).2 c ha.1,
     stepsSafe_of_checked L hL s hca ps cs ha.2 (fun q hq => hp q (by simp [hq]))⟩
  | _ :: _, [], _, _ => trivial


theorem refStep_notCopy (L : Layout ns) (r : Ref ns) (target : Int) (adrs : List Int) (nums : Option (List Int)) (i : Nat)
    (u : Hazard) (h : refStep L r target adrs nums i = .hazard u) : u.isCopy = false := by
  unfold refStep at h
  split at h
  · simp only [Res.hazard.injEq] at h; rw [← h]; rfl
  · split at h
    · simp only [Res.hazard.injEq] at h; rw [← h]; rfl
    · split at h
      · cases h
      · split at h
        · cases h
        · split at h
          · simp only [Res.hazard.injEq] at h; rw [← h]; rfl
          · split at h
            · cases h
            · cases h

theorem refLoop_notCopy (L : Layout ns) (r : Ref ns) (target : Int) (adrs : List Int) (nums : Option (List Int)) :
    ∀ (todo i : Nat) (u : Hazard), refLoop L r target adrs nums i todo = .hazard u → u.isCopy = false
  | 0, i, u, h => by simp only [refLoop] at h; cases h
  | todo + 1, i, u, h => by
    simp only [refLoop] at h
    cases hs : refStep L r target adrs nums i with
    | reject w => rw [hs] at h; cases h
    | fatal w => rw [hs] at h; cases h
    | hazard v =>
      rw [hs] at h
      simp only [Res.hazard_bind, Res.hazard.injEq] at h
      rw [← h]; exact refStep_notCopy L r target adrs nums i v hs
    | ok x =>
      rw [hs] at h
      exact refLoop_notCopy L r target adrs nums todo (i + 1) u h

theorem validateRef_notCopy (L : Layout ns) (m : Model ns) (r : Ref ns) (u : Hazard)
    (h : validateRef L m r = .hazard u) : u.isCopy = false := by
  unfold validateRef at h
  split at h
  · simp only [Res.hazard.injEq] at h; rw [← h]; rfl
  · cases hr : r.num with
    | none =>
      simp only [hr, Res.ok_bind] at h
      exact refLoop_notCopy L r _ _ _ _ _ u h
    | some k =>
      simp only [hr] at h
      split at h
      · simp only [Res.hazard_bind, Res.hazard.injEq] at h; rw [← h]; rfl
      · simp only [Res.ok_bind] at h
        exact refLoop_notCopy L r _ _ _ _ _ u h

theorem validateTable_notCopy (L : Layout ns) (m : Model ns) : ∀ (rs : List (Ref ns)) (u : Hazard),
    validateTable L m rs = .hazard u → u.isCopy = false
  | [], u, h => by simp only [validateTable] at h; cases h
  | r :: rs, u, h => by
    simp only [validateTable] at h
    cases hs : validateRef L m r with
    | reject w => rw [hs] at h; cases h
    | fatal w => rw [hs] at h; cases h
    | hazard v =>
      rw [hs] at h
      simp only [Res.hazard_bind, Res.hazard.injEq] at h
      rw [← h]; exact validateRef_notCopy L m r v hs
    | ok x =>
      rw [hs] at h
      exact validateTable_notCopy L m rs u h

theorem readBlobs_no_hazard : ∀ (spec : List (String × Nat)) (rest : Bytes) (u : Hazard),
    readBlobs spec rest ≠ .hazard u
  | [], rest, u => by simp only [readBlobs]; intro h; cases h
  | (nm, n) :: spec, rest, u => by
    simp only [readBlobs]
    cases hrd : rdN rest n with
    | none => intro h; cases h
    | some ar =>
      simp only
      cases hr : readBlobs spec ar.2 with
      | reject w => intro h; cases h
      | fatal w => intro h; cases h
      | hazard v => exact absurd hr (readBlobs_no_hazard spec ar.2 v)
      | ok r => intro h; cases h

/-- **Memory safety of the loader's copying.**  If every `MJ_M(...)` column size of the layout is a
    checked `mj_makeModel` parameter, then for EVERY buffer (of a length an `int` can hold) in which the
    row-count fields agree with what `mj_makeModel` allocated with, the loader never reads past the
    end of the buffer and never copies more bytes into a model array than were allocated for it. -/
theorem load_copy_safe_of_rows (L : Layout ns) (hL : L.WF2) (hnc : ∀ p ∈ L.ptrs, p.NcChecked L)
    (sp : Model ns → Res Unit) (hsp : ∀ m u, sp m = .hazard u → u.isCopy = false)
    (buf : Bytes) (hlen : buf.length ≤ 2147483647)
    (hrows : ∀ s rest, loadSizes L buf = .ok (s, rest) → ∀ p ∈ L.ptrs, (allocSizes L s)[p.nr] = s[p.nr]) :
    ∀ u, load L sp buf = .hazard u → u.isCopy = false := by
  intro u h
  obtain ⟨hs1, hs2⟩ := loadSizes_facts L buf
  unfold load at h
  cases hls : loadSizes L buf with
  | reject w => rw [hls] at h; cases h
  | fatal w => rw [hls] at h; cases h
  | hazard v => exact absurd hls (hs1 v)
  | ok sr =>
    rw [hls] at h
    simp only [Res.ok_bind] at h
    have hr2 := hs2 sr.1 sr.2 hls
    unfold loadBody at h
    cases hmk : makeModel L sr.1 with
    | reject w => rw [hmk] at h; cases h
    | fatal w => rw [hmk] at h; cases h
    | hazard v => exact absurd hmk (makeModel_not_hazard L _ v)
    | ok al =>
      rw [hmk] at h
      simp only at h
      -- facts from the successful mj_makeModel
      have hfacts : checkArgs L sr.1 0 L.sizeNames = .ok () ∧ AllocOK (allocSizes L sr.1) L.ptrs al.caps := by
        unfold makeModel at hmk
        obtain ⟨x, hx, hmk⟩ := Res.bind_eq_ok hmk
        cases x
        refine ⟨hx, ?_⟩
        split at hmk
        · cases hmk
        · split at hmk
          · cases hmk
          · obtain ⟨r, hr, hr2'⟩ := Res.bind_eq_ok hmk
            simp only [Res.ok.injEq] at hr2'
            rw [← hr2']
            exact allocLoop_facts L _ L.ptrs 0 r.1 r.2 (by rw [hr])
      have hsafe := stepsSafe_of_checked L hL sr.1 hfacts.1 L.ptrs al.caps hfacts.2
        (fun p hp => ⟨hnc p hp, hrows sr.1 sr.2 hls p hp⟩)
      split at h
      · cases h
      · split at h
        · cases h
        · obtain ⟨_, hb2⟩ := readBlobs_facts L.blobs sr.2
          cases hrb : readBlobs L.blobs sr.2 with
          | reject w => rw [hrb] at h; cases h
          | fatal w => rw [hrb] at h; cases h
          | hazard v => exact absurd hrb (readBlobs_no_hazard _ _ v)
          | ok br =>
            rw [hrb] at h
            simp only [Res.ok_bind] at h
            have hbl := hb2 br.1 br.2 hrb
            have hra := readArrays_safe L.intMax buf.length sr.1 hlen L.ptrs al.caps br.2 hsafe (by omega)
            cases hr : readArrays L.intMax buf.length sr.1 L.ptrs al.caps br.2 with
            | reject w => rw [hr] at h; cases h
            | fatal w => rw [hr] at h; cases h
            | hazard v =>
              rw [hr] at h
              simp only [Res.hazard_bind, Res.hazard.injEq] at h
              rw [← h]; exact hra v hr
            | ok ar =>
              rw [hr] at h
              simp only [Res.ok_bind] at h
              split at h
              · cases h
              · unfold validate at h
                cases hvt : validateTable L { sizes := sr.1, blobs := br.1, arrays := ar.1 } L.refs with
                | reject w => rw [hvt] at h; cases h
                | fatal w => rw [hvt] at h; cases h
                | hazard v =>
                  rw [hvt] at h
                  simp only [Res.hazard_bind, Res.hazard.injEq] at h
                  rw [← h]; exact validateTable_notCopy L _ _ v hvt
                | ok x =>
                  rw [hvt] at h
                  simp only [Res.ok_bind] at h
                  cases hspm : sp { sizes := sr.1, blobs := br.1, arrays := ar.1 } with
                  | reject w => rw [hspm] at h; cases h
                  | fatal w => rw [hspm] at h; cases h
                  | hazard v =>
                    rw [hspm] at h
                    simp only [Res.hazard_bind, Res.hazard.injEq] at h
                    rw [← h]; exact hsp _ v hspm
                  | ok y => rw [hspm] at h; cases h


/-- **Layouts without unchecked dimensions are memory safe on every buffer.** -/
theorem load_copy_safe (L : Layout ns) (hL : L.WF2) (hall : ∀ p ∈ L.ptrs, p.Checked L)
    (sp : Model ns → Res Unit) (hsp : ∀ m u, sp m = .hazard u → u.isCopy = false)
    (buf : Bytes) (hlen : buf.length ≤ 2147483647) :
    ∀ u, load L sp buf = .hazard u → u.isCopy = false :=
  load_copy_safe_of_rows L hL (fun p hp => (hall p hp).2) sp hsp buf hlen
    (fun s _ _ p hp => by
      obtain ⟨⟨h1, h2⟩, _⟩ := hall p hp
      rw [allocSizes_get, if_neg h2, if_pos h1])


/-! ## the special logic never copies -/

/-- `x` never ends in a copying hazard -/
def NoCopy {α : Type} (x : Res α) : Prop := ∀ u, x = .hazard u → u.isCopy = false

theorem NoCopy.ok {α : Type} (a : α) : NoCopy (Res.ok a) := by intro u h; cases h
theorem NoCopy.pure {α : Type} (a : α) : NoCopy (pure a : Res α) := by intro u h; cases h
theorem NoCopy.reject {α : Type} (w : String) : NoCopy (Res.reject w : Res α) := by intro u h; cases h
theorem NoCopy.fatal {α : Type} (w : String) : NoCopy (Res.fatal w : Res α) := by intro u h; cases h
theorem NoCopy.hazard {α : Type} {u : Hazard} (hu : u.isCopy = false) : NoCopy (Res.hazard u : Res α) := by
  intro v h; simp only [Res.hazard.injEq] at h; rw [← h]; exact hu

theorem NoCopy.rbind {α β : Type} {x : Res α} {f : α → Res β} (hx : NoCopy x) (hf : ∀ a, NoCopy (f a)) :
    NoCopy (x.bind f) := by
  intro u h
  cases x with
  | ok a => exact hf a u h
  | reject w => cases h
  | fatal w => cases h
  | hazard v => simp only [Res.hazard_bind, Res.hazard.injEq] at h; rw [← h]; exact hx v rfl

theorem NoCopy.bind {α β : Type} {x : Res α} {f : α → Res β} (hx : NoCopy x) (hf : ∀ a, NoCopy (f a)) :
    NoCopy (x >>= f) := NoCopy.rbind hx hf

theorem NoCopy.ite {α : Type} {c : Prop} [Decidable c] {a b : Res α} (ha : NoCopy a) (hb : NoCopy b) :
    NoCopy (if c then a else b) := by
  split <;> assumption

namespace Special

theorem sizeByName_nc (c : Ctx ns) (n : String) : NoCopy (sizeByName c n) := by
  unfold sizeByName
  split
  · split
    · exact NoCopy.ok _
    · exact NoCopy.hazard rfl
  · exact NoCopy.hazard rfl

theorem arr_nc (c : Ctx ns) (n : String) : NoCopy (arr c n) := by
  unfold arr
  split
  · exact NoCopy.hazard rfl
  · split
    · exact NoCopy.hazard rfl
    · exact NoCopy.ok _

theorem get_nc (a : List Int) (i : Int) (w : String) : NoCopy (get a i w) := by
  unfold get
  split
  · exact NoCopy.hazard rfl
  · split
    · exact NoCopy.ok _
    · exact NoCopy.hazard rfl

theorem check_nc (c : Prop) [Decidable c] (m : String) : NoCopy (check c m) := by
  unfold check; split
  · exact NoCopy.reject _
  · exact NoCopy.ok _

theorem ub_nc (c : Prop) [Decidable c] {u : Hazard} (hu : u.isCopy = false) : NoCopy (ub c u) := by
  unfold ub; split
  · exact NoCopy.hazard hu
  · exact NoCopy.ok _

theorem forLoop_nc {f : Nat → Res Unit} (hf : ∀ i, NoCopy (f i)) : ∀ (todo i : Nat), NoCopy (forLoop f i todo)
  | 0, _ => NoCopy.ok _
  | todo + 1, i => by
    simp only [forLoop]
    exact NoCopy.rbind (hf i) (fun _ => forLoop_nc hf todo (i + 1))

theorem forN_nc {f : Nat → Res Unit} (n : Int) (hf : ∀ i, NoCopy (f i)) : NoCopy (forN n f) := by
  unfold forN; exact forLoop_nc hf _ _

theorem forLoopCount_nc {f : Nat → Res Bool} (hf : ∀ i, NoCopy (f i)) : ∀ (todo b acc : Nat), NoCopy (forLoopCount f b todo acc)
  | 0, _, _ => NoCopy.ok _
  | todo + 1, b, acc => by
    simp only [forLoopCount]
    exact NoCopy.rbind (hf b) (fun _ => forLoopCount_nc hf todo (b + 1) _)

theorem numObjectsOf_nc (S : Special) (c : Ctx ns) (t : Int) : NoCopy (numObjectsOf S c t) := by
  unfold numObjectsOf
  split
  · exact NoCopy.ok _
  · exact sizeByName_nc _ _
  · exact NoCopy.ok _

end Special
attribute [irreducible] NoCopy
namespace Special

macro "nocopy" : tactic => `(tactic|
  repeat' (first
    | intro _
    | exact NoCopy.ok _
    | exact NoCopy.pure _
    | exact NoCopy.reject _
    | exact NoCopy.fatal _
    | exact NoCopy.hazard rfl
    | exact sizeByName_nc _ _
    | exact arr_nc _ _
    | exact get_nc _ _ _
    | exact check_nc _ _
    | exact ub_nc _ rfl
    | exact numObjectsOf_nc _ _ _
    | apply forN_nc
    | apply forLoopCount_nc
    | apply NoCopy.bind
    | apply NoCopy.rbind
    | apply NoCopy.ite))

theorem bodies_nc (c : Ctx ns) : NoCopy (bodies c) := by unfold bodies; nocopy
theorem joints_nc (S : Special) (c : Ctx ns) : NoCopy (joints S c) := by unfold joints; nocopy
theorem dofs_nc (c : Ctx ns) : NoCopy (dofs c) := by unfold dofs; nocopy
theorem geoms_nc (S : Special) (c : Ctx ns) : NoCopy (geoms S c) := by unfold geoms; nocopy
theorem hfields_nc (S : Special) (c : Ctx ns) : NoCopy (hfields S c) := by unfold hfields; nocopy
theorem textures_nc (S : Special) (c : Ctx ns) : NoCopy (textures S c) := by unfold textures; nocopy
theorem signature_nc (c : Ctx ns) (a b w : String) : NoCopy (signature c a b w) := by unfold signature; nocopy
theorem equalities_nc (S : Special) (c : Ctx ns) : NoCopy (equalities S c) := by unfold equalities; nocopy
theorem wraps_nc (S : Special) (c : Ctx ns) : NoCopy (wraps S c) := by unfold wraps; nocopy
theorem actuators_nc (S : Special) (c : Ctx ns) : NoCopy (actuators S c) := by unfold actuators; nocopy
theorem sensors_nc (S : Special) (c : Ctx ns) : NoCopy (sensors S c) := by unfold sensors; nocopy
theorem tuples_nc (S : Special) (c : Ctx ns) : NoCopy (tuples S c) := by unfold tuples; nocopy

theorem run_nc (S : Special) (c : Ctx ns) : NoCopy (run S c) := by
  unfold run
  repeat' (first
    | intro _
    | exact bodies_nc _ | exact joints_nc _ _ | exact dofs_nc _ | exact geoms_nc _ _ | exact hfields_nc _ _
    | exact textures_nc _ _ | exact signature_nc _ _ _ _ | exact equalities_nc _ _ | exact wraps_nc _ _
    | exact actuators_nc _ _ | exact sensors_nc _ _ | exact tuples_nc _ _
    | apply NoCopy.bind)

end Special

/-- the special logic of the tree never ends in a copying hazard (it only reads the model) -/
theorem specialOf_noCopy (L : Layout ns) (S : Special) (m : Model ns) (u : Hazard)
    (h : specialOf L S m = .hazard u) : u.isCopy = false := by
  have := Special.run_nc S { L := L, m := m }
  unfold NoCopy at this
  exact this u h


/-! ## the executable consistency check is sound -/

theorem lensOKB_sound (s : Sizes ns) : ∀ (ps : List (Ptr ns)) (as : List Bytes), lensOKB s ps as = true → LensOK s ps as
  | [], [], _ => trivial
  | p :: ps, a :: as, h => by
    simp only [lensOKB, Bool.and_eq_true, decide_eq_true_eq] at h
    exact ⟨h.1, lensOKB_sound s ps as h.2⟩
  | [], _ :: _, h => by simp [lensOKB] at h
  | _ :: _, [], h => by simp [lensOKB] at h

theorem consistentB_sound (L : Layout ns) (sp : Model ns → Res Unit) (m : Model ns)
    (h : consistentB L sp m = true) : Consistent L sp m := by
  unfold consistentB at h
  simp only [Bool.and_eq_true, List.all_eq_true, decide_eq_true_eq] at h
  obtain ⟨⟨⟨⟨⟨⟨⟨h1, h2⟩, h3⟩, h4⟩, h5⟩, h6⟩, h7⟩, h8⟩ := h
  refine ⟨h1, ?_, h3, h4, h5, lensOKB_sound _ _ _ h6, h7, h8⟩
  split at h2
  · rename_i al hal
    exact ⟨al, hal, by simpa using h2⟩
  · cases h2

end MjProof.Mjb
