/-
Helper lemmas for the MJB model (`MjProof/Model/Mjb.lean`): little-endian encoding round trip,
consumption of a saved image stage by stage, capacities computed by the allocation loop.
Core Lean only (no Mathlib needed).
-/
import MjProof.Model.Mjb
namespace MjProof.Mjb

/-! ## encoding -/

theorem leBytes_length (n v : Nat) : (leBytes n v).length = n := by
  induction n generalizing v with
  | zero => rfl
  | succ n ih => simp [leBytes, ih]

theorem leNat_leBytes (n v : Nat) : leNat (leBytes n v) = v % 256 ^ n := by
  induction n generalizing v with
  | zero => simp [leBytes, leNat, Nat.mod_one]
  | succ n ih =>
    simp only [leBytes, leNat, ih]
    have h1 : (UInt8.ofNat (v % 256)).toNat = v % 256 := by
      simp [UInt8.toNat_ofNat']
    rw [h1, Nat.pow_succ, Nat.mul_comm (256 ^ n) 256, Nat.mod_mul, Nat.add_comm]

/-- `v` fits in `n` bytes, two's complement -/
def InRange (n : Nat) (v : Int) : Prop := -((256 : Int) ^ n) ≤ 2 * v ∧ 2 * v < (256 : Int) ^ n

instance (n : Nat) (v : Int) : Decidable (InRange n v) := by unfold InRange; infer_instance

theorem encInt_length (n : Nat) (v : Int) : (encInt n v).length = n := leBytes_length _ _

theorem decInt_encInt {n : Nat} {v : Int} (h : InRange n v) : decInt (encInt n v) = v := by
  unfold decInt
  simp only [encInt_length]
  have hM : (0 : Int) < (256 : Int) ^ n := Int.pow_pos (by decide)
  have hu : ((leNat (encInt n v) : Nat) : Int) = v % (256 : Int) ^ n := by
    unfold encInt
    rw [leNat_leBytes]
    have h0 : 0 ≤ v % (256 : Int) ^ n := Int.emod_nonneg _ (Int.ne_of_gt hM)
    have hlt : v % (256 : Int) ^ n < (256 : Int) ^ n := Int.emod_lt_of_pos _ hM
    have : ((v % (256 : Int) ^ n).toNat : Int) = v % (256 : Int) ^ n := Int.toNat_of_nonneg h0
    have hcast : ((256 ^ n : Nat) : Int) = (256 : Int) ^ n := by simp
    rw [Int.natCast_emod, this, hcast]
    exact Int.emod_eq_of_lt h0 hlt
  simp only [hu]
  obtain ⟨hlo, hhi⟩ := h
  by_cases hv : 0 ≤ v
  · have : v % (256 : Int) ^ n = v := Int.emod_eq_of_lt hv (by omega)
    rw [this]; simp; omega
  · have h2 : v % (256 : Int) ^ n = v + (256 : Int) ^ n := by
      have : (v + (256 : Int) ^ n) % (256 : Int) ^ n = v % (256 : Int) ^ n := by simp
      rw [← this]
      exact Int.emod_eq_of_lt (by omega) (by omega)
    rw [h2]
    have : ¬ (2 * (v + (256 : Int) ^ n) < (256 : Int) ^ n) := by omega
    simp [this]

variable {ns : Nat}

/-! ## Res -/

@[simp] theorem Res.ok_bind {α β : Type} (a : α) (f : α → Res β) : (Res.ok a).bind f = f a := rfl
@[simp] theorem Res.reject_bind {α β : Type} (w : String) (f : α → Res β) : (Res.reject w).bind f = .reject w := rfl
@[simp] theorem Res.fatal_bind {α β : Type} (w : String) (f : α → Res β) : (Res.fatal w).bind f = .fatal w := rfl
@[simp] theorem Res.hazard_bind {α β : Type} (u : Hazard) (f : α → Res β) : (Res.hazard u).bind f = .hazard u := rfl

theorem Res.bind_eq_ok {α β : Type} {x : Res α} {f : α → Res β} {b : β} (h : x.bind f = .ok b) :
    ∃ a, x = .ok a ∧ f a = .ok b := by
  cases x <;> simp [Res.bind] at h ⊢
  exact h

theorem flatMap_enc_length (w : Nat) (l : List Int) : (l.flatMap (encInt w)).length = w * l.length := by
  induction l with
  | nil => simp
  | cons a t ih => simp [List.flatMap_cons, encInt_length, ih, Nat.mul_succ]; omega

theorem decN_flatMap {w : Nat} (l : List Int) (rest : Bytes) (h : ∀ v ∈ l, InRange w v) :
    decN w l.length (l.flatMap (encInt w) ++ rest) = l := by
  induction l with
  | nil => rfl
  | cons a t ih =>
    have ha : InRange w a := h a (by simp)
    have ht : ∀ v ∈ t, InRange w v := fun v hv => h v (by simp [hv])
    simp only [List.flatMap_cons, List.length_cons, decN, List.append_assoc]
    rw [List.take_left' (encInt_length w a), List.drop_left' (encInt_length w a), decInt_encInt ha, ih ht]

theorem checkHeader_self (h : List Int) (msgs : List String) : checkHeader h h msgs = .ok () := by
  induction h generalizing msgs with
  | nil => rfl
  | cons a t ih => simp [checkHeader, ih]

theorem vec_eq_of_toList {v : Vector Int ns} {l : List Int} (hl : l.length = ns) (h : l = v.toList) :
    (⟨l.toArray, by simpa using hl⟩ : Vector Int ns) = v := by
  subst h
  cases v with
  | mk a ha => simp [Vector.toList]


/-! ## reading a saved image -/

theorem rdN_append' {n : Nat} (a b : Bytes) (h : a.length = n) : rdN (a ++ b) n = some (a, b) := by
  subst h; simp [rdN]

/-- per-pointer consistency: `nc` evaluates without `int` overflow, the array has exactly
    `sizeof(type)*nr*nc` bytes and fits the capacity allocated for it -/
def ArrOK (intMax : Int) (s : Sizes ns) (p : Ptr ns) (cap : Nat) (a : Bytes) : Prop :=
  p.ncInt s intMax = .ok (p.nc s) ∧ (a.length : Int) = p.bytes s ∧ a.length ≤ cap

def ArrsOK (intMax : Int) (s : Sizes ns) : List (Ptr ns) → List Nat → List Bytes → Prop
  | [], [], [] => True
  | p :: ps, c :: cs, a :: as => ArrOK intMax s p c a ∧ ArrsOK intMax s ps cs as
  | _, _, _ => False

theorem toI32_small {n : Nat} (h : n ≤ 2147483647) : toI32 (n : Int) = n := by
  unfold toI32
  have : ((n : Int) + 2147483648) % 4294967296 = (n : Int) + 2147483648 :=
    Int.emod_eq_of_lt (by omega) (by omega)
  omega

theorem readStep_ok (intMax : Int) (len : Nat) (s : Sizes ns) (hlen : len ≤ 2147483647)
    (p : Ptr ns) (c : Nat) (a rest : Bytes) (h : ArrOK intMax s p c a) (hl : (a ++ rest).length ≤ len) :
    readStep intMax len s p c (a ++ rest) = .ok (a, rest) := by
  obtain ⟨hnc, hb, hcap⟩ := h
  have hl' : a.length + rest.length ≤ len := by simpa [List.length_append] using hl
  have hbytes : (p.esz : Int) * s[p.nr] * p.nc s = (a.length : Int) := by
    rw [hb]; rfl
  have h64 : ((a.length : Int) % (two64 : Int)).toNat = a.length := by
    have : (a.length : Int) % (two64 : Int) = a.length :=
      Int.emod_eq_of_lt (by omega) (by unfold two64; omega)
    rw [this]; simp
  simp only [readStep, hnc, Res.ok_bind, hbytes, h64, List.length_append]
  have hmod : (len - (a.length + rest.length) + a.length) % two64 = len - (a.length + rest.length) + a.length := by
    apply Nat.mod_eq_of_lt
    unfold two64; omega
  rw [hmod, if_neg (by omega), toI32_small (by omega), if_neg (by omega), if_neg (by omega)]
  simp only [Int.toNat_natCast, rdN_append' a _ rfl, if_neg (Nat.not_lt.mpr hcap)]

theorem readArrays_flatten (intMax : Int) (len : Nat) (s : Sizes ns) (hlen : len ≤ 2147483647) :
    ∀ (ps : List (Ptr ns)) (cs : List Nat) (as : List Bytes) (tail : Bytes),
      ArrsOK intMax s ps cs as → (as.flatten ++ tail).length ≤ len →
      readArrays intMax len s ps cs (as.flatten ++ tail) = .ok (as, tail)
  | [], [], [], tail, _, _ => by simp [readArrays]
  | p :: ps, c :: cs, a :: as, tail, h, hl => by
    obtain ⟨h1, hrest⟩ := h
    have hl' : (a ++ (as.flatten ++ tail)).length ≤ len := by
      simpa [List.append_assoc] using hl
    have hl2 : (as.flatten ++ tail).length ≤ len := by
      simp only [List.length_append] at hl' ⊢; omega
    have ih := readArrays_flatten intMax len s hlen ps cs as tail hrest hl2
    simp only [readArrays, List.flatten_cons, List.append_assoc,
      readStep_ok intMax len s hlen p c a _ h1 hl', Res.ok_bind, ih]
  | [], [], _ :: _, _, h, _ => by simp [ArrsOK] at h
  | [], _ :: _, _, _, h, _ => by simp [ArrsOK] at h
  | _ :: _, [], _, _, h, _ => by simp [ArrsOK] at h
  | _ :: _, _ :: _, [], _, h, _ => by simp [ArrsOK] at h


theorem readBlobs_flatten : ∀ (spec : List (String × Nat)) (blobs : List Bytes) (tail : Bytes),
    blobs.map List.length = spec.map (·.2) →
    readBlobs spec (blobs.flatten ++ tail) = .ok (blobs, tail)
  | [], [], tail, _ => by simp [readBlobs]
  | (nm, n) :: spec, b :: blobs, tail, h => by
    simp only [List.map_cons, List.cons.injEq] at h
    obtain ⟨h1, h2⟩ := h
    have ih := readBlobs_flatten spec blobs tail h2
    simp only [readBlobs, List.flatten_cons, List.append_assoc, rdN_append' b _ h1]
    rw [ih]; rfl
  | [], _ :: _, _, h => by simp at h
  | _ :: _, [], _, h => by simp at h

theorem safeAdd_cap {al esz off cap off' : Nat} {nr nc : Int}
    (h : safeAdd al esz nr nc off = some (cap, off')) : (cap : Int) = esz * nr * nc := by
  unfold safeAdd at h
  split at h
  · cases h
  · rename_i hneg
    split at h
    · cases h
    · split at h
      · cases h
      · simp only at h
        split at h
        · cases h
        · split at h
          · cases h
          · simp only [Option.some.injEq, Prod.mk.injEq] at h
            obtain ⟨h1, _⟩ := h
            have hnr : 0 ≤ nr := by omega
            have hnc : 0 ≤ nc := by omega
            have : 0 ≤ nc * nr * (esz : Int) := Int.mul_nonneg (Int.mul_nonneg hnc hnr) (by omega)
            rw [← h1, Int.toNat_of_nonneg this]
            ac_rfl

/-- `caps` are the exact byte counts of the pointers under sizes `sa` -/
def CapsOK (sa : Sizes ns) : List (Ptr ns) → List Nat → Prop
  | [], [] => True
  | p :: ps, c :: cs => ((c : Nat) : Int) = p.bytes sa ∧ CapsOK sa ps cs
  | _, _ => False

theorem allocLoop_caps (L : Layout ns) (sa : Sizes ns) :
    ∀ (ps : List (Ptr ns)) (off : Nat) (caps : List Nat) (tot : Nat),
      allocLoop L sa ps off = .ok (caps, tot) → CapsOK sa ps caps
  | [], off, caps, tot, h => by
    simp only [allocLoop, Res.ok.injEq, Prod.mk.injEq] at h
    rw [← h.1]; trivial
  | p :: ps, off, caps, tot, h => by
    simp only [allocLoop] at h
    split at h
    · cases h
    · rename_i cap off' hs
      obtain ⟨r, hr, hr2⟩ := Res.bind_eq_ok h
      simp only [Res.ok.injEq, Prod.mk.injEq] at hr2
      rw [← hr2.1]
      refine ⟨?_, allocLoop_caps L sa ps off' r.1 r.2 (by rw [hr])⟩
      rw [safeAdd_cap hs]; rfl

end MjProof.Mjb
